import RxnModel.Proofs.CkptStep
import RxnModel.Proofs.CkptFiles
import RxnModel.Proofs.Lsm
import RxnModel.Proofs.LsmScan
import RxnModel.Proofs.CompactionSound
/-!
Helper lemmas for C08, specification level: composition of the restore theorems with the C07 refinement invariant
`Lsm.Inv` (reads of the LSM state machine = the map of the writes). The C07 invariant is carried through every
action of the checkpointing system, re-established for a restored instance from the invariant of the state the
checkpoint was captured in, and related to the expected map `SpecSt.m` by `answer` (a restored instance renumbers
replayed writes, so entries agree up to sequence numbers).
-/
namespace Rxn.Ckpt
open Rxn Rxn.Lsm

theorem lookup_append (a b : Run) (k : Bytes) :
    Run.lookup (a ++ b) k = match Run.lookup a k with
      | some e => some e
      | none => Run.lookup b k := by
  induction a with
  | nil => rfl
  | cons x xs ih =>
    simp only [List.cons_append, Run.lookup]
    by_cases h : x.key = k
    · simp [h]
    · simp [h, ih]

theorem lookup_flatten (rs : List Run) (k : Bytes) :
    Run.lookup rs.flatten k = firstSome (fun r => r.lookup k) rs := by
  induction rs with
  | nil => rfl
  | cons r rs ih =>
    simp only [List.flatten_cons, lookup_append, firstSome, ih]
    cases Run.lookup r k <;> rfl

/-- the specification of a freshly loaded level list: its tables in read order -/
def baseSpec (levels : List (List Tbl)) : Spec := ((readOrder levels).map (·.run)).flatten

/-- the C07 invariant of an instance freshly created from a captured level list -/
theorem base_lsm_inv {db : Lsm.State} {m : Spec} (h : Lsm.Inv db m) (n : Nat) :
    Lsm.Inv { seq := tablesMaxSeq db.levels.flatten, mems := [[]], levels := db.levels, nextId := n,
              flushing := none, reading := none } (baseSpec db.levels) := by
  have hcont : ∀ r ∈ (readOrder db.levels).map (·.run), r ∈ containers db := by
    intro r hr; simp only [containers, List.mem_append]; exact Or.inr hr
  refine ⟨by simp, h.levels_ne, ?_, ?_, ?_, ?_, h.deep⟩
  · intro r hr
    simp only [containers, List.reverse_cons, List.reverse_nil, List.nil_append, List.cons_append,
      List.mem_cons] at hr
    rcases hr with rfl | hr
    · exact Run.sorted_nil
    · exact h.sorted r (hcont r hr)
  · intro k
    simp only [containers, List.reverse_cons, List.reverse_nil, List.nil_append, List.cons_append, firstHit,
      firstSome, Run.lookup, baseSpec, Spec.get, lookup_flatten]
  · intro r hr e he
    simp only [containers, List.reverse_cons, List.reverse_nil, List.nil_append, List.cons_append,
      List.mem_cons] at hr
    rcases hr with rfl | hr
    · cases he
    · obtain ⟨t, ht, rfl⟩ := List.mem_map.mp hr
      exact le_levelsMaxSeq db.levels t (mem_readOrder _ _ ht) e he
  · have hn : NewerAbove (db.mems.reverse ++ (readOrder db.levels).map (fun t => t.run)) := h.newer
    have := (newerAbove_append.mp hn).2.1
    simp only [containers, List.reverse_cons, List.reverse_nil, List.nil_append, List.cons_append, NewerAbove]
    refine ⟨?_, this⟩
    intro e he
    cases he

theorem readInv_none {db : Lsm.State} (m : Spec) (h : db.reading = none) : ReadInv db m := by
  intro k r hr; rw [h] at hr; cases hr

/-- a foreground write of the checkpointing system is a `put`/`del` (+ `rotate`) of the LSM state machine -/
theorem writeStep_lsm {s s' : State} {del : Bool} {k v : Bytes} {rot : Bool} {m : Spec}
    (h : writeStep s del k v rot = some s') (hi : Lsm.Inv s.db m) (hr : ReadInv s.db m) :
    Lsm.Inv s'.db (specStep m s.db.seq (if del then .del k else .put k v)) ∧
    ReadInv s'.db (specStep m s.db.seq (if del then .del k else .put k v)) := by
  unfold writeStep at h
  split at h
  · cases h
  · rename_i db1 hdb
    have h1 := step_inv (Or.inr trivial) _ (fun _ _ _ _ => Rxn.Compaction.compactionSound) hi hr hdb
    cases rot
    · have : s'.db = db1 := by
        cases del <;> simp only [Bool.false_eq_true, if_false, if_true, Option.some.injEq] at h <;> rw [← h]
      rw [this]; exact h1
    · have hrot : Lsm.step db1 .rotate = some { db1 with mems := db1.mems ++ [[]] } := rfl
      have h2 := step_inv (Or.inr trivial) _ (fun _ _ _ h => by cases h) h1.1 h1.2 hrot
      have : s'.db = { db1 with mems := db1.mems ++ [[]] } := by
        cases del <;> simp only [Bool.false_eq_true, if_false, if_true, Option.some.injEq] at h <;> rw [← h]
      rw [this]; exact h2

theorem replay_lsm : ∀ (recs : List Wal.Rec) (rots : List Nat) (s s' : State) (m : Spec),
    replay s recs rots = some s' → Lsm.Inv s.db m → ReadInv s.db m →
    ∃ m', Lsm.Inv s'.db m' ∧ ReadInv s'.db m' := by
  intro recs rots
  induction recs with
  | nil =>
    intro s s' m h hi hr
    simp only [replay, Option.some.injEq] at h
    subst h; exact ⟨m, hi, hr⟩
  | cons r rs ih =>
    intro s s' m h hi hr
    simp only [replay] at h
    split at h
    · cases h
    · rename_i s1 h1
      obtain ⟨a, b⟩ := writeStep_lsm h1 hi hr
      exact ih s1 s' _ h a b

theorem get_eq_spec {db : Lsm.State} {m : Spec} (h : Lsm.Inv db m) (k : Bytes) : Lsm.get db k = Spec.get m k := by
  rw [get_eq_firstHit h]; exact h.hit k

/-- what is known about a retained checkpoint: it was captured in a state satisfying both invariants whose map
agrees with the map recorded for its id -/
def CkptOk (saved : List (Nat × Spec)) (c : Ckpt) : Prop :=
  ∃ (sc : State) (mc : Spec), Inv sc ∧ c = capture sc c.id ∧ Lsm.Inv sc.db mc ∧
    ∀ k, answer (Spec.get mc k) = answer (Spec.get (specAt saved c.id) k)

/-- the records `DB.Start` still has to replay, as the newest part of a specification map -/
def pendingSpec (rs : List Wal.Rec) : Spec := rs.reverse.map recEntry

/-- the specification-level invariant of the checkpointing system: the C07 invariant for some entry-level map `mL`
which, **with the records still to be replayed applied on top**, answers as the expected map -/
structure SInv (s : State) (sp : SpecSt) : Prop where
  inv : Inv s
  finv : FInv s
  lsm : ∃ mL, Lsm.Inv s.db mL ∧ ReadInv s.db mL ∧
    ∀ k, answer (Spec.get (pendingSpec s.replaying ++ mL) k) = answer (Spec.get sp.m k)
  cks : ∀ c ∈ s.ckpts, CkptOk sp.saved c

theorem replaying_nil_of (s : State) (a : Act) (hb : blocked s a = (!s.replaying.isEmpty))
    (h : ¬ ((!s.alive || blocked s a) = true)) : s.replaying = [] := by
  rw [hb] at h
  cases hr : s.replaying with
  | nil => rfl
  | cons x xs => simp [hr] at h

theorem writeStep_replaying {s s' : State} {del : Bool} {k v : Bytes} {rot : Bool}
    (h : writeStep s del k v rot = some s') : s'.replaying = s.replaying := by
  unfold writeStep at h
  split at h
  · cases h
  · cases rot <;> cases del <;> simp only [if_true, if_false, Bool.false_eq_true] at h <;> cases h <;> rfl

theorem replay_replaying : ∀ (recs : List Wal.Rec) (rots : List Nat) (s s' : State),
    replay s recs rots = some s' → s'.replaying = s.replaying := by
  intro recs rots
  induction recs with
  | nil => intro s s' h; simp only [replay, Option.some.injEq] at h; rw [← h]
  | cons r rs ih =>
    intro s s' h
    simp only [replay] at h
    split at h
    · cases h
    · rename_i s1 h1
      rw [ih s1 s' h, writeStep_replaying h1]

theorem lookup_rev_lastW (ws : List Wal.Rec) (k : Bytes) :
    Run.lookup (ws.reverse.map recEntry) k = lastW none ws k := by
  induction ws with
  | nil => rfl
  | cons w ws ih =>
    have h1 : lastW none (w :: ws) k = lastW (if w.key = k then some (recEntry w) else none) ws k := rfl
    rw [List.reverse_cons, List.map_append, lookup_append, ih, h1,
      lastW_init (if w.key = k then some (recEntry w) else none) ws k]
    cases lastW none ws k with
    | some e => rfl
    | none =>
      simp only [List.map_cons, List.map_nil, Run.lookup]
      by_cases hk : w.key = k
      · have : (recEntry w).key = k := hk
        simp [hk, this]
      · have : ¬ (recEntry w).key = k := hk
        simp [hk, this]

/-- swapping the newest-but-`pre` entry for one with the same key and the same answer changes no answer -/
theorem answer_mid (pre : Run) (e e' : Entry) (m : Spec) (k : Bytes) (hk : e.key = e'.key)
    (ha : answer (some e) = answer (some e')) :
    answer (Run.lookup (pre ++ e :: m) k) = answer (Run.lookup (pre ++ e' :: m) k) := by
  rw [lookup_append, lookup_append]
  cases Run.lookup pre k with
  | some x => rfl
  | none =>
    simp only [Run.lookup]
    by_cases h : e.key = k
    · have h' : e'.key = k := hk ▸ h
      simp only [h, h', if_true]; exact ha
    · have h' : ¬ e'.key = k := hk ▸ h
      simp only [h, h', if_false]

theorem specAt_cons_ne (saved : List (Nat × Spec)) (id i : Nat) (m : Spec) (h : i ≠ id) :
    specAt ((id, m) :: saved) i = specAt saved i := by
  have : (id == i) = false := by simpa using Ne.symm h
  simp [specAt, List.find?, this]

theorem specAt_cons_eq (saved : List (Nat × Spec)) (id : Nat) (m : Spec) : specAt ((id, m) :: saved) id = m := by
  simp [specAt, List.find?]

theorem cks_mono {saved : List (Nat × Spec)} {cs cs' : List Ckpt} (h : ∀ c ∈ cs, CkptOk saved c)
    (hsub : ∀ c ∈ cs', c ∈ cs) : ∀ c ∈ cs', CkptOk saved c := fun c hc => h c (hsub c hc)

theorem answer_cons (e : Entry) (m m' : Spec) (k : Bytes)
    (h : answer (Spec.get m k) = answer (Spec.get m' k)) :
    answer (Spec.get (e :: m) k) = answer (Spec.get (e :: m') k) := by
  simp only [Spec.get, Run.lookup] at h ⊢
  by_cases hk : e.key = k
  · simp [hk]
  · simp [hk, h]

/-- restoring a retained checkpoint: the restored instance satisfies the C07 invariant and answers as the record's
map does -/
theorem restore_lsm {saved : List (Nat × Spec)} {c : Ckpt} (hc : CkptOk saved c) (files : Files) (rots : List Nat)
    (r : State) (hr : restore files c rots = some r) :
    ∃ mL, Lsm.Inv r.db mL ∧ ReadInv r.db mL ∧
      ∀ k, answer (Spec.get mL k) = answer (Spec.get (specAt saved c.id) k) := by
  obtain ⟨sc, mc, hisc, hcap, hlsm, hans⟩ := hc
  -- the restored state is the one `restore_capture`-style reasoning talks about
  have hbase : Lsm.Inv (restoreBase files c).db (baseSpec c.levels) := by
    have := base_lsm_inv hlsm (tablesNextId sc.db.levels.flatten)
    rw [hcap]; exact this
  simp only [restore] at hr
  split at hr
  · cases hr
  · rename_i recs hrecs
    obtain ⟨mL, hL, hR⟩ := replay_lsm recs rots _ r _ hr hbase (readInv_none _ rfl)
    refine ⟨mL, hL, hR, ?_⟩
    intro k
    rw [← get_eq_spec hL k, ← hans k, ← get_eq_spec hlsm k]
    -- point reads of the restored instance = point reads of the captured state
    obtain ⟨f, hcn, hf1, hf2⟩ := hisc.cons
    obtain ⟨ps, hm, _, hfl⟩ := hisc.parts
    have hread : walRead sc.wal.entries sc.latest =
        some (sc.wal.entries.filter (fun x => decide (sc.latest < x.seq))) := by
      cases hE : sc.wal.entries with
      | nil => rfl
      | cons x xs =>
        rw [hE] at hcn hf2
        have hx : x.seq = f := hcn.1
        have hle := hisc.le
        simp only [List.length_cons] at hf2
        have hn : ¬ (sc.latest + 1 < x.seq) := by omega
        have hl : sc.latest + 1 - x.seq ≤ (x :: xs).length := by simp only [List.length_cons]; omega
        simp only [walRead, hn, if_false, hl, if_true]
        rw [hx, Wal.drop_eq_filter f (x :: xs) hcn sc.latest]
    have hrecs' : recs = sc.wal.entries.filter (fun x => decide (sc.latest < x.seq)) := by
      rw [hcap] at hrecs
      simp only [capture] at hrecs
      rw [hread] at hrecs
      exact (Option.some.inj hrecs).symm
    obtain ⟨hir, hlev, hlat, news, hnews, htrip, hgt⟩ := replay_inv _ _ _ _ (restoreBase_inv files c) hr
    obtain ⟨ps', hm', _, hfl'⟩ := hir.parts
    rw [get_parts r.db ps' hm' k, get_parts sc.db ps hm k, hfl', hfl, hlev, hlat]
    have hent : r.wal.entries = news := by
      rw [hnews]; simp [restoreBase, Wal.Writer.new, Wal.Writer.entries]
    have hall : r.wal.entries.filter (fun x => decide ((restoreBase files c).latest < x.seq)) = news := by
      rw [hent, List.filter_eq_self]
      intro e he
      exact decide_eq_true (by simpa [restoreBase] using hgt e he)
    rw [hall]
    rw [hrecs'] at htrip
    obtain ⟨ha, hs⟩ := answer_lastW none none news _ k rfl rfl htrip
    have hlv : (restoreBase files c).db.levels = sc.db.levels := by rw [hcap]; rfl
    rw [hlv]
    generalize lastW none news k = x at ha hs
    generalize lastW none (sc.wal.entries.filter (fun x => decide (sc.latest < x.seq))) k = y at ha hs
    cases x <;> cases y
    · rfl
    · simp at hs
    · simp at hs
    · exact ha

/-- point reads of a freshly created instance are lookups in its base specification -/
theorem baseSpec_get {db : Lsm.State} {m : Spec} (h : Lsm.Inv db m) (k : Bytes) :
    Spec.get (baseSpec db.levels) k = levelsGet db.levels k := by
  have hb := base_lsm_inv h 0
  rw [← get_eq_spec hb k]
  simp [Lsm.get, memGet, firstSome, Run.lookup]

/-- the records a checkpoint's WAL replays, on top of its tables, are the map of the capture state -/
theorem capture_spec {sc : State} {mc : Spec} (hisc : Inv sc) (hlsm : Lsm.Inv sc.db mc) (k : Bytes) :
    Spec.get (pendingSpec (sc.wal.entries.filter (fun x => decide (sc.latest < x.seq))) ++ baseSpec sc.db.levels) k
      = Spec.get mc k := by
  obtain ⟨ps, hm, _, hfl⟩ := hisc.parts
  rw [← get_eq_spec hlsm k, get_parts sc.db ps hm k, hfl]
  simp only [Spec.get, pendingSpec]
  rw [lookup_append, lookup_rev_lastW]
  have := baseSpec_get hlsm k
  simp only [Spec.get] at this
  rw [this]
  generalize lastW none _ k = x
  cases x <;> rfl

theorem walRead_capture {sc : State} (hisc : Inv sc) :
    walRead sc.wal.entries sc.latest = some (sc.wal.entries.filter (fun x => decide (sc.latest < x.seq))) := by
  obtain ⟨f, hcn, hf1, hf2⟩ := hisc.cons
  cases hE : sc.wal.entries with
  | nil => rfl
  | cons x xs =>
    rw [hE] at hcn hf2
    have hx : x.seq = f := hcn.1
    have hle := hisc.le
    simp only [List.length_cons] at hf2
    have hn : ¬ (sc.latest + 1 < x.seq) := by omega
    have hl : sc.latest + 1 - x.seq ≤ (x :: xs).length := by simp only [List.length_cons]; omega
    simp only [walRead, hn, if_false, hl, if_true]
    rw [hx, Wal.drop_eq_filter f (x :: xs) hcn sc.latest]

theorem open_replaying_nil {s r : State} {id : Nat} {rots : List Nat} (h : step s (.open id rots) = some r) :
    r.replaying = [] := by
  simp only [step] at h
  split at h
  · cases h
  · simp only [restore] at h
    split at h
    · cases h
    · rw [replay_replaying _ _ _ _ h]; rfl

theorem sinv_init : SInv ({} : State) ({} : SpecSt) :=
  ⟨init_inv, finv_init, ⟨[], Lsm.inv_init, readInv_init, fun _ => rfl⟩, by intro c hc; cases hc⟩

theorem sinv_step (s s' : State) (sp : SpecSt) (a : Act) (h : SInv s sp)
    (hg : guardOk s a = true)
    (hs : step s a = some s') : SInv s' (stepSpec s sp a) := by
  have hinv' := inv_step s s' a h.inv hs
  have hf' := finv_step s s' a h.finv hs
  obtain ⟨mL, hL, hR, hA⟩ := h.lsm
  cases a with
  | write del k v rot =>
    simp only [step] at hs
    split at hs
    · cases hs
    · rename_i hnb
      have hre := replaying_nil_of s _ rfl hnb
      rw [hre] at hA
      obtain ⟨a1, b1⟩ := writeStep_lsm hs hL hR
      refine ⟨hinv', hf', ⟨_, a1, b1, ?_⟩, ?_⟩
      · intro k'
        rw [writeStep_replaying hs, hre]
        cases del
        · exact answer_cons _ _ _ _ (hA k')
        · exact answer_cons _ _ _ _ (hA k')
      · rw [(writeStep_frame hs).ckpts]; exact h.cks
  | flushBegin n =>
    simp only [step] at hs
    split at hs
    · cases hs
    · split at hs
      · cases hs
      · rename_i db' hst
        simp only [Option.some.injEq] at hs
        subst hs
        have := step_inv (Or.inr trivial) _ (fun _ _ _ h => by cases h) hL hR hst
        exact ⟨hinv', hf', ⟨mL, this.1, this.2, hA⟩, h.cks⟩
  | flushCommit =>
    simp only [step] at hs
    split at hs
    · cases hs
    · split at hs
      · rename_i snap db' hfl hst
        simp only [Option.some.injEq] at hs
        subst hs
        have := step_inv (Or.inr trivial) _ (fun _ _ _ h => by cases h) hL hR hst
        exact ⟨hinv', hf', ⟨mL, this.1, this.2, hA⟩, h.cks⟩
      · cases hs
  | compact rm lvl add =>
    simp only [step] at hs
    split at hs
    · cases hs
    · split at hs
      · cases hs
      · rename_i db' hst
        simp only [Option.some.injEq] at hs
        subst hs
        have := step_inv (Or.inr trivial) _ (fun _ _ _ _ => Rxn.Compaction.compactionSound) hL hR hst
        exact ⟨hinv', hf', ⟨mL, this.1, this.2, hA⟩, h.cks⟩
  | checkpoint id =>
    simp only [step] at hs
    split at hs
    · cases hs
    · split at hs
      · cases hs
      · rename_i hnb hused
        have hre := replaying_nil_of s _ rfl hnb
        simp only [Option.some.injEq] at hs
        subst hs
        refine ⟨hinv', hf', ⟨mL, hL, hR, hA⟩, ?_⟩
        rw [hre] at hA
        intro c hc
        simp only [List.mem_append, List.mem_singleton] at hc
        rcases hc with hc | rfl
        · obtain ⟨sc, mc, h1, h2, h3, h4⟩ := h.cks c hc
          have hne : c.id ≠ id := by
            intro e
            have := h.finv.cused c hc
            rw [e] at this
            simp only [Bool.not_eq_true] at hused
            have hcontra : s.used.contains id = true := by simpa using this
            rw [hused] at hcontra; cases hcontra
          exact ⟨sc, mc, h1, h2, h3, fun k => by simp only [stepSpec]; rw [specAt_cons_ne _ _ _ _ hne]; exact h4 k⟩
        · exact ⟨s, mL, h.inv, rfl, hL, fun k => by simp only [stepSpec]; rw [specAt_cons_eq]; exact hA k⟩
  | saveWal id =>
    simp only [step] at hs
    split at hs
    · cases hs
    · split at hs
      · cases hs
      · simp only [Option.some.injEq] at hs
        subst hs
        exact ⟨hinv', hf', ⟨mL, hL, hR, hA⟩, h.cks⟩
  | saveDoc id =>
    simp only [step] at hs
    split at hs
    · cases hs
    · split at hs
      · cases hs
      · simp only [Option.some.injEq] at hs
        subst hs
        exact ⟨hinv', hf', ⟨mL, hL, hR, hA⟩, h.cks⟩
  | retain ids =>
    simp only [step] at hs
    split at hs
    · cases hs
    · split at hs
      · cases hs
      · simp only [Option.some.injEq] at hs
        subst hs
        exact ⟨hinv', hf', ⟨mL, hL, hR, hA⟩, cks_mono h.cks (fun c hc => (List.mem_filter.mp hc).1)⟩
  | openBegin id =>
    simp only [guardOk, retainedDone, Bool.and_eq_true, List.any_eq_true, beq_iff_eq] at hg
    obtain ⟨hdone, c, hc, hcid⟩ := hg
    have hdone' : c.id ∈ s.done := by rw [hcid]; simpa using hdone
    have hload := load_of_done s h.finv c hc hdone'
    rw [hcid] at hload
    obtain ⟨sc, mc, hisc, hcap, hlsm, hans⟩ := h.cks c hc
    have hread : walRead c.recs c.after = some (sc.wal.entries.filter (fun x => decide (sc.latest < x.seq))) := by
      rw [hcap]; exact walRead_capture hisc
    simp only [step, hload, hread, Option.some.injEq] at hs
    subst hs
    have hbase : Lsm.Inv (restoreBase s.files c).db (baseSpec c.levels) := by
      have := base_lsm_inv hlsm (tablesNextId sc.db.levels.flatten)
      rw [hcap]; exact this
    refine ⟨hinv', hf', ⟨baseSpec c.levels, hbase, readInv_none _ rfl, ?_⟩, ?_⟩
    · intro k
      simp only [stepSpec]
      have hlv : c.levels = sc.db.levels := by rw [hcap]; rfl
      show answer (Spec.get (pendingSpec (sc.wal.entries.filter (fun x => decide (sc.latest < x.seq))) ++ baseSpec c.levels) k) = _
      rw [hlv, capture_spec hisc hlsm k, ← hcid]
      exact hans k
    · intro c' hc'
      have : c' = c := by simpa [restoreBase] using hc'
      subst this
      exact h.cks c' hc
  | replayOne rot =>
    simp only [step] at hs
    split at hs
    · cases hs
    · split at hs
      · cases hs
      · rename_i r rs hrep
        split at hs
        · cases hs
        · rename_i s1 h1
          simp only [Option.some.injEq] at hs
          subst hs
          obtain ⟨a1, b1⟩ := writeStep_lsm h1 hL hR
          refine ⟨hinv', hf', ⟨_, a1, b1, ?_⟩, by show ∀ c ∈ s1.ckpts, _; rw [(writeStep_frame h1).ckpts]; exact h.cks⟩
          intro k
          show answer (Spec.get (pendingSpec rs ++ _) k) = answer (Spec.get sp.m k)
          rw [← hA k, hrep]
          simp only [pendingSpec, List.reverse_cons, List.map_append, List.map_cons, List.map_nil, List.append_assoc,
            List.singleton_append, Spec.get]
          cases hd : r.del
          · simp only [hd, Bool.false_eq_true, if_false, specStep]
            exact answer_mid _ _ _ _ k rfl (by simp [answer, recEntry, hd])
          · simp only [hd, if_true, specStep]
            exact answer_mid _ _ _ _ k rfl (by simp [answer, recEntry, hd])
  | saveList =>
    simp only [step] at hs
    split at hs
    · cases hs
    · simp only [Option.some.injEq] at hs
      subst hs
      exact ⟨hinv', hf', ⟨mL, hL, hR, hA⟩, h.cks⟩
  | destroy =>
    simp only [step] at hs
    split at hs
    · cases hs
    · obtain ⟨a, _, _, d, _, _, _, e⟩ := destroyOne_same hs
      exact ⟨hinv', hf', ⟨mL, by rw [a]; exact hL, by rw [a]; exact hR, by rw [e]; exact hA⟩, by rw [d]; exact h.cks⟩
  | orphan id run =>
    simp only [step] at hs
    split at hs
    · cases hs
    · split at hs
      · cases hs
      · simp only [Option.some.injEq] at hs
        subst hs
        exact ⟨hinv', hf', ⟨mL, hL, hR, hA⟩, h.cks⟩
  | crash =>
    simp only [step] at hs
    split at hs
    · cases hs
    · simp only [Option.some.injEq] at hs
      subst hs
      exact ⟨hinv', hf', ⟨mL, hL, hR, hA⟩, h.cks⟩
  | «open» id rots =>
    simp only [guardOk, retainedDone, Bool.and_eq_true, List.any_eq_true, beq_iff_eq] at hg
    obtain ⟨hdone, c, hc, hcid⟩ := hg
    have hdone' : c.id ∈ s.done := by rw [hcid]; simpa using hdone
    have hload := load_of_done s h.finv c hc hdone'
    rw [hcid] at hload
    have hs' := hs
    simp only [step, hload] at hs'
    obtain ⟨mLr, a1, a2, a3⟩ := restore_lsm (h.cks c hc) s.files rots s' hs'
    have hck : s'.ckpts = [c] := by
      simp only [restore] at hs'
      split at hs'
      · cases hs'
      · rw [(replay_frame _ _ _ _ hs').ckpts]; rfl
    have hrep : s'.replaying = [] := by
      simp only [restore] at hs'
      split at hs'
      · cases hs'
      · rw [replay_replaying _ _ _ _ hs']; rfl
    refine ⟨hinv', hf', ⟨mLr, a1, a2, fun k => by simp only [stepSpec]; rw [hrep, ← hcid]; exact a3 k⟩, ?_⟩
    intro c' hc'
    rw [hck] at hc'
    simp only [List.mem_singleton] at hc'
    subst hc'
    exact h.cks c' hc

theorem sinv_run : ∀ (as : List Act) (s s' : State) (sp sp' : SpecSt), SInv s sp →
    runSpec s sp as = some (s', sp') → SInv s' sp' := by
  intro as
  induction as with
  | nil => intro s s' sp sp' h hr; simp only [runSpec, Option.some.injEq, Prod.mk.injEq] at hr; obtain ⟨rfl, rfl⟩ := hr; exact h
  | cons a as ih =>
    intro s s' sp sp' h hr
    simp only [runSpec] at hr
    by_cases hg : guardOk s a = true
    · rw [if_pos hg] at hr
      cases hst : step s a with
      | none => rw [hst] at hr; cases hr
      | some s1 =>
        rw [hst] at hr
        exact ih s1 s' _ sp' (sinv_step s s1 sp a h hg hst) hr
    · rw [if_neg hg] at hr; cases hr

theorem runSpec_append (a b : List Act) : ∀ (s : State) (sp : SpecSt),
    runSpec s sp (a ++ b) = match runSpec s sp a with
      | some (s', sp') => runSpec s' sp' b
      | none => none := by
  induction a with
  | nil => intro s sp; rfl
  | cons x xs ih =>
    intro s sp
    simp only [List.cons_append, runSpec]
    by_cases hg : guardOk s x = true
    · simp only [hg, if_true]
      cases hst : step s x with
      | none => rfl
      | some s1 => exact ih s1 _
    · simp only [hg]; rfl

/-- the map recorded for `id` is only replaced by another `Checkpoint(id)` call -/
theorem saved_keep (id : Nat) : ∀ (as : List Act) (s s' : State) (sp sp' : SpecSt),
    (∀ a ∈ as, a = Act.checkpoint id → False) → runSpec s sp as = some (s', sp') →
    specAt sp'.saved id = specAt sp.saved id := by
  intro as
  induction as with
  | nil => intro s s' sp sp' _ hr; simp only [runSpec, Option.some.injEq, Prod.mk.injEq] at hr; rw [← hr.2]
  | cons a as ih =>
    intro s s' sp sp' hno hr
    simp only [runSpec] at hr
    by_cases hg : guardOk s a = true
    · rw [if_pos hg] at hr
      cases hst : step s a with
      | none => rw [hst] at hr; cases hr
      | some s1 =>
        rw [hst] at hr
        rw [ih s1 s' _ sp' (fun x hx => hno x (by simp [hx])) hr]
        cases a with
        | checkpoint id' =>
          have hne : id ≠ id' := by intro e; exact hno (.checkpoint id') (by simp) (by rw [e])
          simp only [stepSpec]
          exact specAt_cons_ne _ _ _ _ hne
        | _ => rfl
    · rw [if_neg hg] at hr; cases hr

end Rxn.Ckpt
