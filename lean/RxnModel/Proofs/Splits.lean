import RxnModel.Model.Splits
/-! Helper lemmas for C16 (`Model/Splits.lean`). Core Lean only. -/
namespace Rxn.Splits

/-! ## Partition -/

theorem length_addAt {α : Type} (gs : List (List α)) (i : Nat) (x : α) : (addAt gs i x).length = gs.length := by
  induction gs generalizing i with
  | nil => rfl
  | cons g gs ih => cases i <;> simp [addAt, ih]

theorem flatten_addAt {α : Type} (gs : List (List α)) (i : Nat) (x : α) (h : i < gs.length) :
    (addAt gs i x).flatten.Perm (x :: gs.flatten) := by
  induction gs generalizing i with
  | nil => simp at h
  | cons g gs ih =>
    cases i with
    | zero =>
      simp only [addAt, List.flatten_cons, List.append_assoc, List.singleton_append]
      exact List.perm_middle
    | succ i =>
      simp only [addAt, List.flatten_cons]
      have h' : i < gs.length := by simpa using h
      exact ((ih i h').append_left g).trans List.perm_middle

theorem bump_lt {n : Nat} (gi : Nat) (hn : 0 < n) : bump n gi < n := by
  unfold bump; split <;> omega

theorem partLoop_spec {α : Type} (n : Nat) (hn : 0 < n) (xs : List α) (gs : List (List α)) (gi : Nat)
    (hl : gs.length = n) (hgi : gi < n) :
    (partLoop n xs gs gi).length = n ∧ (partLoop n xs gs gi).flatten.Perm (gs.flatten ++ xs) := by
  induction xs generalizing gs gi with
  | nil => simp [partLoop, hl]
  | cons x xs ih =>
    have hl' : (addAt gs gi x).length = n := by rw [length_addAt, hl]
    obtain ⟨h1, h2⟩ := ih (addAt gs gi x) (bump n gi) hl' (bump_lt gi hn)
    refine ⟨h1, ?_⟩
    simp only [partLoop]
    refine h2.trans ?_
    have := flatten_addAt gs gi x (by omega)
    exact (this.append_right xs).trans List.perm_middle.symm

theorem flatten_replicate_nil {α : Type} (n : Nat) : (List.replicate n ([] : List α)).flatten = [] := by
  induction n with
  | zero => rfl
  | succ n ih => simp [List.replicate_succ, ih]

/-! ## The barrier cut -/

theorem recIdx_append (s : Nat) (a b : List Ev) : recIdx s (a ++ b) = recIdx s a ++ recIdx s b := by
  induction a with
  | nil => rfl
  | cons e a ih =>
    cases e with
    | record s' i => by_cases h : (s' == s) = true <;> simp [recIdx, h, ih]
    | barrier n => simp [recIdx, ih]

theorem recIdx_nil_of_not_mem (s : Nat) (l : List Ev) (h : ∀ i, Ev.record s i ∉ l) : recIdx s l = [] := by
  induction l with
  | nil => rfl
  | cons e l ih =>
    have ih' := ih (fun i hi => h i (List.mem_cons_of_mem _ hi))
    cases e with
    | record s' i =>
      by_cases hs : (s' == s) = true
      · have : s' = s := by simpa using hs
        subst this
        exact absurd (List.mem_cons_self) (h i)
      · simp [recIdx, hs, ih']
    | barrier n => simp [recIdx, ih']

theorem mem_of_mem_recIdx (s i : Nat) (l : List Ev) (h : i ∈ recIdx s l) : Ev.record s i ∈ l := by
  induction l with
  | nil => simp [recIdx] at h
  | cons e l ih =>
    cases e with
    | record s' j =>
      by_cases hs : (s' == s) = true
      · have e1 : s' = s := by simpa using hs
        simp only [recIdx, hs, if_true, List.mem_cons] at h
        rcases h with h | h
        · subst h; subst e1; exact List.mem_cons_self
        · exact List.mem_cons_of_mem _ (ih h)
      · simp only [recIdx, hs] at h
        exact List.mem_cons_of_mem _ (ih h)
    | barrier n =>
      simp only [recIdx] at h
      exact List.mem_cons_of_mem _ (ih h)

theorem hasSplit_iff (ss : List RSplit) (s : Nat) : hasSplit ss s = true ↔ ∃ r ∈ ss, r.split = s := by
  simp [hasSplit, List.any_eq_true]

theorem curOf_of_mem (ss : List RSplit) (hn : (ss.map (·.split)).Nodup) (r : RSplit) (hr : r ∈ ss) :
    curOf ss r.split = some r.cur := by
  induction ss with
  | nil => simp at hr
  | cons a ss ih =>
    simp only [List.map_cons, List.nodup_cons] at hn
    rcases List.mem_cons.mp hr with h | h
    · subst h; simp [curOf]
    · have hne : a.split ≠ r.split := by
        intro e; exact hn.1 (e ▸ List.mem_map_of_mem (f := (·.split)) h)
      simp [curOf, hne, ih hn.2 h]

theorem curOf_some (ss : List RSplit) (s c : Nat) (h : curOf ss s = some c) : ∃ r ∈ ss, r.split = s ∧ r.cur = c := by
  induction ss with
  | nil => simp [curOf] at h
  | cons a ss ih =>
    by_cases hs : (a.split == s) = true
    · simp only [curOf, hs, if_true, Option.some.injEq] at h
      exact ⟨a, List.mem_cons_self, by simpa using hs, h⟩
    · simp only [curOf, hs] at h
      obtain ⟨r, hr, h1, h2⟩ := ih h
      exact ⟨r, List.mem_cons_of_mem _ hr, h1, h2⟩

theorem advance_keys (ss : List RSplit) (s : Nat) : (advance ss s).map (·.split) = ss.map (·.split) := by
  simp only [advance, List.map_map]
  apply List.map_congr_left
  intro r _
  simp only [Function.comp]
  split <;> rfl

/-- what a checkpoint report claims about the output stream `out` -/
def ReportOK (out : List Ev) (rep : Report) : Prop :=
  out[rep.pos]? = some (Ev.barrier rep.id) ∧
  ∀ r ∈ rep.snap,
    r.init + (recIdx r.split (out.take rep.pos)).length = r.cur ∧
    (∀ i ∈ recIdx r.split (out.take rep.pos), i < r.cur) ∧
    (∀ i ∈ recIdx r.split (out.drop rep.pos), r.cur ≤ i)

structure RInv (st : RSt) : Prop where
  keys : (st.splits.map (·.split)).Nodup
  cur : ∀ r ∈ st.splits, r.init + (recIdx r.split st.out).length = r.cur ∧ ∀ i ∈ recIdx r.split st.out, i < r.cur
  held : ∀ s i, Ev.record s i ∈ st.out → hasSplit st.splits s = true
  reps : ∀ rep ∈ st.reports, rep.pos < st.out.length ∧ ReportOK st.out rep ∧
    ∀ r ∈ rep.snap, ∃ r' ∈ st.splits, r'.split = r.split ∧ r.cur ≤ r'.cur

theorem RInv.init : RInv {} := by
  constructor <;> simp

theorem reportOK_snoc (out : List Ev) (rep : Report) (e : Ev) (hp : rep.pos < out.length) (h : ReportOK out rep)
    (he : ∀ r ∈ rep.snap, ∀ i ∈ recIdx r.split [e], r.cur ≤ i) : ReportOK (out ++ [e]) rep := by
  obtain ⟨h1, h2⟩ := h
  refine ⟨by rw [List.getElem?_append_left hp]; exact h1, ?_⟩
  intro r hr
  obtain ⟨a, b, c⟩ := h2 r hr
  rw [List.take_append_of_le_length (Nat.le_of_lt hp), List.drop_append_of_le_length (Nat.le_of_lt hp)]
  refine ⟨a, b, ?_⟩
  intro i hi
  rw [recIdx_append] at hi
  rcases List.mem_append.mp hi with hi | hi
  · exact c i hi
  · exact he r hr i hi

theorem RInv.assignOne (st : RSt) (h : RInv st) (sc : Nat × Nat) (hnot : ∀ r ∈ st.splits, r.split ≠ sc.1) :
    RInv { st with splits := assignOne st.splits sc } := by
  unfold Splits.assignOne
  have hs : ¬ hasSplit st.splits sc.1 = true := by
    intro hh
    obtain ⟨r, hr, e⟩ := (hasSplit_iff _ _).mp hh
    exact hnot r hr e
  have hempty : recIdx sc.1 st.out = [] :=
    recIdx_nil_of_not_mem _ _ (fun i hi => hs (h.held _ _ hi))
  constructor
  · simp only [List.map_append, List.map_cons, List.map_nil]
    rw [List.nodup_append]
    refine ⟨h.keys, by simp, ?_⟩
    intro a ha b hb
    obtain ⟨r, hr, rfl⟩ := List.mem_map.mp ha
    simp only [List.mem_singleton] at hb
    subst hb; exact hnot r hr
  · intro r hr
    rcases List.mem_append.mp hr with hr | hr
    · exact h.cur r hr
    · simp only [List.mem_singleton] at hr
      subst hr; simp [hempty]
  · intro s i hi
    have := h.held s i hi
    rw [hasSplit_iff] at this ⊢
    obtain ⟨r, hr, e⟩ := this
    exact ⟨r, List.mem_append_left _ hr, e⟩
  · intro rep hrep
    obtain ⟨a, b, c⟩ := h.reps rep hrep
    refine ⟨a, b, ?_⟩
    intro r hr
    obtain ⟨r', hr', e⟩ := c r hr
    exact ⟨r', List.mem_append_left _ hr', e⟩

theorem foldl_assignOne_keys (l : List (Nat × Nat)) (ss : List RSplit) :
    (l.foldl Splits.assignOne ss).map (·.split) = ss.map (·.split) ++ l.map (·.1) := by
  induction l generalizing ss with
  | nil => simp
  | cons a l ih => simp [List.foldl_cons, ih, Splits.assignOne, List.append_assoc]

theorem RInv.assign (l : List (Nat × Nat)) (st : RSt) (h : RInv st)
    (hf : (st.splits.map (·.split) ++ l.map (·.1)).Nodup) :
    RInv { st with splits := l.foldl Splits.assignOne st.splits } := by
  induction l generalizing st with
  | nil => exact h
  | cons a l ih =>
    have hnot : ∀ r ∈ st.splits, r.split ≠ a.1 := by
      intro r hr e
      have := (List.nodup_append.mp hf).2.2 r.split (List.mem_map_of_mem hr) a.1 (by simp)
      exact this e
    apply ih _ (RInv.assignOne st h a hnot)
    have : (Splits.assignOne st.splits a).map (·.split) = st.splits.map (·.split) ++ [a.1] := by
      simp [Splits.assignOne]
    show ((Splits.assignOne st.splits a).map (·.split) ++ l.map (·.1)).Nodup
    rw [this, List.append_assoc]
    simpa using hf

theorem RInv.readLive (st : RSt) (h : RInv st) (s : Nat) : RInv (readLive st s) := by
  unfold Splits.readLive
  cases hc : curOf st.splits s with
  | none => exact h
  | some c =>
    simp only
    obtain ⟨r0, hr0, hs0, hc0⟩ := curOf_some _ _ _ hc
    have hcur : ∀ r ∈ st.splits, r.split = s → r.cur = c := by
      intro r hr e
      have := curOf_of_mem _ h.keys r hr
      rw [e, hc] at this
      exact (Option.some.inj this).symm
    constructor
    · simp only [advance_keys]; exact h.keys
    · intro r' hr'
      simp only [advance, List.mem_map] at hr'
      obtain ⟨r, hr, rfl⟩ := hr'
      obtain ⟨a, b⟩ := h.cur r hr
      by_cases e : (r.split == s) = true
      · have e' : r.split = s := by simpa using e
        have hc' := hcur r hr e'
        rw [if_pos e]
        simp only [recIdx_append, List.length_append]
        simp only [e', recIdx, beq_self_eq_true, if_true, List.length_singleton]
        rw [e'] at a b
        refine ⟨by omega, ?_⟩
        intro i hi
        rcases List.mem_append.mp hi with hi | hi
        · have := b i hi; omega
        · simp only [List.mem_singleton] at hi; omega
      · have e' : ¬ s = r.split := by intro x; exact e (by simp [x])
        have e'' : (s == r.split) = false := by simpa using e'
        rw [if_neg e]
        simp only [recIdx_append]
        simp only [recIdx, e'', Bool.false_eq_true, if_false, List.append_nil]
        exact ⟨a, b⟩
    · intro s' i hi
      rw [hasSplit_iff]
      rcases List.mem_append.mp hi with hi | hi
      · have := h.held s' i hi
        rw [hasSplit_iff] at this
        obtain ⟨r, hr, e⟩ := this
        refine ⟨_, List.mem_map_of_mem hr, ?_⟩
        split <;> exact e
      · simp only [List.mem_singleton, Ev.record.injEq] at hi
        refine ⟨_, List.mem_map_of_mem hr0, ?_⟩
        split <;> simp [hs0, hi.1]
    · intro rep hrep
      obtain ⟨a, b, d⟩ := h.reps rep hrep
      refine ⟨by simp only [List.length_append]; omega, ?_, ?_⟩
      · apply reportOK_snoc _ _ _ a b
        intro r hr i hi
        obtain ⟨r', hr', e1, e2⟩ := d r hr
        by_cases e : (s == r.split) = true
        · have e' : s = r.split := by simpa using e
          simp only [recIdx, e, if_true, List.mem_singleton] at hi
          have := hcur r' hr' (by omega)
          omega
        · simp [recIdx, e] at hi
      · intro r hr
        obtain ⟨r', hr', e1, e2⟩ := d r hr
        refine ⟨_, List.mem_map_of_mem hr', ?_⟩
        split
        · exact ⟨e1, by simp only; omega⟩
        · exact ⟨e1, e2⟩

theorem RInv.readOne (st : RSt) (h : RInv st) (s : Nat) : RInv (readOne st s) := by
  unfold Splits.readOne
  split
  · exact h
  · exact RInv.readLive st h s

theorem RInv.read (b : List Nat) (st : RSt) (h : RInv st) : RInv (b.foldl Splits.readOne st) := by
  induction b generalizing st with
  | nil => exact h
  | cons a b ih => exact ih _ (RInv.readOne st h a)

theorem RInv.barrier (st : RSt) (h : RInv st) (n : Nat) : RInv (rstep st (.barrier n)) := by
  simp only [rstep]
  constructor
  · exact h.keys
  · intro r hr
    obtain ⟨a, b⟩ := h.cur r hr
    simp only [recIdx_append, recIdx, List.append_nil]
    exact ⟨a, b⟩
  · intro s i hi
    rcases List.mem_append.mp hi with hi | hi
    · exact h.held s i hi
    · simp at hi
  · intro rep hrep
    rcases List.mem_append.mp hrep with hrep | hrep
    · obtain ⟨a, b, d⟩ := h.reps rep hrep
      refine ⟨by simp only [List.length_append]; omega, ?_, d⟩
      apply reportOK_snoc _ _ _ a b
      intro r _ i hi
      simp [recIdx] at hi
    · simp only [List.mem_singleton] at hrep
      subst hrep
      refine ⟨by simp, ⟨by simp, ?_⟩, ?_⟩
      · intro r hr
        obtain ⟨a, b⟩ := h.cur r (List.mem_filter.mp hr).1
        simp only [List.take_left', List.drop_left', recIdx]
        refine ⟨a, b, by simp⟩
      · intro r hr
        exact ⟨r, (List.mem_filter.mp hr).1, rfl, Nat.le_refl _⟩

theorem read_keys (b : List Nat) (st : RSt) :
    (b.foldl Splits.readOne st).splits.map (·.split) = st.splits.map (·.split) := by
  induction b generalizing st with
  | nil => rfl
  | cons a b ih =>
    rw [List.foldl_cons, ih]
    unfold Splits.readOne
    split
    · rfl
    · unfold Splits.readLive
      cases curOf st.splits a with
      | none => rfl
      | some c => exact advance_keys _ _

theorem RInv.run (as : List RAct) (st : RSt) (h : RInv st)
    (hf : (st.splits.map (·.split) ++ assignedIds as).Nodup) : RInv (rrun st as) := by
  induction as generalizing st with
  | nil => exact h
  | cons a as ih =>
    cases a with
    | assign l =>
      have hf' : (st.splits.map (·.split) ++ (l.map (·.1) ++ assignedIds as)).Nodup := hf
      rw [← List.append_assoc] at hf'
      apply ih _ (RInv.assign l st h (List.nodup_append.mp hf').1)
      show (((l.foldl Splits.assignOne st.splits).map (·.split)) ++ assignedIds as).Nodup
      rw [foldl_assignOne_keys]; exact hf'
    | read b =>
      apply ih _ (RInv.read b st h)
      show (((b.foldl Splits.readOne st).splits.map (·.split)) ++ assignedIds as).Nodup
      rw [read_keys]; exact hf
    | barrier n => exact ih _ (RInv.barrier st h n) hf
    | drop s => exact ih _ ⟨h.keys, h.cur, h.held, h.reps⟩ hf

theorem assignedIds_append (a b : List RAct) : assignedIds (a ++ b) = assignedIds a ++ assignedIds b := by
  induction a with
  | nil => rfl
  | cons x a ih =>
    cases x <;> simp [assignedIds, ih, List.append_assoc]

/-! ## A split the reader has dropped emits nothing more -/

structure FInv (st : RSt) : Prop where
  fin : ∀ sp ∈ st.finished, sp.2 ≤ st.out.length ∧ recIdx sp.1 (st.out.drop sp.2) = []

theorem FInv.snoc (st : RSt) (h : FInv st) (e : Ev) (he : ∀ sp ∈ st.finished, recIdx sp.1 [e] = []) :
    ∀ sp ∈ st.finished, sp.2 ≤ (st.out ++ [e]).length ∧ recIdx sp.1 ((st.out ++ [e]).drop sp.2) = [] := by
  intro sp hsp
  obtain ⟨a, b⟩ := h.fin sp hsp
  refine ⟨by simp only [List.length_append]; omega, ?_⟩
  rw [List.drop_append_of_le_length a, recIdx_append, b, he sp hsp]; rfl

theorem FInv.readOne (st : RSt) (h : FInv st) (s : Nat) : FInv (readOne st s) := by
  unfold Splits.readOne
  by_cases hf : isFinished st s = true
  · rw [if_pos hf]; exact h
  · rw [if_neg hf]
    unfold Splits.readLive
    cases hc : curOf st.splits s with
    | none => exact h
    | some c =>
      constructor
      apply FInv.snoc st h
      intro sp hsp
      have hne : (s == sp.1) = false := by
        cases hq : (s == sp.1) with
        | false => rfl
        | true =>
          exfalso; apply hf
          have : s = sp.1 := by simpa using hq
          exact List.any_eq_true.mpr ⟨sp, hsp, by simp [this]⟩
      simp [recIdx, hne]

theorem FInv.step (st : RSt) (h : FInv st) (a : RAct) : FInv (rstep st a) := by
  cases a with
  | assign l => exact ⟨h.fin⟩
  | read b =>
    show FInv (b.foldl Splits.readOne st)
    induction b generalizing st with
    | nil => exact h
    | cons x b ih => exact ih _ (FInv.readOne st h x)
  | barrier n =>
    constructor
    apply FInv.snoc st h
    intro sp _; simp [recIdx]
  | drop s =>
    constructor
    intro sp hsp
    rcases List.mem_append.mp hsp with h1 | h1
    · exact h.fin sp h1
    · simp only [List.mem_singleton] at h1
      subst h1
      show st.out.length ≤ st.out.length ∧ recIdx s (st.out.drop st.out.length) = []
      simp [recIdx]

theorem FInv.run (as : List RAct) (st : RSt) (h : FInv st) : FInv (rrun st as) := by
  induction as generalizing st with
  | nil => exact h
  | cons a as ih => exact ih _ (FInv.step st h a)

/-! ## A read is one atomic action of the loop -/

theorem readOne_atomic (st : RSt) (s : Nat) :
    ∃ recs, (readOne st s).out = st.out ++ recs ∧ (∀ e ∈ recs, ∀ n, e ≠ Ev.barrier n) ∧
      (readOne st s).reports = st.reports := by
  unfold Splits.readOne
  split
  · exact ⟨[], by simp, by simp, rfl⟩
  · unfold Splits.readLive
    cases hc : curOf st.splits s with
    | none => exact ⟨[], by simp, by simp, rfl⟩
    | some c =>
      refine ⟨[Ev.record s c], rfl, ?_, rfl⟩
      intro e he n
      simp only [List.mem_singleton] at he
      subst he
      intro h; cases h

theorem read_atomic (b : List Nat) (st : RSt) :
    ∃ recs, (b.foldl Splits.readOne st).out = st.out ++ recs ∧ (∀ e ∈ recs, ∀ n, e ≠ Ev.barrier n) ∧
      (b.foldl Splits.readOne st).reports = st.reports := by
  induction b generalizing st with
  | nil => exact ⟨[], by simp, by simp, rfl⟩
  | cons a b ih =>
    obtain ⟨r1, h1, h2, h3⟩ := readOne_atomic st a
    obtain ⟨r2, g1, g2, g3⟩ := ih (Splits.readOne st a)
    refine ⟨r1 ++ r2, ?_, ?_, ?_⟩
    · simp only [List.foldl_cons]; rw [g1, h1, List.append_assoc]
    · intro e he n
      rcases List.mem_append.mp he with h | h
      · exact h2 e h n
      · exact g2 e h n
    · simp only [List.foldl_cons]; rw [g3, h3]

/-! ## Kinesis reader under the loop -/

theorem rrun_append (st : RSt) (a b : List RAct) : rrun st (a ++ b) = rrun (rrun st a) b := by
  simp [rrun, List.foldl_append]

/-- the shards a Kinesis-level history assigns to the reader -/
def kAssignedIds : List KAct → List Nat
  | [] => []
  | .assign l :: as => l.map (·.1) ++ kAssignedIds as
  | _ :: as => kAssignedIds as

theorem kstep_is_rrun (k : KRd) (a : KAct) :
    ∃ ras, (kstep k a).1.r = rrun k.r ras ∧ assignedIds ras = kAssignedIds [a] := by
  cases a with
  | put s n => exact ⟨[], rfl, rfl⟩
  | assign l => exact ⟨[.assign l], rfl, by simp [assignedIds, kAssignedIds]⟩
  | fail n => exact ⟨[], rfl, rfl⟩
  | barrier n => exact ⟨[.barrier n], rfl, rfl⟩
  | close s => exact ⟨[], rfl, rfl⟩
  | expire => exact ⟨[], rfl, rfl⟩
  | read =>
    have hok : ∀ (k' : KRd) (sp : RSplit), k'.r = k.r →
        ∃ ras, (kreadOk k' sp).1.r = rrun k.r ras ∧ assignedIds ras = kAssignedIds [KAct.read] := by
      intro k' sp hr
      unfold kreadOk
      simp only
      split
      · exact ⟨[.read (List.replicate (min k'.limit (totalOf k'.totals sp.split - sp.cur)) sp.split), .drop sp.split], by rw [hr]; rfl, rfl⟩
      · exact ⟨[.read (List.replicate (min k'.limit (totalOf k'.totals sp.split - sp.cur)) sp.split)], by rw [hr]; rfl, rfl⟩
    simp only [kstep]
    cases hs : (activeOf k.r)[k.idx]? with
    | none => exact ⟨[], rfl, rfl⟩
    | some sp =>
      simp only
      split
      · exact ⟨[], rfl, rfl⟩
      · split
        · split
          · exact ⟨[], rfl, rfl⟩
          · exact hok _ sp rfl
        · exact hok _ sp rfl

theorem kAssignedIds_cons (a : KAct) (as : List KAct) : kAssignedIds (a :: as) = kAssignedIds [a] ++ kAssignedIds as := by
  cases a <;> simp [kAssignedIds]

theorem krun_is_rrun (as : List KAct) (k : KRd) :
    ∃ ras, (krun k as).r = rrun k.r ras ∧ assignedIds ras = kAssignedIds as := by
  induction as generalizing k with
  | nil => exact ⟨[], rfl, rfl⟩
  | cons a as ih =>
    obtain ⟨r1, h1, e1⟩ := kstep_is_rrun k a
    obtain ⟨r2, h2, e2⟩ := ih (kstep k a).1
    refine ⟨r1 ++ r2, ?_, ?_⟩
    · show (krun (kstep k a).1 as).r = _
      rw [h2, h1, rrun_append]
    · rw [assignedIds_append, e1, e2, ← kAssignedIds_cons]

/-! ## Kinesis split tracker -/

theorem knownId_iff (k : List Shard) (i : Nat) : knownId k i = true ↔ ∃ sh ∈ k, sh.id = i := by
  simp [knownId, List.any_eq_true]

theorem knownId_false_iff (k : List Shard) (i : Nat) : knownId k i = false ↔ ∀ sh ∈ k, sh.id ≠ i := by
  rw [← Bool.not_eq_true, knownId_iff]
  constructor
  · intro h sh hs e; exact h ⟨sh, hs, e⟩
  · intro h ⟨sh, hs, e⟩; exact h sh hs e

theorem mem_setKnown (k : List Shard) (s t : Shard) : t ∈ setKnown k s ↔ t = s ∨ (t ∈ k ∧ t.id ≠ s.id) := by
  simp [setKnown, List.mem_filter]

theorem addSplits_cons (k : List Shard) (a : Shard) (ss : List Shard) :
    addSplits k (a :: ss) = addSplits (setKnown k a) ss := rfl

theorem mem_addSplits (k ss : List Shard) (t : Shard) (h : t ∈ addSplits k ss) : t ∈ k ∨ t ∈ ss := by
  induction ss generalizing k with
  | nil => exact Or.inl h
  | cons a ss ih =>
    rw [addSplits_cons] at h
    rcases ih _ h with h | h
    · rcases (mem_setKnown _ _ _).mp h with h | h
      · exact Or.inr (h ▸ List.mem_cons_self)
      · exact Or.inl h.1
    · exact Or.inr (List.mem_cons_of_mem _ h)

theorem knownId_setKnown (k : List Shard) (s : Shard) (i : Nat) :
    knownId (setKnown k s) i = true ↔ knownId k i = true ∨ s.id = i := by
  simp only [knownId_iff]
  constructor
  · rintro ⟨t, ht, e⟩
    rcases (mem_setKnown _ _ _).mp ht with h | h
    · exact Or.inr (h ▸ e)
    · exact Or.inl ⟨t, h.1, e⟩
  · rintro (⟨t, ht, e⟩ | e)
    · by_cases hs : t.id = s.id
      · exact ⟨s, (mem_setKnown _ _ _).mpr (Or.inl rfl), hs ▸ e⟩
      · exact ⟨t, (mem_setKnown _ _ _).mpr (Or.inr ⟨ht, hs⟩), e⟩
    · exact ⟨s, (mem_setKnown _ _ _).mpr (Or.inl rfl), e⟩

theorem knownId_addSplits (k ss : List Shard) (i : Nat) :
    knownId (addSplits k ss) i = true ↔ knownId k i = true ∨ ∃ t ∈ ss, t.id = i := by
  induction ss generalizing k with
  | nil => simp [addSplits]
  | cons a ss ih =>
    rw [addSplits_cons, ih, knownId_setKnown]
    constructor
    · rintro ((h | h) | ⟨t, ht, e⟩)
      · exact Or.inl h
      · exact Or.inr ⟨a, List.mem_cons_self, h⟩
      · exact Or.inr ⟨t, List.mem_cons_of_mem _ ht, e⟩
    · rintro (h | ⟨t, ht, e⟩)
      · exact Or.inl (Or.inl h)
      · rcases List.mem_cons.mp ht with h | h
        · exact Or.inl (Or.inr (h ▸ e))
        · exact Or.inr ⟨t, h, e⟩

theorem nodup_setKnown (k : List Shard) (s : Shard) (h : (k.map (·.id)).Nodup) : ((setKnown k s).map (·.id)).Nodup := by
  simp only [setKnown, List.map_cons, List.nodup_cons]
  refine ⟨?_, (List.filter_sublist.map _).nodup h⟩
  intro hm
  obtain ⟨t, ht, e⟩ := List.mem_map.mp hm
  have := (List.mem_filter.mp ht).2
  simp [e] at this

theorem nodup_addSplits (k ss : List Shard) (h : (k.map (·.id)).Nodup) : ((addSplits k ss).map (·.id)).Nodup := by
  induction ss generalizing k with
  | nil => exact h
  | cons a ss ih => exact ih _ (nodup_setKnown k a h)

theorem mem_addSplits_of (k ss : List Shard) (sh : Shard) (h : sh ∈ k ∨ sh ∈ ss)
    (hu : ∀ t ∈ ss, t.id = sh.id → t = sh) : sh ∈ addSplits k ss := by
  induction ss generalizing k with
  | nil => rcases h with h | h; exact h; simp at h
  | cons a ss ih =>
    rw [addSplits_cons]
    apply ih
    · rcases h with h | h
      · by_cases e : a.id = sh.id
        · exact Or.inl ((mem_setKnown _ _ _).mpr (Or.inl (hu a List.mem_cons_self e).symm))
        · exact Or.inl ((mem_setKnown _ _ _).mpr (Or.inr ⟨h, fun x => e x.symm⟩))
      · rcases List.mem_cons.mp h with h | h
        · exact Or.inl ((mem_setKnown _ _ _).mpr (Or.inl h))
        · exact Or.inr h
    · intro t ht; exact hu t (List.mem_cons_of_mem _ ht)

theorem nextOf_cons (n : Nat) (a : Shard) (b : List Shard) : nextOf n (a :: b) = nextOf (max n (a.id + 1)) b := rfl

theorem nextOf_ge (n : Nat) (b : List Shard) : n ≤ nextOf n b := by
  induction b generalizing n with
  | nil => exact Nat.le_refl _
  | cons a b ih => rw [nextOf_cons]; exact Nat.le_trans (Nat.le_max_left _ _) (ih _)

theorem nextOf_mem (n : Nat) (b : List Shard) (sh : Shard) (h : sh ∈ b) : sh.id < nextOf n b := by
  induction b generalizing n with
  | nil => simp at h
  | cons a b ih =>
    rw [nextOf_cons]
    rcases List.mem_cons.mp h with h | h
    · subst h
      have := nextOf_ge (max n (sh.id + 1)) b
      omega
    · exact ih _ h

theorem nextOf_lt (n : Nat) (b : List Shard) (i : Nat) (h : i < nextOf n b) : i < n ∨ ∃ sh ∈ b, i ≤ sh.id := by
  induction b generalizing n with
  | nil => exact Or.inl h
  | cons a b ih =>
    rw [nextOf_cons] at h
    rcases ih _ h with h | ⟨sh, hs, e⟩
    · by_cases hn : i < n
      · exact Or.inl hn
      · exact Or.inr ⟨a, List.mem_cons_self, by omega⟩
    · exact Or.inr ⟨sh, List.mem_cons_of_mem _ hs, e⟩

theorem nextOf_le (n m : Nat) (b : List Shard) (hn : n ≤ m) (hb : ∀ sh ∈ b, sh.id < m) : nextOf n b ≤ m := by
  induction b generalizing n with
  | nil => exact hn
  | cons a b ih =>
    rw [nextOf_cons]
    apply ih
    · have := hb a List.mem_cons_self; omega
    · intro sh hs; exact hb sh (List.mem_cons_of_mem _ hs)

theorem mem_available (t : Tr) (sh : Shard) :
    sh ∈ available t ↔ sh ∈ t.known ∧ sh.id ∉ t.assigned ∧ ∀ p ∈ sh.parents, knownId t.known p = false := by
  simp only [available, List.mem_filter, Bool.and_eq_true, Bool.not_eq_true']
  constructor
  · rintro ⟨h1, h2, h3⟩
    refine ⟨h1, ?_, ?_⟩
    · intro hm
      have : t.assigned.contains sh.id = true := List.contains_iff_mem.mpr hm
      rw [h2] at this; exact Bool.noConfusion this
    · intro p hp
      cases hk : knownId t.known p with
      | false => rfl
      | true =>
        have : sh.parents.any (knownId t.known) = true := List.any_eq_true.mpr ⟨p, hp, hk⟩
        rw [h3] at this; exact Bool.noConfusion this
  · rintro ⟨h1, h2, h3⟩
    refine ⟨h1, ?_, ?_⟩
    · cases hc : t.assigned.contains sh.id with
      | false => rfl
      | true => exact absurd (List.contains_iff_mem.mp hc) h2
    · cases hc : sh.parents.any (knownId t.known) with
      | false => rfl
      | true =>
        obtain ⟨p, hp, hk⟩ := List.any_eq_true.mp hc
        rw [h3 p hp] at hk; exact Bool.noConfusion hk

/-! ## Invariants of the splitter system -/

structure CkInv (stream : List Shard) (c : Ckpt) : Prop where
  K1 : ∀ sh ∈ c.tr.known, stream[sh.id]? = some sh
  K2 : (c.tr.known.map (·.id)).Nodup
  W : ∀ sh ∈ c.tr.known, sh.id ∈ c.tr.assigned → ∀ p ∈ sh.parents, knownId c.tr.known p = false
  L2 : ∀ sh ∈ c.tr.known, sh.id ∈ c.tr.assigned → sh.id < c.tr.next
  N : c.tr.next ≤ stream.length
  Q : c.clean = true → ∀ i, i < c.tr.next → knownId c.tr.known i = true ∨ i ∈ c.done
  R : c.clean = true → ∀ sh ∈ c.tr.known, ∀ i, i < sh.id → knownId c.tr.known i = true ∨ i ∈ c.done
  G : c.good = true → ∀ sh ∈ c.tr.known, sh.id ∈ c.tr.assigned ∨ c.tr.next ≤ sh.id

structure Inv (s : Sp) : Prop where
  E1 : ∀ (i : Nat) (sh : Shard), s.stream[i]? = some sh → sh.id = i ∧ ∀ p ∈ sh.parents, p < i
  K1 : ∀ sh ∈ s.tr.known, s.stream[sh.id]? = some sh
  K2 : (s.tr.known.map (·.id)).Nodup
  A2 : ∀ i ∈ s.tr.assigned, i ∈ s.log
  L1 : s.log.Nodup
  L2 : ∀ i ∈ s.log, i < s.tr.next
  L3 : ∀ sh ∈ s.tr.known, sh.id ∈ s.log → sh.id ∈ s.tr.assigned
  W : ∀ sh ∈ s.tr.known, sh.id ∈ s.tr.assigned → ∀ p ∈ sh.parents, knownId s.tr.known p = false
  N : s.tr.next ≤ s.stream.length
  Q : s.tainted = false → ∀ i, i < s.tr.next → knownId s.tr.known i = true ∨ i ∈ s.done
  R : s.tainted = false → ∀ sh ∈ s.tr.known, ∀ i, i < sh.id → knownId s.tr.known i = true ∨ i ∈ s.done
  D : s.tainted = false → ∀ i ∈ s.log, ∀ sh : Shard, s.stream[i]? = some sh → ∀ p ∈ sh.parents, p ∈ s.done
  CK : ∀ c, s.ck = some c → CkInv s.stream c

theorem lt_length_of_getElem? {α : Type} (l : List α) (i : Nat) (a : α) (h : l[i]? = some a) : i < l.length := by
  by_cases hi : i < l.length
  · exact hi
  · rw [List.getElem?_eq_none (by omega)] at h; simp at h

/-- shards listed by discovery are the stream's shards from `next` on -/
theorem mem_drop_stream (s : Sp) (h : Inv s) (n : Nat) (sh : Shard) (hm : sh ∈ s.stream.drop n) :
    s.stream[sh.id]? = some sh ∧ n ≤ sh.id := by
  obtain ⟨j, hj⟩ := List.mem_iff_getElem?.mp hm
  rw [List.getElem?_drop] at hj
  have := (h.E1 _ _ hj).1
  rw [this]; exact ⟨hj, by omega⟩

theorem drop_has (s : Sp) (n i : Nat) (h1 : n ≤ i) (h2 : i < s.stream.length) (h : Inv s) :
    ∃ t ∈ s.stream.drop n, t.id = i := by
  have hg : s.stream[i]? = some s.stream[i] := List.getElem?_eq_getElem h2
  refine ⟨s.stream[i], ?_, (h.E1 _ _ hg).1⟩
  apply List.mem_iff_getElem?.mpr
  refine ⟨i - n, ?_⟩
  rw [List.getElem?_drop]
  have : n + (i - n) = i := by omega
  rw [this]; exact hg

theorem Inv.discover (s : Sp) (h : Inv s) : Inv (discover s) := by
  have hmem : ∀ sh ∈ (Splits.discover s).tr.known, sh ∈ s.tr.known ∨ (s.stream[sh.id]? = some sh ∧ s.tr.next ≤ sh.id) := by
    intro sh hs
    rcases mem_addSplits _ _ _ hs with h1 | h1
    · exact Or.inl h1
    · exact Or.inr (mem_drop_stream s h _ sh h1)
  have hk : ∀ i, knownId (Splits.discover s).tr.known i = true ↔
      knownId s.tr.known i = true ∨ ∃ t ∈ s.stream.drop s.tr.next, t.id = i := fun i => knownId_addSplits _ _ i
  constructor
  · exact h.E1
  · intro sh hs
    rcases hmem sh hs with h1 | h1
    · exact h.K1 sh h1
    · exact h1.1
  · exact nodup_addSplits _ _ h.K2
  · exact h.A2
  · exact h.L1
  · exact h.L2
  · intro sh hs hl
    rcases hmem sh hs with h1 | h1
    · exact h.L3 sh h1 hl
    · have := h.L2 _ hl; omega
  · intro sh hs ha p hp
    have hlt : sh.id < s.tr.next := h.L2 _ (h.A2 _ ha)
    rcases hmem sh hs with h1 | h1
    · have hold := h.W sh h1 ha p hp
      have hpl : p < sh.id := (h.E1 _ _ (h.K1 sh h1)).2 p hp
      cases hc : knownId (Splits.discover s).tr.known p with
      | false => rfl
      | true =>
        rcases (hk p).mp hc with h2 | ⟨t, ht, e⟩
        · rw [hold] at h2; exact Bool.noConfusion h2
        · have := (mem_drop_stream s h _ t ht).2; omega
    · omega
  · exact h.N
  · intro ht i hi
    rcases h.Q ht i hi with h1 | h1
    · exact Or.inl ((hk i).mpr (Or.inl h1))
    · exact Or.inr h1
  · intro ht sh hs i hi
    have hsl : sh.id < s.stream.length := by
      rcases hmem sh hs with h1 | h1
      · exact lt_length_of_getElem? _ _ _ (h.K1 sh h1)
      · exact lt_length_of_getElem? _ _ _ h1.1
    by_cases hn : i < s.tr.next
    · rcases h.Q ht i hn with h1 | h1
      · exact Or.inl ((hk i).mpr (Or.inl h1))
      · exact Or.inr h1
    · exact Or.inl ((hk i).mpr (Or.inr (drop_has s _ i (by omega) (by omega) h)))
  · exact h.D
  · exact h.CK

theorem known_eq_of_id (s : Sp) (h : Inv s) (a b : Shard) (ha : a ∈ s.tr.known) (hb : b ∈ s.tr.known)
    (e : a.id = b.id) : a = b := by
  have h1 := h.K1 a ha
  have h2 := h.K1 b hb
  rw [e, h2] at h1
  exact (Option.some.inj h1).symm

theorem available_ids_nodup (s : Sp) (h : Inv s) : ((available s.tr).map (·.id)).Nodup :=
  (List.filter_sublist.map _).nodup h.K2

theorem Inv.track (s : Sp) (h : Inv s) :
    Inv { s with tr := trackAssigned s.tr (available s.tr), log := s.log ++ (available s.tr).map (·.id) } := by
  have hb := mem_available s.tr
  constructor
  · exact h.E1
  · exact h.K1
  · exact h.K2
  · intro i hi
    rcases List.mem_append.mp hi with h1 | h1
    · exact List.mem_append_right _ h1
    · exact List.mem_append_left _ (h.A2 i h1)
  · show (s.log ++ (available s.tr).map (·.id)).Nodup
    rw [List.nodup_append]
    refine ⟨h.L1, available_ids_nodup s h, ?_⟩
    intro a ha b hb' e
    subst e
    obtain ⟨sh, hs, rfl⟩ := List.mem_map.mp hb'
    have := (hb sh).mp hs
    exact this.2.1 (h.L3 sh this.1 ha)
  · intro i hi
    show i < nextOf s.tr.next (available s.tr)
    rcases List.mem_append.mp hi with h1 | h1
    · exact Nat.lt_of_lt_of_le (h.L2 i h1) (nextOf_ge _ _)
    · obtain ⟨sh, hs, rfl⟩ := List.mem_map.mp h1
      exact nextOf_mem _ _ sh hs
  · intro sh hs hl
    show sh.id ∈ (available s.tr).map (·.id) ++ s.tr.assigned
    rcases List.mem_append.mp hl with h1 | h1
    · exact List.mem_append_right _ (h.L3 sh hs h1)
    · exact List.mem_append_left _ h1
  · intro sh hs ha p hp
    show knownId s.tr.known p = false
    rcases List.mem_append.mp ha with h1 | h1
    · obtain ⟨t, ht, e⟩ := List.mem_map.mp h1
      have htm := (hb t).mp ht
      have : t = sh := known_eq_of_id s h t sh htm.1 hs e
      subst this
      exact htm.2.2 p hp
    · exact h.W sh hs h1 p hp
  · show nextOf s.tr.next (available s.tr) ≤ s.stream.length
    apply nextOf_le _ _ _ h.N
    intro sh hs
    exact lt_length_of_getElem? _ _ _ (h.K1 sh ((hb sh).mp hs).1)
  · intro ht i hi
    show knownId s.tr.known i = true ∨ i ∈ s.done
    rcases nextOf_lt _ _ i hi with h1 | ⟨sh, hs, e⟩
    · exact h.Q ht i h1
    · have hsk := ((hb sh).mp hs).1
      by_cases e' : i = sh.id
      · exact Or.inl ((knownId_iff _ _).mpr ⟨sh, hsk, e'.symm⟩)
      · exact h.R ht sh hsk i (by omega)
  · exact h.R
  · intro ht i hi sh hsi p hp
    show p ∈ s.done
    rcases List.mem_append.mp hi with h1 | h1
    · exact h.D ht i h1 sh hsi p hp
    · obtain ⟨t, hts, e⟩ := List.mem_map.mp h1
      have htm := (hb t).mp hts
      have hst := h.K1 t htm.1
      rw [e, hsi] at hst
      have : sh = t := Option.some.inj hst
      subst this
      have hpl : p < sh.id := (h.E1 _ _ (h.K1 sh htm.1)).2 p hp
      rcases h.R ht sh htm.1 p hpl with h2 | h2
      · rw [htm.2.2 p hp] at h2; exact Bool.noConfusion h2
      · exact h2
  · exact h.CK

theorem Inv.assignAvail (s : Sp) (h : Inv s) : Inv (assignAvail s).1 := by
  unfold Splits.assignAvail
  by_cases he : (available s.tr).isEmpty = true
  · simp only [he, if_true]; exact h
  · simp only [he]; exact Inv.track s h

theorem knownId_filter (k : List Shard) (f : Shard → Bool) (i : Nat) (h : knownId (k.filter f) i = true) :
    knownId k i = true := by
  obtain ⟨sh, hs, e⟩ := (knownId_iff _ _).mp h
  exact (knownId_iff _ _).mpr ⟨sh, (List.mem_filter.mp hs).1, e⟩

theorem Inv.remove (s : Sp) (h : Inv s) (ids : List Nat) : Inv (remove s ids) := by
  have hk : ∀ i, knownId s.tr.known i = true → knownId (Splits.remove s ids).tr.known i = true ∨ i ∈ ids := by
    intro i hi
    obtain ⟨sh, hs, e⟩ := (knownId_iff _ _).mp hi
    by_cases hm : i ∈ ids
    · exact Or.inr hm
    · refine Or.inl ((knownId_iff _ _).mpr ⟨sh, ?_, e⟩)
      apply List.mem_filter.mpr
      refine ⟨hs, ?_⟩
      cases hc : ids.contains sh.id with
      | false => rfl
      | true => exact absurd (e ▸ List.contains_iff_mem.mp hc) hm
  have hsub : ∀ sh ∈ (Splits.remove s ids).tr.known, sh ∈ s.tr.known ∧ sh.id ∉ ids := by
    intro sh hs
    have := List.mem_filter.mp hs
    refine ⟨this.1, ?_⟩
    intro hm
    have hc : ids.contains sh.id = true := List.contains_iff_mem.mpr hm
    have h2 := this.2
    rw [hc] at h2
    exact Bool.noConfusion h2
  constructor
  · exact h.E1
  · intro sh hs; exact h.K1 sh (hsub sh hs).1
  · exact (List.filter_sublist.map _).nodup h.K2
  · intro i hi; exact h.A2 i (List.mem_filter.mp hi).1
  · exact h.L1
  · exact h.L2
  · intro sh hs hl
    have := hsub sh hs
    apply List.mem_filter.mpr
    refine ⟨h.L3 sh this.1 hl, ?_⟩
    cases hc : ids.contains sh.id with
    | false => rfl
    | true => exact absurd (List.contains_iff_mem.mp hc) this.2
  · intro sh hs ha p hp
    have := h.W sh (hsub sh hs).1 (List.mem_filter.mp ha).1 p hp
    cases hc : knownId (Splits.remove s ids).tr.known p with
    | false => rfl
    | true => rw [knownId_filter _ _ _ hc] at this; exact Bool.noConfusion this
  · exact h.N
  · intro ht i hi
    show _ ∨ i ∈ s.done ++ ids
    rcases h.Q ht i hi with h1 | h1
    · rcases hk i h1 with h2 | h2
      · exact Or.inl h2
      · exact Or.inr (List.mem_append_right _ h2)
    · exact Or.inr (List.mem_append_left _ h1)
  · intro ht sh hs i hi
    show _ ∨ i ∈ s.done ++ ids
    rcases h.R ht sh (hsub sh hs).1 i hi with h1 | h1
    · rcases hk i h1 with h2 | h2
      · exact Or.inl h2
      · exact Or.inr (List.mem_append_right _ h2)
    · exact Or.inr (List.mem_append_left _ h1)
  · intro ht i hi sh hsi p hp
    exact List.mem_append_left _ (h.D ht i hi sh hsi p hp)
  · exact h.CK

theorem Inv.checkpoint (s : Sp) (h : Inv s) (states : List (Nat × Nat)) : Inv (checkpoint s states) := by
  refine { h with CK := ?_ }
  intro c hc
  simp only [Splits.checkpoint, Option.some.injEq] at hc
  subst hc
  constructor
  · exact h.K1
  · exact h.K2
  · exact h.W
  · intro sh _ ha; exact h.L2 _ (h.A2 _ ha)
  · exact h.N
  · intro hcl; exact h.Q (by simpa using hcl)
  · intro hcl; exact h.R (by simpa using hcl)
  · intro hg sh hs
    have := (List.all_eq_true.mp hg) sh hs
    simp only [isAssigned, Bool.or_eq_true, decide_eq_true_eq] at this
    rcases this with h1 | h1
    · exact Or.inl (List.contains_iff_mem.mp h1)
    · exact Or.inr h1

theorem CkInv.append (stream new : List Shard) (c : Ckpt) (h : CkInv stream c) : CkInv (stream ++ new) c := by
  refine { h with K1 := ?_, N := ?_ }
  · intro sh hs
    have := h.K1 sh hs
    rw [List.getElem?_append_left (lt_length_of_getElem? _ _ _ this)]; exact this
  · have := h.N; simp only [List.length_append]; omega

theorem Inv.append (s : Sp) (h : Inv s) (new : List Shard) (cl : List Nat)
    (hnew : ∀ (j : Nat) (sh : Shard), new[j]? = some sh →
      sh.id = s.stream.length + j ∧ ∀ p ∈ sh.parents, p < s.stream.length + j) :
    Inv { s with stream := s.stream ++ new, closed := cl } := by
  have hold : ∀ (i : Nat) (sh : Shard), s.stream[i]? = some sh → (s.stream ++ new)[i]? = some sh := by
    intro i sh hi
    rw [List.getElem?_append_left (lt_length_of_getElem? _ _ _ hi)]; exact hi
  constructor
  · intro i sh hi
    by_cases hl : i < s.stream.length
    · rw [List.getElem?_append_left hl] at hi; exact h.E1 i sh hi
    · rw [List.getElem?_append_right (by omega)] at hi
      have := hnew _ sh hi
      have e : s.stream.length + (i - s.stream.length) = i := by omega
      rw [e] at this; exact this
  · intro sh hs; exact hold _ _ (h.K1 sh hs)
  · exact h.K2
  · exact h.A2
  · exact h.L1
  · exact h.L2
  · exact h.L3
  · exact h.W
  · have := h.N; show s.tr.next ≤ (s.stream ++ new).length; simp only [List.length_append]; omega
  · exact h.Q
  · exact h.R
  · intro ht i hi sh hsi p hp
    have hl : i < s.stream.length := Nat.lt_of_lt_of_le (h.L2 i hi) h.N
    have hsi' : (s.stream ++ new)[i]? = some sh := hsi
    rw [List.getElem?_append_left hl] at hsi'
    exact h.D ht i hi sh hsi' p hp
  · intro c hc; exact CkInv.append _ _ _ (h.CK c hc)

theorem Inv.envSplit (s : Sp) (h : Inv s) (i a : Nat) : Inv ((envSplit s i a).getD s) := by
  unfold Splits.envSplit
  cases hi : s.stream[i]? with
  | none => exact h
  | some sh =>
    simp only
    split
    · exact h
    · simp only [Option.getD_some]
      apply Inv.append s h
      have hil : i < s.stream.length := lt_length_of_getElem? _ _ _ hi
      intro j t hj
      match j, hj with
      | 0, hj => simp only [List.getElem?_cons_zero, Option.some.injEq] at hj; subst hj; simp; omega
      | 1, hj => simp only [List.getElem?_cons_succ, List.getElem?_cons_zero, Option.some.injEq] at hj; subst hj; simp; omega
      | j + 2, hj => simp at hj

theorem Inv.envMerge (s : Sp) (h : Inv s) (i j : Nat) : Inv ((envMerge s i j).getD s) := by
  unfold Splits.envMerge
  cases hi : s.stream[i]? with
  | none => exact h
  | some a =>
    cases hj : s.stream[j]? with
    | none => exact h
    | some b =>
      simp only [Option.getD_some]
      apply Inv.append s h
      have hil : i < s.stream.length := lt_length_of_getElem? _ _ _ hi
      have hjl : j < s.stream.length := lt_length_of_getElem? _ _ _ hj
      intro k t hk
      match k, hk with
      | 0, hk =>
        simp only [List.getElem?_cons_zero, Option.some.injEq] at hk; subst hk
        refine ⟨by simp, ?_⟩
        intro p hp
        simp only [List.mem_cons, List.not_mem_nil, or_false] at hp
        rcases hp with hp | hp <;> omega
      | k + 1, hk => simp at hk

theorem Inv.load (keep readd : Bool) (s : Sp) (h : Inv s) : Inv (load keep readd s) := by
  unfold Splits.load
  cases hck : s.ck with
  | none =>
    simp only
    constructor
    · exact h.E1
    · intro sh hs; simp at hs
    · simp
    · intro i hi; simp at hi
    · simp
    · intro i hi; simp at hi
    · intro sh hs; simp at hs
    · intro sh hs; simp at hs
    · exact Nat.zero_le _
    · intro _ i hi; simp at hi
    · intro _ sh hs; simp at hs
    · intro _ i hi; simp at hi
    · intro c hc; exact h.CK c (by rw [hck]; exact hc)
  | some c =>
    simp only
    have hc := h.CK c hck
    -- the loaded shards: tracked at the checkpoint (assigned, or withheld when kept), or re-added with their position
    have hR : ∀ sh, sh ∈ (if readd then readdList s.stream c else []) →
        readd = true ∧ s.stream[sh.id]? = some sh ∧ sh.id < c.tr.next := by
      intro sh hs
      cases hr : readd with
      | false => rw [hr] at hs; simp at hs
      | true =>
        rw [hr] at hs
        simp only [if_true, readdList, List.mem_filter, Bool.and_eq_true, decide_eq_true_eq] at hs
        obtain ⟨hm, _, hlt⟩ := hs
        obtain ⟨j, hj⟩ := List.mem_iff_getElem?.mp hm
        have := (h.E1 _ _ hj).1
        exact ⟨rfl, by rw [this]; exact hj, hlt⟩
    have hF : ∀ sh, sh ∈ (loadTr keep readd s.stream c).known →
        (sh ∈ c.tr.known ∧ (sh.id ∈ c.tr.assigned ∨ keep = true)) ∨ sh ∈ (if readd then readdList s.stream c else []) := by
      intro sh hs
      rcases mem_addSplits _ _ _ hs with h1 | h1
      · simp at h1
      · rcases List.mem_append.mp h1 with h1 | h1
        · have := List.mem_filter.mp h1
          refine Or.inl ⟨this.1, ?_⟩
          have h2 := this.2
          simp only [isAssigned, Bool.or_eq_true] at h2
          rcases h2 with h2 | h2
          · exact Or.inl (List.contains_iff_mem.mp h2)
          · exact Or.inr h2
        · exact Or.inr h1
    have hFk : ∀ sh ∈ c.tr.known, (sh.id ∈ c.tr.assigned ∨ keep = true) → knownId (loadTr keep readd s.stream c).known sh.id = true := by
      intro sh hs hor
      apply (knownId_addSplits _ _ _).mpr
      refine Or.inr ⟨sh, List.mem_append_left _ (List.mem_filter.mpr ⟨hs, ?_⟩), rfl⟩
      simp only [isAssigned, Bool.or_eq_true]
      rcases hor with h1 | h1
      · exact Or.inl (List.contains_iff_mem.mpr h1)
      · exact Or.inr h1
    have hRk : ∀ sh ∈ (if readd then readdList s.stream c else []), knownId (loadTr keep readd s.stream c).known sh.id = true := by
      intro sh hs
      apply (knownId_addSplits _ _ _).mpr
      exact Or.inr ⟨sh, List.mem_append_right _ hs, rfl⟩
    -- what was tracked or finished at the checkpoint is tracked or finished after the load
    have carry : (s.tainted || !c.clean || (!keep && !c.good)) = false → ∀ i, (i < c.tr.next ∨ keep = true) →
        (knownId c.tr.known i = true ∨ i ∈ c.done) →
        knownId (loadTr keep readd s.stream c).known i = true ∨
          i ∈ (if readd then c.done.filter (fun i => !((readdList s.stream c).map (·.id)).contains i) else c.done) := by
      intro ht i hi hkd
      simp only [Bool.or_eq_false_iff, Bool.not_eq_false', Bool.and_eq_false_imp, Bool.not_eq_true'] at ht
      obtain ⟨⟨_, _⟩, hgood⟩ := ht
      rcases hkd with h1 | h1
      · obtain ⟨sh, hs, e⟩ := (knownId_iff _ _).mp h1
        subst e
        refine Or.inl (hFk sh hs ?_)
        cases hk : keep with
        | true => exact Or.inr rfl
        | false =>
          have hg : c.good = true := by
            cases hgd : c.good with
            | true => rfl
            | false => have := hgood hk; rw [hgd] at this; exact Bool.noConfusion this
          rcases hc.G hg sh hs with h2 | h2
          · exact Or.inl h2
          · rcases hi with hi | hi
            · omega
            · rw [hk] at hi; exact Bool.noConfusion hi
      · cases hr : readd with
        | false => right; simp only [Bool.false_eq_true, if_false]; exact h1
        | true =>
          simp only [if_true]
          by_cases hm : i ∈ (readdList s.stream c).map (·.id)
          · obtain ⟨sh, hs, e⟩ := List.mem_map.mp hm
            left
            have := hRk sh (by rw [hr]; exact hs)
            rw [e, hr] at this; exact this
          · right
            apply List.mem_filter.mpr
            refine ⟨h1, ?_⟩
            cases hcn : ((readdList s.stream c).map (·.id)).contains i with
            | false => rfl
            | true => exact absurd (List.contains_iff_mem.mp hcn) hm
    constructor
    · exact h.E1
    · intro sh hs
      rcases hF sh hs with h1 | h1
      · exact hc.K1 sh h1.1
      · exact (hR sh h1).2.1
    · exact nodup_addSplits _ _ (by simp)
    · intro i hi; simp [loadTr] at hi
    · simp
    · intro i hi; simp at hi
    · intro sh _ hl; simp at hl
    · intro sh _ ha; simp [loadTr] at ha
    · exact hc.N
    · intro ht i hi
      have hcl : c.clean = true := by
        simp only [Bool.or_eq_false_iff, Bool.not_eq_false'] at ht
        exact ht.1.2
      exact carry ht i (Or.inl hi) (hc.Q hcl i hi)
    · intro ht sh hs i hi
      have hcl : c.clean = true := by
        simp only [Bool.or_eq_false_iff, Bool.not_eq_false'] at ht
        exact ht.1.2
      rcases hF sh hs with h1 | h1
      · have hkd := hc.R hcl sh h1.1 i hi
        rcases h1.2 with h3 | h3
        · have := hc.L2 sh h1.1 h3
          exact carry ht i (Or.inl (by omega)) hkd
        · exact carry ht i (Or.inr h3) hkd
      · have := (hR sh h1).2.2
        exact carry ht i (Or.inl (by omega)) (hc.Q hcl i (by omega))
    · intro _ i hi; simp at hi
    · intro c' hc'; exact h.CK c' (by rw [hck]; exact hc')

theorem Inv.restart (keep readd : Bool) (s : Sp) (h : Inv s) : Inv (restart keep readd s).1 :=
  Inv.assignAvail _ (Inv.discover _ (Inv.load keep readd s h))

theorem Inv.step (keep readd : Bool) (s : Sp) (h : Inv s) (a : Act) : Inv (step keep readd s a).1 := by
  cases a with
  | start => exact Inv.restart keep readd s h
  | tick => exact Inv.assignAvail _ (Inv.discover s h)
  | finish ids => exact Inv.assignAvail _ (Inv.remove s h ids)
  | ckpt st => exact Inv.checkpoint s h st
  | split i a => exact Inv.envSplit s h i a
  | merge i j => exact Inv.envMerge s h i j

theorem run_cons (keep readd : Bool) (s : Sp) (a : Act) (as : List Act) :
    run keep readd s (a :: as) = run keep readd (step keep readd s a).1 as := rfl

theorem Inv.run (keep readd : Bool) (as : List Act) (s : Sp) (h : Inv s) : Inv (run keep readd s as) := by
  induction as generalizing s with
  | nil => exact h
  | cons a as ih => rw [run_cons]; exact ih _ (Inv.step keep readd s h a)

theorem Inv.init (shards runners : Nat) : Inv (initSp shards runners) := by
  constructor
  · intro i sh hi
    simp only [initSp, rootShards, List.getElem?_map] at hi
    cases hr : (List.range shards)[i]? with
    | none => rw [hr] at hi; simp at hi
    | some j =>
      rw [hr] at hi
      simp only [Option.map_some, Option.some.injEq] at hi
      have hj : j = i := by
        have hl := lt_length_of_getElem? _ _ _ hr
        rw [List.getElem?_eq_getElem hl, List.getElem_range] at hr
        exact (Option.some.inj hr).symm
      subst hi; subst hj
      exact ⟨rfl, by intro p hp; simp at hp⟩
  · intro sh hs; simp [initSp] at hs
  · simp [initSp]
  · intro i hi; simp [initSp] at hi
  · simp [initSp]
  · intro i hi; simp [initSp] at hi
  · intro sh hs; simp [initSp] at hs
  · intro sh hs; simp [initSp] at hs
  · exact Nat.zero_le _
  · intro _ i hi; simp [initSp] at hi
  · intro _ sh hs; simp [initSp] at hs
  · intro _ i hi; simp [initSp] at hi
  · intro c hc; simp [initSp] at hc

/-! ### what the log and the taint flag are -/

def callIds (cs : List Call) : List Nat := cs.flatMap (·.map (·.2.1))

theorem assignAvail_log (s : Sp) : (assignAvail s).1.log = s.log ++ callIds (assignAvail s).2 := by
  unfold Splits.assignAvail
  by_cases he : (available s.tr).isEmpty = true
  · simp [he, callIds]
  · simp [he, callIds, mkCall, List.map_map, Function.comp_def]

theorem assignAvail_tainted (s : Sp) : (assignAvail s).1.tainted = s.tainted ∧ (assignAvail s).1.ck = s.ck := by
  unfold Splits.assignAvail
  by_cases he : (available s.tr).isEmpty = true <;> simp [he]

/-- the ideal splitter (`keep = true`) never loses a withheld shard -/
structure Clean (s : Sp) : Prop where
  t : s.tainted = false
  c : ∀ c, s.ck = some c → c.clean = true

theorem Clean.step (readd : Bool) (s : Sp) (h : Clean s) (a : Act) : Clean (Splits.step true readd s a).1 := by
  cases a with
  | start =>
    have h1 := assignAvail_tainted (discover (load true readd s))
    have hl : Clean (load true readd s) := by
      unfold Splits.load
      cases hck : s.ck with
      | none => exact ⟨h.t, fun c hc => by simp at hc⟩
      | some c0 =>
        refine ⟨?_, fun c hc => h.c c (by rw [hck]; exact hc)⟩
        simp [h.t, h.c c0 hck]
    exact ⟨by rw [show (Splits.step true readd s .start).1 = (assignAvail (discover (load true readd s))).1 from rfl, h1.1]; exact hl.t,
           fun c hc => hl.c c (by rw [show (Splits.step true readd s .start).1 = (assignAvail (discover (load true readd s))).1 from rfl, h1.2] at hc; exact hc)⟩
  | tick =>
    have h1 := assignAvail_tainted (discover s)
    exact ⟨by rw [show (Splits.step true readd s .tick).1 = (assignAvail (discover s)).1 from rfl, h1.1]; exact h.t,
           fun c hc => h.c c (by rw [show (Splits.step true readd s .tick).1 = (assignAvail (discover s)).1 from rfl, h1.2] at hc; exact hc)⟩
  | finish ids =>
    have h1 := assignAvail_tainted (remove s ids)
    exact ⟨by rw [show (Splits.step true readd s (.finish ids)).1 = (assignAvail (remove s ids)).1 from rfl, h1.1]; exact h.t,
           fun c hc => h.c c (by rw [show (Splits.step true readd s (.finish ids)).1 = (assignAvail (remove s ids)).1 from rfl, h1.2] at hc; exact hc)⟩
  | ckpt st =>
    refine ⟨h.t, ?_⟩
    intro c hc
    simp only [Splits.step, Splits.checkpoint, Option.some.injEq] at hc
    subst hc
    simp [h.t]
  | split i a =>
    simp only [Splits.step, Splits.envSplit]
    cases hi : s.stream[i]? with
    | none => exact h
    | some sh =>
      simp only
      split
      · exact h
      · exact ⟨h.t, h.c⟩
  | merge i j =>
    simp only [Splits.step, Splits.envMerge]
    cases hi : s.stream[i]? with
    | none => exact h
    | some a =>
      cases hj : s.stream[j]? with
      | none => exact h
      | some b => exact ⟨h.t, h.c⟩

theorem Clean.run (readd : Bool) (as : List Act) (s : Sp) (h : Clean s) : Clean (run true readd s as) := by
  induction as generalizing s with
  | nil => exact h
  | cons a as ih => rw [run_cons]; exact ih _ (Clean.step readd s h a)

/-- after a restart every shard the new splitter tracks was handed out in its first call, with the reported cursor,
or waits for a tracked parent -/
theorem restart_hands_out (keep readd : Bool) (s : Sp) (sh : Shard)
    (hs : sh ∈ (discover (load keep readd s)).tr.known) (hna : (load keep readd s).tr.assigned = []) :
    (∃ call ∈ (restart keep readd s).2,
        (uidx sh.lo sh.hi (load keep readd s).runners, sh.id, cursorOf (load keep readd s).cursors sh.id) ∈ call) ∨
    ∃ p ∈ sh.parents, knownId (discover (load keep readd s)).tr.known p = true := by
  by_cases hp : ∃ p ∈ sh.parents, knownId (discover (load keep readd s)).tr.known p = true
  · exact Or.inr hp
  · left
    have hav : sh ∈ available (discover (load keep readd s)).tr := by
      apply (mem_available _ _).mpr
      refine ⟨hs, ?_, ?_⟩
      · show sh.id ∉ (load keep readd s).tr.assigned
        rw [hna]; simp
      · intro p hpp
        cases hc : knownId (discover (load keep readd s)).tr.known p with
        | false => rfl
        | true => exact absurd ⟨p, hpp, hc⟩ hp
    show ∃ call ∈ (assignAvail (discover (load keep readd s))).2, _
    unfold Splits.assignAvail
    have hne : (available (discover (load keep readd s)).tr).isEmpty = false := by
      cases hb : available (discover (load keep readd s)).tr with
      | nil => rw [hb] at hav; simp at hav
      | cons _ _ => rfl
    simp only [hne]
    refine ⟨_, List.mem_singleton.mpr rfl, ?_⟩
    apply List.mem_map.mpr
    exact ⟨sh, hav, rfl⟩

theorem load_proj (keep readd : Bool) (s : Sp) (c : Ckpt) (hck : s.ck = some c) :
    (load keep readd s).tr = loadTr keep readd s.stream c ∧ (load keep readd s).stream = s.stream ∧
    (load keep readd s).runners = s.runners ∧ (load keep readd s).cursors = c.states := by
  simp only [Splits.load, hck, and_self]

/-- restore hands out every shard that was assigned at the checkpoint, unless the ideal splitter resumes a parent of
it whose reported position had been dropped from the tracker -/
theorem restart_assigns (keep readd : Bool) (s : Sp) (h : Inv s) (c : Ckpt) (hck : s.ck = some c)
    (sh : Shard) (hs : sh ∈ c.tr.known) (ha : sh.id ∈ c.tr.assigned) :
    (∃ call ∈ (restart keep readd s).2, (uidx sh.lo sh.hi s.runners, sh.id, cursorOf c.states sh.id) ∈ call) ∨
    (readd = true ∧ ∃ p ∈ sh.parents, p ∈ (readdList s.stream c).map (·.id)) := by
  have hc := h.CK c hck
  obtain ⟨el_tr, el_st, el_ru, el_cu⟩ := load_proj keep readd s c hck
  have hinF : sh ∈ (c.tr.known.filter (fun t => isAssigned c.tr t || keep)) ++ (if readd then readdList s.stream c else []) := by
    apply List.mem_append_left
    apply List.mem_filter.mpr
    refine ⟨hs, ?_⟩
    simp only [isAssigned, Bool.or_eq_true]
    exact Or.inl (List.contains_iff_mem.mpr ha)
  have hInv1 := Inv.load keep readd s h
  have hstream : ∀ t ∈ (c.tr.known.filter (fun t => isAssigned c.tr t || keep)) ++ (if readd then readdList s.stream c else []),
      s.stream[t.id]? = some t := by
    intro t ht
    rcases List.mem_append.mp ht with h1 | h1
    · exact hc.K1 t (List.mem_filter.mp h1).1
    · cases hr : readd with
      | false => rw [hr] at h1; simp at h1
      | true =>
        rw [hr] at h1
        simp only [if_true, readdList] at h1
        obtain ⟨j, hj⟩ := List.mem_iff_getElem?.mp (List.mem_filter.mp h1).1
        have := (h.E1 _ _ hj).1
        rw [this]; exact hj
  have hloaded : sh ∈ (loadTr keep readd s.stream c).known := by
    apply mem_addSplits_of _ _ _ (Or.inr hinF)
    intro t ht e
    have h1 := hstream t ht
    have h2 := hc.K1 sh hs
    rw [e, h2] at h1
    exact (Option.some.inj h1).symm
  have hknown2 : sh ∈ (discover (load keep readd s)).tr.known := by
    show sh ∈ addSplits (load keep readd s).tr.known ((load keep readd s).stream.drop (load keep readd s).tr.next)
    apply mem_addSplits_of _ _ _ (Or.inl (el_tr ▸ hloaded))
    intro t ht e
    have h1 := (mem_drop_stream _ hInv1 _ t ht).1
    have h2 := hc.K1 sh hs
    rw [el_st, e, h2] at h1
    exact (Option.some.inj h1).symm
  have hna : (load keep readd s).tr.assigned = [] := by rw [el_tr]; rfl
  rcases restart_hands_out keep readd s sh hknown2 hna with h1 | ⟨p, hp, hk⟩
  · left; rw [el_ru, el_cu] at h1; exact h1
  · -- a tracked parent: not one that was tracked at the checkpoint, not a newly discovered one
    have hpl : p < sh.id := (h.E1 _ _ (hc.K1 sh hs)).2 p hp
    rcases (knownId_addSplits _ _ _).mp hk with h1 | ⟨t, ht, e⟩
    · rw [el_tr] at h1
      obtain ⟨t, ht, e⟩ := (knownId_iff _ _).mp h1
      rcases mem_addSplits _ _ _ ht with h2 | h2
      · simp at h2
      · rcases List.mem_append.mp h2 with h2 | h2
        · exfalso
          have := hc.W sh hs ha p hp
          rw [(knownId_iff _ _).mpr ⟨t, (List.mem_filter.mp h2).1, e⟩] at this
          exact Bool.noConfusion this
        · right
          cases hr : readd with
          | false => rw [hr] at h2; simp at h2
          | true =>
            rw [hr] at h2
            exact ⟨rfl, p, hp, List.mem_map.mpr ⟨t, h2, e⟩⟩
    · exfalso
      have h1 := (mem_drop_stream _ hInv1 _ t ht).2
      have h2 := hc.L2 sh hs ha
      rw [el_tr] at h1
      have : (loadTr keep readd s.stream c).next = c.tr.next := rfl
      omega

/-- what a restart tracks after `LoadSplits` and the first discovery -/
theorem mem_discover_load (keep readd : Bool) (s : Sp) (h : Inv s) (c : Ckpt) (hck : s.ck = some c) (t : Shard)
    (ht : t ∈ (c.tr.known.filter (fun t => isAssigned c.tr t || keep)) ++ (if readd then readdList s.stream c else []) ∨
          t ∈ s.stream.drop c.tr.next) :
    t ∈ (discover (load keep readd s)).tr.known := by
  have hc := h.CK c hck
  obtain ⟨el_tr, el_st, _, _⟩ := load_proj keep readd s c hck
  have hInv1 := Inv.load keep readd s h
  have hstream : ∀ u ∈ (c.tr.known.filter (fun t => isAssigned c.tr t || keep)) ++ (if readd then readdList s.stream c else []),
      s.stream[u.id]? = some u := by
    intro u hu
    rcases List.mem_append.mp hu with h1 | h1
    · exact hc.K1 u (List.mem_filter.mp h1).1
    · cases hr : readd with
      | false => rw [hr] at h1; simp at h1
      | true =>
        rw [hr] at h1
        simp only [if_true, readdList] at h1
        obtain ⟨j, hj⟩ := List.mem_iff_getElem?.mp (List.mem_filter.mp h1).1
        have := (h.E1 _ _ hj).1
        rw [this]; exact hj
  have hdrop : ∀ u ∈ s.stream.drop c.tr.next, s.stream[u.id]? = some u := fun u hu => (mem_drop_stream s h _ u hu).1
  have htS : s.stream[t.id]? = some t := by
    rcases ht with h1 | h1
    · exact hstream t h1
    · exact hdrop t h1
  have uniq : ∀ u, s.stream[u.id]? = some u → u.id = t.id → u = t := by
    intro u hu e
    rw [e, htS] at hu
    exact (Option.some.inj hu).symm
  show t ∈ addSplits (load keep readd s).tr.known ((load keep readd s).stream.drop (load keep readd s).tr.next)
  rw [el_tr, el_st]
  have hnext : (loadTr keep readd s.stream c).next = c.tr.next := rfl
  rw [hnext]
  apply mem_addSplits_of
  · rcases ht with h1 | h1
    · left
      apply mem_addSplits_of _ _ _ (Or.inr h1)
      intro u hu e; exact uniq u (hstream u hu) e
    · exact Or.inr h1
  · intro u hu e; exact uniq u (hdrop u hu) e

/-- **every reported position is resumed**: a shard for which the checkpoint holds a position is handed out by the
restart with that position or waits for a tracked parent — provided it was still tracked and assigned at the splitter
checkpoint (or tracked and `keep`), or not yet passed by discovery, or `readd` -/
theorem reported_resumed (keep readd : Bool) (s : Sp) (h : Inv s) (c : Ckpt) (hck : s.ck = some c)
    (i : Nat) (sh : Shard) (hsh : s.stream[i]? = some sh) (hst : i ∈ c.states.map (·.1))
    (hB : ¬ (knownId c.tr.known i = true ∧ (i ∈ c.tr.assigned ∨ keep = true)) → i < c.tr.next → readd = true) :
    (∃ call ∈ (restart keep readd s).2, (uidx sh.lo sh.hi s.runners, i, cursorOf c.states i) ∈ call) ∨
    ∃ p ∈ sh.parents, knownId (discover (load keep readd s)).tr.known p = true := by
  have hc := h.CK c hck
  obtain ⟨el_tr, _, el_ru, el_cu⟩ := load_proj keep readd s c hck
  have hid : sh.id = i := (h.E1 _ _ hsh).1
  have hmem : sh ∈ s.stream := List.mem_iff_getElem?.mpr ⟨i, hsh⟩
  have hk : sh ∈ (discover (load keep readd s)).tr.known := by
    apply mem_discover_load keep readd s h c hck
    by_cases hA : knownId c.tr.known i = true ∧ (i ∈ c.tr.assigned ∨ keep = true)
    · left; apply List.mem_append_left
      obtain ⟨t, ht, e⟩ := (knownId_iff _ _).mp hA.1
      have hts : t = sh := by
        have := hc.K1 t ht
        rw [e, hsh] at this
        exact (Option.some.inj this).symm
      subst hts
      apply List.mem_filter.mpr
      refine ⟨ht, ?_⟩
      simp only [isAssigned, Bool.or_eq_true]
      rcases hA.2 with a | a
      · exact Or.inl (List.contains_iff_mem.mpr (hid ▸ a))
      · exact Or.inr a
    · by_cases hn : i < c.tr.next
      · left; apply List.mem_append_right
        rw [hB hA hn]
        simp only [if_true, readdList]
        apply List.mem_filter.mpr
        refine ⟨hmem, ?_⟩
        simp only [Bool.and_eq_true, Bool.not_eq_true', decide_eq_true_eq, Bool.and_eq_false_iff]
        refine ⟨⟨List.contains_iff_mem.mpr (hid ▸ hst), ?_⟩, hid ▸ hn⟩
        cases hkn : knownId c.tr.known sh.id with
        | false => exact Or.inr rfl
        | true =>
          left
          cases hia : isAssigned c.tr sh with
          | false => rfl
          | true =>
            exfalso
            apply hA
            exact ⟨hid ▸ hkn, Or.inl (hid ▸ List.contains_iff_mem.mp hia)⟩
      · right
        apply List.mem_iff_getElem?.mpr
        refine ⟨i - c.tr.next, ?_⟩
        rw [List.getElem?_drop]
        have : c.tr.next + (i - c.tr.next) = i := by omega
        rw [this]; exact hsh
  have hna : (load keep readd s).tr.assigned = [] := by rw [el_tr]; rfl
  rcases restart_hands_out keep readd s sh hk hna with a | a
  · left; rw [el_ru, el_cu, hid] at a; exact a
  · exact Or.inr a

theorem envSplit_log (s : Sp) (i a : Nat) : ((envSplit s i a).getD s).log = s.log := by
  unfold Splits.envSplit
  cases hi : s.stream[i]? with
  | none => rfl
  | some sh =>
    simp only
    split <;> rfl

theorem envMerge_log (s : Sp) (i j : Nat) : ((envMerge s i j).getD s).log = s.log := by
  unfold Splits.envMerge
  cases hi : s.stream[i]? with
  | none => rfl
  | some a =>
    cases hj : s.stream[j]? with
    | none => rfl
    | some b => rfl

theorem load_log (keep readd : Bool) (s : Sp) : (load keep readd s).log = [] := by
  unfold Splits.load
  cases s.ck <;> rfl

/-- the log is exactly what the `AssignSplits` calls since the last (re)start handed out -/
theorem step_log (keep readd : Bool) (s : Sp) (a : Act) :
    (step keep readd s a).1.log = (match a with | .start => [] | _ => s.log) ++ callIds (step keep readd s a).2 := by
  cases a with
  | start =>
    show (assignAvail (discover (load keep readd s))).1.log = _
    rw [assignAvail_log]
    show (load keep readd s).log ++ _ = _
    rw [load_log]; rfl
  | tick => show (assignAvail (discover s)).1.log = _; rw [assignAvail_log]; rfl
  | finish ids => show (assignAvail (remove s ids)).1.log = _; rw [assignAvail_log]; rfl
  | ckpt st => simp [Splits.step, Splits.checkpoint, callIds]
  | split i a => simp [Splits.step, envSplit_log, callIds]
  | merge i j => simp [Splits.step, envMerge_log, callIds]

/-! ## Job recovery -/

theorem publish_cases (cur : Option JCk) (c x : JCk) (h : publish cur c = some x) : x = c ∨ cur = some x := by
  unfold publish at h
  cases cur with
  | none => simp at h; exact Or.inl h.symm
  | some o =>
    simp only at h
    split at h
    · exact Or.inl (Option.some.inj h).symm
    · exact Or.inr h

theorem foldl_publish_cases (l : List JCk) (cur : Option JCk) (x : JCk) (h : l.foldl publish cur = some x) :
    x ∈ l ∨ cur = some x := by
  induction l generalizing cur with
  | nil => exact Or.inr h
  | cons a l ih =>
    rcases ih _ h with h1 | h1
    · exact Or.inl (List.mem_cons_of_mem _ h1)
    · rcases publish_cases _ _ _ h1 with h2 | h2
      · exact Or.inl (h2 ▸ List.mem_cons_self)
      · exact Or.inr h2

structure JInv (s : JSt) : Prop where
  cur : ∀ c, s.current = some c → c ∈ s.reported
  held : ∀ c ∈ s.held, c ∈ s.reported
  ids : ∀ c ∈ s.reported, c.1 ≤ s.lastId
  nodup : (s.reported.map (·.1)).Nodup

theorem JInv.release (s : JSt) (h : JInv s) : JInv (jrelease s) := by
  refine ⟨?_, ?_, h.ids, h.nodup⟩
  · intro c hc
    rcases foldl_publish_cases _ _ _ hc with h1 | h1
    · exact h.held c h1
    · exact h.cur c h1
  · intro c hc; simp [jrelease] at hc

theorem JInv.step (s : JSt) (h : JInv s) (a : JAct) : JInv (jstep s a).1 := by
  cases a with
  | ckpt pos hold =>
    have hids : ∀ c ∈ s.reported ++ [(s.lastId + 1, pos)], c.1 ≤ s.lastId + 1 := by
      intro c hc
      rcases List.mem_append.mp hc with h1 | h1
      · have := h.ids c h1; omega
      · simp only [List.mem_singleton] at h1; subst h1; exact Nat.le_refl _
    have hnd : ((s.reported ++ [(s.lastId + 1, pos)]).map (·.1)).Nodup := by
      simp only [List.map_append, List.map_cons, List.map_nil]
      rw [List.nodup_append]
      refine ⟨h.nodup, by simp, ?_⟩
      intro a ha b hb e
      simp only [List.mem_singleton] at hb
      obtain ⟨c, hc, rfl⟩ := List.mem_map.mp ha
      have := h.ids c hc
      omega
    cases hold with
    | true =>
      refine ⟨?_, ?_, hids, hnd⟩
      · intro c hc; exact List.mem_append_left _ (h.cur c hc)
      · intro c hc
        rcases List.mem_append.mp hc with h1 | h1
        · exact List.mem_append_left _ (h.held c h1)
        · exact List.mem_append_right _ h1
    | false =>
      refine ⟨?_, ?_, hids, hnd⟩
      · intro c hc
        rcases publish_cases _ _ _ hc with h1 | h1
        · exact List.mem_append_right _ (by simp [h1])
        · exact List.mem_append_left _ (h.cur c h1)
      · intro c hc; exact List.mem_append_left _ (h.held c hc)
  | release => exact JInv.release s h
  | start race =>
    cases race with
    | true => exact JInv.release s h
    | false => exact h

theorem jstep_reported_mono (s : JSt) (a : JAct) : ∀ c ∈ s.reported, c ∈ (jstep s a).1.reported := by
  intro c hc
  cases a with
  | ckpt pos hold => cases hold <;> exact List.mem_append_left _ hc
  | release => exact hc
  | start race => cases race <;> exact hc

theorem jrun_cons (s : JSt) (a : JAct) (as : List JAct) :
    jrun s (a :: as) = ((jrun (jstep s a).1 as).1, (jstep s a).2.toList ++ (jrun (jstep s a).1 as).2) := rfl

theorem jrun_reported_mono (as : List JAct) (s : JSt) : ∀ c ∈ s.reported, c ∈ (jrun s as).1.reported := by
  induction as generalizing s with
  | nil => intro c hc; exact hc
  | cons a as ih =>
    intro c hc
    rw [jrun_cons]
    exact ih _ c (jstep_reported_mono s a c hc)

theorem jrun_inv (as : List JAct) (s : JSt) (h : JInv s) : JInv (jrun s as).1 := by
  induction as generalizing s with
  | nil => exact h
  | cons a as ih => rw [jrun_cons]; exact ih _ (JInv.step s h a)

theorem jrun_obs (as : List JAct) (s : JSt) (h : JInv s) :
    ∀ o ∈ (jrun s as).2, o = (none, none) ∨ ∃ c ∈ (jrun s as).1.reported, o = (some c.1, some c.2) := by
  induction as generalizing s with
  | nil => intro o ho; simp [jrun] at ho
  | cons a as ih =>
    intro o ho
    rw [jrun_cons] at ho ⊢
    rcases List.mem_append.mp ho with h1 | h1
    · -- the observation of this step
      cases a with
      | ckpt pos hold => simp [jstep] at h1
      | release => simp [jstep] at h1
      | start race =>
        simp only [jstep, Option.toList_some, List.mem_singleton] at h1
        cases hc : s.current with
        | none => left; rw [h1, hc]; rfl
        | some c =>
          right
          refine ⟨c, jrun_reported_mono as _ c (jstep_reported_mono s _ c (h.cur c hc)), ?_⟩
          rw [h1, hc]; rfl
    · exact ih _ (JInv.step s h a) o h1

/-! ## Completeness of an assignment round, the embedded splitter, the httpapi cursor -/

theorem assignAvail_proj (s : Sp) :
    (assignAvail s).1.tr.known = s.tr.known ∧ (assignAvail s).1.done = s.done ∧ (assignAvail s).1.stream = s.stream := by
  unfold Splits.assignAvail
  by_cases he : (available s.tr).isEmpty = true <;> simp [he, trackAssigned]

/-- after `assignShards(AvailableSplits())` nothing is available any more -/
theorem available_after_assign (s : Sp) : available (assignAvail s).1.tr = [] := by
  unfold Splits.assignAvail
  by_cases he : (available s.tr).isEmpty = true
  · simp only [he, if_true]; exact List.isEmpty_iff.mp he
  · simp only [he]
    apply List.eq_nil_iff_forall_not_mem.mpr
    intro sh hs
    have h1 := (mem_available _ sh).mp hs
    have h2 : sh ∈ available s.tr := by
      apply (mem_available _ sh).mpr
      refine ⟨h1.1, ?_, h1.2.2⟩
      intro hm
      exact h1.2.1 (List.mem_append_right _ hm)
    exact h1.2.1 (List.mem_append_left _ (List.mem_map_of_mem h2))

/-- a discovery followed by an assignment round leaves no shard of the stream behind: each one is finished, handed
out, or waits for a parent that the tracker still tracks -/
theorem round_complete (s : Sp) (h : Inv s) (ht : s.tainted = false) :
    let s' := (assignAvail (discover s)).1
    ∀ (i : Nat) (sh : Shard), s'.stream[i]? = some sh →
      i ∈ s'.done ∨ i ∈ s'.log ∨ ∃ p ∈ sh.parents, knownId s'.tr.known p = true := by
  intro s' i sh hi
  have h1 : Inv (discover s) := Inv.discover s h
  have h2 : Inv s' := Inv.assignAvail _ h1
  obtain ⟨ek, ed, es⟩ := assignAvail_proj (discover s)
  have hi0 : s.stream[i]? = some sh := by
    have : s'.stream = s.stream := es
    rw [this] at hi; exact hi
  have hil := lt_length_of_getElem? _ _ _ hi0
  have hkd : knownId (discover s).tr.known i = true ∨ i ∈ s.done := by
    by_cases hn : i < s.tr.next
    · rcases h.Q ht i hn with a | a
      · exact Or.inl ((knownId_addSplits _ _ _).mpr (Or.inl a))
      · exact Or.inr a
    · exact Or.inl ((knownId_addSplits _ _ _).mpr (Or.inr (drop_has s _ i (by omega) hil h)))
  rcases hkd with hk | hd
  · obtain ⟨t, ht', e⟩ := (knownId_iff _ _).mp hk
    have hts : t = sh := by
      have := h1.K1 t ht'
      rw [e] at this
      have hi1 : (discover s).stream[i]? = some sh := hi0
      rw [hi1] at this
      exact (Option.some.inj this).symm
    subst hts
    have hna : t ∉ available s'.tr := by rw [available_after_assign]; simp
    have hks' : t ∈ s'.tr.known := by rw [ek]; exact ht'
    by_cases ha : t.id ∈ s'.tr.assigned
    · exact Or.inr (Or.inl (e ▸ h2.A2 _ ha))
    · right; right
      apply Classical.byContradiction
      intro hno
      apply hna
      apply (mem_available _ t).mpr
      refine ⟨hks', ha, ?_⟩
      intro p hp
      cases hc : knownId s'.tr.known p with
      | false => rfl
      | true => exact absurd ⟨p, hp, hc⟩ hno
  · left; rw [ed]; exact hd

theorem load_tainted_false (keep readd : Bool) (s : Sp) (h : (load keep readd s).tainted = false) : s.tainted = false := by
  unfold Splits.load at h
  cases hck : s.ck with
  | none => rw [hck] at h; exact h
  | some c =>
    rw [hck] at h
    simp only [Bool.or_eq_false_iff] at h
    exact h.1.1

/-- groups with a duplicate-free concatenation: an element lies in one group only -/
theorem flatten_nodup_unique {α : Type} (L : List (List α)) (h : L.flatten.Nodup) (x : α) (r r' : Nat)
    (g g' : List α) (hr : L[r]? = some g) (hr' : L[r']? = some g') (hx : x ∈ g) (hx' : x ∈ g') : r = r' := by
  induction L generalizing r r' with
  | nil => simp at hr
  | cons a L ih =>
    simp only [List.flatten_cons, List.nodup_append] at h
    obtain ⟨_, hL, hdis⟩ := h
    have inFl : ∀ (k : Nat) (b : List α), L[k]? = some b → x ∈ b → x ∈ L.flatten := by
      intro k b hk hb
      exact List.mem_flatten.mpr ⟨b, List.mem_iff_getElem?.mpr ⟨k, hk⟩, hb⟩
    cases r with
    | zero =>
      cases r' with
      | zero => rfl
      | succ k' =>
        simp only [List.getElem?_cons_zero, Option.some.injEq] at hr
        simp only [List.getElem?_cons_succ] at hr'
        subst hr
        exact absurd rfl (hdis x hx x (inFl k' g' hr' hx'))
    | succ k =>
      cases r' with
      | zero =>
        simp only [List.getElem?_cons_zero, Option.some.injEq] at hr'
        simp only [List.getElem?_cons_succ] at hr
        subst hr'
        exact absurd rfl (hdis x hx' x (inFl k g hr hx))
      | succ k' =>
        simp only [List.getElem?_cons_succ] at hr hr'
        rw [ih hL k k' hr hr']

theorem httpCursor_append_nonempty {α : Type} (pre : List (List α)) (d : List α) (hd : d ≠ []) :
    httpCursor (pre ++ [d]) = d := by
  unfold httpCursor
  rw [List.foldl_append]
  simp only [List.foldl_cons, List.foldl_nil]
  have : d.isEmpty = false := by
    cases d with
    | nil => exact absurd rfl hd
    | cons _ _ => rfl
  simp [this]

theorem httpCursor_append_empties {α : Type} (l post : List (List α)) (hp : ∀ e ∈ post, e = []) :
    httpCursor (l ++ post) = httpCursor l := by
  unfold httpCursor
  rw [List.foldl_append]
  generalize List.foldl (fun acc d => if d.isEmpty = true then acc else d) [] l = acc
  induction post generalizing acc with
  | nil => rfl
  | cons e post ih =>
    have he : e = [] := hp e List.mem_cons_self
    subst he
    simp only [List.foldl_cons, List.isEmpty_nil, if_true]
    exact ih (fun e he => hp e (List.mem_cons_of_mem _ he)) acc

/-! ## Tracked shards are unfinished (as long as readers only finish shards they were given) -/

structure Tame (s : Sp) : Prop where
  X : s.wild = false → ∀ sh ∈ s.tr.known, sh.id ∉ s.done
  Y : s.wild = false → ∀ i ∈ s.done, i < s.tr.next
  CX : s.wild = false → ∀ c, s.ck = some c → (∀ sh ∈ c.tr.known, sh.id ∉ c.done) ∧ ∀ i ∈ c.done, i < c.tr.next

theorem Tame.discover (s : Sp) (hI : Inv s) (h : Tame s) : Tame (discover s) := by
  refine ⟨?_, h.Y, h.CX⟩
  intro hw sh hs
  rcases mem_addSplits _ _ _ hs with h1 | h1
  · exact h.X hw sh h1
  · intro hd
    have := (mem_drop_stream s hI _ sh h1).2
    have := h.Y hw _ hd
    omega

theorem Tame.assignAvail (s : Sp) (h : Tame s) : Tame (assignAvail s).1 := by
  unfold Splits.assignAvail
  by_cases he : (available s.tr).isEmpty = true
  · simp only [he, if_true]; exact h
  · simp only [he]
    refine ⟨h.X, ?_, h.CX⟩
    intro hw i hi
    exact Nat.lt_of_lt_of_le (h.Y hw i hi) (nextOf_ge _ _)

theorem Tame.remove (s : Sp) (hI : Inv s) (h : Tame s) (ids : List Nat) : Tame (remove s ids) := by
  have hsplit : (Splits.remove s ids).wild = false → s.wild = false ∧ ∀ i ∈ ids, i ∈ s.tr.assigned := by
    intro hw
    simp only [Splits.remove, Bool.or_eq_false_iff] at hw
    refine ⟨hw.1, ?_⟩
    intro i hi
    have := List.any_eq_false.mp hw.2 i hi
    simp only [Bool.not_eq_true', Bool.not_eq_false'] at this
    exact List.contains_iff_mem.mp (by simpa using this)
  refine ⟨?_, ?_, ?_⟩
  · intro hw sh hs hd
    obtain ⟨hw0, _⟩ := hsplit hw
    have hm := List.mem_filter.mp hs
    rcases List.mem_append.mp hd with h1 | h1
    · exact h.X hw0 sh hm.1 h1
    · have hc : ids.contains sh.id = true := List.contains_iff_mem.mpr h1
      have h2 := hm.2
      rw [hc] at h2
      exact Bool.noConfusion h2
  · intro hw i hi
    obtain ⟨hw0, hass⟩ := hsplit hw
    rcases List.mem_append.mp hi with h1 | h1
    · exact h.Y hw0 i h1
    · exact hI.L2 _ (hI.A2 _ (hass i h1))
  · intro hw c hc
    exact h.CX (hsplit hw).1 c hc

theorem Tame.checkpoint (s : Sp) (h : Tame s) (st : List (Nat × Nat)) : Tame (checkpoint s st) := by
  refine ⟨h.X, h.Y, ?_⟩
  intro hw c hc
  simp only [Splits.checkpoint, Option.some.injEq] at hc
  subst hc
  exact ⟨h.X hw, h.Y hw⟩

theorem Tame.load (keep readd : Bool) (s : Sp) (h : Tame s) : Tame (load keep readd s) := by
  unfold Splits.load
  cases hck : s.ck with
  | none =>
    refine ⟨?_, ?_, ?_⟩
    · intro _ sh hs; simp at hs
    · intro _ i hi; simp at hi
    · intro hw c hc; simp at hc
  | some c =>
    have hdone : ∀ i, i ∈ (if readd then c.done.filter (fun i => !((readdList s.stream c).map (·.id)).contains i) else c.done) →
        i ∈ c.done ∧ (readd = true → i ∉ (readdList s.stream c).map (·.id)) := by
      intro i hi
      cases hr : readd with
      | false => rw [hr] at hi; exact ⟨hi, fun x => Bool.noConfusion x⟩
      | true =>
        rw [hr] at hi
        simp only [if_true] at hi
        have := List.mem_filter.mp hi
        refine ⟨this.1, fun _ hm => ?_⟩
        have h2 := this.2
        rw [List.contains_iff_mem.mpr hm] at h2
        exact Bool.noConfusion h2
    refine ⟨?_, ?_, ?_⟩
    · intro hw sh hs hd
      have hw0 : s.wild = false := hw
      obtain ⟨hd1, hd2⟩ := hdone _ hd
      rcases mem_addSplits _ _ _ hs with h1 | h1
      · simp at h1
      · rcases List.mem_append.mp h1 with h1 | h1
        · exact (h.CX hw0 c hck).1 sh (List.mem_filter.mp h1).1 hd1
        · cases hr : readd with
          | false => rw [hr] at h1; simp at h1
          | true =>
            rw [hr] at h1
            exact hd2 hr (List.mem_map_of_mem h1)
    · intro hw i hi
      have hw0 : s.wild = false := hw
      exact (h.CX hw0 c hck).2 i (hdone i hi).1
    · intro hw c' hc'
      have hw0 : s.wild = false := hw
      exact h.CX hw0 c' (by rw [hck]; exact hc')

theorem Tame.envSplit (s : Sp) (h : Tame s) (i a : Nat) : Tame ((envSplit s i a).getD s) := by
  unfold Splits.envSplit
  cases hi : s.stream[i]? with
  | none => exact h
  | some sh =>
    simp only
    split
    · exact h
    · exact ⟨h.X, h.Y, h.CX⟩

theorem Tame.envMerge (s : Sp) (h : Tame s) (i j : Nat) : Tame ((envMerge s i j).getD s) := by
  unfold Splits.envMerge
  cases hi : s.stream[i]? with
  | none => exact h
  | some a =>
    cases hj : s.stream[j]? with
    | none => exact h
    | some b => exact ⟨h.X, h.Y, h.CX⟩

theorem Tame.step (keep readd : Bool) (s : Sp) (hI : Inv s) (h : Tame s) (a : Act) : Tame (step keep readd s a).1 := by
  cases a with
  | start => exact Tame.assignAvail _ (Tame.discover _ (Inv.load keep readd s hI) (Tame.load keep readd s h))
  | tick => exact Tame.assignAvail _ (Tame.discover s hI h)
  | finish ids => exact Tame.assignAvail _ (Tame.remove s hI h ids)
  | ckpt st => exact Tame.checkpoint s h st
  | split i a => exact Tame.envSplit s h i a
  | merge i j => exact Tame.envMerge s h i j

theorem Tame.run (keep readd : Bool) (as : List Act) (s : Sp) (hI : Inv s) (h : Tame s) : Tame (run keep readd s as) := by
  induction as generalizing s with
  | nil => exact h
  | cons a as ih => rw [run_cons]; exact ih _ (Inv.step keep readd s hI a) (Tame.step keep readd s hI h a)

theorem Tame.init (shards runners : Nat) : Tame (initSp shards runners) := by
  refine ⟨?_, ?_, ?_⟩
  · intro _ sh hs; simp [initSp] at hs
  · intro _ i hi; simp [initSp] at hi
  · intro _ c hc; simp [initSp] at hc

end Rxn.Splits
