import RxnModel.Model.Heap
/-! Heap invariant: preserved by `push`, `pop`, `fix`; the root is a minimum; contents are permuted. -/
namespace Rxn.Heap
variable {α : Type}

/-- what the heap needs from `compare(a, b) < 0`: a strict weak order -/
structure StrictWeak (lt : α → α → Bool) : Prop where
  asymm : ∀ a b, lt a b = true → lt b a = false
  ntrans : ∀ a b c, lt a b = false → lt b c = false → lt a c = false

/-- `a ≤ b` := `!(b < a)` -/
def le (lt : α → α → Bool) (a b : α) : Prop := lt b a = false

theorem le_trans' {lt : α → α → Bool} (sw : StrictWeak lt) {a b c : α} (h1 : le lt a b) (h2 : le lt b c) : le lt a c :=
  sw.ntrans c b a h2 h1

theorem le_of_lt {lt : α → α → Bool} (sw : StrictWeak lt) {a b : α} (h : lt a b = true) : le lt a b := sw.asymm a b h

theorem le_refl' {lt : α → α → Bool} (sw : StrictWeak lt) (a : α) : le lt a a := by
  unfold le
  cases h : lt a a with
  | false => rfl
  | true => have := sw.asymm a a h; rw [h] at this; cases this

theorem le_of_not_lt {lt : α → α → Bool} {a b : α} (h : lt b a = false) : le lt a b := h

/-- every present pair (position `p`, position `j`) is ordered -/
def Rel (lt : α → α → Bool) (a : Array α) (p j : Nat) : Prop :=
  ∀ x y, a[p]? = some x → a[j]? = some y → le lt x y

/-- the parent of `j` is not above `j` -/
def OkPair (lt : α → α → Bool) (a : Array α) (j : Nat) : Prop := 0 < j → Rel lt a ((j - 1) / 2) j

def Inv (lt : α → α → Bool) (a : Array α) : Prop := ∀ j, OkPair lt a j

/-- the parent of `i` is not above the children of `i` -/
def Grand (lt : α → α → Bool) (a : Array α) (i : Nat) : Prop :=
  0 < i → ∀ c, 0 < c → (c - 1) / 2 = i → Rel lt a ((i - 1) / 2) c

/-- precondition of `up(i)`: only the pair (parent i, i) may be wrong -/
def UpInv (lt : α → α → Bool) (a : Array α) (i : Nat) : Prop :=
  (∀ j, j ≠ i → OkPair lt a j) ∧ Grand lt a i

/-- precondition of `down(i)` / `Fix(i)`: only pairs with `i` as parent or child may be wrong -/
def DownInv (lt : α → α → Bool) (a : Array α) (i : Nat) : Prop :=
  (∀ j, j ≠ i → (j - 1) / 2 ≠ i → OkPair lt a j) ∧ Grand lt a i

theorem get?_some {a : Array α} {k : Nat} (h : k < a.size) : a[k]? = some a[k] := Array.getElem?_eq_getElem h

theorem lt_size_of_get? {a : Array α} {k : Nat} {x : α} (h : a[k]? = some x) : k < a.size := by
  obtain ⟨h', _⟩ := Array.getElem?_eq_some_iff.mp h; exact h'

theorem size_up (lt : α → α → Bool) (a : Array α) (i : Nat) : (up lt a i).size = a.size := by
  induction i using Nat.strongRecOn generalizing a with
  | _ i ih =>
    unfold up
    split
    · rfl
    · split
      · split
        · rw [ih _ (by omega)]; simp
        · rfl
      · rfl

theorem swap_get (a : Array α) (i j : Nat) (hi : i < a.size) (hj : j < a.size) (k : Nat) :
    (a.swap i j hi hj)[k]? = if k = i then some a[j] else if k = j then some a[i] else a[k]? := by
  rw [Array.getElem?_swap]
  by_cases h1 : k = i
  · subst h1
    by_cases h2 : j = k
    · subst h2; simp
    · simp [h2]
  · by_cases h2 : k = j
    · subst h2; simp [h1]
    · have h3 : ¬ j = k := fun e => h2 e.symm
      have h4 : ¬ i = k := fun e => h1 e.symm
      simp [h1, h2, h3, h4]

theorem up_inv {lt : α → α → Bool} (sw : StrictWeak lt) (a : Array α) (i : Nat) (h : UpInv lt a i) :
    Inv lt (up lt a i) := by
  induction i using Nat.strongRecOn generalizing a with
  | _ i ih =>
    unfold up
    by_cases h0 : i = 0
    · rw [dif_pos h0]
      intro j
      by_cases hj : j = 0
      · intro hh; omega
      · exact h.1 j (by omega)
    · rw [dif_neg h0]
      by_cases hi : i < a.size
      · rw [dif_pos hi]
        have hp : (i - 1) / 2 < a.size := by omega
        by_cases hlt : lt a[i] a[(i - 1) / 2] = true
        · rw [if_pos hlt]
          apply ih ((i - 1) / 2) (by omega)
          constructor
          · intro j hjp hj0 x y hx hy
            rw [swap_get] at hx hy
            by_cases hji : j = i
            · rw [hji] at hx hy
              rw [if_neg (by omega), if_pos rfl] at hx
              rw [if_pos rfl] at hy
              cases hx; cases hy
              exact le_of_lt sw hlt
            · rw [if_neg hji, if_neg hjp] at hy
              by_cases hpi : (j - 1) / 2 = i
              · -- child of i
                rw [if_pos hpi] at hx
                cases hx
                exact h.2 (by omega) j hj0 hpi _ _ (get?_some hp) hy
              · rw [if_neg hpi] at hx
                by_cases hpp : (j - 1) / 2 = (i - 1) / 2
                · -- sibling of i
                  rw [if_pos hpp] at hx
                  cases hx
                  have h1 : le lt a[(i - 1) / 2] y := h.1 j hji hj0 _ _ (by rw [hpp]; exact get?_some hp) hy
                  exact le_trans' sw (le_of_lt sw hlt) h1
                · rw [if_neg hpp] at hx
                  exact h.1 j hji hj0 _ _ hx hy
          · intro hp0 c hc0 hcp x y hx hy
            rw [swap_get] at hx hy
            rw [if_neg (by omega), if_neg (by omega)] at hx
            have hpo : le lt x a[(i - 1) / 2] := h.1 ((i - 1) / 2) (by omega) hp0 _ _ hx (get?_some hp)
            by_cases hci : c = i
            · rw [if_pos hci] at hy
              cases hy
              exact hpo
            · rw [if_neg hci, if_neg (by omega)] at hy
              exact le_trans' sw hpo (h.1 c hci hc0 _ _ (by rw [hcp]; exact get?_some hp) hy)
        · rw [if_neg hlt]
          intro j
          by_cases hji : j = i
          · rw [hji]
            intro _ x y hx hy
            rw [get?_some hp] at hx; rw [get?_some hi] at hy
            cases hx; cases hy
            exact le_of_not_lt (by simpa using hlt)
          · exact h.1 j hji
      · rw [dif_neg hi]
        intro j
        by_cases hji : j = i
        · rw [hji]
          intro _ x y _ hy
          exact absurd (lt_size_of_get? hy) hi
        · exact h.1 j hji

theorem minChild_le {lt : α → α → Bool} (sw : StrictWeak lt) (a : Array α) (i : Nat) (h : 2 * i + 1 < a.size)
    (s : Nat) (hs0 : 0 < s) (hsp : (s - 1) / 2 = i) (y : α) (hy : a[s]? = some y) :
    le lt (a[minChild lt a i h]'(minChild_bounds lt a i h).1) y := by
  have hs : s < a.size := lt_size_of_get? hy
  rw [get?_some hs] at hy
  cases hy
  have hcase : s = 2 * i + 1 ∨ s = 2 * i + 2 := by omega
  unfold minChild
  by_cases hr : 2 * i + 2 < a.size
  · simp only [hr, dite_true]
    by_cases hlt : lt a[2 * i + 2] a[2 * i + 1] = true
    · simp only [hlt, if_true]
      rcases hcase with e | e
      · subst e; exact le_of_lt sw hlt
      · subst e; exact le_refl' sw _
    · simp only [hlt]
      rcases hcase with e | e
      · subst e; exact le_refl' sw _
      · subst e; exact le_of_not_lt (by simpa using hlt)
  · simp only [hr, dite_false]
    rcases hcase with e | e
    · subst e; exact le_refl' sw _
    · omega

theorem down_eq (lt : α → α → Bool) (a : Array α) (i : Nat) :
    down lt a i =
      if hl : 2 * i + 1 < a.size then
        if lt (a[minChild lt a i hl]'(minChild_bounds lt a i hl).1) (a[i]'(by omega)) then
          down lt (a.swap i (minChild lt a i hl) (by omega) (minChild_bounds lt a i hl).1) (minChild lt a i hl)
        else (a, i)
      else (a, i) := by
  rw [down]

/-- result of `down(i)` from the `Fix` precondition -/
theorem down_spec {lt : α → α → Bool} (sw : StrictWeak lt) (a : Array α) (i : Nat) (hi : i < a.size)
    (h : DownInv lt a i) (r : Array α × Nat) (hr : down lt a i = r) :
    r.1.size = a.size ∧ i ≤ r.2 ∧ r.2 < a.size ∧
    (∀ j, j ≠ r.2 → OkPair lt r.1 j) ∧ Grand lt r.1 r.2 ∧
    ((OkPair lt a i ∨ r.2 ≠ i) → OkPair lt r.1 r.2) ∧ (r.2 = i → r.1 = a) := by
  induction hn : a.size - i using Nat.strongRecOn generalizing a i r with
  | _ n ih =>
    rw [down_eq] at hr
    have stay : r = (a, i) → (∀ j, 0 < j → (j - 1) / 2 = i → Rel lt a i j) →
        r.1.size = a.size ∧ i ≤ r.2 ∧ r.2 < a.size ∧
        (∀ j, j ≠ r.2 → OkPair lt r.1 j) ∧ Grand lt r.1 r.2 ∧
        ((OkPair lt a i ∨ r.2 ≠ i) → OkPair lt r.1 r.2) ∧ (r.2 = i → r.1 = a) := by
      intro e hch
      subst e
      refine ⟨rfl, Nat.le_refl _, hi, ?_, h.2, ?_, fun _ => rfl⟩
      · intro j hji
        by_cases hpi : (j - 1) / 2 = i
        · intro hj0; rw [hpi]; exact hch j hj0 hpi
        · exact h.1 j hji hpi
      · intro hor
        rcases hor with h1 | h1
        · exact h1
        · exact absurd rfl h1
    by_cases hl : 2 * i + 1 < a.size
    · rw [dif_pos hl] at hr
      have hb := minChild_bounds lt a i hl
      by_cases hlt : lt (a[minChild lt a i hl]'hb.1) (a[i]'(by omega)) = true
      · rw [if_pos hlt] at hr
        have hm := hb.1
        have hmi := hb.2.1
        have hmp : (minChild lt a i hl - 1) / 2 = i := by omega
        -- the swapped array satisfies the precondition at the child
        have hdi : DownInv lt (a.swap i (minChild lt a i hl) hi hm) (minChild lt a i hl) := by
          constructor
          · intro j hjm hpm hj0 x y hx hy
            rw [swap_get] at hx hy
            by_cases hji : j = i
            · rw [hji] at hx hy
              rw [if_pos rfl] at hy
              rw [if_neg (by omega), if_neg (by omega)] at hx
              cases hy
              exact h.2 (by omega) _ (by omega) hmp _ _ hx (get?_some hm)
            · rw [if_neg hji, if_neg hjm] at hy
              by_cases hpi : (j - 1) / 2 = i
              · rw [if_pos hpi] at hx
                cases hx
                exact minChild_le sw a i hl j hj0 hpi y hy
              · rw [if_neg hpi, if_neg hpm] at hx
                exact h.1 j hji hpi hj0 _ _ hx hy
          · intro _ c hc0 hcp x y hx hy
            rw [swap_get] at hx hy
            rw [hmp, if_pos rfl] at hx
            rw [if_neg (by omega), if_neg (by omega)] at hy
            cases hx
            exact h.1 c (by omega) (by omega) hc0 _ _ (by rw [hcp]; exact get?_some hm) hy
        have hok : OkPair lt (a.swap i (minChild lt a i hl) hi hm) (minChild lt a i hl) := by
          intro _ x y hx hy
          rw [swap_get] at hx hy
          rw [hmp, if_pos rfl] at hx
          rw [if_neg (by omega), if_pos rfl] at hy
          cases hx; cases hy
          exact le_of_lt sw hlt
        have hsz : (a.swap i (minChild lt a i hl) hi hm).size = a.size := Array.size_swap
        have := ih (a.size - minChild lt a i hl) (by omega) (a.swap i (minChild lt a i hl) hi hm)
          (minChild lt a i hl) (by rw [hsz]; exact hm) hdi r hr (by rw [hsz])
        obtain ⟨r1, r2, r3, r4, r5, r6, _⟩ := this
        refine ⟨by rw [r1, hsz], by omega, by rw [hsz] at r3; exact r3, r4, r5, fun _ => r6 (Or.inl hok), ?_⟩
        intro e; omega
      · rw [if_neg hlt] at hr
        apply stay hr.symm
        intro j hj0 hpi x y hx hy
        rw [get?_some hi] at hx
        cases hx
        exact le_trans' sw (le_of_not_lt (by simpa using hlt)) (minChild_le sw a i hl j hj0 hpi y hy)
    · rw [dif_neg hl] at hr
      apply stay hr.symm
      intro j hj0 hpi x y _ hy
      have := lt_size_of_get? hy
      omega

/-- under the invariant the root is a minimum -/
theorem root_min {lt : α → α → Bool} (sw : StrictWeak lt) (a : Array α) (h : Inv lt a) (x : α) (hx : a[0]? = some x)
    (j : Nat) (y : α) (hy : a[j]? = some y) : le lt x y := by
  induction j using Nat.strongRecOn generalizing y with
  | _ j ih =>
    by_cases hj : j = 0
    · rw [hj, hx] at hy; cases hy; exact le_refl' sw _
    · have hjs := lt_size_of_get? hy
      have hp : (j - 1) / 2 < a.size := by omega
      exact le_trans' sw (ih ((j - 1) / 2) (by omega) _ (get?_some hp)) (h j (by omega) _ _ (get?_some hp) hy)

theorem up_perm (lt : α → α → Bool) (a : Array α) (i : Nat) : (up lt a i).toList.Perm a.toList := by
  induction i using Nat.strongRecOn generalizing a with
  | _ i ih =>
    unfold up
    split
    · exact List.Perm.refl _
    · split
      · split
        · exact (ih _ (by omega) _).trans (Array.swap_perm _ _).toList
        · exact List.Perm.refl _
      · exact List.Perm.refl _

theorem down_perm (lt : α → α → Bool) (a : Array α) (i : Nat) : (down lt a i).1.toList.Perm a.toList := by
  induction hn : a.size - i using Nat.strongRecOn generalizing a i with
  | _ n ih =>
    rw [down_eq]
    split
    · rename_i hl
      have hb := minChild_bounds lt a i hl
      split
      · have hsz : (a.swap i (minChild lt a i hl) (by omega) hb.1).size = a.size := Array.size_swap
        exact (ih (a.size - minChild lt a i hl) (by omega) _ _ (by rw [hsz])).trans (Array.swap_perm _ _).toList
      · exact List.Perm.refl _
    · exact List.Perm.refl _

/-- `Push` keeps the invariant and adds exactly the pushed element -/
theorem push_inv {lt : α → α → Bool} (sw : StrictWeak lt) (a : Array α) (x : α) (h : Inv lt a) :
    Inv lt (push lt a x) := by
  unfold push
  apply up_inv sw
  constructor
  · intro j hj hj0 u v hu hv
    rw [Array.getElem?_push] at hu hv
    rw [if_neg hj] at hv
    have := lt_size_of_get? hv
    rw [if_neg (by omega)] at hu
    exact h j hj0 _ _ hu hv
  · intro _ c hc0 hcp u v _ hv
    have := lt_size_of_get? hv
    rw [Array.size_push] at this
    omega

theorem push_perm (lt : α → α → Bool) (a : Array α) (x : α) : (push lt a x).toList.Perm (x :: a.toList) := by
  unfold push
  refine (up_perm lt _ _).trans ?_
  rw [Array.toList_push]
  exact List.perm_append_singleton x a.toList

/-- `Fix(i)` restores the invariant when only the element at `i` changed -/
theorem fix_inv {lt : α → α → Bool} (sw : StrictWeak lt) (a : Array α) (i : Nat) (hi : i < a.size)
    (h : DownInv lt a i) : Inv lt (fix lt a i) := by
  unfold fix
  obtain ⟨_, r2, _, r4, r5, r6, r7⟩ := down_spec sw a i hi h _ rfl
  by_cases hm : (down lt a i).2 > i
  · simp only [hm, if_true]
    intro j
    by_cases hj : j = (down lt a i).2
    · rw [hj]; exact r6 (Or.inr (by omega))
    · exact r4 j hj
  · simp only [hm, if_false]
    have he : (down lt a i).2 = i := by omega
    apply up_inv sw
    rw [he] at r4 r5
    exact ⟨r4, r5⟩

theorem fix_perm (lt : α → α → Bool) (a : Array α) (i : Nat) : (fix lt a i).toList.Perm a.toList := by
  unfold fix
  simp only
  split
  · exact down_perm lt a i
  · exact (up_perm lt _ _).trans (down_perm lt a i)

theorem pop_none (lt : α → α → Bool) (a : Array α) : pop lt a = none ↔ a.size = 0 := by
  unfold pop
  by_cases h : 0 < a.size
  · rw [dif_pos h]
    constructor
    · intro e; cases e
    · intro e; omega
  · rw [dif_neg h]
    constructor
    · intro _; omega
    · intro _; rfl

/-- `Pop` returns a minimum, keeps the invariant, and removes exactly the returned element -/
theorem pop_spec {lt : α → α → Bool} (sw : StrictWeak lt) (a : Array α) (h : Inv lt a) (x : α) (a' : Array α)
    (hp : pop lt a = some (x, a')) :
    Inv lt a' ∧ a.toList.Perm (x :: a'.toList) ∧ ∀ y ∈ a.toList, le lt x y := by
  unfold pop at hp
  by_cases h0 : 0 < a.size
  · rw [dif_pos h0] at hp
    simp only [Option.some.injEq, Prod.mk.injEq] at hp
    obtain ⟨hx, ha'⟩ := hp
    have hlast : a.size - 1 < a.size := by omega
    -- a1 = root replaced by the last element, truncated
    have hget : ∀ k, ((a.set 0 (a[a.size - 1]'hlast)).pop)[k]? =
        if k < a.size - 1 then (if k = 0 then some (a[a.size - 1]'hlast) else a[k]?) else none := by
      intro k
      rw [Array.getElem?_pop, Array.size_set, Array.getElem?_set]
      by_cases hk : k = 0
      · subst hk; simp
      · have : ¬ 0 = k := fun e => hk e.symm
        simp [hk, this]
    have hdown : DownInv lt ((a.set 0 (a[a.size - 1]'hlast)).pop) 0 := by
      constructor
      · intro j hj hpj hj0 u v hu hv
        rw [hget] at hu hv
        by_cases hjl : j < a.size - 1
        · rw [if_pos hjl, if_neg hj] at hv
          rw [if_pos (by omega), if_neg hpj] at hu
          exact h j hj0 _ _ hu hv
        · rw [if_neg hjl] at hv; cases hv
      · intro hh; omega
    have hperm : a.toList.Perm (x :: ((a.set 0 (a[a.size - 1]'hlast)).pop).toList) := by
      have e : (a.set 0 (a[a.size - 1]'hlast)).pop = (a.swap 0 (a.size - 1) h0 hlast).pop := by
        apply Array.ext
        · simp
        · intro k hk1 hk2
          simp only [Array.size_pop, Array.size_set] at hk1
          rw [Array.getElem_pop, Array.getElem_pop, Array.getElem_set, Array.getElem_swap]
          by_cases hk : k = 0
          · subst hk; simp
          · have : ¬ 0 = k := fun e => hk e.symm
            have h3 : ¬ k = a.size - 1 := by omega
            simp [hk, this, h3]
      rw [e]
      have hsw := (Array.swap_perm (xs := a) h0 hlast).toList
      refine hsw.symm.trans ?_
      have hne : (a.swap 0 (a.size - 1) h0 hlast).toList ≠ [] := by
        intro hnil
        have := congrArg List.length hnil
        simp only [Array.length_toList, Array.size_swap, List.length_nil] at this
        omega
      rw [Array.toList_pop]
      have hl := List.dropLast_concat_getLast hne
      have hlastx : (a.swap 0 (a.size - 1) h0 hlast).toList.getLast hne = x := by
        rw [List.getLast_eq_getElem]
        simp only [Array.length_toList, Array.size_swap, Array.getElem_toList]
        rw [Array.getElem_swap]
        by_cases hs : a.size - 1 = 0
        · simp [hs, hx]
        · simp [hs, hx]
      rw [hlastx] at hl
      rw [← hl]
      simp only [List.dropLast_concat]
      exact List.perm_append_singleton x _
    have hmin : ∀ y ∈ a.toList, le lt x y := by
      intro y hy
      obtain ⟨k, hk, hky⟩ := List.getElem_of_mem hy
      simp only [Array.length_toList] at hk
      refine root_min sw a h x (by rw [get?_some h0, hx]) k y ?_
      rw [get?_some hk]
      simp only [Array.getElem_toList] at hky
      rw [hky]
    by_cases hn : 0 < a.size - 1
    · rw [if_pos hn] at ha'
      have hsz : 0 < ((a.set 0 (a[a.size - 1]'hlast)).pop).size := by simp; omega
      obtain ⟨_, _, _, r4, _, r6, _⟩ := down_spec sw _ 0 hsz hdown _ rfl
      refine ⟨?_, ?_, hmin⟩
      · rw [← ha']
        intro j
        by_cases hj : j = (down lt ((a.set 0 (a[a.size - 1]'hlast)).pop) 0).2
        · rw [hj]; exact r6 (Or.inl (fun hh => by omega))
        · exact r4 j hj
      · rw [← ha']
        exact hperm.trans ((List.perm_cons x).mpr (down_perm lt _ 0).symm)
    · rw [if_neg hn] at ha'
      refine ⟨?_, ?_, hmin⟩
      · rw [← ha']
        intro j hj0 u v _ hv
        have := lt_size_of_get? hv
        simp at this
        omega
      · rw [← ha']; exact hperm
  · rw [dif_neg h0] at hp; cases hp

end Rxn.Heap
