import RxnModel.Proofs.KeyedStateEnc
/-! The grouping loop of `GetState` (helper lemmas for C03). Core-only. -/
namespace Rxn.KeyedState
open Rxn Bytes

/-- position of a decoded entry inside its subject's key range -/
def entKey (x : Bytes × Bytes × Bytes) : Bytes := nsEnc x.1 ++ x.2.1

/-- `(ns, ek, v)` is an entry of the grouped state -/
def InGroups (G : List NsState) (ns ek v : Bytes) : Prop := ∃ es, (ns, es) ∈ G ∧ (ek, v) ∈ es

theorem inGroups_push (x : Bytes × Bytes × Bytes) (G : List NsState) (ns ek v : Bytes) :
    InGroups (push x G) ns ek v ↔ (ns, ek, v) = x ∨ InGroups G ns ek v := by
  obtain ⟨xn, xe, xv⟩ := x
  cases G with
  | nil =>
    simp only [push, InGroups, List.mem_singleton, Prod.mk.injEq, List.not_mem_nil, false_and, exists_false, or_false]
    constructor
    · rintro ⟨es, ⟨h1, h2⟩, h3⟩
      subst h1 h2
      simp only [List.mem_singleton, Prod.mk.injEq] at h3
      exact ⟨rfl, h3.1, h3.2⟩
    · rintro ⟨h1, h2, h3⟩
      exact ⟨[(xe, xv)], ⟨h1, rfl⟩, by simp [h2, h3]⟩
  | cons g gs =>
    obtain ⟨n', es'⟩ := g
    simp only [push]
    by_cases hn : xn = n'
    · subst hn
      simp only [if_true, InGroups, List.mem_cons, Prod.mk.injEq]
      constructor
      · rintro ⟨es, (⟨h1, h2⟩ | h1), h3⟩
        · subst h1 h2
          rcases List.mem_cons.mp h3 with h3 | h3
          · simp only [Prod.mk.injEq] at h3
            exact Or.inl ⟨rfl, h3.1, h3.2⟩
          · exact Or.inr ⟨es', Or.inl ⟨rfl, rfl⟩, h3⟩
        · exact Or.inr ⟨es, Or.inr h1, h3⟩
      · rintro (⟨h1, h2, h3⟩ | ⟨es, (⟨h1, h2⟩ | h1), h3⟩)
        · subst h1 h2 h3
          exact ⟨(ek, v) :: es', Or.inl ⟨rfl, rfl⟩, List.mem_cons_self⟩
        · subst h1 h2
          exact ⟨(xe, xv) :: es, Or.inl ⟨rfl, rfl⟩, List.mem_cons_of_mem _ h3⟩
        · exact ⟨es, Or.inr h1, h3⟩
    · simp only [hn, if_false, InGroups, List.mem_cons, Prod.mk.injEq]
      constructor
      · rintro ⟨es, (⟨h1, h2⟩ | ⟨h1, h2⟩ | h1), h3⟩
        · subst h1 h2
          simp only [List.mem_singleton, Prod.mk.injEq] at h3
          exact Or.inl ⟨rfl, h3.1, h3.2⟩
        · exact Or.inr ⟨es, Or.inl ⟨h1, h2⟩, h3⟩
        · exact Or.inr ⟨es, Or.inr h1, h3⟩
      · rintro (⟨h1, h2, h3⟩ | ⟨es, (⟨h1, h2⟩ | h1), h3⟩)
        · subst h1 h2 h3
          exact ⟨[(ek, v)], Or.inl ⟨rfl, rfl⟩, List.mem_singleton.mpr rfl⟩
        · exact ⟨es, Or.inr (Or.inl ⟨h1, h2⟩), h3⟩
        · exact ⟨es, Or.inr (Or.inr h1), h3⟩

/-- grouping neither loses nor invents entries -/
theorem inGroups_group (L : List (Bytes × Bytes × Bytes)) (ns ek v : Bytes) :
    InGroups (group L) ns ek v ↔ (ns, ek, v) ∈ L := by
  induction L with
  | nil => simp [group, InGroups]
  | cons x rest ih =>
    simp only [group, inGroups_push, ih, List.mem_cons]

theorem push_nonempty (x : Bytes × Bytes × Bytes) (G : List NsState) (h : ∀ g ∈ G, g.2 ≠ []) :
    ∀ g ∈ push x G, g.2 ≠ [] := by
  cases G with
  | nil => intro g hg; simp only [push, List.mem_singleton] at hg; subst hg; simp
  | cons g0 gs =>
    obtain ⟨n', es'⟩ := g0
    intro g hg
    simp only [push] at hg
    split at hg
    · rcases List.mem_cons.mp hg with hg | hg
      · subst hg; simp
      · exact h g (List.mem_cons_of_mem _ hg)
    · rcases List.mem_cons.mp hg with hg | hg
      · subst hg; simp
      · exact h g hg

theorem group_nonempty (L : List (Bytes × Bytes × Bytes)) : ∀ g ∈ group L, g.2 ≠ [] := by
  induction L with
  | nil => intro g hg; simp [group] at hg
  | cons x rest ih => exact push_nonempty x _ ih

/-- what sortedness of the scan gives for the groups -/
def GroupsOK (G : List NsState) : Prop :=
  G.Pairwise (fun g h => nsLt g.1 h.1) ∧ ∀ g ∈ G, g.2.Pairwise (fun a b => cmp a.1 b.1 = .lt)

theorem nsLt_trans {a b c : Bytes} (h1 : nsLt a b) (h2 : nsLt b c) : nsLt a c := cmp_lt_trans h1 h2

theorem group_ok (L : List (Bytes × Bytes × Bytes)) (hlen : ∀ x ∈ L, x.1.length ≤ 255)
    (hs : L.Pairwise (fun a b => cmp (entKey a) (entKey b) = .lt)) : GroupsOK (group L) := by
  induction L with
  | nil => simp [group, GroupsOK]
  | cons x rest ih =>
    rw [List.pairwise_cons] at hs
    obtain ⟨hx, hrest⟩ := hs
    have ihr := ih (fun y hy => hlen y (List.mem_cons_of_mem _ hy)) hrest
    have hxl := hlen x List.mem_cons_self
    obtain ⟨xn, xe, xv⟩ := x
    simp only [group]
    -- facts about the groups of the rest
    have hmem : ∀ g ∈ group rest, ∀ e ∈ g.2, (g.1, e.1, e.2) ∈ rest := by
      intro g hg e he
      exact (inGroups_group rest g.1 e.1 e.2).mp ⟨g.2, hg, he⟩
    have hne := group_nonempty rest
    generalize group rest = G at ihr hmem hne
    cases G with
    | nil =>
      simp only [push, GroupsOK, List.pairwise_cons, List.not_mem_nil, false_implies, implies_true, List.Pairwise.nil,
        and_self, List.mem_singleton, forall_eq]
    | cons g0 gs =>
      obtain ⟨n', es'⟩ := g0
      obtain ⟨ihp, ihe⟩ := ihr
      rw [List.pairwise_cons] at ihp
      simp only [push]
      by_cases hn : xn = n'
      · subst hn
        simp only [if_true]
        refine ⟨List.pairwise_cons.mpr ⟨ihp.1, ihp.2⟩, ?_⟩
        intro g hg
        rcases List.mem_cons.mp hg with hg | hg
        · subst hg
          rw [List.pairwise_cons]
          refine ⟨?_, ihe _ List.mem_cons_self⟩
          intro e he
          have hm := hmem (xn, es') List.mem_cons_self e he
          have := hx _ hm
          simpa [entKey, cmp_append_left] using this
        · exact ihe g (List.mem_cons_of_mem _ hg)
      · simp only [hn, if_false]
        have hlt : nsLt xn n' := by
          cases hes : es' with
          | nil => exact absurd hes (hne (n', es') List.mem_cons_self)
          | cons e _ =>
            have he : e ∈ es' := by rw [hes]; exact List.mem_cons_self
            have hm := hmem (n', es') List.mem_cons_self e he
            have h1 := hx _ hm
            have hnl := hlen _ (List.mem_cons_of_mem _ hm)
            simp only [entKey] at h1
            rw [nsEnc_cmp _ _ hxl hnl hn] at h1
            exact h1
        refine ⟨?_, ?_⟩
        · rw [List.pairwise_cons]
          refine ⟨?_, List.pairwise_cons.mpr ihp⟩
          intro g hg
          rcases List.mem_cons.mp hg with hg | hg
          · subst hg; exact hlt
          · exact nsLt_trans hlt (ihp.1 g hg)
        · intro g hg
          rcases List.mem_cons.mp hg with hg | hg
          · subst hg; simp
          · exact ihe g hg

end Rxn.KeyedState
