import RxnModel.Model.Merge
import RxnModel.Generated.Fns
import RxnModel.Proofs.Heap
/-! k-way merge over the heap: the popped sequence is a sorted permutation of the inputs; duplicate resolution. -/
namespace Rxn.Merge
variable {α : Type}

/-- what the merges need from the compare callback: sign-antisymmetric and transitive (a total preorder) -/
structure CmpOK (cmp : α → α → Int) : Prop where
  antisymm : ∀ a b, cmp a b < 0 ↔ 0 < cmp b a
  trans : ∀ a b c, cmp a b ≤ 0 → cmp b c ≤ 0 → cmp a c ≤ 0

theorem CmpOK.flip_le {cmp : α → α → Int} (hc : CmpOK cmp) {a b : α} (h : 0 ≤ cmp a b) : cmp b a ≤ 0 := by
  apply Int.not_lt.mp
  intro h2
  have := (hc.antisymm a b).mpr h2
  omega

theorem CmpOK.refl {cmp : α → α → Int} (hc : CmpOK cmp) (a : α) : cmp a a = 0 := by
  have h1 := hc.antisymm a a
  omega

theorem CmpOK.eq_symm {cmp : α → α → Int} (hc : CmpOK cmp) {a b : α} (h : cmp a b = 0) : cmp b a = 0 := by
  have h1 := hc.antisymm a b
  have h2 := hc.antisymm b a
  omega

theorem CmpOK.lt_of_lt_le {cmp : α → α → Int} (hc : CmpOK cmp) {a b c : α} (h1 : cmp a b < 0) (h2 : cmp b c ≤ 0) :
    cmp a c < 0 := by
  apply Int.not_le.mp
  intro h3
  have h4 := hc.trans b c a h2 (hc.flip_le h3)
  have := (hc.antisymm a b).mp h1
  omega

theorem CmpOK.lt_of_le_lt {cmp : α → α → Int} (hc : CmpOK cmp) {a b c : α} (h1 : cmp a b ≤ 0) (h2 : cmp b c < 0) :
    cmp a c < 0 := by
  apply Int.not_le.mp
  intro h3
  have h4 := hc.trans c a b (hc.flip_le h3) h1
  have := (hc.antisymm b c).mp h2
  omega

theorem hlt_strictWeak {cmp : α → α → Int} (hc : CmpOK cmp) : Heap.StrictWeak (hlt cmp) := by
  constructor
  · intro a b h
    simp only [hlt, decide_eq_true_eq, decide_eq_false_iff_not] at *
    have := (hc.antisymm a.2 b.2).mp h
    omega
  · intro a b c h1 h2
    simp only [hlt, decide_eq_false_iff_not] at *
    have := hc.trans c.2 b.2 a.2 (hc.flip_le (by omega)) (hc.flip_le (by omega))
    intro h3
    have := (hc.antisymm a.2 c.2).mp h3
    omega

theorem le_iff {cmp : α → α → Int} (hc : CmpOK cmp) (a b : Nat × α) : Heap.le (hlt cmp) a b ↔ cmp a.2 b.2 ≤ 0 := by
  simp only [Heap.le, hlt, decide_eq_false_iff_not]
  constructor
  · intro h; exact hc.flip_le (by omega)
  · intro h h2
    have := (hc.antisymm b.2 a.2).mp h2
    omega

/-- everything not yet popped -/
def rem (s : St α) : List α := s.heap.toList.map (·.2) ++ s.rests.flatten

/-- loop invariant -/
structure StOK (cmp : α → α → Int) (s : St α) : Prop where
  inv : Heap.Inv (hlt cmp) s.heap
  head_le : ∀ ix ∈ s.heap.toList, ∀ y ∈ s.rests.getD ix.1 [], cmp ix.2 y ≤ 0
  covered : ∀ i, s.rests.getD i [] ≠ [] → ∃ x, (i, x) ∈ s.heap.toList
  sorted : ∀ r ∈ s.rests, r.Pairwise (fun a b => cmp a b ≤ 0)

theorem getD_mem {l : List (List α)} {i : Nat} (h : l.getD i [] ≠ []) : i < l.length ∧ l.getD i [] ∈ l := by
  by_cases hi : i < l.length
  · refine ⟨hi, ?_⟩
    rw [List.getD_eq_getElem?_getD, List.getElem?_eq_getElem hi]
    exact List.getElem_mem hi
  · rw [List.getD_eq_getElem?_getD, List.getElem?_eq_none (by omega)] at h
    exact absurd rfl h

theorem flatten_set_perm (l : List (List α)) (i : Nat) (y : α) (ys : List α) (h : l.getD i [] = y :: ys) :
    l.flatten.Perm (y :: (l.set i ys).flatten) := by
  induction l generalizing i with
  | nil => simp at h
  | cons r rs ih =>
    cases i with
    | zero =>
      simp only [List.getD_cons_zero] at h
      subst h
      simp
    | succ i =>
      simp only [List.getD_cons_succ] at h
      simp only [List.set_cons_succ, List.flatten_cons]
      exact (List.Perm.append_left r (ih i h)).trans List.perm_middle

theorem getD_set (l : List (List α)) (i j : Nat) (ys : List α) :
    (l.set i ys).getD j [] = if i = j ∧ i < l.length then ys else l.getD j [] := by
  simp only [List.getD_eq_getElem?_getD, List.getElem?_set]
  by_cases hij : i = j
  · subst hij
    by_cases hi : i < l.length
    · simp [hi]
    · simp [hi]
  · simp [hij]

theorem flatten_nil_of_getD (l : List (List α)) (h : ∀ i, l.getD i [] = []) : l.flatten = [] := by
  induction l with
  | nil => rfl
  | cons r rs ih =>
    have h0 := h 0
    simp only [List.getD_cons_zero] at h0
    subst h0
    simp only [List.flatten_cons, List.nil_append]
    exact ih (fun i => by have := h (i + 1); simpa using this)

/-- one iteration: the popped item is below everything left, the invariant is kept, one item leaves -/
theorem step_spec {cmp : α → α → Int} (hc : CmpOK cmp) (s : St α) (hs : StOK cmp s) (ix : Nat × α)
    (h1 : Array (Nat × α)) (hp : Heap.pop (hlt cmp) s.heap = some (ix, h1)) :
    let s' : St α := match s.rests.getD ix.1 [] with
      | [] => ⟨h1, s.rests⟩
      | y :: ys => ⟨Heap.push (hlt cmp) h1 (ix.1, y), s.rests.set ix.1 ys⟩
    StOK cmp s' ∧ (rem s).Perm (ix.2 :: rem s') ∧ ∀ z ∈ rem s, cmp ix.2 z ≤ 0 := by
  have sw := hlt_strictWeak hc
  obtain ⟨hinv1, hperm, hmin⟩ := Heap.pop_spec sw s.heap hs.inv ix h1 hp
  have hsub : ∀ e ∈ h1.toList, e ∈ s.heap.toList := fun e he => hperm.symm.subset (List.mem_cons_of_mem _ he)
  have hmin' : ∀ z ∈ rem s, cmp ix.2 z ≤ 0 := by
    intro z hz
    simp only [rem, List.mem_append, List.mem_map, List.mem_flatten] at hz
    rcases hz with ⟨e, he, rfl⟩ | ⟨r, hr, hzr⟩
    · exact (le_iff hc ix e).mp (hmin e he)
    · obtain ⟨i, hi, hri⟩ := List.getElem_of_mem hr
      have hne : s.rests.getD i [] ≠ [] := by
        rw [List.getD_eq_getElem?_getD, List.getElem?_eq_getElem hi]
        simp only [Option.getD_some, hri]
        intro e; rw [e] at hzr; cases hzr
      obtain ⟨x, hx⟩ := hs.covered i hne
      have h2 := hs.head_le (i, x) hx z (by
        rw [List.getD_eq_getElem?_getD, List.getElem?_eq_getElem hi]
        simp only [Option.getD_some, hri]; exact hzr)
      exact hc.trans _ _ _ ((le_iff hc ix (i, x)).mp (hmin _ hx)) h2
  cases hrest : s.rests.getD ix.1 [] with
  | nil =>
    simp only []
    refine ⟨⟨hinv1, ?_, ?_, hs.sorted⟩, ?_, hmin'⟩
    · intro e he y hy; exact hs.head_le e (hsub e he) y hy
    · intro i hne
      obtain ⟨x, hx⟩ := hs.covered i hne
      have := hperm.subset hx
      simp only [List.mem_cons] at this
      rcases this with e | e
      · rw [← e] at hrest; exact absurd hrest hne
      · exact ⟨x, e⟩
    · simp only [rem]
      exact (hperm.map (·.2)).append_right _
  | cons y ys =>
    simp only []
    have hmem := getD_mem (l := s.rests) (i := ix.1) (by rw [hrest]; exact List.cons_ne_nil _ _)
    have hsorted_i : (y :: ys).Pairwise (fun a b => cmp a b ≤ 0) := by
      rw [← hrest]; exact hs.sorted _ hmem.2
    have hpp := Heap.push_perm (hlt cmp) h1 (ix.1, y)
    refine ⟨⟨Heap.push_inv sw h1 _ hinv1, ?_, ?_, ?_⟩, ?_, hmin'⟩
    · intro e he z hz
      rw [getD_set] at hz
      have he' := hpp.subset he
      simp only [List.mem_cons] at he'
      by_cases hcond : ix.1 = e.1 ∧ ix.1 < s.rests.length
      · rw [if_pos hcond] at hz
        rcases he' with e1 | e1
        · rw [e1]; exact (List.pairwise_cons.mp hsorted_i).1 z hz
        · refine hs.head_le e (hsub e e1) z ?_
          rw [← hcond.1, hrest]; exact List.mem_cons_of_mem _ hz
      · rw [if_neg hcond] at hz
        rcases he' with e1 | e1
        · exfalso; apply hcond; rw [e1]; exact ⟨rfl, hmem.1⟩
        · exact hs.head_le e (hsub e e1) z hz
    · intro i hne
      rw [getD_set] at hne
      by_cases hi : ix.1 = i
      · exact ⟨y, hpp.symm.subset (by rw [← hi]; exact List.mem_cons_self)⟩
      · rw [if_neg (fun h => hi h.1)] at hne
        obtain ⟨x, hx⟩ := hs.covered i hne
        have := hperm.subset hx
        simp only [List.mem_cons] at this
        rcases this with e | e
        · exfalso; apply hi; rw [← e]
        · exact ⟨x, hpp.symm.subset (List.mem_cons_of_mem _ e)⟩
    · intro r hr
      rcases List.mem_or_eq_of_mem_set hr with h | h
      · exact hs.sorted r h
      · rw [h]; exact (List.pairwise_cons.mp hsorted_i).2
    · simp only [rem]
      have hf := flatten_set_perm s.rests ix.1 y ys hrest
      have a1 : (s.heap.toList.map (·.2) ++ s.rests.flatten).Perm
          ((ix.2 :: h1.toList.map (·.2)) ++ (y :: (s.rests.set ix.1 ys).flatten)) :=
        (hperm.map (·.2)).append hf
      refine a1.trans ?_
      simp only [List.cons_append]
      refine (List.perm_cons _).mpr ?_
      have a2 : ((Heap.push (hlt cmp) h1 (ix.1, y)).toList.map (·.2)).Perm (y :: h1.toList.map (·.2)) := hpp.map (·.2)
      exact List.perm_middle.trans (a2.symm.append_right _)

theorem pops_spec {cmp : α → α → Int} (hc : CmpOK cmp) (fuel : Nat) (s : St α) (hs : StOK cmp s)
    (hf : (rem s).length < fuel) :
    (pops cmp fuel s).Perm (rem s) ∧ (pops cmp fuel s).Pairwise (fun a b => cmp a b ≤ 0) := by
  induction fuel generalizing s with
  | zero => omega
  | succ fuel ih =>
    unfold pops
    cases hp : Heap.pop (hlt cmp) s.heap with
    | none =>
      have h0 := (Heap.pop_none _ _).mp hp
      have hnil : s.heap.toList = [] := by
        apply List.eq_nil_of_length_eq_zero; simpa using h0
      have : rem s = [] := by
        simp only [rem, hnil, List.map_nil, List.nil_append]
        apply flatten_nil_of_getD
        intro i
        apply Classical.byContradiction
        intro hne
        obtain ⟨x, hx⟩ := hs.covered i hne
        rw [hnil] at hx; cases hx
      simp [this]
    | some p =>
      obtain ⟨ix, h1⟩ := p
      have hstep := step_spec hc s hs ix h1 hp
      simp only []
      cases hrest : s.rests.getD ix.1 [] with
      | nil =>
        rw [hrest] at hstep
        simp only [] at hstep
        obtain ⟨hok, hperm, hmin⟩ := hstep
        have hlen : (rem (⟨h1, s.rests⟩ : St α)).length < fuel := by
          have := hperm.length_eq; simp only [List.length_cons] at this; omega
        obtain ⟨ihp, ihs⟩ := ih _ hok hlen
        refine ⟨((List.perm_cons _).mpr ihp).trans hperm.symm, List.pairwise_cons.mpr ⟨?_, ihs⟩⟩
        intro z hz
        exact hmin z (hperm.symm.subset (List.mem_cons_of_mem _ (ihp.subset hz)))
      | cons y ys =>
        rw [hrest] at hstep
        simp only [] at hstep
        obtain ⟨hok, hperm, hmin⟩ := hstep
        have hlen : (rem (⟨Heap.push (hlt cmp) h1 (ix.1, y), s.rests.set ix.1 ys⟩ : St α)).length < fuel := by
          have := hperm.length_eq; simp only [List.length_cons] at this; omega
        obtain ⟨ihp, ihs⟩ := ih _ hok hlen
        refine ⟨((List.perm_cons _).mpr ihp).trans hperm.symm, List.pairwise_cons.mpr ⟨?_, ihs⟩⟩
        intro z hz
        exact hmin z (hperm.symm.subset (List.mem_cons_of_mem _ (ihp.subset hz)))

theorem getD_append_one (l : List (List α)) (r : List α) (j : Nat) :
    (l ++ [r]).getD j [] = if j = l.length then r else l.getD j [] := by
  simp only [List.getD_eq_getElem?_getD]
  by_cases h1 : j < l.length
  · rw [List.getElem?_append_left h1, if_neg (by omega)]
  · rw [List.getElem?_append_right (by omega)]
    by_cases h2 : j = l.length
    · subst h2; simp
    · rw [if_neg h2, List.getElem?_eq_none (by omega : l.length ≤ j)]
      have : j - l.length ≠ 0 := by omega
      cases hk : j - l.length with
      | zero => omega
      | succ k => simp

theorem initGo_spec {cmp : α → α → Int} (hc : CmpOK cmp) (runs : List (List α)) (i : Nat) (s : St α)
    (hs : StOK cmp s) (hi : s.rests.length = i) (hidx : ∀ e ∈ s.heap.toList, e.1 < s.rests.length)
    (hsorted : ∀ r ∈ runs, r.Pairwise (fun a b => cmp a b ≤ 0)) :
    StOK cmp (initGo cmp runs i s) ∧ (rem (initGo cmp runs i s)).Perm (rem s ++ runs.flatten) := by
  have sw := hlt_strictWeak hc
  induction runs generalizing i s with
  | nil => simp [initGo, hs]
  | cons r rs ih =>
    cases r with
    | nil =>
      unfold initGo
      have hs' : StOK cmp (⟨s.heap, s.rests ++ [[]]⟩ : St α) := by
        refine ⟨hs.inv, ?_, ?_, ?_⟩
        · intro e he y hy
          rw [getD_append_one] at hy
          have := hidx e he
          rw [if_neg (by omega)] at hy
          exact hs.head_le e he y hy
        · intro j hne
          rw [getD_append_one] at hne
          by_cases hj : j = s.rests.length
          · rw [if_pos hj] at hne; exact absurd rfl hne
          · rw [if_neg hj] at hne; exact hs.covered j hne
        · intro r hr
          simp only [List.mem_append, List.mem_singleton] at hr
          rcases hr with h | h
          · exact hs.sorted r h
          · rw [h]; exact List.Pairwise.nil
      obtain ⟨a, b⟩ := ih (i + 1) _ hs' (by simp [hi]) (by intro e he; simp; have := hidx e he; omega)
        (fun r hr => hsorted r (List.mem_cons_of_mem _ hr))
      refine ⟨a, b.trans ?_⟩
      simp [rem]
    | cons x xs =>
      unfold initGo
      have hpp := Heap.push_perm (hlt cmp) s.heap (i, x)
      have hxs : (x :: xs).Pairwise (fun a b => cmp a b ≤ 0) := hsorted _ List.mem_cons_self
      have hs' : StOK cmp (⟨Heap.push (hlt cmp) s.heap (i, x), s.rests ++ [xs]⟩ : St α) := by
        refine ⟨Heap.push_inv sw _ _ hs.inv, ?_, ?_, ?_⟩
        · intro e he y hy
          rw [getD_append_one] at hy
          have he' := hpp.subset he
          simp only [List.mem_cons] at he'
          rcases he' with h | h
          · rw [h] at hy ⊢
            rw [if_pos hi.symm] at hy
            exact (List.pairwise_cons.mp hxs).1 y hy
          · have := hidx e h
            rw [if_neg (by omega)] at hy
            exact hs.head_le e h y hy
        · intro j hne
          rw [getD_append_one] at hne
          by_cases hj : j = s.rests.length
          · exact ⟨x, hpp.symm.subset (by rw [hj, hi]; exact List.mem_cons_self)⟩
          · rw [if_neg hj] at hne
            obtain ⟨z, hz⟩ := hs.covered j hne
            exact ⟨z, hpp.symm.subset (List.mem_cons_of_mem _ hz)⟩
        · intro r hr
          simp only [List.mem_append, List.mem_singleton] at hr
          rcases hr with h | h
          · exact hs.sorted r h
          · rw [h]; exact (List.pairwise_cons.mp hxs).2
      obtain ⟨a, b⟩ := ih (i + 1) _ hs' (by simp [hi]) (by
          intro e he
          have he' := hpp.subset he
          simp only [List.mem_cons] at he'
          simp only [List.length_append, List.length_singleton]
          rcases he' with h | h
          · rw [h]; simp only []; omega
          · have := hidx e h; omega)
        (fun r hr => hsorted r (List.mem_cons_of_mem _ hr))
      refine ⟨a, b.trans ?_⟩
      simp only [rem, List.flatten_append, List.flatten_cons, List.flatten_nil, List.append_nil, List.append_assoc]
      have a2 : ((Heap.push (hlt cmp) s.heap (i, x)).toList.map (·.2)).Perm (x :: s.heap.toList.map (·.2)) := hpp.map (·.2)
      refine (a2.append_right _).trans ?_
      simp only [List.cons_append]
      refine List.perm_middle.symm.trans ?_
      refine List.Perm.append_left _ ?_
      refine List.perm_middle.symm.trans ?_
      simp

/-- `MergeSorted` of sorted inputs is a sorted permutation of everything the inputs yield -/
theorem mergeSorted_spec {cmp : α → α → Int} (hc : CmpOK cmp) (runs : List (List α))
    (hsorted : ∀ r ∈ runs, r.Pairwise (fun a b => cmp a b ≤ 0)) :
    (mergeSorted cmp runs).Perm runs.flatten ∧ (mergeSorted cmp runs).Pairwise (fun a b => cmp a b ≤ 0) := by
  have h0 : StOK cmp (⟨#[], []⟩ : St α) := by
    refine ⟨?_, ?_, ?_, ?_⟩
    · intro j _ u v hu _; simp at hu
    · intro e he; simp at he
    · intro i hne; simp at hne
    · intro r hr; cases hr
  obtain ⟨hok, hperm0⟩ := initGo_spec hc runs 0 _ h0 rfl (by intro e he; simp at he) hsorted
  have hperm : (rem (init cmp runs)).Perm runs.flatten := by
    refine hperm0.trans ?_
    simp [rem]
  have hlen : (rem (init cmp runs)).length < total runs + 1 := by
    rw [hperm.length_eq, List.length_flatten]
    simp [total]
  obtain ⟨p, q⟩ := pops_spec hc (total runs + 1) (init cmp runs) hok hlen
  exact ⟨p.trans hperm, q⟩

/-! ### duplicate resolution (`prevItem` logic) with the `keepNewest` pick -/
section resolve
variable [DecidableEq α]

/-- what `Merge` has yielded plus what it still holds back -/
def outOf (s : RSt α) : List α := s.out ++ s.prev.toList

structure RInv (cmp : α → α → Int) (rk : α → Nat) (s : RSt α) (ps : List α) : Prop where
  np : s.panicked = false
  asc : (outOf s).Pairwise (fun a b => cmp a b < 0)
  mem : ∀ o ∈ outOf s, o ∈ ps
  dom : ∀ y ∈ ps, ∃ o ∈ outOf s, cmp o y = 0 ∧ rk y ≤ rk o
  start : s.prev = none → s.out = []

omit [DecidableEq α] in
theorem CmpOK.eq_trans {cmp : α → α → Int} (hc : CmpOK cmp) {a b c : α} (h1 : cmp a b = 0) (h2 : cmp b c = 0) :
    cmp a c = 0 := by
  have h3 := hc.trans a b c (by omega) (by omega)
  have h4 := hc.trans c b a (by have := hc.eq_symm h2; omega) (by have := hc.eq_symm h1; omega)
  have h5 := hc.antisymm a c
  have h6 := hc.antisymm c a
  omega

theorem rstep_spec {cmp : α → α → Int} (hc : CmpOK cmp) (rk : α → Nat) (s : RSt α) (ps : List α) (x : α)
    (h : RInv cmp rk s ps) (hle : ∀ p ∈ ps, cmp p x ≤ 0) :
    RInv cmp rk (rstep cmp (Gen.c19KeepNewest rk) s x) (ps ++ [x]) := by
  unfold rstep
  rw [if_neg (by rw [h.np]; simp)]
  cases hprev : s.prev with
  | none =>
    have hout := h.start hprev
    simp only []
    refine ⟨h.np, ?_, ?_, ?_, ?_⟩
    · simp [outOf, hout]
    · intro o ho; simp [outOf, hout] at ho; simp [ho]
    · intro y hy
      have hps : ps = [] := by
        cases ps with
        | nil => rfl
        | cons a as =>
          obtain ⟨o, ho, _⟩ := h.dom a List.mem_cons_self
          simp [outOf, hout, hprev] at ho
      simp only [hps, List.nil_append, List.mem_singleton] at hy
      exact ⟨x, by simp [outOf, hout], by rw [hy]; exact hc.refl x, by rw [hy]; exact Nat.le_refl _⟩
    · intro e; cases e
  | some p =>
    simp only []
    have hO : outOf s = s.out ++ [p] := by simp [outOf, hprev]
    have hasc := h.asc
    rw [hO, List.pairwise_append] at hasc
    obtain ⟨hasc1, _, hasc3⟩ := hasc
    have hpmem : p ∈ ps := h.mem p (by rw [hO]; simp)
    have hpx : cmp p x ≤ 0 := hle p hpmem
    have memOut : ∀ o ∈ outOf s, o ∈ s.out ∨ o = p := by
      intro o ho; rw [hO] at ho; simpa using ho
    by_cases h0 : cmp p x = 0
    · rw [if_pos h0]
      by_cases hpk : Gen.c19KeepNewest rk p x = p
      · rw [if_pos hpk]
        have hrk : rk x ≤ rk p := by
          unfold Gen.c19KeepNewest at hpk
          by_cases hgt : rk p > rk x
          · omega
          · simp only [hgt, decide_false, Bool.false_eq_true, if_false] at hpk
            rw [hpk]; exact Nat.le_refl _
        refine ⟨h.np, h.asc, ?_, ?_, h.start⟩
        · intro o ho; exact List.mem_append_left _ (h.mem o ho)
        · intro y hy
          simp only [List.mem_append, List.mem_singleton] at hy
          rcases hy with hy | hy
          · exact h.dom y hy
          · exact ⟨p, by rw [hO]; simp, by rw [hy]; exact h0, by rw [hy]; exact hrk⟩
      · rw [if_neg hpk]
        have hpick : Gen.c19KeepNewest rk p x = x ∧ rk p ≤ rk x := by
          unfold Gen.c19KeepNewest at hpk ⊢
          by_cases hgt : rk p > rk x
          · simp [hgt] at hpk
          · simp only [hgt, decide_false, Bool.false_eq_true, if_false]; exact ⟨trivial, by omega⟩
        rw [if_pos hpick.1]
        have hO' : outOf ({ s with prev := some x } : RSt α) = s.out ++ [x] := by simp [outOf]
        refine ⟨h.np, ?_, ?_, ?_, ?_⟩
        · rw [hO', List.pairwise_append]
          refine ⟨hasc1, by simp, ?_⟩
          intro a ha b hb
          simp only [List.mem_singleton] at hb
          rw [hb]
          exact hc.lt_of_lt_le (hasc3 a ha p (by simp)) hpx
        · intro o ho
          rw [hO'] at ho
          simp only [List.mem_append, List.mem_singleton] at ho ⊢
          rcases ho with ho | ho
          · exact Or.inl (h.mem o (by rw [hO]; simp [ho]))
          · exact Or.inr ho
        · intro y hy
          simp only [List.mem_append, List.mem_singleton] at hy
          rcases hy with hy | hy
          · obtain ⟨o, ho, ho1, ho2⟩ := h.dom y hy
            rcases memOut o ho with hoo | hoo
            · exact ⟨o, by rw [hO']; simp [hoo], ho1, ho2⟩
            · rw [hoo] at ho1 ho2
              exact ⟨x, by rw [hO']; simp, hc.eq_trans (hc.eq_symm h0) ho1, by omega⟩
          · exact ⟨x, by rw [hO']; simp, by rw [hy]; exact hc.refl x, by rw [hy]; exact Nat.le_refl _⟩
        · intro e; cases e
    · rw [if_neg h0]
      have hlt : cmp p x < 0 := by omega
      have hO' : outOf ({ s with out := s.out ++ [p], prev := some x } : RSt α) = outOf s ++ [x] := by
        simp [outOf, hprev]
      refine ⟨h.np, ?_, ?_, ?_, ?_⟩
      · rw [hO', List.pairwise_append]
        refine ⟨h.asc, by simp, ?_⟩
        intro a ha b hb
        simp only [List.mem_singleton] at hb
        rw [hb]
        rcases memOut a ha with haa | haa
        · exact hc.lt_of_lt_le (hasc3 a haa p (by simp)) hpx
        · rw [haa]; exact hlt
      · intro o ho
        rw [hO'] at ho
        simp only [List.mem_append, List.mem_singleton] at ho ⊢
        rcases ho with ho | ho
        · exact Or.inl (h.mem o ho)
        · exact Or.inr ho
      · intro y hy
        simp only [List.mem_append, List.mem_singleton] at hy
        rcases hy with hy | hy
        · obtain ⟨o, ho, ho1, ho2⟩ := h.dom y hy
          exact ⟨o, by rw [hO']; exact List.mem_append_left _ ho, ho1, ho2⟩
        · exact ⟨x, by rw [hO']; simp, by rw [hy]; exact hc.refl x, by rw [hy]; exact Nat.le_refl _⟩
      · intro e; cases e

theorem fold_spec {cmp : α → α → Int} (hc : CmpOK cmp) (rk : α → Nat) (xs : List α) (s : RSt α) (ps : List α)
    (h : RInv cmp rk s ps) (hs : (ps ++ xs).Pairwise (fun a b => cmp a b ≤ 0)) :
    RInv cmp rk (xs.foldl (rstep cmp (Gen.c19KeepNewest rk)) s) (ps ++ xs) := by
  induction xs generalizing s ps with
  | nil => simpa using h
  | cons x xs ih =>
    simp only [List.foldl_cons]
    have hle : ∀ p ∈ ps, cmp p x ≤ 0 := by
      intro p hp
      exact (List.pairwise_append.mp hs).2.2 p hp x List.mem_cons_self
    have := ih _ (ps ++ [x]) (rstep_spec hc rk s ps x h hle) (by simpa using hs)
    simpa using this

/-- duplicate resolution of a sorted sequence with `keepNewest`: strictly ascending, only inputs, and every input
is represented by an equal-key output that is at least as new -/
theorem resolve_spec {cmp : α → α → Int} (hc : CmpOK cmp) (rk : α → Nat) (xs : List α)
    (hs : xs.Pairwise (fun a b => cmp a b ≤ 0)) :
    ∃ out, resolve cmp (Gen.c19KeepNewest rk) xs = some out ∧
      out.Pairwise (fun a b => cmp a b < 0) ∧ (∀ o ∈ out, o ∈ xs) ∧
      (∀ y ∈ xs, ∃ o ∈ out, cmp o y = 0 ∧ rk y ≤ rk o) := by
  have h0 : RInv cmp rk ({} : RSt α) [] := by
    refine ⟨rfl, by simp [outOf], by simp [outOf], by simp, fun _ => rfl⟩
  have h := fold_spec hc rk xs {} [] h0 (by simpa using hs)
  simp only [List.nil_append] at h
  refine ⟨outOf (xs.foldl (rstep cmp (Gen.c19KeepNewest rk)) {}), ?_, h.asc, h.mem, h.dom⟩
  simp [resolve, finish, h.np, outOf]

/-! ### any `pick` that returns one of its arguments -/

structure GInv (cmp : α → α → Int) (s : RSt α) (ps : List α) : Prop where
  np : s.panicked = false
  asc : (outOf s).Pairwise (fun a b => cmp a b < 0)
  mem : ∀ o ∈ outOf s, o ∈ ps
  dom : ∀ y ∈ ps, ∃ o ∈ outOf s, cmp o y = 0
  start : s.prev = none → s.out = []

theorem gstep_spec {cmp : α → α → Int} (hc : CmpOK cmp) (pick : α → α → α)
    (hpick : ∀ a b, pick a b = a ∨ pick a b = b) (s : RSt α) (ps : List α) (x : α)
    (h : GInv cmp s ps) (hle : ∀ p ∈ ps, cmp p x ≤ 0) :
    GInv cmp (rstep cmp pick s x) (ps ++ [x]) := by
  unfold rstep
  rw [if_neg (by rw [h.np]; simp)]
  cases hprev : s.prev with
  | none =>
    have hout := h.start hprev
    simp only []
    have hps : ps = [] := by
      cases ps with
      | nil => rfl
      | cons a as =>
        obtain ⟨o, ho, _⟩ := h.dom a List.mem_cons_self
        simp [outOf, hout, hprev] at ho
    refine ⟨h.np, by simp [outOf, hout], ?_, ?_, fun e => by cases e⟩
    · intro o ho; simp [outOf, hout] at ho; simp [ho]
    · intro y hy
      simp only [hps, List.nil_append, List.mem_singleton] at hy
      exact ⟨x, by simp [outOf, hout], by rw [hy]; exact hc.refl x⟩
  | some p =>
    simp only []
    have hO : outOf s = s.out ++ [p] := by simp [outOf, hprev]
    have hasc := h.asc
    rw [hO, List.pairwise_append] at hasc
    obtain ⟨hasc1, _, hasc3⟩ := hasc
    have hpx : cmp p x ≤ 0 := hle p (h.mem p (by rw [hO]; simp))
    have memOut : ∀ o ∈ outOf s, o ∈ s.out ∨ o = p := by
      intro o ho; rw [hO] at ho; simpa using ho
    by_cases h0 : cmp p x = 0
    · rw [if_pos h0]
      by_cases hpk : pick p x = p
      · rw [if_pos hpk]
        refine ⟨h.np, h.asc, fun o ho => List.mem_append_left _ (h.mem o ho), ?_, h.start⟩
        intro y hy
        simp only [List.mem_append, List.mem_singleton] at hy
        rcases hy with hy | hy
        · exact h.dom y hy
        · exact ⟨p, by rw [hO]; simp, by rw [hy]; exact h0⟩
      · rw [if_neg hpk]
        have hx : pick p x = x := by rcases hpick p x with e | e; exact absurd e hpk; exact e
        rw [if_pos hx]
        have hO' : outOf ({ s with prev := some x } : RSt α) = s.out ++ [x] := by simp [outOf]
        refine ⟨h.np, ?_, ?_, ?_, fun e => by cases e⟩
        · rw [hO', List.pairwise_append]
          refine ⟨hasc1, by simp, ?_⟩
          intro a ha b hb
          simp only [List.mem_singleton] at hb
          rw [hb]; exact hc.lt_of_lt_le (hasc3 a ha p (by simp)) hpx
        · intro o ho
          rw [hO'] at ho
          simp only [List.mem_append, List.mem_singleton] at ho ⊢
          rcases ho with ho | ho
          · exact Or.inl (h.mem o (by rw [hO]; simp [ho]))
          · exact Or.inr ho
        · intro y hy
          simp only [List.mem_append, List.mem_singleton] at hy
          rcases hy with hy | hy
          · obtain ⟨o, ho, ho1⟩ := h.dom y hy
            rcases memOut o ho with hoo | hoo
            · exact ⟨o, by rw [hO']; simp [hoo], ho1⟩
            · rw [hoo] at ho1
              exact ⟨x, by rw [hO']; simp, hc.eq_trans (hc.eq_symm h0) ho1⟩
          · exact ⟨x, by rw [hO']; simp, by rw [hy]; exact hc.refl x⟩
    · rw [if_neg h0]
      have hlt : cmp p x < 0 := by omega
      have hO' : outOf ({ s with out := s.out ++ [p], prev := some x } : RSt α) = outOf s ++ [x] := by
        simp [outOf, hprev]
      refine ⟨h.np, ?_, ?_, ?_, fun e => by cases e⟩
      · rw [hO', List.pairwise_append]
        refine ⟨h.asc, by simp, ?_⟩
        intro a ha b hb
        simp only [List.mem_singleton] at hb
        rw [hb]
        rcases memOut a ha with haa | haa
        · exact hc.lt_of_lt_le (hasc3 a haa p (by simp)) hpx
        · rw [haa]; exact hlt
      · intro o ho
        rw [hO'] at ho
        simp only [List.mem_append, List.mem_singleton] at ho ⊢
        rcases ho with ho | ho
        · exact Or.inl (h.mem o ho)
        · exact Or.inr ho
      · intro y hy
        simp only [List.mem_append, List.mem_singleton] at hy
        rcases hy with hy | hy
        · obtain ⟨o, ho, ho1⟩ := h.dom y hy
          exact ⟨o, by rw [hO']; exact List.mem_append_left _ ho, ho1⟩
        · exact ⟨x, by rw [hO']; simp, by rw [hy]; exact hc.refl x⟩

theorem gfold_spec {cmp : α → α → Int} (hc : CmpOK cmp) (pick : α → α → α)
    (hpick : ∀ a b, pick a b = a ∨ pick a b = b) (xs : List α) (s : RSt α) (ps : List α)
    (h : GInv cmp s ps) (hs : (ps ++ xs).Pairwise (fun a b => cmp a b ≤ 0)) :
    GInv cmp (xs.foldl (rstep cmp pick) s) (ps ++ xs) := by
  induction xs generalizing s ps with
  | nil => simpa using h
  | cons x xs ih =>
    simp only [List.foldl_cons]
    have hle : ∀ p ∈ ps, cmp p x ≤ 0 := fun p hp => (List.pairwise_append.mp hs).2.2 p hp x List.mem_cons_self
    have := ih _ (ps ++ [x]) (gstep_spec hc pick hpick s ps x h hle) (by simpa using hs)
    simpa using this

/-- duplicate resolution of a sorted sequence with any `pick` that returns one of its arguments: no panic, strictly
ascending (one item per key), only inputs, every input key represented -/
theorem resolve_generic {cmp : α → α → Int} (hc : CmpOK cmp) (pick : α → α → α)
    (hpick : ∀ a b, pick a b = a ∨ pick a b = b) (xs : List α) (hs : xs.Pairwise (fun a b => cmp a b ≤ 0)) :
    ∃ out, resolve cmp pick xs = some out ∧
      out.Pairwise (fun a b => cmp a b < 0) ∧ (∀ o ∈ out, o ∈ xs) ∧ (∀ y ∈ xs, ∃ o ∈ out, cmp o y = 0) := by
  have h0 : GInv cmp ({} : RSt α) [] := ⟨rfl, by simp [outOf], by simp [outOf], by simp, fun _ => rfl⟩
  have h := gfold_spec hc pick hpick xs {} [] h0 (by simpa using hs)
  simp only [List.nil_append] at h
  refine ⟨outOf (xs.foldl (rstep cmp pick) {}), ?_, h.asc, h.mem, h.dom⟩
  simp [resolve, finish, h.np, outOf]

/-- a `pick` that returns a foreign value on some equal pair makes `Merge` panic at that pair: the panic is reached
exactly when two adjacent popped items compare equal and `pick` returns neither (stated for the first pair) -/
theorem resolve_foreign_panics {cmp : α → α → Int} (pick : α → α → α) (a b : α) (rest : List α)
    (h0 : cmp a b = 0) (h1 : pick a b ≠ a) (h2 : pick a b ≠ b) : resolve cmp pick (a :: b :: rest) = none := by
  have hstuck : ∀ (xs : List α) (s : RSt α), s.panicked = true → (xs.foldl (rstep cmp pick) s).panicked = true := by
    intro xs
    induction xs with
    | nil => intro s h; exact h
    | cons x xs ih => intro s h; simp only [List.foldl_cons]; apply ih; simp [rstep, h]
  have : (List.foldl (rstep cmp pick) {} (a :: b :: rest)).panicked = true := by
    simp only [List.foldl_cons]
    apply hstuck
    simp [rstep, h0, h1, h2]
  unfold resolve finish
  rw [if_pos this]

end resolve

/-! ### a consumer that stops early sees a prefix -/

theorem popsN_eq (cmp : α → α → Int) (fuel n : Nat) (hn : 1 ≤ n) (s : St α) :
    popsN cmp fuel n s = (pops cmp fuel s).take n := by
  induction fuel generalizing n s with
  | zero => simp [popsN, pops]
  | succ fuel ih =>
    unfold popsN pops
    cases hp : Heap.pop (hlt cmp) s.heap with
    | none => simp
    | some r =>
      obtain ⟨ix, h1⟩ := r
      simp only []
      by_cases h1n : n ≤ 1
      · rw [if_pos h1n]
        have : n = 1 := by omega
        subst this
        cases s.rests.getD ix.1 [] <;> simp
      · rw [if_neg h1n]
        have hn' : n = (n - 1) + 1 := by omega
        cases s.rests.getD ix.1 [] with
        | nil => simp only []; rw [ih (n - 1) (by omega)]; conv => rhs; rw [hn', List.take_succ_cons]
        | cons y ys => simp only []; rw [ih (n - 1) (by omega)]; conv => rhs; rw [hn', List.take_succ_cons]

section earlyResolve
variable [DecidableEq α]

theorem rstep_out (cmp : α → α → Int) (pick : α → α → α) (s : RSt α) (x : α) :
    ((rstep cmp pick s x).out = s.out) ∨
    ((rstep cmp pick s x).panicked = s.panicked ∧ ∃ p, (rstep cmp pick s x).out = s.out ++ [p]) := by
  unfold rstep
  split
  · exact Or.inl rfl
  · cases s.prev with
    | none => exact Or.inl rfl
    | some p =>
      simp only []
      split
      · split
        · exact Or.inl rfl
        · split <;> exact Or.inl rfl
      · exact Or.inr ⟨rfl, p, rfl⟩

theorem rstep_prefix (cmp : α → α → Int) (pick : α → α → α) (xs : List α) (s : RSt α) :
    ∃ t, (xs.foldl (rstep cmp pick) s).out = s.out ++ t := by
  induction xs generalizing s with
  | nil => exact ⟨[], by simp⟩
  | cons x xs ih =>
    simp only [List.foldl_cons]
    obtain ⟨t, ht⟩ := ih (rstep cmp pick s x)
    rcases rstep_out cmp pick s x with h | ⟨_, p, h⟩
    · exact ⟨t, by rw [ht, h]⟩
    · exact ⟨p :: t, by rw [ht, h]; simp⟩

/-- relation between the full loop state and the state of the loop that stopped at `n` items -/
def Stopped (n : Nat) (s s' : RSt α) : Prop :=
  (s' = s ∧ s.out.length < n) ∨ (s'.out.length = n ∧ s'.panicked = false ∧ ∃ t, s.out = s'.out ++ t)

theorem stopped_step (cmp : α → α → Int) (pick : α → α → α) (n : Nat) (s s' : RSt α) (x : α)
    (h : Stopped n s s') : Stopped n (rstep cmp pick s x) (rstepN cmp pick n s' x) := by
  unfold rstepN
  rcases h with ⟨rfl, hlt⟩ | ⟨hl, hnp, t, ht⟩
  · rw [if_neg (by omega)]
    by_cases h2 : (rstep cmp pick s' x).out.length < n
    · exact Or.inl ⟨rfl, h2⟩
    · right
      rcases rstep_out cmp pick s' x with h3 | ⟨h3, p, h4⟩
      · rw [h3] at h2; omega
      · refine ⟨by rw [h4] at h2 ⊢; simp at h2 ⊢; omega, ?_, [], by simp⟩
        -- a step that appended was a step of a non-panicked state and does not panic
        unfold rstep at h4 ⊢
        by_cases hp : s'.panicked = true
        · rw [if_pos hp] at h4; simp at h4
        · rw [if_neg hp] at h4 ⊢
          cases hprev : s'.prev with
          | none => rw [hprev] at h4; simp at h4
          | some q =>
            rw [hprev] at h4
            simp only [] at h4 ⊢
            by_cases hc : cmp q x = 0
            · rw [if_pos hc] at h4
              split at h4
              · simp at h4
              · split at h4 <;> simp at h4
            · rw [if_neg hc]; simpa using hp
  · rw [if_pos (by omega)]
    right
    obtain ⟨t2, ht2⟩ := rstep_prefix cmp pick [x] s
    simp only [List.foldl_cons, List.foldl_nil] at ht2
    exact ⟨hl, hnp, t ++ t2, by rw [ht2, ht]; simp⟩

theorem stopped_fold (cmp : α → α → Int) (pick : α → α → α) (n : Nat) (xs : List α) (s s' : RSt α)
    (h : Stopped n s s') : Stopped n (xs.foldl (rstep cmp pick) s) (xs.foldl (rstepN cmp pick n) s') := by
  induction xs generalizing s s' with
  | nil => exact h
  | cons x xs ih => simp only [List.foldl_cons]; exact ih _ _ (stopped_step cmp pick n s s' x h)

/-- a consumer of `Merge` that stops at its `n`-th item sees exactly the first `n` items of the full output -/
theorem resolveN_prefix (cmp : α → α → Int) (pick : α → α → α) (n : Nat) (hn : 1 ≤ n) (xs : List α)
    (out : List α) (h : resolve cmp pick xs = some out) : resolveN cmp pick n xs = some (out.take n) := by
  have hst := stopped_fold cmp pick n xs {} {} (Or.inl ⟨rfl, by show 0 < n; omega⟩)
  unfold resolve finish at h
  unfold resolveN finishN
  by_cases hp : (xs.foldl (rstep cmp pick) {}).panicked = true
  · rw [if_pos hp] at h; cases h
  · rw [if_neg hp] at h
    simp only [Option.some.injEq] at h
    rcases hst with ⟨e, hlt⟩ | ⟨hl, hnp, t, ht⟩
    · rw [e, if_neg hp, if_neg (by omega), ← h]
      congr 1
      symm
      apply List.take_of_length_le
      simp only [List.length_append]
      cases (xs.foldl (rstep cmp pick) {}).prev <;> simp <;> omega
    · rw [if_neg (by simp [hnp]), if_pos (by omega), ← h, ht]
      congr 1
      rw [List.append_assoc, List.take_append_of_le_length (by omega), List.take_of_length_le (by omega)]

end earlyResolve

end Rxn.Merge
