import RxnModel.Model.Files
/-!
Helper lemmas for C09 (`Model/Files.lean`): the decision rule, the retention step, the collect step, and the
invariant behind `no_needed_file_deleted_partial` (one instance, opened empty, never reopened).
-/
namespace Rxn.Files
open Rxn

/-! ## decision rule -/

theorem arrives_id (a : Ans) : arrives a = a := by
  cases a <;> simp [arrives, Facts.c09OwnsNoDeadline, Facts.c09OwnsErrPassed]

theorem mem_effective {t : Tbl} {nbrs : List (KGRange × Ans)} {ra : KGRange × Ans} (h : ra ∈ nbrs)
    (ho : Gen.kgOverlaps ra.1 t.span = true) : ra.2 ∈ effective t nbrs := by
  unfold effective
  exact List.mem_map.mpr ⟨ra, h, by simp [ho, arrives_id]⟩

theorem decision_ne_delete (own : KGRange) (t : Tbl) (nbrs : List (KGRange × Ans))
    (hnc : Gen.kgContains own t.span = false)
    (h : ∃ ra ∈ nbrs, Gen.kgOverlaps ra.1 t.span = true ∧ (ra.2 = .err ∨ ra.2 = .hang ∨ ra.2 = .needs)) :
    decision own t nbrs ≠ .delete := by
  obtain ⟨ra, hra, ho, hans⟩ := h
  have hm := mem_effective hra ho
  unfold decision
  simp only [hnc, Bool.false_eq_true, if_false, List.contains_iff_mem]
  by_cases h1 : Ans.needs ∈ effective t nbrs
  · simp [h1]
  · by_cases h2 : Ans.hang ∈ effective t nbrs
    · simp [h1, h2]
    · have h3 : Ans.err ∈ effective t nbrs := by
        rcases hans with he | hh | hn
        · rw [he] at hm; exact hm
        · rw [hh] at hm; exact absurd hm h2
        · rw [hn] at hm; exact absurd hm h1
      simp [h1, h2, h3, Facts.c09OwnsErrKeeps]

theorem decision_delete_cases (own : KGRange) (t : Tbl) (nbrs : List (KGRange × Ans))
    (h : decision own t nbrs = .delete) :
    Gen.kgContains own t.span = true ∨ ∀ ra ∈ nbrs, Gen.kgOverlaps ra.1 t.span = true → ra.2 = .no := by
  by_cases hc : Gen.kgContains own t.span = true
  · exact Or.inl hc
  · right
    intro ra hra ho
    have hc' : Gen.kgContains own t.span = false := by simpa using hc
    cases hans : ra.2 with
    | no => rfl
    | needs => exact absurd h (decision_ne_delete own t nbrs hc' ⟨ra, hra, ho, Or.inr (Or.inr hans)⟩)
    | err => exact absurd h (decision_ne_delete own t nbrs hc' ⟨ra, hra, ho, Or.inl hans⟩)
    | hang => exact absurd h (decision_ne_delete own t nbrs hc' ⟨ra, hra, ho, Or.inr (Or.inl hans)⟩)

/-! ## what a neighbour's "no" means -/

theorem needsTable_false {x : Inst} {u : Path} (h : needsTable x u = false) :
    u ∉ uris x.current ∧ ∀ c ∈ x.ckpts, u ∉ uris c.tables := by
  unfold needsTable at h
  simp only [Bool.or_eq_false_iff, Facts.c09NeedsChecksLive, beq_self_eq_true, Bool.true_and] at h
  refine ⟨by simpa using h.2, ?_⟩
  intro c hc hu
  have h1 := h.1
  rw [List.any_eq_false] at h1
  have := h1 c hc
  apply this
  simp [ckptIncludes, Facts.c09CkptUsesLevels, hu]

/-! ## reachability -/

theorem refs_iff {x : Inst} {u : Path} : x.refs u = true ↔
    u ∈ uris x.current ∨ (∃ c ∈ x.ckpts, u ∈ uris c.tables) ∨ ∃ sn ∈ x.snaps, u ∈ uris sn := by
  simp [Inst.refs, or_assoc]

theorem refs_of_current {x : Inst} {t : Tbl} (h : t ∈ x.current) : x.refs t.uri = true :=
  refs_iff.mpr (Or.inl (List.mem_map.mpr ⟨t, h, rfl⟩))

theorem refs_of_ckpt {x : Inst} {c : Ckpt} {t : Tbl} (hc : c ∈ x.ckpts) (ht : t ∈ c.tables) :
    x.refs t.uri = true :=
  refs_iff.mpr (Or.inr (Or.inl ⟨c, hc, List.mem_map.mpr ⟨t, ht, rfl⟩⟩))

/-! ## files removed by a step -/

theorem mem_dropOne {t : Tbl} {u : Path} : ∀ {cur : List Tbl}, t ∈ dropOne cur u → t ∈ cur := by
  intro cur
  induction cur with
  | nil => intro h; simp [dropOne] at h
  | cons a as ih =>
    intro h
    simp only [dropOne] at h
    split at h
    · exact List.mem_cons_of_mem _ h
    · rcases List.mem_cons.mp h with rfl | h
      · exact List.mem_cons_self ..
      · exact List.mem_cons_of_mem _ (ih h)

theorem mem_dropTables {t : Tbl} : ∀ {rm : List Path} {cur : List Tbl}, t ∈ dropTables cur rm → t ∈ cur := by
  intro rm
  induction rm with
  | nil => intro cur h; exact h
  | cons u us ih =>
    intro cur h
    have : t ∈ dropOne cur u := ih (by simpa [dropTables] using h)
    exact mem_dropOne this

theorem mem_rmFile {fs : List File} {f g : File} : g ∈ rmFile fs f ↔ g ∈ fs ∧ g ≠ f := by
  simp [rmFile]

theorem mem_rmWals {fs : List File} {ws : List Wal} {g : File} :
    g ∈ rmWals fs ws ↔ g ∈ fs ∧ ∀ w ∈ ws, ∀ v, g = .wal v → w.same v = false := by
  unfold rmWals
  rw [List.mem_filter]
  constructor
  · rintro ⟨hg, hk⟩
    refine ⟨hg, ?_⟩
    intro w hw v he
    subst he
    simp only [Bool.not_eq_true', List.any_eq_false] at hk
    simpa using hk w hw
  · rintro ⟨hg, hk⟩
    refine ⟨hg, ?_⟩
    cases g with
    | sst p => rfl
    | wal v =>
      simp only [Bool.not_eq_true', List.any_eq_false]
      intro w hw
      simpa using hk w hw v rfl

theorem mem_clobber {fs : List File} {w : Wal} {g : File} :
    g ∈ clobber fs w ↔ g ∈ fs ∧ ∀ v, g = .wal v → w.same v = false := by
  unfold clobber
  rw [List.mem_filter]
  constructor
  · rintro ⟨hg, hk⟩
    refine ⟨hg, ?_⟩
    intro v he
    subst he
    simpa using hk
  · rintro ⟨hg, hk⟩
    refine ⟨hg, ?_⟩
    cases g with
    | sst p => rfl
    | wal v => simpa using hk v rfl

theorem same_comm (a b : Wal) : a.same b = b.same a := by
  simp only [Wal.same]
  rw [Bool.beq_comm (a := a.dir), Bool.beq_comm (a := a.num)]

theorem same_num {a b : Wal} (h : a.same b = true) : a.dir = b.dir ∧ a.num = b.num := by
  simpa [Wal.same] using h

theorem not_same_of_num {a b : Wal} (h : a.num ≠ b.num) : a.same b = false := by
  cases hs : a.same b with
  | false => rfl
  | true => exact absurd (same_num hs).2 h

theorem mem_walsOf {cs : List Ckpt} {w : Wal} : w ∈ walsOf cs ↔ ∃ c ∈ cs, w ∈ c.wals := by
  simp [walsOf, List.mem_flatMap]

theorem mem_droppedOf {cs : List Ckpt} {ids : List Nat} {c : Ckpt} :
    c ∈ droppedOf cs ids ↔ c ∈ cs ∧ keeps ids c = false := by
  simp [droppedOf]

theorem mem_keptOf {cs : List Ckpt} {ids : List Nat} {c : Ckpt} :
    c ∈ keptOf cs ids ↔ c ∈ cs ∧ keeps ids c = true := by
  simp [keptOf]


/-! ## one instance, opened empty, never reopened: the invariant behind `no_needed_file_deleted_partial` -/

theorem mem_needed1 {s : State} {x : Inst} (hs : s.insts = [x]) (f : File) :
    f ∈ needed s ↔ (x.life = .alive ∧ ∃ t ∈ x.current, f = .sst t.uri) ∨
      ∃ h ∈ s.retained, (∃ t ∈ h.tables, f = .sst t.uri) ∨ (∃ w ∈ h.wals, f = .wal w) := by
  unfold needed liveTables handleFiles uris
  rw [hs]
  by_cases hl : x.life = .alive
  · simp only [List.flatMap_cons, List.flatMap_nil, List.append_nil, hl, if_true, List.mem_append, List.mem_map,
      List.mem_flatMap, true_and]
    constructor
    · rintro (⟨u, ⟨t, ht, rfl⟩, rfl⟩ | ⟨h, hh, (⟨u, ⟨t, ht, rfl⟩, rfl⟩ | ⟨w, hw, rfl⟩)⟩)
      · exact Or.inl ⟨t, ht, rfl⟩
      · exact Or.inr ⟨h, hh, Or.inl ⟨t, ht, rfl⟩⟩
      · exact Or.inr ⟨h, hh, Or.inr ⟨w, hw, rfl⟩⟩
    · rintro (⟨t, ht, rfl⟩ | ⟨h, hh, (⟨t, ht, rfl⟩ | ⟨w, hw, rfl⟩)⟩)
      · exact Or.inl ⟨t.uri, ⟨t, ht, rfl⟩, rfl⟩
      · exact Or.inr ⟨h, hh, Or.inl ⟨t.uri, ⟨t, ht, rfl⟩, rfl⟩⟩
      · exact Or.inr ⟨h, hh, Or.inr ⟨w, hw, rfl⟩⟩
  · simp only [List.flatMap_cons, List.flatMap_nil, List.append_nil, hl, if_false, List.map_nil, List.nil_append,
      List.mem_append, List.mem_map, List.mem_flatMap, false_and, false_or]
    constructor
    · rintro ⟨h, hh, (⟨u, ⟨t, ht, rfl⟩, rfl⟩ | ⟨w, hw, rfl⟩)⟩
      · exact ⟨h, hh, Or.inl ⟨t, ht, rfl⟩⟩
      · exact ⟨h, hh, Or.inr ⟨w, hw, rfl⟩⟩
    · rintro ⟨h, hh, (⟨t, ht, rfl⟩ | ⟨w, hw, rfl⟩)⟩
      · exact ⟨h, hh, Or.inl ⟨t.uri, ⟨t, ht, rfl⟩, rfl⟩⟩
      · exact ⟨h, hh, Or.inr ⟨w, hw, rfl⟩⟩

/-- the invariant: every job-retained handle is backed by a checkpoint still in the instance's list (so its tables
are reachable), handles are above the job's floor, and a WAL belongs to checkpoints of one id only -/
structure Inv1 (s : State) (x : Inst) : Prop where
  shape : s.insts = [x]
  norel : x.life ≠ .released
  safe : Safe s
  own : ∀ h ∈ s.retained, s.floor < h.id ∧ ∃ c ∈ x.ckpts, c.id = h.id ∧ c.tables = h.tables ∧ c.wals = h.wals
  /-- a WAL file name belongs to checkpoints of one id, and all WAL files lie below the next WAL number -/
  wuniq : ∀ c ∈ x.ckpts, ∀ c' ∈ x.ckpts, ∀ w ∈ c.wals, ∀ w' ∈ c'.wals, w.same w' = true → c.id = c'.id
  wnum : ∀ c ∈ x.ckpts, ∀ w ∈ c.wals, w.num < x.walNext

theorem inv1_init (range : KGRange) (nbrs : List KGRange) :
    Inv1 (init1 range nbrs) { range := range, nbrs := nbrs } where
  shape := rfl
  norel := by simp
  safe := by intro f hf; simp [needed, liveTables, init1, uris] at hf
  own := by intro h hh; simp [init1] at hh
  wuniq := by intro c hc; simp at hc
  wnum := by intro c hc; simp at hc

/-- a step that keeps the retained handles, the checkpoint list and the WAL files, and only adds table files that
become part of the current list -/
theorem inv1_tables {s : State} {x x' : Inst} {F : List File} {U : List Path} (inv : Inv1 s x)
    (hck : x'.ckpts = x.ckpts) (hwn : x'.walNext = x.walNext) (hrel : x'.life ≠ .released)
    (hF : ∀ f ∈ s.files, f ∈ F) (hU : ∀ u ∈ s.used, u ∈ U)
    (hcur : x'.life = .alive → ∀ t ∈ x'.current, (x.life = .alive ∧ t ∈ x.current) ∨ .sst t.uri ∈ F) :
    Inv1 { s with insts := [x'], files := F, used := U } x' where
  shape := rfl
  norel := hrel
  safe := by
    intro f hf
    rw [mem_needed1 (x := x') rfl] at hf
    rcases hf with ⟨hl, t, ht, rfl⟩ | ⟨h, hh, hr⟩
    · rcases hcur hl t ht with ⟨hxl, hx⟩ | hx
      · exact hF _ (inv.safe _ ((mem_needed1 inv.shape _).mpr (Or.inl ⟨hxl, t, hx, rfl⟩)))
      · exact hx
    · exact hF _ (inv.safe _ ((mem_needed1 inv.shape _).mpr (Or.inr ⟨h, hh, hr⟩)))
  own := by intro h hh; rw [hck]; exact inv.own h hh
  wuniq := by rw [hck]; exact inv.wuniq
  wnum := by rw [hck, hwn]; exact inv.wnum


/-- the instance after sealing WAL `wal` into checkpoint `id` -/
@[reducible] def ckptInst (x : Inst) (id : Nat) (wal : Wal) : Inst :=
  { x with ckpts := x.ckpts ++ [⟨id, x.current, [wal], false⟩], walNext := x.walNext + 1 }

theorem set_single (x y : Inst) : [x].set 0 y = [y] := rfl

theorem step_inv1 {s s' : State} {x : Inst} {a : Act} (inv : Inv1 s x) (hsc : inScope s a = true)
    (hstep : step s a = some s') : ∃ x', Inv1 s' x' := by
  have hs := inv.shape
  cases a with
  | openFresh r g n => simp [inScope] at hsc
  | openFrom r g n w id => simp [inScope] at hsc
  | release i => simp [inScope] at hsc
  | lateWrite i t => simp [inScope] at hsc
  | redeployFailed i =>
    simp only [step] at hstep
    split at hstep
    · simp at hstep
    · split at hstep
      · injection hstep with hstep; subst hstep; exact ⟨x, inv⟩
      · simp at hstep
  | flush i t =>
    cases i with
    | succ n => simp [step, hs] at hstep
    | zero =>
      simp only [step, hs, List.getElem?_cons_zero] at hstep
      split at hstep
      · rename_i hc
        injection hstep with hstep; subst hstep
        refine ⟨{ x with current := t :: x.current, created := t.uri :: x.created, made := t.uri :: x.made }, ?_⟩
        have := inv1_tables (x' := { x with current := t :: x.current, created := t.uri :: x.created, made := t.uri :: x.made })
          (F := .sst t.uri :: s.files) (U := t.uri :: s.used) inv rfl rfl inv.norel
          (fun f hf => List.mem_cons_of_mem _ hf) (fun u hu => List.mem_cons_of_mem _ hu)
          (by
            intro hl t' ht'
            rcases List.mem_cons.mp ht' with rfl | ht'
            · exact Or.inr (List.mem_cons_self ..)
            · exact Or.inl ⟨hc.1, ht'⟩)
        simpa [setInst, hs] using this
      · simp at hstep
  | compact i rm add =>
    cases i with
    | succ n => simp [step, hs] at hstep
    | zero =>
      simp only [step, hs, List.getElem?_cons_zero] at hstep
      split at hstep
      · rename_i hc
        injection hstep with hstep; subst hstep
        refine ⟨{ x with current := dropTables x.current rm ++ add,
                         created := uris add ++ x.created, made := uris add ++ x.made }, ?_⟩
        have := inv1_tables (x' := { x with current := dropTables x.current rm ++ add,
                                             created := uris add ++ x.created, made := uris add ++ x.made })
          (F := (uris add).map File.sst ++ s.files) (U := uris add ++ s.used) inv rfl rfl inv.norel
          (fun f hf => List.mem_append_right _ hf) (fun u hu => List.mem_append_right _ hu)
          (by
            intro hl t' ht'
            rcases List.mem_append.mp ht' with ht' | ht'
            · exact Or.inl ⟨hc.1, (mem_dropTables ht')⟩
            · exact Or.inr (List.mem_append_left _ (List.mem_map.mpr ⟨t'.uri, List.mem_map.mpr ⟨t', ht', rfl⟩, rfl⟩)))
        simpa [setInst, hs] using this
      · simp at hstep
  | snap i =>
    cases i with
    | succ n => simp [step, hs] at hstep
    | zero =>
      simp only [step, hs, List.getElem?_cons_zero] at hstep
      split at hstep
      · rename_i hc
        injection hstep with hstep; subst hstep
        refine ⟨{ x with snaps := x.current :: x.snaps }, ?_⟩
        have := inv1_tables (x' := { x with snaps := x.current :: x.snaps }) (F := s.files) (U := s.used) inv rfl rfl inv.norel
          (fun f hf => hf) (fun u hu => hu) (fun hl t' ht' => Or.inl ⟨hc, ht'⟩)
        simpa [setInst, hs] using this
      · simp at hstep
  | unsnap i k =>
    cases i with
    | succ n => simp [step, hs] at hstep
    | zero =>
      simp only [step, hs, List.getElem?_cons_zero] at hstep
      split at hstep
      · rename_i hc
        injection hstep with hstep; subst hstep
        refine ⟨{ x with snaps := x.snaps.eraseIdx k }, ?_⟩
        have := inv1_tables (x' := { x with snaps := x.snaps.eraseIdx k }) (F := s.files) (U := s.used) inv rfl rfl inv.norel
          (fun f hf => hf) (fun u hu => hu) (fun hl t' ht' => Or.inl ⟨hc, ht'⟩)
        simpa [setInst, hs] using this
      · simp at hstep
  | crash i =>
    cases i with
    | succ n => simp [step, hs] at hstep
    | zero =>
      simp only [step, hs, List.getElem?_cons_zero] at hstep
      split at hstep
      · rename_i hc
        injection hstep with hstep; subst hstep
        refine ⟨{ x with life := .crashed }, ?_⟩
        have := inv1_tables (x' := { x with life := .crashed }) (F := s.files) (U := s.used) inv rfl rfl (by simp)
          (fun f hf => hf) (fun u hu => hu) (fun hl => by simp at hl)
        simpa [setInst, hs] using this
      · simp at hstep
  | jobAbandon id =>
    simp only [step] at hstep
    injection hstep with hstep; subst hstep
    refine ⟨x, ?_⟩
    exact {
      shape := hs
      norel := inv.norel
      safe := by
        intro f hf
        have hf := (mem_needed1 (x := x) (by exact hs) f).mp hf
        rcases hf with hl | ⟨h, hh, hr⟩
        · exact inv.safe _ ((mem_needed1 hs _).mpr (Or.inl hl))
        · exact inv.safe _ ((mem_needed1 hs _).mpr (Or.inr ⟨h, (List.mem_filter.mp hh).1, hr⟩))
      own := fun h hh => inv.own h (List.mem_filter.mp hh).1
      wuniq := inv.wuniq
      wnum := inv.wnum }
  | jobDrop k =>
    simp only [step] at hstep
    split at hstep
    · injection hstep with hstep; subst hstep
      refine ⟨x, ?_⟩
      exact {
        shape := hs
        norel := inv.norel
        safe := by
          intro f hf
          have hf := (mem_needed1 (x := x) (by exact hs) f).mp hf
          rcases hf with hl | ⟨h, hh, hr⟩
          · exact inv.safe _ ((mem_needed1 hs _).mpr (Or.inl hl))
          · exact inv.safe _ ((mem_needed1 hs _).mpr (Or.inr ⟨h, (List.mem_filter.mp hh).1, hr⟩))
        own := by
          intro h hh
          have hm := List.mem_filter.mp hh
          have := inv.own h hm.1
          refine ⟨?_, this.2⟩
          have hk : k < h.id := by simpa using hm.2
          show max s.floor k < h.id
          exact Nat.max_lt.mpr ⟨this.1, hk⟩
        wuniq := inv.wuniq
        wnum := inv.wnum }
    · simp at hstep
  | ckpt i id wal =>
    cases i with
    | succ n => simp [step, hs] at hstep
    | zero =>
      simp only [step, hs, List.getElem?_cons_zero] at hstep
      split at hstep
      · rename_i hc
        obtain ⟨hal, hfl, hid, _, _, hnum⟩ := hc
        injection hstep with hstep; subst hstep
        refine ⟨ckptInst x id wal, ?_⟩
        have hmemck : ∀ c, c ∈ x.ckpts ++ [(⟨id, x.current, [wal], false⟩ : Ckpt)] →
            c ∈ x.ckpts ∨ c = ⟨id, x.current, [wal], false⟩ := by
          intro c hc
          rcases List.mem_append.mp hc with h1 | h1
          · exact Or.inl h1
          · exact Or.inr (by simpa using h1)
        -- the new WAL has a number no checkpoint of the list uses: nothing referenced is overwritten
        have hold : ∀ c ∈ x.ckpts, ∀ w ∈ c.wals, wal.same w = false := by
          intro c hc w hw
          have := inv.wnum c hc w hw
          exact not_same_of_num (by omega)
        exact {
          shape := by simp [setInst, hs]
          norel := inv.norel
          safe := by
            intro f hf
            rw [mem_needed1 (x := ckptInst x id wal) (by simp [setInst, hs])] at hf
            show f ∈ File.wal wal :: clobber s.files wal
            rcases hf with ⟨hl, t, ht, rfl⟩ | ⟨h, hh, hr⟩
            · exact List.mem_cons_of_mem _ (mem_clobber.mpr
                ⟨inv.safe _ ((mem_needed1 hs _).mpr (Or.inl ⟨hl, t, ht, rfl⟩)), by intro v hv; cases hv⟩)
            · rcases List.mem_cons.mp hh with rfl | hh
              · rcases hr with ⟨t, ht, rfl⟩ | ⟨w, hw, rfl⟩
                · exact List.mem_cons_of_mem _ (mem_clobber.mpr
                    ⟨inv.safe _ ((mem_needed1 hs _).mpr (Or.inl ⟨hal, t, ht, rfl⟩)), by intro v hv; cases hv⟩)
                · have : w = wal := by simpa using hw
                  subst this
                  exact List.mem_cons_self ..
              · refine List.mem_cons_of_mem _ (mem_clobber.mpr
                  ⟨inv.safe _ ((mem_needed1 hs _).mpr (Or.inr ⟨h, hh, hr⟩)), ?_⟩)
                rcases hr with ⟨t, ht, rfl⟩ | ⟨w, hw, rfl⟩
                · intro v hv; cases hv
                · intro v hv
                  injection hv with hv; subst hv
                  obtain ⟨_, c, hcm, _, _, hwals⟩ := inv.own h hh
                  exact hold c hcm w (hwals ▸ hw)
          own := by
            intro h hh
            rcases List.mem_cons.mp hh with rfl | hh
            · exact ⟨hfl, ⟨id, x.current, [wal], false⟩, by simp, rfl, rfl, rfl⟩
            · obtain ⟨h1, c, hc, h2⟩ := inv.own h hh
              exact ⟨h1, c, List.mem_append_left _ hc, h2⟩
          wuniq := by
            intro c hc c' hc' w hw w' hw' hs'
            rcases hmemck c hc with h1 | h1 <;> rcases hmemck c' hc' with h2 | h2
            · exact inv.wuniq c h1 c' h2 w hw w' hw' hs'
            · rw [h2] at hw'
              have hww : w' = wal := by simpa using hw'
              rw [hww] at hs'
              have := hold c h1 w hw
              rw [same_comm, hs'] at this; cases this
            · rw [h1] at hw
              have hww : w = wal := by simpa using hw
              rw [hww] at hs'
              have := hold c' h2 w' hw'
              rw [hs'] at this; cases this
            · rw [h1, h2]
          wnum := by
            intro c hc w hw
            show w.num < x.walNext + 1
            rcases hmemck c hc with h1 | h1
            · have := inv.wnum c h1 w hw; omega
            · subst h1
              have : w = wal := by simpa using hw
              subst this
              omega }
      · simp at hstep
  | retain i ids =>
    cases i with
    | succ n => simp [step, hs] at hstep
    | zero =>
      have hok : ∀ c ∈ droppedOf x.ckpts ids, c.id ≤ s.floor := by
        simp only [inScope, retainOk, hs, List.getElem?_cons_zero, List.all_eq_true, decide_eq_true_eq] at hsc
        exact hsc
      simp only [step, hs, List.getElem?_cons_zero] at hstep
      split at hstep
      · rename_i hc
        injection hstep with hstep; subst hstep
        refine ⟨{ x with ckpts := keptOf x.ckpts ids }, ?_⟩
        have hkept : ∀ h ∈ s.retained, ∀ c ∈ x.ckpts, c.id = h.id → c ∈ keptOf x.ckpts ids := by
          intro h hh c hcm hid
          by_cases hin : keeps ids c = true
          · exact mem_keptOf.mpr ⟨hcm, hin⟩
          · have := hok c (mem_droppedOf.mpr ⟨hcm, by simpa using hin⟩)
            have := (inv.own h hh).1
            omega
        exact {
          shape := by simp [setInst, hs]
          norel := inv.norel
          safe := by
            intro f hf
            rw [mem_needed1 (x := { x with ckpts := keptOf x.ckpts ids }) (by simp [setInst, hs])] at hf
            show f ∈ rmWals s.files (walsOf (droppedOf x.ckpts ids))
            rw [mem_rmWals]
            rcases hf with ⟨hl, t, ht, rfl⟩ | ⟨h, hh, hr⟩
            · exact ⟨inv.safe _ ((mem_needed1 hs _).mpr (Or.inl ⟨hl, t, ht, rfl⟩)), by intro w _ v hne; cases hne⟩
            · refine ⟨inv.safe _ ((mem_needed1 hs _).mpr (Or.inr ⟨h, hh, hr⟩)), ?_⟩
              rcases hr with ⟨t, ht, rfl⟩ | ⟨w, hw, rfl⟩
              · intro w _ v hne; cases hne
              · intro w' hw' v hne
                injection hne with hne
                subst hne
                obtain ⟨hfl, c, hcm, hid, _, hwals⟩ := inv.own h hh
                obtain ⟨c', hc', hwc'⟩ := mem_walsOf.mp hw'
                have hd := mem_droppedOf.mp hc'
                cases hsm : w'.same w with
                | false => rfl
                | true =>
                  have := inv.wuniq c' hd.1 c hcm w' hwc' w (hwals ▸ hw) hsm
                  have := hok c' hc'
                  omega
          own := by
            intro h hh
            obtain ⟨h1, c, hcm, hid, h2⟩ := inv.own h hh
            exact ⟨h1, c, hkept h hh c hcm hid, hid, h2⟩
          wuniq := by
            intro c hcm c' hcm'
            exact inv.wuniq c (mem_keptOf.mp hcm).1 c' (mem_keptOf.mp hcm').1
          wnum := by
            intro c hcm w hw
            exact inv.wnum c (mem_keptOf.mp hcm).1 w hw }
      · simp at hstep
  | collect i u answers =>
    cases i with
    | succ n => simp [step, hs] at hstep
    | zero =>
      simp only [step, hs, List.getElem?_cons_zero] at hstep
      split at hstep
      · rename_i hun
        -- whatever object is collected, only `sst u` can disappear, and `u` is unreachable
        have hnr : x.life ≠ .released → x.refs u = false := by
          intro hl
          unfold Inst.unreachable at hun
          cases hx : x.life with
          | alive => simpa [hx] using hun
          | crashed => simpa [hx] using hun
          | released => exact absurd hx hl
        have key : ∀ (x' : Inst) (F : List File), x'.ckpts = x.ckpts → x'.current = x.current → x'.life = x.life →
            x'.walNext = x.walNext → (∀ f ∈ s.files, f ≠ .sst u → f ∈ F) → x.life ≠ .released →
            Inv1 { s with insts := [x'], files := F } x' := by
          intro x' F hck hcur hlife hwn hF hl
          exact {
            shape := rfl
            norel := hlife ▸ hl
            safe := by
              intro f hf
              rw [mem_needed1 (x := x') rfl] at hf
              have hne : f ≠ .sst u := by
                rintro rfl
                have hr := hnr hl
                rcases hf with ⟨_, t, ht, he⟩ | ⟨h, hh, (⟨t, ht, he⟩ | ⟨w, _, he⟩)⟩
                · injection he with he; subst he
                  rw [hcur] at ht
                  rw [refs_of_current ht] at hr; cases hr
                · injection he with he; subst he
                  obtain ⟨_, c, hcm, _, htab, _⟩ := inv.own h hh
                  rw [← htab] at ht
                  rw [refs_of_ckpt hcm ht] at hr; cases hr
                · cases he
              apply hF _ _ hne
              rcases hf with ⟨hl', t, ht, rfl⟩ | ⟨h, hh, hr⟩
              · exact inv.safe _ ((mem_needed1 hs _).mpr (Or.inl ⟨hlife ▸ hl', t, hcur ▸ ht, rfl⟩))
              · exact inv.safe _ ((mem_needed1 hs _).mpr (Or.inr ⟨h, hh, hr⟩))
            own := by intro h hh; rw [hck]; exact inv.own h hh
            wuniq := by rw [hck]; exact inv.wuniq
            wnum := by rw [hck, hwn]; exact inv.wnum }
        split at hstep
        · injection hstep with hstep; subst hstep
          refine ⟨{ x with created := x.created.erase u }, ?_⟩
          have := key { x with created := x.created.erase u }
            (if (Facts.c09CreatedDeletes == 1) = true then rmFile s.files (.sst u) else s.files) rfl rfl rfl rfl
            (by
              intro f hf hne
              split
              · exact mem_rmFile.mpr ⟨hf, hne⟩
              · exact hf) inv.norel
          simpa [setInst, hs] using this
        · split at hstep
          · simp at hstep
          · rename_i t _
            injection hstep with hstep; subst hstep
            refine ⟨{ x with loaded := x.loaded.erase t }, ?_⟩
            have := key { x with loaded := x.loaded.erase t }
              (if decision x.range t (x.nbrs.zip answers) = .delete ∨ Facts.c09LoadedGuarded ≠ 1
                then rmFile s.files (.sst u) else s.files) rfl rfl rfl rfl
              (by
                intro f hf hne
                split
                · exact mem_rmFile.mpr ⟨hf, hne⟩
                · exact hf) inv.norel
            simpa [setInst, hs] using this
      · simp at hstep


theorem runIn_inv1 {as : List Act} : ∀ {s s' : State} {x : Inst}, Inv1 s x → runIn s as = some s' → ∃ x', Inv1 s' x' := by
  induction as with
  | nil => intro s s' x inv h; simp only [runIn] at h; injection h with h; subst h; exact ⟨x, inv⟩
  | cons a as ih =>
    intro s s' x inv h
    simp only [runIn] at h
    split at h
    · rename_i hsc
      split at h
      · rename_i s1 hstep
        obtain ⟨x1, inv1⟩ := step_inv1 inv hsc hstep
        exact ih inv1 h
      · simp at h
    · simp at h

/-! ## step-level facts about retention and collection (any number of instances) -/

theorem retain_effect {s s' : State} {i : Nat} {ids : List Nat} {x : Inst} (hx : s.insts[i]? = some x)
    (h : step s (.retain i ids) = some s') :
    s'.files = rmWals s.files (walsOf (droppedOf x.ckpts ids)) ∧
    s'.insts[i]? = some { x with ckpts := keptOf x.ckpts ids } ∧ s'.retained = s.retained := by
  simp only [step, hx] at h
  split at h
  · injection h with h; subst h
    have hi : i < s.insts.length := by
      rcases Nat.lt_or_ge i s.insts.length with hlt | hge
      · exact hlt
      · rw [List.getElem?_eq_none hge] at hx; cases hx
    refine ⟨rfl, ?_, rfl⟩
    simp [setInst, hi]
  · simp at h

theorem collect_effect {s s' : State} {i : Nat} {u : Path} {answers : List Ans} {x : Inst}
    (hx : s.insts[i]? = some x) (h : step s (.collect i u answers) = some s') :
    x.unreachable u = true ∧ (∀ f ∈ s.files, f ≠ .sst u → f ∈ s'.files) ∧ (∀ f ∈ s'.files, f ∈ s.files) ∧
    (.sst u ∈ s.files → .sst u ∉ s'.files → u ∈ x.created ∨
      ∃ t ∈ x.loaded, t.uri = u ∧ decision x.range t (x.nbrs.zip answers) = .delete) := by
  simp only [step, hx] at h
  split at h
  · rename_i hun
    refine ⟨hun, ?_⟩
    split at h
    · rename_i hcr
      injection h with h; subst h
      refine ⟨?_, ?_, ?_⟩
      · intro f hf hne
        show f ∈ (if (Facts.c09CreatedDeletes == 1) = true then rmFile s.files (.sst u) else s.files)
        split
        · exact mem_rmFile.mpr ⟨hf, hne⟩
        · exact hf
      · intro f hf
        have hf : f ∈ (if (Facts.c09CreatedDeletes == 1) = true then rmFile s.files (.sst u) else s.files) := hf
        split at hf
        · exact (mem_rmFile.mp hf).1
        · exact hf
      · intro _ _
        exact Or.inl (by simpa using hcr)
    · split at h
      · simp at h
      · rename_i t hfind
        injection h with h; subst h
        refine ⟨?_, ?_, ?_⟩
        · intro f hf hne
          show f ∈ (if decision x.range t (x.nbrs.zip answers) = .delete ∨ Facts.c09LoadedGuarded ≠ 1
            then rmFile s.files (.sst u) else s.files)
          split
          · exact mem_rmFile.mpr ⟨hf, hne⟩
          · exact hf
        · intro f hf
          have hf : f ∈ (if decision x.range t (x.nbrs.zip answers) = .delete ∨ Facts.c09LoadedGuarded ≠ 1
            then rmFile s.files (.sst u) else s.files) := hf
          split at hf
          · exact (mem_rmFile.mp hf).1
          · exact hf
        · intro hin hout
          right
          have hout : File.sst u ∉ (if decision x.range t (x.nbrs.zip answers) = .delete ∨ Facts.c09LoadedGuarded ≠ 1
            then rmFile s.files (.sst u) else s.files) := hout
          refine ⟨t, List.mem_of_find?_eq_some hfind, ?_, ?_⟩
          · have := List.find?_some hfind
            simpa using this
          · split at hout
            · rename_i hd
              rcases hd with hd | hd
              · exact hd
              · exact absurd rfl hd
            · exact absurd hin hout
  · simp at h


/-! ## `NeedsTable` as two reads: a "no" is final -/

theorem allFresh_not_mem : ∀ {ps used : List Path}, allFresh used ps = true → ∀ p ∈ ps, p ∉ used := by
  intro ps
  induction ps with
  | nil => intro used _ p hp; cases hp
  | cons q qs ih =>
    intro used h p hp
    simp only [allFresh, Bool.and_eq_true] at h
    rcases List.mem_cons.mp hp with rfl | hp
    · simpa using h.1
    · intro hu
      exact ih h.2 p hp (List.mem_cons_of_mem _ hu)

theorem get_setInst {s : State} {i j : Nat} {xi y x : Inst} (hi : s.insts[i]? = some xi)
    (hj : s.insts[j]? = some x) :
    ∃ x', (s.insts.set i y)[j]? = some x' ∧ ((i = j ∧ x' = y ∧ x = xi) ∨ x' = x) := by
  by_cases h : i = j
  · subst h
    have hlt : i < s.insts.length := by
      rcases Nat.lt_or_ge i s.insts.length with hlt | hge
      · exact hlt
      · rw [List.getElem?_eq_none hge] at hi; cases hi
    refine ⟨y, by simp [hlt], Or.inl ⟨rfl, rfl, ?_⟩⟩
    rw [hi] at hj; injection hj with hj; exact hj.symm
  · exact ⟨x, by simp [h, hj], Or.inr rfl⟩

/-- what a step can do to instance `j`: new tables of its level list have unused names, new checkpoints capture
the level list it had, names stay used -/
structure Frame (s s' : State) (j : Nat) (x : Inst) : Prop where
  used : ∀ u ∈ s.used, u ∈ s'.used
  inst : ∃ x', s'.insts[j]? = some x' ∧ (∀ t ∈ x'.current, t ∈ x.current ∨ t.uri ∉ s.used) ∧
    (∀ c ∈ x'.ckpts, c ∈ x.ckpts ∨ c.tables = x.current)

theorem frame_same {s s' : State} {j : Nat} {x : Inst} (hu : ∀ u ∈ s.used, u ∈ s'.used)
    (hj : s'.insts[j]? = some x) : Frame s s' j x :=
  ⟨hu, x, hj, fun _ ht => Or.inl ht, fun _ hc => Or.inl hc⟩

theorem frame_set {s s' : State} {i j : Nat} {xi y x : Inst} (hi : s.insts[i]? = some xi)
    (hj : s.insts[j]? = some x) (hins : s'.insts = s.insts.set i y) (hu : ∀ u ∈ s.used, u ∈ s'.used)
    (hcur : ∀ t ∈ y.current, t ∈ xi.current ∨ t.uri ∉ s.used)
    (hck : ∀ c ∈ y.ckpts, c ∈ xi.ckpts ∨ c.tables = xi.current) : Frame s s' j x := by
  obtain ⟨x', hx', hcase⟩ := get_setInst (y := y) hi hj
  refine ⟨hu, x', by rw [hins]; exact hx', ?_⟩
  rcases hcase with ⟨_, rfl, rfl⟩ | rfl
  · exact ⟨hcur, hck⟩
  · exact ⟨fun _ ht => Or.inl ht, fun _ hc => Or.inl hc⟩

theorem step_frame {s s' : State} {a : Act} {j : Nat} {x : Inst} (h : step s a = some s')
    (hj : s.insts[j]? = some x) : Frame s s' j x := by
  have hlt : j < s.insts.length := by
    rcases Nat.lt_or_ge j s.insts.length with hlt | hge
    · exact hlt
    · rw [List.getElem?_eq_none hge] at hj; cases hj
  have happ : ∀ y : Inst, (s.insts ++ [y])[j]? = some x := by
    intro y; rw [List.getElem?_append_left hlt]; exact hj
  cases a with
  | openFresh r g n =>
    simp only [step] at h; injection h with h; subst h
    exact frame_same (fun _ hu => hu) (happ _)
  | openFrom r g n ws id =>
    simp only [step] at h
    split at h
    · simp at h
    · simp at h
    · injection h with h; subst h
      exact frame_same (fun _ hu => hu) (happ _)
  | jobAbandon id =>
    simp only [step] at h
    injection h with h; subst h; exact frame_same (fun _ hu => hu) hj
  | jobDrop k =>
    simp only [step] at h
    split at h
    · injection h with h; subst h; exact frame_same (fun _ hu => hu) hj
    · simp at h
  | redeployFailed i =>
    simp only [step] at h
    split at h
    · simp at h
    · split at h
      · injection h with h; subst h; exact frame_same (fun _ hu => hu) hj
      · simp at h
  | lateWrite i t =>
    simp only [step] at h
    split at h
    · simp at h
    · split at h
      · injection h with h; subst h; exact frame_same (fun _ hu => List.mem_cons_of_mem _ hu) hj
      · simp at h
  | flush i t =>
    simp only [step] at h
    split at h
    · simp at h
    · rename_i xi hi
      split at h
      · rename_i hc
        injection h with h; subst h
        refine frame_set hi hj rfl (fun _ hu => List.mem_cons_of_mem _ hu) ?_ (fun _ hc => Or.inl hc)
        intro t' ht'
        rcases List.mem_cons.mp ht' with rfl | ht'
        · exact Or.inr (by simpa using hc.2)
        · exact Or.inl ht'
      · simp at h
  | compact i rm add =>
    simp only [step] at h
    split at h
    · simp at h
    · rename_i xi hi
      split at h
      · rename_i hc
        injection h with h; subst h
        refine frame_set hi hj rfl (fun _ hu => List.mem_append_right _ hu) ?_ (fun _ hc => Or.inl hc)
        intro t' ht'
        rcases List.mem_append.mp ht' with ht' | ht'
        · exact Or.inl (mem_dropTables ht')
        · exact Or.inr (allFresh_not_mem hc.2.1 _ (List.mem_map.mpr ⟨t', ht', rfl⟩))
      · simp at h
  | ckpt i id wal =>
    simp only [step] at h
    split at h
    · simp at h
    · rename_i xi hi
      split at h
      · injection h with h; subst h
        refine frame_set hi hj rfl (fun _ hu => hu) (fun _ ht => Or.inl ht) ?_
        intro c hc
        rcases List.mem_append.mp hc with hc | hc
        · exact Or.inl hc
        · have : c = ⟨id, xi.current, [wal], false⟩ := by simpa using hc
          exact Or.inr (by rw [this])
      · simp at h
  | retain i ids =>
    simp only [step] at h
    split at h
    · simp at h
    · rename_i xi hi
      split at h
      · injection h with h; subst h
        exact frame_set hi hj rfl (fun _ hu => hu) (fun _ ht => Or.inl ht)
          (fun c hc => Or.inl (mem_keptOf.mp hc).1)
      · simp at h
  | snap i =>
    simp only [step] at h
    split at h
    · simp at h
    · rename_i xi hi
      split at h
      · injection h with h; subst h
        exact frame_set hi hj rfl (fun _ hu => hu) (fun _ ht => Or.inl ht) (fun _ hc => Or.inl hc)
      · simp at h
  | unsnap i k =>
    simp only [step] at h
    split at h
    · simp at h
    · rename_i xi hi
      split at h
      · injection h with h; subst h
        exact frame_set hi hj rfl (fun _ hu => hu) (fun _ ht => Or.inl ht) (fun _ hc => Or.inl hc)
      · simp at h
  | crash i =>
    simp only [step] at h
    split at h
    · simp at h
    · rename_i xi hi
      split at h
      · injection h with h; subst h
        exact frame_set hi hj rfl (fun _ hu => hu) (fun _ ht => Or.inl ht) (fun _ hc => Or.inl hc)
      · simp at h
  | release i =>
    simp only [step] at h
    split at h
    · simp at h
    · rename_i xi hi
      split at h
      · injection h with h; subst h
        exact frame_set hi hj rfl (fun _ hu => hu) (fun _ ht => Or.inl ht) (fun _ hc => Or.inl hc)
      · simp at h
  | collect i u answers =>
    simp only [step] at h
    split at h
    · simp at h
    · rename_i xi hi
      split at h
      · split at h
        · injection h with h; subst h
          exact frame_set hi hj rfl (fun _ hu => hu) (fun _ ht => Or.inl ht) (fun _ hc => Or.inl hc)
        · split at h
          · simp at h
          · injection h with h; subst h
            exact frame_set hi hj rfl (fun _ hu => hu) (fun _ ht => Or.inl ht) (fun _ hc => Or.inl hc)
      · simp at h

/-- the table is not in the instance's live level list (and its name is taken, so it can never come back) -/
def NotLive (s : State) (j : Nat) (u : Path) : Prop :=
  ∃ x, s.insts[j]? = some x ∧ u ∈ s.used ∧ u ∉ uris x.current

/-- … and in none of its checkpoints -/
def NotNeeded (s : State) (j : Nat) (u : Path) : Prop :=
  ∃ x, s.insts[j]? = some x ∧ u ∈ s.used ∧ u ∉ uris x.current ∧ ∀ c ∈ x.ckpts, u ∉ uris c.tables

theorem step_notLive {s s' : State} {a : Act} {j : Nat} {u : Path} (h : step s a = some s')
    (p : NotLive s j u) : NotLive s' j u := by
  obtain ⟨x, hx, hu, hn⟩ := p
  obtain ⟨hused, x', hx', hcur, _⟩ := step_frame h hx
  refine ⟨x', hx', hused u hu, ?_⟩
  intro hm
  obtain ⟨t, ht, rfl⟩ := List.mem_map.mp hm
  rcases hcur t ht with h1 | h1
  · exact hn (List.mem_map.mpr ⟨t, h1, rfl⟩)
  · exact h1 hu

theorem step_notNeeded {s s' : State} {a : Act} {j : Nat} {u : Path} (h : step s a = some s')
    (p : NotNeeded s j u) : NotNeeded s' j u := by
  obtain ⟨x, hx, hu, hn, hc⟩ := p
  obtain ⟨x', hx', hu', hn'⟩ := step_notLive h ⟨x, hx, hu, hn⟩
  obtain ⟨_, x'', hx'', _, hck⟩ := step_frame h hx
  rw [hx'] at hx''; injection hx'' with hx''; subst hx''
  refine ⟨x', hx', hu', hn', ?_⟩
  intro c hcm
  rcases hck c hcm with h1 | h1
  · exact hc c h1
  · rw [h1]; exact hn

theorem run_notLive {as : List Act} : ∀ {s s' : State} {j : Nat} {u : Path}, run s as = some s' →
    NotLive s j u → NotLive s' j u := by
  induction as with
  | nil => intro s s' j u h p; simp only [run] at h; injection h with h; subst h; exact p
  | cons a as ih =>
    intro s s' j u h p
    simp only [run] at h
    split at h
    · rename_i s1 hs
      exact ih h (step_notLive hs p)
    · simp at h

theorem run_notNeeded {as : List Act} : ∀ {s s' : State} {j : Nat} {u : Path}, run s as = some s' →
    NotNeeded s j u → NotNeeded s' j u := by
  induction as with
  | nil => intro s s' j u h p; simp only [run] at h; injection h with h; subst h; exact p
  | cons a as ih =>
    intro s s' j u h p
    simp only [run] at h
    split at h
    · rename_i s1 hs
      exact ih h (step_notNeeded hs p)
    · simp at h

theorem readLive_false {x : Inst} {u : Path} (h : readLive x u = false) : u ∉ uris x.current := by
  simpa [readLive, Facts.c09NeedsChecksLive] using h

theorem readCkpts_false {x : Inst} {u : Path} (h : readCkpts x u = false) : ∀ c ∈ x.ckpts, u ∉ uris c.tables := by
  intro c hc hu
  unfold readCkpts at h
  rw [List.any_eq_false] at h
  exact h c hc (by simp [ckptIncludes, Facts.c09CkptUsesLevels, hu])

theorem needsTable_of_notNeeded {x : Inst} {u : Path} (h1 : u ∉ uris x.current)
    (h2 : ∀ c ∈ x.ckpts, u ∉ uris c.tables) : needsTable x u = false := by
  unfold needsTable
  simp only [Bool.or_eq_false_iff, Bool.and_eq_false_iff]
  refine ⟨?_, Or.inr (by simpa using h1)⟩
  rw [List.any_eq_false]
  intro c hc
  have := h2 c hc
  simp [ckptIncludes, this]


/-! ## WAL numbering after a restore -/

theorem foldl_max_num (ws : List Wal) : ∀ m : Nat,
    m ≤ ws.foldl (fun m w => max m w.num) m ∧ ∀ w ∈ ws, w.num ≤ ws.foldl (fun m w => max m w.num) m := by
  induction ws with
  | nil => intro m; exact ⟨Nat.le_refl _, by intro w hw; cases hw⟩
  | cons v vs ih =>
    intro m
    obtain ⟨h1, h2⟩ := ih (max m v.num)
    simp only [List.foldl_cons]
    refine ⟨Nat.le_trans (Nat.le_max_left ..) h1, ?_⟩
    intro w hw
    rcases List.mem_cons.mp hw with rfl | hw
    · exact Nat.le_trans (Nat.le_max_right ..) h1
    · exact h2 w hw

theorem nextWalId_gt (ws : List Wal) : ∀ w ∈ ws, w.num < nextWalId ws := by
  intro w hw
  simp only [nextWalId, Facts.c09NextWalIsMax, beq_self_eq_true, if_true]
  have := (foldl_max_num ws 0).2 w hw
  omega


/-! ## who removes a file: one step, then whole histories -/

/-- why a collection may delete the file of table `u` -/
def CollectJustified (x : Inst) (u : Path) (answers : List Ans) : Prop :=
  x.unreachable u = true ∧
    (u ∈ x.created ∨ ∃ t ∈ x.loaded, t.uri = u ∧
      (Gen.kgContains x.range t.span = true ∨
        ∀ ra ∈ x.nbrs.zip answers, Gen.kgOverlaps ra.1 t.span = true → ra.2 = .no))

theorem step_removes_sst {s s' : State} {a : Act} {u : Path} (h : step s a = some s')
    (hin : File.sst u ∈ s.files) (hout : File.sst u ∉ s'.files) :
    (∃ i answers x, a = .collect i u answers ∧ s.insts[i]? = some x ∧ CollectJustified x u answers) ∨
    (∃ i t, a = .lateWrite i t ∧ t.uri = u) := by
  cases a with
  | lateWrite i t =>
    simp only [step] at h
    split at h
    · simp at h
    · split at h
      · injection h with h; subst h
        by_cases hut : t.uri = u
        · exact Or.inr ⟨i, t, rfl, hut⟩
        · refine absurd (List.mem_cons_of_mem _ (mem_rmFile.mpr ⟨hin, ?_⟩)) hout
          intro he; injection he with he; exact hut he.symm
      · simp at h
  | openFresh r g n d => simp only [step] at h; injection h with h; subst h; exact absurd hin hout
  | openFrom r g n ws id d =>
    simp only [step] at h
    split at h
    · simp at h
    · simp at h
    · injection h with h; subst h; exact absurd hin hout
  | jobAbandon id =>
    simp only [step] at h
    injection h with h; subst h; exact absurd hin hout
  | jobDrop k =>
    simp only [step] at h
    split at h
    · injection h with h; subst h; exact absurd hin hout
    · simp at h
  | flush i t =>
    simp only [step] at h
    split at h
    · simp at h
    · split at h
      · injection h with h; subst h; exact absurd (List.mem_cons_of_mem _ hin) hout
      · simp at h
  | compact i rm add =>
    simp only [step] at h
    split at h
    · simp at h
    · split at h
      · injection h with h; subst h; exact absurd (List.mem_append_right _ hin) hout
      · simp at h
  | ckpt i id wal =>
    simp only [step] at h
    split at h
    · simp at h
    · split at h
      · injection h with h; subst h
        exact absurd (List.mem_cons_of_mem _ (mem_clobber.mpr ⟨hin, by intro v hv; cases hv⟩)) hout
      · simp at h
  | retain i ids =>
    simp only [step] at h
    split at h
    · simp at h
    · split at h
      · injection h with h; subst h
        exact absurd (mem_rmWals.mpr ⟨hin, by intro w _ v hv; cases hv⟩) hout
      · simp at h
  | snap i =>
    simp only [step] at h
    split at h
    · simp at h
    · split at h
      · injection h with h; subst h; exact absurd hin hout
      · simp at h
  | unsnap i k =>
    simp only [step] at h
    split at h
    · simp at h
    · split at h
      · injection h with h; subst h; exact absurd hin hout
      · simp at h
  | crash i =>
    simp only [step] at h
    split at h
    · simp at h
    · split at h
      · injection h with h; subst h; exact absurd hin hout
      · simp at h
  | release i =>
    simp only [step] at h
    split at h
    · simp at h
    · split at h
      · injection h with h; subst h; exact absurd hin hout
      · simp at h
  | redeployFailed i =>
    simp only [step] at h
    split at h
    · simp at h
    · split at h
      · injection h with h; subst h; exact absurd hin hout
      · simp at h
  | collect i v answers =>
    have hx : ∃ x, s.insts[i]? = some x := by
      simp only [step] at h
      split at h
      · simp at h
      · rename_i x hx; exact ⟨x, hx⟩
    obtain ⟨x, hx⟩ := hx
    obtain ⟨hun, hkeep, _, hwhy⟩ := collect_effect hx h
    have huv : u = v := by
      by_cases huv : u = v
      · exact huv
      · exact absurd (hkeep _ hin (by intro he; injection he with he; exact huv he)) hout
    subst huv
    refine Or.inl ⟨i, answers, x, rfl, hx, hun, ?_⟩
    rcases hwhy hin hout with hc | ⟨t, ht, htu, hd⟩
    · exact Or.inl hc
    · exact Or.inr ⟨t, ht, htu, decision_delete_cases _ _ _ hd⟩

/-- in any history a table file disappears only through a justified collection of that very table, or because a
late background write of a released instance (D63) overwrites it -/
theorem run_removes_sst {as : List Act} : ∀ {s s' : State} {u : Path}, run s as = some s' →
    File.sst u ∈ s.files → File.sst u ∉ s'.files →
    (∃ pre i answers post sm x, as = pre ++ Act.collect i u answers :: post ∧ run s pre = some sm ∧
      sm.insts[i]? = some x ∧ CollectJustified x u answers) ∨
    (∃ pre i t post, as = pre ++ Act.lateWrite i t :: post ∧ t.uri = u) := by
  induction as with
  | nil => intro s s' u h hin hout; simp only [run] at h; injection h with h; subst h; exact absurd hin hout
  | cons a as ih =>
    intro s s' u h hin hout
    simp only [run] at h
    split at h
    · rename_i s1 hs
      by_cases h1 : File.sst u ∈ s1.files
      · rcases ih h h1 hout with ⟨pre, i, answers, post, sm, x, has, hpre, hx, hj⟩ | ⟨pre, i, t, post, has, htu⟩
        · refine Or.inl ⟨a :: pre, i, answers, post, sm, x, by rw [has]; rfl, ?_, hx, hj⟩
          simp only [run, hs]; exact hpre
        · exact Or.inr ⟨a :: pre, i, t, post, by rw [has]; rfl, htu⟩
      · rcases step_removes_sst hs hin h1 with ⟨i, answers, x, ha, hx, hj⟩ | ⟨i, t, ha, htu⟩
        · exact Or.inl ⟨[], i, answers, as, s, x, by rw [ha]; rfl, rfl, hx, hj⟩
        · exact Or.inr ⟨[], i, t, as, by rw [ha]; rfl, htu⟩
    · simp at h

/-- why a step may remove WAL file `v` -/
def WalRemoval (s : State) (a : Act) (v : Wal) : Prop :=
  (∃ i id wal, a = .ckpt i id wal ∧ wal.same v = true) ∨
  (∃ i ids x, a = .retain i ids ∧ s.insts[i]? = some x ∧
    ∃ c ∈ x.ckpts, keeps ids c = false ∧ ∃ w ∈ c.wals, w.same v = true)

theorem step_removes_wal {s s' : State} {a : Act} {v : Wal} (h : step s a = some s')
    (hin : File.wal v ∈ s.files) (hout : File.wal v ∉ s'.files) : WalRemoval s a v := by
  cases a with
  | openFresh r g n d => simp only [step] at h; injection h with h; subst h; exact absurd hin hout
  | openFrom r g n ws id d =>
    simp only [step] at h
    split at h
    · simp at h
    · simp at h
    · injection h with h; subst h; exact absurd hin hout
  | jobAbandon id =>
    simp only [step] at h
    injection h with h; subst h; exact absurd hin hout
  | jobDrop k =>
    simp only [step] at h
    split at h
    · injection h with h; subst h; exact absurd hin hout
    · simp at h
  | flush i t =>
    simp only [step] at h
    split at h
    · simp at h
    · split at h
      · injection h with h; subst h; exact absurd (List.mem_cons_of_mem _ hin) hout
      · simp at h
  | compact i rm add =>
    simp only [step] at h
    split at h
    · simp at h
    · split at h
      · injection h with h; subst h; exact absurd (List.mem_append_right _ hin) hout
      · simp at h
  | ckpt i id wal =>
    simp only [step] at h
    split at h
    · simp at h
    · split at h
      · injection h with h; subst h
        cases hsm : wal.same v with
        | true => exact Or.inl ⟨i, id, wal, rfl, hsm⟩
        | false =>
          refine absurd (List.mem_cons_of_mem _ (mem_clobber.mpr ⟨hin, ?_⟩)) hout
          intro v' hv'; injection hv' with hv'; subst hv'; exact hsm
      · simp at h
  | retain i ids =>
    simp only [step] at h
    split at h
    · simp at h
    · rename_i x hx
      split at h
      · injection h with h; subst h
        by_cases hex : ∃ w ∈ walsOf (droppedOf x.ckpts ids), w.same v = true
        · obtain ⟨w, hw, hsm⟩ := hex
          obtain ⟨c, hc, hwc⟩ := mem_walsOf.mp hw
          have hd := mem_droppedOf.mp hc
          exact Or.inr ⟨i, ids, x, rfl, hx, c, hd.1, hd.2, w, hwc, hsm⟩
        · refine absurd (mem_rmWals.mpr ⟨hin, ?_⟩) hout
          intro w hw v' hv'
          injection hv' with hv'; subst hv'
          cases hsm : w.same v with
          | false => rfl
          | true => exact absurd ⟨w, hw, hsm⟩ hex
      · simp at h
  | snap i =>
    simp only [step] at h
    split at h
    · simp at h
    · split at h
      · injection h with h; subst h; exact absurd hin hout
      · simp at h
  | unsnap i k =>
    simp only [step] at h
    split at h
    · simp at h
    · split at h
      · injection h with h; subst h; exact absurd hin hout
      · simp at h
  | crash i =>
    simp only [step] at h
    split at h
    · simp at h
    · split at h
      · injection h with h; subst h; exact absurd hin hout
      · simp at h
  | release i =>
    simp only [step] at h
    split at h
    · simp at h
    · split at h
      · injection h with h; subst h; exact absurd hin hout
      · simp at h
  | redeployFailed i =>
    simp only [step] at h
    split at h
    · simp at h
    · split at h
      · injection h with h; subst h; exact absurd hin hout
      · simp at h
  | lateWrite i t =>
    simp only [step] at h
    split at h
    · simp at h
    · split at h
      · injection h with h; subst h
        exact absurd (List.mem_cons_of_mem _ (mem_rmFile.mpr ⟨hin, by intro he; cases he⟩)) hout
      · simp at h
  | collect i u answers =>
    have hx : ∃ x, s.insts[i]? = some x := by
      simp only [step] at h
      split at h
      · simp at h
      · rename_i x hx; exact ⟨x, hx⟩
    obtain ⟨x, hx⟩ := hx
    obtain ⟨_, hkeep, _, _⟩ := collect_effect hx h
    exact absurd (hkeep _ hin (by intro he; cases he)) hout

theorem run_removes_wal {as : List Act} : ∀ {s s' : State} {v : Wal}, run s as = some s' →
    File.wal v ∈ s.files → File.wal v ∉ s'.files →
    ∃ pre a post sm, as = pre ++ a :: post ∧ run s pre = some sm ∧ WalRemoval sm a v := by
  induction as with
  | nil => intro s s' v h hin hout; simp only [run] at h; injection h with h; subst h; exact absurd hin hout
  | cons a as ih =>
    intro s s' v h hin hout
    simp only [run] at h
    split at h
    · rename_i s1 hs
      by_cases h1 : File.wal v ∈ s1.files
      · obtain ⟨pre, b, post, sm, has, hpre, hw⟩ := ih h h1 hout
        refine ⟨a :: pre, b, post, sm, by rw [has]; rfl, ?_, hw⟩
        simp only [run, hs]; exact hpre
      · exact ⟨[], a, as, s, rfl, rfl, step_removes_wal hs hin h1⟩
    · simp at h

end Rxn.Files
