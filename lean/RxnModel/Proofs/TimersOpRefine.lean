import RxnModel.Proofs.TimersRun
import RxnModel.Proofs.TimersOp
import RxnModel.Proofs.Watermark
/-!
The operator-level fire loop (`Op.fireLoop`: `handleWatermark` over the iterator of `AdvanceWatermark`, with batches
flushed — and the handler's new timers registered — between two firings) refines the timer-set specification.
-/
namespace Rxn.Timers
open Rxn Rxn.Bytes

/-- timers at or before `c` -/
def dueOf (sp : Spec) (c : Int) : List (Bytes × Int) := sp.pending.filter fun p => decide (p.2 ≤ c)

theorem spec_setTimer_meta (sp : Spec) (k : Bytes) (t : Int) :
    (sp.setTimer k t).wm = sp.wm ∧ (sp.setTimer k t).ups = sp.ups ∧
    dueOf (sp.setTimer k t) sp.wm = dueOf sp sp.wm ∧ (∀ p ∈ sp.pending, p ∈ (sp.setTimer k t).pending) := by
  unfold Spec.setTimer
  by_cases h : t > sp.wm ∧ (k, t) ∉ sp.pending
  · rw [if_pos h]
    refine ⟨rfl, rfl, ?_, fun p hp => List.mem_cons_of_mem _ hp⟩
    unfold dueOf
    have : ¬ t ≤ sp.wm := by omega
    simp [this]
  · rw [if_neg h]
    exact ⟨rfl, rfl, rfl, fun p hp => hp⟩

theorem setTimers_refines (ts : List Int) (r : Registry) (sp : Spec) (kgc start stop : Nat) (k : Bytes)
    (h : Rel r sp) (hsh : Shape r.store kgc start stop)
    (hk1 : start ≤ KeySpace.keyGroup kgc k) (hk2 : KeySpace.keyGroup kgc k < stop)
    (hts : ∀ t ∈ ts, 0 ≤ t ∧ t < 9223372036854775808) :
    Rel (ts.foldl (fun r t => r.setTimer k t) r) (ts.foldl (fun sp t => sp.setTimer k t) sp) ∧
    Shape (ts.foldl (fun r t => r.setTimer k t) r).store kgc start stop ∧
    (ts.foldl (fun sp t => sp.setTimer k t) sp).wm = sp.wm ∧
    dueOf (ts.foldl (fun sp t => sp.setTimer k t) sp) sp.wm = dueOf sp sp.wm ∧
    (∀ p ∈ sp.pending, p ∈ (ts.foldl (fun sp t => sp.setTimer k t) sp).pending) := by
  induction ts generalizing r sp with
  | nil => exact ⟨h, hsh, rfl, rfl, fun p hp => hp⟩
  | cons t ts ih =>
    have hv : (ROp.set k t).valid kgc start stop := ⟨hk1, hk2, (hts t List.mem_cons_self).1, (hts t List.mem_cons_self).2⟩
    obtain ⟨s1, s2, _⟩ := step_refines r sp kgc start stop h hsh (.set k t) hv
    simp only [Registry.step, Spec.step] at s1 s2
    obtain ⟨m1, _, m3, m4⟩ := spec_setTimer_meta sp k t
    obtain ⟨i1, i2, i3, i4, i5⟩ := ih (r.setTimer k t) (sp.setTimer k t) s1 s2 (fun x hx => hts x (List.mem_cons_of_mem _ hx))
    simp only [List.foldl_cons]
    refine ⟨i1, i2, i3.trans m1, ?_, fun p hp => i5 p (m4 p hp)⟩
    rw [m1] at i4
    rw [i4, m3]

theorem handle_refines (evs : List HEv) (r : Registry) (sp : Spec) (kgc start stop : Nat)
    (h : Rel r sp) (hsh : Shape r.store kgc start stop) (hv : ∀ e ∈ evs, e.valid kgc start stop) :
    Rel (evs.foldl handlerFold r) (specHandle sp evs) ∧ Shape (evs.foldl handlerFold r).store kgc start stop ∧
    (specHandle sp evs).wm = sp.wm ∧ dueOf (specHandle sp evs) sp.wm = dueOf sp sp.wm ∧
    (∀ p ∈ sp.pending, p ∈ (specHandle sp evs).pending) := by
  induction evs generalizing r sp with
  | nil => exact ⟨h, hsh, rfl, rfl, fun p hp => hp⟩
  | cons e es ih =>
    have hes : ∀ x ∈ es, x.valid kgc start stop := fun x hx => hv x (List.mem_cons_of_mem _ hx)
    cases e with
    | keyed k ts =>
      obtain ⟨v1, v2, v3⟩ := hv (.keyed k ts) List.mem_cons_self
      obtain ⟨a1, a2, a3, a4, a5⟩ := setTimers_refines ts r sp kgc start stop k h hsh v1 v2 v3
      obtain ⟨i1, i2, i3, i4, i5⟩ := ih _ _ a1 a2 hes
      simp only [List.foldl_cons, specHandle, handlerFold] at *
      refine ⟨i1, i2, i3.trans a3, ?_, fun p hp => i5 p (a5 p hp)⟩
      rw [a3] at i4
      rw [i4, a4]
    | expired k t =>
      obtain ⟨i1, i2, i3, i4, i5⟩ := ih r sp h hsh hes
      simp only [List.foldl_cons, specHandle, handlerFold] at *
      exact ⟨i1, i2, i3, i4, i5⟩

theorem flush_reg (o : Op) : o.flush.1.reg = (if o.batch.isEmpty then o.reg else o.batch.foldl handlerFold o.reg) ∧
    o.flush.1.batch = [] ∧ o.flush.1.maxBatch = o.maxBatch := by
  by_cases h : o.batch.isEmpty = true
  · have hf : o.flush = (o, []) := by unfold Op.flush; rw [if_pos h]
    rw [hf, if_pos h]
    exact ⟨rfl, List.isEmpty_iff.mp h, rfl⟩
  · have hf : o.flush.1 = { o with reg := o.batch.foldl handlerFold o.reg, batch := [] } := by
      unfold Op.flush; rw [if_neg h]; rfl
    rw [hf, if_neg h]
    exact ⟨rfl, rfl, rfl⟩

/-- adding an event (and flushing when the batch is full) keeps the registry related to the specification, where a flush
lets the handler register the timers of the keyed events it is given -/
theorem add_refines (o : Op) (e : HEv) (sp : Spec) (kgc start stop : Nat) (h : Rel o.reg sp)
    (hsh : Shape o.reg.store kgc start stop) (hv : ∀ x ∈ o.batch, x.valid kgc start stop) (he : e.valid kgc start stop) :
    ∃ sp', Rel (o.add e).1.reg sp' ∧ Shape (o.add e).1.reg.store kgc start stop ∧ sp'.wm = sp.wm ∧
      dueOf sp' sp.wm = dueOf sp sp.wm ∧ (∀ p ∈ sp.pending, p ∈ sp'.pending) ∧
      (∀ x ∈ (o.add e).1.batch, x.valid kgc start stop) := by
  have hv' : ∀ x ∈ o.batch ++ [e], x.valid kgc start stop := by
    intro x hx
    rcases List.mem_append.mp hx with h1 | h1
    · exact hv x h1
    · rw [List.mem_singleton.mp h1]; exact he
  unfold Op.add
  by_cases hfull : ({ o with batch := o.batch ++ [e] } : Op).batch.length ≥ ({ o with batch := o.batch ++ [e] } : Op).maxBatch
  · simp only [hfull, if_true]
    obtain ⟨f1, f2, _⟩ := flush_reg ({ o with batch := o.batch ++ [e] } : Op)
    have hne : ¬ ((o.batch ++ [e]).isEmpty = true) := by simp
    rw [if_neg hne] at f1
    obtain ⟨a1, a2, a3, a4, a5⟩ := handle_refines (o.batch ++ [e]) o.reg sp kgc start stop h hsh hv'
    refine ⟨specHandle sp (o.batch ++ [e]), by rw [f1]; exact a1, by rw [f1]; exact a2, a3, a4, a5, ?_⟩
    intro x hx; rw [f2] at hx; cases hx
  · simp only [hfull, if_false]
    exact ⟨sp, h, hsh, rfl, rfl, fun p hp => hp, hv'⟩

/-- deleting a stored timer key removes exactly its timer from the pending set -/
theorem delete_refines (r : Registry) (sp : Spec) (kgc start stop : Nat) (h : Rel r sp)
    (hsh : Shape r.store kgc start stop) (k : Bytes) (hk : k ∈ r.store.timerKeys) :
    Rel { r with store := r.store.deleteKey k } { sp with pending := sp.pending.filter fun p => !(p == timerOf k) } ∧
    Shape (r.store.deleteKey k) kgc start stop := by
  obtain ⟨hkdb, hkown⟩ := (mem_timerKeys r.store k).mp hk
  obtain ⟨hidx, _⟩ := partIdx_of_owns r.store h.inv k hkown
  have hstep := deleteKey_spec r.store h.inv k hidx
  have hmem : ∀ x, x ∈ (r.store.deleteKey k).timerKeys ↔ (x ∈ r.store.timerKeys ∧ x ≠ k) := by
    intro x
    rw [mem_timerKeys, mem_timerKeys, hstep.db, mem_erase_sorted h.inv.db, ownsKey_step hstep]
    constructor
    · rintro ⟨⟨a, b⟩, c⟩; exact ⟨⟨b, c⟩, a⟩
    · rintro ⟨⟨b, c⟩, a⟩; exact ⟨⟨a, b⟩, c⟩
  refine ⟨⟨hstep.inv, h.ups, h.wm, ?_, ?_, nodup_filter _ _ h.nodup⟩, hsh.of_step hstep⟩
  · intro x hx
    show WF (r.store.deleteKey k).kgc x
    rw [hstep.kgc]; exact h.wf x ((hmem x).mp hx).1
  · intro p
    show p ∈ sp.pending.filter _ ↔ ∃ x ∈ (r.store.deleteKey k).timerKeys, timerOf x = p
    simp only [List.mem_filter, Bool.not_eq_true', beq_eq_false_iff_ne, ne_eq]
    rw [h.pend p]
    constructor
    · rintro ⟨⟨x, hx, hp⟩, hne⟩
      refine ⟨x, (hmem x).mpr ⟨hx, ?_⟩, hp⟩
      intro e; subst e; exact hne hp.symm
    · rintro ⟨x, hx, hp⟩
      obtain ⟨hx0, hxk⟩ := (hmem x).mp hx
      refine ⟨⟨x, hx0, hp⟩, ?_⟩
      intro e
      have : timerOf x = timerOf k := by rw [hp, e]
      exact hxk (wf_inj (h.wf x hx0) (h.wf k hk) this)

theorem perm_cons_filter_ne {α : Type} [BEq α] [LawfulBEq α] (l : List α) (a : α) (hn : l.Nodup) (ha : a ∈ l) :
    (a :: l.filter fun x => !(x == a)).Perm l := by
  induction l with
  | nil => cases ha
  | cons x xs ih =>
    obtain ⟨h1, h2⟩ := List.nodup_cons.mp hn
    by_cases hx : x = a
    · subst hx
      have : (xs.filter fun y => !(y == x)) = xs := by
        apply List.filter_eq_self.mpr
        intro y hy
        have : y ≠ x := fun e => h1 (e ▸ hy)
        simp [this]
      simp [List.filter_cons, this]
    · have ha' : a ∈ xs := by
        rcases List.mem_cons.mp ha with e | e
        · exact absurd e.symm hx
        · exact e
      have hxa : (x == a) = false := by simp [hx]
      simp only [List.filter_cons, hxa, Bool.not_false, if_true]
      exact (List.Perm.swap x a _).trans (List.Perm.cons x (ih h2 ha'))

/-- what the loop of `handleWatermark` does, against the specification: the `TimerExpired` events it adds are exactly the
pending timers at or before the composite (each once), in non-decreasing timestamp order; the timers the handler registers
in between (judged against the new composite) are pending afterwards; nothing at or before the composite stays pending -/
structure OpFireOK (comp : Int) (kgc start stop : Nat) (o : Op) (sp : Spec) (res : Op × List Req) : Prop where
  out : ∃ fired : List (Bytes × Int),
    allEvents res.2 res.1 = o.batch ++ fired.map (fun p => HEv.expired p.1 p.2) ∧
    fired.Perm (dueOf sp comp) ∧ fired.Pairwise (fun a b => a.2 ≤ b.2)
  rel : ∃ sp', Rel res.1.reg sp' ∧ sp'.wm = comp ∧ dueOf sp' comp = [] ∧
    (∀ p ∈ sp.pending, p.2 > comp → p ∈ sp'.pending)
  shape : Shape res.1.reg.store kgc start stop
  valid : ∀ x ∈ res.1.batch, x.valid kgc start stop

theorem due_nil_of_min (r : Registry) (sp : Spec) (h : Rel r sp) (comp : Int)
    (hmin : r.store.earliest = none ∨ ∃ k, r.store.earliest = some k ∧ (timerOf k).2 > comp) : dueOf sp comp = [] := by
  unfold dueOf
  apply List.filter_eq_nil_iff.mpr
  intro p hp
  obtain ⟨x, hx, hxp⟩ := (h.pend p).mp hp
  rcases hmin with e | ⟨k, e, hgt⟩
  · have := (earliest_spec r.store h.inv).1 e
    rw [this] at hx; cases hx
  · obtain ⟨hk, hmn⟩ := (earliest_spec r.store h.inv).2 k e
    have := (leTs_iff (h.wf k hk) (h.wf x hx)).mp (hmn x hx)
    rw [hxp] at this
    simp only [decide_eq_true_eq]; omega

theorem opFireLoop_refines (comp : Int) (kgc start stop : Nat) (n : Nat) (o : Op) (sp : Spec)
    (h : Rel o.reg sp) (hsh : Shape o.reg.store kgc start stop) (hwm : sp.wm = comp)
    (hv : ∀ x ∈ o.batch, x.valid kgc start stop) (hfuel : (dueOf sp comp).length < n) :
    OpFireOK comp kgc start stop o sp (Op.fireLoop comp n o) := by
  induction n generalizing o sp with
  | zero => omega
  | succ n ih =>
    simp only [Op.fireLoop]
    cases he : o.reg.store.earliest with
    | none =>
      have hd := due_nil_of_min o.reg sp h comp (Or.inl he)
      exact ⟨⟨[], by simp [allEvents], by rw [hd], List.Pairwise.nil⟩, ⟨sp, h, hwm, hd, fun p hp _ => hp⟩, hsh, hv⟩
    | some k0 =>
      dsimp only
      by_cases hstop : Wm.timeCond Facts.fireStopCond (timerOf k0).2 comp = true
      · rw [if_pos hstop]
        have hgt : (timerOf k0).2 > comp := by simpa [Wm.timeCond, Facts.fireStopCond] using hstop
        have hd := due_nil_of_min o.reg sp h comp (Or.inr ⟨k0, he, hgt⟩)
        exact ⟨⟨[], by simp [allEvents], by rw [hd], List.Pairwise.nil⟩, ⟨sp, h, hwm, hd, fun p hp _ => hp⟩, hsh, hv⟩
      · rw [if_neg hstop]
        have hdue : (timerOf k0).2 ≤ comp := by
          simp only [Wm.timeCond, Facts.fireStopCond, decide_eq_true_eq] at hstop; omega
        obtain ⟨hk0, hmin⟩ := (earliest_spec o.reg.store h.inv).2 k0 he
        have hp0 : timerOf k0 ∈ sp.pending := (h.pend _).mpr ⟨k0, hk0, rfl⟩
        have hp0due : timerOf k0 ∈ dueOf sp comp := by
          unfold dueOf; exact List.mem_filter.mpr ⟨hp0, by simpa using hdue⟩
        -- delete
        obtain ⟨d1, d2⟩ := delete_refines o.reg sp kgc start stop h hsh k0 hk0
        let sp1 : Spec := { sp with pending := sp.pending.filter fun p => !(p == timerOf k0) }
        let o1 : Op := { o with reg := { o.reg with store := o.reg.store.deleteKey k0 } }
        have hdue1 : dueOf sp1 comp = (dueOf sp comp).filter fun p => !(p == timerOf k0) := by
          show (sp.pending.filter _).filter _ = (sp.pending.filter _).filter _
          rw [List.filter_filter, List.filter_filter]
          apply List.filter_congr
          intro x _; exact Bool.and_comm _ _
        have hperm0 : (timerOf k0 :: dueOf sp1 comp).Perm (dueOf sp comp) := by
          rw [hdue1]
          exact perm_cons_filter_ne _ _ (nodup_filter _ _ h.nodup) hp0due
        -- add (and maybe flush)
        obtain ⟨sp2, a1, a2, a3, a4, a5, a6⟩ := add_refines o1 (.expired (timerOf k0).1 (timerOf k0).2) sp1 kgc start stop
          d1 d2 hv trivial
        have hwm1 : sp1.wm = comp := hwm
        have hwm2 : sp2.wm = comp := a3.trans hwm1
        rw [hwm1] at a4
        have hlen : (dueOf sp2 comp).length < n := by
          rw [a4]
          have := hperm0.length_eq
          simp only [List.length_cons] at this
          omega
        have hr := ih (o1.add (.expired (timerOf k0).1 (timerOf k0).2)).1 sp2 a1 a2 hwm2 a6 hlen
        obtain ⟨fired, hev, hperm, hsorted⟩ := hr.out
        obtain ⟨sp', r1, r2, r3, r4⟩ := hr.rel
        have haev := (add_ok o1 (.expired (timerOf k0).1 (timerOf k0).2)).2
        refine ⟨⟨timerOf k0 :: fired, ?_, ?_, ?_⟩, ⟨sp', r1, r2, r3, ?_⟩, hr.shape, hr.valid⟩
        · rw [allEvents_append, hev]
          simp only [allEvents] at haev
          show _ = o1.batch ++ _
          rw [← List.append_assoc, haev]
          simp
        · rw [a4] at hperm
          exact (List.Perm.cons _ hperm).trans hperm0
        · refine List.pairwise_cons.mpr ⟨?_, hsorted⟩
          intro p hp
          have hp1 : p ∈ dueOf sp1 comp := by rw [← a4]; exact hperm.subset hp
          have hp2 : p ∈ sp.pending := by
            have := (List.mem_filter.mp hp1).1
            exact (List.mem_filter.mp this).1
          obtain ⟨x, hx, hxp⟩ := (h.pend p).mp hp2
          have := (leTs_iff (h.wf k0 hk0) (h.wf x hx)).mp (hmin x hx)
          rw [hxp] at this; exact this
        · intro p hp hgt
          have hp1 : p ∈ sp1.pending := by
            refine List.mem_filter.mpr ⟨hp, ?_⟩
            have : p ≠ timerOf k0 := by intro e; rw [e] at hgt; omega
            simp [this]
          exact r4 p (a5 p hp1) hgt

/-- `handleWatermark` as a whole refines the specification's `advance` followed by the handler's registrations -/
theorem opWatermark_refines (o : Op) (sp : Spec) (kgc start stop : Nat) (h : Rel o.reg sp)
    (hsh : Shape o.reg.store kgc start stop) (hv : ∀ x ∈ o.batch, x.valid kgc start stop) (sender : String) (v : Int) :
    OpFireOK (sp.ups.report sender v).2 kgc start stop o { sp with ups := (sp.ups.report sender v).1, wm := (sp.ups.report sender v).2 }
      (o.watermark sender v) := by
  unfold Op.watermark
  rw [h.ups]
  have hrel : Rel ({ o.reg with ups := (sp.ups.report sender v).1, wm := (sp.ups.report sender v).2 } : Registry)
      { sp with ups := (sp.ups.report sender v).1, wm := (sp.ups.report sender v).2 } :=
    ⟨h.inv, rfl, rfl, h.wf, h.pend, h.nodup⟩
  have hfuel : (dueOf { sp with ups := (sp.ups.report sender v).1, wm := (sp.ups.report sender v).2 } (sp.ups.report sender v).2).length
      < o.reg.store.db.length + 1 := by
    have h1 : (dueOf { sp with ups := (sp.ups.report sender v).1, wm := (sp.ups.report sender v).2 }
        (sp.ups.report sender v).2).length ≤ sp.pending.length := List.length_filter_le _ _
    have h2 : sp.pending.length ≤ (o.reg.store.db.map timerOf).length := by
      apply List.Nodup.length_le_of_subset h.nodup
      intro p hp
      obtain ⟨x, hx, hxp⟩ := (h.pend p).mp hp
      exact List.mem_map.mpr ⟨x, ((mem_timerKeys _ x).mp hx).1, hxp⟩
    rw [List.length_map] at h2
    omega
  have r := opFireLoop_refines (sp.ups.report sender v).2 kgc start stop (o.reg.store.db.length + 1)
    ({ o with reg := { o.reg with ups := (sp.ups.report sender v).1, wm := (sp.ups.report sender v).2 } } : Op)
    { sp with ups := (sp.ups.report sender v).1, wm := (sp.ups.report sender v).2 } hrel hsh rfl hv hfuel
  exact ⟨r.out, r.rel, r.shape, r.valid⟩

end Rxn.Timers

namespace Rxn.Timers
open Rxn Rxn.Bytes

/-! ### histories whose watermarks are not before 1970: timers at any `int64` timestamp -/

/-- like `ROp.valid`, but a timer may lie before 1970 (any `int64` of nanoseconds), and reported watermarks are ≥ 0 -/
def ROp.validNN (kgc start stop : Nat) : ROp → Prop
  | .set key t => start ≤ KeySpace.keyGroup kgc key ∧ KeySpace.keyGroup kgc key < stop ∧
      -9223372036854775808 ≤ t ∧ t < 9223372036854775808
  | .adv _ wm => 0 ≤ wm
  | .touch _ => True

theorem Ups.mem_set (u : Wm.Ups) (id : String) (v : Int) (k : String) (x : Int) (h : (k, x) ∈ u.set id v) :
    x = v ∨ (k, x) ∈ u := by
  induction u with
  | nil => simp only [Wm.Ups.set, List.mem_singleton, Prod.mk.injEq] at h; exact Or.inl h.2
  | cons p rest ih =>
    obtain ⟨a, y⟩ := p
    simp only [Wm.Ups.set] at h
    by_cases h1 : a = id
    · simp only [h1, if_true, List.mem_cons, Prod.mk.injEq] at h
      rcases h with ⟨_, e⟩ | e
      · exact Or.inl e
      · exact Or.inr (List.mem_cons_of_mem _ e)
    · simp only [h1, if_false, List.mem_cons] at h
      rcases h with e | e
      · exact Or.inr (e ▸ List.mem_cons_self)
      · rcases ih e with e' | e'
        · exact Or.inl e'
        · exact Or.inr (List.mem_cons_of_mem _ e')

/-- the registry's watermark and every upstream entry are at or after the epoch -/
def NonNeg (r : Registry) : Prop := 0 ≤ r.wm ∧ ∀ k x, (k, x) ∈ r.ups → 0 ≤ x

theorem nonNeg_new (store : Store) (ids : List String) : NonNeg (Registry.new store ids) := by
  refine ⟨by simp [Registry.new, Wm.regInit, Facts.regInitZero, Facts.regInitSec, Facts.regInitNsec], ?_⟩
  intro k x hm
  obtain ⟨hwf, hget⟩ := Wm.Ups.init_spec ids
  have := Wm.Ups.get?_some_of_mem _ hwf k x hm
  rw [hget k] at this
  by_cases hk : k ∈ ids
  · simp only [hk, if_true, Option.some.injEq] at this
    rw [← this]
    simp [Wm.upstreamInit, Facts.upstreamInitSec, Facts.upstreamInitNsec]
  · simp [hk] at this

theorem step_refines_nn (r : Registry) (sp : Spec) (kgc start stop : Nat) (h : Rel r sp)
    (hsh : Shape r.store kgc start stop) (hnn : NonNeg r) (op : ROp) (hv : op.validNN kgc start stop) :
    Rel (r.step op).1 (sp.step op).1 ∧ Shape (r.step op).1.store kgc start stop ∧ NonNeg (r.step op).1 ∧
    ((r.step op).2.Perm (sp.step op).2 ∧ (r.step op).2.Pairwise (fun a b => a.2 ≤ b.2) ∧ (r.step op).2.Nodup) := by
  cases op with
  | set key t =>
    obtain ⟨v1, v2, v3, v4⟩ := hv
    by_cases ht : 0 ≤ t
    · have s := step_refines r sp kgc start stop h hsh (.set key t) ⟨v1, v2, ht, v4⟩
      refine ⟨s.1, s.2.1, ?_, s.2.2⟩
      simp only [Registry.step]
      have := setTimer_meta r key t
      exact ⟨by rw [this.2]; exact hnn.1, by rw [this.1]; exact hnn.2⟩
    · -- a timer before 1970 while the watermark is at or after it: ignored by `SetTimer`, and by the specification
      have hg : Wm.timeCond Facts.timerGuardCond r.wm t = true := by
        simp only [Wm.timeCond, Facts.timerGuardCond, Bool.not_eq_true', decide_eq_false_iff_not]
        have := hnn.1; omega
      have hr : r.setTimer key t = r := by unfold Registry.setTimer; rw [if_pos hg]
      have hs : sp.setTimer key t = sp := by
        unfold Spec.setTimer
        have : ¬ (t > sp.wm ∧ (key, t) ∉ sp.pending) := by
          intro hh; have := hnn.1; rw [h.wm] at this; omega
        rw [if_neg this]
      simp only [Registry.step, Spec.step, hr, hs]
      exact ⟨h, hsh, hnn, List.Perm.refl _, List.Pairwise.nil, List.nodup_nil⟩
  | adv s v =>
    have st := step_refines r sp kgc start stop h hsh (.adv s v) trivial
    refine ⟨st.1, st.2.1, ?_, st.2.2⟩
    simp only [Registry.step, Registry.advance]
    have hall : ∀ k x, (k, x) ∈ r.ups.set s v → 0 ≤ x := by
      intro k x hm
      rcases Ups.mem_set r.ups s v k x hm with e | e
      · rw [e]; exact hv
      · exact hnn.2 k x e
    refine ⟨?_, hall⟩
    obtain ⟨_, k, x, hm, hx⟩ := Wm.Ups.composite_spec (r.ups.set s v) (Wm.Ups.set_ne_nil r.ups s v)
    show 0 ≤ (r.ups.set s v).composite
    rw [hx]; exact hall k x hm
  | touch i =>
    have st := step_refines r sp kgc start stop h hsh (.touch i) trivial
    exact ⟨st.1, st.2.1, hnn, st.2.2⟩

theorem run_refines_nn (ops : List ROp) (r : Registry) (sp : Spec) (kgc start stop : Nat) (h : Rel r sp)
    (hsh : Shape r.store kgc start stop) (hnn : NonNeg r) (hv : ∀ op ∈ ops, op.validNN kgc start stop) :
    Rel (r.run ops).1 (sp.run ops).1 ∧ OutputsAgree (r.run ops).2 (sp.run ops).2 := by
  induction ops generalizing r sp with
  | nil => exact ⟨h, trivial⟩
  | cons op ops ih =>
    obtain ⟨s1, s2, s3, s4⟩ := step_refines_nn r sp kgc start stop h hsh hnn op (hv op List.mem_cons_self)
    obtain ⟨i1, i2⟩ := ih (r.step op).1 (sp.step op).1 s1 s2 s3 (fun o ho => hv o (List.mem_cons_of_mem _ ho))
    exact ⟨i1, s4, i2⟩

end Rxn.Timers
