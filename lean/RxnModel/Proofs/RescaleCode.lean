import RxnModel.Proofs.RescaleInv
import RxnModel.Proofs.LsmOrder
import RxnModel.Proofs.CompactionLsm
/-!
Helper lemmas for C06: the restored instance carries C07's `DeepOrdered` (so the `*_code` read theorems of C07 —
`getR`, `scanR` as `level_list.go` performs them — hold after every later history) and C18's `DInv` (so the real
compaction picker's change sets are admitted and view-preserving from it).
-/
namespace Rxn.Rescale
open Rxn Lsm Rxn.Compaction

theorem openDB_levels (own : Bytes → Bool) (cs : List Ckpt) (hne : cs ≠ []) :
    (openDB own cs).levels = mergeLevels cs := by
  cases cs with
  | nil => exact absurd rfl hne
  | cons c rest => exact (openDB_inv own c rest).levels

/-- the deeper levels of the restored instance are in key order -/
theorem deepOrdered_openDB (own : Bytes → Bool) (n : Nat) (ps : List (KGRange × Ckpt)) (hne : ps ≠ [])
    (hok : ∀ p ∈ ps, SrcOk (n + 1) p) (hdis : ps.Pairwise (fun a b => a.1.overlaps b.1 = false)) :
    DeepOrdered (openDB own (ps.map (·.2))) := by
  intro l hl
  rw [openDB_levels own _ (by simpa using hne)] at hl
  obtain ⟨i, hi⟩ := List.getElem?_of_mem hl
  rw [List.getElem?_tail] at hi
  have hv := mergeLevels_valid ps (fun p hp => (hok p hp).toOldOk.ck) hdis (i + 1) (by omega) l hi
  exact hv.2.imp (fun h => by simp [Bytes.lt, Before] at h ⊢; exact h)

theorem headD_eq_getElem (L : List (List Tbl)) : L.headD [] = (L[0]?).getD [] := by
  cases L <;> rfl

/-- level 0 of the composite: tables that share a key are age-ordered, because each source's level 0 is and sources
share no key -/
theorem l0KeyAge_merged (n : Nat) (ps : List (KGRange × Ckpt)) (hne : ps ≠ [])
    (hok : ∀ p ∈ ps, SrcOk (n + 1) p) (hdis : ps.Pairwise (fun a b => a.1.overlaps b.1 = false))
    (hage : ∀ p ∈ ps, L0KeyAgeOrdered p.2.levels) : L0KeyAgeOrdered (mergeLevels (ps.map (·.2))) := by
  unfold L0KeyAgeOrdered
  have hcs : ∀ c ∈ ps.map (·.2), c.levels.length = n + 1 := by
    intro c hc; obtain ⟨p, hp, rfl⟩ := List.mem_map.mp hc; exact (hok p hp).nlev
  rw [headD_eq_getElem, mergeLevels_level0 _ (n + 1) (by omega) (by simpa using hne) hcs]
  simp only [Option.getD_some]
  unfold concatLevel
  rw [List.pairwise_flatten]
  constructor
  · intro l hl
    simp only [List.map_map, List.mem_map, Function.comp] at hl
    obtain ⟨p, hp, rfl⟩ := hl
    have := hage p hp
    unfold L0KeyAgeOrdered at this
    rw [headD_eq_getElem] at this
    rw [List.getD_eq_getElem?_getD]
    exact this
  · simp only [List.map_map]
    rw [List.pairwise_map]
    refine hdis.imp_of_mem ?_
    intro a b ha hb hab x hx y hy hnd
    exfalso
    apply hnd
    intro ea hea eb heb hk
    simp only [Function.comp] at hx hy
    exact key_ne_of_disjoint a.1 b.1 ea.key eb.key
      ((hok a ha).keys x (getD_flatten_mem _ _ _ hx) ea hea).2
      ((hok b hb).keys y (getD_flatten_mem _ _ _ hy) eb heb).2 hab hk

/-- **C18's invariant at the restored instance.** `nid` is the number the instance continues its table files at
(`Checkpoint.NextTableID`); `hids` says the loaded tables are distinct objects numbered below it. -/
theorem restored_dinv (own : Bytes → Bool) (n : Nat) (hn : 1 ≤ n) (ps : List (KGRange × Ckpt)) (hne : ps ≠ [])
    (hok : ∀ p ∈ ps, SrcOk (n + 1) p) (hdis : ps.Pairwise (fun a b => a.1.overlaps b.1 = false))
    (hage : ∀ p ∈ ps, L0KeyAgeOrdered p.2.levels) (nid : Nat)
    (hids : IdsFresh (mergeLevels (ps.map (·.2))) nid) (c : Compactor) :
    DInv { s := { openDB own (ps.map (·.2)) with nextId := nid }, c := c, pending := none }
      (containers (openDB own (ps.map (·.2)))).flatten := by
  have hinv := openDB_lsm_inv own n ps hne hok hdis
  have hlev := openDB_levels own (ps.map (·.2)) (by simpa using hne)
  obtain ⟨c0, rest, hcs⟩ : ∃ c0 rest, ps.map (·.2) = c0 :: rest := by
    cases ps with
    | nil => exact absurd rfl hne
    | cons p ps' => exact ⟨p.2, ps'.map (·.2), by simp⟩
  have hrep := openDB_inv own c0 rest
  rw [← hcs] at hrep
  obtain ⟨mm, hmm, hall⟩ := hrep.mems
  refine ⟨⟨hinv.mems_ne, hinv.levels_ne, hinv.sorted, hinv.hit, hinv.seqBound, hinv.newer, hinv.deep⟩, ?_, ?_, ?_, ⟨?_, ?_, ?_⟩,
    deepOrdered_openDB own n ps hne hok hdis, fun cs h => by cases h⟩
  · intro k r hrd
    have : (openDB own (ps.map (·.2))).reading = none := hrep.reading
    simp only at hrd
    rw [this] at hrd; cases hrd
  · show IdsFresh (openDB own (ps.map (·.2))).levels nid
    rw [hlev]; exact hids
  · show 2 ≤ (openDB own (ps.map (·.2))).levels.length
    rw [hlev]
    have hl0 := mergeLevels_level0 (ps.map (·.2)) (n + 1) (by omega) (by simpa using hne)
      (by intro c hc; obtain ⟨p, hp, rfl⟩ := List.mem_map.mp hc; exact (hok p hp).nlev)
    cases ps with
    | nil => exact absurd rfl hne
    | cons p ps' =>
      cases ps' with
      | nil => simp only [List.map_cons, List.map_nil, mergeLevels]; rw [(hok p (by simp)).nlev]; omega
      | cons q r =>
        rw [mergeLevels_multi _ n (by simp) (by
          intro c hc; obtain ⟨p', hp', rfl⟩ := List.mem_map.mp hc; exact (hok p' hp').nlev)]
        simp; omega
  · show L0KeyAgeOrdered (openDB own (ps.map (·.2))).levels
    rw [hlev]; exact l0KeyAge_merged n ps hne hok hdis hage
  · show (openDB own (ps.map (·.2))).mems.Pairwise _
    rw [hmm]; exact List.pairwise_singleton _ _
  · show ∀ t ∈ (openDB own (ps.map (·.2))).levels.headD [], ∀ r ∈ (openDB own (ps.map (·.2))).mems, _
    intro t ht r hr e he e' he'
    rw [hmm] at hr; simp at hr; subst hr
    rw [hlev] at ht
    have htf : t ∈ (mergeLevels (ps.map (·.2))).flatten := by
      cases hL : mergeLevels (ps.map (·.2)) with
      | nil => rw [hL] at ht; simp at ht
      | cons l0 D => rw [hL] at ht; simp at ht; simp [ht]
    exact Nat.lt_of_le_of_lt (Nat.le_trans (seq_le_tblEndSeq t e he) (tblEndSeq_le_latest _ t htf)) (hall e' he').1

/-! ### table numbering after a multi-handle restore -/

theorem lt_nextTableId (levels : List (List Tbl)) (t : Tbl) (ht : t ∈ levels.flatten) : t.id < nextTableId levels := by
  have := (foldl_max_ge (fun t : Tbl => t.id + 1) levels.flatten 0).2 t ht
  unfold nextTableId
  omega

/-- every table of every handle is in the composite level list (documents with the same number of levels) -/
theorem mem_mergeLevels_of_handle (cs : List Ckpt) (n : Nat) (hn : ∀ c ∈ cs, c.levels.length = n)
    (h : Ckpt) (hh : h ∈ cs) (t : Tbl) (ht : t ∈ h.levels.flatten) : t ∈ (mergeLevels cs).flatten := by
  obtain ⟨l, hl, htl⟩ := List.mem_flatten.mp ht
  obtain ⟨i, hi⟩ := List.getElem?_of_mem hl
  have hilt : i < n := by
    have := (List.getElem?_eq_some_iff.mp hi).1; rw [hn h hh] at this; exact this
  have hcat : t ∈ concatLevel cs i := by
    unfold concatLevel
    refine List.mem_flatten.mpr ⟨h.levels.getD i [], List.mem_map.mpr ⟨h, hh, rfl⟩, ?_⟩
    rw [List.getD_eq_getElem?_getD, hi]; exact htl
  match cs, hh, hn, hcat with
  | [c], hh, _, _ =>
    have : h = c := by simpa using hh
    subst this
    simpa [mergeLevels] using ht
  | a :: b :: rest, _, hn, hcat =>
    rw [mergeLevels_of_len (a :: b :: rest) n (by simp) hn]
    refine List.mem_flatten.mpr ⟨_, List.mem_map.mpr ⟨i, List.mem_range.mpr hilt, rfl⟩, ?_⟩
    by_cases h0 : i = 0
    · subst h0; simpa using hcat
    · simp only [h0, if_false]
      exact (List.mergeSort_perm _ tblLe).mem_iff.mpr hcat

theorem foldl_applyWal_nextId (own : Bytes → Bool) : ∀ (wal : List WalEntry) (s : State) (m : Run),
    s.mems = [m] → s.reading = none → (wal.foldl (applyWal own) s).nextId = s.nextId := by
  intro wal
  induction wal with
  | nil => intro s m _ _; rfl
  | cons w ws ih =>
    intro s m hm hr
    simp only [List.foldl_cons]
    by_cases ho : own w.key = true
    · have hs1 : applyWal own s w = { s with seq := s.seq + 1, mems := [Run.insert m (wEntry (s.seq + 1) w.key w.del w.val)] } := by
        unfold applyWal; simp only [ho, if_true]; exact write_single s m hm hr _ _ _
      rw [ih _ _ (by rw [hs1]) (by rw [hs1]; exact hr), hs1]
    · have hs1 : applyWal own s w = s := by unfold applyWal; simp [ho]
      rw [hs1]; exact ih s m hm hr

theorem openDB_nextId (own : Bytes → Bool) (c : Ckpt) (cs : List Ckpt) :
    (openDB own (c :: cs)).nextId = nextTableId (mergeLevels (c :: cs)) := by
  unfold openDB openWith
  exact foldl_applyWal_nextId own _ (startState tblEndSeq (mergeLevels (c :: cs))) [] rfl rfl

theorem mkTables_id_ge (start : Nat) (runs : List Run) (t : Tbl) (ht : t ∈ mkTables start runs) : start ≤ t.id := by
  unfold mkTables at ht
  obtain ⟨i, hi, h⟩ := List.getElem_of_mem ht
  simp only [List.getElem_zipWith] at h
  rw [← h]
  exact Nat.le_add_right _ _

end Rxn.Rescale
