import RxnModel.Proofs.Heap
/-! The index assigner: the `…I` heap functions act on the array exactly like the plain ones, and the stored
indices always equal the positions (and `-1` for a popped element). -/
namespace Rxn.HeapI
variable {α κ : Type} [DecidableEq κ]

/-! ### the array component is the plain heap -/

theorem upI_fst (key : α → κ) (lt : α → α → Bool) (a : Array α) (s : κ → Int) (i : Nat) :
    (upI key lt a s i).1 = Heap.up lt a i := by
  induction i using Nat.strongRecOn generalizing a s with
  | _ i ih =>
    unfold upI Heap.up
    by_cases h0 : i = 0
    · rw [dif_pos h0, dif_pos h0]
    · rw [dif_neg h0, dif_neg h0]
      by_cases hi : i < a.size
      · rw [dif_pos hi, dif_pos hi]
        by_cases hlt : lt a[i] a[(i - 1) / 2] = true
        · rw [if_pos hlt, if_pos hlt]
          exact ih _ (by omega) _ _
        · rw [if_neg hlt, if_neg hlt]
      · rw [dif_neg hi, dif_neg hi]

theorem downI_fst (key : α → κ) (lt : α → α → Bool) (a : Array α) (s : κ → Int) (i : Nat) :
    (downI key lt a s i).1.1 = (Heap.down lt a i).1 ∧ (downI key lt a s i).2 = (Heap.down lt a i).2 := by
  induction hn : a.size - i using Nat.strongRecOn generalizing a s i with
  | _ n ih =>
    rw [Heap.down_eq]
    unfold downI
    by_cases hl : 2 * i + 1 < a.size
    · rw [dif_pos hl, dif_pos hl]
      have hb := Heap.minChild_bounds lt a i hl
      by_cases hlt : lt (a[Heap.minChild lt a i hl]'hb.1) (a[i]'(by omega)) = true
      · rw [if_pos hlt, if_pos hlt]
        exact ih (a.size - Heap.minChild lt a i hl) (by omega) _ _ _ (by simp [swapI])
      · rw [if_neg hlt, if_neg hlt]; exact ⟨rfl, rfl⟩
    · rw [dif_neg hl, dif_neg hl]; exact ⟨rfl, rfl⟩

theorem pushI_fst (key : α → κ) (lt : α → α → Bool) (a : Array α) (s : κ → Int) (x : α) :
    (pushI key lt a s x).1 = Heap.push lt a x := upI_fst key lt _ _ _

theorem popI_fst (key : α → κ) (lt : α → α → Bool) (a : Array α) (s : κ → Int) :
    (popI key lt a s).map (fun p => (p.1, p.2.1)) = Heap.pop lt a := by
  unfold popI Heap.pop
  by_cases h : 0 < a.size
  · rw [dif_pos h, dif_pos h]
    simp only [Option.map_some]
    by_cases hn : 0 < a.size - 1
    · simp only [hn, if_true]; rw [(downI_fst key lt _ _ 0).1]
    · simp only [hn, if_false]
  · rw [dif_neg h, dif_neg h]; rfl

theorem fixI_fst (key : α → κ) (lt : α → α → Bool) (a : Array α) (s : κ → Int) (i : Int) (hi : 0 ≤ i) :
    (fixI key lt a s i).1 = Heap.fix lt a i.toNat := by
  unfold fixI Heap.fix
  rw [if_neg (by omega)]
  simp only []
  obtain ⟨h1, h2⟩ := downI_fst key lt a s i.toNat
  rw [h2]
  by_cases hm : (Heap.down lt a i.toNat).2 > i.toNat
  · rw [if_pos hm, if_pos hm]; exact h1
  · rw [if_neg hm, if_neg hm, upI_fst, h1]

/-! ### stored indices equal positions -/

/-- distinct identities, and every element's stored index is its position -/
structure Ok (key : α → κ) (a : Array α) (s : κ → Int) : Prop where
  inj : ∀ i j (hi : i < a.size) (hj : j < a.size), key a[i] = key a[j] → i = j
  pos : ∀ i (hi : i < a.size), s (key a[i]) = (i : Int)

/-- indices of identities that are not in the heap are left alone -/
def Frame (key : α → κ) (a : Array α) (s s' : κ → Int) : Prop :=
  ∀ k, (∀ i (h : i < a.size), key a[i] ≠ k) → s' k = s k

def tr (i j k : Nat) : Nat := if k = i then j else if k = j then i else k

theorem tr_inj (i j k1 k2 : Nat) (h : tr i j k1 = tr i j k2) : k1 = k2 := by
  unfold tr at h
  split at h <;> split at h <;> (try split at h) <;> (try split at h) <;> omega

theorem tr_lt (i j k n : Nat) (hi : i < n) (hj : j < n) (hk : k < n) : tr i j k < n := by
  unfold tr; split <;> (try split) <;> omega

theorem swap_get_tr (a : Array α) (i j : Nat) (hi : i < a.size) (hj : j < a.size) (k : Nat) (hk : k < a.size) :
    (a.swap i j hi hj)[k]'(by simpa using hk) = a[tr i j k]'(tr_lt i j k _ hi hj hk) := by
  rw [Array.getElem_swap]
  unfold tr
  split
  · rfl
  · split <;> rfl

theorem swapI_ok (key : α → κ) (a : Array α) (s : κ → Int) (i j : Nat) (hi : i < a.size) (hj : j < a.size)
    (h : Ok key a s) :
    Ok key (swapI key a s i j hi hj).1 (swapI key a s i j hi hj).2 ∧ Frame key a s (swapI key a s i j hi hj).2 := by
  have hsz : (a.swap i j hi hj).size = a.size := Array.size_swap
  have hinj : ∀ k1 k2 (h1 : k1 < (a.swap i j hi hj).size) (h2 : k2 < (a.swap i j hi hj).size),
      key (a.swap i j hi hj)[k1] = key (a.swap i j hi hj)[k2] → k1 = k2 := by
    intro k1 k2 h1 h2 he
    rw [swap_get_tr a i j hi hj k1 (by omega), swap_get_tr a i j hi hj k2 (by omega)] at he
    exact tr_inj i j k1 k2 (h.inj _ _ _ _ he)
  refine ⟨⟨hinj, ?_⟩, ?_⟩
  · intro k hk
    replace hk : k < (a.swap i j hi hj).size := hk
    show assign key (assign key s _ _) _ _ (key ((a.swap i j hi hj)[k]'hk)) = _
    unfold assign
    have hi' : i < (a.swap i j hi hj).size := by omega
    have hj' : j < (a.swap i j hi hj).size := by omega
    by_cases hkj : k = j
    · subst hkj; exact if_pos rfl
    · rw [if_neg (fun e => hkj (hinj k j hk hj' e))]
      by_cases hki : k = i
      · subst hki; exact if_pos rfl
      · rw [if_neg (fun e => hki (hinj k i hk hi' e))]
        have hk2 : k < a.size := by omega
        have e : (a.swap i j hi hj)[k]'hk = a[k]'hk2 := by
          rw [Array.getElem_swap, if_neg hki, if_neg hkj]
        rw [e]
        exact h.pos k hk2
  · intro k hk
    show assign key (assign key s _ _) _ _ k = _
    unfold assign
    rw [if_neg, if_neg]
    · rw [swap_get_tr a i j hi hj i hi]; exact fun e => hk _ _ e.symm
    · rw [swap_get_tr a i j hi hj j hj]; exact fun e => hk _ _ e.symm

omit [DecidableEq κ] in
theorem frame_swap_keys (key : α → κ) (a : Array α) (i j : Nat) (hi : i < a.size) (hj : j < a.size) (k : κ)
    (hk : ∀ n (h : n < a.size), key a[n] ≠ k) :
    ∀ n (h : n < (a.swap i j hi hj).size), key (a.swap i j hi hj)[n] ≠ k := by
  intro n hn
  rw [swap_get_tr a i j hi hj n (by simpa using hn)]
  exact hk _ _

theorem upI_ok (key : α → κ) (lt : α → α → Bool) (a : Array α) (s : κ → Int) (i : Nat) (h : Ok key a s) :
    Ok key (upI key lt a s i).1 (upI key lt a s i).2 ∧ Frame key a s (upI key lt a s i).2 := by
  induction i using Nat.strongRecOn generalizing a s with
  | _ i ih =>
    unfold upI
    by_cases h0 : i = 0
    · rw [dif_pos h0]; exact ⟨h, fun _ _ => rfl⟩
    · rw [dif_neg h0]
      by_cases hi : i < a.size
      · rw [dif_pos hi]
        by_cases hlt : lt a[i] a[(i - 1) / 2] = true
        · rw [if_pos hlt]
          obtain ⟨o1, f1⟩ := swapI_ok key a s i ((i - 1) / 2) hi (by omega) h
          obtain ⟨o2, f2⟩ := ih ((i - 1) / 2) (by omega) _ _ o1
          refine ⟨o2, ?_⟩
          intro k hk
          rw [f2 k (frame_swap_keys key a i ((i - 1) / 2) hi (by omega) k hk), f1 k hk]
        · rw [if_neg hlt]; exact ⟨h, fun _ _ => rfl⟩
      · rw [dif_neg hi]; exact ⟨h, fun _ _ => rfl⟩

theorem downI_ok (key : α → κ) (lt : α → α → Bool) (a : Array α) (s : κ → Int) (i : Nat) (h : Ok key a s) :
    Ok key (downI key lt a s i).1.1 (downI key lt a s i).1.2 ∧ Frame key a s (downI key lt a s i).1.2 := by
  induction hn : a.size - i using Nat.strongRecOn generalizing a s i with
  | _ n ih =>
    unfold downI
    by_cases hl : 2 * i + 1 < a.size
    · rw [dif_pos hl]
      have hb := Heap.minChild_bounds lt a i hl
      by_cases hlt : lt (a[Heap.minChild lt a i hl]'hb.1) (a[i]'(by omega)) = true
      · rw [if_pos hlt]
        obtain ⟨o1, f1⟩ := swapI_ok key a s i (Heap.minChild lt a i hl) (by omega) hb.1 h
        obtain ⟨o2, f2⟩ := ih (a.size - Heap.minChild lt a i hl) (by omega) _ _ (Heap.minChild lt a i hl) o1
          (by simp [swapI])
        refine ⟨o2, ?_⟩
        intro k hk
        rw [f2 k (frame_swap_keys key a i _ (by omega) hb.1 k hk), f1 k hk]
      · rw [if_neg hlt]; exact ⟨h, fun _ _ => rfl⟩
    · rw [dif_neg hl]; exact ⟨h, fun _ _ => rfl⟩

/-- `Push` of an element with a fresh identity keeps every stored index equal to the position -/
theorem pushI_ok (key : α → κ) (lt : α → α → Bool) (a : Array α) (s : κ → Int) (x : α) (h : Ok key a s)
    (hfresh : ∀ i (hi : i < a.size), key a[i] ≠ key x) :
    Ok key (pushI key lt a s x).1 (pushI key lt a s x).2 := by
  unfold pushI
  apply (upI_ok key lt _ _ _ _).1
  constructor
  · intro i j hi hj he
    rw [Array.getElem_push, Array.getElem_push] at he
    simp only [Array.size_push] at hi hj
    by_cases h1 : i < a.size
    · by_cases h2 : j < a.size
      · rw [dif_pos h1, dif_pos h2] at he; exact h.inj i j h1 h2 he
      · rw [dif_pos h1, dif_neg h2] at he; exact absurd he (hfresh i h1)
    · by_cases h2 : j < a.size
      · rw [dif_neg h1, dif_pos h2] at he; exact absurd he.symm (hfresh j h2)
      · omega
  · intro i hi
    simp only [Array.size_push] at hi
    rw [Array.getElem_push]
    unfold assign
    by_cases h1 : i < a.size
    · rw [dif_pos h1, if_neg (hfresh i h1)]; exact h.pos i h1
    · rw [dif_neg h1, if_pos rfl]; congr 1; omega

/-- `Pop` keeps the stored indices equal to the positions and leaves the popped element with `-1` -/
theorem popI_ok (key : α → κ) (lt : α → α → Bool) (a : Array α) (s : κ → Int) (h : Ok key a s)
    (x : α) (r : Array α × (κ → Int)) (hp : popI key lt a s = some (x, r)) :
    Ok key r.1 r.2 ∧ r.2 (key x) = -1 := by
  unfold popI at hp
  by_cases h0 : 0 < a.size
  · rw [dif_pos h0] at hp
    simp only [Option.some.injEq, Prod.mk.injEq] at hp
    obtain ⟨hx, hr⟩ := hp
    have hlast : a.size - 1 < a.size := by omega
    by_cases hn : 0 < a.size - 1
    · simp only [hn, if_true] at hr
      -- state before `down(0)`
      have hget : ∀ k (hk : k < ((a.set 0 (a[a.size - 1]'hlast)).pop).size),
          ((a.set 0 (a[a.size - 1]'hlast)).pop)[k] = if k = 0 then a[a.size - 1]'hlast else a[k]'(by simp at hk; omega) := by
        intro k hk
        rw [Array.getElem_pop, Array.getElem_set]
        by_cases hk0 : k = 0
        · simp [hk0]
        · have : ¬ 0 = k := fun e => hk0 e.symm
          simp [hk0, this]
      have hok1 : Ok key ((a.set 0 (a[a.size - 1]'hlast)).pop)
          (assign key (assign key s a[0] (-1)) (a[a.size - 1]'hlast) 0) := by
        constructor
        · intro i j hi hj he
          have hi' : i < a.size - 1 := by simpa using hi
          have hj' : j < a.size - 1 := by simpa using hj
          rw [hget i hi, hget j hj] at he
          by_cases hi0 : i = 0 <;> by_cases hj0 : j = 0
          · omega
          · rw [if_pos hi0, if_neg hj0] at he; have := h.inj _ _ _ _ he; omega
          · rw [if_neg hi0, if_pos hj0] at he; have := h.inj _ _ _ _ he; omega
          · rw [if_neg hi0, if_neg hj0] at he; exact h.inj _ _ _ _ he
        · intro i hi
          have hi' : i < a.size - 1 := by simpa using hi
          rw [hget i hi]
          unfold assign
          by_cases hi0 : i = 0
          · rw [if_pos hi0, if_pos rfl]; omega
          · rw [if_neg hi0]
            rw [if_neg (fun e => by have := h.inj _ _ _ _ e; omega)]
            rw [if_neg (fun e => by have := h.inj _ _ _ _ e; omega)]
            exact h.pos i (by omega)
      obtain ⟨o2, f2⟩ := downI_ok key lt _ _ 0 hok1
      rw [← hr]
      refine ⟨o2, ?_⟩
      rw [f2 (key x)]
      · unfold assign
        rw [← hx]
        rw [if_neg (fun e => by have := h.inj _ _ _ _ e; omega), if_pos rfl]
      · intro i hi
        have hi' : i < a.size - 1 := by simpa using hi
        rw [hget i hi, ← hx]
        by_cases hi0 : i = 0
        · rw [if_pos hi0]; intro e; have := h.inj _ _ _ _ e; omega
        · rw [if_neg hi0]; intro e; have := h.inj _ _ _ _ e; omega
    · simp only [hn, if_false] at hr
      rw [← hr]
      constructor
      · constructor
        · intro i j hi hj; simp at hi; omega
        · intro i hi; simp at hi; omega
      · simp only [assign, ← hx, if_true]
  · rw [dif_neg h0] at hp; cases hp

theorem fixI_ok (key : α → κ) (lt : α → α → Bool) (a : Array α) (s : κ → Int) (i : Int) (h : Ok key a s) :
    Ok key (fixI key lt a s i).1 (fixI key lt a s i).2 := by
  unfold fixI
  by_cases hi : i < 0
  · rw [if_pos hi]; exact h
  · rw [if_neg hi]
    simp only []
    have o1 := (downI_ok key lt a s i.toNat h).1
    split
    · exact o1
    · exact (upI_ok key lt _ _ _ o1).1

/-- under `Ok` the stored index of a member is its position -/
theorem ok_index (key : α → κ) (a : Array α) (s : κ → Int) (h : Ok key a s) (i : Nat) (hi : i < a.size) :
    0 ≤ s (key a[i]) ∧ (s (key a[i])).toNat = i := by
  rw [h.pos i hi]; omega

/-! ### identities outside the heap keep their stored index -/

theorem pushI_frame (key : α → κ) (lt : α → α → Bool) (a : Array α) (s : κ → Int) (x : α) (h : Ok key a s)
    (hfresh : ∀ i (hi : i < a.size), key a[i] ≠ key x) (k : κ) (hkx : k ≠ key x)
    (hk : ∀ i (hi : i < a.size), key a[i] ≠ k) : (pushI key lt a s x).2 k = s k := by
  unfold pushI
  have hok1 : Ok key (a.push x) (assign key s x a.size) := by
    have := pushI_ok key (fun _ _ => false) a s x h hfresh
    unfold pushI at this
    have hu : upI key (fun _ _ => false) (a.push x) (assign key s x a.size) a.size =
        (a.push x, assign key s x a.size) := by
      unfold upI
      by_cases h0 : a.size = 0
      · rw [dif_pos h0]
      · rw [dif_neg h0]; split <;> simp
    rw [hu] at this; exact this
  rw [(upI_ok key lt _ _ _ hok1).2 k]
  · unfold assign; rw [if_neg hkx]
  · intro i hi
    rw [Array.getElem_push]
    split
    · exact hk i _
    · exact fun e => hkx e.symm

theorem popI_frame (key : α → κ) (lt : α → α → Bool) (a : Array α) (s : κ → Int) (h : Ok key a s)
    (x : α) (r : Array α × (κ → Int)) (hp : popI key lt a s = some (x, r)) (k : κ)
    (hk : ∀ i (hi : i < a.size), key a[i] ≠ k) : r.2 k = s k := by
  unfold popI at hp
  by_cases h0 : 0 < a.size
  · rw [dif_pos h0] at hp
    simp only [Option.some.injEq, Prod.mk.injEq] at hp
    obtain ⟨_, hr⟩ := hp
    have hlast : a.size - 1 < a.size := by omega
    have hs2 : ∀ (c : Prop) [Decidable c],
        (if c then assign key (assign key s a[0] (-1)) (a[a.size - 1]'hlast) 0 else assign key s a[0] (-1)) k = s k := by
      intro c _
      split <;> simp only [assign]
      · rw [if_neg (fun e => hk _ hlast e.symm), if_neg (fun e => hk 0 h0 e.symm)]
      · rw [if_neg (fun e => hk 0 h0 e.symm)]
    by_cases hn : 0 < a.size - 1
    · simp only [hn, if_true] at hr
      rw [← hr]
      have hget : ∀ n (hn' : n < ((a.set 0 (a[a.size - 1]'hlast)).pop).size),
          key ((a.set 0 (a[a.size - 1]'hlast)).pop)[n] ≠ k := by
        intro n hn'
        rw [Array.getElem_pop, Array.getElem_set]
        split
        · exact hk _ _
        · exact hk _ _
      -- `Ok` of the intermediate state is part of popI_ok's proof; only the frame of downI is needed here
      have hok1 : Ok key ((a.set 0 (a[a.size - 1]'hlast)).pop)
          (assign key (assign key s a[0] (-1)) (a[a.size - 1]'hlast) 0) := by
        constructor
        · intro i j hi hj he
          have hi' : i < a.size - 1 := by simpa using hi
          have hj' : j < a.size - 1 := by simpa using hj
          rw [Array.getElem_pop, Array.getElem_pop, Array.getElem_set, Array.getElem_set] at he
          by_cases hi0 : 0 = i <;> by_cases hj0 : 0 = j
          · omega
          · rw [if_pos hi0, if_neg hj0] at he; have := h.inj _ _ _ _ he; omega
          · rw [if_neg hi0, if_pos hj0] at he; have := h.inj _ _ _ _ he; omega
          · rw [if_neg hi0, if_neg hj0] at he; exact h.inj _ _ _ _ he
        · intro i hi
          have hi' : i < a.size - 1 := by simpa using hi
          rw [Array.getElem_pop, Array.getElem_set]
          unfold assign
          by_cases hi0 : 0 = i
          · rw [if_pos hi0, if_pos rfl]; omega
          · rw [if_neg hi0]
            rw [if_neg (fun e => by have := h.inj _ _ _ _ e; omega)]
            rw [if_neg (fun e => by have := h.inj _ _ _ _ e; omega)]
            exact h.pos i (by omega)
      rw [(downI_ok key lt _ _ 0 hok1).2 k hget]
      have := hs2 True
      simpa using this
    · simp only [hn, if_false] at hr
      rw [← hr]
      have := hs2 False
      simpa using this
  · rw [dif_neg h0] at hp; cases hp

theorem fixI_frame (key : α → κ) (lt : α → α → Bool) (a : Array α) (s : κ → Int) (i : Int) (h : Ok key a s) (k : κ)
    (hk : ∀ n (hn : n < a.size), key a[n] ≠ k) : (fixI key lt a s i).2 k = s k := by
  unfold fixI
  by_cases hi : i < 0
  · rw [if_pos hi]
  · rw [if_neg hi]
    simp only []
    obtain ⟨o1, f1⟩ := downI_ok key lt a s i.toNat h
    split
    · exact f1 k hk
    · rw [(upI_ok key lt _ _ _ o1).2 k, f1 k hk]
      -- the array after `down` holds the same identities
      intro n hn e
      have hperm : (downI key lt a s i.toNat).1.1.toList.Perm a.toList := by
        rw [(downI_fst key lt a s i.toNat).1]; exact Heap.down_perm lt a i.toNat
      have hm : (downI key lt a s i.toNat).1.1[n] ∈ a.toList := hperm.subset (Array.getElem_mem_toList hn)
      obtain ⟨m, hm1, hm2⟩ := List.getElem_of_mem hm
      simp only [Array.length_toList] at hm1
      simp only [Array.getElem_toList] at hm2
      exact hk m hm1 (by rw [hm2]; exact e)

end Rxn.HeapI
