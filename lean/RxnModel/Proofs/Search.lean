import RxnModel.Model.Search
import RxnModel.Base.BytesOrder
/-! Correctness of the `SearchUnique` loop on inputs whose compare values are sign-sorted (− … − 0? + … +). -/
namespace Rxn.Search
variable {α : Type}

/-- what "sorted without duplicates with respect to the target" means for the compare callback:
an element that is not above the target has only strictly-below elements before it -/
def SignSorted (xs : Array α) (c : α → Int) : Prop :=
  ∀ i j (_ : i < j) (hj : j < xs.size), c xs[j] ≤ 0 → c (xs[i]'(by omega)) < 0

theorem go_spec (xs : Array α) (c : α → Int) (hs : SignSorted xs c) (low high : Nat) (hh : high ≤ xs.size)
    (hlow : ∀ i (h : i < xs.size), i < low → c xs[i] < 0)
    (hhigh : ∀ i (h : i < xs.size), high ≤ i → 0 < c xs[i]) :
    (∀ r, go xs c low high = some r → ∃ h : r < xs.size, c xs[r] = 0) ∧
    (go xs c low high = none → ∀ i (h : i < xs.size), c xs[i] ≠ 0) := by
  induction hn : high - low using Nat.strongRecOn generalizing low high with
  | _ n ih =>
    unfold go
    by_cases hlh : low < high
    · simp only [hlh, dite_true]
      have hi : (low + high) / 2 < xs.size := by omega
      simp only [hi, dite_true]
      by_cases hv0 : c xs[(low + high) / 2] = 0
      · simp only [hv0, if_true]
        constructor
        · intro r hr; cases hr; exact ⟨hi, hv0⟩
        · intro h; cases h
      · simp only [hv0, if_false]
        by_cases hneg : c xs[(low + high) / 2] < 0
        · simp only [hneg, if_true]
          refine ih (high - ((low + high) / 2 + 1)) (by omega) _ high hh ?_ hhigh rfl
          intro k hk hlt
          by_cases hke : k = (low + high) / 2
          · subst hke; exact hneg
          · exact hs k ((low + high) / 2) (by omega) hi (by omega)
        · simp only [hneg, if_false]
          refine ih ((low + high) / 2 - low) (by omega) low _ (by omega) hlow ?_ rfl
          intro k hk hge
          by_cases hke : k = (low + high) / 2
          · subst hke; omega
          · apply Int.lt_of_not_ge
            intro hle
            have := hs ((low + high) / 2) k (by omega) hk hle
            omega
    · simp only [hlh, dite_false]
      constructor
      · intro r hr; cases hr
      · intro _ i hi
        by_cases hil : i < low
        · have := hlow i hi hil; omega
        · have := hhigh i hi (by omega); omega

theorem searchUnique_sound (xs : Array α) (c : α → Int) (hs : SignSorted xs c) (r : Nat)
    (h : searchUnique xs c = some r) : ∃ hr : r < xs.size, c xs[r] = 0 :=
  (go_spec xs c hs 0 xs.size (Nat.le_refl _) (fun _ _ h => absurd h (Nat.not_lt_zero _))
    (fun i h h2 => absurd h (by omega))).1 r h

theorem searchUnique_complete (xs : Array α) (c : α → Int) (hs : SignSorted xs c)
    (h : searchUnique xs c = none) : ∀ i (hi : i < xs.size), c xs[i] ≠ 0 :=
  (go_spec xs c hs 0 xs.size (Nat.le_refl _) (fun _ _ h => absurd h (Nat.not_lt_zero _))
    (fun i h h2 => absurd h (by omega))).2 h

/-- at most one element compares equal -/
theorem signSorted_unique (xs : Array α) (c : α → Int) (hs : SignSorted xs c) (i j : Nat)
    (hi : i < xs.size) (hj : j < xs.size) (h1 : c xs[i] = 0) (h2 : c xs[j] = 0) : i = j := by
  by_cases hij : i < j
  · have := hs i j hij hj (by omega); omega
  · by_cases hji : j < i
    · have := hs j i hji hi (by omega); omega
    · omega

theorem searchUnique_iff (xs : Array α) (c : α → Int) (hs : SignSorted xs c) (r : Nat) :
    searchUnique xs c = some r ↔ ∃ hr : r < xs.size, c xs[r] = 0 := by
  constructor
  · exact searchUnique_sound xs c hs r
  · rintro ⟨hr, h0⟩
    cases hq : searchUnique xs c with
    | none => exact absurd h0 (searchUnique_complete xs c hs hq r hr)
    | some q =>
      obtain ⟨hq1, hq2⟩ := searchUnique_sound xs c hs q hq
      rw [signSorted_unique xs c hs q r hq1 hr hq2 h0]

/-! instances -/

theorem cmpInt_neg {a b : Bytes} : cmpInt a b < 0 ↔ Bytes.cmp a b = .lt := by
  unfold cmpInt; cases Bytes.cmp a b <;> simp
theorem cmpInt_zero {a b : Bytes} : cmpInt a b = 0 ↔ a = b := by
  rw [← Bytes.cmp_eq_iff]; unfold cmpInt; cases Bytes.cmp a b <;> simp
theorem cmpInt_pos {a b : Bytes} : 0 < cmpInt a b ↔ Bytes.cmp a b = .gt := by
  unfold cmpInt; cases Bytes.cmp a b <;> simp
theorem cmpInt_nonpos {a b : Bytes} : cmpInt a b ≤ 0 ↔ Bytes.cmp a b ≠ .gt := by
  unfold cmpInt; cases Bytes.cmp a b <;> simp

/-- `a ≤ b` and `b < c` give `a < c` for `bytes.Compare` -/
theorem cmp_le_lt_trans {a b c : Bytes} (h1 : Bytes.cmp a b ≠ .gt) (h2 : Bytes.cmp b c = .lt) : Bytes.cmp a c = .lt := by
  cases h : Bytes.cmp a b with
  | lt => exact Bytes.cmp_lt_trans h h2
  | eq => rw [Bytes.cmp_eq_iff.mp h]; exact h2
  | gt => exact absurd h h1

theorem cmp_lt_le_trans {a b c : Bytes} (h1 : Bytes.cmp a b = .lt) (h2 : Bytes.cmp b c ≠ .gt) : Bytes.cmp a c = .lt := by
  cases h : Bytes.cmp b c with
  | lt => exact Bytes.cmp_lt_trans h1 h
  | eq => rw [← Bytes.cmp_eq_iff.mp h]; exact h1
  | gt => exact absurd h h2

/-- strictly ascending keys are sign-sorted for every target -/
theorem signSorted_bytes (xs : Array Bytes) (t : Bytes)
    (hasc : ∀ i j (_ : i < j) (hj : j < xs.size), Bytes.cmp (xs[i]'(by omega)) xs[j] = .lt) :
    SignSorted xs (fun x => cmpInt x t) := by
  intro i j hij hj hle
  exact cmpInt_neg.mpr (cmp_lt_le_trans (hasc i j hij hj) (cmpInt_nonpos.mp hle))

/-- a level: every table has `start ≤ end`, and tables are disjoint and ascending (`end_i < start_j` for `i < j`) -/
def LevelOk (ts : Array (Bytes × Bytes)) : Prop :=
  (∀ i (h : i < ts.size), Bytes.cmp ts[i].1 ts[i].2 ≠ .gt) ∧
  (∀ i j (_ : i < j) (hj : j < ts.size), Bytes.cmp (ts[i]'(by omega)).2 ts[j].1 = .lt)

theorem rangeKeyCompare_nonpos {s e k : Bytes} : Gen.tblRangeKeyCompare s e k ≤ 0 ↔ Bytes.cmp s k ≠ .gt := by
  unfold Gen.tblRangeKeyCompare cmpInt
  cases Bytes.cmp s k <;> cases Bytes.cmp e k <;> simp

theorem rangeKeyCompare_neg {s e k : Bytes} (hse : Bytes.cmp s e ≠ .gt) :
    Gen.tblRangeKeyCompare s e k < 0 ↔ Bytes.cmp e k = .lt := by
  constructor
  · unfold Gen.tblRangeKeyCompare cmpInt
    cases Bytes.cmp s k <;> cases Bytes.cmp e k <;> simp
  · intro h
    have hs : Bytes.cmp s k = .lt := cmp_le_lt_trans hse h
    unfold Gen.tblRangeKeyCompare cmpInt
    rw [hs, h]; simp

theorem rangeKeyCompare_zero {s e k : Bytes} :
    Gen.tblRangeKeyCompare s e k = 0 ↔ Gen.tblRangeContainsKey s e k = true := by
  unfold Gen.tblRangeKeyCompare Gen.tblRangeContainsKey cmpInt
  cases Bytes.cmp s k <;> cases Bytes.cmp e k <;> simp

theorem signSorted_level (ts : Array (Bytes × Bytes)) (key : Bytes) (h : LevelOk ts) :
    SignSorted ts (fun t => Gen.tblRangeKeyCompare t.1 t.2 key) := by
  intro i j hij hj hle
  have hi : i < ts.size := by omega
  show Gen.tblRangeKeyCompare ts[i].1 ts[i].2 key < 0
  rw [rangeKeyCompare_neg (h.1 i hi)]
  exact cmp_lt_le_trans (h.2 i j hij hj) (rangeKeyCompare_nonpos.mp hle)

end Rxn.Search
