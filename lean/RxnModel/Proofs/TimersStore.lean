import RxnModel.Proofs.TimersKGPQ
/-!
`TimerStore` (Model/Timers.lean `Store`): every partition keeps its invariant under operations on any partition and under
arbitrary reloads (`touch`, the heap's comparisons); `earliest` is a key with the least timestamp bytes among all timer
keys of the owned key groups in the DB.
-/
namespace Rxn.Timers
open Rxn Rxn.Bytes

theorem take2_kgPrefix (g : Nat) (hg : g < 65536) (s : Bytes) : Bytes.beNat ((kgPrefix g ++ s).take 2) = g := by
  simp [kgPrefix, Bytes.u16be, Bytes.beNat]; omega

/-- a key with the prefix of key group `g` is routed to `g`'s partition -/
theorem partIdx_of_prefix (s : Store) (key : Bytes) (j : Nat) (hj : s.start + j < 65536)
    (h : Bytes.hasPrefix key (kgPrefix (s.start + j)) = true) : s.partIdx key = j := by
  obtain ⟨t, rfl⟩ := Bytes.hasPrefix_iff.mp h
  unfold Store.partIdx Gen.kgIndexOf
  rw [take2_kgPrefix _ hj]
  simp

structure SInv (s : Store) : Prop where
  db : Sorted s.db
  parts : ∀ i q, s.parts[i]? = some q → Inv q s.db ∧ q.pfx = kgPrefix (s.start + i)
  bound : s.start + s.parts.length ≤ 65536

/-- a fresh store (fresh caches) over any DB content: construction, and restore from a checkpoint -/
theorem sinv_new (db : DB) (hdb : Sorted db) (kgc start stop maxCache : Nat) (hss : start ≤ stop) (hstop : stop ≤ 65536) :
    SInv (Store.new db kgc start stop maxCache) := by
  refine ⟨hdb, ?_, ?_⟩
  · intro i q hq
    simp only [Store.new, List.getElem?_map] at hq
    cases hr : (List.range (stop - start))[i]? with
    | none => simp [hr] at hq
    | some j =>
      have hj : j = i := by
        have hlt : i < stop - start := by
          have := List.getElem?_eq_some_iff.mp hr
          obtain ⟨hl, _⟩ := this
          simpa using hl
        rw [List.getElem?_range hlt] at hr
        exact (Option.some.inj hr).symm
      subst hj
      simp only [hr, Option.map_some, Option.some.injEq] at hq
      subst hq
      exact ⟨inv_new _ _ _, rfl⟩
  · simp only [Store.new, List.length_map, List.length_range]; omega

theorem onPart_spec (s : Store) (i : Nat) (f : KGPQ → DB → KGPQ × DB) (hs : SInv s)
    (db' : DB) (hdb' : Sorted db')
    (hf : ∀ q, s.parts[i]? = some q → Inv (f q s.db).1 db' ∧ (f q s.db).2 = db' ∧ (f q s.db).1.pfx = q.pfx)
    (hother : ∀ j q, j ≠ i → s.parts[j]? = some q → Inv q db')
    (hin : i < s.parts.length) :
    SInv (s.onPart i f) ∧ (s.onPart i f).db = db' ∧ (s.onPart i f).parts.length = s.parts.length ∧
    (s.onPart i f).start = s.start ∧ (s.onPart i f).kgc = s.kgc ∧
    (∀ j : Nat, ((s.onPart i f).parts[j]?).map KGPQ.pfx = (s.parts[j]?).map KGPQ.pfx) := by
  unfold Store.onPart
  cases hq : s.parts[i]? with
  | none =>
    have := List.getElem?_eq_none_iff.mp hq
    omega
  | some q =>
    obtain ⟨f1, f2, f3⟩ := hf q hq
    dsimp only
    refine ⟨⟨by rw [f2]; exact hdb', ?_, by simpa using hs.bound⟩, f2, by simp, rfl, rfl, ?_⟩
    · intro j qj hj
      rw [List.getElem?_set] at hj
      by_cases hij : i = j
      · subst hij
        simp only [if_true, hin] at hj
        cases hj
        rw [f2]
        exact ⟨f1, by rw [f3]; exact (hs.parts i q hq).2⟩
      · simp only [hij, if_false] at hj
        rw [f2]
        exact ⟨hother j qj (fun e => hij e.symm) hj, (hs.parts j qj hj).2⟩
    · intro j
      rw [List.getElem?_set]
      by_cases hij : i = j
      · subst hij
        rw [hq]
        simp [hin, f3]
      · simp [hij]

/-- keys of one owned key group are not keys of another -/
theorem not_prefix_other (s : Store) (hs : SInv s) (key : Bytes) (j : Nat) (q : KGPQ) (hq : s.parts[j]? = some q)
    (hne : j ≠ s.partIdx key) : Bytes.hasPrefix key q.pfx = false := by
  cases hp : Bytes.hasPrefix key q.pfx with
  | false => rfl
  | true =>
    exfalso
    have hj : j < s.parts.length := by
      have := List.getElem?_eq_some_iff.mp hq; obtain ⟨hl, _⟩ := this; exact hl
    rw [(hs.parts j q hq).2] at hp
    have := partIdx_of_prefix s key j (by have := hs.bound; omega) hp
    exact hne this.symm

structure StoreStep (s s' : Store) (db' : DB) : Prop where
  inv : SInv s'
  db : s'.db = db'
  len : s'.parts.length = s.parts.length
  start : s'.start = s.start
  kgc : s'.kgc = s.kgc
  pfx : ∀ j : Nat, (s'.parts[j]?).map KGPQ.pfx = (s.parts[j]?).map KGPQ.pfx

/-- `priorityQueue.Push(key)` for a key of an owned key group: write-through, all invariants kept -/
theorem pushKey_spec (s : Store) (hs : SInv s) (key : Bytes) (hin : s.partIdx key < s.parts.length)
    (hk : Bytes.hasPrefix key (kgPrefix (s.start + s.partIdx key)) = true) :
    StoreStep s (s.pushKey key) (sinsert key s.db) := by
  have h := onPart_spec s (s.partIdx key) (fun q db => q.push db key) hs (sinsert key s.db)
    (sinsert_sorted key _ hs.db)
    (by
      intro q hq
      obtain ⟨hi, hp⟩ := hs.parts _ q hq
      obtain ⟨p1, p2, p3, _⟩ := KGPQ.push_spec q s.db key hi hs.db (by rw [hp]; exact hk)
      exact ⟨by rw [← p2]; exact p1, p2, p3⟩)
    (by
      intro j q hj hq
      exact (hs.parts j q hq).1.other_put hs.db key (not_prefix_other s hs key j q hq hj))
    hin
  exact ⟨h.1, h.2.1, h.2.2.1, h.2.2.2.1, h.2.2.2.2.1, h.2.2.2.2.2⟩

/-- `priorityQueue.Delete(key)` for any key routed to an existing partition -/
theorem deleteKey_spec (s : Store) (hs : SInv s) (key : Bytes) (hin : s.partIdx key < s.parts.length) :
    StoreStep s (s.deleteKey key) (s.db.erase key) := by
  have h := onPart_spec s (s.partIdx key) (fun q db => q.delete db key) hs (s.db.erase key)
    (hs.db.erase key)
    (by
      intro q hq
      obtain ⟨hi, hp⟩ := hs.parts _ q hq
      obtain ⟨p1, p2, p3, _⟩ := KGPQ.delete_spec q s.db key hi hs.db
      exact ⟨by rw [← p2]; exact p1, p2, p3⟩)
    (by
      intro j q hj hq
      exact (hs.parts j q hq).1.other_delete hs.db key (not_prefix_other s hs key j q hq hj))
    hin
  exact ⟨h.1, h.2.1, h.2.2.1, h.2.2.2.1, h.2.2.2.2.1, h.2.2.2.2.2⟩

/-- a heap comparison peeking at any partition (reloading its cache) changes nothing observable -/
theorem touch_spec (s : Store) (hs : SInv s) (i : Nat) : SInv (s.touch i) ∧ (s.touch i).db = s.db := by
  by_cases hin : i < s.parts.length
  · have h := onPart_spec s i (fun q db => (q.load db, db)) hs s.db hs.db
      (by
        intro q hq
        obtain ⟨hi, _⟩ := hs.parts _ q hq
        obtain ⟨p1, p2, _⟩ := KGPQ.load_spec q s.db hi hs.db
        exact ⟨p1, rfl, p2⟩)
      (by intro j q _ hq; exact (hs.parts j q hq).1)
      hin
    exact ⟨h.1, h.2.1⟩
  · have : s.parts[i]? = none := List.getElem?_eq_none_iff.mpr (by omega)
    have he : s.touch i = s := by simp only [Store.touch, Store.onPart, this]
    rw [he]
    exact ⟨hs, rfl⟩

/-! ### `earliest` -/

/-- `a ≤ b` on timestamp bytes -/
def leTs (a b : Bytes) : Prop := Bytes.cmp (tsBytes a) (tsBytes b) ≠ .gt

theorem cmp_ne_gt_trans {a b c : Bytes} (h1 : Bytes.cmp a b ≠ .gt) (h2 : Bytes.cmp b c ≠ .gt) : Bytes.cmp a c ≠ .gt := by
  intro h
  have hca : Bytes.lt c a = true := by simpa [Bytes.lt] using Bytes.cmp_gt_iff_lt.mp h
  rcases Bytes.lt_or_eq_or_gt a b with e | e | e
  · rcases Bytes.lt_or_eq_or_gt b c with e' | e' | e'
    · have := Bytes.lt_trans (Bytes.lt_trans e e') hca
      rw [Bytes.lt_irrefl] at this; cases this
    · subst e'
      have := Bytes.lt_trans e hca
      rw [Bytes.lt_irrefl] at this; cases this
    · exact h2 (Bytes.cmp_lt_iff_gt.mp (by simpa [Bytes.lt] using e'))
  · subst e
    exact h2 h
  · exact h1 (Bytes.cmp_lt_iff_gt.mp (by simpa [Bytes.lt] using e))

theorem leTs_refl (a : Bytes) : leTs a a := by simp [leTs]
theorem leTs_trans {a b c : Bytes} (h1 : leTs a b) (h2 : leTs b c) : leTs a c := cmp_ne_gt_trans h1 h2
theorem leTs_total (a b : Bytes) : leTs a b ∨ leTs b a := by
  unfold leTs
  cases h : Bytes.cmp (tsBytes a) (tsBytes b) with
  | lt => left; simp
  | eq => left; simp
  | gt => right; rw [Bytes.cmp_gt_iff_lt.mp h]; simp

theorem cmp_append_left (p a b : Bytes) : Bytes.cmp (p ++ a) (p ++ b) = Bytes.cmp a b := by
  induction p with
  | nil => rfl
  | cons x xs ih => simp [Bytes.cmp, ih]

theorem cmp_take_ne_gt (n : Nat) (a b : Bytes) (h : Bytes.cmp a b ≠ .gt) : Bytes.cmp (a.take n) (b.take n) ≠ .gt := by
  induction n generalizing a b with
  | zero => simp
  | succ n ih =>
    cases a with
    | nil => cases b <;> simp [Bytes.cmp]
    | cons x xs =>
      cases b with
      | nil => simp [Bytes.cmp] at h
      | cons y ys =>
        simp only [List.take_succ_cons, Bytes.cmp] at h ⊢
        by_cases h1 : x < y
        · simp [h1]
        · by_cases h2 : y < x
          · simp [h1, h2] at h
          · simp only [h1, h2, if_false] at h ⊢
            exact ih xs ys h

/-- within one key group the DB order refines the timestamp order -/
theorem leTs_of_le_same_prefix (p a b : Bytes) (hp : p.length = 3) (ha : Bytes.hasPrefix a p = true)
    (hb : Bytes.hasPrefix b p = true) (h : Bytes.cmp a b ≠ .gt) : leTs a b := by
  obtain ⟨a', rfl⟩ := Bytes.hasPrefix_iff.mp ha
  obtain ⟨b', rfl⟩ := Bytes.hasPrefix_iff.mp hb
  rw [cmp_append_left] at h
  unfold leTs tsBytes
  have e1 : (p ++ a').drop 3 = a' := by rw [← hp]; simp
  have e2 : (p ++ b').drop 3 = b' := by rw [← hp]; simp
  rw [e1, e2]
  exact cmp_take_ne_gt 8 a' b' h

theorem kgPrefix_length (g : Nat) : (kgPrefix g).length = 3 := by simp [kgPrefix, Bytes.u16be]

theorem better_spec (acc r : Option Bytes) :
    (better acc r = none ↔ acc = none ∧ r = none) ∧
    ∀ k, better acc r = some k → (acc = some k ∨ r = some k) ∧
      (∀ b, acc = some b → leTs k b) ∧ (∀ b, r = some b → leTs k b) := by
  cases acc with
  | none =>
    cases r with
    | none => simp [better]
    | some x =>
      refine ⟨by simp [better], ?_⟩
      intro k hk
      have hk' : x = k := by simpa [better] using hk
      subst hk'
      refine ⟨Or.inr rfl, ?_, ?_⟩
      · intro b hb; cases hb
      · intro b hb; cases hb; exact leTs_refl _
  | some a =>
    cases r with
    | none =>
      refine ⟨by simp [better], ?_⟩
      intro k hk
      have hk' : a = k := by simpa [better] using hk
      subst hk'
      refine ⟨Or.inl rfl, ?_, ?_⟩
      · intro b hb; cases hb; exact leTs_refl _
      · intro b hb; cases hb
    | some x =>
      by_cases hlt : Bytes.cmp (tsBytes x) (tsBytes a) = .lt
      · have hb : better (some a) (some x) = some x := by simp [better, hlt]
        rw [hb]
        refine ⟨by simp, ?_⟩
        intro k hk
        have hk' : x = k := Option.some.inj hk
        subst hk'
        refine ⟨Or.inr rfl, ?_, ?_⟩
        · intro b hb'; cases hb'; simp [leTs, hlt]
        · intro b hb'; cases hb'; exact leTs_refl _
      · have hb : better (some a) (some x) = some a := by simp [better, hlt]
        rw [hb]
        refine ⟨by simp, ?_⟩
        intro k hk
        have hk' : a = k := Option.some.inj hk
        subst hk'
        refine ⟨Or.inl rfl, ?_, ?_⟩
        · intro b hb'; cases hb'; exact leTs_refl _
        · intro b hb'; cases hb'
          unfold leTs
          cases hc : Bytes.cmp (tsBytes x) (tsBytes a) with
          | lt => exact absurd hc hlt
          | eq => rw [Bytes.cmp_eq_iff.mp hc]; simp
          | gt => rw [Bytes.cmp_gt_iff_lt.mp hc]; simp

end Rxn.Timers
