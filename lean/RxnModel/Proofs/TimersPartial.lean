import RxnModel.Proofs.TimersFire
/-!
# `AdvanceWatermark` consumed in two pieces

`fireLoop comp n` with fuel `n` is the iterator of `TimerRegistry.AdvanceWatermark` whose consumer stops after `n` timers
(the code deletes a timer before it yields it, so a consumer that stops has taken exactly the timers that are gone).
A stopped iteration followed by another iteration for the same composite watermark hands out what one drained iteration
hands out, each timer once.
-/
namespace Rxn.Timers

theorem fireLoop_stuck_none (comp : Int) (s : Store) (h : s.earliest = none) (b : Nat) :
    fireLoop comp b s = (s, []) := by
  cases b with
  | zero => rfl
  | succ b => simp [fireLoop, h]

theorem fireLoop_stuck_cond (comp : Int) (s : Store) (k : Bytes) (h : s.earliest = some k)
    (hc : Wm.timeCond Facts.fireStopCond (timerOf k).2 comp = true) (b : Nat) :
    fireLoop comp b s = (s, []) := by
  cases b with
  | zero => rfl
  | succ b => simp [fireLoop, h, hc]

theorem fireLoop_split (comp : Int) (a b : Nat) (s : Store) :
    fireLoop comp (a + b) s =
      ((fireLoop comp b (fireLoop comp a s).1).1, (fireLoop comp a s).2 ++ (fireLoop comp b (fireLoop comp a s).1).2) := by
  induction a generalizing s with
  | zero => simp [fireLoop]
  | succ a ih =>
    rw [Nat.add_right_comm]
    cases h : s.earliest with
    | none =>
      simp [fireLoop, h, fireLoop_stuck_none comp s h b]
    | some k =>
      by_cases hc : Wm.timeCond Facts.fireStopCond (timerOf k).2 comp = true
      · simp [fireLoop, h, hc, fireLoop_stuck_cond comp s k h hc b]
      · simp [fireLoop, h, hc, ih (s.deleteKey k)]

end Rxn.Timers

namespace Rxn.Timers

theorem fireLoop_inv (comp : Int) (n : Nat) (s : Store) (hs : SInv s) : SInv (fireLoop comp n s).1 := by
  induction n generalizing s with
  | zero => simpa [fireLoop] using hs
  | succ n ih =>
    simp only [fireLoop]
    cases he : s.earliest with
    | none => exact hs
    | some k0 =>
      dsimp only
      by_cases hstop : Wm.timeCond Facts.fireStopCond (timerOf k0).2 comp = true
      · rw [if_pos hstop]; exact hs
      · rw [if_neg hstop]
        obtain ⟨hk0mem, _⟩ := (earliest_spec s hs).2 k0 he
        obtain ⟨_, hk0own⟩ := (mem_timerKeys s k0).mp hk0mem
        obtain ⟨hidx, _⟩ := partIdx_of_owns s hs k0 hk0own
        exact ih _ (deleteKey_spec s hs k0 hidx).inv

/-- fuel beyond the number of keys in the DB changes nothing -/
theorem fireLoop_saturated (comp : Int) (a b : Nat) (s : Store) (hs : SInv s) (ha : s.db.length < a) :
    fireLoop comp (a + b) s = fireLoop comp a s := by
  obtain ⟨keys, ok⟩ := fireLoop_spec comp a s hs ha
  rw [fireLoop_split]
  rcases ok.stopped with h | ⟨k, h, hk⟩
  · rw [fireLoop_stuck_none comp _ h b]; simp
  · have hc : Wm.timeCond Facts.fireStopCond (timerOf k).2 comp = true := by
      simp only [Wm.timeCond, Facts.fireStopCond, decide_eq_true_eq]; omega
    rw [fireLoop_stuck_cond comp _ k h hc b]; simp

/-- a consumer that stops after `k` timers, followed by a drained iteration for the same composite watermark: the store
ends where one drained iteration leaves it, and the timers handed out by the two are those of the drained iteration,
in its order, each once -/
theorem fireLoop_partial_then_drain (comp : Int) (k : Nat) (s : Store) (hs : SInv s) :
    let p := fireLoop comp k s
    let d := fireLoop comp (p.1.db.length + 1) p.1
    fireLoop comp (s.db.length + 1) s = (d.1, p.2 ++ d.2) := by
  intro p d
  have hp : SInv p.1 := fireLoop_inv comp k s hs
  have h1 : fireLoop comp (s.db.length + 1) s = fireLoop comp ((s.db.length + 1) + (k + (p.1.db.length + 1))) s :=
    (fireLoop_saturated comp _ _ s hs (Nat.lt_succ_self _)).symm
  have h2 : (s.db.length + 1) + (k + (p.1.db.length + 1)) = k + ((p.1.db.length + 1) + (s.db.length + 1)) := by omega
  rw [h1, h2, fireLoop_split]
  have h3 : fireLoop comp ((p.1.db.length + 1) + (s.db.length + 1)) p.1 = d :=
    fireLoop_saturated comp _ _ p.1 hp (Nat.lt_succ_self _)
  show (_, _) = _
  rw [h3]

end Rxn.Timers

namespace Rxn.Wm
theorem Ups.set_set_same (u : Ups) (id : String) (v : Int) : (u.set id v).set id v = u.set id v := by
  induction u with
  | nil => simp [Ups.set]
  | cons p rest ih =>
    obtain ⟨k, x⟩ := p
    by_cases h : k = id
    · simp [Ups.set, h]
    · simp [Ups.set, h, ih]

/-- reporting the same watermark of the same sender again leaves the map and the composite watermark as they are -/
theorem Ups.report_idem (u : Ups) (sender : String) (wm : Int) :
    (u.report sender wm).1.report sender wm = u.report sender wm := by
  simp [Ups.report, Ups.set_set_same]
end Rxn.Wm
