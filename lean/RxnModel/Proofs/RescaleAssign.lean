import RxnModel.Model.Rescale
import RxnModel.Proofs.KeySpace
/-! Helper lemmas for C06: the `AssignRanges` loop. -/
namespace Rxn.Rescale
open Rxn Lsm KeySpace

theorem mem_assignLoop (t : KGRange) : ∀ (fs : List KGRange) (b j : Nat),
    j ∈ assignLoop t fs b ↔ b ≤ j ∧ ∃ f, fs[j - b]? = some f ∧ t.overlaps f = true := by
  intro fs
  induction fs with
  | nil => intro b j; simp [assignLoop]
  | cons f fs ih =>
    intro b j
    have hstep : ∀ (h : b < j), (f :: fs)[j - b]? = fs[j - (b + 1)]? := by
      intro h
      have : j - b = (j - (b + 1)) + 1 := by omega
      rw [this]; rfl
    unfold assignLoop
    by_cases ho : t.overlaps f = true
    · simp only [ho, if_true, List.mem_cons]
      rw [ih (b + 1) j]
      constructor
      · rintro (h | ⟨h1, f', h2, h3⟩)
        · subst h; exact ⟨Nat.le_refl _, f, by simp, ho⟩
        · exact ⟨by omega, f', by rw [hstep (by omega)]; exact h2, h3⟩
      · rintro ⟨h1, f', h2, h3⟩
        by_cases hj : j = b
        · exact Or.inl hj
        · exact Or.inr ⟨by omega, f', by rw [← hstep (by omega)]; exact h2, h3⟩
    · have ho' : t.overlaps f = false := by simpa using ho
      simp only [ho', Bool.false_eq_true, if_false]
      rw [ih (b + 1) j]
      constructor
      · rintro ⟨h1, f', h2, h3⟩
        exact ⟨by omega, f', by rw [hstep (by omega)]; exact h2, h3⟩
      · rintro ⟨h1, f', h2, h3⟩
        by_cases hj : j = b
        · subst hj; simp at h2; subst h2; exact absurd h3 ho
        · exact ⟨by omega, f', by rw [← hstep (by omega)]; exact h2, h3⟩

theorem assignRanges_get (to frm : List KGRange) (i : Nat) (t : KGRange) (ht : to[i]? = some t) :
    (assignRanges to frm)[i]? = some (assignLoop t frm 0) := by
  simp [assignRanges, ht]

theorem assignRanges_length (to frm : List KGRange) : (assignRanges to frm).length = to.length := by
  simp [assignRanges]

/-- two ranges that include the same key group overlap -/
theorem overlaps_of_includes (a b : KGRange) (g : Nat) (ha : a.includes g = true) (hb : b.includes g = true) :
    a.overlaps b = true := by
  simp [KGRange.includes, Gen.kgIncludes] at ha hb
  simp [KGRange.overlaps, Gen.kgOverlaps]
  omega

/-- the range of `ranges kgc m` that includes a key group below the count -/
theorem owner_exists (kgc m g : Nat) (hm : 0 < m) (hg : g < kgc) :
    ∃ r, r ∈ ranges kgc m ∧ r.includes g = true := by
  obtain ⟨i, hi, h1, h2⟩ := exists_range kgc m g (by rw [startOf_n kgc m hm]; exact hg)
  refine ⟨⟨startOf kgc m i, startOf kgc m (i + 1)⟩, ?_, ?_⟩
  · exact List.mem_of_getElem? (ranges_get kgc m i hi)
  · simp [KGRange.includes, Gen.kgIncludes]; omega

end Rxn.Rescale
