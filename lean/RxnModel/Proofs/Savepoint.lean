import RxnModel.Model.Savepoint
import Std.Data.String.ToNat
/-! Helper lemmas for C14 (savepoint artifacts). Core and Std only. -/
namespace Rxn.Savepoint

theorem jobIdOf_jobURI (id : Nat) : jobIdOf (jobURI id) = some id := by
  simp [jobIdOf, jobURI, Nat.toNat?_repr]

/-- every job snapshot file in the storage has an id at most `newestLocalId` -/
theorem le_newestLocalId (id : Nat) : ∀ (fs : FS) (c : Content), read fs (.work (jobURI id)) = some c →
    id ≤ newestLocalId fs := by
  intro fs
  induction fs with
  | nil => intro c h; simp [read] at h
  | cons e r ih =>
    intro c h
    obtain ⟨q, c'⟩ := e
    by_cases hq : q = .work (jobURI id)
    · subst hq
      simp only [newestLocalId, jobIdOf_jobURI]
      exact Nat.le_max_left _ _
    · have hr : read r (.work (jobURI id)) = some c := by simpa [read, hq] using h
      have := ih c hr
      cases q with
      | work u =>
        simp only [newestLocalId]
        split
        · exact Nat.le_trans this (Nat.le_max_right _ _)
        · exact this
      | sp i d b => simpa [newestLocalId] using this
      | spJob i => simpa [newestLocalId] using this

theorem read_write_eq (p : Path) (c : Content) (fs : FS) : read (write p c fs) p = some c := by
  simp [write, read]

theorem read_write_ne {q p : Path} (c : Content) (fs : FS) (h : q ≠ p) : read (write q c fs) p = read fs p := by
  simp [write, read, h]

theorem read_wipe_work (fs : FS) (u : URI) : read (wipe fs) (.work u) = none := by
  induction fs with
  | nil => rfl
  | cons e r ih =>
    obtain ⟨q, c⟩ := e
    cases q with
    | work v => simpa [wipe, List.filter, Path.isWork] using ih
    | sp i d b => simp only [wipe, List.filter, Path.isWork, Bool.not_false] at ih ⊢; simp [read, ih]
    | spJob i => simp only [wipe, List.filter, Path.isWork, Bool.not_false] at ih ⊢; simp [read, ih]

theorem read_wipe_sp (fs : FS) (p : Path) (h : p.isWork = false) : read (wipe fs) p = read fs p := by
  induction fs with
  | nil => rfl
  | cons e r ih =>
    obtain ⟨q, c⟩ := e
    cases q with
    | work v =>
      have hne : Path.work v ≠ p := by intro hh; subst hh; simp [Path.isWork] at h
      simp only [wipe, List.filter, Path.isWork, Bool.not_true] at ih ⊢
      simp [read, hne, ih]
    | sp i d b =>
      simp only [wipe, List.filter, Path.isWork, Bool.not_false] at ih ⊢
      simp only [read, ih]
    | spJob i =>
      simp only [wipe, List.filter, Path.isWork, Bool.not_false] at ih ⊢
      simp only [read, ih]

theorem read_remove_ne {q p : Path} (fs : FS) (h : q ≠ p) : read (remove q fs) p = read fs p := by
  induction fs with
  | nil => rfl
  | cons e r ih =>
    obtain ⟨k, c⟩ := e
    by_cases hk : k = q
    · subst hk; simp [remove, read, h, ih]
    · simp [remove, read, hk, ih]

theorem read_remove_eq (p : Path) (fs : FS) : read (remove p fs) p = none := by
  induction fs with
  | nil => rfl
  | cons e r ih =>
    obtain ⟨k, c⟩ := e
    by_cases hk : k = p
    · subst hk; simp [remove, ih]
    · simp [remove, read, hk, ih]

/-- every existing savepoint has an id at most `newestSavepointId` -/
theorem le_newestSavepointId (id : Nat) : ∀ (fs : FS) (c : Content), read fs (.spJob id) = some c →
    id ≤ newestSavepointId fs := by
  intro fs
  induction fs with
  | nil => intro c h; simp [read] at h
  | cons e r ih =>
    intro c h
    obtain ⟨q, c'⟩ := e
    by_cases hq : q = .spJob id
    · subst hq; simp only [newestSavepointId]; exact Nat.le_max_left _ _
    · have hr : read r (.spJob id) = some c := by simpa [read, hq] using h
      have := ih c hr
      cases q with
      | work u => simpa [newestSavepointId] using this
      | sp i d b => simpa [newestSavepointId] using this
      | spJob i => simp only [newestSavepointId]; exact Nat.le_trans this (Nat.le_max_right _ _)

/-! ### `copyAll` -/

/-- both the source and the destination of `u` hold the same content -/
def Sync (src dst : URI → Path) (fs : FS) (u : URI) : Prop :=
  ∃ c, read fs (src u) = some c ∧ read fs (dst u) = some c

theorem copyAll_frame (src dst : URI → Path) (p : Path) (hp : ∀ u, dst u ≠ p) :
    ∀ (us : List URI) (fs : FS), read (copyAll src dst fs us).1 p = read fs p := by
  intro us
  induction us with
  | nil => intro fs; rfl
  | cons u r ih =>
    intro fs
    simp only [copyAll]
    cases h : read fs (src u) with
    | none => rfl
    | some c => simp only []; rw [ih, read_write_ne _ _ (hp u)]

theorem copyAll_sync_preserved (src dst : URI → Path) (hsd : ∀ u v, dst u ≠ src v)
    (hinj : ∀ u v, dst u = dst v → u = v) (x : URI) :
    ∀ (us : List URI) (fs : FS), Sync src dst fs x → Sync src dst (copyAll src dst fs us).1 x := by
  intro us
  induction us with
  | nil => intro fs h; exact h
  | cons u r ih =>
    intro fs h
    simp only [copyAll]
    cases hu : read fs (src u) with
    | none => exact h
    | some c =>
      simp only []
      apply ih
      obtain ⟨c0, h1, h2⟩ := h
      refine ⟨c0, ?_, ?_⟩
      · rw [read_write_ne _ _ (hsd u x)]; exact h1
      · by_cases hux : dst u = dst x
        · have := hinj _ _ hux; subst this
          rw [hux, read_write_eq]; rw [hu] at h1; exact h1
        · rw [read_write_ne _ _ hux]; exact h2

theorem copyAll_sync (src dst : URI → Path) (hsd : ∀ u v, dst u ≠ src v)
    (hinj : ∀ u v, dst u = dst v → u = v) :
    ∀ (us : List URI) (fs fs' : FS), copyAll src dst fs us = (fs', true) → ∀ x ∈ us, Sync src dst fs' x := by
  intro us
  induction us with
  | nil => intro fs fs' _ x hx; cases hx
  | cons u r ih =>
    intro fs fs' h x hx
    simp only [copyAll] at h
    cases hu : read fs (src u) with
    | none => rw [hu] at h; simp at h
    | some c =>
      rw [hu] at h; simp only [] at h
      rcases List.mem_cons.mp hx with rfl | hx
      · have hs : Sync src dst (write (dst x) c fs) x :=
          ⟨c, by rw [read_write_ne _ _ (hsd x x)]; exact hu, read_write_eq _ _ _⟩
        have := copyAll_sync_preserved src dst hsd hinj x r _ hs
        rw [h] at this; exact this
      · exact ih _ _ h x hx

theorem copyAll_succeeds (src dst : URI → Path) (hsd : ∀ u v, dst u ≠ src v) :
    ∀ (us : List URI) (fs : FS), (∀ u ∈ us, (read fs (src u)).isSome) → (copyAll src dst fs us).2 = true := by
  intro us
  induction us with
  | nil => intro fs _; rfl
  | cons u r ih =>
    intro fs h
    simp only [copyAll]
    have hu := h u (List.mem_cons_self ..)
    cases hr : read fs (src u) with
    | none => rw [hr] at hu; simp at hu
    | some c =>
      simp only []
      apply ih
      intro v hv
      rw [read_write_ne _ _ (hsd u v)]
      exact h v (List.mem_cons_of_mem _ hv)

/-! ### `opFiles` -/

theorem opFiles_congr (L : Lister) (fs1 fs2 : FS) (p1 p2 : Path) (o : OpCkpt) (h : read fs1 p1 = read fs2 p2) :
    opFiles L fs1 p1 o = opFiles L fs2 p2 o := by
  simp only [opFiles, h]

/-- what a successful by-id listing looks like -/
theorem opFiles_byId_some {fs : FS} {p : Path} {o : OpCkpt} {files : List URI}
    (h : opFiles .byId fs p o = some files) :
    ∃ cks ck, read fs p = some (.doc cks) ∧ findCk cks o.ckptId = some ck ∧ files = ck.files ++ [o.uri] := by
  unfold opFiles at h
  split at h
  · rename_i cks hr
    simp only [listFiles] at h
    cases hf : findCk cks o.ckptId with
    | none => rw [hf] at h; simp at h
    | some ck =>
      rw [hf] at h
      simp only [Option.map_some, Option.some.injEq] at h
      exact ⟨cks, ck, hr, hf, h.symm⟩
  · simp at h

/-- every listing contains the document itself -/
theorem opFiles_mem_uri {L : Lister} {fs : FS} {p : Path} {o : OpCkpt} {files : List URI}
    (h : opFiles L fs p o = some files) : o.uri ∈ files := by
  unfold opFiles at h
  split at h
  · cases hl : listFiles L _ o.ckptId with
    | none => rw [hl] at h; simp at h
    | some l =>
      rw [hl] at h
      simp only [Option.map_some, Option.some.injEq] at h
      rw [← h]; simp
  · simp at h

/-! ### `copyOps` -/

theorem copyOps_frame (L : Lister) (src dst : URI → Path) (p : Path) (hp : ∀ u, dst u ≠ p) :
    ∀ (ops : List OpCkpt) (fs : FS), read (copyOps L src dst fs ops).1 p = read fs p := by
  intro ops
  induction ops with
  | nil => intro fs; rfl
  | cons o r ih =>
    intro fs
    simp only [copyOps]
    cases hf : opFiles L fs (src o.uri) o with
    | none => rfl
    | some files =>
      simp only []
      have hfr := copyAll_frame src dst p hp files fs
      cases hc : copyAll src dst fs files with
      | mk fs' ok =>
        rw [hc] at hfr
        cases ok with
        | false => exact hfr
        | true => simp only []; rw [ih]; exact hfr

theorem copyOps_sync_preserved (L : Lister) (src dst : URI → Path) (hsd : ∀ u v, dst u ≠ src v)
    (hinj : ∀ u v, dst u = dst v → u = v) (x : URI) :
    ∀ (ops : List OpCkpt) (fs : FS), Sync src dst fs x → Sync src dst (copyOps L src dst fs ops).1 x := by
  intro ops
  induction ops with
  | nil => intro fs h; exact h
  | cons o r ih =>
    intro fs h
    simp only [copyOps]
    cases hf : opFiles L fs (src o.uri) o with
    | none => exact h
    | some files =>
      simp only []
      have hp := copyAll_sync_preserved src dst hsd hinj x files fs h
      cases hc : copyAll src dst fs files with
      | mk fs' ok =>
        rw [hc] at hp
        cases ok with
        | false => exact hp
        | true => exact ih _ hp

/-- after a successful run every file listed for every operator is present, with equal content, on both sides;
the listing is the one computed from the storage the run started with -/
theorem copyOps_sync (L : Lister) (src dst : URI → Path) (hsd : ∀ u v, dst u ≠ src v)
    (hinj : ∀ u v, dst u = dst v → u = v) :
    ∀ (ops : List OpCkpt) (fs fs' : FS), copyOps L src dst fs ops = (fs', true) →
      ∀ o ∈ ops, ∃ files, opFiles L fs (src o.uri) o = some files ∧ ∀ u ∈ files, Sync src dst fs' u := by
  intro ops
  induction ops with
  | nil => intro fs fs' _ o ho; cases ho
  | cons a r ih =>
    intro fs fs' h o ho
    simp only [copyOps] at h
    cases hf : opFiles L fs (src a.uri) a with
    | none => rw [hf] at h; simp at h
    | some files =>
      rw [hf] at h; simp only [] at h
      cases hc : copyAll src dst fs files with
      | mk fs1 ok =>
        rw [hc] at h
        cases ok with
        | false => simp at h
        | true =>
          simp only [] at h
          rcases List.mem_cons.mp ho with rfl | ho
          · refine ⟨files, hf, ?_⟩
            intro u hu
            have h1 := copyAll_sync src dst hsd hinj files fs fs1 hc u hu
            have := copyOps_sync_preserved L src dst hsd hinj u r fs1 h1
            rw [h] at this; exact this
          · obtain ⟨fl, h1, h2⟩ := ih fs1 fs' h o ho
            refine ⟨fl, ?_, h2⟩
            rw [← h1]
            apply opFiles_congr
            have := copyAll_frame src dst (src o.uri) (fun u => hsd u o.uri) files fs
            rw [hc] at this; exact this.symm

theorem copyOps_succeeds (L : Lister) (src dst : URI → Path) (hsd : ∀ u v, dst u ≠ src v) :
    ∀ (ops : List OpCkpt) (fs : FS),
      (∀ o ∈ ops, ∃ files, opFiles L fs (src o.uri) o = some files ∧ ∀ u ∈ files, (read fs (src u)).isSome) →
      (copyOps L src dst fs ops).2 = true := by
  intro ops
  induction ops with
  | nil => intro fs _; rfl
  | cons a r ih =>
    intro fs h
    simp only [copyOps]
    obtain ⟨files, hf, hall⟩ := h a (List.mem_cons_self ..)
    rw [hf]; simp only []
    have hs := copyAll_succeeds src dst hsd files fs hall
    cases hc : copyAll src dst fs files with
    | mk fs1 ok =>
      rw [hc] at hs; simp only at hs; subst hs
      simp only []
      apply ih
      intro o ho
      obtain ⟨fl, h1, h2⟩ := h o (List.mem_cons_of_mem _ ho)
      have hfr : ∀ v, read fs1 (src v) = read fs (src v) := by
        intro v
        have := copyAll_frame src dst (src v) (fun u => hsd u v) files fs
        rw [hc] at this; exact this
      refine ⟨fl, ?_, ?_⟩
      · rw [← h1]; exact opFiles_congr _ _ _ _ _ _ (hfr _)
      · intro u hu; rw [hfr]; exact h2 u hu

/-! ### the two directions -/

theorem sp_ne_work (sid : Nat) (u v : URI) : artPath sid u ≠ Path.work v := by intro h; cases h
theorem work_ne_sp (sid : Nat) (u v : URI) : Path.work u ≠ artPath sid v := by intro h; cases h
/-- two files get the same place in the artifact only if they are the same file: the place keeps the file's own
directory and its base name -/
theorem spFile_inj (sid : Nat) (u v : URI) (h : artPath sid u = artPath sid v) : u = v := by
  cases u; cases v
  simp only [artPath, Path.sp.injEq] at h
  simp [h.2.1, h.2.2]
theorem work_inj (u v : URI) (h : Path.work u = Path.work v) : u = v := by cases h; rfl

/-- creation writes only inside the savepoint directory of `sid` -/
theorem createOps_frame (L : Lister) (sid : Nat) (p : Path) (hp : p.inSp sid = false) (ops : List OpCkpt) (fs : FS) :
    read (createOps L sid fs ops).1 p = read fs p := by
  apply copyOps_frame
  intro u hh; subst hh; simp [Path.inSp, artPath] at hp

/-- restore writes only working URIs -/
theorem restoreOps_frame (L : Lister) (sid : Nat) (p : Path) (hp : p.isWork = false) (ops : List OpCkpt) (fs : FS) :
    read (restoreOps L sid fs ops).1 p = read fs p := by
  apply copyOps_frame
  intro u hh; subst hh; simp [Path.isWork] at hp

/-! ### later activity never touches savepoint directories -/

theorem cleanup_frame (p : Path) (hp : p.isWork = false) : ∀ (ids : List Nat) (fs : FS),
    read (cleanup fs ids) p = read fs p := by
  intro ids
  induction ids with
  | nil => intro fs; rfl
  | cons id r ih =>
    intro fs
    simp only [cleanup]
    rw [ih, read_remove_ne]
    intro hh; subst hh; simp [Path.isWork] at hp

theorem applyWork_frame (p : Path) (hp : p.isWork = false) : ∀ (ops : List WorkOp) (fs : FS),
    read (applyWork fs ops) p = read fs p := by
  intro ops
  induction ops with
  | nil => intro fs; rfl
  | cons o r ih =>
    intro fs
    cases o with
    | put u c =>
      simp only [applyWork]; rw [ih, read_write_ne]
      intro hh; subst hh; simp [Path.isWork] at hp
    | del u =>
      simp only [applyWork]; rw [ih, read_remove_ne]
      intro hh; subst hh; simp [Path.isWork] at hp

theorem load_frame (L : Lister) (p : Path) (hp : p.isWork = false) (fs : FS) (sid : Nat) :
    read (loadFromSavepoint L fs sid).1 p = read fs p := by
  unfold loadFromSavepoint
  split
  · rename_i s _
    have := restoreOps_frame L sid p hp s.ops fs
    cases hr : restoreOps L sid fs s.ops with
    | mk fs' ok => rw [hr] at this; cases ok <;> exact this
  · rfl

/-! ### reading a DKV image -/

theorem readAll_congr (fs1 fs2 : FS) : ∀ (us : List URI), (∀ u ∈ us, read fs1 (.work u) = read fs2 (.work u)) →
    readAll fs1 us = readAll fs2 us := by
  intro us
  induction us with
  | nil => intro _; rfl
  | cons u r ih =>
    intro h
    simp only [readAll]
    rw [h u (List.mem_cons_self ..), ih (fun v hv => h v (List.mem_cons_of_mem _ hv))]

theorem readLevels_congr (fs1 fs2 : FS) : ∀ (ls : List (List URI)),
    (∀ l ∈ ls, ∀ u ∈ l, read fs1 (.work u) = read fs2 (.work u)) → readLevels fs1 ls = readLevels fs2 ls := by
  intro ls
  induction ls with
  | nil => intro _; rfl
  | cons l r ih =>
    intro h
    simp only [readLevels]
    rw [readAll_congr fs1 fs2 l (h l (List.mem_cons_self ..)),
      ih (fun l' hl' => h l' (List.mem_cons_of_mem _ hl'))]

theorem readAll_isSome (fs : FS) : ∀ (us : List URI), (∀ u ∈ us, (read fs (.work u)).isSome) →
    (readAll fs us).isSome := by
  intro us
  induction us with
  | nil => intro _; rfl
  | cons u r ih =>
    intro h
    simp only [readAll]
    have h1 := h u (List.mem_cons_self ..)
    have h2 := ih (fun v hv => h v (List.mem_cons_of_mem _ hv))
    cases hr : read fs (.work u) with
    | none => rw [hr] at h1; simp at h1
    | some c =>
      cases hs : readAll fs r with
      | none => rw [hs] at h2; simp at h2
      | some cs => rfl

theorem readLevels_isSome (fs : FS) : ∀ (ls : List (List URI)),
    (∀ l ∈ ls, ∀ u ∈ l, (read fs (.work u)).isSome) → (readLevels fs ls).isSome := by
  intro ls
  induction ls with
  | nil => intro _; rfl
  | cons l r ih =>
    intro h
    simp only [readLevels]
    have h1 := readAll_isSome fs l (h l (List.mem_cons_self ..))
    have h2 := ih (fun l' hl' => h l' (List.mem_cons_of_mem _ hl'))
    cases hr : readAll fs l with
    | none => rw [hr] at h1; simp at h1
    | some c =>
      cases hs : readLevels fs r with
      | none => rw [hs] at h2; simp at h2
      | some cs => rfl

theorem mem_files_of_wal {ck : CkDoc} {u : URI} (h : u ∈ ck.wals) : u ∈ ck.files := by
  simp [CkDoc.files, h]

theorem mem_files_of_level {ck : CkDoc} {l : List URI} {u : URI} (hl : l ∈ ck.levels) (h : u ∈ l) : u ∈ ck.files := by
  simp only [CkDoc.files, List.mem_append, List.mem_flatten]
  exact Or.inr ⟨l, hl, h⟩

/-- the image of a handle depends only on the document and the files its entry lists -/
theorem openDB_congr (fs1 fs2 : FS) (o : OpCkpt) (cks : List CkDoc) (ck : CkDoc)
    (hd : read fs2 (.work o.uri) = some (.doc cks)) (hck : findCk cks o.ckptId = some ck)
    (h : ∀ u ∈ ck.files ++ [o.uri], read fs1 (.work u) = read fs2 (.work u)) :
    openDB fs1 o = openDB fs2 o := by
  have hd1 : read fs1 (.work o.uri) = some (.doc cks) := by rw [h o.uri (by simp)]; exact hd
  simp only [openDB, hd, hd1, hck]
  rw [readAll_congr fs1 fs2 ck.wals (fun u hu => h u (List.mem_append_left _ (mem_files_of_wal hu))),
    readLevels_congr fs1 fs2 ck.levels
      (fun l hl u hu => h u (List.mem_append_left _ (mem_files_of_level hl hu)))]

theorem openDB_isSome (fs : FS) (o : OpCkpt) (cks : List CkDoc) (ck : CkDoc)
    (hd : read fs (.work o.uri) = some (.doc cks)) (hck : findCk cks o.ckptId = some ck)
    (h : ∀ u ∈ ck.files, (read fs (.work u)).isSome) : (openDB fs o).isSome := by
  simp only [openDB, hd, hck]
  have h1 := readAll_isSome fs ck.wals (fun u hu => h u (mem_files_of_wal hu))
  have h2 := readLevels_isSome fs ck.levels (fun l hl u hu => h u (mem_files_of_level hl hu))
  cases hr : readAll fs ck.wals with
  | none => rw [hr] at h1; simp at h1
  | some ws =>
    cases hs : readLevels fs ck.levels with
    | none => rw [hs] at h2; simp at h2
    | some ls => rfl

/-! ### what an artifact must hold to restore a checkpoint (relative to the original storage) -/

/-- the artifact in `w` holds, for operator checkpoint `o`, a document with the ORIGINAL entry for the checkpoint id
(the document may otherwise differ: later entries added, other entries dropped) and every file of that entry with its
original content -/
def OpArtifactOK (fs w : FS) (sid : Nat) (o : OpCkpt) : Prop :=
  ∃ cks0 cksA ck,
    read fs (.work o.uri) = some (.doc cks0) ∧ findCk cks0 o.ckptId = some ck ∧
    read w (artPath sid o.uri) = some (.doc cksA) ∧ findCk cksA o.ckptId = some ck ∧
    ∀ u ∈ ck.files, ∃ c, read fs (.work u) = some c ∧ read w (artPath sid u) = some c

/-- the image of a handle depends only on the entry with its id and that entry's files -/
theorem openDB_of_entry (fs1 fs2 : FS) (o : OpCkpt) (cks1 cks2 : List CkDoc) (ck : CkDoc)
    (h1 : read fs1 (.work o.uri) = some (.doc cks1)) (hc1 : findCk cks1 o.ckptId = some ck)
    (h2 : read fs2 (.work o.uri) = some (.doc cks2)) (hc2 : findCk cks2 o.ckptId = some ck)
    (h : ∀ u ∈ ck.files, read fs1 (.work u) = read fs2 (.work u)) : openDB fs1 o = openDB fs2 o := by
  simp only [openDB, h1, hc1, h2, hc2]
  rw [readAll_congr fs1 fs2 ck.wals (fun u hu => h u (mem_files_of_wal hu)),
    readLevels_congr fs1 fs2 ck.levels (fun l hl u hu => h u (mem_files_of_level hl hu))]

/-! ### non-atomic creation: the environment acts between the storage calls -/

/-- the environment never writes or deletes a file in `H` -/
def Avoids (H : URI → Prop) (sch : Sched) : Prop := ∀ e ∈ sch, ∀ w ∈ e, ¬ H w.uri

/-- two storages hold the same savepoint directories and the same files of `H` -/
def Agree (H : URI → Prop) (a b : FS) : Prop :=
  (∀ p, p.isWork = false → read a p = read b p) ∧ (∀ u, H u → read a (.work u) = read b (.work u))

theorem Agree.trans {H : URI → Prop} {a b c : FS} (h1 : Agree H a b) (h2 : Agree H b c) : Agree H a c :=
  ⟨fun p hp => (h1.1 p hp).trans (h2.1 p hp), fun u hu => (h1.2 u hu).trans (h2.2 u hu)⟩

theorem applyWork_agree (H : URI → Prop) : ∀ (e : List WorkOp) (a : FS), (∀ w ∈ e, ¬ H w.uri) →
    Agree H (applyWork a e) a := by
  intro e
  induction e with
  | nil => intro a _; exact ⟨fun _ _ => rfl, fun _ _ => rfl⟩
  | cons w r ih =>
    intro a he
    have hw := he w (List.mem_cons_self ..)
    have hr := fun x hx => he x (List.mem_cons_of_mem _ hx)
    refine ⟨fun p hp => applyWork_frame p hp _ a, ?_⟩
    intro u hu
    have hne : Path.work w.uri ≠ Path.work u := by
      intro hh; injection hh with hh; exact hw (hh ▸ hu)
    cases w with
    | put v c =>
      simp only [applyWork]
      rw [(ih _ hr).2 u hu]; exact read_write_ne _ _ hne
    | del v =>
      simp only [applyWork]
      rw [(ih _ hr).2 u hu]; exact read_remove_ne _ hne

theorem step_agree (H : URI → Prop) (sch : Sched) (h : Avoids H sch) (a : FS) :
    Agree H (Sched.step a sch).1 a ∧ Avoids H (Sched.step a sch).2 := by
  cases sch with
  | nil => exact ⟨⟨fun _ _ => rfl, fun _ _ => rfl⟩, h⟩
  | cons e r =>
    exact ⟨applyWork_agree H e a (h e (List.mem_cons_self ..)), fun e' he' => h e' (List.mem_cons_of_mem _ he')⟩

theorem write_agree (H : URI → Prop) (p : Path) (c : Content) {a b : FS} (h : Agree H a b) :
    Agree H (write p c a) (write p c b) := by
  constructor
  · intro q hq
    by_cases hpq : p = q
    · subst hpq; rw [read_write_eq, read_write_eq]
    · rw [read_write_ne _ _ hpq, read_write_ne _ _ hpq]; exact h.1 q hq
  · intro u hu
    by_cases hpq : p = .work u
    · subst hpq; rw [read_write_eq, read_write_eq]
    · rw [read_write_ne _ _ hpq, read_write_ne _ _ hpq]; exact h.2 u hu

/-- copying files that the environment leaves alone gives the same result as copying them atomically -/
theorem copyAllS_sim (H : URI → Prop) (dst : URI → Path) : ∀ (us : List URI) (a b : FS) (sch : Sched),
    Avoids H sch → (∀ u ∈ us, H u) → Agree H a b →
    (copyAllS .work dst a sch us).2.1 = (copyAll .work dst b us).2 ∧
    Agree H (copyAllS .work dst a sch us).1 (copyAll .work dst b us).1 ∧
    Avoids H (copyAllS .work dst a sch us).2.2 := by
  intro us
  induction us with
  | nil => intro a b sch hs _ hab; exact ⟨rfl, hab, hs⟩
  | cons u r ih =>
    intro a b sch hs hus hab
    obtain ⟨hst, hs'⟩ := step_agree H sch hs a
    have hab' : Agree H (Sched.step a sch).1 b := hst.trans hab
    have hread : read (Sched.step a sch).1 (.work u) = read b (.work u) := hab'.2 u (hus u (List.mem_cons_self ..))
    simp only [copyAllS, copyAll]
    rw [hread]
    cases hb : read b (.work u) with
    | none => exact ⟨rfl, hab', hs'⟩
    | some c =>
      simp only []
      exact ih _ _ _ hs' (fun v hv => hus v (List.mem_cons_of_mem _ hv)) (write_agree H _ c hab')

/-- the per-operator loop as the code has it (document copied last), environment avoiding `H`, against the atomic loop -/
theorem createOpsS_sim (L : Lister) (H : URI → Prop) (sid : Nat) : ∀ (ops : List OpCkpt) (a b : FS) (sch : Sched),
    Avoids H sch → (∀ o ∈ ops, H o.uri) →
    (∀ o ∈ ops, ∀ files, opFiles L b (.work o.uri) o = some files → ∀ u ∈ files, H u) → Agree H a b →
    (createOpsS L .copyFile sid a sch ops).2.1 = (createOps L sid b ops).2 ∧
    Agree H (createOpsS L .copyFile sid a sch ops).1 (createOps L sid b ops).1 ∧
    Avoids H (createOpsS L .copyFile sid a sch ops).2.2 := by
  intro ops
  induction ops with
  | nil => intro a b sch hs _ _ hab; exact ⟨rfl, hab, hs⟩
  | cons o r ih =>
    intro a b sch hs hdoc hfiles hab
    obtain ⟨hst, hs'⟩ := step_agree H sch hs a
    have hab' : Agree H (Sched.step a sch).1 b := hst.trans hab
    have hread : read (Sched.step a sch).1 (.work o.uri) = read b (.work o.uri) :=
      hab'.2 _ (hdoc o (List.mem_cons_self ..))
    simp only [createOpsS, createOps, copyOps]
    rw [hread]
    cases hb : read b (.work o.uri) with
    | none => simp only [opFiles, hb]; exact ⟨by trivial, hab', hs'⟩
    | some c =>
      cases c with
      | doc cks =>
        cases hl : listFiles L cks o.ckptId with
        | none => simp only [opFiles, hb, hl, Option.map_none]; exact ⟨by trivial, hab', hs'⟩
        | some files =>
          have hof : opFiles L b (.work o.uri) o = some (files ++ [o.uri]) := by simp [opFiles, hb, hl]
          simp only [hof, hl]
          have hH := hfiles o (List.mem_cons_self ..) _ hof
          obtain ⟨h1, h2, h3⟩ := copyAllS_sim H (artPath sid) (files ++ [o.uri]) _ b _ hs' hH hab'
          cases hc : copyAll .work (artPath sid) b (files ++ [o.uri]) with
          | mk b1 ok =>
            rw [hc] at h1 h2
            cases hcs : copyAllS .work (artPath sid) (Sched.step a sch).1 (Sched.step a sch).2 (files ++ [o.uri]) with
            | mk a1 rest =>
              obtain ⟨ok', sch1⟩ := rest
              rw [hcs] at h1 h2 h3
              simp only at h1 h2 h3
              subst h1
              cases ok' with
              | false => exact ⟨rfl, h2, h3⟩
              | true =>
                simp only []
                have hfr : ∀ v, read b1 (.work v) = read b (.work v) := by
                  intro v
                  have := copyAll_frame .work (artPath sid) (.work v) (fun x => sp_ne_work sid x v) (files ++ [o.uri]) b
                  rw [hc] at this; exact this
                apply ih a1 b1 sch1 h3 (fun o' ho' => hdoc o' (List.mem_cons_of_mem _ ho')) ?_ h2
                intro o' ho' fl hfl
                apply hfiles o' (List.mem_cons_of_mem _ ho') fl
                rw [← hfl]; exact opFiles_congr _ _ _ _ _ _ (hfr _).symm
      | job s => simp only [opFiles, hb]; exact ⟨by trivial, hab', hs'⟩
      | blob t => simp only [opFiles, hb]; exact ⟨by trivial, hab', hs'⟩
      | junk => simp only [opFiles, hb]; exact ⟨by trivial, hab', hs'⟩


/-- the atomic copy of `files ++ [doc]` ends with the document's own content when nothing else changed -/
theorem copyAll_append_doc (sid : Nat) (b : FS) (files : List URI) (d : URI) (c : Content)
    (hd : read b (.work d) = some c) :
    copyAll .work (artPath sid) b (files ++ [d]) =
      match copyAll .work (artPath sid) b files with
      | (b1, false) => (b1, false)
      | (b1, true) => (write (artPath sid d) c b1, true) := by
  induction files generalizing b with
  | nil => simp [copyAll, hd]
  | cons u r ih =>
    simp only [List.cons_append, copyAll]
    cases hu : read b (.work u) with
    | none => rfl
    | some cu =>
      simp only []
      apply ih
      rw [read_write_ne _ _ (sp_ne_work sid u d)]; exact hd

/-- the per-operator loop with the D53 repair (the document content read at the start is written), environment
avoiding `H`, against the atomic loop -/
theorem createOpsS_sim_writeRead (L : Lister) (H : URI → Prop) (sid : Nat) : ∀ (ops : List OpCkpt) (a b : FS) (sch : Sched),
    Avoids H sch → (∀ o ∈ ops, H o.uri) →
    (∀ o ∈ ops, ∀ files, opFiles L b (.work o.uri) o = some files → ∀ u ∈ files, H u) → Agree H a b →
    (createOpsS L .writeRead sid a sch ops).2.1 = (createOps L sid b ops).2 ∧
    Agree H (createOpsS L .writeRead sid a sch ops).1 (createOps L sid b ops).1 ∧
    Avoids H (createOpsS L .writeRead sid a sch ops).2.2 := by
  intro ops
  induction ops with
  | nil => intro a b sch hs _ _ hab; exact ⟨rfl, hab, hs⟩
  | cons o r ih =>
    intro a b sch hs hdoc hfiles hab
    obtain ⟨hst, hs'⟩ := step_agree H sch hs a
    have hab' : Agree H (Sched.step a sch).1 b := hst.trans hab
    have hread : read (Sched.step a sch).1 (.work o.uri) = read b (.work o.uri) :=
      hab'.2 _ (hdoc o (List.mem_cons_self ..))
    simp only [createOpsS, createOps, copyOps]
    rw [hread]
    cases hb : read b (.work o.uri) with
    | none => simp only [opFiles, hb]; exact ⟨by trivial, hab', hs'⟩
    | some c =>
      cases c with
      | doc cks =>
        cases hl : listFiles L cks o.ckptId with
        | none => simp only [opFiles, hb, hl, Option.map_none]; exact ⟨by trivial, hab', hs'⟩
        | some files =>
          have hof : opFiles L b (.work o.uri) o = some (files ++ [o.uri]) := by simp [opFiles, hb, hl]
          simp only [hof, hl]
          have hH := hfiles o (List.mem_cons_self ..) _ hof
          have hHf : ∀ u ∈ files, H u := fun u hu => hH u (List.mem_append_left _ hu)
          obtain ⟨h1, h2, h3⟩ := copyAllS_sim H (artPath sid) files _ b _ hs' hHf hab'
          rw [copyAll_append_doc sid b files o.uri _ hb]
          cases hc : copyAll .work (artPath sid) b files with
          | mk b1 ok =>
            rw [hc] at h1 h2
            cases hcs : copyAllS .work (artPath sid) (Sched.step a sch).1 (Sched.step a sch).2 files with
            | mk a1 rest =>
              obtain ⟨ok', sch1⟩ := rest
              rw [hcs] at h1 h2 h3
              simp only at h1 h2 h3
              subst h1
              cases ok' with
              | false => exact ⟨rfl, h2, h3⟩
              | true =>
                simp only []
                obtain ⟨hst2, hs2⟩ := step_agree H sch1 h3 a1
                have hab2 : Agree H (write (artPath sid o.uri) (.doc cks) (Sched.step a1 sch1).1)
                    (write (artPath sid o.uri) (.doc cks) b1) := write_agree H _ _ (hst2.trans h2)
                have hfr : ∀ v, read (write (artPath sid o.uri) (.doc cks) b1) (.work v) = read b (.work v) := by
                  intro v
                  rw [read_write_ne _ _ (sp_ne_work sid o.uri v)]
                  have := copyAll_frame .work (artPath sid) (.work v) (fun x => sp_ne_work sid x v) files b
                  rw [hc] at this; exact this
                apply ih _ _ _ hs2 (fun o' ho' => hdoc o' (List.mem_cons_of_mem _ ho')) ?_ hab2
                intro o' ho' fl hfl
                apply hfiles o' (List.mem_cons_of_mem _ ho') fl
                rw [← hfl]; exact opFiles_congr _ _ _ _ _ _ (hfr _).symm
      | job s => simp only [opFiles, hb]; exact ⟨by trivial, hab', hs'⟩
      | blob t => simp only [opFiles, hb]; exact ⟨by trivial, hab', hs'⟩
      | junk => simp only [opFiles, hb]; exact ⟨by trivial, hab', hs'⟩

/-- creation as the code has it with the environment avoiding `H` (which contains every file the creation reads)
reports what the atomic creation reports and leaves the same savepoint directories -/
theorem createArtifactS_sim (L : Lister) (m : DocMode) (H : URI → Prop) (fs : FS) (jobURI : URI) (snap : JobSnap) (sch : Sched)
    (hs : Avoids H sch) (hj : H jobURI) (hdoc : ∀ o ∈ snap.ops, H o.uri)
    (hfiles : ∀ o ∈ snap.ops, ∀ files, opFiles L fs (.work o.uri) o = some files → ∀ u ∈ files, H u) :
    (createArtifactS L m fs jobURI snap sch).2 = (createArtifact L fs jobURI snap).2 ∧
    ∀ p, p.isWork = false → read (createArtifactS L m fs jobURI snap sch).1 p = read (createArtifact L fs jobURI snap).1 p := by
  have hsim : (createOpsS L m snap.id fs sch snap.ops).2.1 = (createOps L snap.id fs snap.ops).2 ∧
      Agree H (createOpsS L m snap.id fs sch snap.ops).1 (createOps L snap.id fs snap.ops).1 ∧
      Avoids H (createOpsS L m snap.id fs sch snap.ops).2.2 := by
    cases m with
    | copyFile => exact createOpsS_sim L H snap.id snap.ops fs fs sch hs hdoc hfiles ⟨fun _ _ => rfl, fun _ _ => rfl⟩
    | writeRead => exact createOpsS_sim_writeRead L H snap.id snap.ops fs fs sch hs hdoc hfiles ⟨fun _ _ => rfl, fun _ _ => rfl⟩
  obtain ⟨h1, h2, h3⟩ := hsim
  unfold createArtifactS createArtifact
  cases hc : createOps L snap.id fs snap.ops with
  | mk b1 ok =>
    rw [hc] at h1 h2
    cases hcs : createOpsS L m snap.id fs sch snap.ops with
    | mk a1 rest =>
      obtain ⟨ok', sch1⟩ := rest
      rw [hcs] at h1 h2 h3
      simp only at h1 h2 h3
      subst h1
      cases ok' with
      | false => exact ⟨rfl, h2.1⟩
      | true =>
        simp only []
        obtain ⟨hst, _⟩ := step_agree H sch1 h3 a1
        have hab := hst.trans h2
        rw [hab.2 jobURI hj]
        cases hr : read b1 (.work jobURI) with
        | none => exact ⟨rfl, hab.1⟩
        | some c => exact ⟨rfl, (write_agree H _ c hab).1⟩

/-! ### non-atomic creation under the job's discipline (documents appended to / pruned, data files only deleted) -/

/-- the entry of the original storage that the savepoint needs of operator checkpoint `o` -/
def origEntry (fs : FS) (o : OpCkpt) : Option CkDoc :=
  match read fs (.work o.uri) with
  | some (.doc cks0) => findCk cks0 o.ckptId
  | _ => none

theorem origEntry_some {fs : FS} {o : OpCkpt} {ck : CkDoc} (h : origEntry fs o = some ck) :
    ∃ cks0, read fs (.work o.uri) = some (.doc cks0) ∧ findCk cks0 o.ckptId = some ck := by
  unfold origEntry at h
  split at h
  · rename_i cks0 hr; exact ⟨cks0, hr, h⟩
  · simp at h

/-- `u` is a WAL or table file of an entry the savepoint needs -/
def DataOf (fs : FS) (snap : JobSnap) (u : URI) : Prop :=
  ∃ o ∈ snap.ops, ∃ ck, origEntry fs o = some ck ∧ u ∈ ck.files

/-- what the running job may do to the working storage while the creation runs: delete anything; write a data file
of the savepoint or its job snapshot only with the content it has; rewrite an operator's document only into a document
that keeps the entry of the savepoint's checkpoint as it is or no longer has it (later entries appended, non-retained
ones dropped); anything else freely -/
def DiscOp (fs : FS) (jobURI : URI) (snap : JobSnap) : WorkOp → Prop
  | .del _ => True
  | .put u c =>
    ((u = jobURI ∨ DataOf fs snap u) → read fs (.work u) = some c) ∧
    (∀ o ∈ snap.ops, u = o.uri → ∃ cks', c = .doc cks' ∧
      (findCk cks' o.ckptId = origEntry fs o ∨ findCk cks' o.ckptId = none))

def Disc (fs : FS) (jobURI : URI) (snap : JobSnap) (sch : Sched) : Prop :=
  ∀ e ∈ sch, ∀ w ∈ e, DiscOp fs jobURI snap w

/-- the working storage during the run: data files and the job snapshot read as originally or not at all; an
operator's document, if it is one, has the original entry for the id or none -/
def WInv (fs : FS) (jobURI : URI) (snap : JobSnap) (a : FS) : Prop :=
  (∀ u, (u = jobURI ∨ DataOf fs snap u) → read a (.work u) = read fs (.work u) ∨ read a (.work u) = none) ∧
  (∀ o ∈ snap.ops, ∀ cks', read a (.work o.uri) = some (.doc cks') →
    findCk cks' o.ckptId = origEntry fs o ∨ findCk cks' o.ckptId = none)

theorem WInv_init (fs : FS) (jobURI : URI) (snap : JobSnap) : WInv fs jobURI snap fs := by
  refine ⟨fun _ _ => Or.inl rfl, ?_⟩
  intro o _ cks' h
  left; simp [origEntry, h]

theorem WInv_congr {fs : FS} {jobURI : URI} {snap : JobSnap} {a b : FS} (h : WInv fs jobURI snap a)
    (hab : ∀ u, read b (.work u) = read a (.work u)) : WInv fs jobURI snap b := by
  refine ⟨fun u hu => by rw [hab]; exact h.1 u hu, fun o ho cks' hr => h.2 o ho cks' (by rw [← hab]; exact hr)⟩

theorem WInv_applyWork (fs : FS) (jobURI : URI) (snap : JobSnap) : ∀ (e : List WorkOp) (a : FS),
    (∀ w ∈ e, DiscOp fs jobURI snap w) → WInv fs jobURI snap a → WInv fs jobURI snap (applyWork a e) := by
  intro e
  induction e with
  | nil => intro a _ h; exact h
  | cons w r ih =>
    intro a he h
    have hw := he w (List.mem_cons_self ..)
    have hr := fun x hx => he x (List.mem_cons_of_mem _ hx)
    cases w with
    | del v =>
      simp only [applyWork]
      apply ih _ hr
      refine ⟨?_, ?_⟩
      · intro u hu
        by_cases hvu : v = u
        · subst hvu; right; exact read_remove_eq _ _
        · rw [read_remove_ne _ (by intro hh; injection hh with hh; exact hvu hh)]; exact h.1 u hu
      · intro o ho cks' hrd
        by_cases hvu : v = o.uri
        · rw [hvu, read_remove_eq] at hrd; simp at hrd
        · rw [read_remove_ne _ (by intro hh; injection hh with hh; exact hvu hh)] at hrd; exact h.2 o ho cks' hrd
    | put v c =>
      simp only [applyWork]
      apply ih _ hr
      simp only [DiscOp] at hw
      refine ⟨?_, ?_⟩
      · intro u hu
        by_cases hvu : v = u
        · subst hvu; left; rw [read_write_eq]; exact (hw.1 hu).symm
        · rw [read_write_ne _ _ (by intro hh; injection hh with hh; exact hvu hh)]; exact h.1 u hu
      · intro o ho cks' hrd
        by_cases hvu : v = o.uri
        · rw [hvu, read_write_eq] at hrd
          obtain ⟨cks'', hc, hprop⟩ := hw.2 o ho hvu
          rw [hc] at hrd; injection hrd with hrd; injection hrd with hrd; subst hrd; exact hprop
        · rw [read_write_ne _ _ (by intro hh; injection hh with hh; exact hvu hh)] at hrd; exact h.2 o ho cks' hrd

theorem disc_step (fs : FS) (jobURI : URI) (snap : JobSnap) (sch : Sched) (hd : Disc fs jobURI snap sch) (a : FS)
    (h : WInv fs jobURI snap a) :
    WInv fs jobURI snap (Sched.step a sch).1 ∧ Disc fs jobURI snap (Sched.step a sch).2 ∧
    ∀ p, p.isWork = false → read (Sched.step a sch).1 p = read a p := by
  cases sch with
  | nil => exact ⟨h, hd, fun _ _ => rfl⟩
  | cons e r =>
    exact ⟨WInv_applyWork fs jobURI snap e a (hd e (List.mem_cons_self ..)) h,
      fun e' he' => hd e' (List.mem_cons_of_mem _ he'), fun p hp => applyWork_frame p hp e a⟩

/-- data files of the savepoint that are in the artifact with their original content -/
def DInv (fs : FS) (sid : Nat) (us : List URI) (a : FS) : Prop :=
  ∀ u ∈ us, ∃ c, read fs (.work u) = some c ∧ read a (artPath sid u) = some c

/-- operator checkpoints whose document in the artifact has the original entry -/
def DocInv (fs : FS) (sid : Nat) (done : List OpCkpt) (a : FS) : Prop :=
  ∀ o ∈ done, ∃ ck cksA, origEntry fs o = some ck ∧ read a (artPath sid o.uri) = some (.doc cksA) ∧
    findCk cksA o.ckptId = some ck

/-- a write into the savepoint directory that cannot spoil what is already there -/
def GoodWrite (fs : FS) (snap : JobSnap) (v : URI) (c : Content) : Prop :=
  (DataOf fs snap v → read fs (.work v) = some c) ∧
  (∀ o ∈ snap.ops, v = o.uri → ∃ cksA, c = .doc cksA ∧ findCk cksA o.ckptId = origEntry fs o)

theorem DInv_congr {fs : FS} {sid : Nat} {us : List URI} {a b : FS} (h : DInv fs sid us a)
    (hab : ∀ p, p.isWork = false → read b p = read a p) : DInv fs sid us b := by
  intro u hu
  obtain ⟨c, h1, h2⟩ := h u hu
  exact ⟨c, h1, by rw [hab _ (by simp [artPath, Path.isWork])]; exact h2⟩

theorem DocInv_congr {fs : FS} {sid : Nat} {done : List OpCkpt} {a b : FS} (h : DocInv fs sid done a)
    (hab : ∀ p, p.isWork = false → read b p = read a p) : DocInv fs sid done b := by
  intro o ho
  obtain ⟨ck, cksA, h1, h2, h3⟩ := h o ho
  exact ⟨ck, cksA, h1, by rw [hab _ (by simp [artPath, Path.isWork])]; exact h2, h3⟩

theorem DInv_write {fs : FS} {snap : JobSnap} {sid : Nat} {us : List URI} {a : FS} {v : URI} {c : Content}
    (h : DInv fs sid us a) (hus : ∀ u ∈ us, DataOf fs snap u) (hg : GoodWrite fs snap v c) :
    DInv fs sid us (write (artPath sid v) c a) := by
  intro u hu
  obtain ⟨c0, h1, h2⟩ := h u hu
  by_cases hvu : v = u
  · subst hvu
    have := hg.1 (hus _ hu)
    rw [h1] at this; injection this with this; subst this
    exact ⟨c0, h1, read_write_eq _ _ _⟩
  · exact ⟨c0, h1, by rw [read_write_ne _ _ (fun hh => hvu (spFile_inj sid _ _ hh))]; exact h2⟩

theorem DocInv_write {fs : FS} {snap : JobSnap} {sid : Nat} {done : List OpCkpt} {a : FS} {v : URI} {c : Content}
    (h : DocInv fs sid done a) (hdone : ∀ o ∈ done, o ∈ snap.ops) (hg : GoodWrite fs snap v c) :
    DocInv fs sid done (write (artPath sid v) c a) := by
  intro o ho
  obtain ⟨ck, cksA, h1, h2, h3⟩ := h o ho
  by_cases hvu : v = o.uri
  · obtain ⟨cksB, hc, hf⟩ := hg.2 o (hdone o ho) hvu
    subst hc
    exact ⟨ck, cksB, h1, by rw [hvu]; exact read_write_eq _ _ _, by rw [hf, h1]⟩
  · exact ⟨ck, cksA, h1, by rw [read_write_ne _ _ (fun hh => hvu (spFile_inj sid _ _ hh))]; exact h2, h3⟩

theorem DInv_mono {fs : FS} {sid : Nat} {us vs : List URI} {a : FS} (h : DInv fs sid us a)
    (hsub : ∀ u ∈ vs, u ∈ us) : DInv fs sid vs a := fun u hu => h u (hsub u hu)

/-- copying the data files of a needed entry while the job goes on (discipline): everything already in the artifact
stays right, and on success the copied files are in the artifact with their original content -/
theorem copyAllS_disc (fs : FS) (jobURI : URI) (snap : JobSnap) (sid : Nat)
    (hsep : ∀ o ∈ snap.ops, ¬ DataOf fs snap o.uri) :
    ∀ (us : List URI) (a : FS) (sch : Sched) (D : List URI) (done : List OpCkpt),
    (∀ u ∈ us, DataOf fs snap u) → (∀ u ∈ D, DataOf fs snap u) → (∀ o ∈ done, o ∈ snap.ops) →
    Disc fs jobURI snap sch → WInv fs jobURI snap a → DInv fs sid D a → DocInv fs sid done a →
    Disc fs jobURI snap (copyAllS .work (artPath sid) a sch us).2.2 ∧
    WInv fs jobURI snap (copyAllS .work (artPath sid) a sch us).1 ∧
    DInv fs sid D (copyAllS .work (artPath sid) a sch us).1 ∧
    DocInv fs sid done (copyAllS .work (artPath sid) a sch us).1 ∧
    ((copyAllS .work (artPath sid) a sch us).2.1 = true → DInv fs sid us (copyAllS .work (artPath sid) a sch us).1) := by
  intro us
  induction us with
  | nil =>
    intro a sch D done _ _ _ hd hw hD hdoc
    exact ⟨hd, hw, hD, hdoc, fun _ u hu => by cases hu⟩
  | cons u r ih =>
    intro a sch D done hus hDd hdone hd hw hD hdoc
    obtain ⟨hw1, hd1, hfr⟩ := disc_step fs jobURI snap sch hd a hw
    have hD1 := DInv_congr hD hfr
    have hdoc1 := DocInv_congr hdoc hfr
    have hu := hus u (List.mem_cons_self ..)
    simp only [copyAllS]
    cases hr : read (Sched.step a sch).1 (.work u) with
    | none => exact ⟨hd1, hw1, hD1, hdoc1, fun h => by simp at h⟩
    | some c =>
      simp only []
      have horig : read fs (.work u) = some c := by
        rcases hw1.1 u (Or.inr hu) with h | h
        · rw [← h]; exact hr
        · rw [h] at hr; simp at hr
      have hg : GoodWrite fs snap u c :=
        ⟨fun _ => horig, fun o ho huo => absurd (huo ▸ hu) (hsep o ho)⟩
      have hw2 : WInv fs jobURI snap (write (artPath sid u) c (Sched.step a sch).1) :=
        WInv_congr hw1 (fun v => read_write_ne _ _ (sp_ne_work sid u v))
      have hD2 : DInv fs sid (u :: D) (write (artPath sid u) c (Sched.step a sch).1) := by
        intro v hv
        rcases List.mem_cons.mp hv with rfl | hv
        · exact ⟨c, horig, read_write_eq _ _ _⟩
        · exact DInv_write hD1 hDd hg v hv
      have hdoc2 := DocInv_write hdoc1 hdone hg
      obtain ⟨r1, r2, r3, r4, r5⟩ := ih _ _ (u :: D) done (fun v hv => hus v (List.mem_cons_of_mem _ hv))
        (fun v hv => by rcases List.mem_cons.mp hv with rfl | hv; exact hu; exact hDd v hv) hdone hd1 hw2 hD2 hdoc2
      refine ⟨r1, r2, DInv_mono r3 (fun v hv => List.mem_cons_of_mem _ hv), r4, ?_⟩
      intro hok v hv
      rcases List.mem_cons.mp hv with rfl | hv
      · exact r3 _ (List.mem_cons_self ..)
      · exact r5 hok v hv

theorem origEntry_congr (fs : FS) {o o' : OpCkpt} (h1 : o.uri = o'.uri) (h2 : o.ckptId = o'.ckptId) :
    origEntry fs o = origEntry fs o' := by
  simp [origEntry, h1, h2]

theorem listFiles_byId_some {cks : List CkDoc} {id : Nat} {files : List URI}
    (h : listFiles .byId cks id = some files) : ∃ ck, findCk cks id = some ck ∧ files = ck.files := by
  simp only [listFiles] at h
  cases hf : findCk cks id with
  | none => rw [hf] at h; simp at h
  | some ck => rw [hf] at h; simp only [Option.map_some, Option.some.injEq] at h; exact ⟨ck, rfl, h.symm⟩

/-- the per-operator loop of the repaired creation while the job goes on (discipline): on success every operator
checkpoint processed has, in the artifact, a document with its original entry and that entry's files with their original
content; what was there before stays right -/
theorem createOpsS_disc (fs : FS) (jobURI : URI) (snap : JobSnap) (sid : Nat)
    (hsep : ∀ o ∈ snap.ops, ¬ DataOf fs snap o.uri)
    (hdocs : ∀ o ∈ snap.ops, ∀ o' ∈ snap.ops, o.uri = o'.uri → o.ckptId = o'.ckptId) :
    ∀ (todo : List OpCkpt) (a : FS) (sch : Sched) (D : List URI) (done : List OpCkpt),
    (∀ o ∈ todo, o ∈ snap.ops) → (∀ u ∈ D, DataOf fs snap u) → (∀ o ∈ done, o ∈ snap.ops) →
    Disc fs jobURI snap sch → WInv fs jobURI snap a → DInv fs sid D a → DocInv fs sid done a →
    (createOpsS .byId .writeRead sid a sch todo).2.1 = true →
    Disc fs jobURI snap (createOpsS .byId .writeRead sid a sch todo).2.2 ∧
    WInv fs jobURI snap (createOpsS .byId .writeRead sid a sch todo).1 ∧
    DInv fs sid D (createOpsS .byId .writeRead sid a sch todo).1 ∧
    DocInv fs sid done (createOpsS .byId .writeRead sid a sch todo).1 ∧
    DocInv fs sid todo (createOpsS .byId .writeRead sid a sch todo).1 ∧
    ∀ o ∈ todo, ∀ ck, origEntry fs o = some ck → DInv fs sid ck.files (createOpsS .byId .writeRead sid a sch todo).1 := by
  intro todo
  induction todo with
  | nil =>
    intro a sch D done _ _ _ hd hw hD hdoc _
    refine ⟨hd, hw, hD, hdoc, ?_, ?_⟩
    · intro o ho; cases ho
    · intro o ho; cases ho
  | cons o r ih =>
    intro a sch D done htodo hDd hdone hd hw hD hdoc hok
    have ho := htodo o (List.mem_cons_self ..)
    obtain ⟨hw1, hd1, hfr⟩ := disc_step fs jobURI snap sch hd a hw
    have hD1 := DInv_congr hD hfr
    have hdoc1 := DocInv_congr hdoc hfr
    simp only [createOpsS] at hok ⊢
    cases hr : read (Sched.step a sch).1 (.work o.uri) with
    | none => rw [hr] at hok; simp at hok
    | some c0 =>
      rw [hr] at hok
      cases c0 with
      | job s => simp at hok
      | blob t => simp at hok
      | junk => simp at hok
      | doc cks' =>
        simp only [] at hok ⊢
        cases hl : listFiles .byId cks' o.ckptId with
        | none => rw [hl] at hok; simp at hok
        | some files =>
          rw [hl] at hok
          simp only [] at hok ⊢
          obtain ⟨ck', hfind, hfiles⟩ := listFiles_byId_some hl
          subst hfiles
          have horigE : origEntry fs o = some ck' := by
            rcases hw1.2 o ho cks' hr with h | h
            · rw [← h]; exact hfind
            · rw [h] at hfind; simp at hfind
          have hdata : ∀ u ∈ ck'.files, DataOf fs snap u := fun u hu => ⟨o, ho, ck', horigE, hu⟩
          obtain ⟨c1, c2, c3, c4, c5⟩ := copyAllS_disc fs jobURI snap sid hsep ck'.files _ _ D done hdata hDd hdone hd1 hw1 hD1 hdoc1
          cases hcs : copyAllS .work (artPath sid) (Sched.step a sch).1 (Sched.step a sch).2 ck'.files with
          | mk a2 rest =>
            obtain ⟨ok2, sch2⟩ := rest
            rw [hcs] at hok c1 c2 c3 c4 c5
            simp only at c1 c2 c3 c4 c5
            cases ok2 with
            | false => simp at hok
            | true =>
              simp only [] at hok ⊢
              have c5' := c5 rfl
              obtain ⟨hw3, hd3, hfr3⟩ := disc_step fs jobURI snap sch2 c1 a2 c2
              have hg : GoodWrite fs snap o.uri (.doc cks') := by
                refine ⟨fun hdo => absurd hdo (hsep o ho), ?_⟩
                intro o2 ho2 huri
                refine ⟨cks', rfl, ?_⟩
                have hid := hdocs o ho o2 ho2 huri
                rw [← origEntry_congr fs huri hid, ← hid, horigE]; exact hfind
              have hw4 : WInv fs jobURI snap (write (artPath sid o.uri) (.doc cks') (Sched.step a2 sch2).1) :=
                WInv_congr hw3 (fun v => read_write_ne _ _ (sp_ne_work sid o.uri v))
              have hD4 : DInv fs sid (ck'.files ++ D) (write (artPath sid o.uri) (.doc cks') (Sched.step a2 sch2).1) := by
                apply DInv_write _ (fun u hu => by
                  rcases List.mem_append.mp hu with h | h
                  · exact hdata u h
                  · exact hDd u h) hg
                intro u hu
                rcases List.mem_append.mp hu with h | h
                · exact DInv_congr c5' hfr3 u h
                · exact DInv_congr c3 hfr3 u h
              have hdoc4 : DocInv fs sid (o :: done) (write (artPath sid o.uri) (.doc cks') (Sched.step a2 sch2).1) := by
                intro o2 ho2
                rcases List.mem_cons.mp ho2 with rfl | ho2
                · exact ⟨ck', cks', horigE, read_write_eq _ _ _, hfind⟩
                · exact DocInv_write (DocInv_congr c4 hfr3) hdone hg o2 ho2
              obtain ⟨r1, r2, r3, r4, r5, r6⟩ := ih _ _ (ck'.files ++ D) (o :: done)
                (fun x hx => htodo x (List.mem_cons_of_mem _ hx))
                (fun u hu => by
                  rcases List.mem_append.mp hu with h | h
                  · exact hdata u h
                  · exact hDd u h)
                (fun x hx => by
                  rcases List.mem_cons.mp hx with rfl | hx
                  · exact ho
                  · exact hdone x hx)
                hd3 hw4 hD4 hdoc4 hok
              refine ⟨r1, r2, DInv_mono r3 (fun u hu => List.mem_append_right _ hu),
                fun x hx => r4 x (List.mem_cons_of_mem _ hx), ?_, ?_⟩
              · intro x hx
                rcases List.mem_cons.mp hx with rfl | hx
                · exact r4 _ (List.mem_cons_self ..)
                · exact r5 x hx
              · intro x hx ck hck
                rcases List.mem_cons.mp hx with rfl | hx
                · rw [horigE] at hck; injection hck with hck; subst hck
                  exact DInv_mono r3 (fun u hu => List.mem_append_left _ hu)
                · exact r6 x hx ck hck

end Rxn.Savepoint
