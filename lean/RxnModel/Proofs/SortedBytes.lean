import RxnModel.Base.BytesOrder
import RxnModel.Model.Timers
/-! Sorted duplicate-free lists of byte strings: `sinsert`, `erase`, `filter`, extensionality. Core only. -/
namespace Rxn.Timers
open Rxn Rxn.Bytes

/-- strictly ascending in `bytes.Compare` order -/
def Sorted (l : List Bytes) : Prop := l.Pairwise (fun a b => Bytes.lt a b = true)

theorem Sorted.nil : Sorted [] := List.Pairwise.nil

theorem Sorted.tail {x : Bytes} {l : List Bytes} (h : Sorted (x :: l)) : Sorted l := (List.pairwise_cons.mp h).2
theorem Sorted.head_lt {x : Bytes} {l : List Bytes} (h : Sorted (x :: l)) : ∀ y ∈ l, Bytes.lt x y = true :=
  (List.pairwise_cons.mp h).1

theorem Sorted.sublist {a b : List Bytes} (h : a.Sublist b) (hb : Sorted b) : Sorted a := List.Pairwise.sublist h hb

theorem Sorted.nodup {l : List Bytes} (h : Sorted l) : l.Nodup := by
  refine List.Pairwise.imp ?_ h
  intro a b hab e
  subst e
  rw [Bytes.lt_irrefl] at hab
  cases hab

theorem Sorted.filter {l : List Bytes} (p : Bytes → Bool) (h : Sorted l) : Sorted (l.filter p) :=
  Sorted.sublist List.filter_sublist h

theorem Sorted.erase {l : List Bytes} (k : Bytes) (h : Sorted l) : Sorted (l.erase k) :=
  Sorted.sublist List.erase_sublist h

theorem Sorted.append_left {a b : List Bytes} (h : Sorted (a ++ b)) : Sorted a :=
  Sorted.sublist (List.sublist_append_left a b) h
theorem Sorted.append_right {a b : List Bytes} (h : Sorted (a ++ b)) : Sorted b :=
  Sorted.sublist (List.sublist_append_right a b) h
theorem Sorted.append_lt {a b : List Bytes} (h : Sorted (a ++ b)) : ∀ x ∈ a, ∀ y ∈ b, Bytes.lt x y = true :=
  (List.pairwise_append.mp h).2.2

theorem sorted_append {a b : List Bytes} (ha : Sorted a) (hb : Sorted b)
    (h : ∀ x ∈ a, ∀ y ∈ b, Bytes.lt x y = true) : Sorted (a ++ b) :=
  List.pairwise_append.mpr ⟨ha, hb, h⟩

/-- two sorted lists with the same elements are equal -/
theorem sorted_ext : ∀ {a b : List Bytes}, Sorted a → Sorted b → (∀ x, x ∈ a ↔ x ∈ b) → a = b
  | [], [], _, _, _ => rfl
  | [], y :: ys, _, _, h => by have := (h y).mpr List.mem_cons_self; cases this
  | x :: xs, [], _, _, h => by have := (h x).mp List.mem_cons_self; cases this
  | x :: xs, y :: ys, ha, hb, h => by
    have hxy : x = y := by
      have h1 : x ∈ y :: ys := (h x).mp List.mem_cons_self
      have h2 : y ∈ x :: xs := (h y).mpr List.mem_cons_self
      rcases List.mem_cons.mp h1 with e | e
      · exact e
      · rcases List.mem_cons.mp h2 with e' | e'
        · exact e'.symm
        · have l1 := hb.head_lt x e
          have l2 := ha.head_lt y e'
          rw [Bytes.lt_asymm l1] at l2; cases l2
    subst hxy
    congr 1
    refine sorted_ext ha.tail hb.tail ?_
    intro z
    constructor
    · intro hz
      have : z ∈ x :: ys := (h z).mp (List.mem_cons_of_mem _ hz)
      rcases List.mem_cons.mp this with e | e
      · subst e
        have := ha.head_lt z hz
        rw [Bytes.lt_irrefl] at this; cases this
      · exact e
    · intro hz
      have : z ∈ x :: xs := (h z).mpr (List.mem_cons_of_mem _ hz)
      rcases List.mem_cons.mp this with e | e
      · subst e
        have := hb.head_lt z hz
        rw [Bytes.lt_irrefl] at this; cases this
      · exact e

theorem mem_sinsert (k x : Bytes) (l : List Bytes) : x ∈ sinsert k l ↔ x = k ∨ x ∈ l := by
  induction l with
  | nil => simp [sinsert]
  | cons y ys ih =>
    simp only [sinsert]
    cases hc : Bytes.cmp k y with
    | lt => simp
    | eq =>
      have := Bytes.cmp_eq_iff.mp hc
      subst this
      simp
    | gt =>
      simp only [List.mem_cons, ih]
      constructor
      · rintro (h | h | h)
        · right; left; exact h
        · left; exact h
        · right; right; exact h
      · rintro (h | h | h)
        · right; left; exact h
        · left; exact h
        · right; right; exact h

theorem sinsert_sorted (k : Bytes) (l : List Bytes) (h : Sorted l) : Sorted (sinsert k l) := by
  induction l with
  | nil => simp [sinsert, Sorted]
  | cons y ys ih =>
    simp only [sinsert]
    cases hc : Bytes.cmp k y with
    | lt =>
      have hky : Bytes.lt k y = true := by simp [Bytes.lt, hc]
      refine List.pairwise_cons.mpr ⟨?_, h⟩
      intro z hz
      rcases List.mem_cons.mp hz with e | e
      · subst e; exact hky
      · exact Bytes.lt_trans hky (h.head_lt z e)
    | eq =>
      have := Bytes.cmp_eq_iff.mp hc
      subst this
      exact h
    | gt =>
      have hyk : Bytes.lt y k = true := by simp [Bytes.lt, Bytes.cmp_gt_iff_lt.mp hc]
      refine List.pairwise_cons.mpr ⟨?_, ih h.tail⟩
      intro z hz
      rcases (mem_sinsert k z ys).mp hz with e | e
      · subst e; exact hyk
      · exact h.head_lt z e

theorem sinsert_idem (k : Bytes) (l : List Bytes) (h : Sorted l) : sinsert k (sinsert k l) = sinsert k l := by
  apply sorted_ext (sinsert_sorted k _ (sinsert_sorted k l h)) (sinsert_sorted k l h)
  intro x
  simp only [mem_sinsert]
  constructor
  · rintro (h | h | h)
    · left; exact h
    · left; exact h
    · right; exact h
  · rintro (h | h)
    · left; exact h
    · right; right; exact h

theorem sinsert_of_mem (k : Bytes) (l : List Bytes) (h : Sorted l) (hk : k ∈ l) : sinsert k l = l := by
  apply sorted_ext (sinsert_sorted k l h) h
  intro x
  simp only [mem_sinsert]
  constructor
  · rintro (e | e)
    · subst e; exact hk
    · exact e
  · intro e; right; exact e

theorem mem_erase_sorted {l : List Bytes} (h : Sorted l) (k x : Bytes) : x ∈ l.erase k ↔ x ≠ k ∧ x ∈ l :=
  List.Nodup.mem_erase_iff h.nodup

theorem filter_sinsert (p : Bytes → Bool) (k : Bytes) (l : List Bytes) (h : Sorted l) :
    (sinsert k l).filter p = if p k then sinsert k (l.filter p) else l.filter p := by
  by_cases hp : p k = true
  · simp only [hp, if_true]
    apply sorted_ext ((sinsert_sorted k l h).filter p) (sinsert_sorted k _ (h.filter p))
    intro x
    simp only [List.mem_filter, mem_sinsert]
    constructor
    · rintro ⟨e | e, hx⟩
      · left; exact e
      · right; exact ⟨e, hx⟩
    · rintro (e | ⟨e, hx⟩)
      · subst e; exact ⟨Or.inl rfl, hp⟩
      · exact ⟨Or.inr e, hx⟩
  · simp only [hp]
    apply sorted_ext ((sinsert_sorted k l h).filter p) (h.filter p)
    intro x
    simp only [List.mem_filter, mem_sinsert]
    constructor
    · rintro ⟨e | e, hx⟩
      · subst e; exact absurd hx hp
      · exact ⟨e, hx⟩
    · rintro ⟨e, hx⟩; exact ⟨Or.inr e, hx⟩

theorem filter_erase (p : Bytes → Bool) (k : Bytes) (l : List Bytes) (h : Sorted l) :
    (l.erase k).filter p = (l.filter p).erase k := by
  apply sorted_ext ((h.erase k).filter p) ((h.filter p).erase k)
  intro x
  rw [mem_erase_sorted (h.filter p)]
  simp only [List.mem_filter, mem_erase_sorted h]
  constructor
  · rintro ⟨⟨a, b⟩, c⟩; exact ⟨a, b, c⟩
  · rintro ⟨a, b, c⟩; exact ⟨⟨a, b⟩, c⟩

theorem erase_of_not_mem (k : Bytes) (l : List Bytes) (h : k ∉ l) : l.erase k = l :=
  List.erase_of_not_mem h

end Rxn.Timers
