import RxnModel.Model.Batcher
/-! Helper lemmas for C20/C04 about `Model/Batcher.lean`. -/
namespace Rxn.Batcher
variable {α : Type}

theorem add_batch (s : St α) (x : α) : (add s x).batch = s.batch ++ [x] := by
  unfold add; split <;> rfl

theorem flush_concat (s : St α) (t : Tok) : (flush s t).2 ++ (flush s t).1.batch = s.batch := by
  unfold flush; split <;> simp

theorem run_concat (ops : List (Op α)) : ∀ s : St α,
    (run s ops).2.flatten ++ (run s ops).1.batch = s.batch ++ added ops := by
  induction ops with
  | nil => intro s; simp [run, added]
  | cons o os ih =>
    intro s
    cases o with
    | add x => simp [run, step, added, ih, add_batch]
    | isFull => simp [run, step, added, ih]
    | fire => simp [run, step, added, ih]
    | flush t =>
      simp only [run, step, added, List.flatten_cons, List.append_assoc, ih]
      rw [← List.append_assoc, flush_concat]

theorem flush_stale (s : St α) (n : Nat) (h : n ≠ s.token) : flush s (.tok n) = (s, []) := by
  unfold flush flushes
  have : (s.token == n) = false := by simp; omega
  simp [this]

/-- the armed callback always carries the token of the current, non-empty batch; the last callback never a future one -/
def TimerInv (s : St α) : Prop :=
  (∀ k, s.armed = some k → k = s.token ∧ s.batch ≠ []) ∧ (∀ k, s.lastCb = some k → k ≤ s.token)

theorem timerInv_new (m : Nat) (d : Bool) : TimerInv (new m d : St α) := by
  simp [TimerInv, new]

theorem timerInv_step (s : St α) (o : Op α) (h : TimerInv s) : TimerInv (step s o).1 := by
  obtain ⟨h1, h2⟩ := h
  cases o with
  | add x =>
    simp only [step, add]
    split
    · next hc =>
      simp at hc
      refine ⟨?_, ?_⟩
      · intro k hk; simp at hk; simp [hk]
      · intro k hk; simp at hk; simp [← hk]
    · refine ⟨?_, h2⟩
      intro k hk
      have := h1 k hk
      simp [this.1]
  | isFull => exact ⟨h1, h2⟩
  | fire => exact ⟨h1, h2⟩
  | flush t =>
    simp only [step, flush]
    split
    · refine ⟨by simp, ?_⟩
      intro k hk
      have := h2 k hk
      simp; omega
    · exact ⟨h1, h2⟩

theorem timerInv_run (ops : List (Op α)) : ∀ s : St α, TimerInv s → TimerInv (run s ops).1 := by
  induction ops with
  | nil => intro s h; exact h
  | cons o os ih => intro s h; simp only [run]; exact ih _ (timerInv_step s o h)

theorem step_token_mono (s : St α) (o : Op α) : s.token ≤ (step s o).1.token := by
  cases o with
  | add x => simp only [step, add]; split <;> simp
  | isFull => simp [step]
  | fire => simp [step]
  | flush t => simp only [step, flush]; split <;> simp

theorem run_token_mono (ops : List (Op α)) : ∀ s : St α, s.token ≤ (run s ops).1.token := by
  induction ops with
  | nil => intro s; simp [run]
  | cons o os ih => intro s; simp only [run]; exact Nat.le_trans (step_token_mono s o) (ih _)

theorem flush_token_succ (s : St α) (t : Tok) (h : (flush s t).2 ≠ []) : (flush s t).1.token = s.token + 1 := by
  unfold flush at h ⊢
  split
  · rfl
  · next hf => simp [hf] at h

end Rxn.Batcher
