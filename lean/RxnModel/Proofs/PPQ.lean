import RxnModel.Proofs.HeapIdx
/-! PartitionedPriorityQueue: the heap of partitions stays ordered by the partitions' heads under the code's
`Fix(partition.Index())` after every change of one partition, so `Peek` is a global minimum. -/
namespace Rxn.PPQ
open Rxn

theorem partLt_sw (parts : Array (List Item)) : Heap.StrictWeak (partLt parts) := by
  constructor
  · intro a b h
    unfold partLt at *
    cases ha : headOf parts a <;> cases hb : headOf parts b <;> simp_all
    omega
  · intro a b c h1 h2
    unfold partLt at *
    cases ha : headOf parts a <;> cases hb : headOf parts b <;> cases hc : headOf parts c <;> simp_all
    omega

theorem headOf_set (parts : Array (List Item)) (p : Nat) (l : List Item) (a : Nat) (h : a ≠ p) :
    headOf (parts.setIfInBounds p l) a = headOf parts a := by
  unfold headOf
  rw [Array.getD_eq_getD_getElem?, Array.getD_eq_getD_getElem?, Array.getElem?_setIfInBounds,
    if_neg (fun e => h e.symm)]

theorem partLt_set (parts : Array (List Item)) (p : Nat) (l : List Item) (a b : Nat) (ha : a ≠ p) (hb : b ≠ p) :
    partLt (parts.setIfInBounds p l) a b = partLt parts a b := by
  unfold partLt
  rw [headOf_set parts p l a ha, headOf_set parts p l b hb]

/-- the heap holds every partition exactly once and is ordered by the partitions' current heads -/
structure PInv (q : Q) : Prop where
  hinv : Heap.Inv (partLt q.parts) q.heap
  hperm : q.heap.toList.Perm (List.range q.parts.size)
  /-- every partition's stored index (`Index()`) is its position in the heap -/
  hidx : HeapI.Ok id q.heap q.idx

/-- `partition.Index()` is the partition's position (from the assigner invariant) -/
theorem index_spec (heap : Array Nat) (idx : Nat → Int) (n p : Nat) (hperm : heap.toList.Perm (List.range n))
    (hok : HeapI.Ok id heap idx) (hp : p < n) :
    0 ≤ idx p ∧ ∃ hi : (idx p).toNat < heap.size, heap[(idx p).toNat] = p ∧
      ∀ j y, heap[j]? = some y → y = p → j = (idx p).toNat := by
  have hmem : p ∈ heap.toList := hperm.symm.subset (List.mem_range.mpr hp)
  obtain ⟨i, hi, hip⟩ := List.getElem_of_mem hmem
  simp only [Array.length_toList] at hi
  simp only [Array.getElem_toList] at hip
  have hpos := hok.pos i hi
  simp only [id, hip] at hpos
  refine ⟨by omega, by rw [hpos]; simpa using hi, ?_, ?_⟩
  · simp only [hpos, Int.toNat_natCast]; exact hip
  · intro j y hy hyp
    have hj := Heap.lt_size_of_get? hy
    rw [Heap.get?_some hj] at hy
    simp only [Option.some.injEq] at hy
    have := hok.inj j i hj hi (by simp only [id]; rw [hy, hyp, hip])
    rw [hpos]; simpa using this

/-- the step shared by `Pop`, `Push`, `Delete`: one partition changed, then `heap.Fix(partition.Index())` -/
theorem refix_inv (q : Q) (h : PInv q) (p : Nat) (hp : p < q.parts.size) (l : List Item) :
    PInv ⟨q.parts.setIfInBounds p l, (refix (q.parts.setIfInBounds p l) q.heap q.idx p).1,
      (refix (q.parts.setIfInBounds p l) q.heap q.idx p).2⟩ := by
  obtain ⟨h0, hi, hip, huniq⟩ := index_spec q.heap q.idx q.parts.size p h.hperm h.hidx hp
  have sw := partLt_sw q.parts
  have sw' := partLt_sw (q.parts.setIfInBounds p l)
  have hne : ∀ j y, q.heap[j]? = some y → j ≠ (q.idx p).toNat → y ≠ p := fun j y hy hj e => hj (huniq j y hy e)
  have hle : ∀ a b, a ≠ p → b ≠ p → (Heap.le (partLt (q.parts.setIfInBounds p l)) a b ↔ Heap.le (partLt q.parts) a b) := by
    intro a b ha hb; unfold Heap.le; rw [partLt_set q.parts p l b a hb ha]
  have hfst : (refix (q.parts.setIfInBounds p l) q.heap q.idx p).1 =
      Heap.fix (partLt (q.parts.setIfInBounds p l)) q.heap (q.idx p).toNat := HeapI.fixI_fst _ _ _ _ _ h0
  refine ⟨?_, ?_, HeapI.fixI_ok _ _ _ _ _ h.hidx⟩
  · show Heap.Inv _ (refix (q.parts.setIfInBounds p l) q.heap q.idx p).1
    rw [hfst]
    apply Heap.fix_inv sw' _ _ hi
    constructor
    · intro j hji hpi hj0 x y hx hy
      rw [hle x y (hne _ x hx hpi) (hne _ y hy hji)]
      exact h.hinv j hj0 x y hx hy
    · intro hi0 c hc0 hcp x y hx hy
      have hpi : ((q.idx p).toNat - 1) / 2 ≠ (q.idx p).toNat := by omega
      have hci : c ≠ (q.idx p).toNat := by omega
      rw [hle x y (hne _ x hx hpi) (hne _ y hy hci)]
      exact Heap.le_trans' sw (h.hinv _ hi0 x _ hx (Heap.get?_some hi))
        (h.hinv c hc0 _ y (by rw [hcp]; exact Heap.get?_some hi) hy)
  · show (refix (q.parts.setIfInBounds p l) q.heap q.idx p).1.toList.Perm _
    rw [hfst]
    simp only [Array.size_setIfInBounds]
    exact (Heap.fix_perm _ _ _).trans h.hperm

theorem push_inv (q : Q) (h : PInv q) (x : Item) (hx : x.part < q.parts.size) : PInv (push q x) :=
  refix_inv q h x.part hx _

theorem delete_inv (q : Q) (h : PInv q) (x : Item) (hx : x.part < q.parts.size) : PInv (delete q x) :=
  refix_inv q h x.part hx _

theorem peek_part (q : Q) (h : PInv q) (p : Nat) (hp : Heap.peek q.heap = some p) : p < q.parts.size := by
  have : p ∈ q.heap.toList := by
    unfold Heap.peek at hp
    have h0 := Heap.lt_size_of_get? hp
    rw [Heap.get?_some h0] at hp
    simp only [Option.some.injEq] at hp
    rw [← hp]; exact Array.getElem_mem_toList h0
  exact List.mem_range.mp (h.hperm.subset this)

theorem pop_inv (q : Q) (h : PInv q) : PInv (pop q).2 := by
  unfold pop
  cases hp : Heap.peek q.heap with
  | none => exact h
  | some p =>
    simp only []
    cases hl : q.parts.getD p [] with
    | nil => exact h
    | cons x rest => exact refix_inv q h p (peek_part q h p hp) rest

theorem new_inv (parts : Array (List Item)) : PInv (new parts) := by
  have key : ∀ (ps : List Nat) (acc : Array Nat × (Nat → Int)), Heap.Inv (partLt parts) acc.1 →
      HeapI.Ok id acc.1 acc.2 → (acc.1.toList ++ ps).Nodup →
      Heap.Inv (partLt parts) (ps.foldl (fun h p => HeapI.pushI id (partLt parts) h.1 h.2 p) acc).1 ∧
      (ps.foldl (fun h p => HeapI.pushI id (partLt parts) h.1 h.2 p) acc).1.toList.Perm (acc.1.toList ++ ps) ∧
      HeapI.Ok id (ps.foldl (fun h p => HeapI.pushI id (partLt parts) h.1 h.2 p) acc).1
        (ps.foldl (fun h p => HeapI.pushI id (partLt parts) h.1 h.2 p) acc).2 := by
    intro ps
    induction ps with
    | nil => intro acc h ho _; simp [h, ho]
    | cons p ps ih =>
      intro acc h ho hnd
      simp only [List.foldl_cons]
      have hfst := HeapI.pushI_fst id (partLt parts) acc.1 acc.2 p
      have hperm1 : (HeapI.pushI id (partLt parts) acc.1 acc.2 p).1.toList.Perm (p :: acc.1.toList) := by
        rw [hfst]; exact Heap.push_perm _ _ _
      have hfresh : ∀ i (hi : i < acc.1.size), id acc.1[i] ≠ id p := by
        intro i hi e
        have hm : p ∈ acc.1.toList := by
          simp only [id] at e; rw [← e]; exact Array.getElem_mem_toList hi
        rw [List.nodup_append] at hnd
        exact hnd.2.2 p hm p List.mem_cons_self rfl
      obtain ⟨a, b, c⟩ := ih (HeapI.pushI id (partLt parts) acc.1 acc.2 p)
        (by rw [hfst]; exact Heap.push_inv (partLt_sw parts) acc.1 p h)
        (HeapI.pushI_ok id _ _ _ _ ho hfresh)
        (by
          have hp2 : ((HeapI.pushI id (partLt parts) acc.1 acc.2 p).1.toList ++ ps).Perm (acc.1.toList ++ p :: ps) :=
            (hperm1.append_right ps).trans (by simp only [List.cons_append]; exact List.perm_middle.symm)
          exact hp2.nodup_iff.mpr hnd)
      refine ⟨a, b.trans ?_, c⟩
      refine (hperm1.append_right ps).trans ?_
      simp only [List.cons_append]
      exact List.perm_middle.symm
  obtain ⟨a, b, c⟩ := key (List.range parts.size) (#[], fun _ => -1) (by intro j _ x y hx _; simp at hx)
    ⟨by intro i j hi; simp at hi, by intro i hi; simp at hi⟩ (by simpa using List.nodup_range)
  exact ⟨a, by simpa [new] using b, c⟩

/-- `Peek` is a global minimum: no item of any partition whose head is its minimum has a lower priority -/
theorem peek_min (q : Q) (h : PInv q) (x : Item) (hx : peek q = some x) (p : Nat) (hp : p < q.parts.size)
    (y : Item) (hy : headOf q.parts p = some y) : x.prio ≤ y.prio := by
  unfold peek at hx
  cases hr : Heap.peek q.heap with
  | none => rw [hr] at hx; cases hx
  | some r =>
    rw [hr] at hx
    simp only [] at hx
    obtain ⟨_, hi, hip, _⟩ := index_spec q.heap q.idx q.parts.size p h.hperm h.hidx hp
    have := Heap.root_min (partLt_sw q.parts) q.heap h.hinv r hr (q.idx p).toNat p (by rw [Heap.get?_some hi, hip])
    unfold Heap.le partLt at this
    rw [hy, hx] at this
    simpa using this

/-- `Peek`/`IsEmpty` report "empty" only when every partition is empty -/
theorem peek_none (q : Q) (h : PInv q) (hx : peek q = none) (p : Nat) (hp : p < q.parts.size) :
    headOf q.parts p = none := by
  unfold peek at hx
  obtain ⟨_, hi, hip, _⟩ := index_spec q.heap q.idx q.parts.size p h.hperm h.hidx hp
  cases hr : Heap.peek q.heap with
  | none =>
    unfold Heap.peek at hr
    have : q.heap.size = 0 := by
      cases hs : q.heap.size with
      | zero => rfl
      | succ n => rw [Heap.get?_some (by omega)] at hr; cases hr
    omega
  | some r =>
    rw [hr] at hx
    simp only [] at hx
    have := Heap.root_min (partLt_sw q.parts) q.heap h.hinv r hr (q.idx p).toNat p (by rw [Heap.get?_some hi, hip])
    unfold Heap.le partLt at this
    rw [hx] at this
    cases hh : headOf q.parts p with
    | none => rfl
    | some y => rw [hh] at this; simp at this

/-! partitions as supplied by the harness stay sorted by priority -/
def PSorted (q : Q) : Prop := ∀ p, (q.parts.getD p []).Pairwise (fun a b => a.prio ≤ b.prio)

theorem insertSorted_mem (x : Item) (l : List Item) (e : Item) : e ∈ insertSorted x l ↔ e = x ∨ e ∈ l := by
  induction l with
  | nil => simp [insertSorted]
  | cons y ys ih =>
    unfold insertSorted
    split
    · simp
    · simp only [List.mem_cons, ih]
      constructor
      · rintro (h | h | h) <;> simp [h]
      · rintro (h | h | h) <;> simp [h]

theorem insertSorted_sorted (x : Item) (l : List Item) (h : l.Pairwise (fun a b => a.prio ≤ b.prio)) :
    (insertSorted x l).Pairwise (fun a b => a.prio ≤ b.prio) := by
  induction l with
  | nil => simp [insertSorted]
  | cons y ys ih =>
    have hy := List.pairwise_cons.mp h
    unfold insertSorted
    split
    · rename_i hlt
      refine List.pairwise_cons.mpr ⟨?_, h⟩
      intro e he
      simp only [List.mem_cons] at he
      rcases he with rfl | he
      · omega
      · have := hy.1 e he; omega
    · rename_i hlt
      refine List.pairwise_cons.mpr ⟨?_, ih hy.2⟩
      intro e he
      rcases (insertSorted_mem x ys e).mp he with rfl | h2
      · omega
      · exact hy.1 e h2

theorem getD_set (parts : Array (List Item)) (p : Nat) (l : List Item) (a : Nat) :
    (parts.setIfInBounds p l).getD a [] = if p = a ∧ p < parts.size then l else parts.getD a [] := by
  rw [Array.getD_eq_getD_getElem?, Array.getD_eq_getD_getElem?, Array.getElem?_setIfInBounds]
  by_cases h1 : p = a
  · subst h1
    by_cases h2 : p < parts.size
    · simp [h2]
    · simp [h2]
  · simp [h1]

theorem step_sorted (q : Q) (o : Op) (h : PSorted q) : PSorted (step q o) := by
  cases o with
  | push x =>
    show PSorted (if x.part < q.parts.size then push q x else q)
    by_cases hx : x.part < q.parts.size
    · rw [if_pos hx]
      intro a
      show ((q.parts.setIfInBounds x.part (insertSorted x (q.parts.getD x.part []))).getD a []).Pairwise _
      rw [getD_set]
      by_cases hc : x.part = a ∧ x.part < q.parts.size
      · rw [if_pos hc]; exact insertSorted_sorted x _ (h x.part)
      · rw [if_neg hc]; exact h a
    · rw [if_neg hx]; exact h
  | delete x =>
    show PSorted (if x.part < q.parts.size then delete q x else q)
    by_cases hx : x.part < q.parts.size
    · rw [if_pos hx]
      intro a
      show ((q.parts.setIfInBounds x.part ((q.parts.getD x.part []).erase x)).getD a []).Pairwise _
      rw [getD_set]
      by_cases hc : x.part = a ∧ x.part < q.parts.size
      · rw [if_pos hc]; exact List.Pairwise.sublist List.erase_sublist (h x.part)
      · rw [if_neg hc]; exact h a
    · rw [if_neg hx]; exact h
  | pop =>
    show PSorted (pop q).2
    unfold pop
    cases hp : Heap.peek q.heap with
    | none => exact h
    | some p =>
      simp only []
      cases hl : q.parts.getD p [] with
      | nil => exact h
      | cons x rest =>
        intro a
        show ((q.parts.setIfInBounds p rest).getD a []).Pairwise _
        rw [getD_set]
        by_cases hc : p = a ∧ p < q.parts.size
        · rw [if_pos hc]; have := h p; rw [hl] at this; exact (List.pairwise_cons.mp this).2
        · rw [if_neg hc]; exact h a

theorem step_inv (q : Q) (o : Op) (h : PInv q) : PInv (step q o) := by
  cases o with
  | push x =>
    show PInv (if x.part < q.parts.size then push q x else q)
    by_cases hx : x.part < q.parts.size
    · rw [if_pos hx]; exact push_inv q h x hx
    · rw [if_neg hx]; exact h
  | delete x =>
    show PInv (if x.part < q.parts.size then delete q x else q)
    by_cases hx : x.part < q.parts.size
    · rw [if_pos hx]; exact delete_inv q h x hx
    · rw [if_neg hx]; exact h
  | pop => exact pop_inv q h

theorem runFrom_inv (parts : Array (List Item)) (ops : List Op)
    (hs : ∀ p, (parts.getD p []).Pairwise (fun a b => a.prio ≤ b.prio)) :
    PInv (runFrom parts ops) ∧ PSorted (runFrom parts ops) := by
  unfold runFrom
  have key : ∀ q, PInv q → PSorted q → PInv (ops.foldl step q) ∧ PSorted (ops.foldl step q) := by
    induction ops with
    | nil => intro q a b; exact ⟨a, b⟩
    | cons o ops ih => intro q a b; exact ih _ (step_inv q o a) (step_sorted q o b)
  exact key _ (new_inv _) (by intro p; simpa [new] using hs p)

theorem run_inv (n : Nat) (ops : List Op) : PInv (run n ops) ∧ PSorted (run n ops) := by
  apply runFrom_inv
  intro p
  rw [Array.getD_eq_getD_getElem?]
  by_cases hp : p < n
  · simp [hp]
  · simp [hp]

/-- `Pop` returns what `Peek` shows and removes exactly that item (the head of one partition) -/
theorem pop_spec (q : Q) :
    (pop q).1 = peek q ∧
    ∀ x, peek q = some x → ∃ p, (q.parts.getD p []).head? = some x ∧
      (pop q).2.parts = q.parts.setIfInBounds p (q.parts.getD p []).tail := by
  unfold pop peek
  cases hp : Heap.peek q.heap with
  | none => exact ⟨rfl, fun x hx => by cases hx⟩
  | some p =>
    simp only [headOf]
    cases hl : q.parts.getD p [] with
    | nil => exact ⟨rfl, fun x hx => by cases hx⟩
    | cons y rest =>
      refine ⟨rfl, fun x hx => ⟨p, ?_, ?_⟩⟩
      · rw [hl]; exact hx
      · simp only [hl, List.tail_cons]

/-! ### trace-level refinement: the queue against a multiset of all queued items -/

theorem getD_toList (parts : Array (List Item)) (p : Nat) : parts.getD p [] = parts.toList.getD p [] := by
  rw [Array.getD_eq_getD_getElem?, List.getD_eq_getElem?_getD, Array.getElem?_toList]

theorem flatten_set_add (l : List (List Item)) (i : Nat) (x : Item) (l' : List Item) (hi : i < l.length)
    (h : l'.Perm (x :: l.getD i [])) : (l.set i l').flatten.Perm (x :: l.flatten) := by
  induction l generalizing i with
  | nil => simp at hi
  | cons r rs ih =>
    cases i with
    | zero =>
      simp only [List.getD_cons_zero] at h
      simp only [List.set_cons_zero, List.flatten_cons]
      exact (h.append_right _).trans (by simp)
    | succ i =>
      simp only [List.getD_cons_succ] at h
      simp only [List.set_cons_succ, List.flatten_cons]
      exact (List.Perm.append_left r (ih i (by simpa using hi) h)).trans List.perm_middle

theorem flatten_set_remove (l : List (List Item)) (i : Nat) (x : Item) (l' : List Item)
    (h : (l.getD i []).Perm (x :: l')) : l.flatten.Perm (x :: (l.set i l').flatten) := by
  induction l generalizing i with
  | nil => simp at h
  | cons r rs ih =>
    cases i with
    | zero =>
      simp only [List.getD_cons_zero] at h
      simp only [List.set_cons_zero, List.flatten_cons]
      exact (h.append_right _).trans (by simp)
    | succ i =>
      simp only [List.getD_cons_succ] at h
      simp only [List.set_cons_succ, List.flatten_cons]
      exact (List.Perm.append_left r (ih i h)).trans List.perm_middle

theorem mem_flatten_iff (parts : Array (List Item)) (y : Item) :
    y ∈ parts.toList.flatten ↔ ∃ p, y ∈ parts.getD p [] := by
  simp only [List.mem_flatten]
  constructor
  · rintro ⟨r, hr, hy⟩
    obtain ⟨i, hi, e⟩ := List.getElem_of_mem hr
    refine ⟨i, ?_⟩
    rw [getD_toList, List.getD_eq_getElem?_getD, List.getElem?_eq_getElem hi]
    simpa [e] using hy
  · rintro ⟨p, hy⟩
    rw [getD_toList, List.getD_eq_getElem?_getD] at hy
    by_cases hp : p < parts.toList.length
    · rw [List.getElem?_eq_getElem hp] at hy
      exact ⟨_, List.getElem_mem hp, by simpa using hy⟩
    · rw [List.getElem?_eq_none (by omega)] at hy; cases hy

/-- every item sits in the partition its index function names -/
def PPart (q : Q) : Prop := ∀ p y, y ∈ q.parts.getD p [] → y.part = p

theorem step_part (q : Q) (o : Op) (h : PPart q) : PPart (step q o) := by
  cases o with
  | push x =>
    show PPart (if x.part < q.parts.size then push q x else q)
    by_cases hx : x.part < q.parts.size
    · rw [if_pos hx]
      intro a y hy
      change y ∈ (q.parts.setIfInBounds x.part (insertSorted x (q.parts.getD x.part []))).getD a [] at hy
      rw [getD_set] at hy
      by_cases hc : x.part = a ∧ x.part < q.parts.size
      · rw [if_pos hc] at hy
        rcases (insertSorted_mem x _ y).mp hy with rfl | h2
        · exact hc.1
        · rw [← hc.1]; exact h _ y h2
      · rw [if_neg hc] at hy; exact h a y hy
    · rw [if_neg hx]; exact h
  | delete x =>
    show PPart (if x.part < q.parts.size then delete q x else q)
    by_cases hx : x.part < q.parts.size
    · rw [if_pos hx]
      intro a y hy
      change y ∈ (q.parts.setIfInBounds x.part ((q.parts.getD x.part []).erase x)).getD a [] at hy
      rw [getD_set] at hy
      by_cases hc : x.part = a ∧ x.part < q.parts.size
      · rw [if_pos hc] at hy; rw [← hc.1]; exact h _ y (List.mem_of_mem_erase hy)
      · rw [if_neg hc] at hy; exact h a y hy
    · rw [if_neg hx]; exact h
  | pop =>
    show PPart (pop q).2
    unfold pop
    cases hp : Heap.peek q.heap with
    | none => exact h
    | some p =>
      simp only []
      cases hl : q.parts.getD p [] with
      | nil => exact h
      | cons x rest =>
        intro a y hy
        change y ∈ (q.parts.setIfInBounds p rest).getD a [] at hy
        rw [getD_set] at hy
        by_cases hc : p = a ∧ p < q.parts.size
        · rw [if_pos hc] at hy; rw [← hc.1]; exact h p y (by rw [hl]; exact List.mem_cons_of_mem _ hy)
        · rw [if_neg hc] at hy; exact h a y hy

/-- `Peek` is not above any queued item -/
theorem peek_le_all (q : Q) (hinv : PInv q) (hsorted : PSorted q) (x : Item) (hx : peek q = some x) :
    ∀ y ∈ q.parts.toList.flatten, x.prio ≤ y.prio := by
  intro y hy
  obtain ⟨p, hyp⟩ := (mem_flatten_iff q.parts y).mp hy
  by_cases hp : p < q.parts.size
  · cases hl : q.parts.getD p [] with
    | nil => rw [hl] at hyp; cases hyp
    | cons a as =>
      have h1 := peek_min q hinv x hx p hp a (by unfold headOf; rw [hl]; rfl)
      have h2 := hsorted p
      rw [hl] at h2 hyp
      simp only [List.mem_cons] at hyp
      rcases hyp with rfl | hyp
      · exact h1
      · have := (List.pairwise_cons.mp h2).1 y hyp; omega
  · rw [Array.getD_eq_getD_getElem?, Array.getElem?_eq_none (by omega)] at hyp; cases hyp

def out (q : Q) : Op → Option Item
  | .pop => (pop q).1
  | _ => none

def trace : Q → List Op → List (Option Item)
  | _, [] => []
  | q, op :: ops => out q op :: trace (step q op) ops

/-- reference: one multiset of all queued items (`n` partitions exist) -/
def specStep (n : Nat) (ms : List Item) : Op → Option Item → List Item
  | .push x, _ => if x.part < n then x :: ms else ms
  | .delete x, _ => if x.part < n then ms.erase x else ms
  | .pop, some x => ms.erase x
  | .pop, none => ms

/-- the reference accepts the outputs: every `Pop` output is a minimum-priority item of the reference contents (which
then lose exactly it) and `Pop` fails only on empty contents -/
def Accepts (n : Nat) : List Item → List Op → List (Option Item) → Prop
  | _, [], [] => True
  | ms, .pop :: ops, none :: outs => ms = [] ∧ Accepts n ms ops outs
  | ms, .pop :: ops, some x :: outs => x ∈ ms ∧ (∀ y ∈ ms, x.prio ≤ y.prio) ∧ Accepts n (ms.erase x) ops outs
  | ms, op :: ops, none :: outs => Accepts n (specStep n ms op none) ops outs
  | _, _, _ => False

theorem accepts_perm (n : Nat) (ms ms' : List Item) (hp : ms.Perm ms') (ops : List Op) (outs : List (Option Item))
    (h : Accepts n ms ops outs) : Accepts n ms' ops outs := by
  induction ops generalizing ms ms' outs with
  | nil => cases outs <;> simp [Accepts] at h ⊢
  | cons op ops ih =>
    cases outs with
    | nil => cases op <;> simp [Accepts] at h
    | cons o outs =>
      cases op with
      | pop =>
        cases o with
        | none =>
          simp only [Accepts] at h ⊢
          exact ⟨by rw [h.1] at hp; exact hp.symm.eq_nil, ih _ _ hp _ h.2⟩
        | some x =>
          simp only [Accepts] at h ⊢
          exact ⟨hp.subset h.1, fun y hy => h.2.1 y (hp.symm.subset hy), ih _ _ (hp.erase x) _ h.2.2⟩
      | push x =>
        cases o with
        | none =>
          simp only [Accepts, specStep] at h ⊢
          by_cases hx : x.part < n
          · rw [if_pos hx] at h ⊢; exact ih _ _ ((List.perm_cons _).mpr hp) _ h
          · rw [if_neg hx] at h ⊢; exact ih _ _ hp _ h
        | some y => simp [Accepts] at h
      | delete x =>
        cases o with
        | none =>
          simp only [Accepts, specStep] at h ⊢
          by_cases hx : x.part < n
          · rw [if_pos hx] at h ⊢; exact ih _ _ (hp.erase x) _ h
          · rw [if_neg hx] at h ⊢; exact ih _ _ hp _ h
        | some y => simp [Accepts] at h

theorem size_step (q : Q) (o : Op) : (step q o).parts.size = q.parts.size := by
  cases o with
  | push x =>
    show (if x.part < q.parts.size then push q x else q).parts.size = _
    split
    · simp [push]
    · rfl
  | delete x =>
    show (if x.part < q.parts.size then delete q x else q).parts.size = _
    split
    · simp [delete]
    · rfl
  | pop =>
    show (pop q).2.parts.size = _
    unfold pop
    cases Heap.peek q.heap with
    | none => rfl
    | some p =>
      simp only []
      cases q.parts.getD p [] with
      | nil => rfl
      | cons x rest => simp

/-- one step moves the contents as the multiset reference does; `Pop` returns a minimum, and fails only when empty -/
theorem step_refines (q : Q) (hinv : PInv q) (hsorted : PSorted q) (hpart : PPart q) (op : Op) :
    (step q op).parts.toList.flatten.Perm (specStep q.parts.size q.parts.toList.flatten op (out q op)) ∧
    (op = .pop → match out q op with
      | none => q.parts.toList.flatten = []
      | some x => x ∈ q.parts.toList.flatten ∧ ∀ y ∈ q.parts.toList.flatten, x.prio ≤ y.prio) := by
  cases op with
  | push x =>
    refine ⟨?_, fun e => by cases e⟩
    show (if x.part < q.parts.size then push q x else q).parts.toList.flatten.Perm _
    simp only [specStep]
    by_cases hx : x.part < q.parts.size
    · rw [if_pos hx, if_pos hx]
      show (q.parts.setIfInBounds x.part (insertSorted x (q.parts.getD x.part []))).toList.flatten.Perm _
      rw [Array.toList_setIfInBounds]
      apply flatten_set_add _ _ x _ (by simpa using hx)
      rw [← getD_toList]
      -- insertSorted adds exactly x
      have : ∀ l : List Item, (insertSorted x l).Perm (x :: l) := by
        intro l
        induction l with
        | nil => simp [insertSorted]
        | cons y ys ih =>
          unfold insertSorted
          split
          · exact List.Perm.refl _
          · exact ((List.perm_cons y).mpr ih).trans (List.Perm.swap x y ys)
      exact this _
    · rw [if_neg hx, if_neg hx]
  | delete x =>
    refine ⟨?_, fun e => by cases e⟩
    show (if x.part < q.parts.size then delete q x else q).parts.toList.flatten.Perm _
    simp only [specStep]
    by_cases hx : x.part < q.parts.size
    · rw [if_pos hx, if_pos hx]
      show (q.parts.setIfInBounds x.part ((q.parts.getD x.part []).erase x)).toList.flatten.Perm _
      rw [Array.toList_setIfInBounds]
      by_cases hm : x ∈ q.parts.getD x.part []
      · have h1 := flatten_set_remove q.parts.toList x.part x ((q.parts.getD x.part []).erase x)
          (by rw [← getD_toList]; exact List.perm_cons_erase hm)
        have hxm : x ∈ q.parts.toList.flatten := h1.symm.subset List.mem_cons_self
        exact ((List.perm_cons x).mp ((List.perm_cons_erase hxm).symm.trans h1)).symm
      · rw [List.erase_of_not_mem hm]
        have hnm : x ∉ q.parts.toList.flatten := by
          intro hh
          obtain ⟨p, hp⟩ := (mem_flatten_iff q.parts x).mp hh
          have := hpart p x hp
          rw [← this] at hp; exact hm hp
        rw [List.erase_of_not_mem hnm]
        have : q.parts.toList.set x.part (q.parts.getD x.part []) = q.parts.toList := by
          rw [getD_toList, List.getD_eq_getElem?_getD, List.getElem?_eq_getElem (by simpa using hx)]
          simp only [Option.getD_some]
          exact List.set_getElem_self _
        rw [this]
    · rw [if_neg hx, if_neg hx]
  | pop =>
    have hps := pop_spec q
    show (pop q).2.parts.toList.flatten.Perm (specStep q.parts.size q.parts.toList.flatten .pop (pop q).1) ∧
      (Op.pop = Op.pop → match (pop q).1 with
        | none => q.parts.toList.flatten = []
        | some x => x ∈ q.parts.toList.flatten ∧ ∀ y ∈ q.parts.toList.flatten, x.prio ≤ y.prio)
    rw [hps.1]
    cases hpk : peek q with
    | none =>
      have hall : ∀ p, q.parts.getD p [] = [] := by
        intro p
        by_cases hp : p < q.parts.size
        · have := peek_none q hinv hpk p hp
          unfold headOf at this
          cases hl : q.parts.getD p [] with
          | nil => rfl
          | cons a as => rw [hl] at this; cases this
        · rw [Array.getD_eq_getD_getElem?, Array.getElem?_eq_none (by omega)]; rfl
      have hnil : q.parts.toList.flatten = [] := by
        apply List.eq_nil_iff_forall_not_mem.mpr
        intro y hy
        obtain ⟨p, hp⟩ := (mem_flatten_iff q.parts y).mp hy
        rw [hall p] at hp; cases hp
      refine ⟨?_, fun _ => hnil⟩
      simp only [specStep]
      -- nothing was popped: the state is unchanged
      have : (pop q).2 = q := by
        unfold pop
        unfold peek at hpk
        cases hh : Heap.peek q.heap with
        | none => rfl
        | some p =>
          simp only []
          rw [hall p]
      rw [this]
    | some x =>
      obtain ⟨p, hhead, hparts⟩ := hps.2 x hpk
      have hold : (q.parts.getD p []).Perm (x :: (q.parts.getD p []).tail) := by
        cases hl : q.parts.getD p [] with
        | nil => rw [hl] at hhead; cases hhead
        | cons a as => rw [hl] at hhead; simp only [List.head?_cons, Option.some.injEq] at hhead; rw [hhead]; simp
      have h1 := flatten_set_remove q.parts.toList p x (q.parts.getD p []).tail (by rw [← getD_toList]; exact hold)
      have hxm : x ∈ q.parts.toList.flatten := h1.symm.subset List.mem_cons_self
      refine ⟨?_, fun _ => ⟨hxm, peek_le_all q hinv hsorted x hpk⟩⟩
      simp only [specStep]
      rw [hparts, Array.toList_setIfInBounds]
      exact ((List.perm_cons x).mp ((List.perm_cons_erase hxm).symm.trans h1)).symm

theorem trace_accepted (q : Q) (hinv : PInv q) (hsorted : PSorted q) (hpart : PPart q) (ops : List Op) :
    Accepts q.parts.size q.parts.toList.flatten ops (trace q ops) := by
  induction ops generalizing q with
  | nil => simp [trace, Accepts]
  | cons op ops ih =>
    obtain ⟨b, c⟩ := step_refines q hinv hsorted hpart op
    have hrec := ih (step q op) (step_inv q op hinv) (step_sorted q op hsorted) (step_part q op hpart)
    rw [size_step] at hrec
    have := accepts_perm _ _ _ b ops _ hrec
    cases op with
    | push x => simp only [trace, out, Accepts]; exact this
    | delete x => simp only [trace, out, Accepts]; exact this
    | pop =>
      have c' := c rfl
      simp only [trace]
      cases ho : out q .pop with
      | none => rw [ho] at c' this; simp only [Accepts]; exact ⟨c', this⟩
      | some x => rw [ho] at c' this; simp only [Accepts]; exact ⟨c'.1, c'.2, this⟩

end Rxn.PPQ
