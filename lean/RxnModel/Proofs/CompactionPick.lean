import RxnModel.Proofs.CompactionView
/-!
The compactor's picks (`compact`: major, minor level 0, minor deeper) lie in the safe family.
-/
namespace Rxn.Compaction
open Rxn Rxn.Lsm

/-! ## `chunk`: any cut list gives non-empty pieces that concatenate to the run -/

theorem chunkNE_flatten (cs : List Nat) (r : Run) : (chunkNE cs r).flatten = r := by
  fun_induction chunkNE cs r with
  | case1 => rfl
  | case2 r h => simp
  | case3 c cs e r ih =>
    simp only [List.flatten_cons, ih, List.cons_append, List.take_append_drop]

theorem chunkNE_nonempty (cs : List Nat) (r : Run) : ∀ x ∈ chunkNE cs r, x ≠ [] := by
  fun_induction chunkNE cs r with
  | case1 => intro x hx; cases hx
  | case2 r h =>
    intro x hx
    simp only [List.mem_singleton] at hx
    subst hx
    intro h0; exact h h0
  | case3 c cs e r ih =>
    intro x hx
    cases hx with
    | head => simp
    | tail _ hx => exact ih x hx

theorem chunk_flatten (cs : List Nat) (r : Run) : (chunk cs r).flatten = r := by
  unfold chunk
  split
  · rename_i h; simp [List.isEmpty_iff.mp h]
  · exact chunkNE_flatten cs r

theorem chunk_ok (cs : List Nat) (r : Run) : (∀ x ∈ chunk cs r, x ≠ []) ∨ chunk cs r = [[]] := by
  unfold chunk
  split
  · exact Or.inr rfl
  · exact Or.inl (chunkNE_nonempty cs r)

/-! ## `sortByAge` -/

theorem insertByAge_perm (t : Tbl) (l : List Tbl) : (insertByAge t l).Perm (t :: l) := by
  induction l with
  | nil => exact List.Perm.refl _
  | cons x xs ih =>
    unfold insertByAge
    split
    · exact List.Perm.refl _
    · exact ((List.Perm.cons x ih).trans (List.Perm.swap t x xs))

theorem sortByAge_perm (l : List Tbl) : (sortByAge l).Perm l := by
  induction l with
  | nil => exact List.Perm.refl _
  | cons x xs ih =>
    show (insertByAge x (sortByAge xs)).Perm (x :: xs)
    exact (insertByAge_perm x _).trans (List.Perm.cons x ih)

theorem mem_sortByAge {l : List Tbl} {t : Tbl} : t ∈ sortByAge l ↔ t ∈ l := (sortByAge_perm l).mem_iff

/-- when the ages already increase in stored order (level 0 built by flushes) the age order is the stored order -/
theorem sortByAge_eq_self {l : List Tbl} (h : l.Pairwise (fun a b => age a < age b)) : sortByAge l = l := by
  induction l with
  | nil => rfl
  | cons x xs ih =>
    have ⟨h1, h2⟩ := List.pairwise_cons.mp h
    show insertByAge x (sortByAge xs) = x :: xs
    rw [ih h2]
    cases xs with
    | nil => rfl
    | cons y ys =>
      unfold insertByAge
      rw [if_pos (Nat.le_of_lt (h1 y List.mem_cons_self))]

theorem insertByAge_sorted (t : Tbl) {l : List Tbl} (h : l.Pairwise (fun a b => age a ≤ age b)) :
    (insertByAge t l).Pairwise (fun a b => age a ≤ age b) := by
  induction l with
  | nil => exact List.pairwise_singleton _ _
  | cons x xs ih =>
    have ⟨h1, h2⟩ := List.pairwise_cons.mp h
    unfold insertByAge
    split
    · rename_i hle
      refine List.pairwise_cons.mpr ⟨?_, h⟩
      intro b hb
      cases hb with
      | head => exact hle
      | tail _ hb => exact Nat.le_trans hle (h1 b hb)
    · rename_i hle
      refine List.pairwise_cons.mpr ⟨?_, ih h2⟩
      intro b hb
      cases (insertByAge_perm t xs).mem_iff.mp hb with
      | head => omega
      | tail _ hb => exact h1 b hb

theorem sortByAge_sorted (l : List Tbl) : (sortByAge l).Pairwise (fun a b => age a ≤ age b) := by
  induction l with
  | nil => exact List.Pairwise.nil
  | cons x xs ih => exact insertByAge_sorted x ih

/-! ## the candidate loops -/

theorem takeUntil_sub (met : Nat → Bool) (n : Nat) (l : List Tbl) : ∀ t ∈ (takeUntil met n l).1, t ∈ l := by
  induction l generalizing n with
  | nil => intro t ht; cases ht
  | cons x xs ih =>
    intro t ht
    unfold takeUntil at ht
    split at ht
    · simp only [List.mem_singleton] at ht; subst ht; exact List.mem_cons_self
    · cases ht with
      | head => exact List.mem_cons_self
      | tail _ h => exact List.mem_cons_of_mem _ (ih (n + 1) t h)

/-- without the `break` the whole level was taken -/
theorem takeUntil_all (met : Nat → Bool) (n : Nat) (l : List Tbl) (h : (takeUntil met n l).2 = false) :
    (takeUntil met n l).1 = l := by
  induction l generalizing n with
  | nil => rfl
  | cons x xs ih =>
    unfold takeUntil at h ⊢
    split
    · rename_i hm; rw [if_pos hm] at h; cases h
    · rename_i hm
      rw [if_neg hm] at h
      simp only at h ⊢
      rw [ih (n + 1) h]

/-- what is taken from a level is closed towards the older candidates -/
theorem takeUntil_closed (met : Nat → Bool) (n : Nat) (l : List Tbl) (hnd : l.Nodup) :
    l.Pairwise (fun a b => b ∈ (takeUntil met n l).1 → a ∈ (takeUntil met n l).1) := by
  induction l generalizing n with
  | nil => exact List.Pairwise.nil
  | cons x xs ih =>
    have ⟨hx, hxs⟩ := List.nodup_cons.mp hnd
    unfold takeUntil
    split
    · refine List.pairwise_cons.mpr ⟨fun b _ _ => List.mem_cons_self, ?_⟩
      apply pairwise_of_forall_right
      intro b hb a hb'
      simp only [List.mem_singleton] at hb'
      subst hb'; exact absurd hb hx
    · refine List.pairwise_cons.mpr ⟨fun b _ _ => List.mem_cons_self, ?_⟩
      refine List.Pairwise.imp_of_mem ?_ (ih (n + 1) hxs)
      intro a b _ hb hab hb'
      cases hb' with
      | head => exact absurd hb hx
      | tail _ h => exact List.mem_cons_of_mem _ (hab h)

/-- levels that share no table -/
abbrev Apart (l1 l2 : List Tbl) : Prop := ∀ x ∈ l1, ∀ y ∈ l2, x ≠ y

theorem majorPickWith_sub (order : List Tbl → List Tbl) (hp : ∀ l, (order l).Perm l) (met : Nat → Bool) (n : Nat)
    (ls : List (List Tbl)) : ∀ t ∈ majorPickWith order met n ls, ∃ l ∈ ls, t ∈ l := by
  induction ls generalizing n with
  | nil => intro t ht; cases ht
  | cons l ls ih =>
    intro t ht
    unfold majorPickWith at ht
    simp only at ht
    split at ht
    · exact ⟨l, List.mem_cons_self, (hp _).mem_iff.mp (takeUntil_sub _ _ _ t ht)⟩
    · cases List.mem_append.mp ht with
      | inl h => exact ⟨l, List.mem_cons_self, (hp _).mem_iff.mp (takeUntil_sub _ _ _ t h)⟩
      | inr h =>
        obtain ⟨l', hl', ht'⟩ := ih _ t h
        exact ⟨l', List.mem_cons_of_mem _ hl', ht'⟩

/-- a table of a level is only picked after every level visited earlier was taken entirely -/
theorem majorPickWith_closed (order : List Tbl → List Tbl) (hp : ∀ l, (order l).Perm l) (met : Nat → Bool) (n : Nat)
    (ls : List (List Tbl)) (hap : ls.Pairwise Apart) :
    ls.Pairwise (fun earlier later =>
      (∃ t ∈ later, t ∈ majorPickWith order met n ls) → ∀ t ∈ earlier, t ∈ majorPickWith order met n ls) := by
  induction ls generalizing n with
  | nil => exact List.Pairwise.nil
  | cons l ls ih =>
    have ⟨hap1, hap2⟩ := List.pairwise_cons.mp hap
    unfold majorPickWith
    simp only
    split
    · -- the goal was met inside `l`: nothing of a later level is picked
      have hnone : ∀ later ∈ ls, ¬ ∃ t ∈ later, t ∈ (takeUntil met n (order l)).1 := by
        rintro later hl ⟨t, ht, htp⟩
        exact hap1 later hl t ((hp _).mem_iff.mp (takeUntil_sub _ _ _ t htp)) t ht rfl
      refine List.pairwise_cons.mpr ⟨fun later hl hex => absurd hex (hnone later hl), ?_⟩
      apply pairwise_of_forall_right
      intro later hl earlier hex
      exact absurd hex (hnone later hl)
    · rename_i hm
      have hm' : (takeUntil met n (order l)).2 = false := by simpa using hm
      have hall := takeUntil_all met n (order l) hm'
      refine List.pairwise_cons.mpr ⟨?_, ?_⟩
      · intro later _ _ t ht
        apply List.mem_append_left
        rw [hall]; exact (hp _).mem_iff.mpr ht
      · refine List.Pairwise.imp_of_mem ?_ (ih (n + (takeUntil met n (order l)).1.length) hap2)
        intro earlier later _ hlater hab hex t ht
        obtain ⟨x, hx, hxp⟩ := hex
        cases List.mem_append.mp hxp with
        | inl h =>
          exact absurd rfl (hap1 later hlater x ((hp _).mem_iff.mp (takeUntil_sub _ _ _ x h)) x hx)
        | inr h => exact List.mem_append_right _ (hab ⟨x, hx, h⟩ t ht)

/-- inside every level the picked tables are closed towards the older ones (in age order) -/
theorem majorPickWith_age_closed (order : List Tbl → List Tbl) (hp : ∀ l, (order l).Perm l) (met : Nat → Bool) (n : Nat)
    (ls : List (List Tbl)) (hap : ls.Pairwise Apart) (hnd : ∀ l ∈ ls, l.Nodup) :
    ∀ l ∈ ls, (order l).Pairwise (fun a b => b ∈ majorPickWith order met n ls → a ∈ majorPickWith order met n ls) := by
  induction ls generalizing n with
  | nil => intro l hl; cases hl
  | cons l0 ls ih =>
    have ⟨hap1, hap2⟩ := List.pairwise_cons.mp hap
    have hnd0 : (order l0).Nodup := (hp l0).nodup_iff.mpr (hnd l0 List.mem_cons_self)
    have hclosed0 := takeUntil_closed met n (order l0) hnd0
    intro l hl
    unfold majorPickWith
    simp only
    cases hl with
    | head =>
      split
      · exact hclosed0
      · refine List.Pairwise.imp_of_mem ?_ hclosed0
        intro a b _ hb hab hbp
        cases List.mem_append.mp hbp with
        | inl h => exact List.mem_append_left _ (hab h)
        | inr h =>
          obtain ⟨l', hl', hbl'⟩ := majorPickWith_sub order hp _ _ _ b h
          exact absurd rfl (hap1 l' hl' b ((hp _).mem_iff.mp hb) b hbl')
    | tail _ hl =>
      split
      · apply List.pairwise_of_forall_mem_list
        intro a _ b hb hbp
        exact absurd rfl (hap1 l hl b ((hp _).mem_iff.mp (takeUntil_sub _ _ _ b hbp)) b ((hp _).mem_iff.mp hb))
      · refine List.Pairwise.imp_of_mem ?_ (ih (n + (takeUntil met n (order l0)).1.length) hap2
          (fun x hx => hnd x (List.mem_cons_of_mem _ hx)) l hl)
        intro a b _ hb hab hbp
        cases List.mem_append.mp hbp with
        | inl h =>
          exact absurd rfl (hap1 l hl b ((hp _).mem_iff.mp (takeUntil_sub _ _ _ b h)) b ((hp _).mem_iff.mp hb))
        | inr h => exact List.mem_append_right _ (hab h)

theorem majorPick_sub (met : Nat → Bool) (n : Nat) (ls : List (List Tbl)) :
    ∀ t ∈ majorPick met n ls, ∃ l ∈ ls, t ∈ l := majorPickWith_sub sortByAge sortByAge_perm met n ls

/-! ## distinct ids: removal by id is removal of exactly the picked tables -/

theorem ids_pairwise {L : Levels} (h : (L.flatten.map (·.id)).Nodup) :
    L.flatten.Pairwise (fun a b => a.id ≠ b.id) := List.pairwise_map.mp h

theorem ids_inj {L : Levels} (h : (L.flatten.map (·.id)).Nodup) {a b : Tbl} (ha : a ∈ L.flatten)
    (hb : b ∈ L.flatten) (hid : a.id = b.id) : a = b := by
  rcases pairwise_or (ids_pairwise h) ha hb with h1 | h1 | h1
  · exact h1
  · exact absurd hid h1
  · exact absurd hid.symm h1

theorem levels_apart {L : Levels} (h : (L.flatten.map (·.id)).Nodup) : L.Pairwise Apart := by
  refine List.Pairwise.imp ?_ (List.pairwise_flatten.mp (ids_pairwise h)).2
  intro l1 l2 h12 x hx y hy hxy
  exact h12 x hx y hy (by rw [hxy])

theorem level_nodup {L : Levels} (h : (L.flatten.map (·.id)).Nodup) : ∀ l ∈ L, l.Nodup := by
  intro l hl
  refine List.Pairwise.imp ?_ ((List.pairwise_flatten.mp (ids_pairwise h)).1 l hl)
  intro a b hab heq
  exact hab (by rw [heq])

theorem getD_apart {L : Levels} (h : (L.flatten.map (·.id)).Nodup) {i j : Nat} (hij : i ≠ j) :
    Apart (L.getD i []) (L.getD j []) := by
  intro x hx y hy
  by_cases hi : i < L.length
  · by_cases hj : j < L.length
    · rw [List.getD_eq_getElem?_getD, List.getElem?_eq_getElem hi] at hx
      rw [List.getD_eq_getElem?_getD, List.getElem?_eq_getElem hj] at hy
      have hp := List.pairwise_iff_getElem.mp (levels_apart h)
      rcases Nat.lt_or_gt_of_ne hij with hlt | hlt
      · exact hp i j hi hj hlt x hx y hy
      · exact fun heq => hp j i hj hi hlt y hy x hx heq.symm
    · rw [List.getD_eq_getElem?_getD, List.getElem?_eq_none (by omega)] at hy; cases hy
  · rw [List.getD_eq_getElem?_getD, List.getElem?_eq_none (by omega)] at hx; cases hx

theorem rmP_iff {L : Levels} (h : (L.flatten.map (·.id)).Nodup) {ts : List Tbl} (hsub : ∀ t ∈ ts, t ∈ L.flatten)
    {t : Tbl} (ht : t ∈ L.flatten) : rmP (ts.map (·.id)) t = true ↔ t ∈ ts := by
  unfold rmP
  rw [List.contains_iff_mem, List.mem_map]
  constructor
  · rintro ⟨t', ht', hid⟩
    rw [← ids_inj h (hsub t' ht') ht hid]; exact ht'
  · intro h'; exact ⟨t, h', rfl⟩

theorem rmP_false {L : Levels} (h : (L.flatten.map (·.id)).Nodup) {ts : List Tbl} (hsub : ∀ t ∈ ts, t ∈ L.flatten)
    {t : Tbl} (ht : t ∈ L.flatten) (hn : t ∉ ts) : rmP (ts.map (·.id)) t = false := by
  cases hr : rmP (ts.map (·.id)) t with
  | false => rfl
  | true => exact absurd ((rmP_iff h hsub ht).mp hr) hn

/-- `kv.MergeEntries` keeps the version with the largest sequence number: on a valid layout the order in which
the picked tables are handed to it does not matter -/
theorem merge_order_irrelevant {L : Levels} (hv : WeakValid L) (hid : (L.flatten.map (·.id)).Nodup)
    {ts : List Tbl} (hsub : ∀ t ∈ ts, t ∈ L.flatten) :
    mergeAll (ts.map (·.run)) = mergeAll (((readOrder L).filter (rmP (ts.map (·.id)))).map (·.run)) := by
  have hs1 : ∀ r ∈ ts.map (·.run), Run.Sorted r := by
    intro r hr; obtain ⟨t, ht, rfl⟩ := List.mem_map.mp hr; exact hv.sorted t (hsub t ht)
  have hs2 : ∀ r ∈ ((readOrder L).filter (rmP (ts.map (·.id)))).map (·.run), Run.Sorted r := by
    intro r hr; obtain ⟨t, ht, rfl⟩ := List.mem_map.mp hr
    exact hv.sorted t ((readOrder_mem _ t).mp (List.mem_filter.mp ht).1)
  apply run_ext (mergeAll_sorted hs1) (mergeAll_sorted hs2)
  intro k
  rw [lookup_mergeAll hs1, lookup_mergeAll hs2]
  have hna : NewerAbove (((readOrder L).filter (rmP (ts.map (·.id)))).map (·.run)) :=
    (newerAbove_map_iff _).mpr (hv.newer.sublist List.filter_sublist)
  have hm : ∀ r, r ∈ ((readOrder L).filter (rmP (ts.map (·.id)))).map (·.run) ↔ r ∈ ts.map (·.run) := by
    intro r
    simp only [List.mem_map, List.mem_filter]
    constructor
    · rintro ⟨t, ⟨ht, hp⟩, rfl⟩
      exact ⟨t, (rmP_iff hid hsub ((readOrder_mem _ t).mp ht)).mp hp, rfl⟩
    · rintro ⟨t, ht, rfl⟩
      exact ⟨t, ⟨(readOrder_mem _ t).mpr (hsub t ht), (rmP_iff hid hsub (hsub t ht)).mpr ht⟩, rfl⟩
  rw [bestHit_eq_firstHit hna hm, bestHit_eq_firstHit hna (fun _ => Iff.rfl)]

/-- a set of picked tables with the shape all three branches of the compactor produce -/
theorem struct_of_picked {L : Levels} {ts : List Tbl} {lvl : Nat} (o : Oracle)
    (hv : WeakValid L) (hid : (L.flatten.map (·.id)).Nodup)
    (hsub : ∀ t ∈ ts, t ∈ L.flatten)
    (h1 : 1 ≤ lvl) (h2 : lvl < L.length)
    (htarget : ∀ t ∈ L.getD lvl [], t ∈ ts)
    (hbelow : ∀ i, lvl < i → ∀ t ∈ L.getD i [], t ∉ ts)
    (hl0 : (L.headD []).Pairwise (fun older newer => newer ∈ ts → older ∉ ts → DisjointKeys newer.run older.run))
    (hclosed : ∀ i j, i < j → j < lvl → (∃ t ∈ L.getD i [], t ∈ ts) → ∀ t ∈ L.getD j [], t ∈ ts) :
    StructOK L (ts.map (·.id)) lvl (mergeWrite o ts) := by
  have hhead : ∀ t ∈ L.headD [], t ∈ L.flatten := by
    intro t ht
    cases L with
    | nil => cases ht
    | cons l0 D => exact List.mem_flatten.mpr ⟨l0, List.mem_cons_self, ht⟩
  refine ⟨h1, h2, ?_, ?_, ?_, ?_, ?_, ?_⟩
  · intro t ht; exact (rmP_iff hid hsub (getD_mem_flatten ht)).mpr (htarget t ht)
  · intro i hi t ht; exact rmP_false hid hsub (getD_mem_flatten ht) (hbelow i hi t ht)
  · refine List.Pairwise.imp_of_mem ?_ hl0
    intro a b ha hb hab hpb hpa
    refine hab ((rmP_iff hid hsub (hhead b hb)).mp hpb) ?_
    intro hin
    rw [(rmP_iff hid hsub (hhead a ha)).mpr hin] at hpa; cases hpa
  · intro i j hij hj hex t ht
    obtain ⟨x, hx, hpx⟩ := hex
    exact (rmP_iff hid hsub (getD_mem_flatten ht)).mpr
      (hclosed i j hij hj ⟨x, hx, (rmP_iff hid hsub (getD_mem_flatten hx)).mp hpx⟩ t ht)
  · unfold mergeWrite
    rw [chunk_flatten]
    exact merge_order_irrelevant hv hid hsub
  · exact chunk_ok _ _

/-! ## the three branches of `Compact` -/

theorem headD_eq_getD (L : Levels) : L.headD [] = L.getD 0 [] := by cases L <;> rfl

theorem minorL0_safe {L : Levels} (o : Oracle) (hv : WeakValid L) (hid : (L.flatten.map (·.id)).Nodup)
    (h2 : 2 ≤ L.length) :
    StructOK L ((L.getD 0 [] ++ L.getD 1 []).map (·.id)) 1 (mergeWrite o (L.getD 0 [] ++ L.getD 1 [])) := by
  apply struct_of_picked o hv hid
  · intro t ht
    cases List.mem_append.mp ht with
    | inl h => exact getD_mem_flatten h
    | inr h => exact getD_mem_flatten h
  · exact Nat.le_refl _
  · omega
  · intro t ht; exact List.mem_append_right _ ht
  · intro i hi t ht hts
    cases List.mem_append.mp hts with
    | inl h => exact getD_apart hid (show 0 ≠ i by omega) t h t ht rfl
    | inr h => exact getD_apart hid (show 1 ≠ i by omega) t h t ht rfl
  · rw [headD_eq_getD]
    apply List.pairwise_of_forall_mem_list
    intro a ha _ _ _ hna
    exact absurd (List.mem_append_left _ ha) hna
  · intro i j hij hj; omega

theorem minorDeep_safe {L : Levels} (o : Oracle) (hv : WeakValid L) (hid : (L.flatten.map (·.id)).Nodup)
    (fuel cur : Nat) (hcur : 1 ≤ cur) {cs : ChangeSet} {c' : Compactor}
    (h : minorDeep L o fuel cur = (some cs, c')) : StructOK L cs.rm cs.lvl cs.add := by
  induction fuel generalizing cur with
  | zero => simp [minorDeep] at h
  | succ fuel ih =>
    unfold minorDeep at h
    split at h
    · rename_i hlt
      split at h
      · simp only [Prod.mk.injEq, Option.some.injEq] at h
        obtain ⟨hcs, _⟩ := h
        subst hcs
        show StructOK L ((L.getD cur [] ++ L.getD (cur + 1) []).map (·.id)) (cur + 1)
          (mergeWrite o (L.getD cur [] ++ L.getD (cur + 1) []))
        apply struct_of_picked o hv hid
        · intro t ht
          cases List.mem_append.mp ht with
          | inl h => exact getD_mem_flatten h
          | inr h => exact getD_mem_flatten h
        · omega
        · omega
        · intro t ht; exact List.mem_append_right _ ht
        · intro i hi t ht hts
          cases List.mem_append.mp hts with
          | inl h => exact getD_apart hid (show cur ≠ i by omega) t h t ht rfl
          | inr h => exact getD_apart hid (show cur + 1 ≠ i by omega) t h t ht rfl
        · rw [headD_eq_getD]
          apply List.pairwise_of_forall_mem_list
          intro a _ b hb hts _
          cases List.mem_append.mp hts with
          | inl h => exact absurd rfl (getD_apart hid (show 0 ≠ cur by omega) b hb b h)
          | inr h => exact absurd rfl (getD_apart hid (show 0 ≠ cur + 1 by omega) b hb b h)
        · intro i j hij hj hex t ht
          obtain ⟨x, hx, hxs⟩ := hex
          cases List.mem_append.mp hxs with
          | inl h =>
            by_cases hic : i = cur
            · omega
            · exact absurd rfl (getD_apart hid hic x hx x h)
          | inr h => exact absurd rfl (getD_apart hid (show i ≠ cur + 1 by omega) x hx x h)
      · exact ih (cur + 1) (by omega) h
    · simp at h

theorem getLastD_eq_getD (L : Levels) : L.getLastD [] = L.getD (L.length - 1) [] := by
  rw [List.getLastD_eq_getLast?, List.getLast?_eq_getElem?, List.getD_eq_getElem?_getD]

theorem major_safe_with {L : Levels} (order : List Tbl → List Tbl) (ho : OrderOK order) (o : Oracle) (hv : WeakValid L)
    (hid : (L.flatten.map (·.id)).Nodup) (hage : L0KeyAgeOrdered L) (h2 : 2 ≤ L.length) :
    StructOK L (majorCompactionWith order L o).rm (majorCompactionWith order L o).lvl
      (majorCompactionWith order L o).add := by
  unfold majorCompactionWith
  simp only
  rw [getLastD_eq_getD]
  generalize hpk : majorPickWith order o.goalMet 0 L.dropLast.reverse = picked
  have hlenU : L.dropLast.length = L.length - 1 := List.length_dropLast
  have hupper : ∀ i (hi : i < L.dropLast.length), L.dropLast[i] = L.getD i [] := by
    intro i hi
    rw [List.getElem_dropLast, List.getD_eq_getElem?_getD, List.getElem?_eq_getElem (by omega)]
    rfl
  -- the levels visited share no table and hold no table twice
  have hapU : L.dropLast.reverse.Pairwise Apart := by
    rw [List.pairwise_reverse]
    refine List.Pairwise.imp ?_ ((levels_apart hid).sublist (List.dropLast_sublist L))
    intro a b hab x hx y hy hxy
    exact hab y hy x hx hxy.symm
  have hndU : ∀ l ∈ L.dropLast.reverse, l.Nodup := by
    intro l hl
    exact level_nodup hid l (List.dropLast_subset L (List.mem_reverse.mp hl))
  have hpsub : ∀ t ∈ picked, ∃ i, i < L.length - 1 ∧ t ∈ L.getD i [] := by
    intro t ht
    rw [← hpk] at ht
    obtain ⟨l, hl, htl⟩ := majorPickWith_sub order ho.perm _ _ _ t ht
    obtain ⟨i, hi, rfl⟩ := List.mem_iff_getElem.mp (List.mem_reverse.mp hl)
    exact ⟨i, by omega, by rw [← hupper i hi]; exact htl⟩
  have hnotbase : ∀ i, i < L.length - 1 → ∀ t ∈ L.getD i [], t ∈ picked ++ L.getD (L.length - 1) [] → t ∈ picked := by
    intro i hi t ht hts
    cases List.mem_append.mp hts with
    | inl h => exact h
    | inr h => exact absurd rfl (getD_apart hid (show i ≠ L.length - 1 by omega) t ht t h)
  apply struct_of_picked o hv hid
  · intro t ht
    cases List.mem_append.mp ht with
    | inl h => obtain ⟨i, _, hti⟩ := hpsub t h; exact getD_mem_flatten hti
    | inr h => exact getD_mem_flatten h
  · omega
  · omega
  · intro t ht; exact List.mem_append_right _ ht
  · intro i hi t ht
    rw [List.getD_eq_getElem?_getD, List.getElem?_eq_none (by omega)] at ht
    cases ht
  · -- level 0: the picked tables are the oldest ones
    rw [headD_eq_getD]
    have h0 : 0 < L.dropLast.length := by omega
    have hmem0 : L.getD 0 [] ∈ L.dropLast.reverse := by
      rw [List.mem_reverse, ← hupper 0 h0]; exact List.getElem_mem h0
    have hcl := majorPickWith_age_closed order ho.perm o.goalMet 0 L.dropLast.reverse hapU hndU (L.getD 0 []) hmem0
    rw [hpk] at hcl
    have hboth := (ho.sorted (L.getD 0 [])).and hcl
    have hage' := hage
    unfold L0KeyAgeOrdered at hage'
    rw [headD_eq_getD] at hage'
    refine List.Pairwise.imp_of_mem ?_ hage'
    intro a b ha hb hab hbts hats
    -- a is older (stored before b), b is picked and a is not: they share no key
    apply Classical.byContradiction
    intro hnd
    have hlt : age a < age b := hab (fun hd => hnd (fun eb heb ea hea hk => hd ea hea eb heb hk.symm))
    have hbp := hnotbase 0 (by omega) b hb hbts
    rcases pairwise_or hboth ((ho.perm _).mem_iff.mpr ha) ((ho.perm _).mem_iff.mpr hb) with h | h | h
    · subst h; omega
    · exact hats (List.mem_append_left _ (h.2 hbp))
    · have := h.1; omega
  · intro i j hij hj hex t ht
    obtain ⟨x, hx, hxs⟩ := hex
    have hxp := hnotbase i (by omega) x hx hxs
    have hcl := majorPickWith_closed order ho.perm o.goalMet 0 L.dropLast.reverse hapU
    rw [List.pairwise_reverse, hpk] at hcl
    have hi' : i < L.dropLast.length := by omega
    have hj' : j < L.dropLast.length := by omega
    have := List.pairwise_iff_getElem.mp hcl i j hi' hj' hij
    rw [hupper i hi', hupper j hj'] at this
    exact List.mem_append_left _ (this ⟨x, hx, hxp⟩ t ht)

/-- every change set the compactor produces has the structural shape -/
theorem orderOK_sortByAge : OrderOK sortByAge := ⟨sortByAge_perm, sortByAge_sorted⟩

theorem compactWith_struct {L : Levels} {c : Compactor} {o : Oracle} (order : List Tbl → List Tbl) (ho : OrderOK order)
    (hv : WeakValid L) (hid : (L.flatten.map (·.id)).Nodup) (hage : L0KeyAgeOrdered L) (h2 : 2 ≤ L.length)
    {cs : ChangeSet} {c' : Compactor} (h : compactWith order c L o = (some cs, c')) :
    StructOK L cs.rm cs.lvl cs.add := by
  unfold compactWith at h
  split at h
  · simp at h
  · split at h
    · simp only [Prod.mk.injEq, Option.some.injEq] at h
      rw [← h.1]
      exact major_safe_with order ho o hv hid hage h2
    · unfold minorCompaction at h
      split at h
      · simp only [Prod.mk.injEq, Option.some.injEq] at h
        rw [← h.1]
        exact minorL0_safe o hv hid h2
      · rename_i hc
        exact minorDeep_safe o hv hid L.length c.minorLevel (by omega) h

theorem compact_struct {L : Levels} {c : Compactor} {o : Oracle} (hv : WeakValid L)
    (hid : (L.flatten.map (·.id)).Nodup) (hage : L0KeyAgeOrdered L) (h2 : 2 ≤ L.length)
    {cs : ChangeSet} {c' : Compactor} (h : compact c L o = (some cs, c')) : StructOK L cs.rm cs.lvl cs.add :=
  compactWith_struct sortByAge orderOK_sortByAge hv hid hage h2 h

/-- **every change set the compactor produces is safe** -/
theorem compact_safe {L : Levels} {c : Compactor} {o : Oracle} (hv : WeakValid L)
    (hid : (L.flatten.map (·.id)).Nodup) (hage : L0KeyAgeOrdered L) (h2 : 2 ≤ L.length)
    {cs : ChangeSet} {c' : Compactor} (h : compact c L o = (some cs, c')) : SafeCS L cs.rm cs.lvl cs.add :=
  safe_of_structOK hv (compact_struct hv hid hage h2 h)

/-! ## where the level-0 age hypothesis comes from -/

/-- flush-built level 0 -/
theorem keyAge_of_age {L : Levels} (h : L0AgeOrdered L) : L0KeyAgeOrdered L := by
  unfold L0AgeOrdered at h
  unfold L0KeyAgeOrdered
  exact List.Pairwise.imp (S := fun a b => ¬ DisjointKeys a.run b.run → age a < age b) (fun hab _ => hab) h

/-- a level 0 appended from several sources (`LoadCheckpointList`): every source's list is age-ordered and tables
of different sources share no key; the sequence numbers of different sources may be related in any way -/
theorem keyAge_of_sources (srcs : List (List Tbl)) (D : List (List Tbl))
    (hsrc : ∀ s ∈ srcs, s.Pairwise (fun a b => age a < age b))
    (hdis : srcs.Pairwise (fun s1 s2 => ∀ a ∈ s1, ∀ b ∈ s2, DisjointKeys a.run b.run)) :
    L0KeyAgeOrdered (srcs.flatten :: D) := by
  show (srcs.flatten).Pairwise (fun a b => ¬ DisjointKeys a.run b.run → age a < age b)
  rw [List.pairwise_flatten]
  refine ⟨fun s hs => List.Pairwise.imp (S := fun a b => ¬ DisjointKeys a.run b.run → age a < age b)
    (fun hab _ => hab) (hsrc s hs), hdis.imp ?_⟩
  intro s1 s2 h12 a ha b hb hnd
  exact absurd (h12 a ha b hb) hnd

end Rxn.Compaction
