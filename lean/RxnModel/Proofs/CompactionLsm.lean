import RxnModel.Proofs.CompactionSys
import RxnModel.Proofs.LsmOrder
/-!
The compactor inside the DKV transition system of C07 (`Lsm.step`): every change set the modelled picker produces
passes the guard `Lsm.safeCS` of the `.compact` action — also when flushes and foreground writes happen between
its computation and its commit — and the hypotheses about flushes and level-0 ages are derived from `Lsm.step`.
-/
namespace Rxn.Compaction
open Rxn Rxn.Lsm

/-! ## completeness of the executable test for the structural shape -/

theorem safeCS_of_structOK {L : Levels} {rm : List Nat} {lvl : Nat} {add : List Run}
    (h : StructOK L rm lvl add) (hex : ∃ t ∈ L.flatten, rmP rm t = true) : safeCS L rm lvl add = true := by
  obtain ⟨t0, ht0, hp0⟩ := hex
  obtain ⟨i0, hi0, hti0⟩ := mem_flatten_getD ht0
  unfold safeCS
  simp only
  split
  · rename_i hnone
    rw [List.find?_range_eq_none] at hnone
    have := hnone i0 hi0
    simp only [Bool.not_eq_true', List.any_eq_false] at this
    have := this t0 hti0
    unfold rmP at hp0
    rw [hp0] at this
    simp at this
  · rename_i sh hsome
    rw [List.find?_range_eq_some] at hsome
    obtain ⟨hq, hshlt, _⟩ := hsome
    have hshlt' : sh < L.length := List.mem_range.mp hshlt
    obtain ⟨tq, htq, hpq⟩ := List.any_eq_true.mp hq
    have hpos := h.lvl_pos
    have hlt := h.lvl_lt
    simp only [Bool.and_eq_true, decide_eq_true_eq, List.all_eq_true, List.mem_range]
    refine ⟨⟨⟨⟨⟨h.added, ?_⟩, h.l0⟩, hpos⟩, hlt⟩, ?_⟩
    · cases h.chunks with
      | inl hne =>
        apply (Bool.or_eq_true _ _).mpr
        left
        rw [List.all_eq_true]
        intro r hr
        have := hne r hr
        cases r with
        | nil => exact absurd rfl this
        | cons _ _ => rfl
      | inr he =>
        apply (Bool.or_eq_true _ _).mpr
        right
        exact decide_eq_true he
    · intro i hi
      by_cases h1 : i > lvl
      · simp only [h1, if_true, Bool.not_eq_true', List.any_eq_false]
        intro t ht
        have := h.below i h1 t ht
        unfold rmP at this
        rw [this]; exact Bool.false_ne_true
      · simp only [h1, if_false]
        by_cases h2 : i = 0
        · subst h2; simp
        · have h2' : (i == 0) = false := by simp [h2]
          simp only [h2', Bool.false_eq_true, if_false]
          by_cases h3 : sh < i ∨ i = lvl
          · have h3' : (decide (sh < i) || i == lvl) = true := by
              cases h3 with
              | inl h => simp [h]
              | inr h => simp [h]
            simp only [h3', if_true, List.all_eq_true]
            intro t ht
            by_cases h4 : i = lvl
            · subst h4; exact h.target t ht
            · have hshi : sh < i := by cases h3 with | inl h => exact h | inr h => exact absurd h h4
              exact h.closed sh i hshi (by omega) ⟨tq, htq, hpq⟩ t ht
          · have h3' : (decide (sh < i) || i == lvl) = false := by
              have a : ¬ sh < i := fun x => h3 (Or.inl x)
              have b : ¬ i = lvl := fun x => h3 (Or.inr x)
              simp [a, b]
            simp only [h3', Bool.false_eq_true, if_false]
            split <;> rfl

/-! ## under sane oracle answers a change set removes at least one table -/

theorem takeUntil_nonempty (met : Nat → Bool) (n : Nat) {l : List Tbl} (h : l ≠ []) : (takeUntil met n l).1 ≠ [] := by
  cases l with
  | nil => exact absurd rfl h
  | cons x xs =>
    unfold takeUntil
    split <;> simp

theorem majorPick_nonempty (order : List Tbl → List Tbl) (hp : ∀ l, (order l).Perm l) (met : Nat → Bool) (n : Nat)
    (ls : List (List Tbl)) (h : ∃ l ∈ ls, l ≠ []) : majorPickWith order met n ls ≠ [] := by
  induction ls generalizing n with
  | nil => obtain ⟨l, hl, _⟩ := h; cases hl
  | cons l ls ih =>
    unfold majorPickWith
    simp only
    by_cases hl : l = []
    · subst hl
      have hrest : ∃ l ∈ ls, l ≠ [] := by
        obtain ⟨l', hl', hne⟩ := h
        cases hl' with
        | head => exact absurd rfl hne
        | tail _ h' => exact ⟨l', h', hne⟩
      have hnil : order [] = [] := List.Perm.eq_nil (hp [])
      simp only [hnil, takeUntil, Bool.false_eq_true, if_false, List.nil_append, List.length_nil, Nat.add_zero]
      exact ih n hrest
    · have hs : order l ≠ [] := by
        intro h0
        obtain ⟨x, hx⟩ := List.exists_mem_of_ne_nil l hl
        have := (hp l).mem_iff.mpr hx
        rw [h0] at this; cases this
      have hne := takeUntil_nonempty met n hs
      split
      · exact hne
      · intro h0
        exact hne (List.append_eq_nil_iff.mp h0).1

theorem rmP_of_mem {ts : List Tbl} {t : Tbl} (h : t ∈ ts) : rmP (ts.map (·.id)) t = true := by
  unfold rmP
  rw [List.contains_iff_mem]
  exact List.mem_map.mpr ⟨t, h, rfl⟩

theorem compactWith_removes_some {L : Levels} {c : Compactor} {o : Oracle} {cs : ChangeSet} {c' : Compactor}
    (order : List Tbl → List Tbl) (hp : ∀ l, (order l).Perm l)
    (hs : OracleSane c L o) (h : compactWith order c L o = (some cs, c')) : ∃ t ∈ L.flatten, rmP cs.rm t = true := by
  unfold compactWith at h
  split at h
  · simp at h
  · rename_i hfew
    split at h
    · rename_i hamp
      simp only [Prod.mk.injEq, Option.some.injEq] at h
      rw [← h.1]
      unfold majorCompactionWith
      simp only
      have hne := hs.amp hamp
      obtain ⟨t, ht⟩ := List.exists_mem_of_ne_nil _ hne
      obtain ⟨l, hl, _⟩ := List.mem_flatten.mp ht
      have hlne : l ≠ [] := by intro h0; subst h0; rename_i htl; cases htl
      have hpk := majorPick_nonempty order hp o.goalMet 0 L.dropLast.reverse ⟨l, List.mem_reverse.mpr hl, hlne⟩
      obtain ⟨x, hx⟩ := List.exists_mem_of_ne_nil _ hpk
      obtain ⟨l', hl', hxl'⟩ := majorPickWith_sub order hp _ _ _ x hx
      exact ⟨x, List.mem_flatten.mpr ⟨l', List.dropLast_subset L (List.mem_reverse.mp hl'), hxl'⟩,
        rmP_of_mem (List.mem_append_left _ hx)⟩
    · unfold minorCompaction at h
      split at h
      · rename_i hc0
        simp only [Prod.mk.injEq, Option.some.injEq] at h
        rw [← h.1]
        have hfew' : o.l0Few = false := by
          cases hf : o.l0Few with
          | false => rfl
          | true => exact absurd ⟨hc0, hf⟩ hfew
        obtain ⟨x, hx⟩ := List.exists_mem_of_ne_nil _ (hs.l0 hc0 hfew')
        exact ⟨x, getD_mem_flatten hx, rmP_of_mem (List.mem_append_left _ hx)⟩
      · generalize L.length = fuel at h
        generalize c.minorLevel = cur at h
        induction fuel generalizing cur with
        | zero => simp [minorDeep] at h
        | succ fuel ih =>
          unfold minorDeep at h
          split at h
          · split at h
            · rename_i hover
              simp only [Prod.mk.injEq, Option.some.injEq] at h
              rw [← h.1]
              obtain ⟨x, hx⟩ := List.exists_mem_of_ne_nil _ (hs.level cur hover)
              exact ⟨x, getD_mem_flatten hx, rmP_of_mem (List.mem_append_left _ hx)⟩
            · exact ih (cur + 1) h
          · simp at h

theorem compact_removes_some {L : Levels} {c : Compactor} {o : Oracle} {cs : ChangeSet} {c' : Compactor}
    (hs : OracleSane c L o) (h : compact c L o = (some cs, c')) : ∃ t ∈ L.flatten, rmP cs.rm t = true :=
  compactWith_removes_some sortByAge sortByAge_perm hs h

/-- the guard passes for the pick under any arrangement of equal ages -/
theorem compactWith_passes {L : Levels} {c : Compactor} {o : Oracle} (order : List Tbl → List Tbl) (ho : OrderOK order)
    (hv : WeakValid L) (hid : (L.flatten.map (·.id)).Nodup) (hage : L0KeyAgeOrdered L) (h2 : 2 ≤ L.length)
    (hs : OracleSane c L o) {cs : ChangeSet} {c' : Compactor} (h : compactWith order c L o = (some cs, c')) :
    safeCS L cs.rm cs.lvl cs.add = true :=
  safeCS_of_structOK (compactWith_struct order ho hv hid hage h2 h) (compactWith_removes_some order ho.perm hs h)

/-- **every change set the modelled picker produces passes the executable guard of the DKV system's compaction
commit** -/
theorem compact_passes {L : Levels} {c : Compactor} {o : Oracle} (hv : WeakValid L)
    (hid : (L.flatten.map (·.id)).Nodup) (hage : L0KeyAgeOrdered L) (h2 : 2 ≤ L.length) (hs : OracleSane c L o)
    {cs : ChangeSet} {c' : Compactor} (h : compact c L o = (some cs, c')) :
    safeCS L cs.rm cs.lvl cs.add = true :=
  safeCS_of_structOK (compact_struct hv hid hage h2 h) (compact_removes_some hs h)

/-! ## flush arrivals keep the structural shape of a pending change set -/

theorem getD_cons_succ' (x : List Tbl) (D : List (List Tbl)) (i : Nat) : (x :: D).getD (i + 1) [] = D.getD i [] := by
  simp [List.getD_eq_getElem?_getD]

theorem structOK_after_flush {L : Levels} {rm : List Nat} {lvl : Nat} {add : List Run} {ts : List Tbl}
    (h : StructOK L rm lvl add) (hfresh : ∀ t ∈ ts, rmP rm t = false) : StructOK (applyFlush L ts) rm lvl add := by
  cases L with
  | nil => have := h.lvl_lt; simp at this
  | cons l0 D =>
    rw [applyFlush_cons]
    have htsf : ts.reverse.filter (rmP rm) = [] := by
      rw [List.filter_eq_nil_iff]
      intro t ht
      simp [hfresh t (List.mem_reverse.mp ht)]
    have hget : ∀ i, 1 ≤ i → ((l0 ++ ts) :: D).getD i [] = (l0 :: D).getD i [] := by
      intro i hi
      obtain ⟨j, rfl⟩ : ∃ j, i = j + 1 := ⟨i - 1, by omega⟩
      rw [getD_cons_succ', getD_cons_succ']
    refine ⟨h.lvl_pos, h.lvl_lt, ?_, ?_, ?_, ?_, ?_, h.chunks⟩
    · rw [hget lvl h.lvl_pos]; exact h.target
    · intro i hi; rw [hget i (by have := h.lvl_pos; omega)]; exact h.below i hi
    · show (l0 ++ ts).Pairwise _
      refine List.pairwise_append.mpr ⟨h.l0, ?_, ?_⟩
      · apply pairwise_of_forall_right
        intro b hb a hpb
        rw [hfresh b hb] at hpb; cases hpb
      · intro a _ b hb hpb
        rw [hfresh b hb] at hpb; cases hpb
    · intro i j hij hj hex t ht
      rw [hget j (by omega)] at ht
      refine h.closed i j hij hj ?_ t ht
      obtain ⟨x, hx, hpx⟩ := hex
      by_cases hi : i = 0
      · subst hi
        have hx' : x ∈ l0 ++ ts := hx
        cases List.mem_append.mp hx' with
        | inl h0 => exact ⟨x, h0, hpx⟩
        | inr h0 => rw [hfresh x h0] at hpx; cases hpx
      · rw [hget i (by omega)] at hx; exact ⟨x, hx, hpx⟩
    · have h0 := h.added
      simp only [readOrder, List.reverse_append, List.append_assoc, List.filter_append, htsf, List.nil_append] at h0 ⊢
      exact h0

/-! ## what the sequence numbers of the DKV system give -/

theorem age_lt_of_sep {a b : Tbl} (hsep : ∀ e ∈ a.run, ∀ e' ∈ b.run, e.seq < e'.seq)
    (hnd : ¬ DisjointKeys a.run b.run) : age a < age b := by
  cases ha : a.run with
  | nil => exact absurd (fun ea hea => by rw [ha] at hea; cases hea) hnd
  | cons x xs =>
    cases hb : b.run with
    | nil => exact absurd (fun ea _ eb heb => by rw [hb] at heb; cases heb) hnd
    | cons y ys =>
      have := hsep x (by rw [ha]; exact List.mem_cons_self) y (by rw [hb]; exact List.mem_cons_self)
      simpa [age, ha, hb] using this

theorem keyAge_of_chron {s : Lsm.State} (h : ChronSep s) : L0KeyAgeOrdered s.levels := h.1

/-! ## the invariant of the DKV system with the compaction task -/

structure DInv (d : DB) (m : Spec) : Prop where
  inv : Inv d.s m
  rinv : ReadInv d.s m
  ids : IdsFresh d.s.levels d.s.nextId
  len : 2 ≤ d.s.levels.length
  chron : ChronSep d.s
  ord : DeepOrdered d.s
  pend : ∀ cs, d.pending = some cs →
    StructOK d.s.levels cs.rm cs.lvl cs.add ∧ (∃ t ∈ d.s.levels.flatten, rmP cs.rm t = true) ∧
    ∀ i ∈ cs.rm, i < d.s.nextId

/-- what a foreground step keeps -/
structure Keeps (s s' : Lsm.State) : Prop where
  ids : IdsFresh s.levels s.nextId → IdsFresh s'.levels s'.nextId
  len : s'.levels.length = s.levels.length
  pend : ∀ rm lvl add, StructOK s.levels rm lvl add → (∀ i ∈ rm, i < s.nextId) →
    StructOK s'.levels rm lvl add ∧ (∀ i ∈ rm, i < s'.nextId)
  mem : ∀ t ∈ s.levels.flatten, t ∈ s'.levels.flatten

theorem keeps_same_levels {s s' : Lsm.State} (hl : s'.levels = s.levels) (hn : s'.nextId = s.nextId) : Keeps s s' :=
  ⟨fun h => by rw [hl, hn]; exact h, by rw [hl], fun rm lvl add h1 h2 => by rw [hl, hn]; exact ⟨h1, h2⟩,
   fun t ht => by rw [hl]; exact ht⟩

theorem chron_write {s : Lsm.State} {active : Run} {sealedRev : List Run} (e : Entry)
    (hm : s.mems.reverse = active :: sealedRev) (hc : ChronSep s)
    (hb : ∀ r ∈ (s.levels.headD []).map (·.run) ++ s.mems, ∀ x ∈ r, x.seq < e.seq) :
    ChronSep { s with seq := s.seq + 1, mems := (active.insert e :: sealedRev).reverse } := by
  have hmems : s.mems = sealedRev.reverse ++ [active] := by
    have := congrArg List.reverse hm
    simpa using this
  obtain ⟨h1, h2, h3⟩ := hc
  rw [hmems] at h2 h3 hb
  have ⟨hX, _, hcross⟩ := List.pairwise_append.mp h2
  refine ⟨h1, ?_, ?_⟩
  · show ((active.insert e :: sealedRev).reverse).Pairwise _
    rw [List.reverse_cons]
    refine List.pairwise_append.mpr ⟨hX, List.pairwise_singleton _ _, ?_⟩
    intro x hx a' ha' e0 he0 e' he'
    simp only [List.mem_singleton] at ha'
    subst ha'
    cases Run.insert_mem he' with
    | inl h => subst h; exact hb x (List.mem_append_right _ (List.mem_append_left _ hx)) e0 he0
    | inr h => exact hcross x hx active List.mem_cons_self e0 he0 e' h
  · intro t ht r hr e0 he0 e' he'
    have hr' : r ∈ sealedRev.reverse ++ [active.insert e] := by
      have : r ∈ (active.insert e :: sealedRev).reverse := hr
      rwa [List.reverse_cons] at this
    cases List.mem_append.mp hr' with
    | inl hs => exact h3 t ht r (List.mem_append_left _ hs) e0 he0 e' he'
    | inr ha =>
      simp only [List.mem_singleton] at ha
      subst ha
      cases Run.insert_mem he' with
      | inl h =>
        subst h
        exact hb t.run (List.mem_append_left _ (List.mem_map.mpr ⟨t, ht, rfl⟩)) e0 he0
      | inr h => exact h3 t ht active (List.mem_append_right _ List.mem_cons_self) e0 he0 e' h

theorem seq_bound_chron {s : Lsm.State} {m : Spec} (hi : Inv s m) :
    ∀ r ∈ (s.levels.headD []).map (·.run) ++ s.mems, ∀ x ∈ r, x.seq ≤ s.seq := by
  intro r hr x hx
  apply hi.seqBound r _ x hx
  simp only [containers, List.mem_append, List.mem_reverse, List.mem_map]
  cases List.mem_append.mp hr with
  | inr h => exact Or.inl h
  | inl h =>
    obtain ⟨t, ht, rfl⟩ := List.mem_map.mp h
    refine Or.inr ⟨t, ?_, rfl⟩
    rw [readOrder_mem]
    cases hl : s.levels with
    | nil => rw [hl] at ht; cases ht
    | cons l0 D => rw [hl] at ht; exact List.mem_flatten.mpr ⟨l0, List.mem_cons_self, ht⟩

/-- **foreground steps of the DKV system** (writes, rotation, flush begin/commit, read phases) keep the numbering
of table ids, the time separation of sequence numbers and the structural shape of a pending change set -/
theorem fg_step_keeps {s s' : Lsm.State} {m : Spec} {a : Lsm.Act} (hi : Inv s m) (hc : ChronSep s)
    (hna : isCompact a = false) (h : step s a = some s') : Keeps s s' ∧ ChronSep s' := by
  have hwrite : ∀ e : Entry, e.seq = s.seq + 1 → write s e = some s' → Keeps s s' ∧ ChronSep s' := by
    intro e he hw
    simp only [write] at hw
    split at hw
    · cases hw
    · split at hw
      · cases hw
      · rename_i active sealedRev hm
        simp only [Option.some.injEq] at hw
        subst hw
        refine ⟨keeps_same_levels rfl rfl, chron_write e hm hc ?_⟩
        intro r hr x hx
        have := seq_bound_chron hi r hr x hx
        omega
  cases a with
  | put k v => exact hwrite _ rfl h
  | del k => exact hwrite _ rfl h
  | rotate =>
    simp only [step, Option.some.injEq] at h
    subst h
    refine ⟨keeps_same_levels rfl rfl, ?_⟩
    obtain ⟨h1, h2, h3⟩ := hc
    refine ⟨h1, ?_, ?_⟩
    · show (s.mems ++ [[]]).Pairwise _
      refine List.pairwise_append.mpr ⟨h2, List.pairwise_singleton _ _, ?_⟩
      intro x _ b hb e _ e' he'
      simp only [List.mem_singleton] at hb
      subst hb; cases he'
    · intro t ht r hr e0 he0 e' he'
      have hr' : r ∈ s.mems ++ [[]] := hr
      cases List.mem_append.mp hr' with
      | inl hs => exact h3 t ht r hs e0 he0 e' he'
      | inr hn => simp only [List.mem_singleton] at hn; subst hn; cases he'
  | flushBegin n =>
    simp only [step] at h
    split at h
    · cases h
    · split at h
      · simp only [Option.some.injEq] at h
        subst h
        exact ⟨keeps_same_levels rfl rfl, hc⟩
      · cases h
  | flushAbort =>
    simp only [step] at h
    split at h
    · cases h
    · simp only [Option.some.injEq] at h
      subst h
      exact ⟨keeps_same_levels rfl rfl, hc⟩
  | flushCommit =>
    simp only [step] at h
    split at h
    · cases h
    · rename_i snap hfl
      split at h
      · rename_i hcond
        simp only [Option.some.injEq] at h
        subst h
        obtain ⟨l0, D, hLD⟩ : ∃ l0 D, s.levels = l0 :: D := by
          cases hL : s.levels with
          | nil => exact absurd hL hi.levels_ne
          | cons l0 D => exact ⟨l0, D, rfl⟩
        have hnewids : ∀ t ∈ mkTables s.nextId snap, s.nextId ≤ t.id := by
          intro t ht
          have : t.id ∈ (mkTables s.nextId snap).map (·.id) := List.mem_map.mpr ⟨t, ht, rfl⟩
          rw [mkTables_ids] at this
          exact (List.mem_range'_1.mp this).1
        refine ⟨⟨?_, ?_, ?_, ?_⟩, ?_⟩
        · intro hids
          exact idsFresh_flush snap hi.levels_ne hids
        · show (addAt s.levels 0 (mkTables s.nextId snap)).length = s.levels.length
          rw [hLD]; rfl
        · intro rm lvl add hst hold
          have hfresh : ∀ t ∈ mkTables s.nextId snap, rmP rm t = false := by
            intro t ht
            cases hr : rmP rm t with
            | false => rfl
            | true =>
              unfold rmP at hr
              have := hold t.id (List.contains_iff_mem.mp hr)
              have := hnewids t ht
              omega
          refine ⟨structOK_after_flush hst hfresh, ?_⟩
          intro i hir
          have := hold i hir
          show i < s.nextId + snap.length
          omega
        · intro t ht
          show t ∈ (addAt s.levels 0 (mkTables s.nextId snap)).flatten
          rw [hLD] at ht ⊢
          show t ∈ ((l0 ++ mkTables s.nextId snap) :: D).flatten
          simp only [List.flatten_cons, List.mem_append] at ht ⊢
          cases ht with
          | inl h0 => exact Or.inl (Or.inl h0)
          | inr h0 => exact Or.inr h0
        · obtain ⟨h1, h2, h3⟩ := hc
          have hmem : s.mems = snap ++ s.mems.drop snap.length := by
            conv => lhs; rw [← List.take_append_drop snap.length s.mems, hcond.1]
          rw [hmem] at h2
          have ⟨hsnap, hdrop, hsd⟩ := List.pairwise_append.mp h2
          have hnewrun : ∀ t ∈ mkTables s.nextId snap, t.run ∈ snap := fun t ht => mkTables_run_mem ht
          have hsnapmem : ∀ r ∈ snap, r ∈ s.mems := fun r hr => by rw [hmem]; exact List.mem_append_left _ hr
          have hdropmem : ∀ r ∈ s.mems.drop snap.length, r ∈ s.mems := fun r hr => List.mem_of_mem_drop hr
          rw [hLD] at h1 h3
          refine ⟨?_, hdrop, ?_⟩
          · show L0KeyAgeOrdered (addAt s.levels 0 (mkTables s.nextId snap))
            rw [hLD]
            show (l0 ++ mkTables s.nextId snap).Pairwise (fun a b => ¬ DisjointKeys a.run b.run → age a < age b)
            refine List.pairwise_append.mpr ⟨h1, ?_, ?_⟩
            · have : ((mkTables s.nextId snap).map (·.run)).Pairwise
                  (fun older newer => ∀ e ∈ older, ∀ e' ∈ newer, e.seq < e'.seq) := by
                rw [mkTables_map_run]; exact hsnap
              exact (List.pairwise_map.mp this).imp (fun hab => age_lt_of_sep hab)
            · intro a ha b hb
              exact age_lt_of_sep (fun e he e' he' => h3 a ha b.run (hsnapmem _ (hnewrun b hb)) e he e' he')
          · intro t ht r hr e0 he0 e' he'
            have ht' : t ∈ l0 ++ mkTables s.nextId snap := by
              have : t ∈ (addAt s.levels 0 (mkTables s.nextId snap)).headD [] := ht
              rw [hLD] at this; exact this
            have hr' : r ∈ s.mems.drop snap.length := hr
            cases List.mem_append.mp ht' with
            | inl h0 => exact h3 t h0 r (hdropmem r hr') e0 he0 e' he'
            | inr h0 => exact hsd t.run (hnewrun t h0) r hr' e0 he0 e' he'
      · cases h
  | compact rm lvl add => simp [isCompact] at hna
  | getA k =>
    simp only [step] at h
    split at h
    · cases h
    · simp only [Option.some.injEq] at h
      subst h
      exact ⟨keeps_same_levels rfl rfl, hc⟩
  | getB =>
    simp only [step] at h
    split at h
    · cases h
    · simp only [Option.some.injEq] at h
      subst h
      exact ⟨keeps_same_levels rfl rfl, hc⟩

/-- **the guard of the compaction commit passes for every pending change set of the modelled picker**, whatever
foreground steps and flush commits happened since it was computed -/
theorem pending_commit_enabled {d : DB} {m : Spec} (hi : DInv d m) {cs : ChangeSet} (hp : d.pending = some cs) :
    safeCS d.s.levels cs.rm cs.lvl cs.add = true :=
  safeCS_of_structOK (hi.pend cs hp).1 (hi.pend cs hp).2.1

theorem dinv_step {d d' : DB} {m : Spec} {a : DAct} (hi : DInv d m) (hok : d.actOK a) (h : d.step a = some d') :
    DInv d' (d.specStep m a) := by
  have hw := weakValid_of_inv hi.inv
  cases a with
  | fg a =>
    simp only [DB.step] at h
    split at h
    · cases h
    · rename_i hna
      have hna' : isCompact a = false := by simpa using hna
      cases hst : Lsm.step d.s a with
      | none => rw [hst] at h; cases h
      | some s' =>
        rw [hst] at h
        simp only [Option.map_some, Option.some.injEq] at h
        subst h
        have hinv := step_inv (Or.inr trivial) a
          (fun rm lvl add ha => by subst ha; simp [isCompact] at hna') hi.inv hi.rinv hst
        have ⟨hk, hc'⟩ := fg_step_keeps hi.inv hi.chron hna' hst
        refine ⟨hinv.1, hinv.2, hk.ids hi.ids, by rw [hk.len]; exact hi.len, hc', step_ordered a hi.inv hi.ord hst, ?_⟩
        intro cs hcs
        have ⟨h1, ⟨t, ht, hpt⟩, h3⟩ := hi.pend cs hcs
        have := hk.pend cs.rm cs.lvl cs.add h1 h3
        exact ⟨this.1, ⟨t, hk.mem t ht, hpt⟩, this.2⟩
  | compactBegin o =>
    simp only [DB.step] at h
    split at h
    · cases h
    · simp only [Option.some.injEq] at h
      subst h
      refine ⟨hi.inv, hi.rinv, hi.ids, hi.len, hi.chron, hi.ord, ?_⟩
      intro cs hcs
      simp only at hcs
      have hc : compact d.c d.s.levels o = (some cs, (compact d.c d.s.levels o).2) := by rw [← hcs]
      refine ⟨compact_struct hw hi.ids.1 (keyAge_of_chron hi.chron) hi.len hc, compact_removes_some hok hc, ?_⟩
      intro i hir
      obtain ⟨t, ht, rfl⟩ := compact_rm_old hc i hir
      exact hi.ids.2 t ht
  | compactCommit =>
    simp only [DB.step] at h
    split at h
    · cases h
    · rename_i cs hp
      have ⟨hst, hex, _⟩ := hi.pend cs hp
      have hsafe := safeCS_of_structOK hst hex
      have hstep : Lsm.step d.s (.compact cs.rm cs.lvl cs.add) =
          some { d.s with levels := addAt (removeIds cs.rm d.s.levels) cs.lvl (mkTables d.s.nextId cs.add),
                          nextId := d.s.nextId + cs.add.length } := by
        simp only [Lsm.step, hsafe, if_true]
      rw [hstep] at h
      simp only [Option.map_some, Option.some.injEq] at h
      subst h
      have hinv := step_inv (Or.inr trivial) (.compact cs.rm cs.lvl cs.add) (fun _ _ _ _ => compactionSound)
        hi.inv hi.rinv hstep
      have hs : SafeCS d.s.levels cs.rm cs.lvl cs.add := safe_of_structOK hw hst
      obtain ⟨_, _, _, l0, D1, Lv, D2, hL, _, hshape⟩ := safe_core d.s.nextId hw hs
      have hshape' : addAt (removeIds cs.rm d.s.levels) cs.lvl (mkTables d.s.nextId cs.add) =
          l0.filter (fun t => !rmP cs.rm t) :: (D1.map (List.filter (fun t => !rmP cs.rm t)) ++ mkTables d.s.nextId cs.add :: D2) :=
        hshape
      refine ⟨hinv.1, hinv.2, idsFresh_applyCS hw hs hi.ids, ?_, ?_, step_ordered _ hi.inv hi.ord hstep,
        fun cs' hcs' => by cases hcs'⟩
      · show 2 ≤ (addAt (removeIds cs.rm d.s.levels) cs.lvl (mkTables d.s.nextId cs.add)).length
        rw [hshape']
        simp only [List.length_cons, List.length_append, List.length_map]
        omega
      · obtain ⟨h1, h2, h3⟩ := hi.chron
        rw [hL] at h1 h3
        refine ⟨?_, h2, ?_⟩
        · show L0KeyAgeOrdered (addAt (removeIds cs.rm d.s.levels) cs.lvl (mkTables d.s.nextId cs.add))
          rw [hshape']
          exact List.Pairwise.filter _ h1
        · intro t ht r hr e0 he0 e' he'
          have ht' : t ∈ l0.filter (fun t => !rmP cs.rm t) := by
            have : t ∈ (addAt (removeIds cs.rm d.s.levels) cs.lvl (mkTables d.s.nextId cs.add)).headD [] := ht
            rw [hshape'] at this; exact this
          exact h3 t (List.mem_filter.mp ht').1 r hr e0 he0 e' he'
  | compactFail o =>
    simp only [DB.step] at h
    split at h
    · cases h
    · split at h
      · simp only [Option.some.injEq] at h
        subst h
        exact ⟨hi.inv, hi.rinv, hi.ids, hi.len, hi.chron, hi.ord, fun cs hcs => hi.pend cs hcs⟩
      · cases h

theorem db_run_inv : ∀ (as : List DAct) (d : DB) (m : Spec) (d' : DB) (m' : Spec),
    DInv d m → d.runOK as → d.run m as = some (d', m') → DInv d' m' := by
  intro as
  induction as with
  | nil => intro d m d' m' hi _ h; simp [DB.run] at h; obtain ⟨rfl, rfl⟩ := h; exact hi
  | cons a as ih =>
    intro d m d' m' hi hok h
    simp only [DB.run] at h
    simp only [DB.runOK] at hok
    cases hst : d.step a with
    | none => rw [hst] at h; cases h
    | some d1 =>
      rw [hst] at h hok
      exact ih d1 _ d' m' (dinv_step hi hok.1 hst) hok.2 h

theorem dinv_init : DInv {} [] := by
  refine ⟨inv_init, readInv_init, ?_, by decide, ?_, deepOrdered_init, fun cs h => by cases h⟩
  · unfold IdsFresh; decide
  · refine ⟨by unfold L0KeyAgeOrdered; decide, by decide, ?_⟩
    intro t ht; cases ht

/-! ## histories: erasing the compaction commits changes no answer -/

/-- two DKV states that differ at most in their level lists (and table id counter) -/
def SameFront (s t : Lsm.State) : Prop :=
  s.seq = t.seq ∧ s.mems = t.mems ∧ s.flushing = t.flushing ∧ s.reading = t.reading

theorem front_write {s t s' : Lsm.State} (hf : SameFront s t) (e : Entry) (h : write s e = some s') :
    ∃ t', write t e = some t' ∧ SameFront s' t' := by
  obtain ⟨hseq, hmems, hfl, hrd⟩ := hf
  simp only [write] at h ⊢
  rw [← hrd, ← hmems, ← hseq]
  split at h
  · cases h
  · rename_i hnr
    rw [if_neg hnr]
    split at h
    · cases h
    · rename_i active sealedRev hm
      simp only [Option.some.injEq] at h
      subst h
      exact ⟨_, rfl, rfl, rfl, hfl, rfl⟩

theorem front_step {s t s' : Lsm.State} {a : Lsm.Act} (hf : SameFront s t) (hna : isCompact a = false)
    (h : step s a = some s') : ∃ t', step t a = some t' ∧ SameFront s' t' := by
  have hf' := hf
  obtain ⟨hseq, hmems, hfl, hrd⟩ := hf
  cases a with
  | put k v =>
    simp only [step] at h ⊢
    rw [← hseq]
    exact front_write hf' _ h
  | del k =>
    simp only [step] at h ⊢
    rw [← hseq]
    exact front_write hf' _ h
  | rotate =>
    simp only [step, Option.some.injEq] at h ⊢
    subst h
    exact ⟨_, rfl, hseq, by simp [hmems], hfl, hrd⟩
  | flushBegin n =>
    simp only [step] at h ⊢
    rw [← hfl, ← hmems]
    split at h
    · cases h
    · split at h
      · rename_i hn
        simp only [Option.some.injEq] at h
        subst h
        rw [if_pos hn]
        exact ⟨_, rfl, hseq, rfl, rfl, hrd⟩
      · cases h
  | flushCommit =>
    simp only [step] at h ⊢
    rw [← hfl, ← hmems]
    split at h
    · cases h
    · split at h
      · rename_i hcond
        simp only [Option.some.injEq] at h
        subst h
        rw [if_pos hcond]
        exact ⟨_, rfl, hseq, by simp [hmems], rfl, hrd⟩
      · cases h
  | flushAbort =>
    simp only [step] at h ⊢
    rw [← hfl]
    split at h
    · cases h
    · simp only [Option.some.injEq] at h
      subst h
      exact ⟨_, rfl, hseq, hmems, rfl, hrd⟩
  | compact rm lvl add => simp [isCompact] at hna
  | getA k =>
    simp only [step] at h ⊢
    rw [← hrd, ← hmems]
    split at h
    · cases h
    · simp only [Option.some.injEq] at h
      subst h
      exact ⟨_, rfl, hseq, rfl, hfl, rfl⟩
  | getB =>
    simp only [step] at h ⊢
    rw [← hrd]
    split at h
    · cases h
    · simp only [Option.some.injEq] at h
      subst h
      exact ⟨_, rfl, hseq, hmems, hfl, rfl⟩

theorem front_compact {s s' : Lsm.State} {rm : List Nat} {lvl : Nat} {add : List Run}
    (h : step s (.compact rm lvl add) = some s') : SameFront s' s := by
  simp only [step] at h
  split at h
  · simp only [Option.some.injEq] at h
    subst h
    exact ⟨rfl, rfl, rfl, rfl⟩
  · cases h


theorem specStep_compact (m : Spec) (n : Nat) {a : Lsm.Act} (h : isCompact a = true) : specStep m n a = m := by
  cases a <;> simp [isCompact] at h <;> rfl

theorem runBoth_erase : ∀ (as : List Lsm.Act) (s t : Lsm.State) (m : Spec) (s' : Lsm.State) (m' : Spec),
    SameFront s t → runBoth s m as = some (s', m') →
    ∃ t', runBoth t m (dropCompactions as) = some (t', m') ∧ SameFront s' t' := by
  intro as
  induction as with
  | nil =>
    intro s t m s' m' hf h
    simp only [runBoth, Option.some.injEq, Prod.mk.injEq] at h
    obtain ⟨rfl, rfl⟩ := h
    exact ⟨t, rfl, hf⟩
  | cons a as ih =>
    intro s t m s' m' hf h
    simp only [runBoth] at h
    cases hst : step s a with
    | none => rw [hst] at h; cases h
    | some s1 =>
      rw [hst] at h
      simp only at h
      cases hc : isCompact a with
      | true =>
        have hd : dropCompactions (a :: as) = dropCompactions as := by
          simp [dropCompactions, List.filter_cons, hc]
        rw [hd, specStep_compact m s.seq hc] at *
        have hf1 : SameFront s1 t := by
          cases a with
          | compact rm lvl add =>
            have := front_compact hst
            exact ⟨this.1.trans hf.1, this.2.1.trans hf.2.1, this.2.2.1.trans hf.2.2.1, this.2.2.2.trans hf.2.2.2⟩
          | _ => simp [isCompact] at hc
        exact ih s1 t m s' m' hf1 h
      | false =>
        obtain ⟨t1, ht1, hf1⟩ := front_step hf hc hst
        have hd : dropCompactions (a :: as) = a :: dropCompactions as := by
          simp [dropCompactions, List.filter_cons, hc]
        rw [hd]
        simp only [runBoth, ht1]
        rw [← hf.1]
        exact ih s1 t1 _ s' m' hf1 h

/-- sorted runs with the same members are equal -/
theorem sorted_mem_ext {a b : Run} (ha : a.Sorted) (hb : b.Sorted) (h : ∀ e, e ∈ a ↔ e ∈ b) : a = b := by
  apply run_ext ha hb
  intro k
  cases hla : Run.lookup a k with
  | some e =>
    have ⟨hm, hk⟩ := Run.lookup_some_mem hla
    have := Run.lookup_of_mem hb ((h e).mp hm)
    rw [hk] at this
    exact this.symm
  | none =>
    cases hlb : Run.lookup b k with
    | none => rfl
    | some e =>
      have ⟨hm, hk⟩ := Run.lookup_some_mem hlb
      have := Run.lookup_of_mem ha ((h e).mpr hm)
      rw [hk, hla] at this
      cases this

/-- **a history of the DKV system and the same history with every compaction commit erased give the same answers**:
the same specification map, the same `Get` for every key and the same `ScanPrefix` for every prefix -/
theorem view_without_compactions (as : List Lsm.Act) (s : Lsm.State) (m : Spec)
    (h : runBoth {} [] as = some (s, m)) :
    ∃ s0, runBoth {} [] (dropCompactions as) = some (s0, m) ∧
      (∀ k, get s k = get s0 k) ∧ (∀ p, scan s p = scan s0 p) := by
  obtain ⟨s0, h0, _⟩ := runBoth_erase as {} {} [] s m ⟨rfl, rfl, rfl, rfl⟩ h
  have hi := (runBoth_inv (fun _ => trivial) as {} [] s m (Or.inr compactionSound) inv_init readInv_init h).1
  have hi0 := (runBoth_inv (fun _ => trivial) _ {} [] s0 m (Or.inr compactionSound) inv_init readInv_init h0).1
  refine ⟨s0, h0, ?_, ?_⟩
  · intro k
    rw [get_eq_firstHit hi, get_eq_firstHit hi0, hi.hit k, hi0.hit k]
  · intro p
    have h1 := scan_spec hi p
    have h2 := scan_spec hi0 p
    exact sorted_mem_ext h1.1 h2.1 (fun e => by rw [h1.2 e, h2.2 e])

/-- the same for the reads **as the code performs them** (`Model/LsmCode.lean`, `Model/Rescale.lean`: `tablesForKey`
with `SearchUnique` over `RangeKeyCompare`; `AllTablesForPrefix` with the level-0 filter, `BinarySearchFunc` over
`RangePrefixCompare` and the forward walk): erasing the compaction commits changes neither `getR` nor `scanR` -/
theorem view_without_compactions_code (as : List Lsm.Act) (s : Lsm.State) (m : Spec)
    (h : runBoth {} [] as = some (s, m)) :
    ∃ s0, runBoth {} [] (dropCompactions as) = some (s0, m) ∧
      (∀ k, Rescale.getR s k = Rescale.getR s0 k) ∧ (∀ p, Rescale.scanR s p = Rescale.scanR s0 p) := by
  obtain ⟨s0, h0, _⟩ := runBoth_erase as {} {} [] s m ⟨rfl, rfl, rfl, rfl⟩ h
  have hi := runBoth_inv_ordered as {} [] s m inv_init readInv_init deepOrdered_init h
  have hi0 := runBoth_inv_ordered _ {} [] s0 m inv_init readInv_init deepOrdered_init h0
  refine ⟨s0, h0, ?_, ?_⟩
  · intro k
    rw [getR_eq_get hi.1 hi.2.2, getR_eq_get hi0.1 hi0.2.2, get_eq_firstHit hi.1, get_eq_firstHit hi0.1,
      hi.1.hit k, hi0.1.hit k]
  · intro p
    rw [scanR_eq_scan2R, scanR_eq_scan2R]
    have h1 := scan2R_spec hi.1 hi.1 hi.2.2 (fun r hr => Or.inl hr) p
    have h2 := scan2R_spec hi0.1 hi0.1 hi0.2.2 (fun r hr => Or.inl hr) p
    exact run_sorted_ext h1.1 h2.1 (fun e => by rw [h1.2 e, h2.2 e])

/-- every history of the DKV system with the compaction task is a history of the DKV system (`Lsm.runBoth`) whose
compaction commits are those of the task -/
theorem db_run_lsm : ∀ (as : List DAct) (d : DB) (m : Spec) (d' : DB) (m' : Spec),
    d.run m as = some (d', m') →
    ∃ acts, runBoth d.s m acts = some (d'.s, m') ∧ dropCompactions acts = foreground as := by
  intro as
  induction as with
  | nil =>
    intro d m d' m' h
    simp only [DB.run, Option.some.injEq, Prod.mk.injEq] at h
    obtain ⟨rfl, rfl⟩ := h
    exact ⟨[], rfl, rfl⟩
  | cons a as ih =>
    intro d m d' m' h
    simp only [DB.run] at h
    cases hst : d.step a with
    | none => rw [hst] at h; cases h
    | some d1 =>
      rw [hst] at h
      simp only at h
      obtain ⟨acts, hr, hd⟩ := ih d1 _ d' m' h
      cases a with
      | fg x =>
        simp only [DB.step] at hst
        split at hst
        · cases hst
        · rename_i hnc
          have hnc' : isCompact x = false := by simpa using hnc
          cases hx : Lsm.step d.s x with
          | none => rw [hx] at hst; cases hst
          | some s1 =>
            rw [hx] at hst
            simp only [Option.map_some, Option.some.injEq] at hst
            subst hst
            refine ⟨x :: acts, ?_, ?_⟩
            · simp only [runBoth, hx]; exact hr
            · simp [dropCompactions, List.filter_cons, hnc', foreground] at hd ⊢
              exact hd
      | compactBegin o =>
        simp only [DB.step] at hst
        split at hst
        · cases hst
        · simp only [Option.some.injEq] at hst
          subst hst
          exact ⟨acts, hr, by simpa [foreground] using hd⟩
      | compactCommit =>
        simp only [DB.step] at hst
        split at hst
        · cases hst
        · rename_i cs hp
          cases hx : Lsm.step d.s (.compact cs.rm cs.lvl cs.add) with
          | none => rw [hx] at hst; cases hst
          | some s1 =>
            rw [hx] at hst
            simp only [Option.map_some, Option.some.injEq] at hst
            subst hst
            refine ⟨.compact cs.rm cs.lvl cs.add :: acts, ?_, ?_⟩
            · simp only [runBoth, hx]; exact hr
            · simp [dropCompactions, List.filter_cons, isCompact, foreground] at hd ⊢
              exact hd
      | compactFail o =>
        simp only [DB.step] at hst
        split at hst
        · cases hst
        · split at hst
          · simp only [Option.some.injEq] at hst
            subst hst
            exact ⟨acts, hr, by simpa [foreground] using hd⟩
          · cases hst

/-- in a state with the invariant the level list is `LayoutValid`: sorted runs, deeper levels in key order without
overlap, newer above -/
theorem layoutValid_of_dinv {d : DB} {m : Spec} (hi : DInv d m) : LayoutValid d.s.levels := by
  have hw := weakValid_of_inv hi.inv
  exact ⟨hw.sorted, hi.ord, hw.newer⟩

end Rxn.Compaction
