import RxnModel.Proofs.Lsm
/-! Scans: the k-way merge by sequence number agrees with the read order (C07, second half). -/
namespace Rxn.Lsm
open Rxn

theorem keepNewest_cases (a b : Entry) : keepNewest a b = a ∨ keepNewest a b = b := by
  unfold keepNewest; split <;> simp

theorem merge2_nil_right (a : Run) : merge2 a [] = a := by
  cases a <;> simp [merge2]

theorem merge2_mem {a b : Run} {x : Entry} : x ∈ merge2 a b → x ∈ a ∨ x ∈ b := by
  fun_induction merge2 a b with
  | case1 b => intro h; exact Or.inr h
  | case2 a as => intro h; exact Or.inl h
  | case3 x' xs y ys hc ih =>
    intro h
    cases h with
    | head => exact Or.inl List.mem_cons_self
    | tail _ h =>
      cases ih h with
      | inl h => exact Or.inl (List.mem_cons_of_mem _ h)
      | inr h => exact Or.inr h
  | case4 x' xs y ys hc ih =>
    intro h
    cases h with
    | head => exact Or.inr List.mem_cons_self
    | tail _ h =>
      cases ih h with
      | inl h => exact Or.inl h
      | inr h => exact Or.inr (List.mem_cons_of_mem _ h)
  | case5 x' xs y ys hc ih =>
    intro h
    cases h with
    | head =>
      cases keepNewest_cases x' y with
      | inl hk => rw [hk]; exact Or.inl List.mem_cons_self
      | inr hk => rw [hk]; exact Or.inr List.mem_cons_self
    | tail _ h =>
      cases ih h with
      | inl h => exact Or.inl (List.mem_cons_of_mem _ h)
      | inr h => exact Or.inr (List.mem_cons_of_mem _ h)

theorem keepNewest_key {a b : Entry} (h : a.key = b.key) : (keepNewest a b).key = a.key := by
  cases keepNewest_cases a b with
  | inl hk => rw [hk]
  | inr hk => rw [hk, h]

theorem merge2_sorted {a b : Run} (ha : a.Sorted) (hb : b.Sorted) : (merge2 a b).Sorted := by
  fun_induction merge2 a b with
  | case1 b => exact hb
  | case2 a as => exact ha
  | case3 x xs y ys hc ih =>
    have hx := List.pairwise_cons.mp ha
    have hy := List.pairwise_cons.mp hb
    have hlt : Bytes.lt x.key y.key = true := by simp [Bytes.lt, hc]
    refine List.pairwise_cons.mpr ⟨?_, ih hx.2 hb⟩
    intro z hz
    cases merge2_mem hz with
    | inl h => exact hx.1 z h
    | inr h =>
      cases h with
      | head => exact hlt
      | tail _ h => exact Bytes.lt_trans hlt (hy.1 z h)
  | case4 x xs y ys hc ih =>
    have hx := List.pairwise_cons.mp ha
    have hy := List.pairwise_cons.mp hb
    have hlt : Bytes.lt y.key x.key = true := by simp [Bytes.lt, Bytes.cmp_gt_iff_lt.mp hc]
    refine List.pairwise_cons.mpr ⟨?_, ih ha hy.2⟩
    intro z hz
    cases merge2_mem hz with
    | inl h =>
      cases h with
      | head => exact hlt
      | tail _ h => exact Bytes.lt_trans hlt (hx.1 z h)
    | inr h => exact hy.1 z h
  | case5 x xs y ys hc ih =>
    have hx := List.pairwise_cons.mp ha
    have hy := List.pairwise_cons.mp hb
    have heq : x.key = y.key := Bytes.cmp_eq_iff.mp hc
    refine List.pairwise_cons.mpr ⟨?_, ih hx.2 hy.2⟩
    intro z hz
    rw [keepNewest_key heq]
    cases merge2_mem hz with
    | inl h => exact hx.1 z h
    | inr h => rw [heq]; exact hy.1 z h

/-- combine two optional hits as the merge does -/
def pick : Option Entry → Option Entry → Option Entry
  | some a, some b => some (keepNewest a b)
  | some a, none => some a
  | none, b => b

theorem lookup_head_lt {r : Run} {x : Entry} (hs : Run.Sorted (x :: r)) {k : Bytes} (h : Bytes.lt k x.key = true) :
    Run.lookup (x :: r) k = none := by
  apply Run.lookup_none_of_lt hs
  intro e he
  cases he with
  | head => exact h
  | tail _ he => exact Bytes.lt_trans h ((List.pairwise_cons.mp hs).1 e he)

theorem lookup_merge2 {a b : Run} (ha : a.Sorted) (hb : b.Sorted) (k : Bytes) :
    Run.lookup (merge2 a b) k = pick (Run.lookup a k) (Run.lookup b k) := by
  fun_induction merge2 a b with
  | case1 b => simp [Run.lookup, pick]
  | case2 a as => cases h : Run.lookup (a :: as) k <;> simp [Run.lookup, pick]
  | case3 x xs y ys hc ih =>
    have hx := List.pairwise_cons.mp ha
    have hlt : Bytes.lt x.key y.key = true := by simp [Bytes.lt, hc]
    by_cases hk : x.key = k
    · subst hk
      have : Run.lookup (y :: ys) x.key = none := lookup_head_lt hb hlt
      rw [this]
      simp [Run.lookup, pick]
    · simp only [Run.lookup, hk, if_false]
      rw [ih hx.2 hb]
      simp [Run.lookup]
  | case4 x xs y ys hc ih =>
    have hy := List.pairwise_cons.mp hb
    have hlt : Bytes.lt y.key x.key = true := by simp [Bytes.lt, Bytes.cmp_gt_iff_lt.mp hc]
    by_cases hk : y.key = k
    · subst hk
      have hn : Run.lookup (x :: xs) y.key = none := lookup_head_lt ha hlt
      rw [hn]
      simp [Run.lookup, pick]
    · have hl : Run.lookup (y :: merge2 (x :: xs) ys) k = Run.lookup (merge2 (x :: xs) ys) k := by
        simp [Run.lookup, hk]
      rw [hl, ih ha hy.2]
      simp [Run.lookup, hk]
  | case5 x xs y ys hc ih =>
    have hx := List.pairwise_cons.mp ha
    have hy := List.pairwise_cons.mp hb
    have heq : x.key = y.key := Bytes.cmp_eq_iff.mp hc
    by_cases hk : x.key = k
    · have hk' : y.key = k := by rw [← heq]; exact hk
      simp [Run.lookup, hk, hk', keepNewest_key heq, pick]
    · have hk' : y.key ≠ k := by rw [← heq]; exact hk
      have : (keepNewest x y).key ≠ k := by rw [keepNewest_key heq]; exact hk
      simp only [Run.lookup, this, hk, hk', if_false]
      exact ih hx.2 hy.2

theorem mergeAll_sorted {rs : List Run} (h : ∀ r ∈ rs, r.Sorted) : (mergeAll rs).Sorted := by
  induction rs with
  | nil => exact Run.sorted_nil
  | cons r rs ih =>
    exact merge2_sorted (h r List.mem_cons_self) (ih (fun x hx => h x (List.mem_cons_of_mem _ hx)))

/-- the best hit over a list of runs, combined as the merge combines them -/
def bestHit (rs : List Run) (k : Bytes) : Option Entry := rs.foldr (fun r acc => pick (r.lookup k) acc) none

theorem lookup_mergeAll {rs : List Run} (h : ∀ r ∈ rs, r.Sorted) (k : Bytes) :
    Run.lookup (mergeAll rs) k = bestHit rs k := by
  induction rs with
  | nil => rfl
  | cons r rs ih =>
    have hrs : ∀ x ∈ rs, x.Sorted := fun x hx => h x (List.mem_cons_of_mem _ hx)
    show Run.lookup (merge2 r (mergeAll rs)) k = pick (r.lookup k) (bestHit rs k)
    rw [lookup_merge2 (h r List.mem_cons_self) (mergeAll_sorted hrs), ih hrs]

/-- `e` is a hit for `k` with the largest sequence number among all hits -/
def IsMax (cs : List Run) (k : Bytes) (e : Entry) : Prop :=
  (∃ r ∈ cs, r.lookup k = some e) ∧ ∀ r ∈ cs, ∀ e', r.lookup k = some e' → e'.seq ≤ e.seq

theorem pick_some_cases {x y : Option Entry} {e : Entry} (h : pick x y = some e) :
    (x = some e ∨ y = some e) ∧ (∀ a, x = some a → a.seq ≤ e.seq) ∧ (∀ b, y = some b → b.seq ≤ e.seq) := by
  cases x with
  | none => simp [pick] at h; subst h; simp
  | some a =>
    cases y with
    | none => simp [pick] at h; subst h; simp
    | some b =>
      simp only [pick, Option.some.injEq] at h
      unfold keepNewest at h
      split at h
      · subst h; simp; omega
      · subst h; simp; omega

theorem pick_none {x y : Option Entry} : pick x y = none ↔ x = none ∧ y = none := by
  cases x <;> cases y <;> simp [pick]

theorem bestHit_none {rs : List Run} {k : Bytes} : bestHit rs k = none ↔ ∀ r ∈ rs, r.lookup k = none := by
  induction rs with
  | nil => simp [bestHit]
  | cons r rs ih =>
    show pick (r.lookup k) (bestHit rs k) = none ↔ _
    rw [pick_none, ih]; simp

theorem bestHit_isMax {rs : List Run} {k : Bytes} {e : Entry} (h : bestHit rs k = some e) : IsMax rs k e := by
  induction rs generalizing e with
  | nil => simp [bestHit] at h
  | cons r rs ih =>
    have h' : pick (r.lookup k) (bestHit rs k) = some e := h
    obtain ⟨hor, h1, h2⟩ := pick_some_cases h'
    constructor
    · cases hor with
      | inl hl => exact ⟨r, List.mem_cons_self, hl⟩
      | inr hr =>
        obtain ⟨r', hr', hl'⟩ := (ih hr).1
        exact ⟨r', List.mem_cons_of_mem _ hr', hl'⟩
    · intro r' hr' e' hl'
      cases hr' with
      | head => exact h1 e' hl'
      | tail _ hr' =>
        cases hb : bestHit rs k with
        | none => rw [bestHit_none] at hb; rw [hb r' hr'] at hl'; cases hl'
        | some b => exact Nat.le_trans ((ih hb).2 r' hr' e' hl') (h2 b hb)

/-- different containers never hold the same sequence number for a key -/
theorem newerAbove_distinct {cs : List Run} (h : NewerAbove cs) :
    ∀ r ∈ cs, ∀ r' ∈ cs, r ≠ r' → ∀ e ∈ r, ∀ e' ∈ r', e.key = e'.key → e.seq ≠ e'.seq := by
  induction cs with
  | nil => intro r hr; cases hr
  | cons c cs ih =>
    intro r hr r' hr' hne e he e' he' hk
    cases hr with
    | head =>
      cases hr' with
      | head => exact absurd rfl hne
      | tail _ hr' => have := h.1 e he r' hr' e' he' hk.symm; omega
    | tail _ hr =>
      cases hr' with
      | head => have := h.1 e' he' r hr e he hk; omega
      | tail _ hr' => exact ih h.2 r hr r' hr' hne e he e' he' hk

theorem isMax_unique {cs : List Run} (h : NewerAbove cs) {k : Bytes} {e e' : Entry}
    (h1 : IsMax cs k e) (h2 : IsMax cs k e') : e = e' := by
  obtain ⟨⟨r, hr, hl⟩, hm⟩ := h1
  obtain ⟨⟨r', hr', hl'⟩, hm'⟩ := h2
  have hseq : e.seq = e'.seq := Nat.le_antisymm (hm' r hr e hl) (hm r' hr' e' hl')
  by_cases hrr : r = r'
  · subst hrr; rw [hl] at hl'; cases hl'; rfl
  · have ⟨hme, hke⟩ := Run.lookup_some_mem hl
    have ⟨hme', hke'⟩ := Run.lookup_some_mem hl'
    exact absurd hseq (newerAbove_distinct h r hr r' hr' hrr e hme e' hme' (by rw [hke, hke']))

theorem firstHit_isMax {cs : List Run} (h : NewerAbove cs) {k : Bytes} {e : Entry}
    (hf : firstHit cs k = some e) : IsMax cs k e := by
  induction cs with
  | nil => simp [firstHit, firstSome] at hf
  | cons c cs ih =>
    simp only [firstHit, firstSome] at hf
    cases hc : c.lookup k with
    | some x =>
      rw [hc] at hf; simp only [Option.some.injEq] at hf; subst hf
      refine ⟨⟨c, List.mem_cons_self, hc⟩, ?_⟩
      intro r hr e' hl'
      cases hr with
      | head => rw [hc] at hl'; cases hl'; exact Nat.le_refl _
      | tail _ hr =>
        have ⟨hme, hke⟩ := Run.lookup_some_mem hc
        have ⟨hme', hke'⟩ := Run.lookup_some_mem hl'
        exact Nat.le_of_lt (h.1 x hme r hr e' hme' (by rw [hke, hke']))
    | none =>
      rw [hc] at hf
      have := ih h.2 hf
      refine ⟨?_, ?_⟩
      · obtain ⟨r, hr, hl⟩ := this.1; exact ⟨r, List.mem_cons_of_mem _ hr, hl⟩
      · intro r hr e' hl'
        cases hr with
        | head => rw [hc] at hl'; cases hl'
        | tail _ hr => exact this.2 r hr e' hl'

theorem firstHit_none {cs : List Run} {k : Bytes} : firstHit cs k = none ↔ ∀ r ∈ cs, r.lookup k = none :=
  firstSome_eq_none _ _

theorem isMax_of_mem_eq {cs cs' : List Run} (hm : ∀ r, r ∈ cs ↔ r ∈ cs') {k : Bytes} {e : Entry}
    (h : IsMax cs k e) : IsMax cs' k e := by
  obtain ⟨⟨r, hr, hl⟩, hmax⟩ := h
  exact ⟨⟨r, (hm r).mp hr, hl⟩, fun r' hr' e' hl' => hmax r' ((hm r').mpr hr') e' hl'⟩

/-- merging by sequence number (in any arrangement of the runs) agrees with the read order -/
theorem bestHit_eq_firstHit {cs rs : List Run} (h : NewerAbove cs) (hm : ∀ r, r ∈ cs ↔ r ∈ rs) (k : Bytes) :
    bestHit rs k = firstHit cs k := by
  cases hb : bestHit rs k with
  | none =>
    symm; rw [firstHit_none]; rw [bestHit_none] at hb
    intro r hr; exact hb r ((hm r).mp hr)
  | some e =>
    have h1 : IsMax cs k e := isMax_of_mem_eq (fun r => (hm r).symm) (bestHit_isMax hb)
    cases hf : firstHit cs k with
    | none =>
      rw [firstHit_none] at hf
      obtain ⟨⟨r, hr, hl⟩, _⟩ := h1
      rw [hf r hr] at hl; cases hl
    | some e' =>
      rw [isMax_unique h h1 (firstHit_isMax h hf)]

end Rxn.Lsm

namespace Rxn.Lsm
open Rxn

theorem opt_eq_firstHit {cs : List Run} (h : NewerAbove cs) {k : Bytes} (o : Option Entry)
    (hnone : o = none → ∀ r ∈ cs, r.lookup k = none) (hsome : ∀ e, o = some e → IsMax cs k e) :
    o = firstHit cs k := by
  cases ho : o with
  | none => symm; rw [firstHit_none]; exact hnone ho
  | some e =>
    have h1 := hsome e ho
    cases hf : firstHit cs k with
    | none =>
      rw [firstHit_none] at hf
      obtain ⟨⟨r, hr, hl⟩, _⟩ := h1
      rw [hf r hr] at hl; cases hl
    | some e' => rw [isMax_unique h h1 (firstHit_isMax h hf)]

theorem lookup_prefixRun (p : Bytes) (r : Run) (k : Bytes) :
    Run.lookup (prefixRun p r) k = if Bytes.hasPrefix k p then Run.lookup r k else none := by
  induction r with
  | nil => simp [prefixRun, Run.lookup]
  | cons x xs ih =>
    have ih' : Run.lookup (List.filter (fun e => Bytes.hasPrefix e.key p) xs) k =
        if Bytes.hasPrefix k p then Run.lookup xs k else none := ih
    show Run.lookup (List.filter (fun e => Bytes.hasPrefix e.key p) (x :: xs)) k = _
    rw [List.filter_cons]
    by_cases hx : Bytes.hasPrefix x.key p = true
    · rw [if_pos hx]
      simp only [Run.lookup]
      by_cases hk : x.key = k
      · subst hk; simp [hx]
      · simp [hk, ih']
    · rw [if_neg hx, ih']
      simp only [Run.lookup]
      by_cases hk : x.key = k
      · subst hk; simp [hx]
      · simp [hk]

theorem prefixRun_sorted (p : Bytes) {r : Run} (h : r.Sorted) : (prefixRun p r).Sorted :=
  List.Pairwise.filter _ h

theorem prefixRun_mem {p : Bytes} {r : Run} {e : Entry} (h : e ∈ prefixRun p r) : e ∈ r :=
  (List.mem_filter.mp h).1

theorem newerAbove_map_prefix (p : Bytes) {cs : List Run} (h : NewerAbove cs) : NewerAbove (cs.map (prefixRun p)) := by
  induction cs with
  | nil => trivial
  | cons c cs ih =>
    refine ⟨?_, ih h.2⟩
    intro e he r' hr' e' he' hk
    obtain ⟨r0, hr0, rfl⟩ := List.mem_map.mp hr'
    exact h.1 e (prefixRun_mem he) r0 hr0 e' (prefixRun_mem he') hk

theorem firstHit_map_prefix (p : Bytes) (cs : List Run) (k : Bytes) :
    firstHit (cs.map (prefixRun p)) k = if Bytes.hasPrefix k p then firstHit cs k else none := by
  induction cs with
  | nil => simp [firstHit, firstSome]
  | cons c cs ih =>
    simp only [firstHit, List.map_cons, firstSome] at ih ⊢
    rw [lookup_prefixRun]
    by_cases hp : Bytes.hasPrefix k p = true
    · simp only [hp, if_true] at ih ⊢
      cases c.lookup k with
      | some x => rfl
      | none => exact ih
    · have hp' : Bytes.hasPrefix k p = false := by simpa using hp
      simp only [hp'] at ih ⊢
      exact ih

theorem readOrder_mem (levels : List (List Tbl)) (t : Tbl) : t ∈ readOrder levels ↔ t ∈ levels.flatten := by
  cases levels with
  | nil => simp [readOrder]
  | cons l0 d => simp [readOrder]

/-- the raw scan's lookup agrees with the read order restricted to the prefix -/
theorem lookup_scanRaw {s : State} {m : Spec} (h : Inv s m) (p k : Bytes) :
    Run.lookup (scanRaw s p) k = if Bytes.hasPrefix k p then Spec.get m k else none := by
  have hA : ∀ r ∈ s.mems.map (prefixRun p), r.Sorted := by
    intro r hr
    obtain ⟨r0, hr0, rfl⟩ := List.mem_map.mp hr
    exact prefixRun_sorted p (h.sorted r0 (by simp [containers, hr0]))
  have hB : ∀ r ∈ (s.levels.flatten).map (fun t => t.scan p), r.Sorted := by
    intro r hr
    obtain ⟨t, ht, rfl⟩ := List.mem_map.mp hr
    exact prefixRun_sorted p (h.sorted t.run (by
      simp only [containers, List.mem_append, List.mem_map]
      exact Or.inr ⟨t, (readOrder_mem _ t).mpr ht, rfl⟩))
  unfold scanRaw
  rw [lookup_merge2 (mergeAll_sorted hA) (mergeAll_sorted hB), lookup_mergeAll hA, lookup_mergeAll hB]
  have hcs := newerAbove_map_prefix p h.newer
  have hmemA : ∀ r ∈ s.mems.map (prefixRun p), r ∈ (containers s).map (prefixRun p) := by
    intro r hr
    obtain ⟨r0, hr0, rfl⟩ := List.mem_map.mp hr
    exact List.mem_map.mpr ⟨r0, by simp [containers, hr0], rfl⟩
  have hmemB : ∀ r ∈ (s.levels.flatten).map (fun t => t.scan p), r ∈ (containers s).map (prefixRun p) := by
    intro r hr
    obtain ⟨t, ht, rfl⟩ := List.mem_map.mp hr
    refine List.mem_map.mpr ⟨t.run, ?_, rfl⟩
    simp only [containers, List.mem_append, List.mem_map]
    exact Or.inr ⟨t, (readOrder_mem _ t).mpr ht, rfl⟩
  have hcover : ∀ r ∈ (containers s).map (prefixRun p),
      r ∈ s.mems.map (prefixRun p) ∨ r ∈ (s.levels.flatten).map (fun t => t.scan p) := by
    intro r hr
    obtain ⟨r0, hr0, rfl⟩ := List.mem_map.mp hr
    simp only [containers, List.mem_append, List.mem_reverse, List.mem_map] at hr0
    cases hr0 with
    | inl hm => exact Or.inl (List.mem_map.mpr ⟨r0, hm, rfl⟩)
    | inr ht =>
      obtain ⟨t, ht, rfl⟩ := ht
      exact Or.inr (List.mem_map.mpr ⟨t, (readOrder_mem _ t).mp ht, rfl⟩)
  have key := opt_eq_firstHit hcs (k := k)
    (pick (bestHit (s.mems.map (prefixRun p)) k) (bestHit ((s.levels.flatten).map (fun t => t.scan p)) k))
    (by
      intro hn r hr
      rw [pick_none, bestHit_none, bestHit_none] at hn
      cases hcover r hr with
      | inl h1 => exact hn.1 r h1
      | inr h2 => exact hn.2 r h2)
    (by
      intro e he
      obtain ⟨hor, h1, h2⟩ := pick_some_cases he
      constructor
      · cases hor with
        | inl hl => obtain ⟨r, hr, hlk⟩ := (bestHit_isMax hl).1; exact ⟨r, hmemA r hr, hlk⟩
        | inr hl => obtain ⟨r, hr, hlk⟩ := (bestHit_isMax hl).1; exact ⟨r, hmemB r hr, hlk⟩
      · intro r hr e' hl'
        cases hcover r hr with
        | inl hin =>
          cases hb : bestHit (s.mems.map (prefixRun p)) k with
          | none => rw [bestHit_none] at hb; rw [hb r hin] at hl'; cases hl'
          | some b => exact Nat.le_trans ((bestHit_isMax hb).2 r hin e' hl') (h1 b hb)
        | inr hin =>
          cases hb : bestHit ((s.levels.flatten).map (fun t => t.scan p)) k with
          | none => rw [bestHit_none] at hb; rw [hb r hin] at hl'; cases hl'
          | some b => exact Nat.le_trans ((bestHit_isMax hb).2 r hin e' hl') (h2 b hb))
  rw [key, firstHit_map_prefix, h.hit k]

theorem scanRaw_sorted {s : State} {m : Spec} (h : Inv s m) (p : Bytes) : (scanRaw s p).Sorted := by
  unfold scanRaw
  apply merge2_sorted <;> apply mergeAll_sorted
  · intro r hr
    obtain ⟨r0, hr0, rfl⟩ := List.mem_map.mp hr
    exact prefixRun_sorted p (h.sorted r0 (by simp [containers, hr0]))
  · intro r hr
    obtain ⟨t, ht, rfl⟩ := List.mem_map.mp hr
    exact prefixRun_sorted p (h.sorted t.run (by
      simp only [containers, List.mem_append, List.mem_map]
      exact Or.inr ⟨t, (readOrder_mem _ t).mpr ht, rfl⟩))

/-- `ScanPrefix`: strictly ascending, and exactly the live latest entries with the prefix -/
theorem scan_spec {s : State} {m : Spec} (h : Inv s m) (p : Bytes) :
    (scan s p).Sorted ∧
    ∀ e, e ∈ scan s p ↔ (Spec.get m e.key = some e ∧ e.del = false ∧ Bytes.hasPrefix e.key p = true) := by
  have hs := scanRaw_sorted h p
  refine ⟨List.Pairwise.filter _ hs, ?_⟩
  intro e
  unfold scan
  rw [List.mem_filter]
  constructor
  · rintro ⟨hm, hd⟩
    have hl := Run.lookup_of_mem hs hm
    rw [lookup_scanRaw h] at hl
    by_cases hp : Bytes.hasPrefix e.key p = true
    · simp only [hp, if_true] at hl
      exact ⟨hl, by simpa using hd, hp⟩
    · have hp' : Bytes.hasPrefix e.key p = false := by simpa using hp
      simp [hp'] at hl
  · rintro ⟨hg, hd, hp⟩
    have hl : Run.lookup (scanRaw s p) e.key = some e := by rw [lookup_scanRaw h, hp]; simpa using hg
    exact ⟨(Run.lookup_some_mem hl).1, by simp [hd]⟩

end Rxn.Lsm
