import RxnModel.Model.JobFsm
/-! Helper lemmas for C15: the invariant of the job FSM and its preservation by every action. -/
namespace Rxn.JobFsm

/-- everything the invariant says except "a Running job has a registered assembly", which is re-established by the
`evaluateClusterStatus` call at the end of every task that changes the registry -/
structure Inv' (s : St) : Prop where
  regLiveO : ∀ i ∈ s.ops, (s.live i).isSome = true
  regLiveS : ∀ i ∈ s.srs, (s.live i).isSome = true
  sortedO : s.ops.Pairwise (· < ·)
  sortedS : s.srs.Pairwise (· < ·)
  tickRun : s.ticker = true ↔ s.status = .running
  asmShape : s.status = .starting ∨ s.status = .running →
    s.asmOps.length = s.w ∧ s.asmSrs.length = s.w ∧ s.asmOps.Nodup ∧ s.asmSrs.Nodup
  startClean : s.ser = true → s.status = .starting → s.store.pending = none
  pendId : ∀ p, s.store.pending = some p → p.id = s.store.counter ∧ ∀ c, s.store.current = some c → c < p.id
  curLe : ∀ c, s.store.current = some c → c ≤ s.store.counter
  pendAsm : s.ser = true → ∀ p, s.store.pending = some p → p.expOps = s.asmOps ∧ p.expSrs = s.asmSrs
  procAsm : s.status = .running → ∀ i ∈ s.asmOps, (s.procs i).deployed = true ∧ (s.procs i).srcs = s.asmSrs
  recSrc : ∀ i rid waiting, (s.procs i).inflight = some (rid, waiting) → ∀ x ∈ waiting, x ∈ (s.procs i).srcs

structure Inv (s : St) : Prop extends Inv' s where
  runHealthy : s.status = .running → healthy s = true

theorem init_inv (w d c0 bmax : Nat) : Inv (init w d c0 bmax) := by
  refine ⟨⟨?_, ?_, ?_, ?_, ?_, ?_, ?_, ?_, ?_, ?_, ?_, ?_⟩, ?_⟩ <;> simp [init]

/-! ### registry list operations -/

theorem mem_ins (i j : Nat) (l : List Nat) : j ∈ ins i l ↔ j = i ∨ j ∈ l := by
  induction l with
  | nil => simp [ins]
  | cons x xs ih =>
    simp only [ins]
    split
    · simp
    · split
      · rename_i h; subst h; simp
      · simp [ih]; constructor <;> (intro h; rcases h with h | h | h <;> simp [h])

theorem sorted_ins (i : Nat) (l : List Nat) (h : l.Pairwise (· < ·)) : (ins i l).Pairwise (· < ·) := by
  induction l with
  | nil => simp [ins]
  | cons x xs ih =>
    have hx := List.pairwise_cons.mp h
    simp only [ins]
    split
    · rename_i hlt
      refine List.pairwise_cons.mpr ⟨?_, h⟩
      intro y hy
      rcases List.mem_cons.mp hy with e | hy
      · omega
      · have := hx.1 y hy; omega
    · split
      · exact h
      · rename_i h1 h2
        refine List.pairwise_cons.mpr ⟨?_, ih hx.2⟩
        intro y hy
        rcases (mem_ins i y xs).mp hy with e | hy
        · omega
        · exact hx.1 y hy

theorem nodup_of_sorted {l : List Nat} (h : l.Pairwise (· < ·)) : l.Nodup :=
  List.Pairwise.imp (fun hlt => Nat.ne_of_lt hlt) h

/-! ### `Registry.Purge` -/

theorem purge_live_of_not_dead (s : St) (i : Nat) (h : dead s i = false) : (purge s).live i = s.live i := by
  show (match s.live i with
    | some hb => if expired s.d s.now hb then none else some hb
    | none => none) = s.live i
  unfold dead at h
  cases hl : s.live i with
  | none => rfl
  | some hb => rw [hl] at h; simp only at h; simp [h]

theorem purge_inv' {s : St} (h : Inv' s) : Inv' (purge s) where
  regLiveO := by
    intro i hi
    have hm := List.mem_filter.mp hi
    have hd : dead s i = false := by simpa using hm.2
    rw [purge_live_of_not_dead s i hd]; exact h.regLiveO i hm.1
  regLiveS := by
    intro i hi
    have hm := List.mem_filter.mp hi
    have hd : dead s i = false := by simpa using hm.2
    rw [purge_live_of_not_dead s i hd]; exact h.regLiveS i hm.1
  sortedO := List.Pairwise.sublist List.filter_sublist h.sortedO
  sortedS := List.Pairwise.sublist List.filter_sublist h.sortedS
  tickRun := h.tickRun
  asmShape := h.asmShape
  startClean := h.startClean
  pendId := h.pendId
  curLe := h.curLe
  pendAsm := h.pendAsm
  procAsm := h.procAsm
  recSrc := h.recSrc

/-- after the purge every registered node has an unexpired heartbeat -/
theorem purge_alive {s : St} (h : Inv' s) :
    (∀ i ∈ (purge s).ops, alive (purge s) i) ∧ (∀ i ∈ (purge s).srs, alive (purge s) i) := by
  have key : ∀ i, (s.live i).isSome = true → dead s i = false → alive (purge s) i := by
    intro i hl hd
    obtain ⟨hb, hhb⟩ := Option.isSome_iff_exists.mp hl
    refine ⟨hb, ?_, ?_⟩
    · rw [purge_live_of_not_dead s i hd]; exact hhb
    · have : expired s.d s.now hb = false := by simpa [dead, hhb] using hd
      exact this
  constructor
  · intro i hi
    have hm := List.mem_filter.mp hi
    exact key i (h.regLiveO i hm.1) (by simpa using hm.2)
  · intro i hi
    have hm := List.mem_filter.mp hi
    exact key i (h.regLiveS i hm.1) (by simpa using hm.2)

/-! ### `evaluateClusterStatus` -/

theorem spawn_inv {s : St} (h : Inv' s) (hs : s.status ≠ .running) : Inv (spawn s).1 := by
  unfold spawn
  split
  · exact ⟨h, fun hr => absurd hr hs⟩
  · rename_i hlen
    have hlen' : s.w ≤ s.srs.length ∧ s.w ≤ s.ops.length := by
      simp only [Bool.or_eq_true, decide_eq_true_eq, not_or, Nat.not_lt] at hlen; exact hlen
    have htick : s.ticker = false := by
      cases ht : s.ticker
      · rfl
      · exact absurd (h.tickRun.mp ht) hs
    refine ⟨⟨h.regLiveO, h.regLiveS, h.sortedO, h.sortedS, ?_, ?_, ?_, ?_, h.curLe, ?_, ?_, h.recSrc⟩, ?_⟩
    · simp [htick]
    · intro _
      refine ⟨by simp [List.length_take]; omega, by simp [List.length_take]; omega, ?_, ?_⟩
      · exact nodup_of_sorted (List.Pairwise.sublist (List.take_sublist _ _) h.sortedO)
      · exact nodup_of_sorted (List.Pairwise.sublist (List.take_sublist _ _) h.sortedS)
    · intro _ _; rfl
    · intro p hp; simp at hp
    · intro _ p hp; simp at hp
    · intro hr; simp at hr
    · intro hr; simp at hr

theorem evalStatus_inv {s : St} (h : Inv' s) : Inv (evalStatus s).1 := by
  unfold evalStatus
  split
  · rename_i hst
    split
    · rename_i hh; exact ⟨h, fun _ => hh⟩
    · refine ⟨⟨h.regLiveO, h.regLiveS, h.sortedO, h.sortedS, ?_, ?_, ?_, h.pendId, h.curLe, h.pendAsm, ?_, h.recSrc⟩, ?_⟩
      · simp
      · intro hr; simp at hr
      · intro _ hr; simp at hr
      · intro hr; simp at hr
      · intro hr; simp at hr
  · rename_i hst; exact ⟨h, fun hr => by rw [hst] at hr; cases hr⟩
  · rename_i hst; exact spawn_inv h (by rw [hst]; decide)
  · rename_i hst; exact spawn_inv h (by rw [hst]; decide)

theorem evaluate_inv {s : St} (h : Inv' s) : Inv (evaluate s).1 :=
  evalStatus_inv (purge_inv' h)

/-! ### acknowledgements at the store -/

/-- what an acknowledgement can do to the store: nothing, record it, or complete the pending snapshot (which is then
being written; the current checkpoint does not change here) -/
def AckStep (st st' : Store) : Prop :=
  st' = st ∨ ∃ p p', st.pending = some p ∧ p'.id = p.id ∧ p'.expOps = p.expOps ∧ p'.expSrs = p.expSrs ∧
    st'.counter = st.counter ∧ st'.current = st.current ∧
    ((st'.pending = some p' ∧ st'.writing = st.writing) ∨ (st'.pending = none ∧ st'.writing = st.writing ++ [p.id]))

theorem finish_ackStep (st : Store) (p p' : Pending) (hp : st.pending = some p) (h1 : p'.id = p.id)
    (h2 : p'.expOps = p.expOps) (h3 : p'.expSrs = p.expSrs) : AckStep st (finish st p').1 := by
  unfold finish
  split
  · exact Or.inr ⟨p, p', hp, h1, h2, h3, rfl, rfl, Or.inr ⟨rfl, by simp [h1]⟩⟩
  · exact Or.inr ⟨p, p', hp, h1, h2, h3, rfl, rfl, Or.inl ⟨rfl, rfl⟩⟩

theorem ackS_ackStep (st : Store) (i id : Nat) : AckStep st (ackS st i id).1 := by
  unfold ackS
  split
  · exact Or.inl rfl
  · rename_i p hp
    split
    · exact Or.inl rfl
    · split
      · exact Or.inl rfl
      · exact finish_ackStep st p _ hp rfl rfl rfl

theorem ackO_ackStep (st : Store) (i id : Nat) : AckStep st (ackO st i id).1 := by
  unfold ackO
  split
  · exact Or.inl rfl
  · rename_i p hp
    split
    · exact Or.inl rfl
    · split
      · exact finish_ackStep st p _ hp rfl rfl rfl
      · exact finish_ackStep st p p hp rfl rfl rfl

theorem inv_ackStep {s : St} (h : Inv s) {st' : Store} (ha : AckStep s.store st') : Inv { s with store := st' } := by
  rcases ha with e | ⟨p, p', hp, h1, h2, h3, hc, hcur, hcase⟩
  · subst e; exact h
  · have hpid := h.pendId p hp
    refine ⟨⟨h.regLiveO, h.regLiveS, h.sortedO, h.sortedS, h.tickRun, h.asmShape, ?_, ?_, ?_, ?_, h.procAsm, h.recSrc⟩,
      h.runHealthy⟩
    · intro hser hs
      have := h.startClean hser hs
      rw [this] at hp; cases hp
    · intro q hq
      rcases hcase with ⟨hq', _⟩ | ⟨hq', _⟩
      · have : q = p' := by simpa [hq'] using hq.symm
        subst this
        refine ⟨by simp [hc, h1, hpid.1], ?_⟩
        intro c hcc; simp only [hcur] at hcc; rw [h1]; exact hpid.2 c hcc
      · simp [hq'] at hq
    · intro c hcc
      simp only [hcur] at hcc; simp only [hc]; exact h.curLe c hcc
    · intro hser q hq
      have hpa := h.pendAsm hser p hp
      rcases hcase with ⟨hq', _⟩ | ⟨hq', _⟩
      · have : q = p' := by simpa [hq'] using hq.symm
        subst this
        exact ⟨h2.trans hpa.1, h3.trans hpa.2⟩
      · simp [hq'] at hq

theorem canPublish_spec {st : Store} {n : Nat} (h : canPublish st n = true) :
    n ≤ st.counter ∧ ∀ p, st.pending = some p → n < p.id := by
  unfold canPublish at h
  simp only [Bool.and_eq_true, decide_eq_true_eq] at h
  refine ⟨h.1.2, ?_⟩
  intro p hp
  have := h.2
  rw [hp] at this
  simpa using this

theorem pubCurrent_spec {cur : Option Nat} {n c : Nat} (h : pubCurrent cur n = some c) : c = n ∨ cur = some c := by
  unfold pubCurrent at h
  cases cur with
  | none => simp only [Option.some.injEq] at h; exact Or.inl h.symm
  | some c0 =>
    simp only at h
    split at h <;> simp only [Option.some.injEq] at h
    · exact Or.inl h.symm
    · exact Or.inr (by rw [h])

theorem pubCurrent_ge (cur : Option Nat) (n : Nat) :
    ∃ c', pubCurrent cur n = some c' ∧ n ≤ c' ∧ ∀ c, cur = some c → c ≤ c' := by
  unfold pubCurrent
  cases cur with
  | none => exact ⟨n, rfl, Nat.le_refl n, fun c h => by cases h⟩
  | some c0 =>
    simp only
    split
    · exact ⟨n, rfl, Nat.le_refl n, fun c h => by cases h; omega⟩
    · exact ⟨c0, rfl, by omega, fun c h => by cases h; exact Nat.le_refl _⟩

/-- the file of a completed snapshot has been written -/
theorem inv_publish {s : St} (h : Inv s) (n : Nat) : Inv (step s (.publish n)).1 := by
  simp only [step]
  split
  · rename_i hg
    obtain ⟨hle, hpend⟩ := canPublish_spec hg
    refine ⟨⟨h.regLiveO, h.regLiveS, h.sortedO, h.sortedS, h.tickRun, h.asmShape, h.startClean, ?_, ?_, h.pendAsm,
      h.procAsm, h.recSrc⟩, h.runHealthy⟩
    · intro p hp
      have hp' : s.store.pending = some p := hp
      refine ⟨(h.pendId p hp').1, ?_⟩
      intro c hc
      rcases pubCurrent_spec hc with e | e
      · rw [e]; exact hpend p hp'
      · exact (h.pendId p hp').2 c e
    · intro c hc
      show c ≤ s.store.counter
      rcases pubCurrent_spec hc with e | e
      · rw [e]; exact hle
      · exact h.curLe c e
  · exact h

/-! ### every action preserves the invariant -/

theorem inv'_regO {s : St} (h : Inv' s) (i : Nat) :
    Inv' { s with live := fun j => if j = i then some s.now else s.live j, ops := ins i s.ops } := by
  refine ⟨?_, ?_, sorted_ins i _ h.sortedO, h.sortedS, h.tickRun, h.asmShape, h.startClean, h.pendId, h.curLe,
    h.pendAsm, h.procAsm, h.recSrc⟩
  · intro j hj
    by_cases e : j = i
    · simp [e]
    · rcases (mem_ins i j s.ops).mp hj with e' | hm
      · exact absurd e' e
      · simpa [e] using h.regLiveO j hm
  · intro j hj
    by_cases e : j = i
    · simp [e]
    · simpa [e] using h.regLiveS j hj

theorem inv'_regS {s : St} (h : Inv' s) (i : Nat) :
    Inv' { s with live := fun j => if j = i then some s.now else s.live j, srs := ins i s.srs } := by
  refine ⟨?_, ?_, h.sortedO, sorted_ins i _ h.sortedS, h.tickRun, h.asmShape, h.startClean, h.pendId, h.curLe,
    h.pendAsm, h.procAsm, h.recSrc⟩
  · intro j hj
    by_cases e : j = i
    · simp [e]
    · simpa [e] using h.regLiveO j hj
  · intro j hj
    by_cases e : j = i
    · simp [e]
    · rcases (mem_ins i j s.srs).mp hj with e' | hm
      · exact absurd e' e
      · simpa [e] using h.regLiveS j hm

theorem inv'_deregO {s : St} (h : Inv' s) (i : Nat) : Inv' { s with ops := s.ops.filter (· ≠ i) } :=
  ⟨fun j hj => h.regLiveO j (List.mem_filter.mp hj).1, h.regLiveS, List.Pairwise.sublist List.filter_sublist h.sortedO,
   h.sortedS, h.tickRun, h.asmShape, h.startClean, h.pendId, h.curLe, h.pendAsm, h.procAsm, h.recSrc⟩

theorem inv'_deregS {s : St} (h : Inv' s) (i : Nat) : Inv' { s with srs := s.srs.filter (· ≠ i) } :=
  ⟨h.regLiveO, fun j hj => h.regLiveS j (List.mem_filter.mp hj).1, h.sortedO,
   List.Pairwise.sublist List.filter_sublist h.sortedS, h.tickRun, h.asmShape, h.startClean, h.pendId, h.curLe,
   h.pendAsm, h.procAsm, h.recSrc⟩

theorem deployProcs_mem (s : St) (skip : Option Nat) (j : Nat) (hj : s.asmOps.contains j = true) (hs : skip ≠ some j) :
    (deployProcs s skip j).deployed = true ∧ (deployProcs s skip j).srcs = s.asmSrs ∧
    (deployProcs s skip j).inflight = none ∧ (deployProcs s skip j).batch = (s.procs j).batch := by
  have hj' : j ∈ s.asmOps := by simpa using hj
  simp [deployProcs, hj', hs]

theorem deployProcs_recSrc {s : St} (h : Inv' s) (skip : Option Nat) :
    ∀ i rid waiting, (deployProcs s skip i).inflight = some (rid, waiting) → ∀ x ∈ waiting, x ∈ (deployProcs s skip i).srcs := by
  intro i rid waiting
  unfold deployProcs
  split
  · intro hh; simp at hh
  · exact h.recSrc i rid waiting

theorem inv'_deployOk {s : St} (h : Inv' s) (hs : s.status = .starting) :
    Inv' { s with procs := deployProcs s none, status := .running, ticker := true } := by
  refine ⟨h.regLiveO, h.regLiveS, h.sortedO, h.sortedS, by simp, fun _ => h.asmShape (Or.inl hs), ?_, h.pendId,
    h.curLe, h.pendAsm, ?_, deployProcs_recSrc h none⟩
  · intro _ hr; simp at hr
  · intro _ i hi
    have := deployProcs_mem s none i (by simpa using hi) (by simp)
    exact ⟨this.1, this.2.1⟩

theorem inv'_deployFail {s : St} (h : Inv' s) (skip : Option Nat) :
    Inv' { s with procs := deployProcs s skip, status := .paused, ticker := false } := by
  refine ⟨h.regLiveO, h.regLiveS, h.sortedO, h.sortedS, by simp, ?_, ?_, h.pendId, h.curLe, h.pendAsm, ?_,
    deployProcs_recSrc h skip⟩
  · intro hr; simp at hr
  · intro _ hr; simp at hr
  · intro hr; simp at hr

theorem inv_tick {s : St} (h : Inv s) : Inv (step s .tick).1 := by
  simp only [step]
  split
  · exact h
  · rename_i ht
    have hrun : s.status = .running := h.tickRun.mp (by simpa using ht)
    split
    · exact h
    · rename_i hp
      refine ⟨⟨h.regLiveO, h.regLiveS, h.sortedO, h.sortedS, h.tickRun, h.asmShape, ?_, ?_, ?_, ?_, h.procAsm, h.recSrc⟩,
        h.runHealthy⟩
      · intro _ hst; rw [hrun] at hst; cases hst
      · intro p hp'
        simp only [Option.some.injEq] at hp'
        subst hp'
        refine ⟨rfl, ?_⟩
        intro c hc
        have := h.curLe c hc
        show c < s.store.counter + 1
        omega
      · intro c hc
        have := h.curLe c hc
        show c ≤ s.store.counter + 1
        omega
      · intro _ p hp'
        simp only [Option.some.injEq] at hp'
        subst hp'
        exact ⟨rfl, rfl⟩

theorem inv_savepoint {s : St} (h : Inv s) : Inv (step s .savepoint).1 := by
  simp only [step]
  split
  · exact h
  · rename_i hst
    have hrun : s.status = .running := by
      cases hs : s.status <;> simp_all
    split
    · rename_i p hp
      split
      · exact h
      · refine ⟨⟨h.regLiveO, h.regLiveS, h.sortedO, h.sortedS, h.tickRun, h.asmShape, ?_, ?_, h.curLe, ?_, h.procAsm,
          h.recSrc⟩, h.runHealthy⟩
        · intro _ hs; rw [hrun] at hs; cases hs
        · intro q hq
          simp only [Option.some.injEq] at hq
          subst hq
          exact h.pendId p hp
        · intro hser q hq
          simp only [Option.some.injEq] at hq
          subst hq
          exact h.pendAsm hser p hp
    · refine ⟨⟨h.regLiveO, h.regLiveS, h.sortedO, h.sortedS, h.tickRun, h.asmShape, ?_, ?_, ?_, ?_, h.procAsm, h.recSrc⟩,
        h.runHealthy⟩
      · intro _ hs; rw [hrun] at hs; cases hs
      · intro p hp'
        simp only [Option.some.injEq] at hp'
        subst hp'
        refine ⟨rfl, ?_⟩
        intro c hc
        have := h.curLe c hc
        show c < s.store.counter + 1
        omega
      · intro c hc
        have := h.curLe c hc
        show c ≤ s.store.counter + 1
        omega
      · intro _ p hp'
        simp only [Option.some.injEq] at hp'
        subst hp'
        exact ⟨rfl, rfl⟩

/-- frame: only the store and process `i` change; the process keeps its deployment -/
theorem inv_setProc {s : St} (i : Nat) (st' : Store) (p' : OpProc)
    (hi : Inv { s with store := st' }) (hd : p'.deployed = (s.procs i).deployed) (hs : p'.srcs = (s.procs i).srcs)
    (hrec : ∀ rid' w', p'.inflight = some (rid', w') → ∀ x ∈ w', x ∈ (s.procs i).srcs) :
    Inv { s with store := st', procs := setProc s.procs i p' } := by
  refine ⟨⟨hi.regLiveO, hi.regLiveS, hi.sortedO, hi.sortedS, hi.tickRun, hi.asmShape, hi.startClean, hi.pendId,
    hi.curLe, hi.pendAsm, ?_, ?_⟩, hi.runHealthy⟩
  · intro hr j hj
    have := hi.procAsm hr j hj
    by_cases e : j = i
    · subst e
      show (setProc s.procs j p' j).deployed = true ∧ (setProc s.procs j p' j).srcs = s.asmSrs
      simp only [setProc, if_true]
      rw [hd, hs]; exact this
    · show (setProc s.procs i p' j).deployed = true ∧ (setProc s.procs i p' j).srcs = s.asmSrs
      simp only [setProc, e, if_false]; exact this
  · intro j rid' w' hj
    by_cases e : j = i
    · subst e
      simp only [setProc, if_true] at hj ⊢
      rw [hs]; exact hrec rid' w' hj
    · simp only [setProc, e, if_false] at hj ⊢
      exact hi.recSrc j rid' w' hj

theorem inv_register {s : St} (h : Inv s) (i sr id rid : Nat) (waiting : List Nat)
    (hw : ∀ x ∈ waiting, x ∈ (s.procs i).srcs) : Inv (register s i sr id rid waiting).1 := by
  unfold register
  split
  · exact h
  · split
    · split
      · rename_i st' pub heq
        have hst : st' = (ackO s.store i rid).1 := by rw [heq]
        exact inv_setProc i st' _ (hst ▸ inv_ackStep h (ackO_ackStep _ _ _)) rfl rfl (by intro _ _ hh; cases hh)
      · exact inv_setProc i s.store _ h rfl rfl (by intro _ _ hh; cases hh; intro x hx; cases hx)
    · refine inv_setProc i s.store _ h rfl rfl ?_
      intro _ _ hh; cases hh
      intro x hx
      exact hw x (List.mem_filter.mp hx).1

theorem inv_barrier {s : St} (h : Inv s) (i sr id : Nat) : Inv (barrier s i sr id).1 := by
  unfold barrier
  split
  · exact h
  · split
    · exact h
    · split
      · exact h
      · apply inv_register h
        cases hr : (s.procs i).inflight with
        | none => intro x hx; simpa using hx
        | some r => intro x hx; exact h.recSrc i r.1 r.2 (by rw [hr]) x (by simpa using hx)

theorem inv_event {s : St} (h : Inv s) (i sr tag : Nat) : Inv (event s i sr tag).1 := by
  unfold event
  split
  · exact h
  · split
    · exact h
    · split
      · exact h
      · split
        · exact inv_setProc i s.store _ h rfl rfl (fun rid w hh => h.recSrc i rid w hh)
        · exact inv_setProc i s.store _ h rfl rfl (fun rid w hh => h.recSrc i rid w hh)

theorem inv_flush {s : St} (h : Inv s) (i : Nat) : Inv (flushBatch s i).1 := by
  unfold flushBatch
  split
  · exact h
  · exact inv_setProc i s.store _ h rfl rfl (fun rid w hh => h.recSrc i rid w hh)

/-- the pieces of a ticker callback or savepoint request, run with tasks in between: everything of the invariant that
does not speak about the pending snapshot's assembly survives (the ghost flag `ser` is cleared) -/
theorem inv_pieces {s : St} (h : Inv s) (a : Act) (ha : a.serial = false) : Inv (step s a).1 := by
  have key : ∀ (t : St), t.ser = false → t.w = s.w → t.ops = s.ops → t.srs = s.srs → t.live = s.live → t.status = s.status →
      t.asmOps = s.asmOps → t.asmSrs = s.asmSrs → t.ticker = s.ticker → t.procs = s.procs →
      (∀ p, t.store.pending = some p → p.id = t.store.counter ∧ ∀ c, t.store.current = some c → c < p.id) →
      (∀ c, t.store.current = some c → c ≤ t.store.counter) → Inv t := by
    intro t e0 ew e1 e2 e3 e4 e5 e6 e7 e8 hp hc
    refine ⟨⟨by rw [e1, e3]; exact h.regLiveO, by rw [e2, e3]; exact h.regLiveS, by rw [e1]; exact h.sortedO,
      by rw [e2]; exact h.sortedS, by rw [e7, e4]; exact h.tickRun, by rw [e4, e5, e6, ew]; exact h.asmShape, ?_, hp, hc, ?_,
      by rw [e4, e5, e6, e8]; exact h.procAsm, by rw [e8]; exact h.recSrc⟩, ?_⟩
    · intro hh; rw [e0] at hh; cases hh
    · intro hh; rw [e0] at hh; cases hh
    · intro hr
      have := h.runHealthy (by rw [← e4]; exact hr)
      unfold healthy at this ⊢
      rw [e1, e2, e5, e6]; exact this
  have hcur : ∀ c, s.store.current = some c → c ≤ s.store.counter + 1 := fun c hc => by have := h.curLe c hc; omega
  cases a with
  | tickA =>
    simp only [step]
    split
    · exact h
    · split
      · exact h
      · exact key _ rfl rfl rfl rfl rfl rfl rfl rfl rfl rfl h.pendId h.curLe
  | spA =>
    simp only [step]
    split
    · exact h
    · split
      · exact h
      · exact key _ rfl rfl rfl rfl rfl rfl rfl rfl rfl rfl h.pendId h.curLe
  | tickC =>
    simp only [step]
    split
    · exact key _ rfl rfl rfl rfl rfl rfl rfl rfl rfl rfl h.pendId h.curLe
    · exact h
  | tickB =>
    simp only [step]
    split
    · split
      · rename_i p hp
        split
        · exact key _ rfl rfl rfl rfl rfl rfl rfl rfl rfl rfl h.pendId h.curLe
        · split
          · exact key _ rfl rfl rfl rfl rfl rfl rfl rfl rfl rfl h.pendId h.curLe
          · refine key _ rfl rfl rfl rfl rfl rfl rfl rfl rfl rfl ?_ h.curLe
            intro q hq
            simp only [Option.some.injEq] at hq
            subst hq
            exact h.pendId p hp
      · refine key _ rfl rfl rfl rfl rfl rfl rfl rfl rfl rfl ?_ hcur
        intro q hq
        simp only [Option.some.injEq] at hq
        subst hq
        refine ⟨rfl, ?_⟩
        intro c hc
        have := h.curLe c hc
        show c < s.store.counter + 1
        omega
    · exact h
  | _ => cases ha

theorem step_inv {s : St} (h : Inv s) (a : Act) (hser : a.serial = true) : Inv (step s a).1 := by
  cases a with
  | tickA => cases hser
  | tickB => cases hser
  | tickC => cases hser
  | spA => cases hser
  | savepoint => exact inv_savepoint h
  | regO i => exact evaluate_inv (inv'_regO h.toInv' i)
  | regS i => exact evaluate_inv (inv'_regS h.toInv' i)
  | deregO i => exact evaluate_inv (inv'_deregO h.toInv' i)
  | deregS i => exact evaluate_inv (inv'_deregS h.toInv' i)
  | adv n =>
    exact ⟨⟨h.regLiveO, h.regLiveS, h.sortedO, h.sortedS, h.tickRun, h.asmShape, h.startClean, h.pendId, h.curLe,
      h.pendAsm, h.procAsm, h.recSrc⟩, h.runHealthy⟩
  | deployOk =>
    simp only [step]
    split
    · exact h
    · rename_i hs
      exact evaluate_inv (inv'_deployOk h.toInv' (by simpa using hs))
  | deployFail k =>
    simp only [step]
    split
    · exact h
    · exact evaluate_inv (inv'_deployFail h.toInv' _)
  | tick => exact inv_tick h
  | ackS i id => exact inv_ackStep h (ackS_ackStep _ _ _)
  | ackO i id => exact inv_ackStep h (ackO_ackStep _ _ _)
  | bar i sr id => exact inv_barrier h i sr id
  | ev i sr tag => exact inv_event h i sr tag
  | flush i => exact inv_flush h i
  | publish n => exact inv_publish h n

theorem run_fst_append (s : St) (as bs : List Act) : (run s (as ++ bs)).1 = (run (run s as).1 bs).1 := by
  induction as generalizing s with
  | nil => rfl
  | cons a as ih => simp only [List.cons_append, run]; exact ih _

theorem run_inv {s : St} (h : Inv s) (as : List Act) (hser : ∀ a ∈ as, a.serial = true) : Inv (run s as).1 := by
  induction as generalizing s with
  | nil => exact h
  | cons a as ih =>
    simp only [run]
    exact ih (step_inv h a (hser a (List.mem_cons_self ..))) (fun b hb => hser b (List.mem_cons_of_mem _ hb))

theorem reachable_inv {s : St} (h : ReachableSerial s) : Inv s := by
  obtain ⟨w, d, c0, bmax, acts, hser, rfl⟩ := h
  exact run_inv (init_inv w d c0 bmax) acts hser

theorem reachable_step {s : St} (h : ReachableSerial s) (a : Act) (ha : a.serial = true) : ReachableSerial (step s a).1 := by
  obtain ⟨w, d, c0, bmax, acts, hser, rfl⟩ := h
  refine ⟨w, d, c0, bmax, acts ++ [a], ?_, ?_⟩
  · intro b hb
    rcases List.mem_append.mp hb with hb | hb
    · exact hser b hb
    · have : b = a := by simpa using hb
      exact this ▸ ha
  · rw [run_fst_append]; rfl

/-! ### what a deployment decision looks like -/

/-- the facts about a `Deploy` decided by `evaluateClusterStatus` in (purged) state `s` -/
def DepFacts (s s' : St) (dep : Dep) : Prop :=
  dep.ops = s'.asmOps ∧ dep.srs = s'.asmSrs ∧ dep.ops.length = s.w ∧ dep.srs.length = s.w ∧ dep.ops.Nodup ∧
  dep.srs.Nodup ∧ (∀ i ∈ dep.ops, i ∈ s'.ops ∧ alive s' i) ∧ (∀ i ∈ dep.srs, i ∈ s'.srs ∧ alive s' i) ∧
  s'.status = .starting ∧ dep.ck = s.store.current ∧ dep.ck = s'.store.current ∧ s'.startCk = dep.ck

theorem spawn_dep {s : St} (h : Inv' s) (hao : ∀ i ∈ s.ops, alive s i) (has : ∀ i ∈ s.srs, alive s i) (dep : Dep)
    (hd : (spawn s).2 = some dep) : DepFacts s (spawn s).1 dep := by
  unfold spawn at hd ⊢
  split at hd
  · cases hd
  · rename_i hlen
    have hlen' : s.w ≤ s.srs.length ∧ s.w ≤ s.ops.length := by
      simp only [Bool.or_eq_true, decide_eq_true_eq, not_or, Nat.not_lt] at hlen; exact hlen
    rw [if_neg hlen]
    simp only [Option.some.injEq] at hd
    subst hd
    refine ⟨rfl, rfl, by simp [List.length_take]; omega, by simp [List.length_take]; omega,
      nodup_of_sorted (List.Pairwise.sublist (List.take_sublist _ _) h.sortedO),
      nodup_of_sorted (List.Pairwise.sublist (List.take_sublist _ _) h.sortedS), ?_, ?_, rfl, rfl, rfl, rfl⟩
    · intro i hi; exact ⟨List.mem_of_mem_take hi, hao i (List.mem_of_mem_take hi)⟩
    · intro i hi; exact ⟨List.mem_of_mem_take hi, has i (List.mem_of_mem_take hi)⟩

theorem evalStatus_dep {s : St} (h : Inv' s) (hao : ∀ i ∈ s.ops, alive s i) (has : ∀ i ∈ s.srs, alive s i)
    (dep : Dep) (hd : (evalStatus s).2 = some dep) : DepFacts s (evalStatus s).1 dep := by
  unfold evalStatus at hd ⊢
  split
  · rename_i hst; rw [hst] at hd; simp only at hd; split at hd <;> cases hd
  · rename_i hst; rw [hst] at hd; cases hd
  · rename_i hst; rw [hst] at hd; exact spawn_dep h hao has dep hd
  · rename_i hst; rw [hst] at hd; exact spawn_dep h hao has dep hd

theorem evaluate_dep {s : St} (h : Inv' s) (dep : Dep) (hd : (evaluate s).2 = some dep) :
    DepFacts s (evaluate s).1 dep :=
  evalStatus_dep (purge_inv' h) (purge_alive h).1 (purge_alive h).2 dep hd

theorem barrier_dep (s : St) (i sr id : Nat) : (barrier s i sr id).2.dep? = none := by
  unfold barrier register
  repeat' split
  all_goals rfl

theorem event_dep (s : St) (i sr tag : Nat) : (event s i sr tag).2.dep? = none := by
  unfold event
  repeat' split
  all_goals rfl

theorem flush_dep (s : St) (i : Nat) : (flushBatch s i).2.dep? = none := by
  unfold flushBatch
  split <;> rfl

theorem tickB_dep (s : St) : (step s .tickB).2.dep? = none := by
  simp only [step]
  repeat' split
  all_goals rfl

theorem savepoint_dep (s : St) : (step s .savepoint).2.dep? = none := by
  simp only [step]
  repeat' split
  all_goals rfl

theorem spA_dep (s : St) : (step s .spA).2.dep? = none := by
  simp only [step]
  repeat' split
  all_goals rfl

theorem tickC_dep (s : St) : (step s .tickC).2.dep? = none := by
  simp only [step]
  split <;> rfl

/-- only the tasks that end with `evaluateClusterStatus` can decide a deployment -/
theorem step_dep_src {s : St} (h : Inv s) (a : Act) (dep : Dep) (hd : (step s a).2.dep? = some dep) :
    ∃ s1, Inv' s1 ∧ s1.w = s.w ∧ s1.store = s.store ∧ step s a = withStatus (evaluate s1) := by
  cases a with
  | regO i => exact ⟨_, inv'_regO h.toInv' i, rfl, rfl, rfl⟩
  | regS i => exact ⟨_, inv'_regS h.toInv' i, rfl, rfl, rfl⟩
  | deregO i => exact ⟨_, inv'_deregO h.toInv' i, rfl, rfl, rfl⟩
  | deregS i => exact ⟨_, inv'_deregS h.toInv' i, rfl, rfl, rfl⟩
  | adv n => cases hd
  | tickA => simp only [step] at hd; split at hd <;> (try split at hd) <;> cases hd
  | publish n => simp only [step] at hd; split at hd <;> cases hd
  | savepoint => exact absurd hd (by rw [savepoint_dep]; simp)
  | spA => exact absurd hd (by rw [spA_dep]; simp)
  | tickB => exact absurd hd (by rw [tickB_dep]; simp)
  | tickC => exact absurd hd (by rw [tickC_dep]; simp)
  | deployOk => simp only [step] at hd; split at hd <;> cases hd
  | deployFail k =>
    simp only [step] at hd ⊢
    split at hd
    · cases hd
    · rename_i hs
      rw [if_neg hs]
      exact ⟨_, inv'_deployFail h.toInv' _, rfl, rfl, rfl⟩
  | tick =>
    simp only [step] at hd
    split at hd
    · cases hd
    · split at hd <;> cases hd
  | ackS i id => cases hd
  | ackO i id => cases hd
  | bar i sr id => simp only [step, barrier_dep] at hd; cases hd
  | ev i sr tag => simp only [step, event_dep] at hd; cases hd
  | flush i => simp only [step, flush_dep] at hd; cases hd

theorem step_dep {s : St} (h : Inv s) (a : Act) (dep : Dep) (hd : (step s a).2.dep? = some dep) :
    dep.ops = (step s a).1.asmOps ∧ dep.srs = (step s a).1.asmSrs ∧
    dep.ops.length = s.w ∧ dep.srs.length = s.w ∧ dep.ops.Nodup ∧ dep.srs.Nodup ∧
    (∀ i ∈ dep.ops, i ∈ (step s a).1.ops ∧ alive (step s a).1 i) ∧
    (∀ i ∈ dep.srs, i ∈ (step s a).1.srs ∧ alive (step s a).1 i) ∧
    (step s a).1.status = .starting := by
  obtain ⟨s1, h1, hw, _, heq⟩ := step_dep_src h a dep hd
  rw [heq] at hd ⊢
  obtain ⟨a1, a2, a3, a4, a5, a6, a7, a8, a9, _⟩ := evaluate_dep h1 dep hd
  exact ⟨a1, a2, hw ▸ a3, hw ▸ a4, a5, a6, a7, a8, a9⟩

theorem step_dep_ck {s : St} (h : Inv s) (a : Act) (dep : Dep) (hd : (step s a).2.dep? = some dep) :
    dep.ck = s.store.current ∧ dep.ck = (step s a).1.store.current ∧ (step s a).1.startCk = dep.ck := by
  obtain ⟨s1, h1, _, hst, heq⟩ := step_dep_src h a dep hd
  rw [heq] at hd ⊢
  obtain ⟨_, _, _, _, _, _, _, _, _, b1, b2, b3⟩ := evaluate_dep h1 dep hd
  exact ⟨hst ▸ b1, b2, b3⟩

/-! ### `evaluateClusterStatus` of a Running job -/

theorem evalStatus_running {s : St} (h : s.status = .running) :
    (evalStatus s).1 = if healthy s then s else { s with status := .paused, ticker := false } := by
  unfold evalStatus
  rw [h]
  simp only
  split <;> rfl

theorem membership_running {s : St} (h : Inv s) (hr : s.status = .running) (a : Act) (hm : a.membership = true) :
    ((step s a).1.status = .running ∧ healthy (step s a).1 = true ∧ (step s a).1.ticker = true) ∨
    ((step s a).1.status = .paused ∧ healthy (step s a).1 = false ∧ (step s a).1.ticker = false) := by
  have ht : s.ticker = true := h.tickRun.mpr hr
  have key : ∀ s1 : St, s1.status = .running → s1.ticker = true →
      ((evaluate s1).1.status = .running ∧ healthy (evaluate s1).1 = true ∧ (evaluate s1).1.ticker = true) ∨
      ((evaluate s1).1.status = .paused ∧ healthy (evaluate s1).1 = false ∧ (evaluate s1).1.ticker = false) := by
    intro s1 h1 t1
    unfold evaluate
    rw [evalStatus_running (s := purge s1) h1]
    cases hh : healthy (purge s1)
    · right; rw [if_neg (by simp)]; exact ⟨rfl, hh, rfl⟩
    · left; rw [if_pos rfl]; exact ⟨h1, hh, t1⟩
  cases a with
  | regO i => exact key _ hr ht
  | regS i => exact key _ hr ht
  | deregO i => exact key _ hr ht
  | deregS i => exact key _ hr ht
  | _ => cases hm

theorem evaluate_running_frame {s : St} (h : s.status = .running) :
    (evaluate s).1.store = s.store ∧ (evaluate s).1.procs = s.procs ∧ (evaluate s).1.asmOps = s.asmOps ∧
    (evaluate s).1.asmSrs = s.asmSrs := by
  unfold evaluate
  rw [evalStatus_running (s := purge s) h]
  split <;> exact ⟨rfl, rfl, rfl, rfl⟩

/-- what a successful deploy does, in every schedule: the store is untouched, every operator of the assembly is
deployed with the assembly's runners and without an alignment record, its event batch is kept -/
theorem deployOk_frame {s : St} (hs : s.status = .starting) :
    (step s .deployOk).1.store = s.store ∧
    (∀ i ∈ (step s .deployOk).1.asmOps,
      ((step s .deployOk).1.procs i).inflight = none ∧ ((step s .deployOk).1.procs i).deployed = true ∧
      ((step s .deployOk).1.procs i).srcs = (step s .deployOk).1.asmSrs ∧
      ((step s .deployOk).1.procs i).batch = (s.procs i).batch) ∧
    ∃ st, (step s .deployOk).2 = .started st s.startCk s.asmSrs s.store.pending.isSome []
      (s.asmOps.filter fun i => !(s.procs i).batch.isEmpty) := by
  let t : St := { s with procs := deployProcs s none, status := .running, ticker := true }
  have hstep : step s .deployOk = ((evaluate t).1, .started (evaluate t).1.status s.startCk s.asmSrs
      (evaluate t).1.store.pending.isSome
      ((evaluate t).1.asmOps.filter fun i => ((evaluate t).1.procs i).inflight.isSome)
      ((evaluate t).1.asmOps.filter fun i => !((evaluate t).1.procs i).batch.isEmpty)) := by
    simp only [step, hs, ne_eq, not_true_eq_false, if_false]
    rfl
  obtain ⟨e1, e2, e3, e4⟩ := evaluate_running_frame (s := t) rfl
  have e1' : (evaluate t).1.store = s.store := e1
  have e2' : (evaluate t).1.procs = deployProcs s none := e2
  have e3' : (evaluate t).1.asmOps = s.asmOps := e3
  have e4' : (evaluate t).1.asmSrs = s.asmSrs := e4
  have hproc := fun i (hi : i ∈ s.asmOps) => deployProcs_mem s none i (by simpa using hi) (by simp)
  rw [hstep]
  simp only [e1', e2', e3', e4']
  refine ⟨trivial, ?_, ⟨(evaluate t).1.status, ?_⟩⟩
  · intro i hi
    obtain ⟨a, b, c, d⟩ := hproc i hi
    exact ⟨c, a, b, d⟩
  · have hf : (s.asmOps.filter fun i => (deployProcs s none i).inflight.isSome) = [] := by
      apply List.filter_eq_nil_iff.mpr
      intro i hi; rw [(hproc i hi).2.2.1]; simp
    have hb : (s.asmOps.filter fun i => !(deployProcs s none i).batch.isEmpty) =
        (s.asmOps.filter fun i => !(s.procs i).batch.isEmpty) := by
      apply List.filter_congr
      intro i hi; rw [(hproc i hi).2.2.2]
    rw [hf, hb]

theorem deployOk_clean {s : St} (h : Inv s) (hser : s.ser = true) (hs : s.status = .starting) :
    (step s .deployOk).1.store.pending = none ∧
    (∀ i ∈ (step s .deployOk).1.asmOps,
      ((step s .deployOk).1.procs i).inflight = none ∧ ((step s .deployOk).1.procs i).deployed = true ∧
      ((step s .deployOk).1.procs i).srcs = (step s .deployOk).1.asmSrs ∧
      ((step s .deployOk).1.procs i).batch = (s.procs i).batch) ∧
    ∃ st, (step s .deployOk).2 = .started st s.startCk s.asmSrs false []
      (s.asmOps.filter fun i => !(s.procs i).batch.isEmpty) := by
  have hc := h.startClean hser hs
  obtain ⟨a, b, st, c⟩ := deployOk_frame hs
  refine ⟨by rw [a]; exact hc, b, st, ?_⟩
  rw [c, hc]; rfl

/-! ### the current checkpoint id only grows -/

theorem evaluate_current (s : St) : (evaluate s).1.store.current = s.store.current ∧
    (evaluate s).1.store.counter = s.store.counter := by
  unfold evaluate evalStatus
  have hs : ∀ t : St, (spawn t).1.store.current = t.store.current ∧ (spawn t).1.store.counter = t.store.counter := by
    intro t; unfold spawn; split <;> exact ⟨rfl, rfl⟩
  split
  · split <;> exact ⟨rfl, rfl⟩
  · exact ⟨rfl, rfl⟩
  · exact hs _
  · exact hs _

theorem AckStep.current {st st' : Store} (h : AckStep st st') : st'.current = st.current := by
  rcases h with e | ⟨p, p', _, _, _, _, _, hc, _⟩
  · rw [e]
  · exact hc

theorem register_current (s : St) (i sr id rid : Nat) (waiting : List Nat) :
    (register s i sr id rid waiting).1.store.current = s.store.current := by
  unfold register
  split
  · rfl
  · split
    · split
      · rename_i st' pub heq
        have hst : st' = (ackO s.store i rid).1 := by rw [heq]
        simp only
        rw [hst]
        exact (ackO_ackStep s.store i rid).current
      · rfl
    · rfl

/-- only the publication of a written snapshot changes the current checkpoint -/
theorem step_current (s : St) (a : Act) :
    (step s a).1.store.current = s.store.current ∨
    ∃ n, (step s a).1.store.current = pubCurrent s.store.current n := by
  cases a with
  | publish n =>
    simp only [step]
    split
    · exact Or.inr ⟨n, rfl⟩
    · exact Or.inl rfl
  | tickA => simp only [step]; split <;> (try split) <;> exact Or.inl rfl
  | tickB =>
    simp only [step]
    repeat' split
    all_goals exact Or.inl rfl
  | savepoint =>
    simp only [step]
    repeat' split
    all_goals exact Or.inl rfl
  | spA =>
    simp only [step]
    repeat' split
    all_goals exact Or.inl rfl
  | tickC => simp only [step]; split <;> exact Or.inl rfl
  | regO i => exact Or.inl (evaluate_current _).1
  | regS i => exact Or.inl (evaluate_current _).1
  | deregO i => exact Or.inl (evaluate_current _).1
  | deregS i => exact Or.inl (evaluate_current _).1
  | adv n => exact Or.inl rfl
  | deployOk =>
    simp only [step]
    split
    · exact Or.inl rfl
    · exact Or.inl (evaluate_current _).1
  | deployFail k =>
    simp only [step]
    split
    · exact Or.inl rfl
    · exact Or.inl (evaluate_current _).1
  | tick =>
    simp only [step]
    split
    · exact Or.inl rfl
    · split <;> exact Or.inl rfl
  | ackS i id => exact Or.inl (ackS_ackStep s.store i id).current
  | ackO i id => exact Or.inl (ackO_ackStep s.store i id).current
  | bar i sr id =>
    simp only [step]
    unfold barrier
    split
    · exact Or.inl rfl
    · split
      · exact Or.inl rfl
      · split
        · exact Or.inl rfl
        · exact Or.inl (register_current _ _ _ _ _ _)
  | ev i sr tag =>
    simp only [step]
    unfold event
    repeat' split
    all_goals exact Or.inl rfl
  | flush i =>
    simp only [step]
    unfold flushBatch
    split <;> exact Or.inl rfl

theorem step_current_mono (s : St) (a : Act) (c : Nat) (hc : s.store.current = some c) :
    ∃ c', (step s a).1.store.current = some c' ∧ c ≤ c' := by
  rcases step_current s a with e | ⟨n, e⟩
  · exact ⟨c, by rw [e, hc], Nat.le_refl c⟩
  · obtain ⟨c', h1, _, h3⟩ := pubCurrent_ge s.store.current n
    exact ⟨c', by rw [e, h1], h3 c hc⟩

/-! ### bounded progress: one round of the current assembly publishes -/

theorem filter_ne_head (x : Nat) (t : List Nat) (h : (x :: t).Nodup) : (x :: t).filter (· ≠ x) = t := by
  have hx := List.nodup_cons.mp h
  simp only [List.filter_cons, ne_eq, not_true_eq_false, decide_false, Bool.false_eq_true, if_false]
  apply List.filter_eq_self.mpr
  intro y hy
  have : y ≠ x := fun e => hx.1 (e ▸ hy)
  simpa using this

/-- the source runners of the assembly acknowledge one after the other -/
theorem run_ackS_all (n : Nat) : ∀ (L : List Nat) (s : St) (p : Pending), s.store.pending = some p → p.id = n →
    (∀ x ∈ L, x ∈ p.expSrs) → p.waitOps ≠ [] →
    (run s (L.map fun x => Act.ackS x n)).1 =
      { s with store := { s.store with pending := some { p with waitSrs := p.waitSrs.filter (fun y => !L.contains y) } } } := by
  intro L
  induction L with
  | nil =>
    intro s p hp _ _ _
    simp only [List.map_nil, run, List.contains_nil, Bool.not_false]
    have hf : p.waitSrs.filter (fun _ => true) = p.waitSrs := List.filter_eq_self.mpr (by simp)
    rw [hf]
    show s = { s with store := { s.store with pending := some p } }
    rw [← hp]
  | cons x L ih =>
    intro s p hp hid hexp hwo
    simp only [List.map_cons, run]
    have hx : p.expSrs.contains x = true := by simpa using hexp x (List.mem_cons_self ..)
    have hstep : (step s (Act.ackS x n)).1 =
        { s with store := { s.store with pending := some { p with waitSrs := p.waitSrs.filter (· ≠ x) } } } := by
      simp only [step, ackS, hp, hid, ne_eq, not_true_eq_false, if_false, hx, Bool.not_true, Bool.false_eq_true, finish]
      have : p.waitOps.isEmpty = false := by cases h : p.waitOps <;> simp_all
      simp [this]
    rw [hstep]
    rw [ih _ { p with waitSrs := p.waitSrs.filter (· ≠ x) } rfl hid (fun y hy => hexp y (List.mem_cons_of_mem _ hy)) hwo]
    simp only [List.filter_filter]
    congr 4
    apply List.filter_congr
    intro y _
    simp only [List.contains_cons, Bool.not_or, ne_eq, decide_not]
    cases h1 : (y == x) <;> cases h2 : L.contains y <;> simp_all

theorem setProc_setProc (f : Nat → OpProc) (i : Nat) (a b : OpProc) : setProc (setProc f i a) i b = setProc f i b := by
  funext j; simp only [setProc]; split <;> rfl

theorem setProc_self (f : Nat → OpProc) (i : Nat) (a : OpProc) : setProc f i a i = a := by simp [setProc]

theorem setProc_other (f : Nat → OpProc) (i j : Nat) (a : OpProc) (h : j ≠ i) : setProc f i a j = f j := by
  simp [setProc, h]

theorem ackO_ok (st : Store) (i n : Nat) (p : Pending) (hp : st.pending = some p) (hid : p.id = n) :
    ∃ pub, ackO st i n = ((ackO st i n).1, AckRes.ok pub) := by
  unfold ackO
  simp only [hp, hid, ne_eq, not_true_eq_false, if_false]
  split <;> (unfold finish; split <;> exact ⟨_, rfl⟩)

/-- one barrier at an operator whose record (existing or about to be created) waits for `T ∋ x` -/
theorem barrier_step (s : St) (i x n : Nat) (T : List Nat) (hd : (s.procs i).deployed = true)
    (hin : (s.procs i).inflight = some (n, T) ∨ ((s.procs i).inflight = none ∧ (s.procs i).srcs = T))
    (hx : x ∈ T) (hsrc : x ∈ (s.procs i).srcs) : barrier s i x n = register s i x n n T := by
  have hc : T.contains x = true := by simpa using hx
  have hne : T.isEmpty = false := by cases T <;> simp_all
  unfold barrier
  rcases hin with h | ⟨h, hs⟩
  · simp [hd, h, parked, hx, hne, hsrc]
  · simp [hd, h, hs, parked, hx]

/-- all barriers of checkpoint `n` arrive at operator `i` -/
theorem run_bar_all (n i : Nat) : ∀ (T : List Nat) (s : St) (p : Pending), T ≠ [] → T.Nodup →
    (s.procs i).deployed = true → (∀ x ∈ T, x ∈ (s.procs i).srcs) →
    ((s.procs i).inflight = some (n, T) ∨ ((s.procs i).inflight = none ∧ (s.procs i).srcs = T)) →
    s.store.pending = some p → p.id = n →
    (run s (T.map fun x => Act.bar i x n)).1 =
      { s with store := (ackO s.store i n).1, procs := setProc s.procs i { (s.procs i) with inflight := none, batch := [] } } := by
  intro T
  induction T with
  | nil => intro s p h; exact absurd rfl h
  | cons x T ih =>
    intro s p _ hnd hd hT hin hp hid
    simp only [List.map_cons, run]
    have hb : step s (Act.bar i x n) = register s i x n n (x :: T) := by
      simp only [step]; exact barrier_step s i x n (x :: T) hd hin (List.mem_cons_self ..) (hT x (List.mem_cons_self ..))
    rw [hb]
    have hf : (x :: T).filter (· ≠ x) = T := filter_ne_head x T hnd
    unfold register
    simp only [ne_eq, not_true_eq_false, if_false, hf]
    cases T with
    | nil =>
      obtain ⟨pub, hok⟩ := ackO_ok s.store i n p hp hid
      simp only [List.isEmpty_nil, if_true, List.map_nil, run]
      rw [hok]
    | cons y T' =>
      simp only [List.isEmpty_cons, Bool.false_eq_true, if_false]
      have hnd' : (y :: T').Nodup := (List.nodup_cons.mp hnd).2
      have h1 : setProc s.procs i { (s.procs i) with inflight := some (n, y :: T') } i =
          { (s.procs i) with inflight := some (n, y :: T') } := setProc_self _ _ _
      refine (ih { s with procs := setProc s.procs i { (s.procs i) with inflight := some (n, y :: T') } } p (by simp) hnd'
        (by show (setProc s.procs i _ i).deployed = true; rw [h1]; exact hd)
        (by
          intro z hz
          show z ∈ (setProc s.procs i _ i).srcs
          rw [h1]; exact hT z (List.mem_cons_of_mem _ hz))
        (Or.inl (by show (setProc s.procs i _ i).inflight = _; rw [h1])) hp hid).trans ?_
      simp only [setProc_setProc, setProc_self]

/-- every operator of the assembly aligns checkpoint `n`; the last acknowledgement publishes it -/
theorem run_ops_all (n : Nat) (S : List Nat) (hS : S ≠ []) (hSn : S.Nodup) : ∀ (O : List Nat) (s : St) (p : Pending),
    O ≠ [] → O.Nodup → s.store.pending = some p → p.id = n → p.waitOps = O → p.waitSrs = [] →
    (∀ i ∈ O, i ∈ p.expOps) →
    (∀ i ∈ O, (s.procs i).deployed = true ∧ (s.procs i).srcs = S ∧ (s.procs i).inflight = none) →
    (((run s (O.flatMap fun i => S.map fun x => Act.bar i x n)).1.store.writing = s.store.writing ++ [n] ∧
      (run s (O.flatMap fun i => S.map fun x => Act.bar i x n)).1.store.current = s.store.current) ∧
     (run s (O.flatMap fun i => S.map fun x => Act.bar i x n)).1.store.pending = none ∧
     (run s (O.flatMap fun i => S.map fun x => Act.bar i x n)).1.store.counter = s.store.counter ∧
     (run s (O.flatMap fun i => S.map fun x => Act.bar i x n)).1.status = s.status ∧
     (run s (O.flatMap fun i => S.map fun x => Act.bar i x n)).1.ticker = s.ticker ∧
     (∀ i ∈ O, ((run s (O.flatMap fun i => S.map fun x => Act.bar i x n)).1.procs i).inflight = none) ∧
     (∀ j, j ∉ O → (run s (O.flatMap fun i => S.map fun x => Act.bar i x n)).1.procs j = s.procs j)) := by
  intro O
  induction O with
  | nil => intro s p h; exact absurd rfl h
  | cons i O ih =>
    intro s p _ hnd hp hid hwo hws hexp hproc
    have hi := hproc i (List.mem_cons_self ..)
    have hiO : i ∉ O := (List.nodup_cons.mp hnd).1
    simp only [List.flatMap_cons]
    rw [run_fst_append]
    rw [run_bar_all n i S s p hS hSn hi.1 (fun x hx => by rw [hi.2.1]; exact hx) (Or.inr ⟨hi.2.2, hi.2.1⟩) hp hid]
    -- the acknowledgement of operator `i`
    have hc : p.expOps.contains i = true := by simpa using hexp i (List.mem_cons_self ..)
    have hfil : p.waitOps.filter (· ≠ i) = O := by rw [hwo]; exact filter_ne_head i O hnd
    have hack : (ackO s.store i n).1 = (finish s.store { p with waitOps := O }).1 := by
      unfold ackO
      simp only [hp, hid, ne_eq, not_true_eq_false, if_false, hc, if_true, hfil]
    cases O with
    | nil =>
      have hfin : (finish s.store { p with waitOps := [] }).1 =
          { s.store with pending := none, writing := s.store.writing ++ [p.id] } := by
        simp [finish, hws]
      rw [hack, hfin]
      simp only [List.flatMap_nil, run]
      refine ⟨by simp [hid], by trivial, by trivial, by trivial, by trivial, ?_, ?_⟩
      · intro j hj
        have : j = i := by simpa using hj
        subst this; simp [setProc_self]
      · intro j hj
        have : j ≠ i := by simpa using hj
        simp [setProc_other _ _ _ _ this]
    | cons k O' =>
      have hfin : (finish s.store { p with waitOps := k :: O' }).1 =
          { s.store with pending := some { p with waitOps := k :: O' } } := by
        simp [finish]
      rw [hack, hfin]
      have hnd' : (k :: O').Nodup := (List.nodup_cons.mp hnd).2
      obtain ⟨r1, r2, r3, r4, r5, r6, r7⟩ := ih
        { s with store := { s.store with pending := some { p with waitOps := k :: O' } },
                 procs := setProc s.procs i { (s.procs i) with inflight := none, batch := [] } }
        { p with waitOps := k :: O' } (by simp) hnd' rfl hid rfl hws
        (fun j hj => hexp j (List.mem_cons_of_mem _ hj))
        (by
          intro j hj
          have hne : j ≠ i := fun e => hiO (e ▸ hj)
          show (setProc s.procs i _ j).deployed = true ∧ (setProc s.procs i _ j).srcs = S ∧ (setProc s.procs i _ j).inflight = none
          rw [setProc_other _ _ _ _ hne]
          exact hproc j (List.mem_cons_of_mem _ hj))
      refine ⟨r1, r2, r3, r4, r5, ?_, ?_⟩
      · intro j hj
        rcases List.mem_cons.mp hj with e | hj'
        · subst e
          rw [r7 j hiO]
          show (setProc s.procs j _ j).inflight = none
          rw [setProc_self]
        · exact r6 j hj'
      · intro j hj
        have hj1 : j ≠ i := fun e => hj (e ▸ List.mem_cons_self ..)
        have hj2 : j ∉ k :: O' := fun h => hj (List.mem_cons_of_mem _ h)
        rw [r7 j hj2]
        show setProc s.procs i _ j = s.procs j
        exact setProc_other _ _ _ _ hj1

/-- bounded progress: one round of the current assembly publishes a new checkpoint -/
theorem progress {s : St} (h : Inv s) (hrun : s.status = .running) (hp : s.store.pending = none)
    (hrec : ∀ i ∈ s.asmOps, (s.procs i).inflight = none) (hw : 0 < s.w) :
    (run s (progressActs s)).1.store.current = some (s.store.counter + 1) ∧
    (run s (progressActs s)).1.store.pending = none ∧
    (run s (progressActs s)).1.status = .running ∧ (run s (progressActs s)).1.ticker = true ∧
    (∀ i ∈ s.asmOps, ((run s (progressActs s)).1.procs i).inflight = none) := by
  have ht : s.ticker = true := h.tickRun.mpr hrun
  obtain ⟨lo, ls, ndo, nds⟩ := h.asmShape (Or.inr hrun)
  have hO : s.asmOps ≠ [] := by intro e; rw [e] at lo; simp at lo; omega
  have hS : s.asmSrs ≠ [] := by intro e; rw [e] at ls; simp at ls; omega
  have hpa := h.procAsm hrun
  let n := s.store.counter + 1
  let p0 : Pending := { id := n, expOps := s.asmOps, expSrs := s.asmSrs, waitOps := s.asmOps, waitSrs := s.asmSrs }
  let s0 : St := { s with store := { s.store with counter := n, pending := some p0 } }
  have htick : (step s .tick).1 = s0 := by
    simp only [step]
    rw [if_neg (by simp [ht])]
    simp only [hp]
    rfl
  unfold progressActs
  simp only [List.cons_append, run]
  rw [htick, run_fst_append, run_fst_append]
  rw [run_ackS_all n s.asmSrs s0 p0 rfl rfl (fun x hx => hx) hO]
  have hfil : p0.waitSrs.filter (fun y => !s.asmSrs.contains y) = [] := by
    apply List.filter_eq_nil_iff.mpr
    intro y hy; simpa using hy
  rw [hfil]
  obtain ⟨⟨rw1, rc1⟩, r2, r3, r4, r5, r6, _⟩ := run_ops_all n s.asmSrs hS nds s.asmOps
    { s0 with store := { s0.store with pending := some { p0 with waitSrs := [] } } } { p0 with waitSrs := [] }
    hO ndo rfl rfl rfl rfl (fun i hi => hi)
    (fun i hi => ⟨(hpa i hi).1, (hpa i hi).2, hrec i hi⟩)
  generalize (run { s0 with store := { s0.store with pending := some { p0 with waitSrs := [] } } }
    (s.asmOps.flatMap fun i => s.asmSrs.map fun x => Act.bar i x n)).1 = t at rw1 rc1 r2 r3 r4 r5 r6
  -- the snapshot file is written
  have hcan : canPublish t.store n = true := by
    unfold canPublish
    have hw1 : t.store.writing = s.store.writing ++ [n] := rw1
    have hc1 : t.store.counter = n := r3
    simp [hw1, hc1, r2]
  have hcur : pubCurrent t.store.current n = some n := by
    have hc1 : t.store.current = s.store.current := rc1
    unfold pubCurrent
    rw [hc1]
    cases hcc : s.store.current with
    | none => rfl
    | some c =>
      have := h.curLe c hcc
      have hlt : c < n := by show c < s.store.counter + 1; omega
      simp [hlt]
  have hcan' : canPublish t.store (s.store.counter + 1) = true := hcan
  simp only [run, step]
  rw [if_pos hcan']
  exact ⟨hcur, r2, r4.trans hrun, r5.trans ht, r6⟩

/-! ### a failed start is retried in the same task -/

theorem spawn_status (t : St) : (spawn t).1.status =
    if t.srs.length < t.w || t.ops.length < t.w then t.status else Status.starting := by
  unfold spawn
  split <;> rfl

theorem evaluate_paused (t : St) (h : t.status = .paused) : (evaluate t).1 = (spawn (purge t)).1 := by
  unfold evaluate evalStatus
  have : (purge t).status = .paused := h
  rw [this]

theorem deployFail_status {s : St} (hs : s.status = .starting) (k : Nat) :
    (step s (.deployFail k)).1.status =
      if (purge s).srs.length < s.w || (purge s).ops.length < s.w then Status.paused else Status.starting := by
  simp only [step, hs, ne_eq, not_true_eq_false, if_false, withStatus]
  rw [evaluate_paused _ rfl]
  exact spawn_status _

/-! ### `.tick` = the ticker callback without interruption -/

theorem tick_split (s : St) (h : s.tk = none) :
    { (run s [.tickA, .tickB, .tickC]).1 with ser := s.ser } = (step s .tick).1 := by
  cases ht : s.ticker
  · simp [run, step, ht, h]
    cases s; simp_all
  · cases hp : s.store.pending with
    | some p =>
      simp only [run, step, ht, h, hp, Bool.not_true, Bool.false_eq_true, if_false, Option.isSome_none]
      try (cases s; simp_all)
    | none =>
      simp only [run, step, ht, h, hp, Bool.not_true, Bool.false_eq_true, if_false, Option.isSome_none]
      try (cases s; simp_all)

/-! ### one checkpoint per deployment -/

theorem evaluate_startCk (s : St) (h : (evaluate s).2 = none) : (evaluate s).1.startCk = s.startCk := by
  unfold evaluate evalStatus at h ⊢
  have hs : ∀ t : St, (spawn t).2 = none → (spawn t).1.startCk = t.startCk := by
    intro t; unfold spawn; split
    · intro _; rfl
    · intro hh; cases hh
  split
  · split <;> rfl
  · rfl
  · rename_i hst; rw [hst] at h; exact hs _ h
  · rename_i hst; rw [hst] at h; exact hs _ h

/-- the checkpoint a deployment restores from is fixed by the step that decides it; no other step touches it -/
theorem step_startCk (s : St) (a : Act) (h : (step s a).2.dep? = none) : (step s a).1.startCk = s.startCk := by
  cases a with
  | regO i => exact evaluate_startCk _ h
  | regS i => exact evaluate_startCk _ h
  | deregO i => exact evaluate_startCk _ h
  | deregS i => exact evaluate_startCk _ h
  | adv n => rfl
  | deployOk =>
    simp only [step]
    split
    · rfl
    · show (evaluate { s with procs := deployProcs s none, status := .running, ticker := true }).1.startCk = s.startCk
      unfold evaluate
      rw [evalStatus_running (s := purge { s with procs := deployProcs s none, status := .running, ticker := true }) rfl]
      split <;> rfl
  | deployFail k =>
    simp only [step] at h ⊢
    split
    · rfl
    · rename_i hs
      rw [if_neg hs] at h
      exact evaluate_startCk _ h
  | tick => simp only [step]; split <;> (try split) <;> rfl
  | ackS i id => rfl
  | ackO i id => rfl
  | bar i sr id =>
    simp only [step]; unfold barrier register
    repeat' split
    all_goals rfl
  | ev i sr tag =>
    simp only [step]; unfold event
    repeat' split
    all_goals rfl
  | flush i => simp only [step]; unfold flushBatch; split <;> rfl
  | publish n => simp only [step]; split <;> rfl
  | tickA => simp only [step]; split <;> (try split) <;> rfl
  | tickB =>
    simp only [step]
    repeat' split
    all_goals rfl
  | savepoint =>
    simp only [step]
    repeat' split
    all_goals rfl
  | spA =>
    simp only [step]
    repeat' split
    all_goals rfl
  | tickC => simp only [step]; split <;> rfl

theorem run_startCk (s : St) (acts : List Act) (h : ∀ o ∈ (run s acts).2, o.dep? = none) :
    (run s acts).1.startCk = s.startCk := by
  induction acts generalizing s with
  | nil => rfl
  | cons a as ih =>
    simp only [run] at h ⊢
    have h1 : (step s a).2.dep? = none := h _ (List.mem_cons_self ..)
    rw [ih (step s a).1 (fun o ho => h o (List.mem_cons_of_mem _ ho)), step_startCk s a h1]

/-! ### a snapshot being written can always be published (`canPublish` is never the reason for `nothing`) -/

/-- ids of snapshots being written have been reached by the counter and lie below a pending snapshot's id -/
def WriteOk (s : St) : Prop :=
  ∀ n ∈ s.store.writing, n ≤ s.store.counter ∧ ∀ p, s.store.pending = some p → n < p.id

theorem evaluate_store (s : St) :
    (evaluate s).1.store.writing = s.store.writing ∧ (evaluate s).1.store.counter = s.store.counter ∧
    ((evaluate s).1.store.pending = s.store.pending ∨ (evaluate s).1.store.pending = none) := by
  unfold evaluate evalStatus
  have hs : ∀ t : St, (spawn t).1.store.writing = t.store.writing ∧ (spawn t).1.store.counter = t.store.counter ∧
      ((spawn t).1.store.pending = t.store.pending ∨ (spawn t).1.store.pending = none) := by
    intro t; unfold spawn; split
    · exact ⟨rfl, rfl, Or.inl rfl⟩
    · exact ⟨rfl, rfl, Or.inr rfl⟩
  split
  · split <;> exact ⟨rfl, rfl, Or.inl rfl⟩
  · exact ⟨rfl, rfl, Or.inl rfl⟩
  · exact hs _
  · exact hs _

theorem writeOk_of_store {s t : St} (h : WriteOk s) (hw : t.store.writing = s.store.writing)
    (hc : t.store.counter = s.store.counter) (hp : t.store.pending = s.store.pending ∨ t.store.pending = none) :
    WriteOk t := by
  intro n hn
  rw [hw] at hn
  obtain ⟨a, b⟩ := h n hn
  refine ⟨by rw [hc]; exact a, ?_⟩
  intro p hpp
  rcases hp with e | e
  · exact b p (by rw [← e]; exact hpp)
  · rw [e] at hpp; cases hpp

theorem writeOk_ackStep {s : St} (hi : Inv s) (h : WriteOk s) {st' : Store} (ha : AckStep s.store st') :
    WriteOk { s with store := st' } := by
  rcases ha with e | ⟨p, p', hp, h1, _, _, hc, _, hcase⟩
  · subst e; exact h
  · have hpid := (hi.pendId p hp).1
    intro n hn
    rcases hcase with ⟨hq, hw⟩ | ⟨hq, hw⟩
    · have hn' : n ∈ s.store.writing := by rw [← hw]; exact hn
      obtain ⟨a, b⟩ := h n hn'
      refine ⟨by show n ≤ st'.counter; rw [hc]; exact a, ?_⟩
      intro q hqq
      have : q = p' := by
        have : st'.pending = some q := hqq
        rw [hq] at this; exact (Option.some.inj this).symm
      rw [this, h1]; exact b p hp
    · refine ⟨?_, ?_⟩
      · show n ≤ st'.counter
        rw [hc]
        have hn' : n ∈ s.store.writing ++ [p.id] := by rw [← hw]; exact hn
        rcases List.mem_append.mp hn' with hm | hm
        · exact (h n hm).1
        · have : n = p.id := by simpa using hm
          omega
      · intro q hqq
        have : st'.pending = some q := hqq
        rw [hq] at this; cases this

theorem writeOk_pieces {s : St} (hi : Inv s) (h : WriteOk s) (a : Act) (ha : a.serial = false) :
    WriteOk (step s a).1 := by
  have same : ∀ t : St, t.store = s.store → WriteOk t := fun t e => by
    intro n hn; rw [e] at hn; have := h n hn; rw [e]; exact this
  cases a with
  | tickA => simp only [step]; split; exact h; split; exact h; exact same _ rfl
  | spA => simp only [step]; split; exact h; split; exact h; exact same _ rfl
  | tickC => simp only [step]; split; exact same _ rfl; exact h
  | tickB =>
    simp only [step]
    split
    · split
      · rename_i p hp
        split
        · exact same _ rfl
        · split
          · exact same _ rfl
          · intro n hn
            have hn' : n ∈ s.store.writing := hn
            obtain ⟨a, b⟩ := h n hn'
            refine ⟨a, ?_⟩
            intro q hq
            simp only [Option.some.injEq] at hq
            subst hq
            exact b p hp
      · intro n hn
        have hn' : n ∈ s.store.writing := hn
        obtain ⟨a, _⟩ := h n hn'
        refine ⟨by show n ≤ s.store.counter + 1; omega, ?_⟩
        intro p hp
        simp only [Option.some.injEq] at hp
        subst hp
        show n < s.store.counter + 1
        omega
    · exact h
  | _ => cases ha

theorem step_writeOk {s : St} (hi : Inv s) (h : WriteOk s) (a : Act) (hser : a.serial = true) :
    WriteOk (step s a).1 := by
  cases a with
  | tickA => cases hser
  | tickB => cases hser
  | tickC => cases hser
  | spA => cases hser
  | savepoint =>
    simp only [step]
    split
    · exact h
    · split
      · rename_i p hp
        split
        · exact h
        · intro n hn
          have hn' : n ∈ s.store.writing := hn
          obtain ⟨a, b⟩ := h n hn'
          refine ⟨a, ?_⟩
          intro q hq
          simp only [Option.some.injEq] at hq
          subst hq
          exact b p hp
      · intro n hn
        have hn' : n ∈ s.store.writing := hn
        obtain ⟨a, _⟩ := h n hn'
        refine ⟨by show n ≤ s.store.counter + 1; omega, ?_⟩
        intro p hp
        simp only [Option.some.injEq] at hp
        subst hp
        show n < s.store.counter + 1
        omega
  | regO i => obtain ⟨a, b, c⟩ := evaluate_store { s with live := fun j => if j = i then some s.now else s.live j, ops := ins i s.ops }; exact writeOk_of_store h a b c
  | regS i => obtain ⟨a, b, c⟩ := evaluate_store { s with live := fun j => if j = i then some s.now else s.live j, srs := ins i s.srs }; exact writeOk_of_store h a b c
  | deregO i => obtain ⟨a, b, c⟩ := evaluate_store { s with ops := s.ops.filter (· ≠ i) }; exact writeOk_of_store h a b c
  | deregS i => obtain ⟨a, b, c⟩ := evaluate_store { s with srs := s.srs.filter (· ≠ i) }; exact writeOk_of_store h a b c
  | adv n => exact h
  | deployOk =>
    simp only [step]
    split
    · exact h
    · obtain ⟨a, b, c⟩ := evaluate_store { s with procs := deployProcs s none, status := .running, ticker := true }
      exact writeOk_of_store h a b c
  | deployFail k =>
    simp only [step]
    split
    · exact h
    · obtain ⟨a, b, c⟩ := evaluate_store
        { s with procs := deployProcs s (s.asmOps[k % (s.asmOps.length + s.asmSrs.length)]?), status := .paused, ticker := false }
      exact writeOk_of_store h a b c
  | tick =>
    simp only [step]
    split
    · exact h
    · split
      · exact h
      · intro n hn
        have hn' : n ∈ s.store.writing := hn
        obtain ⟨a, _⟩ := h n hn'
        refine ⟨by show n ≤ s.store.counter + 1; omega, ?_⟩
        intro p hp
        simp only [Option.some.injEq] at hp
        subst hp
        show n < s.store.counter + 1
        omega
  | ackS i id => exact writeOk_ackStep hi h (ackS_ackStep _ _ _)
  | ackO i id => exact writeOk_ackStep hi h (ackO_ackStep _ _ _)
  | bar i sr id =>
    simp only [step]; unfold barrier
    split
    · exact h
    · split
      · exact h
      · split
        · exact h
        · unfold register
          split
          · exact h
          · split
            · split
              · rename_i st' pub heq
                have hst : st' = (ackO s.store i ((s.procs i).inflight.getD (id, (s.procs i).srcs)).1).1 := by rw [heq]
                have := writeOk_ackStep hi h (ackO_ackStep s.store i ((s.procs i).inflight.getD (id, (s.procs i).srcs)).1)
                rw [← hst] at this
                exact this
              · exact h
            · exact h
  | ev i sr tag =>
    simp only [step]; unfold event
    repeat' split
    all_goals exact h
  | flush i => simp only [step]; unfold flushBatch; split <;> exact h
  | publish n =>
    simp only [step]
    split
    · intro m hm
      have hm' : m ∈ s.store.writing := List.mem_of_mem_erase hm
      exact h m hm'
    · exact h

theorem run_inv_writeOk {s : St} (hi : Inv s) (h : WriteOk s) (as : List Act) (hser : ∀ a ∈ as, a.serial = true) :
    Inv (run s as).1 ∧ WriteOk (run s as).1 := by
  induction as generalizing s with
  | nil => exact ⟨hi, h⟩
  | cons a as ih =>
    simp only [run]
    have ha := hser a (List.mem_cons_self ..)
    exact ih (step_inv hi a ha) (step_writeOk hi h a ha) (fun b hb => hser b (List.mem_cons_of_mem _ hb))

theorem reachable_writeOk {s : St} (h : ReachableSerial s) : WriteOk s := by
  obtain ⟨w, d, c0, bmax, acts, hser, rfl⟩ := h
  exact (run_inv_writeOk (init_inv w d c0 bmax) (by intro n hn; simp [init] at hn) acts hser).2

theorem canPublish_of_writeOk {s : St} (h : WriteOk s) (n : Nat) (hn : n ∈ s.store.writing) :
    canPublish s.store n = true := by
  obtain ⟨a, b⟩ := h n hn
  unfold canPublish
  have hc : s.store.writing.contains n = true := by simpa using hn
  cases hp : s.store.pending with
  | none => simp [hn, a]
  | some p => simp [hn, a, b p hp]

/-! ### all schedules -/

theorem step_inv_all {s : St} (h : Inv s) (a : Act) : Inv (step s a).1 := by
  cases hs : a.serial
  · exact inv_pieces h a hs
  · exact step_inv h a hs

theorem step_writeOk_all {s : St} (hi : Inv s) (h : WriteOk s) (a : Act) : WriteOk (step s a).1 := by
  cases hs : a.serial
  · exact writeOk_pieces hi h a hs
  · exact step_writeOk hi h a hs

theorem run_inv_all {s : St} (hi : Inv s) (h : WriteOk s) (as : List Act) : Inv (run s as).1 ∧ WriteOk (run s as).1 := by
  induction as generalizing s with
  | nil => exact ⟨hi, h⟩
  | cons a as ih => simp only [run]; exact ih (step_inv_all hi a) (step_writeOk_all hi h a)

theorem reachableAll_inv {s : St} (h : ReachableAll s) : Inv s ∧ WriteOk s := by
  obtain ⟨w, d, c0, bmax, acts, rfl⟩ := h
  exact run_inv_all (init_inv w d c0 bmax) (by intro n hn; simp [init] at hn) acts

theorem reachableAll_of_serial {s : St} (h : ReachableSerial s) : ReachableAll s := by
  obtain ⟨w, d, c0, bmax, acts, _, e⟩ := h
  exact ⟨w, d, c0, bmax, acts, e⟩

theorem evaluate_ser (s : St) : (evaluate s).1.ser = s.ser := by
  unfold evaluate evalStatus
  have hs : ∀ t : St, (spawn t).1.ser = t.ser := by intro t; unfold spawn; split <;> rfl
  split
  · split <;> rfl
  · rfl
  · exact hs _
  · exact hs _

/-- serial actions never clear the ghost flag -/
theorem step_ser (s : St) (a : Act) (ha : a.serial = true) : (step s a).1.ser = s.ser := by
  cases a with
  | tickA => cases ha
  | tickB => cases ha
  | tickC => cases ha
  | spA => cases ha
  | regO i => exact evaluate_ser _
  | regS i => exact evaluate_ser _
  | deregO i => exact evaluate_ser _
  | deregS i => exact evaluate_ser _
  | adv n => rfl
  | deployOk => simp only [step]; split; rfl; exact evaluate_ser _
  | deployFail k => simp only [step]; split; rfl; exact evaluate_ser _
  | tick =>
    simp only [step]
    repeat' split
    all_goals rfl
  | savepoint =>
    simp only [step]
    repeat' split
    all_goals rfl
  | ackS i id => rfl
  | ackO i id => rfl
  | bar i sr id =>
    simp only [step]; unfold barrier register
    repeat' split
    all_goals rfl
  | ev i sr tag =>
    simp only [step]; unfold event
    repeat' split
    all_goals rfl
  | flush i => simp only [step]; unfold flushBatch; split <;> rfl
  | publish n => simp only [step]; split <;> rfl

theorem reachableSerial_ser {s : St} (h : ReachableSerial s) : s.ser = true := by
  obtain ⟨w, d, c0, bmax, acts, hser, rfl⟩ := h
  have : ∀ (as : List Act) (t : St), (∀ a ∈ as, a.serial = true) → (run t as).1.ser = t.ser := by
    intro as
    induction as with
    | nil => intro t _; rfl
    | cons a as ih =>
      intro t hh
      simp only [run]
      rw [ih _ (fun b hb => hh b (List.mem_cons_of_mem _ hb)), step_ser t a (hh a (List.mem_cons_self ..))]
  rw [this acts _ hser]; rfl

end Rxn.JobFsm
