import RxnModel.Model.JobFsm
/-! Helper lemmas for C15: the invariant of the job FSM and its preservation by every action. -/
namespace Rxn.JobFsm

/-- everything the invariant says except "a Running job has a registered assembly", which is re-established by the
`evaluateClusterStatus` call at the end of every task that changes the registry -/
structure Inv' (s : St) : Prop where
  regLiveO : ∀ i ∈ s.ops, (s.live i).isSome = true
  regLiveS : ∀ i ∈ s.srs, (s.live i).isSome = true
  sortedO : s.ops.Pairwise (· < ·)
  sortedS : s.srs.Pairwise (· < ·)
  tickRun : s.ticker = true ↔ s.status = .running
  asmShape : s.status = .starting ∨ s.status = .running →
    s.asmOps.length = s.w ∧ s.asmSrs.length = s.w ∧ s.asmOps.Nodup ∧ s.asmSrs.Nodup
  startClean : s.status = .starting → s.store.pending = none ∧ s.startCk = s.store.current
  pendId : ∀ p, s.store.pending = some p → p.id = s.store.counter ∧ ∀ c, s.store.current = some c → c < p.id
  curLe : ∀ c, s.store.current = some c → c ≤ s.store.counter
  pendAsm : ∀ p, s.store.pending = some p → p.expOps = s.asmOps ∧ p.expSrs = s.asmSrs
  procAsm : s.status = .running → ∀ i ∈ s.asmOps, (s.procs i).deployed = true ∧ (s.procs i).srcs = s.asmSrs
  recSrc : ∀ i rid waiting, (s.procs i).inflight = some (rid, waiting) → ∀ x ∈ waiting, x ∈ (s.procs i).srcs

structure Inv (s : St) : Prop extends Inv' s where
  runHealthy : s.status = .running → healthy s = true

theorem init_inv (w d c0 : Nat) : Inv (init w d c0) := by
  refine ⟨⟨?_, ?_, ?_, ?_, ?_, ?_, ?_, ?_, ?_, ?_, ?_, ?_⟩, ?_⟩ <;> simp [init]

/-! ### registry list operations -/

theorem mem_ins (i j : Nat) (l : List Nat) : j ∈ ins i l ↔ j = i ∨ j ∈ l := by
  induction l with
  | nil => simp [ins]
  | cons x xs ih =>
    simp only [ins]
    split
    · simp
    · split
      · rename_i h; subst h; simp
      · simp [ih]; constructor <;> (intro h; rcases h with h | h | h <;> simp [h])

theorem sorted_ins (i : Nat) (l : List Nat) (h : l.Pairwise (· < ·)) : (ins i l).Pairwise (· < ·) := by
  induction l with
  | nil => simp [ins]
  | cons x xs ih =>
    have hx := List.pairwise_cons.mp h
    simp only [ins]
    split
    · rename_i hlt
      refine List.pairwise_cons.mpr ⟨?_, h⟩
      intro y hy
      rcases List.mem_cons.mp hy with e | hy
      · omega
      · have := hx.1 y hy; omega
    · split
      · exact h
      · rename_i h1 h2
        refine List.pairwise_cons.mpr ⟨?_, ih hx.2⟩
        intro y hy
        rcases (mem_ins i y xs).mp hy with e | hy
        · omega
        · exact hx.1 y hy

theorem nodup_of_sorted {l : List Nat} (h : l.Pairwise (· < ·)) : l.Nodup :=
  List.Pairwise.imp (fun hlt => Nat.ne_of_lt hlt) h

/-! ### `Registry.Purge` -/

theorem purge_live_of_not_dead (s : St) (i : Nat) (h : dead s i = false) : (purge s).live i = s.live i := by
  simp [purge, h]

theorem purge_inv' {s : St} (h : Inv' s) : Inv' (purge s) where
  regLiveO := by
    intro i hi
    have hm := List.mem_filter.mp hi
    have hd : dead s i = false := by simpa using hm.2
    rw [purge_live_of_not_dead s i hd]; exact h.regLiveO i hm.1
  regLiveS := by
    intro i hi
    have hm := List.mem_filter.mp hi
    have hd : dead s i = false := by simpa using hm.2
    rw [purge_live_of_not_dead s i hd]; exact h.regLiveS i hm.1
  sortedO := List.Pairwise.sublist List.filter_sublist h.sortedO
  sortedS := List.Pairwise.sublist List.filter_sublist h.sortedS
  tickRun := h.tickRun
  asmShape := h.asmShape
  startClean := h.startClean
  pendId := h.pendId
  curLe := h.curLe
  pendAsm := h.pendAsm
  procAsm := h.procAsm
  recSrc := h.recSrc

/-- after the purge every registered node has an unexpired heartbeat -/
theorem purge_alive {s : St} (h : Inv' s) :
    (∀ i ∈ (purge s).ops, alive (purge s) i) ∧ (∀ i ∈ (purge s).srs, alive (purge s) i) := by
  have key : ∀ i, (s.live i).isSome = true → dead s i = false → alive (purge s) i := by
    intro i hl hd
    obtain ⟨hb, hhb⟩ := Option.isSome_iff_exists.mp hl
    refine ⟨hb, ?_, ?_⟩
    · rw [purge_live_of_not_dead s i hd]; exact hhb
    · have : expired s.d s.now hb = false := by simpa [dead, hhb] using hd
      exact this
  constructor
  · intro i hi
    have hm := List.mem_filter.mp hi
    exact key i (h.regLiveO i hm.1) (by simpa using hm.2)
  · intro i hi
    have hm := List.mem_filter.mp hi
    exact key i (h.regLiveS i hm.1) (by simpa using hm.2)

/-! ### `evaluateClusterStatus` -/

theorem spawn_inv {s : St} (h : Inv' s) (hs : s.status ≠ .running) : Inv (spawn s).1 := by
  unfold spawn
  split
  · exact ⟨h, fun hr => absurd hr hs⟩
  · rename_i hlen
    have hlen' : s.w ≤ s.srs.length ∧ s.w ≤ s.ops.length := by
      simp only [Bool.or_eq_true, decide_eq_true_eq, not_or, Nat.not_lt] at hlen; exact hlen
    have htick : s.ticker = false := by
      cases ht : s.ticker
      · rfl
      · exact absurd (h.tickRun.mp ht) hs
    refine ⟨⟨h.regLiveO, h.regLiveS, h.sortedO, h.sortedS, ?_, ?_, ?_, ?_, h.curLe, ?_, ?_, h.recSrc⟩, ?_⟩
    · simp [htick]
    · intro _
      refine ⟨by simp [List.length_take]; omega, by simp [List.length_take]; omega, ?_, ?_⟩
      · exact nodup_of_sorted (List.Pairwise.sublist (List.take_sublist _ _) h.sortedO)
      · exact nodup_of_sorted (List.Pairwise.sublist (List.take_sublist _ _) h.sortedS)
    · intro _; exact ⟨rfl, rfl⟩
    · intro p hp; simp at hp
    · intro p hp; simp at hp
    · intro hr; simp at hr
    · intro hr; simp at hr

theorem evalStatus_inv {s : St} (h : Inv' s) : Inv (evalStatus s).1 := by
  unfold evalStatus
  split
  · rename_i hst
    split
    · rename_i hh; exact ⟨h, fun _ => hh⟩
    · refine ⟨⟨h.regLiveO, h.regLiveS, h.sortedO, h.sortedS, ?_, ?_, ?_, h.pendId, h.curLe, h.pendAsm, ?_, h.recSrc⟩, ?_⟩
      · simp
      · intro hr; simp at hr
      · intro hr; simp at hr
      · intro hr; simp at hr
      · intro hr; simp at hr
  · rename_i hst; exact ⟨h, fun hr => by rw [hst] at hr; cases hr⟩
  · rename_i hst; exact spawn_inv h (by rw [hst]; decide)
  · rename_i hst; exact spawn_inv h (by rw [hst]; decide)

theorem evaluate_inv {s : St} (h : Inv' s) : Inv (evaluate s).1 :=
  evalStatus_inv (purge_inv' h)

/-! ### acknowledgements at the store -/

/-- what an acknowledgement can do to the store: nothing, record it, or publish the pending snapshot -/
def AckStep (st st' : Store) : Prop :=
  st' = st ∨ ∃ p p', st.pending = some p ∧ p'.id = p.id ∧ p'.expOps = p.expOps ∧ p'.expSrs = p.expSrs ∧
    st'.counter = st.counter ∧
    ((st'.pending = some p' ∧ st'.current = st.current) ∨ (st'.pending = none ∧ st'.current = some p.id))

theorem finish_ackStep (st : Store) (p p' : Pending) (hp : st.pending = some p) (h1 : p'.id = p.id)
    (h2 : p'.expOps = p.expOps) (h3 : p'.expSrs = p.expSrs) : AckStep st (finish st p').1 := by
  unfold finish
  split
  · exact Or.inr ⟨p, p', hp, h1, h2, h3, rfl, Or.inr ⟨rfl, by simp [h1]⟩⟩
  · exact Or.inr ⟨p, p', hp, h1, h2, h3, rfl, Or.inl ⟨rfl, rfl⟩⟩

theorem ackS_ackStep (st : Store) (i id : Nat) : AckStep st (ackS st i id).1 := by
  unfold ackS
  split
  · exact Or.inl rfl
  · rename_i p hp
    split
    · exact Or.inl rfl
    · split
      · exact Or.inl rfl
      · exact finish_ackStep st p _ hp rfl rfl rfl

theorem ackO_ackStep (st : Store) (i id : Nat) : AckStep st (ackO st i id).1 := by
  unfold ackO
  split
  · exact Or.inl rfl
  · rename_i p hp
    split
    · exact Or.inl rfl
    · split
      · exact finish_ackStep st p _ hp rfl rfl rfl
      · exact finish_ackStep st p p hp rfl rfl rfl

theorem inv_ackStep {s : St} (h : Inv s) {st' : Store} (ha : AckStep s.store st') : Inv { s with store := st' } := by
  rcases ha with e | ⟨p, p', hp, h1, h2, h3, hc, hcase⟩
  · subst e; exact h
  · have hpid := h.pendId p hp
    have hpa := h.pendAsm p hp
    have hns : s.status ≠ .starting := by
      intro hs; have := (h.startClean hs).1; rw [this] at hp; cases hp
    refine ⟨⟨h.regLiveO, h.regLiveS, h.sortedO, h.sortedS, h.tickRun, h.asmShape, ?_, ?_, ?_, ?_, h.procAsm, h.recSrc⟩,
      h.runHealthy⟩
    · intro hs; exact absurd hs hns
    · intro q hq
      rcases hcase with ⟨hq', hcur⟩ | ⟨hq', _⟩
      · have : q = p' := by simpa [hq'] using hq.symm
        subst this
        refine ⟨by simp [hc, h1, hpid.1], ?_⟩
        intro c hcc; simp only [hcur] at hcc; rw [h1]; exact hpid.2 c hcc
      · simp [hq'] at hq
    · intro c hcc
      rcases hcase with ⟨_, hcur⟩ | ⟨_, hcur⟩
      · simp only [hcur] at hcc; simp only [hc]; exact h.curLe c hcc
      · simp only [hcur, Option.some.injEq] at hcc; simp only [hc]; omega
    · intro q hq
      rcases hcase with ⟨hq', _⟩ | ⟨hq', _⟩
      · have : q = p' := by simpa [hq'] using hq.symm
        subst this
        exact ⟨h2.trans hpa.1, h3.trans hpa.2⟩
      · simp [hq'] at hq

/-! ### every action preserves the invariant -/

theorem inv'_regO {s : St} (h : Inv' s) (i : Nat) :
    Inv' { s with live := fun j => if j = i then some s.now else s.live j, ops := ins i s.ops } := by
  refine ⟨?_, ?_, sorted_ins i _ h.sortedO, h.sortedS, h.tickRun, h.asmShape, h.startClean, h.pendId, h.curLe,
    h.pendAsm, h.procAsm, h.recSrc⟩
  · intro j hj
    by_cases e : j = i
    · simp [e]
    · rcases (mem_ins i j s.ops).mp hj with e' | hm
      · exact absurd e' e
      · simpa [e] using h.regLiveO j hm
  · intro j hj
    by_cases e : j = i
    · simp [e]
    · simpa [e] using h.regLiveS j hj

theorem inv'_regS {s : St} (h : Inv' s) (i : Nat) :
    Inv' { s with live := fun j => if j = i then some s.now else s.live j, srs := ins i s.srs } := by
  refine ⟨?_, ?_, h.sortedO, sorted_ins i _ h.sortedS, h.tickRun, h.asmShape, h.startClean, h.pendId, h.curLe,
    h.pendAsm, h.procAsm, h.recSrc⟩
  · intro j hj
    by_cases e : j = i
    · simp [e]
    · simpa [e] using h.regLiveO j hj
  · intro j hj
    by_cases e : j = i
    · simp [e]
    · rcases (mem_ins i j s.srs).mp hj with e' | hm
      · exact absurd e' e
      · simpa [e] using h.regLiveS j hm

theorem inv'_deregO {s : St} (h : Inv' s) (i : Nat) : Inv' { s with ops := s.ops.filter (· ≠ i) } :=
  ⟨fun j hj => h.regLiveO j (List.mem_filter.mp hj).1, h.regLiveS, List.Pairwise.sublist List.filter_sublist h.sortedO,
   h.sortedS, h.tickRun, h.asmShape, h.startClean, h.pendId, h.curLe, h.pendAsm, h.procAsm, h.recSrc⟩

theorem inv'_deregS {s : St} (h : Inv' s) (i : Nat) : Inv' { s with srs := s.srs.filter (· ≠ i) } :=
  ⟨h.regLiveO, fun j hj => h.regLiveS j (List.mem_filter.mp hj).1, h.sortedO,
   List.Pairwise.sublist List.filter_sublist h.sortedS, h.tickRun, h.asmShape, h.startClean, h.pendId, h.curLe,
   h.pendAsm, h.procAsm, h.recSrc⟩

theorem deployProcs_mem (s : St) (skip : Option Nat) (j : Nat) (hj : s.asmOps.contains j = true) (hs : skip ≠ some j) :
    deployProcs s skip j = { deployed := true, srcs := s.asmSrs, inflight := none } := by
  have hj' : j ∈ s.asmOps := by simpa using hj
  simp [deployProcs, hj', hs]

theorem deployProcs_recSrc {s : St} (h : Inv' s) (skip : Option Nat) :
    ∀ i rid waiting, (deployProcs s skip i).inflight = some (rid, waiting) → ∀ x ∈ waiting, x ∈ (deployProcs s skip i).srcs := by
  intro i rid waiting
  unfold deployProcs
  split
  · intro hh; simp at hh
  · exact h.recSrc i rid waiting

theorem inv'_deployOk {s : St} (h : Inv' s) (hs : s.status = .starting) :
    Inv' { s with procs := deployProcs s none, status := .running, ticker := true } := by
  refine ⟨h.regLiveO, h.regLiveS, h.sortedO, h.sortedS, by simp, fun _ => h.asmShape (Or.inl hs), ?_, h.pendId,
    h.curLe, h.pendAsm, ?_, deployProcs_recSrc h none⟩
  · intro hr; simp at hr
  · intro _ i hi
    have := deployProcs_mem s none i (by simpa using hi) (by simp)
    simp [this]

theorem inv'_deployFail {s : St} (h : Inv' s) (skip : Option Nat) :
    Inv' { s with procs := deployProcs s skip, status := .paused, ticker := false } := by
  refine ⟨h.regLiveO, h.regLiveS, h.sortedO, h.sortedS, by simp, ?_, ?_, h.pendId, h.curLe, h.pendAsm, ?_,
    deployProcs_recSrc h skip⟩
  · intro hr; simp at hr
  · intro hr; simp at hr
  · intro hr; simp at hr

theorem inv_tick {s : St} (h : Inv s) : Inv (step s .tick).1 := by
  simp only [step]
  split
  · exact h
  · rename_i ht
    have hrun : s.status = .running := h.tickRun.mp (by simpa using ht)
    split
    · exact h
    · rename_i hp
      refine ⟨⟨h.regLiveO, h.regLiveS, h.sortedO, h.sortedS, h.tickRun, h.asmShape, ?_, ?_, ?_, ?_, h.procAsm, h.recSrc⟩,
        h.runHealthy⟩
      · intro hst; rw [hrun] at hst; cases hst
      · intro p hp'
        simp only [Option.some.injEq] at hp'
        subst hp'
        refine ⟨rfl, ?_⟩
        intro c hc
        have := h.curLe c hc
        show c < s.store.counter + 1
        omega
      · intro c hc
        have := h.curLe c hc
        show c ≤ s.store.counter + 1
        omega
      · intro p hp'
        simp only [Option.some.injEq] at hp'
        subst hp'
        exact ⟨rfl, rfl⟩

/-- frame: only the store and the in-flight record of process `i` change -/
theorem inv_setRecord {s : St} (i : Nat) (st' : Store) (rec' : Option (Nat × List Nat))
    (hi : Inv { s with store := st' })
    (hrec : ∀ rid' w', rec' = some (rid', w') → ∀ x ∈ w', x ∈ (s.procs i).srcs) :
    Inv { s with store := st', procs := setProc s.procs i { (s.procs i) with inflight := rec' } } := by
  refine ⟨⟨hi.regLiveO, hi.regLiveS, hi.sortedO, hi.sortedS, hi.tickRun, hi.asmShape, hi.startClean, hi.pendId,
    hi.curLe, hi.pendAsm, ?_, ?_⟩, hi.runHealthy⟩
  · intro hr j hj
    have := hi.procAsm hr j hj
    by_cases e : j = i
    · subst e; simpa [setProc] using this
    · simpa [setProc, e] using this
  · intro j rid' w' hj
    by_cases e : j = i
    · subst e
      simp only [setProc, if_true] at hj ⊢
      exact hrec rid' w' hj
    · simp only [setProc, e, if_false] at hj ⊢
      exact hi.recSrc j rid' w' hj

theorem inv_register {s : St} (h : Inv s) (i sr id rid : Nat) (waiting : List Nat)
    (hw : ∀ x ∈ waiting, x ∈ (s.procs i).srcs) : Inv (register s i sr id rid waiting).1 := by
  unfold register
  split
  · exact h
  · split
    · split
      · rename_i st' pub heq
        have hst : st' = (ackO s.store i rid).1 := by rw [heq]
        exact inv_setRecord i st' none (hst ▸ inv_ackStep h (ackO_ackStep _ _ _)) (by intro _ _ hh; cases hh)
      · exact inv_setRecord i s.store (some (rid, [])) h (by intro _ _ hh; cases hh; intro x hx; cases hx)
    · refine inv_setRecord i s.store (some (rid, waiting.filter (· ≠ sr))) h ?_
      intro _ _ hh; cases hh
      intro x hx
      exact hw x (List.mem_filter.mp hx).1

theorem inv_barrier {s : St} (h : Inv s) (i sr id : Nat) : Inv (barrier s i sr id).1 := by
  unfold barrier
  split
  · exact h
  · split
    · exact h
    · split
      · exact h
      · apply inv_register h
        cases hr : (s.procs i).inflight with
        | none => intro x hx; simpa using hx
        | some r => intro x hx; exact h.recSrc i r.1 r.2 (by rw [hr]) x (by simpa using hx)

theorem step_inv {s : St} (h : Inv s) (a : Act) : Inv (step s a).1 := by
  cases a with
  | regO i => exact evaluate_inv (inv'_regO h.toInv' i)
  | regS i => exact evaluate_inv (inv'_regS h.toInv' i)
  | deregO i => exact evaluate_inv (inv'_deregO h.toInv' i)
  | deregS i => exact evaluate_inv (inv'_deregS h.toInv' i)
  | adv n =>
    exact ⟨⟨h.regLiveO, h.regLiveS, h.sortedO, h.sortedS, h.tickRun, h.asmShape, h.startClean, h.pendId, h.curLe,
      h.pendAsm, h.procAsm, h.recSrc⟩, h.runHealthy⟩
  | deployOk =>
    simp only [step]
    split
    · exact h
    · rename_i hs
      exact evaluate_inv (inv'_deployOk h.toInv' (by simpa using hs))
  | deployFail k =>
    simp only [step]
    split
    · exact h
    · exact evaluate_inv (inv'_deployFail h.toInv' _)
  | tick => exact inv_tick h
  | ackS i id => exact inv_ackStep h (ackS_ackStep _ _ _)
  | ackO i id => exact inv_ackStep h (ackO_ackStep _ _ _)
  | bar i sr id => exact inv_barrier h i sr id

theorem run_fst_append (s : St) (as bs : List Act) : (run s (as ++ bs)).1 = (run (run s as).1 bs).1 := by
  induction as generalizing s with
  | nil => rfl
  | cons a as ih => simp only [List.cons_append, run]; exact ih _

theorem run_inv {s : St} (h : Inv s) (as : List Act) : Inv (run s as).1 := by
  induction as generalizing s with
  | nil => exact h
  | cons a as ih => simp only [run]; exact ih (step_inv h a)

theorem reachable_inv {s : St} (h : Reachable s) : Inv s := by
  obtain ⟨w, d, c0, acts, rfl⟩ := h
  exact run_inv (init_inv w d c0) acts

theorem reachable_step {s : St} (h : Reachable s) (a : Act) : Reachable (step s a).1 := by
  obtain ⟨w, d, c0, acts, rfl⟩ := h
  refine ⟨w, d, c0, acts ++ [a], ?_⟩
  rw [run_fst_append]; rfl

end Rxn.JobFsm
