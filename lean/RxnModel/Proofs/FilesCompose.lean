import RxnModel.Proofs.FilesMulti
/-!
Composition of the concurrency scope with the lineage scope (C09): operator lineages running side by side, each of
which may crash and be restarted from one of its own retained checkpoints. The invariant `InvC` is `InvN`
(per-instance facts, handles backed by their writers, disjoint `made` sets — now between lineages) extended with the
lineage facts of `InvL` (one running instance per lineage, which is its newest; loaded objects pinned by the restored
checkpoint until the job dropped it; handles of earlier instances of a lineage are not newer than what the running one
restored from; WAL names unique per checkpoint id).
-/
namespace Rxn.Files
open Rxn

/-- per-instance facts -/
structure InstC (s : State) (i : Nat) (x : Inst) : Prop where
  dir : x.dir = i
  norel : x.life ≠ .released
  linle : x.lin ≤ i
  wuniq : ∀ c ∈ x.ckpts, ∀ c' ∈ x.ckpts, ∀ w ∈ c.wals, ∀ w' ∈ c'.wals, w.same w' = true → c.id = c'.id
  /-- WAL files referenced by the instance lie in directories of its own lineage, not above its own directory, and
  in its own directory below the next WAL number -/
  wd : ∀ c ∈ x.ckpts, ∀ w ∈ c.wals, w.dir ≤ i ∧ (w.dir = i → w.num < x.walNext) ∧
    ∃ y : Inst, s.insts[w.dir]? = some y ∧ y.lin = x.lin
  rcur : ∀ t ∈ x.current, t.uri ∈ x.made
  rck : ∀ c ∈ x.ckpts, ∀ t ∈ c.tables, t.uri ∈ x.made
  rcr : ∀ u ∈ x.created, u ∈ x.made
  lsub : ∀ t ∈ x.loaded, t.uri ∈ x.made
  mused : ∀ u ∈ x.made, u ∈ s.used
  src : ∀ t ∈ x.loaded, (∃ c ∈ x.ckpts, c.fromDoc = true ∧ t ∈ c.tables) ∨ ∃ n, x.src = some n ∧ n ≤ s.floor
  srcid : ∀ c ∈ x.ckpts, c.fromDoc = true → x.src = some c.id

structure InvC (s : State) : Prop where
  inst : ∀ (i : Nat) (x : Inst), s.insts[i]? = some x → InstC s i x
  safe : Safe s
  own : ∀ h ∈ s.retained, s.floor < h.id ∧ ∃ x : Inst, s.insts[h.writer]? = some x ∧
    (∃ c ∈ x.ckpts, c.id = h.id) ∧ ∀ c ∈ x.ckpts, c.id = h.id → c.tables = h.tables ∧ c.wals = h.wals
  /-- no table belongs to two lineages -/
  disj : ∀ (i j : Nat) (x y : Inst), x.lin ≠ y.lin → s.insts[i]? = some x → s.insts[j]? = some y →
    ∀ u ∈ x.made, u ∉ y.made
  onealive : ∀ (i j : Nat) (x y : Inst), s.insts[i]? = some x → s.insts[j]? = some y → x.life = .alive →
    y.life = .alive → x.lin = y.lin → i = j
  newest : ∀ (i j : Nat) (x y : Inst), s.insts[i]? = some x → s.insts[j]? = some y → x.life = .alive →
    y.lin = x.lin → j ≤ i
  old : ∀ h ∈ s.retained, ∀ (i : Nat) (x y : Inst), s.insts[i]? = some x → x.life = .alive →
    s.insts[h.writer]? = some y → y.lin = x.lin → h.writer ≠ i → ∃ n, x.src = some n ∧ h.id ≤ n
  mine : ∀ (i : Nat) (x : Inst), s.insts[i]? = some x → x.life = .alive → ∀ u ∈ x.created, ∀ h ∈ s.retained,
    u ∈ uris h.tables → h.writer = i
  winvx : ∀ h ∈ s.retained, ∀ (j : Nat) (y : Inst), s.insts[j]? = some y → ∀ c ∈ y.ckpts, ∀ w ∈ h.wals,
    ∀ w' ∈ c.wals, w.same w' = true → c.id = h.id

theorem invC_init : InvC {} where
  inst := by intro i x h; simp at h
  safe := by intro f hf; simp [needed, liveTables] at hf
  own := by intro h hh; simp at hh
  disj := by intro i j x y _ h; simp at h
  onealive := by intro i j x y h; simp at h
  newest := by intro i j x y h; simp at h
  old := by intro h hh; simp at hh
  mine := by intro i x h; simp at h
  winvx := by intro h hh; simp at hh

/-- a step that keeps every instance's lineage label in place keeps the per-instance facts of untouched instances -/
theorem instC_frame {s s' : State} {j : Nat} {x : Inst} (ok : InstC s j x)
    (hlin : ∀ (k : Nat) (z : Inst), s.insts[k]? = some z → ∃ z' : Inst, s'.insts[k]? = some z' ∧ z'.lin = z.lin)
    (hused : ∀ u ∈ s.used, u ∈ s'.used) (hfloor : s.floor ≤ s'.floor) : InstC s' j x :=
  { ok with
    wd := by
      intro c hc w hw
      obtain ⟨h1, h2, y, hy, hl⟩ := ok.wd c hc w hw
      obtain ⟨y', hy', hl'⟩ := hlin _ y hy
      exact ⟨h1, h2, y', hy', hl'.trans hl⟩
    mused := fun u hu => hused u (ok.mused u hu)
    src := by
      intro t ht
      rcases ok.src t ht with h1 | ⟨n, hn, hle⟩
      · exact Or.inl h1
      · exact Or.inr ⟨n, hn, Nat.le_trans hle hfloor⟩ }

/-- whoever references a table has it in `made` -/
theorem madeC_of_handle {s : State} (inv : InvC s) {h : Handle} (hh : h ∈ s.retained) {t : Tbl} (ht : t ∈ h.tables) :
    ∃ x : Inst, s.insts[h.writer]? = some x ∧ t.uri ∈ x.made ∧ ∃ c ∈ x.ckpts, t ∈ c.tables := by
  obtain ⟨_, x, hx, ⟨c, hc, hid⟩, hall⟩ := inv.own h hh
  have htab := (hall c hc hid).1
  exact ⟨x, hx, (inv.inst _ x hx).rck c hc t (htab ▸ ht), c, hc, htab ▸ ht⟩

/-- two instances that both have a table in `made` belong to the same lineage -/
theorem same_lin {s : State} (inv : InvC s) {i j : Nat} {x y : Inst} (hx : s.insts[i]? = some x)
    (hy : s.insts[j]? = some y) {u : Path} (hu : u ∈ x.made) (hv : u ∈ y.made) : x.lin = y.lin := by
  by_cases h : x.lin = y.lin
  · exact h
  · exact absurd hv (inv.disj i j x y h hx hy u hu)

/-- lookups after replacing instance `i` by an instance of the same lineage -/
theorem set_lin {l : List Inst} {i : Nat} {xi y : Inst} (hi : l[i]? = some xi) (hl : y.lin = xi.lin)
    (k : Nat) (z : Inst) (hk : l[k]? = some z) : ∃ z' : Inst, (l.set i y)[k]? = some z' ∧ z'.lin = z.lin := by
  by_cases hik : i = k
  · subst hik
    rw [hi] at hk; injection hk with hk; subst hk
    exact ⟨y, get_set_self hi, hl⟩
  · exact ⟨z, by rw [get_set_other hik]; exact hk, rfl⟩


theorem handle_used {s : State} (inv : InvC s) {h : Handle} (hh : h ∈ s.retained) {t : Tbl} (ht : t ∈ h.tables) :
    t.uri ∈ s.used := by
  obtain ⟨x, hx, hm, _⟩ := madeC_of_handle inv hh ht
  exact (inv.inst _ x hx).mused _ hm

/-- the master lemma for a step of instance `i` that leaves the job's handles and the floor alone: the caller
supplies the new per-instance facts, safety, and how `made`, `created`, the checkpoint list relate to before -/
theorem invC_update {s s' : State} {i : Nat} {xi y : Inst} (inv : InvC s) (hi : s.insts[i]? = some xi)
    (hins : s'.insts = s.insts.set i y) (hret : s'.retained = s.retained) (hfl : s'.floor = s.floor)
    (hused : ∀ u ∈ s.used, u ∈ s'.used)
    (hlin : y.lin = xi.lin) (hlife : y.life = .alive → xi.life = .alive) (hsrc : y.src = xi.src)
    (hy : InstC s' i y) (hsafe : Safe s')
    (hmade : ∀ u ∈ y.made, u ∈ xi.made ∨ u ∉ s.used)
    (hcr : ∀ u ∈ y.created, u ∈ xi.created ∨ u ∉ s.used)
    (hown : ∀ h ∈ s.retained, h.writer = i →
      (∃ c ∈ y.ckpts, c.id = h.id) ∧ ∀ c ∈ y.ckpts, c.id = h.id → c.tables = h.tables ∧ c.wals = h.wals)
    (hwinv : ∀ h ∈ s.retained, ∀ c ∈ y.ckpts, ∀ w ∈ h.wals, ∀ w' ∈ c.wals, w.same w' = true → c.id = h.id) :
    InvC s' := by
  have hlook : ∀ (k : Nat) (z : Inst), s.insts[k]? = some z → ∃ z' : Inst, s'.insts[k]? = some z' ∧ z'.lin = z.lin := by
    intro k z hk; rw [hins]; exact set_lin hi hlin k z hk
  have hback : ∀ (k : Nat) (z' : Inst), s'.insts[k]? = some z' → (k = i ∧ z' = y) ∨ (k ≠ i ∧ s.insts[k]? = some z') := by
    intro k z' hk
    rw [hins] at hk
    rcases get_set_inv hi hk with ⟨h1, h2⟩ | ⟨h1, h2⟩
    · exact Or.inl ⟨h1.symm, h2⟩
    · exact Or.inr ⟨fun h => h1 h.symm, h2⟩
  have hyat : s'.insts[i]? = some y := by rw [hins]; exact get_set_self hi
  exact {
    inst := by
      intro k z' hk
      rcases hback k z' hk with ⟨rfl, rfl⟩ | ⟨_, hk'⟩
      · exact hy
      · exact instC_frame (inv.inst k z' hk') hlook hused (by rw [hfl]; exact Nat.le_refl _)
    safe := hsafe
    own := by
      intro h hh
      rw [hret] at hh
      obtain ⟨h1, x, hx, h2⟩ := inv.own h hh
      refine ⟨by rw [hfl]; exact h1, ?_⟩
      by_cases hw : h.writer = i
      · exact ⟨y, by rw [hw]; exact hyat, hown h hh hw⟩
      · exact ⟨x, by rw [hins, get_set_other (fun e => hw e.symm)]; exact hx, h2⟩
    disj := by
      intro a b xa xb hne ha hb u hu hv
      rcases hback a xa ha with ⟨rfl, rfl⟩ | ⟨hai, ha'⟩
      · rcases hback b xb hb with ⟨_, rfl⟩ | ⟨_, hb'⟩
        · exact hne rfl
        · rcases hmade u hu with h1 | h1
          · exact inv.disj _ b xi xb (hlin ▸ hne) hi hb' u h1 hv
          · exact h1 ((inv.inst b xb hb').mused u hv)
      · rcases hback b xb hb with ⟨rfl, rfl⟩ | ⟨_, hb'⟩
        · rcases hmade u hv with h1 | h1
          · exact inv.disj a _ xa xi (hlin ▸ hne) ha' hi u hu h1
          · exact h1 ((inv.inst a xa ha').mused u hu)
        · exact inv.disj a b xa xb hne ha' hb' u hu hv
    onealive := by
      intro a b xa xb ha hb hla hlb hl
      rcases hback a xa ha with ⟨rfl, rfl⟩ | ⟨hai, ha'⟩
      · rcases hback b xb hb with ⟨h1, _⟩ | ⟨_, hb'⟩
        · exact h1.symm
        · exact inv.onealive _ b xi xb hi hb' (hlife hla) hlb (hlin ▸ hl)
      · rcases hback b xb hb with ⟨rfl, rfl⟩ | ⟨_, hb'⟩
        · exact inv.onealive a _ xa xi ha' hi hla (hlife hlb) (hl.trans hlin)
        · exact inv.onealive a b xa xb ha' hb' hla hlb hl
    newest := by
      intro a b xa xb ha hb hla hl
      rcases hback a xa ha with ⟨rfl, rfl⟩ | ⟨hai, ha'⟩
      · rcases hback b xb hb with ⟨h1, _⟩ | ⟨_, hb'⟩
        · exact Nat.le_of_eq h1
        · exact inv.newest _ b xi xb hi hb' (hlife hla) (hl.trans hlin)
      · rcases hback b xb hb with ⟨rfl, rfl⟩ | ⟨_, hb'⟩
        · exact inv.newest a _ xa xi ha' hi hla (hlin ▸ hl)
        · exact inv.newest a b xa xb ha' hb' hla hl
    old := by
      intro h hh a xa yw ha hla hw hl hne
      rw [hret] at hh
      -- the writer as it was before the step
      have hwold : ∃ yw0 : Inst, s.insts[h.writer]? = some yw0 ∧ yw0.lin = yw.lin := by
        rcases hback _ yw hw with ⟨hwi, rfl⟩ | ⟨_, hw'⟩
        · exact ⟨xi, hwi ▸ hi, hlin.symm⟩
        · exact ⟨yw, hw', rfl⟩
      obtain ⟨yw0, hw0, hl0⟩ := hwold
      rcases hback a xa ha with ⟨rfl, rfl⟩ | ⟨_, ha'⟩
      · obtain ⟨n, hn, hle⟩ := inv.old h hh _ xi yw0 hi (hlife hla) hw0 (by rw [hl0, hl, hlin]) hne
        exact ⟨n, by rw [hsrc]; exact hn, hle⟩
      · exact inv.old h hh a xa yw0 ha' hla hw0 (hl0.trans hl) hne
    mine := by
      intro a xa ha hla u hu h hh hm
      rw [hret] at hh
      rcases hback a xa ha with ⟨rfl, rfl⟩ | ⟨_, ha'⟩
      · rcases hcr u hu with h1 | h1
        · exact inv.mine _ xi hi (hlife hla) u h1 h hh hm
        · obtain ⟨t, ht, rfl⟩ := List.mem_map.mp hm
          exact absurd (handle_used inv hh ht) h1
      · exact inv.mine a xa ha' hla u hu h hh hm
    winvx := by
      intro h hh j yj hj c hc w hw w' hw' hsm
      rw [hret] at hh
      rcases hback j yj hj with ⟨rfl, rfl⟩ | ⟨_, hj'⟩
      · exact hwinv h hh c hc w hw w' hw' hsm
      · exact inv.winvx h hh j yj hj' c hc w hw w' hw' hsm }


/-- steps of instance `i` that keep handles and checkpoints: they may add table files with unused names -/
theorem invC_tables {s : State} {i : Nat} {xi y : Inst} {F : List File} {U : List Path} (inv : InvC s)
    (hi : s.insts[i]? = some xi)
    (hck : y.ckpts = xi.ckpts) (hdir : y.dir = xi.dir) (hwn : y.walNext = xi.walNext) (hld : y.loaded = xi.loaded)
    (hsrc : y.src = xi.src) (hlin : y.lin = xi.lin)
    (hrel : y.life ≠ .released) (hlife : y.life = .alive → xi.life = .alive)
    (hF : ∀ f ∈ s.files, f ∈ F) (hU : ∀ u ∈ s.used, u ∈ U)
    (hcur : ∀ t ∈ y.current, t ∈ xi.current ∨ (.sst t.uri ∈ F ∧ t.uri ∈ y.made))
    (hmade : ∀ u ∈ y.made, (u ∈ xi.made ∨ u ∉ s.used) ∧ u ∈ U)
    (hmono : ∀ u ∈ xi.made, u ∈ y.made)
    (hcr : ∀ u ∈ y.created, (u ∈ xi.created ∨ u ∉ s.used) ∧ u ∈ y.made) :
    InvC { s with insts := s.insts.set i y, files := F, used := U } := by
  have ok := inv.inst _ xi hi
  refine invC_update (s' := { s with insts := s.insts.set i y, files := F, used := U }) inv hi rfl rfl rfl hU hlin
    hlife hsrc ?_ ?_ (fun u hu => (hmade u hu).1) (fun u hu => (hcr u hu).1) ?_ ?_
  · exact {
      dir := hdir.trans ok.dir
      norel := hrel
      linle := hlin ▸ ok.linle
      wuniq := by rw [hck]; exact ok.wuniq
      wd := by
        rw [hck, hwn, hlin]
        intro c hc w hw
        obtain ⟨h1, h2, z, hz, hl⟩ := ok.wd c hc w hw
        obtain ⟨z', hz', hl'⟩ := set_lin (y := y) hi hlin _ z hz
        exact ⟨h1, h2, z', hz', hl'.trans hl⟩
      rcur := by
        intro t ht
        rcases hcur t ht with h1 | h1
        · exact hmono _ (ok.rcur t h1)
        · exact h1.2
      rck := by rw [hck]; exact fun c hc t ht => hmono _ (ok.rck c hc t ht)
      rcr := fun u hu => (hcr u hu).2
      lsub := by rw [hld]; exact fun t ht => hmono _ (ok.lsub t ht)
      mused := fun u hu => (hmade u hu).2
      src := by rw [hld, hck, hsrc]; exact ok.src
      srcid := by rw [hck, hsrc]; exact ok.srcid }
  · intro f hf
    rcases (mem_neededN f).mp hf with ⟨j, x', hj, hl, t, ht, rfl⟩ | ⟨h, hh, hr⟩
    · rcases get_set_inv hi hj with ⟨rfl, rfl⟩ | ⟨_, hj'⟩
      · rcases hcur t ht with h1 | h1
        · exact hF _ (inv.safe _ ((mem_neededN _).mpr (Or.inl ⟨_, xi, hi, hlife hl, t, h1, rfl⟩)))
        · exact h1.1
      · exact hF _ (inv.safe _ ((mem_neededN _).mpr (Or.inl ⟨j, x', hj', hl, t, ht, rfl⟩)))
    · exact hF _ (inv.safe _ ((mem_neededN _).mpr (Or.inr ⟨h, hh, hr⟩)))
  · intro h hh hw
    obtain ⟨_, x, hx, h2⟩ := inv.own h hh
    rw [hw, hi] at hx; injection hx with hx; subst hx
    rw [hck]; exact h2
  · intro h hh c hc
    exact inv.winvx h hh i xi hi c (hck ▸ hc)

theorem step_invC_simple {s s' : State} {a : Act} (inv : InvC s)
    (ha : match a with
      | .flush .. => True | .compact .. => True | .snap _ => True | .unsnap .. => True | .crash _ => True
      | .redeployFailed _ => True
      | _ => False)
    (hstep : step s a = some s') : InvC s' := by
  cases a with
  | flush i t =>
    simp only [step] at hstep
    split at hstep
    · simp at hstep
    · rename_i xi hi
      split at hstep
      · rename_i hc
        injection hstep with hstep; subst hstep
        have hfresh : t.uri ∉ s.used := by simpa using hc.2
        have ok := inv.inst _ xi hi
        exact invC_tables (y := flushInst xi t) (F := .sst t.uri :: s.files) (U := t.uri :: s.used) inv hi rfl rfl rfl
          rfl rfl rfl ok.norel (fun h => h) (fun f hf => List.mem_cons_of_mem _ hf)
          (fun u hu => List.mem_cons_of_mem _ hu)
          (by
            intro t' ht'
            rcases List.mem_cons.mp ht' with rfl | ht'
            · exact Or.inr ⟨List.mem_cons_self .., List.mem_cons_self ..⟩
            · exact Or.inl ht')
          (by
            intro u hu
            rcases List.mem_cons.mp hu with rfl | hu
            · exact ⟨Or.inr hfresh, List.mem_cons_self ..⟩
            · exact ⟨Or.inl hu, List.mem_cons_of_mem _ (ok.mused u hu)⟩)
          (fun u hu => List.mem_cons_of_mem _ hu)
          (by
            intro u hu
            rcases List.mem_cons.mp hu with rfl | hu
            · exact ⟨Or.inr hfresh, List.mem_cons_self ..⟩
            · exact ⟨Or.inl hu, List.mem_cons_of_mem _ (ok.rcr u hu)⟩)
      · simp at hstep
  | compact i rm add =>
    simp only [step] at hstep
    split at hstep
    · simp at hstep
    · rename_i xi hi
      split at hstep
      · rename_i hc
        injection hstep with hstep; subst hstep
        have hfresh := allFresh_not_mem hc.2.1
        have ok := inv.inst _ xi hi
        exact invC_tables (y := compactInst xi rm add) (F := (uris add).map File.sst ++ s.files)
          (U := uris add ++ s.used) inv hi rfl rfl rfl rfl rfl rfl
          ok.norel (fun h => h) (fun f hf => List.mem_append_right _ hf) (fun u hu => List.mem_append_right _ hu)
          (by
            intro t' ht'
            rcases List.mem_append.mp ht' with ht' | ht'
            · exact Or.inl (mem_dropTables ht')
            · have hm : t'.uri ∈ uris add := List.mem_map.mpr ⟨t', ht', rfl⟩
              exact Or.inr ⟨List.mem_append_left _ (List.mem_map.mpr ⟨t'.uri, hm, rfl⟩), List.mem_append_left _ hm⟩)
          (by
            intro u hu
            rcases List.mem_append.mp hu with hu | hu
            · exact ⟨Or.inr (hfresh u hu), List.mem_append_left _ hu⟩
            · exact ⟨Or.inl hu, List.mem_append_right _ (ok.mused u hu)⟩)
          (fun u hu => List.mem_append_right _ hu)
          (by
            intro u hu
            rcases List.mem_append.mp hu with hu | hu
            · exact ⟨Or.inr (hfresh u hu), List.mem_append_left _ hu⟩
            · exact ⟨Or.inl hu, List.mem_append_right _ (ok.rcr u hu)⟩)
      · simp at hstep
  | snap i =>
    simp only [step] at hstep
    split at hstep
    · simp at hstep
    · rename_i xi hi
      split at hstep
      · injection hstep with hstep; subst hstep
        have ok := inv.inst _ xi hi
        have := invC_tables (y := { xi with snaps := xi.current :: xi.snaps }) (F := s.files) (U := s.used) inv hi
          rfl rfl rfl rfl rfl rfl ok.norel (fun h => h) (fun f hf => hf) (fun u hu => hu) (fun t ht => Or.inl ht)
          (fun u hu => ⟨Or.inl hu, ok.mused u hu⟩) (fun u hu => hu) (fun u hu => ⟨Or.inl hu, ok.rcr u hu⟩)
        simpa [setInst] using this
      · simp at hstep
  | unsnap i k =>
    simp only [step] at hstep
    split at hstep
    · simp at hstep
    · rename_i xi hi
      split at hstep
      · injection hstep with hstep; subst hstep
        have ok := inv.inst _ xi hi
        have := invC_tables (y := { xi with snaps := xi.snaps.eraseIdx k }) (F := s.files) (U := s.used) inv hi
          rfl rfl rfl rfl rfl rfl ok.norel (fun h => h) (fun f hf => hf) (fun u hu => hu) (fun t ht => Or.inl ht)
          (fun u hu => ⟨Or.inl hu, ok.mused u hu⟩) (fun u hu => hu) (fun u hu => ⟨Or.inl hu, ok.rcr u hu⟩)
        simpa [setInst] using this
      · simp at hstep
  | crash i =>
    simp only [step] at hstep
    split at hstep
    · simp at hstep
    · rename_i xi hi
      split at hstep
      · injection hstep with hstep; subst hstep
        have ok := inv.inst _ xi hi
        have := invC_tables (y := { xi with life := .crashed }) (F := s.files) (U := s.used) inv hi
          rfl rfl rfl rfl rfl rfl (by simp) (fun h => by simp at h) (fun f hf => hf) (fun u hu => hu)
          (fun t ht => Or.inl ht)
          (fun u hu => ⟨Or.inl hu, ok.mused u hu⟩) (fun u hu => hu) (fun u hu => ⟨Or.inl hu, ok.rcr u hu⟩)
        simpa [setInst] using this
      · simp at hstep
  | redeployFailed i =>
    simp only [step] at hstep
    split at hstep
    · simp at hstep
    · split at hstep
      · injection hstep with hstep; subst hstep; exact inv
      · simp at hstep
  | _ => exact absurd ha (by simp)


theorem step_invC_jobDrop {s s' : State} {k : Nat} (inv : InvC s) (hstep : step s (.jobDrop k) = some s') :
    InvC s' := by
  simp only [step] at hstep
  split at hstep
  · injection hstep with hstep; subst hstep
    have hsub : ∀ h, h ∈ s.retained.filter (fun h => k < h.id) → h ∈ s.retained ∧ k < h.id := by
      intro h hh; have := List.mem_filter.mp hh; exact ⟨this.1, by simpa using this.2⟩
    exact {
      inst := fun i x hx => instC_frame (inv.inst i x hx) (fun k z hk => ⟨z, hk, rfl⟩) (fun u hu => hu)
        (Nat.le_max_left ..)
      safe := by
        intro f hf
        rcases (mem_neededN f).mp hf with hl | ⟨h, hh, hr⟩
        · exact inv.safe _ ((mem_neededN _).mpr (Or.inl hl))
        · exact inv.safe _ ((mem_neededN _).mpr (Or.inr ⟨h, (hsub h hh).1, hr⟩))
      own := by
        intro h hh
        obtain ⟨h1, rest⟩ := inv.own h (hsub h hh).1
        exact ⟨Nat.max_lt.mpr ⟨h1, (hsub h hh).2⟩, rest⟩
      disj := inv.disj
      onealive := inv.onealive
      newest := inv.newest
      old := fun h hh => inv.old h (hsub h hh).1
      mine := fun i x hx hl u hu h hh => inv.mine i x hx hl u hu h (hsub h hh).1
      winvx := fun h hh => inv.winvx h (hsub h hh).1 }
  · simp at hstep

theorem step_invC_jobAbandon {s s' : State} {id : Nat} (inv : InvC s) (hstep : step s (.jobAbandon id) = some s') :
    InvC s' := by
  simp only [step] at hstep
  injection hstep with hstep; subst hstep
  have hsub : ∀ h, h ∈ s.retained.filter (fun h => h.id != id) → h ∈ s.retained :=
    fun h hh => (List.mem_filter.mp hh).1
  exact {
    inst := fun i x hx => instC_frame (inv.inst i x hx) (fun k z hk => ⟨z, hk, rfl⟩) (fun u hu => hu) (Nat.le_refl _)
    safe := by
      intro f hf
      rcases (mem_neededN f).mp hf with hl | ⟨h, hh, hr⟩
      · exact inv.safe _ ((mem_neededN _).mpr (Or.inl hl))
      · exact inv.safe _ ((mem_neededN _).mpr (Or.inr ⟨h, hsub h hh, hr⟩))
    own := fun h hh => inv.own h (hsub h hh)
    disj := inv.disj
    onealive := inv.onealive
    newest := inv.newest
    old := fun h hh => inv.old h (hsub h hh)
    mine := fun i x hx hl u hu h hh => inv.mine i x hx hl u hu h (hsub h hh)
    winvx := fun h hh => inv.winvx h (hsub h hh) }

/-- lookups after appending a new instance -/
theorem get_append_new {l : List Inst} {y : Inst} {j : Nat} {x : Inst} (h : (l ++ [y])[j]? = some x) :
    l[j]? = some x ∨ (j = l.length ∧ x = y) := by
  rcases Nat.lt_trichotomy j l.length with hlt | heq | hgt
  · rw [List.getElem?_append_left hlt] at h; exact Or.inl h
  · subst heq
    have : (l ++ [y])[l.length]? = some y := by simp
    rw [this] at h; injection h with h
    exact Or.inr ⟨rfl, h.symm⟩
  · have : (l ++ [y]).length ≤ j := by simp; omega
    rw [List.getElem?_eq_none this] at h; cases h

theorem get_append_old {l : List Inst} {y : Inst} {j : Nat} {x : Inst} (h : l[j]? = some x) :
    (l ++ [y])[j]? = some x := by
  have hlt : j < l.length := by
    rcases Nat.lt_or_ge j l.length with hlt | hge
    · exact hlt
    · rw [List.getElem?_eq_none hge] at h; cases h
  rw [List.getElem?_append_left hlt]; exact h

theorem lt_of_get {l : List Inst} {j : Nat} {x : Inst} (h : l[j]? = some x) : j < l.length := by
  rcases Nat.lt_or_ge j l.length with hlt | hge
  · exact hlt
  · rw [List.getElem?_eq_none hge] at h; cases h

theorem step_invC_openFresh {s s' : State} {r : KGRange} {g : Nat} {n : List KGRange} {dir : Nat} (inv : InvC s)
    (hdir : dir = s.insts.length) (hstep : step s (.openFresh r g n dir) = some s') : InvC s' := by
  simp only [step] at hstep
  injection hstep with hstep; subst hstep
  -- the new instance starts a lineage of its own: its label is its index, larger than every existing label
  have hnewlin : ∀ (j : Nat) (x : Inst), s.insts[j]? = some x → x.lin ≠ s.insts.length := by
    intro j x hj
    have := (inv.inst j x hj).linle
    have := lt_of_get hj
    omega
  exact {
    inst := by
      intro j x hj
      rcases get_append_new hj with h1 | ⟨rfl, rfl⟩
      · exact instC_frame (inv.inst j x h1) (fun k z hk => ⟨z, get_append_old hk, rfl⟩) (fun u hu => hu)
          (Nat.le_refl _)
      · exact {
          dir := hdir
          norel := by simp
          linle := Nat.le_refl _
          wuniq := by intro c hc; simp at hc
          wd := by intro c hc; simp at hc
          rcur := by intro t ht; simp at ht
          rck := by intro c hc; simp at hc
          rcr := by intro u hu; simp at hu
          lsub := by intro t ht; simp at ht
          mused := by intro u hu; simp at hu
          src := by intro t ht; simp at ht
          srcid := by intro c hc; simp at hc }
    safe := by
      intro f hf
      rcases (mem_neededN f).mp hf with ⟨j, x, hj, hl, t, ht, rfl⟩ | ⟨h, hh, hr⟩
      · rcases get_append_new hj with h1 | ⟨_, rfl⟩
        · exact inv.safe _ ((mem_neededN _).mpr (Or.inl ⟨j, x, h1, hl, t, ht, rfl⟩))
        · simp at ht
      · exact inv.safe _ ((mem_neededN _).mpr (Or.inr ⟨h, hh, hr⟩))
    own := by
      intro h hh
      obtain ⟨h1, x, hx, rest⟩ := inv.own h hh
      exact ⟨h1, x, get_append_old hx, rest⟩
    disj := by
      intro a b xa xb hne ha hb u hu hv
      rcases get_append_new ha with h1 | ⟨_, rfl⟩
      · rcases get_append_new hb with h2 | ⟨_, rfl⟩
        · exact inv.disj a b xa xb hne h1 h2 u hu hv
        · simp at hv
      · simp at hu
    onealive := by
      intro a b xa xb ha hb hla hlb hl
      rcases get_append_new ha with h1 | ⟨rfl, rfl⟩
      · rcases get_append_new hb with h2 | ⟨rfl, rfl⟩
        · exact inv.onealive a b xa xb h1 h2 hla hlb hl
        · exact absurd hl (hnewlin a xa h1)
      · rcases get_append_new hb with h2 | ⟨h2, _⟩
        · exact absurd hl.symm (hnewlin b xb h2)
        · exact h2.symm
    newest := by
      intro a b xa xb ha hb hla hl
      rcases get_append_new ha with h1 | ⟨rfl, rfl⟩
      · rcases get_append_new hb with h2 | ⟨rfl, rfl⟩
        · exact inv.newest a b xa xb h1 h2 hla hl
        · exact absurd hl.symm (hnewlin a xa h1)
      · rcases get_append_new hb with h2 | ⟨h2, _⟩
        · exact Nat.le_of_lt (lt_of_get h2)
        · exact Nat.le_of_eq h2
    old := by
      intro h hh a xa yw ha hla hw hl hne
      rcases get_append_new ha with h1 | ⟨_, rfl⟩
      · rcases get_append_new hw with h2 | ⟨h2, _⟩
        · exact inv.old h hh a xa yw h1 hla h2 hl hne
        · obtain ⟨_, x, hx, _⟩ := inv.own h hh
          have := lt_of_get hx
          omega
      · rcases get_append_new hw with h2 | ⟨h2, _⟩
        · exact absurd hl (hnewlin _ yw h2)
        · obtain ⟨_, x, hx, _⟩ := inv.own h hh
          have := lt_of_get hx
          omega
    mine := by
      intro a xa ha hla u hu h hh hm
      rcases get_append_new ha with h1 | ⟨_, rfl⟩
      · exact inv.mine a xa h1 hla u hu h hh hm
      · simp at hu
    winvx := by
      intro h hh j yj hj c hc
      rcases get_append_new hj with h1 | ⟨_, rfl⟩
      · exact inv.winvx h hh j yj h1 c hc
      · simp at hc }

/-- the per-instance facts of instance `i` itself after it was replaced by an instance of the same lineage -/
theorem instC_self {s s' : State} {i : Nat} {xi y : Inst} (ok : InstC s i xi) (hi : s.insts[i]? = some xi)
    (hins : s'.insts = s.insts.set i y) (hlin : y.lin = xi.lin) (hused : ∀ u ∈ s.used, u ∈ s'.used)
    (hfl : s.floor ≤ s'.floor) : InstC s' i xi :=
  instC_frame ok (fun k z hk => by rw [hins]; exact set_lin hi hlin k z hk) hused hfl

theorem step_invC_retain {s s' : State} {i : Nat} {ids : List Nat} (inv : InvC s) (hsc : retainOk s i ids = true)
    (hstep : step s (.retain i ids) = some s') : InvC s' := by
  simp only [step] at hstep
  split at hstep
  · simp at hstep
  · rename_i xi hi
    split at hstep
    · injection hstep with hstep; subst hstep
      have ok := inv.inst _ xi hi
      have hok : ∀ c ∈ droppedOf xi.ckpts ids, c.id ≤ s.floor := by
        simp only [retainOk, hi, List.all_eq_true, decide_eq_true_eq] at hsc
        exact hsc
      have hkeep : ∀ c ∈ xi.ckpts, s.floor < c.id → c ∈ keptOf xi.ckpts ids := by
        intro c hcm hlt
        by_cases hin : keeps ids c = true
        · exact mem_keptOf.mpr ⟨hcm, hin⟩
        · have := hok c (mem_droppedOf.mpr ⟨hcm, by simpa using hin⟩)
          omega
      have okf : InstC _ i xi := instC_self (s' := { setInst s i { xi with ckpts := keptOf xi.ckpts ids } with
          files := rmWals s.files (walsOf (droppedOf xi.ckpts ids)), docs := saveDoc s i xi.dir })
        (y := { xi with ckpts := keptOf xi.ckpts ids }) ok hi (by simp [setInst]) rfl (fun u hu => hu) (Nat.le_refl _)
      refine invC_update (y := { xi with ckpts := keptOf xi.ckpts ids }) inv hi (by simp [setInst]) rfl rfl
        (fun u hu => hu) rfl (fun h => h) rfl ?_ ?_ (fun u hu => Or.inl hu) (fun u hu => Or.inl hu) ?_ ?_
      · exact {
          dir := okf.dir
          norel := okf.norel
          linle := okf.linle
          wuniq := fun c hc c' hc' => okf.wuniq c (mem_keptOf.mp hc).1 c' (mem_keptOf.mp hc').1
          wd := fun c hc => okf.wd c (mem_keptOf.mp hc).1
          rcur := okf.rcur
          rck := fun c hc => okf.rck c (mem_keptOf.mp hc).1
          rcr := okf.rcr
          lsub := okf.lsub
          mused := okf.mused
          src := by
            intro t ht
            rcases ok.src t ht with ⟨c, hc, hfd, htc⟩ | h2
            · by_cases hin : keeps ids c = true
              · exact Or.inl ⟨c, mem_keptOf.mpr ⟨hc, hin⟩, hfd, htc⟩
              · have hle := hok c (mem_droppedOf.mpr ⟨hc, by simpa using hin⟩)
                exact Or.inr ⟨c.id, ok.srcid c hc hfd, hle⟩
            · exact Or.inr h2
          srcid := fun c hc => okf.srcid c (mem_keptOf.mp hc).1 }
      · intro f hf
        show f ∈ rmWals s.files (walsOf (droppedOf xi.ckpts ids))
        rw [mem_rmWals]
        rcases (mem_neededN f).mp hf with ⟨j, x', hj, hl, t, ht, rfl⟩ | ⟨h, hh, hr⟩
        · have hj : (s.insts.set i { xi with ckpts := keptOf xi.ckpts ids })[j]? = some x' := by
            simpa [setInst] using hj
          refine ⟨?_, by intro w _ v hne; cases hne⟩
          rcases get_set_inv hi hj with ⟨rfl, rfl⟩ | ⟨_, hj'⟩
          · exact inv.safe _ ((mem_neededN _).mpr (Or.inl ⟨_, xi, hi, hl, t, ht, rfl⟩))
          · exact inv.safe _ ((mem_neededN _).mpr (Or.inl ⟨j, x', hj', hl, t, ht, rfl⟩))
        · refine ⟨inv.safe _ ((mem_neededN _).mpr (Or.inr ⟨h, hh, hr⟩)), ?_⟩
          rcases hr with ⟨t, ht, rfl⟩ | ⟨w, hw, rfl⟩
          · intro w _ v hne; cases hne
          · intro w' hw' v hne
            injection hne with hne
            subst hne
            obtain ⟨c', hc', hwc'⟩ := mem_walsOf.mp hw'
            have hd := mem_droppedOf.mp hc'
            cases hsm : w'.same w with
            | false => rfl
            | true =>
              -- a dropped checkpoint whose WAL name a retained handle uses has the handle's id: not dropped by the job
              rw [same_comm] at hsm
              have h1 := inv.winvx h hh i xi hi c' hd.1 w hw w' hwc' hsm
              have h2 := (inv.own h hh).1
              have h3 := hok c' hc'
              omega
      · intro h hh hw
        obtain ⟨h1, x, hx, ⟨c, hc, hcid⟩, h2⟩ := inv.own h hh
        rw [hw, hi] at hx; injection hx with hx; subst hx
        exact ⟨⟨c, hkeep c hc (hcid ▸ h1), hcid⟩, fun c' hc' => h2 c' (mem_keptOf.mp hc').1⟩
      · intro h hh c hc
        exact inv.winvx h hh i xi hi c (mem_keptOf.mp hc).1
    · simp at hstep

theorem step_invC_collect {s s' : State} {i : Nat} {u : Path} {answers : List Ans} (inv : InvC s)
    (hsc : aliveAt s i = true) (hstep : step s (.collect i u answers) = some s') : InvC s' := by
  simp only [step] at hstep
  split at hstep
  · simp at hstep
  · rename_i xi hi
    have ok := inv.inst _ xi hi
    have hal : xi.life = .alive := by simpa [aliveAt, hi] using hsc
    split at hstep
    · rename_i hun
      have hnr : xi.refs u = false := by
        unfold Inst.unreachable at hun
        simpa [hal] using hun
      -- a table of `i`'s lineage that `i` does not reference is in no running instance's live list ...
      have hnolive : u ∈ xi.made → ∀ (j : Nat) (x : Inst), s.insts[j]? = some x → x.life = .alive →
          ∀ t ∈ x.current, t.uri ≠ u := by
        intro humade j x hj hl t ht he
        subst he
        have hlin := same_lin inv hi hj humade ((inv.inst j x hj).rcur t ht)
        have := inv.onealive i j xi x hi hj hal hl hlin
        subst this
        rw [hi] at hj; injection hj with hj; subst hj
        rw [refs_of_current ht] at hnr; cases hnr
      have hsafe_of : ∀ (y : Inst) (F : List File), y.current = xi.current → y.life = xi.life →
          (∀ f ∈ needed s, f ∈ F) →
          Safe { setInst s i y with files := F } := by
        intro y F hcur hlife hF f hf
        apply hF
        rcases (mem_neededN f).mp hf with ⟨j, x', hj, hl, t, ht, rfl⟩ | ⟨h, hh, hr⟩
        · have hj : (s.insts.set i y)[j]? = some x' := by simpa [setInst] using hj
          rcases get_set_inv hi hj with ⟨rfl, rfl⟩ | ⟨_, hj'⟩
          · exact (mem_neededN _).mpr (Or.inl ⟨_, xi, hi, hlife ▸ hl, t, hcur ▸ ht, rfl⟩)
          · exact (mem_neededN _).mpr (Or.inl ⟨j, x', hj', hl, t, ht, rfl⟩)
        · exact (mem_neededN _).mpr (Or.inr ⟨h, hh, hr⟩)
      split at hstep
      · rename_i hcr
        have hcr' : u ∈ xi.created := by simpa using hcr
        have humade : u ∈ xi.made := ok.rcr u hcr'
        injection hstep with hstep; subst hstep
        have hnone : File.sst u ∉ needed s := by
          intro hn
          rcases (mem_neededN _).mp hn with ⟨j, x, hj, hl, t, ht, he⟩ | ⟨h, hh, (⟨t, ht, he⟩ | ⟨w, _, he⟩)⟩
          · injection he with he
            exact hnolive humade j x hj hl t ht he.symm
          · injection he with he; subst he
            -- a handle listing a table this running instance created was written by this instance
            have hw := inv.mine i xi hi hal _ hcr' h hh (List.mem_map.mpr ⟨t, ht, rfl⟩)
            obtain ⟨x, hx, _, c, hc, htc⟩ := madeC_of_handle inv hh ht
            rw [hw, hi] at hx; injection hx with hx; subst hx
            rw [refs_of_ckpt hc htc] at hnr; cases hnr
          · cases he
        have okf : InstC _ i xi := instC_self (s' := { setInst s i { xi with created := xi.created.erase u } with
            files := if Facts.c09CreatedDeletes == 1 then rmFile s.files (.sst u) else s.files })
          (y := { xi with created := xi.created.erase u }) ok hi (by simp [setInst]) rfl (fun u hu => hu) (Nat.le_refl _)
        refine invC_update (y := { xi with created := xi.created.erase u }) inv hi (by simp [setInst]) rfl rfl
          (fun u hu => hu) rfl (fun h => h) rfl ?_ ?_ (fun u hu => Or.inl hu)
          (fun v hv => Or.inl (List.mem_of_mem_erase hv)) ?_ ?_
        · exact {
            dir := okf.dir, norel := okf.norel, linle := okf.linle, wuniq := okf.wuniq, wd := okf.wd
            rcur := okf.rcur, rck := okf.rck
            rcr := fun v hv => okf.rcr v (List.mem_of_mem_erase hv)
            lsub := okf.lsub, mused := okf.mused, src := okf.src, srcid := okf.srcid }
        · apply hsafe_of { xi with created := xi.created.erase u } _ rfl rfl
          intro f hf
          split
          · exact mem_rmFile.mpr ⟨inv.safe f hf, fun he => hnone (he ▸ hf)⟩
          · exact inv.safe f hf
        · intro h hh hw
          obtain ⟨_, x, hx, h2⟩ := inv.own h hh
          rw [hw, hi] at hx; injection hx with hx; subst hx
          exact h2
        · intro h hh c hc
          exact inv.winvx h hh i xi hi c hc
      · split at hstep
        · simp at hstep
        · rename_i t hfind
          have htl : t ∈ xi.loaded := List.mem_of_find?_eq_some hfind
          have htu : t.uri = u := by simpa using List.find?_some hfind
          have humade : u ∈ xi.made := htu ▸ ok.lsub t htl
          injection hstep with hstep; subst hstep
          -- the restored checkpoint no longer pins the object, so the job has dropped the checkpoint restored from
          have hsrc : ∃ n, xi.src = some n ∧ n ≤ s.floor := by
            rcases ok.src t htl with ⟨c, hc, _, htc⟩ | h2
            · rw [← htu, refs_of_ckpt hc htc] at hnr; cases hnr
            · exact h2
          have hnone : File.sst u ∉ needed s := by
            intro hn
            rcases (mem_neededN _).mp hn with ⟨j, x, hj, hl, t', ht', he⟩ | ⟨h, hh, (⟨t', ht', he⟩ | ⟨w, _, he⟩)⟩
            · injection he with he
              exact hnolive humade j x hj hl t' ht' he.symm
            · injection he with he; subst he
              obtain ⟨x, hx, hm, c, hc, htc⟩ := madeC_of_handle inv hh ht'
              have hlin := same_lin inv hx hi hm humade
              by_cases hw : h.writer = i
              · rw [hw, hi] at hx; injection hx with hx; subst hx
                rw [refs_of_ckpt hc htc] at hnr; cases hnr
              · -- a handle of an earlier instance of the lineage is not newer than what this one restored from
                obtain ⟨n, hn, hle⟩ := hsrc
                obtain ⟨n', hn', hle'⟩ := inv.old h hh i xi x hi hal hx hlin hw
                rw [hn] at hn'; injection hn' with hn'; subst hn'
                have := (inv.own h hh).1
                omega
            · cases he
          have okf : InstC _ i xi := instC_self (s' := { setInst s i { xi with loaded := xi.loaded.erase t } with
              files := if decision xi.range t (xi.nbrs.zip answers) = .delete ∨ Facts.c09LoadedGuarded ≠ 1
                then rmFile s.files (.sst u) else s.files })
            (y := { xi with loaded := xi.loaded.erase t }) ok hi (by simp [setInst]) rfl (fun u hu => hu) (Nat.le_refl _)
          refine invC_update (y := { xi with loaded := xi.loaded.erase t }) inv hi (by simp [setInst]) rfl rfl
            (fun u hu => hu) rfl (fun h => h) rfl ?_ ?_ (fun u hu => Or.inl hu) (fun v hv => Or.inl hv) ?_ ?_
          · exact {
              dir := okf.dir, norel := okf.norel, linle := okf.linle, wuniq := okf.wuniq, wd := okf.wd
              rcur := okf.rcur, rck := okf.rck, rcr := okf.rcr
              lsub := fun t' ht' => okf.lsub t' (List.mem_of_mem_erase ht')
              mused := okf.mused
              src := fun t' ht' => okf.src t' (List.mem_of_mem_erase ht')
              srcid := okf.srcid }
          · apply hsafe_of { xi with loaded := xi.loaded.erase t } _ rfl rfl
            intro f hf
            split
            · exact mem_rmFile.mpr ⟨inv.safe f hf, fun he => hnone (he ▸ hf)⟩
            · exact inv.safe f hf
          · intro h hh hw
            obtain ⟨_, x, hx, h2⟩ := inv.own h hh
            rw [hw, hi] at hx; injection hx with hx; subst hx
            exact h2
          · intro h hh c hc
            exact inv.winvx h hh i xi hi c hc
    · simp at hstep

/-- the job starts to retain a checkpoint that a running instance has just taken -/
theorem invC_addHandle {s : State} (inv : InvC s) (h0 : Handle) {x : Inst}
    (hfiles : ∀ f ∈ handleFiles h0, f ∈ s.files) (hfl : s.floor < h0.id)
    (hx : s.insts[h0.writer]? = some x) (hal : x.life = .alive)
    (hex : ∃ c ∈ x.ckpts, c.id = h0.id)
    (huniq : ∀ c ∈ x.ckpts, c.id = h0.id → c.tables = h0.tables ∧ c.wals = h0.wals)
    (hmade : ∀ t ∈ h0.tables, t.uri ∈ x.made)
    (hw : ∀ (j : Nat) (yj : Inst), s.insts[j]? = some yj → ∀ c ∈ yj.ckpts, ∀ w ∈ h0.wals, ∀ w' ∈ c.wals,
      w.same w' = true → c.id = h0.id) :
    InvC { s with retained := h0 :: s.retained } where
  inst := fun i y hy => instC_frame (inv.inst i y hy) (fun k z hk => ⟨z, hk, rfl⟩) (fun u hu => hu) (Nat.le_refl _)
  safe := by
    intro f hf
    rcases (mem_neededN f).mp hf with hl | ⟨h, hh, hr⟩
    · exact inv.safe _ ((mem_neededN _).mpr (Or.inl hl))
    · rcases List.mem_cons.mp hh with rfl | hh
      · apply hfiles
        rcases hr with ⟨t, ht, rfl⟩ | ⟨w, hw, rfl⟩
        · exact List.mem_append_left _ (List.mem_map.mpr ⟨t.uri, List.mem_map.mpr ⟨t, ht, rfl⟩, rfl⟩)
        · exact List.mem_append_right _ (List.mem_map.mpr ⟨w, hw, rfl⟩)
      · exact inv.safe _ ((mem_neededN _).mpr (Or.inr ⟨h, hh, hr⟩))
  own := by
    intro h hh
    rcases List.mem_cons.mp hh with rfl | hh
    · exact ⟨hfl, x, hx, hex, huniq⟩
    · exact inv.own h hh
  disj := inv.disj
  onealive := inv.onealive
  newest := inv.newest
  old := by
    intro h hh a xa yw ha hla hyw hl hne
    rcases List.mem_cons.mp hh with rfl | hh
    · -- the writer is running, and it is the only running instance of its lineage
      rw [hx] at hyw; injection hyw with hyw; subst hyw
      exact absurd (inv.onealive _ a _ xa hx ha hal hla hl) hne
    · exact inv.old h hh a xa yw ha hla hyw hl hne
  mine := by
    intro a xa ha hla u hu h hh hm
    rcases List.mem_cons.mp hh with rfl | hh
    · obtain ⟨t, ht, rfl⟩ := List.mem_map.mp hm
      have hlin := same_lin inv hx ha (hmade t ht) ((inv.inst a xa ha).rcr _ hu)
      exact inv.onealive _ a _ xa hx ha hal hla hlin
    · exact inv.mine a xa ha hla u hu h hh hm
  winvx := by
    intro h hh j yj hj c hc w hw1 w' hw' hsm
    rcases List.mem_cons.mp hh with rfl | hh
    · exact hw j yj hj c hc w hw1 w' hw' hsm
    · exact inv.winvx h hh j yj hj c hc w hw1 w' hw' hsm

theorem step_invC_ckpt {s s' : State} {i id : Nat} {wal : Wal} (inv : InvC s)
    (hstep : step s (.ckpt i id wal) = some s') : InvC s' := by
  simp only [step] at hstep
  split at hstep
  · simp at hstep
  · rename_i xi hi
    split at hstep
    · rename_i hc
      obtain ⟨hal, hfl, hid, _, hwdir, hwnum⟩ := hc
      injection hstep with hstep; subst hstep
      have ok := inv.inst _ xi hi
      have hwd : wal.dir = i := hwdir.trans ok.dir
      have hidne : ∀ c ∈ xi.ckpts, c.id ≠ id := by
        intro c hc
        have := List.all_eq_true.mp hid c hc
        simpa using this
      have hmemck : ∀ c, c ∈ xi.ckpts ++ [(⟨id, xi.current, [wal], false⟩ : Ckpt)] →
          c ∈ xi.ckpts ∨ c = ⟨id, xi.current, [wal], false⟩ := by
        intro c hc
        rcases List.mem_append.mp hc with h1 | h1
        · exact Or.inl h1
        · exact Or.inr (by simpa using h1)
      -- the sealed WAL has a name no referenced WAL file has: a reference from a later directory would be held by a
      -- later instance of this lineage, but the running instance is the newest of its lineage
      have hnew : ∀ (j : Nat) (xj : Inst), s.insts[j]? = some xj → ∀ c ∈ xj.ckpts, ∀ v ∈ c.wals,
          wal.same v = false := by
        intro j xj hj c hc v hv
        obtain ⟨h1, h2, y, hy, hl⟩ := (inv.inst j xj hj).wd c hc v hv
        cases hsm : wal.same v with
        | false => rfl
        | true =>
          obtain ⟨h3, h4⟩ := same_num hsm
          have hvd : v.dir = i := by omega
          rw [hvd, hi] at hy; injection hy with hy; subst hy
          have hji := inv.newest i j _ xj hi hj hal hl.symm
          have hji : j = i := by omega
          subst hji
          rw [hi] at hj; injection hj with hj; subst hj
          have := h2 hvd
          omega
      -- first the instance's own step (list entry, WAL file), then the job's new handle
      let s1 : State := { setInst s i (ckptInst xi id wal) with
        files := .wal wal :: clobber s.files wal, usedW := wal :: s.usedW, nextId := max s.nextId (id + 1),
        docs := saveDoc s i xi.dir }
      have okf : InstC s1 i xi := instC_self (s' := s1) (y := ckptInst xi id wal) ok hi (by simp [s1, setInst]) rfl
        (fun u hu => hu) (Nat.le_refl _)
      have hy1 : s1.insts[i]? = some (ckptInst xi id wal) := by
        show (s.insts.set i (ckptInst xi id wal))[i]? = _
        exact get_set_self hi
      have inv1 : InvC s1 := by
        refine invC_update (s' := s1) (y := ckptInst xi id wal) inv hi (by simp [s1, setInst]) rfl rfl
          (fun u hu => hu) rfl (fun h => h) rfl ?_ ?_ (fun u hu => Or.inl hu) (fun u hu => Or.inl hu) ?_ ?_
        · exact {
            dir := okf.dir, norel := okf.norel, linle := okf.linle
            wuniq := by
              intro c hc c' hc' w hw w' hw' hsm
              rcases hmemck c hc with h1 | h1 <;> rcases hmemck c' hc' with h2 | h2
              · exact ok.wuniq c h1 c' h2 w hw w' hw' hsm
              · rw [h2] at hw'
                have hww : w' = wal := by simpa using hw'
                rw [hww, same_comm] at hsm
                have := hnew i xi hi c h1 w hw
                rw [hsm] at this; cases this
              · rw [h1] at hw
                have hww : w = wal := by simpa using hw
                rw [hww] at hsm
                have := hnew i xi hi c' h2 w' hw'
                rw [hsm] at this; cases this
              · rw [h1, h2]
            wd := by
              intro c hc w hw
              show w.dir ≤ i ∧ (w.dir = i → w.num < xi.walNext + 1) ∧ _
              rcases hmemck c hc with h1 | h1
              · obtain ⟨a1, a2, a3⟩ := okf.wd c h1 w hw
                exact ⟨a1, fun h => Nat.lt_succ_of_lt (a2 h), a3⟩
              · subst h1
                have hww : w = wal := by simpa using hw
                subst hww
                exact ⟨Nat.le_of_eq hwd, fun _ => by omega, ckptInst xi id w, by rw [hwd]; exact hy1, rfl⟩
            rcur := okf.rcur
            rck := by
              intro c hc t ht
              rcases hmemck c hc with h1 | h1
              · exact ok.rck c h1 t ht
              · subst h1; exact ok.rcur t ht
            rcr := okf.rcr, lsub := okf.lsub, mused := okf.mused
            src := by
              intro t ht
              rcases ok.src t ht with ⟨c, hc, h1, h2⟩ | h2
              · exact Or.inl ⟨c, List.mem_append_left _ hc, h1, h2⟩
              · exact Or.inr h2
            srcid := by
              intro c hc hfd
              rcases hmemck c hc with h1 | h1
              · exact ok.srcid c h1 hfd
              · subst h1; cases hfd }
        · intro f hf
          show f ∈ File.wal wal :: clobber s.files wal
          have hf' : f ∈ needed s := by
            rcases (mem_neededN f).mp hf with ⟨j, x', hj, hl, t, ht, rfl⟩ | ⟨h, hh, hr⟩
            · have hj : (s.insts.set i (ckptInst xi id wal))[j]? = some x' := hj
              rcases get_set_inv hi hj with ⟨rfl, rfl⟩ | ⟨_, hj'⟩
              · exact (mem_neededN _).mpr (Or.inl ⟨_, xi, hi, hl, t, ht, rfl⟩)
              · exact (mem_neededN _).mpr (Or.inl ⟨j, x', hj', hl, t, ht, rfl⟩)
            · exact (mem_neededN _).mpr (Or.inr ⟨h, hh, hr⟩)
          refine List.mem_cons_of_mem _ (mem_clobber.mpr ⟨inv.safe f hf', ?_⟩)
          intro v hv
          subst hv
          rcases (mem_neededN _).mp hf' with ⟨_, _, _, _, _, _, he⟩ | ⟨h, hh, (⟨_, _, he⟩ | ⟨w, hw, he⟩)⟩
          · cases he
          · cases he
          · injection he with he; subst he
            obtain ⟨_, x, hx, ⟨c, hcm, hcid⟩, hall⟩ := inv.own h hh
            exact hnew _ x hx c hcm _ ((hall c hcm hcid).2 ▸ hw)
        · intro h hh hw
          obtain ⟨_, x, hx, ⟨c, hcm, hcid⟩, hall⟩ := inv.own h hh
          rw [hw, hi] at hx; injection hx with hx; subst hx
          refine ⟨⟨c, List.mem_append_left _ hcm, hcid⟩, ?_⟩
          intro c' hc' hid'
          rcases hmemck c' hc' with h1 | h1
          · exact hall c' h1 hid'
          · subst h1
            exact absurd (hcid.trans hid'.symm) (hidne c hcm)
        · intro h hh c hc w hw w' hw' hsm
          rcases hmemck c hc with h1 | h1
          · exact inv.winvx h hh i xi hi c h1 w hw w' hw' hsm
          · subst h1
            have hww : w' = wal := by simpa using hw'
            subst hww
            obtain ⟨_, x, hx, ⟨c, hcm, hcid⟩, hall⟩ := inv.own h hh
            have := hnew _ x hx c hcm w ((hall c hcm hcid).2 ▸ hw)
            rw [same_comm, hsm] at this; cases this
      have hfin := invC_addHandle (s := s1) inv1 ⟨i, id, xi.current, [wal]⟩ (x := ckptInst xi id wal)
        (by
          intro f hf
          show f ∈ File.wal wal :: clobber s.files wal
          rcases List.mem_append.mp hf with h1 | h1
          · obtain ⟨u, hu, rfl⟩ := List.mem_map.mp h1
            obtain ⟨t, ht, rfl⟩ := List.mem_map.mp hu
            exact List.mem_cons_of_mem _ (mem_clobber.mpr
              ⟨inv.safe _ ((mem_neededN _).mpr (Or.inl ⟨i, xi, hi, hal, t, ht, rfl⟩)), by intro v hv; cases hv⟩)
          · have : f = File.wal wal := by simpa using h1
            subst this
            exact List.mem_cons_self ..)
        hfl hy1 hal ⟨⟨id, xi.current, [wal], false⟩, by simp, rfl⟩
        (by
          intro c hc hcid
          rcases hmemck c hc with h1 | h1
          · exact absurd hcid (hidne c h1)
          · subst h1; exact ⟨rfl, rfl⟩)
        (fun t ht => ok.rcur t ht)
        (by
          intro j yj hj c hc w hw w' hw' hsm
          have hww : w = wal := by simpa using hw
          subst hww
          have hj : (s.insts.set i (ckptInst xi id w))[j]? = some yj := hj
          rcases get_set_inv hi hj with ⟨rfl, rfl⟩ | ⟨_, hj'⟩
          · rcases hmemck c hc with h1 | h1
            · have := hnew _ xi hi c h1 w' hw'
              rw [hsm] at this; cases this
            · subst h1; rfl
          · have := hnew j yj hj' c hc w' hw'
            rw [hsm] at this; cases this)
      exact hfin
    · simp at hstep

/-- a restart of an operator: a new instance, in a directory of its own, restored from a handle the job retains, while
no instance of the handle's lineage is running -/
theorem step_invC_openFrom {s s' : State} {r : KGRange} {g : Nat} {n : List KGRange} {w id dir : Nat} (inv : InvC s)
    (hdir : dir = s.insts.length) (hret : ∃ h0 ∈ s.retained, h0.writer = w ∧ h0.id = id)
    (hquiet : ∀ y ∈ s.insts, ¬ (y.life = .alive ∧ y.lin = linOf s [w]))
    (hnewest : ∀ h ∈ s.retained, ∀ y : Inst, s.insts[h.writer]? = some y → y.lin = linOf s [w] → h.id ≤ id)
    (hstep : step s (.openFrom r g n [w] id dir) = some s') : InvC s' := by
  obtain ⟨h0, hh0, hw0, hid0⟩ := hret
  obtain ⟨_, wi, hwi, _, hall0⟩ := inv.own h0 hh0
  rw [hw0] at hwi
  have hlinof : linOf s [w] = wi.lin := by simp [linOf, hwi]
  rw [hlinof] at hquiet hnewest
  have hwlt : w < s.insts.length := lt_of_get hwi
  have okw := inv.inst w wi hwi
  simp only [step, gather] at hstep
  cases hde : docEntry s w id with
  | none => simp [hde] at hstep
  | some c =>
    -- the document entry the restore reads is the one backing the handle
    have hcm : c ∈ wi.ckpts ∧ c.id = id := by
      unfold docEntry at hde
      rw [hwi] at hde
      simp only at hde
      split at hde
      · exact ⟨List.mem_of_find?_eq_some hde, by simpa using List.find?_some hde⟩
      · cases hde
    obtain ⟨hcm, hcid⟩ := hcm
    obtain ⟨htab, hwal⟩ := hall0 c hcm (hcid.trans hid0.symm)
    simp only [hde, List.append_nil, hlinof] at hstep
    injection hstep with hstep; subst hstep
    have hquiet' : ∀ (j : Nat) (y : Inst), s.insts[j]? = some y → y.life = .alive → y.lin ≠ wi.lin :=
      fun j y hj hl he => hquiet y (List.mem_of_getElem? hj) ⟨hl, he⟩
    have hnewmem : ∀ c', c' ∈ (restoredInst r g n c.tables c.wals id dir wi.lin).ckpts →
        c' = ⟨id, c.tables, c.wals, true⟩ := by
      intro c' hc'; simpa using hc'
    have hcmade : ∀ u ∈ uris c.tables, u ∈ wi.made := by
      intro u hu
      obtain ⟨t, ht, rfl⟩ := List.mem_map.mp hu
      exact okw.rck c hcm t ht
    exact {
      inst := by
        intro j x hj
        rcases get_append_new hj with h1 | ⟨rfl, rfl⟩
        · exact instC_frame (inv.inst j x h1) (fun k z hk => ⟨z, get_append_old hk, rfl⟩) (fun u hu => hu)
            (Nat.le_refl _)
        · exact {
            dir := hdir
            norel := by simp
            linle := by have := okw.linle; show wi.lin ≤ _; omega
            wuniq := by
              intro c1 hc1 c2 hc2 _ _ _ _ _
              rw [hnewmem c1 hc1, hnewmem c2 hc2]
            wd := by
              intro c1 hc1 v hv
              rw [hnewmem c1 hc1] at hv
              obtain ⟨a1, _, y, hy, hl⟩ := okw.wd c hcm v hv
              exact ⟨by omega, fun h => by omega, y, get_append_old hy, hl⟩
            rcur := fun t ht => List.mem_map.mpr ⟨t, ht, rfl⟩
            rck := by
              intro c1 hc1 t ht
              rw [hnewmem c1 hc1] at ht
              exact List.mem_map.mpr ⟨t, ht, rfl⟩
            rcr := by intro u hu; simp at hu
            lsub := fun t ht => List.mem_map.mpr ⟨t, ht, rfl⟩
            mused := fun u hu => okw.mused u (hcmade u hu)
            src := fun t ht => Or.inl ⟨⟨id, c.tables, c.wals, true⟩, by simp, rfl, ht⟩
            srcid := by
              intro c1 hc1 _
              rw [hnewmem c1 hc1] }
      safe := by
        intro f hf
        rcases (mem_neededN f).mp hf with ⟨j, x, hj, hl, t, ht, rfl⟩ | ⟨h, hh, hr⟩
        · rcases get_append_new hj with h1 | ⟨_, rfl⟩
          · exact inv.safe _ ((mem_neededN _).mpr (Or.inl ⟨j, x, h1, hl, t, ht, rfl⟩))
          · exact inv.safe _ ((mem_neededN _).mpr (Or.inr ⟨h0, hh0, Or.inl ⟨t, htab ▸ ht, rfl⟩⟩))
        · exact inv.safe _ ((mem_neededN _).mpr (Or.inr ⟨h, hh, hr⟩))
      own := by
        intro h hh
        obtain ⟨h1, x, hx, rest⟩ := inv.own h hh
        exact ⟨h1, x, get_append_old hx, rest⟩
      disj := by
        intro a b xa xb hne ha hb u hu hv
        rcases get_append_new ha with h1 | ⟨_, rfl⟩
        · rcases get_append_new hb with h2 | ⟨_, rfl⟩
          · exact inv.disj a b xa xb hne h1 h2 u hu hv
          · exact inv.disj a w xa wi hne h1 hwi u hu (hcmade u hv)
        · rcases get_append_new hb with h2 | ⟨_, rfl⟩
          · exact inv.disj w b wi xb hne hwi h2 u (hcmade u hu) hv
          · exact hne rfl
      onealive := by
        intro a b xa xb ha hb hla hlb hl
        rcases get_append_new ha with h1 | ⟨rfl, rfl⟩
        · rcases get_append_new hb with h2 | ⟨rfl, rfl⟩
          · exact inv.onealive a b xa xb h1 h2 hla hlb hl
          · exact absurd hl (hquiet' a xa h1 hla)
        · rcases get_append_new hb with h2 | ⟨h2, _⟩
          · exact absurd hl.symm (hquiet' b xb h2 hlb)
          · exact h2.symm
      newest := by
        intro a b xa xb ha hb hla hl
        rcases get_append_new ha with h1 | ⟨rfl, rfl⟩
        · rcases get_append_new hb with h2 | ⟨_, rfl⟩
          · exact inv.newest a b xa xb h1 h2 hla hl
          · exact absurd hl.symm (hquiet' a xa h1 hla)
        · rcases get_append_new hb with h2 | ⟨h2, _⟩
          · exact Nat.le_of_lt (lt_of_get h2)
          · exact Nat.le_of_eq h2
      old := by
        intro h hh a xa yw ha hla hyw hl hne
        have hhr := hh
        obtain ⟨_, xw, hxw, _⟩ := inv.own h hhr
        have hyw' : s.insts[h.writer]? = some yw := by
          rcases get_append_new hyw with h2 | ⟨h2, _⟩
          · exact h2
          · have := lt_of_get hxw; omega
        rcases get_append_new ha with h1 | ⟨_, rfl⟩
        · exact inv.old h hhr a xa yw h1 hla hyw' hl hne
        · -- the restarted instance was restored from the newest checkpoint the job retains of its lineage
          exact ⟨id, rfl, hnewest h hhr yw hyw' hl⟩
      mine := by
        intro a xa ha hla u hu h hh hm
        rcases get_append_new ha with h1 | ⟨_, rfl⟩
        · exact inv.mine a xa h1 hla u hu h hh hm
        · simp at hu
      winvx := by
        intro h hh j yj hj c1 hc1 w1 hw1 w2 hw2 hsm
        rcases get_append_new hj with h1 | ⟨_, rfl⟩
        · exact inv.winvx h hh j yj h1 c1 hc1 w1 hw1 w2 hw2 hsm
        · rw [hnewmem c1 hc1] at hw2 ⊢
          exact hcid.symm.trans (inv.winvx h hh w wi hwi c hcm w1 hw1 w2 hw2 hsm) }

theorem step_invC {s s' : State} {a : Act} (inv : InvC s) (hsc : inScopeC s a = true)
    (hstep : step s a = some s') : InvC s' := by
  cases a with
  | openFresh r g n dir =>
    simp only [inScopeC, beq_iff_eq] at hsc
    exact step_invC_openFresh inv hsc hstep
  | openFrom r g n ws id dir =>
    match ws with
    | [] => simp [inScopeC] at hsc
    | _ :: _ :: _ => simp [inScopeC] at hsc
    | [w] =>
      simp only [inScopeC, Bool.and_eq_true, beq_iff_eq, List.any_eq_true, List.all_eq_true] at hsc
      obtain ⟨hd, ⟨⟨h0, hh0, hw0, hid0⟩, hn⟩, hq⟩ := hsc
      refine step_invC_openFrom inv hd ⟨h0, hh0, hw0, hid0⟩ ?_ ?_ hstep
      · intro y hy ⟨hl, he⟩
        have := hq y hy
        simp [hl, he] at this
      · intro h hh y hy hl
        have := List.all_eq_true.mp hn h hh
        simpa [hy, hl] using this
  | release i => simp [inScopeC] at hsc
  | lateWrite i t => simp [inScopeC] at hsc
  | flush i t => exact step_invC_simple inv trivial hstep
  | compact i rm add => exact step_invC_simple inv trivial hstep
  | snap i => exact step_invC_simple inv trivial hstep
  | unsnap i k => exact step_invC_simple inv trivial hstep
  | crash i => exact step_invC_simple inv trivial hstep
  | redeployFailed i => exact step_invC_simple inv trivial hstep
  | jobDrop k => exact step_invC_jobDrop inv hstep
  | jobAbandon id => exact step_invC_jobAbandon inv hstep
  | ckpt i id wal => exact step_invC_ckpt inv hstep
  | retain i ids => exact step_invC_retain inv (by simpa [inScopeC] using hsc) hstep
  | collect i u answers => exact step_invC_collect inv (by simpa [inScopeC] using hsc) hstep

theorem runC_invC {as : List Act} : ∀ {s s' : State}, InvC s → runC s as = some s' → InvC s' := by
  induction as with
  | nil => intro s s' inv h; simp only [runC] at h; injection h with h; subst h; exact inv
  | cons a as ih =>
    intro s s' inv h
    simp only [runC] at h
    split at h
    · rename_i hsc
      split at h
      · rename_i s1 hstep
        exact ih (step_invC inv hsc hstep) h
      · simp at h
    · simp at h

end Rxn.Files
