import RxnModel.Model.KeyedState
import RxnModel.Base.BytesOrder
/-! The sorted-map specification of the DKV used by C03: `put`/`del`/`get` laws (helper lemmas). Core-only. -/
namespace Rxn.KeyedState
open Rxn Bytes

/-- strictly ascending keys -/
def Sorted (kv : KV) : Prop := kv.Pairwise (fun a b => cmp a.1 b.1 = .lt)

namespace KV

theorem mem_put {kv : KV} {k v : Bytes} {x : Bytes × Bytes} (h : x ∈ put kv k v) : x = (k, v) ∨ x ∈ kv := by
  induction kv with
  | nil => simp [put] at h; exact Or.inl h
  | cons e rest ih =>
    obtain ⟨k0, v0⟩ := e
    simp only [put] at h
    split at h
    · simp only [List.mem_cons] at h ⊢; exact h
    · simp only [List.mem_cons] at h ⊢
      rcases h with h | h
      · exact Or.inl h
      · exact Or.inr (Or.inr h)
    · simp only [List.mem_cons] at h ⊢
      rcases h with h | h
      · exact Or.inr (Or.inl h)
      · rcases ih h with h | h
        · exact Or.inl h
        · exact Or.inr (Or.inr h)

theorem mem_del {kv : KV} {k : Bytes} {x : Bytes × Bytes} (h : x ∈ del kv k) : x ∈ kv := by
  induction kv with
  | nil => simp [del] at h
  | cons e rest ih =>
    obtain ⟨k0, v0⟩ := e
    simp only [del] at h
    split at h
    · exact h
    · exact List.mem_cons_of_mem _ h
    · simp only [List.mem_cons] at h ⊢
      rcases h with h | h
      · exact Or.inl h
      · exact Or.inr (ih h)

theorem put_sorted {kv : KV} (k v : Bytes) (hs : Sorted kv) : Sorted (put kv k v) := by
  induction kv with
  | nil => simp [put, Sorted]
  | cons e rest ih =>
    obtain ⟨k0, v0⟩ := e
    unfold Sorted at hs ⊢
    rw [List.pairwise_cons] at hs
    obtain ⟨h0, hr⟩ := hs
    simp only [put]
    split
    · rename_i hc
      rw [List.pairwise_cons]
      refine ⟨?_, List.pairwise_cons.mpr ⟨h0, hr⟩⟩
      intro x hx
      rcases List.mem_cons.mp hx with hx | hx
      · subst hx; exact hc
      · exact cmp_lt_trans hc (h0 x hx)
    · rename_i hc
      have : k = k0 := cmp_eq_iff.mp hc
      subst this
      exact List.pairwise_cons.mpr ⟨h0, hr⟩
    · rename_i hc
      rw [List.pairwise_cons]
      refine ⟨?_, ih hr⟩
      intro x hx
      rcases mem_put hx with hx | hx
      · subst hx; exact cmp_gt_iff_lt.mp hc
      · exact h0 x hx

theorem del_sorted {kv : KV} (k : Bytes) (hs : Sorted kv) : Sorted (del kv k) := by
  induction kv with
  | nil => simp [del, Sorted]
  | cons e rest ih =>
    obtain ⟨k0, v0⟩ := e
    unfold Sorted at hs ⊢
    have hs' := hs
    rw [List.pairwise_cons] at hs
    obtain ⟨h0, hr⟩ := hs
    simp only [del]
    split
    · exact hs'
    · exact hr
    · rw [List.pairwise_cons]
      exact ⟨fun x hx => h0 x (mem_del hx), ih hr⟩

theorem write_sorted {kv : KV} (w : Bytes × Option Bytes) (hs : Sorted kv) : Sorted (write kv w) := by
  unfold write
  split
  · exact put_sorted _ _ hs
  · exact del_sorted _ hs

theorem get_none_of_lt {kv : KV} {k : Bytes} (h : ∀ e ∈ kv, cmp k e.1 = .lt) : get kv k = none := by
  induction kv with
  | nil => rfl
  | cons e rest ih =>
    obtain ⟨k0, v0⟩ := e
    simp only [get]
    have h0 := h (k0, v0) (List.mem_cons_self)
    have hne : k0 ≠ k := by
      intro e; subst e; simp at h0
    simp only [hne, if_false]
    exact ih (fun e he => h e (List.mem_cons_of_mem _ he))

theorem get_put (kv : KV) (k v k' : Bytes) : get (put kv k v) k' = if k = k' then some v else get kv k' := by
  induction kv with
  | nil => simp [put, get]
  | cons e rest ih =>
    obtain ⟨k0, v0⟩ := e
    simp only [put]
    split
    · simp [get]
    · rename_i hc
      have : k = k0 := cmp_eq_iff.mp hc
      subst this
      simp only [get]
      split <;> rfl
    · rename_i hc
      simp only [get, ih]
      by_cases h1 : k0 = k'
      · subst h1
        have : k ≠ k0 := by intro e; subst e; simp at hc
        simp [this]
      · simp [h1]

theorem get_del {kv : KV} (k k' : Bytes) (hs : Sorted kv) : get (del kv k) k' = if k = k' then none else get kv k' := by
  induction kv with
  | nil => simp [del, get]
  | cons e rest ih =>
    obtain ⟨k0, v0⟩ := e
    unfold Sorted at hs
    have hs' := hs
    rw [List.pairwise_cons] at hs
    obtain ⟨h0, hr⟩ := hs
    simp only [del]
    split
    · rename_i hc
      by_cases hk : k = k'
      · subst hk
        simp only [if_true]
        apply get_none_of_lt
        intro x hx
        rcases List.mem_cons.mp hx with hx | hx
        · subst hx; exact hc
        · exact cmp_lt_trans hc (h0 x hx)
      · simp [hk]
    · rename_i hc
      have : k = k0 := cmp_eq_iff.mp hc
      subst this
      by_cases hk : k = k'
      · subst hk
        simp only [if_true]
        exact get_none_of_lt (fun x hx => h0 x hx)
      · simp [get, hk]
    · rename_i hc
      simp only [get, ih hr]
      by_cases h1 : k0 = k'
      · subst h1
        have : k ≠ k0 := by intro e; subst e; simp at hc
        simp [this]
      · simp [h1]

theorem get_write {kv : KV} (w : Bytes × Option Bytes) (k' : Bytes) (hs : Sorted kv) :
    get (write kv w) k' = if w.1 = k' then w.2 else get kv k' := by
  unfold write
  split
  · rename_i v hv; rw [get_put, hv]
  · rename_i hv; rw [get_del _ _ hs, hv]

theorem mem_iff_get {kv : KV} (hs : Sorted kv) (k v : Bytes) : (k, v) ∈ kv ↔ get kv k = some v := by
  induction kv with
  | nil => simp [get]
  | cons e rest ih =>
    obtain ⟨k0, v0⟩ := e
    unfold Sorted at hs
    rw [List.pairwise_cons] at hs
    obtain ⟨h0, hr⟩ := hs
    simp only [get, List.mem_cons, Prod.mk.injEq]
    by_cases hk : k0 = k
    · subst hk
      simp only [if_true, Option.some.injEq, true_and]
      constructor
      · rintro (h | h)
        · exact h.symm
        · have := h0 _ h; simp at this
      · intro h; exact Or.inl h.symm
    · simp only [hk, if_false]
      rw [← ih hr]
      constructor
      · rintro (h | h)
        · exact absurd h.1.symm hk
        · exact h
      · intro h; exact Or.inr h

end KV

/-- the last write to `k` in `ws`, or `init` when there is none -/
def lastW (ws : List (Bytes × Option Bytes)) (k : Bytes) (init : Option Bytes) : Option Bytes :=
  ws.foldl (fun cur w => if w.1 = k then w.2 else cur) init

theorem foldl_write_sorted (ws : List (Bytes × Option Bytes)) : ∀ {kv : KV}, Sorted kv → Sorted (ws.foldl KV.write kv) := by
  induction ws with
  | nil => intro kv h; exact h
  | cons w ws ih => intro kv h; exact ih (KV.write_sorted w h)

theorem get_foldl_write (ws : List (Bytes × Option Bytes)) (k : Bytes) :
    ∀ {kv : KV}, Sorted kv → KV.get (ws.foldl KV.write kv) k = lastW ws k (KV.get kv k) := by
  induction ws with
  | nil => intro kv _; rfl
  | cons w ws ih =>
    intro kv h
    simp only [List.foldl_cons, lastW]
    rw [ih (KV.write_sorted w h), KV.get_write w k h]
    rfl

theorem lastW_append (a b : List (Bytes × Option Bytes)) (k : Bytes) (init : Option Bytes) :
    lastW (a ++ b) k init = lastW b k (lastW a k init) := by
  simp [lastW, List.foldl_append]

/-- a value that is not the initial one was written by some write to that key -/
theorem lastW_some_mem (ws : List (Bytes × Option Bytes)) (k v : Bytes) :
    ∀ init, lastW ws k init = some v → init = some v ∨ ∃ w ∈ ws, w.1 = k := by
  induction ws with
  | nil => intro init h; exact Or.inl h
  | cons w ws ih =>
    intro init h
    simp only [lastW, List.foldl_cons] at h
    by_cases hw : w.1 = k
    · exact Or.inr ⟨w, List.mem_cons_self, hw⟩
    · simp only [hw, if_false] at h
      rcases ih init h with h | ⟨w', hm, hk⟩
      · exact Or.inl h
      · exact Or.inr ⟨w', List.mem_cons_of_mem _ hm, hk⟩

end Rxn.KeyedState
