import RxnModel.Model.Pipeline
/-!
# Helper lemmas for C01 (whole-pipeline exactly-once): list vocabulary

`idxOf`, `projI`, `preProj`, `countBar`, `routed`, `foldLog`, `dropBar`, `newest`.
The inductive invariant is in `Proofs/PipelineInv.lean`.
-/
namespace Rxn.Pipeline

/-! ## idxOf -/

@[simp] theorem idxOf_nil (sp : Nat) : idxOf sp [] = [] := rfl

theorem idxOf_append (sp : Nat) (l m : List (Nat × Nat)) : idxOf sp (l ++ m) = idxOf sp l ++ idxOf sp m := by
  simp [idxOf, List.filterMap_append]

theorem idxOf_single (sp a b : Nat) : idxOf sp [(a, b)] = if a = sp then [b] else [] := by
  by_cases h : a = sp <;> simp [idxOf, h]

theorem idxOf_snoc (sp a b : Nat) (l : List (Nat × Nat)) :
    idxOf sp (l ++ [(a, b)]) = idxOf sp l ++ (if a = sp then [b] else []) := by
  rw [idxOf_append, idxOf_single]

theorem mem_idxOf {sp i : Nat} {l : List (Nat × Nat)} : i ∈ idxOf sp l ↔ (sp, i) ∈ l := by
  induction l with
  | nil => simp
  | cons p t ih =>
    obtain ⟨a, b⟩ := p
    have : idxOf sp ((a, b) :: t) = (if a = sp then [b] else []) ++ idxOf sp t := by
      by_cases h : a = sp <;> simp [idxOf, h]
    rw [this, List.mem_append, ih]
    by_cases h : a = sp
    · subst h
      simp
    · have h' : ¬ sp = a := fun e => h e.symm
      simp [h, h']

theorem count_pair (sp i : Nat) (l : List (Nat × Nat)) : l.count (sp, i) = (idxOf sp l).count i := by
  induction l with
  | nil => simp
  | cons p t ih =>
    obtain ⟨a, b⟩ := p
    have : idxOf sp ((a, b) :: t) = (if a = sp then [b] else []) ++ idxOf sp t := by
      by_cases h : a = sp <;> simp [idxOf, h]
    rw [this, List.count_append, List.count_cons, ih]
    by_cases h : a = sp
    · subst h
      by_cases hb : b = i
      · subst hb; simp; omega
      · simp [hb]
    · simp [h]

/-! ## projI / preProj / countBar -/

@[simp] theorem projI_nil (k sp : Nat) : projI k sp [] = [] := rfl

theorem projI_append (k sp : Nat) (q m : List Item) : projI k sp (q ++ m) = projI k sp q ++ projI k sp m := by
  simp [projI, List.filterMap_append]

theorem projI_cons_ev (k sp : Nat) (e : Entry) (q : List Item) :
    projI k sp (Item.ev e :: q) = (if e.key = k ∧ e.split = sp then [e.idx] else []) ++ projI k sp q := by
  by_cases h : e.key = k ∧ e.split = sp <;> simp [projI, Item.proj, h]

theorem projI_cons_bar (k sp : Nat) (q : List Item) : projI k sp (Item.bar :: q) = projI k sp q := by
  simp only [projI, List.filterMap_cons, Item.proj]

theorem projI_snoc_ev (k sp : Nat) (e : Entry) (q : List Item) :
    projI k sp (q ++ [Item.ev e]) = projI k sp q ++ (if e.key = k ∧ e.split = sp then [e.idx] else []) := by
  rw [projI_append, projI_cons_ev]; simp

theorem projI_snoc_bar (k sp : Nat) (q : List Item) : projI k sp (q ++ [Item.bar]) = projI k sp q := by
  rw [projI_append, projI_cons_bar]; simp

theorem projI_dropBar (k sp : Nat) (q : List Item) : projI k sp (dropBar q) = projI k sp q := by
  cases q with
  | nil => rfl
  | cons x t => cases x <;> simp [dropBar, projI_cons_bar]

theorem mem_of_mem_dropBar {x : Item} {q : List Item} (h : x ∈ dropBar q) : x ∈ q := by
  cases q with
  | nil => exact h
  | cons y t =>
    cases y with
    | ev e => exact h
    | bar => exact List.mem_cons_of_mem _ h

theorem projI_eq_nil_of_no_ev (k sp : Nat) (q : List Item) (h : ∀ e, Item.ev e ∉ q) : projI k sp q = [] := by
  induction q with
  | nil => rfl
  | cons x t ih =>
    cases x with
    | ev e => exact absurd List.mem_cons_self (h e)
    | bar =>
      rw [projI_cons_bar]
      exact ih fun e he => h e (List.mem_cons_of_mem _ he)

@[simp] theorem countBar_nil : countBar [] = 0 := rfl

theorem countBar_append (q m : List Item) : countBar (q ++ m) = countBar q + countBar m := by
  simp [countBar, List.count_append]

theorem countBar_cons_ev (e : Entry) (q : List Item) : countBar (Item.ev e :: q) = countBar q := by
  simp [countBar]

theorem countBar_cons_bar (q : List Item) : countBar (Item.bar :: q) = countBar q + 1 := by
  simp [countBar]

theorem countBar_snoc_ev (e : Entry) (q : List Item) : countBar (q ++ [Item.ev e]) = countBar q := by
  rw [countBar_append, countBar_cons_ev]; simp

theorem countBar_snoc_bar (q : List Item) : countBar (q ++ [Item.bar]) = countBar q + 1 := by
  rw [countBar_append, countBar_cons_bar]; simp

/-- before the first barrier nothing appended behind it is visible -/
theorem preProj_append_of_bar (k sp : Nat) (q m : List Item) (h : 1 ≤ countBar q) :
    preProj k sp (q ++ m) = preProj k sp q := by
  induction q with
  | nil => simp at h
  | cons x t ih =>
    cases x with
    | bar => simp [preProj]
    | ev e =>
      rw [countBar_cons_ev] at h
      simp [preProj, ih h]

/-- with no barrier on the channel, the part before the barrier appended now is everything -/
theorem preProj_snoc_bar_nobar (k sp : Nat) (q : List Item) (h : countBar q = 0) :
    preProj k sp (q ++ [Item.bar]) = projI k sp q := by
  induction q with
  | nil => simp [preProj]
  | cons x t ih =>
    cases x with
    | bar => rw [countBar_cons_bar] at h; omega
    | ev e =>
      rw [countBar_cons_ev] at h
      simp [preProj, projI_cons_ev, ih h]

theorem preProj_cons_ev (k sp : Nat) (e : Entry) (q : List Item) :
    preProj k sp (Item.ev e :: q) = (if e.key = k ∧ e.split = sp then [e.idx] else []) ++ preProj k sp q := rfl

theorem preProj_cons_bar (k sp : Nat) (q : List Item) : preProj k sp (Item.bar :: q) = [] := rfl

theorem head_bar_cases {q : List Item} (h : (q.head? == some Item.bar) = true) : ∃ t, q = Item.bar :: t := by
  cases q with
  | nil => simp at h
  | cons x t =>
    cases x with
    | bar => exact ⟨t, rfl⟩
    | ev e => simp at h

/-! ## routed -/

@[simp] theorem routed_zero {σ : Type} (cfg : Cfg σ) (k sp : Nat) : routed cfg k sp 0 = [] := rfl

theorem routed_succ {σ : Type} (cfg : Cfg σ) (k sp c : Nat) :
    routed cfg k sp (c + 1) = routed cfg k sp c ++ (if cfg.key sp c = k then [c] else []) := by
  by_cases h : cfg.key sp c = k <;> simp [routed, List.range_succ, List.filter_append, h]

theorem mem_routed {σ : Type} (cfg : Cfg σ) (k sp c i : Nat) :
    i ∈ routed cfg k sp c ↔ i < c ∧ cfg.key sp i = k := by
  simp [routed]

theorem count_routed {σ : Type} (cfg : Cfg σ) (k sp c i : Nat) :
    (routed cfg k sp c).count i = if i < c ∧ cfg.key sp i = k then 1 else 0 := by
  induction c with
  | zero => simp
  | succ c ih =>
    rw [routed_succ, List.count_append, ih]
    by_cases hk : cfg.key sp c = k
    · by_cases hi : c = i
      · subst hi
        simp [hk]
      · have hi' : ¬ i = c := fun e => hi e.symm
        have : (i < c + 1) ↔ i < c := by omega
        simp [hk, hi, this]
    · by_cases hi : c = i
      · subst hi
        simp [hk]
      · have : (i < c + 1) ↔ i < c := by omega
        simp [hk, this]

/-! ## foldLog -/

@[simp] theorem foldLog_nil {σ : Type} (cfg : Cfg σ) (k : Nat) : foldLog cfg k [] = cfg.init := rfl

theorem foldLog_snoc {σ : Type} (cfg : Cfg σ) (k a b : Nat) (l : List (Nat × Nat)) :
    foldLog cfg k (l ++ [(a, b)]) = cfg.h (foldLog cfg k l) ⟨k, a, b⟩ := by
  simp [foldLog, List.foldl_append]

/-! ## newest -/

theorem newest_mem {σ : Type} {l : List (Ckpt σ)} {c : Ckpt σ} (h : newest l = some c) : c ∈ l := by
  induction l generalizing c with
  | nil => simp [newest] at h
  | cons x t ih =>
    simp only [newest] at h
    split at h
    · cases h; exact List.mem_cons_self
    · rename_i d hd
      split at h
      · cases h; exact List.mem_cons_self
      · cases h; exact List.mem_cons_of_mem _ (ih hd)

/-! ## Pend.complete -/

theorem complete_iff {σ : Type} (p : Pend σ) (n : Nat) :
    p.complete n = true ↔ (∀ i, i < n → i ∈ p.rAck) ∧ (∀ i, i < n → i ∈ p.oAck) := by
  simp [Pend.complete, List.all_eq_true]

end Rxn.Pipeline
