import RxnModel.Proofs.RescaleInv
import RxnModel.Proofs.CkptInv
/-!
Bridge between C08 and C06: the document a restoring instance reads from a checkpoint captured by `DB.Checkpoint`
(`Ckpt.capture`, C08) is a `Rescale.Ckpt`, and `ckptAnswer` of it is what the checkpointing instance answered at
the `Checkpoint` call; C07's invariant of that instance supplies the `sorted`/`newer` hypotheses of `SrcOk`.
-/
namespace Rxn.Rescale
open Rxn Lsm

def recWal (r : Wal.Rec) : WalEntry := ⟨r.key, r.del, r.val⟩

/-- what `LoadCheckpointList` / the WAL reader obtain from a checkpoint record of C08: its level list and the logged
records after `Handle.After` (`walRead_spec`) -/
def ofCapture (c : Ckpt.Ckpt) : Ckpt :=
  ⟨c.levels, (c.recs.filter (fun r => decide (c.after < r.seq))).map recWal⟩

theorem walLast_lastW (ws : List Wal.Rec) (k : Bytes) :
    (walLast (ws.map recWal) k).map (fun w => (w.del, w.val)) =
      (Ckpt.lastW none ws k).map (fun e => (e.del, e.val)) := by
  induction ws with
  | nil => rfl
  | cons w ws ih =>
    rw [List.map_cons, walLast_cons]
    have hl : Ckpt.lastW none (w :: ws) k =
        Ckpt.lastW (if w.key = k then some (Ckpt.recEntry w) else none) ws k := by
      simp [Ckpt.lastW]
    rw [hl, Ckpt.lastW_init]
    by_cases hk : w.key = k
    · have hk' : (recWal w).key = k := hk
      simp only [hk', hk, if_true]
      cases hw : walLast (ws.map recWal) k with
      | none =>
        rw [hw] at ih
        cases hl2 : Ckpt.lastW none ws k with
        | none => simp [recWal, Ckpt.recEntry]
        | some e => rw [hl2] at ih; simp at ih
      | some x =>
        rw [hw] at ih
        cases hl2 : Ckpt.lastW none ws k with
        | none => rw [hl2] at ih; simp at ih
        | some e => rw [hl2] at ih; simpa using ih
    · have hk' : ¬ (recWal w).key = k := hk
      simp only [hk', hk, if_false]
      rw [ih]
      cases Ckpt.lastW none ws k <;> rfl

/-- **`ckptAnswer` is the checkpointing instance's answer at the `Checkpoint` call** (C08 state, any reachable one) -/
theorem ckptAnswer_capture (s₁ : Ckpt.State) (hi : Ckpt.Inv s₁) (id : Nat) (k : Bytes) :
    ckptAnswer (ofCapture (Ckpt.capture s₁ id)) k = answer (Lsm.get s₁.db k) := by
  obtain ⟨ps, hm, _, hfl⟩ := hi.parts
  rw [Ckpt.get_parts s₁.db ps hm k, hfl]
  unfold ckptAnswer ofCapture Ckpt.capture
  simp only
  have h := walLast_lastW (s₁.wal.entries.filter (fun r => decide (s₁.latest < r.seq))) k
  cases hw : walLast ((s₁.wal.entries.filter (fun r => decide (s₁.latest < r.seq))).map recWal) k with
  | none =>
    rw [hw] at h
    cases hl : Ckpt.lastW none (s₁.wal.entries.filter (fun r => decide (s₁.latest < r.seq))) k with
    | none => rfl
    | some e => rw [hl] at h; simp at h
  | some w =>
    rw [hw] at h
    cases hl : Ckpt.lastW none (s₁.wal.entries.filter (fun r => decide (s₁.latest < r.seq))) k with
    | none => rw [hl] at h; simp at h
    | some e =>
      rw [hl] at h
      simp only [Option.map_some, Option.some.injEq, Prod.mk.injEq] at h
      simp only [answer, h.1, h.2]

/-- C07's invariant of the checkpointing instance gives the `sorted` and `newer` parts of `SrcOk`; what remains to be
assumed of a source is stated explicitly: its keys lie in its own range (C05 routing, first generation — the D37/D47
exclusion), tables are non-empty (D31), deeper levels are ascending (C18's layout validity; `Lsm.Inv` itself only has
range uniqueness) and the level count. -/
theorem srcOk_of_inv (r : KGRange) (s : Lsm.State) (m : Spec) (hinv : Lsm.Inv s m) (wal : List WalEntry) (n : Nat)
    (hkeys : ∀ t ∈ s.levels.flatten, ∀ e ∈ t.run, 2 ≤ e.key.length ∧ r.includes (kgOf e.key) = true)
    (hne : ∀ t ∈ s.levels.flatten, t.run ≠ [])
    (hdeep : ∀ i l, 1 ≤ i → s.levels[i]? = some l → LevelValid l)
    (hwal : ∀ w ∈ wal, r.includes (kgOf w.key) = true) (hn : s.levels.length = n) :
    SrcOk n (r, ⟨s.levels, wal⟩) := by
  refine ⟨hkeys, hne, ?_, hdeep, ?_, hwal, hn⟩
  · intro t ht
    apply hinv.sorted
    simp only [containers, List.mem_append, List.mem_map]
    exact Or.inr ⟨t, (readOrder_mem _ t).mpr ht, rfl⟩
  · have := hinv.newer
    unfold containers at this
    exact (newerAbove_append.mp this).2.1

end Rxn.Rescale
