import RxnModel.Model.KeyedStateLsm
import RxnModel.Proofs.KeyedState
/-! The LSM's scan, as characterised by C07, equals the scan of the sorted-map specification that C03's model uses
(helper lemmas for `C03.getState_over_lsm`). -/
namespace Rxn.KeyedState
open Rxn Bytes

/-- two strictly ascending lists with the same members are equal -/
theorem sorted_ext : ∀ (l₁ l₂ : KV), Sorted l₁ → Sorted l₂ → (∀ x, x ∈ l₁ ↔ x ∈ l₂) → l₁ = l₂ := by
  intro l₁
  induction l₁ with
  | nil =>
    intro l₂ _ _ h
    cases l₂ with
    | nil => rfl
    | cons y ys => exact absurd ((h y).mpr List.mem_cons_self) (by simp)
  | cons x xs ih =>
    intro l₂ h1 h2 h
    cases l₂ with
    | nil => exact absurd ((h x).mp List.mem_cons_self) (by simp)
    | cons y ys =>
      unfold Sorted at h1 h2
      rw [List.pairwise_cons] at h1 h2
      have hxy : x = y := by
        rcases List.mem_cons.mp ((h x).mp List.mem_cons_self) with e | hx
        · exact e
        · rcases List.mem_cons.mp ((h y).mpr List.mem_cons_self) with e | hy
          · exact e.symm
          · have a := h2.1 x hx
            have b := h1.1 y hy
            have := cmp_lt_trans a b
            simp at this
      subst hxy
      congr 1
      apply ih ys h1.2 h2.2
      intro z
      constructor
      · intro hz
        rcases List.mem_cons.mp ((h z).mp (List.mem_cons_of_mem _ hz)) with e | hz'
        · subst e; have := h1.1 z hz; simp at this
        · exact hz'
      · intro hz
        rcases List.mem_cons.mp ((h z).mpr (List.mem_cons_of_mem _ hz)) with e | hz'
        · subst e; have := h2.1 z hz; simp at this
        · exact hz'

theorem lookup_key {r : Lsm.Run} {k : Bytes} {e : Lsm.Entry} (h : Lsm.Run.lookup r k = some e) : e.key = k := by
  induction r with
  | nil => simp [Lsm.Run.lookup] at h
  | cons x xs ih =>
    simp only [Lsm.Run.lookup] at h
    split at h
    · rename_i hk; cases h; exact hk
    · exact ih h

/-- the specification map of C07 after a history is "last foreground write wins" -/
theorem answer_spec (k : Bytes) : ∀ (as : List Lsm.Act) (s : Lsm.State) (m : Lsm.Spec) (s' : Lsm.State) (m' : Lsm.Spec),
    Lsm.runBoth s m as = some (s', m') →
    Lsm.answer (Lsm.Spec.get m' k) = lastW (writesOf as) k (Lsm.answer (Lsm.Spec.get m k)) := by
  intro as
  induction as with
  | nil => intro s m s' m' h; simp only [Lsm.runBoth, Option.some.injEq, Prod.mk.injEq] at h; rw [← h.2]; rfl
  | cons a as ih =>
    intro s m s' m' h
    simp only [Lsm.runBoth] at h
    split at h
    · rename_i s1 hs1
      have := ih s1 _ s' m' h
      rw [this]
      cases a with
      | put k0 v =>
        simp only [writesOf, lastW, List.foldl_cons, Lsm.specStep, Lsm.Spec.get, Lsm.Run.lookup]
        by_cases hk : k0 = k
        · simp [hk, Lsm.answer]
        · simp [hk]
      | del k0 =>
        simp only [writesOf, lastW, List.foldl_cons, Lsm.specStep, Lsm.Spec.get, Lsm.Run.lookup]
        by_cases hk : k0 = k
        · simp [hk, Lsm.answer]
        · simp [hk]
      | rotate => rfl
      | flushBegin n => rfl
      | flushCommit => rfl
      | flushAbort => rfl
      | compact rm lvl add => rfl
      | getA k0 => rfl
      | getB => rfl
    · cases h

/-- any run with C07's scan characterisation is the scan of the sorted-map specification after the same writes -/
theorem run_eq_kv_scan (kgc : Nat) (acts : List Act) (m : Lsm.Spec) (p : Bytes) (r : Lsm.Run)
    (hm : ∀ k, Lsm.answer (Lsm.Spec.get m k) = lastW (acts.flatMap (Act.rawWrites kgc)) k none)
    (hs : r.Pairwise (fun a b => Bytes.lt a.key b.key = true))
    (hr : ∀ e, e ∈ r ↔ (Lsm.Spec.get m e.key = some e ∧ e.del = false ∧ Bytes.hasPrefix e.key p = true)) :
    kvOfRun r = (run kgc [] acts).scan p := by
  apply sorted_ext
  · unfold Sorted kvOfRun
    rw [List.pairwise_map]
    exact hs.imp (fun h => by simpa [Bytes.lt] using h)
  · exact List.Pairwise.filter _ (run_sorted kgc acts)
  · intro x
    obtain ⟨k, v⟩ := x
    have hkv : (k, v) ∈ (run kgc [] acts).scan p ↔
        (lastW (acts.flatMap (Act.rawWrites kgc)) k none = some v ∧ Bytes.hasPrefix k p = true) := by
      simp only [KV.scan, List.mem_filter]
      rw [KV.mem_iff_get (run_sorted kgc acts), run_eq, get_foldl_write _ _ List.Pairwise.nil]
      rfl
    rw [hkv, ← hm k]
    simp only [kvOfRun, List.mem_map, Prod.mk.injEq]
    constructor
    · rintro ⟨e, he, rfl, rfl⟩
      obtain ⟨h1, h2, h3⟩ := (hr e).mp he
      exact ⟨by simp [h1, Lsm.answer, h2], h3⟩
    · rintro ⟨ha, hp⟩
      cases hg : Lsm.Spec.get m k with
      | none => simp [hg, Lsm.answer] at ha
      | some e =>
        have hek := lookup_key hg
        simp only [hg, Lsm.answer] at ha
        by_cases hd : e.del = true
        · simp [hd] at ha
        · simp only [hd] at ha
          refine ⟨e, (hr e).mpr ⟨by rw [hek]; exact hg, by simpa using hd, by rw [hek]; exact hp⟩, hek, ?_⟩
          simpa using ha

end Rxn.KeyedState
