import RxnModel.Model.Assembly
import RxnModel.Proofs.KeySpace
/-! Helper lemmas for the deployment-level theorems of C05 (`Model/Assembly.lean`). -/
namespace Rxn.KeySpace

theorem fillRangeA_toList (i : Nat) : ∀ (c : Nat) (tbl : Array Nat) (j : Nat),
    (fillRangeA tbl i c j).toList = fillRange tbl.toList i c j := by
  intro c
  induction c with
  | zero => intro tbl j; rfl
  | succ c ih => intro tbl j; simp only [fillRangeA, fillRange]; rw [ih, Array.toList_setIfInBounds]

theorem fillAllA_toList : ∀ (rs : List KGRange) (tbl : Array Nat) (i : Nat),
    (fillAllA tbl i rs).toList = fillAll tbl.toList i rs := by
  intro rs
  induction rs with
  | nil => intro tbl i; rfl
  | cons r rs ih => intro tbl i; simp only [fillAllA, fillAll]; rw [ih, fillRangeA_toList]

theorem lookupTableA_toList (kgc n : Nat) : (lookupTableA kgc n).toList = lookupTable kgc n := by
  unfold lookupTableA lookupTable
  rw [fillAllA_toList, Array.toList_replicate]

/-- key groups of consecutive ranges, concatenated, are the consecutive numbers -/
theorem map_keyGroups (f : Nat → Nat) (hf : ∀ i j, i ≤ j → f i ≤ f j) : ∀ (len i : Nat),
    ((List.range' i len).map (fun j => (⟨f j, f (j + 1)⟩ : KGRange))).flatMap KGRange.keyGroups =
      List.range' (f i) (f (i + len) - f i) := by
  intro len
  induction len with
  | zero => intro i; simp
  | succ len ih =>
    intro i
    simp only [List.range'_succ, List.map_cons, List.flatMap_cons]
    rw [ih (i + 1)]
    simp only [KGRange.keyGroups, KGRange.size, Gen.kgSize]
    have h1 := hf i (i + 1) (by omega)
    have h2 := hf (i + 1) (i + 1 + len) (by omega)
    have e1 : i + (len + 1) = i + 1 + len := by omega
    have e2 : f (i + 1 + len) - f i = (f (i + 1) - f i) + (f (i + 1 + len) - f (i + 1)) := by omega
    rw [e1, e2, ← List.range'_append]
    congr 2
    omega

end Rxn.KeySpace

namespace Rxn.Keys

/-- `KeyGroupFromBytes` reads back what `PutBytes` wrote -/
theorem beNat_u16be (g : Nat) (hg : g < 65536) (rest : Bytes) :
    Bytes.beNat ((Bytes.u16be g ++ rest).take 2) = g := by
  simp [Bytes.u16be, Bytes.beNat]
  omega

end Rxn.Keys

namespace Rxn.Assembly
open KeySpace

theorem setKey_nodup (keys : List NodeId) (id : NodeId) (h : keys.Nodup) : (setKey keys id).Nodup := by
  unfold setKey
  split
  · exact h
  · rename_i hc
    rw [List.nodup_append]
    refine ⟨h, by simp, ?_⟩
    intro a ha b hb
    simp at hb; subst hb
    intro heq; subst heq
    exact hc (by simpa using ha)

theorem step_nodup (r : Reg) (s : RegStep) (h : r.ops.Nodup ∧ r.srs.Nodup) : (r.step s).ops.Nodup ∧ (r.step s).srs.Nodup := by
  cases s <;> simp only [Reg.step]
  · exact ⟨setKey_nodup _ _ h.1, h.2⟩
  · exact ⟨h.1, setKey_nodup _ _ h.2⟩
  · exact ⟨h.1.erase _, h.2⟩
  · exact ⟨h.1, h.2.erase _⟩

theorem foldl_nodup : ∀ (steps : List RegStep) (r : Reg), (r.ops.Nodup ∧ r.srs.Nodup) →
    ((steps.foldl Reg.step r).ops.Nodup ∧ (steps.foldl Reg.step r).srs.Nodup) := by
  intro steps
  induction steps with
  | nil => intro r h; exact h
  | cons s ss ih => intro r h; exact ih _ (step_nodup r s h)

theorem run_nodup (steps : List RegStep) : (Reg.run steps).ops.Nodup ∧ (Reg.run steps).srs.Nodup :=
  foldl_nodup steps {} ⟨List.nodup_nil, List.nodup_nil⟩

theorem sorted_take_nodup (keys : List NodeId) (n : Nat) (h : keys.Nodup) : ((sortedIds keys).take n).Nodup :=
  List.Nodup.sublist (List.take_sublist _ _) ((List.mergeSort_perm keys _).nodup_iff.mpr h)

theorem sorted_take_length (keys : List NodeId) (n : Nat) (h : n ≤ keys.length) : ((sortedIds keys).take n).length = n := by
  simp [sortedIds, List.length_mergeSort]; omega

theorem sorted_take_subset (keys : List NodeId) (n : Nat) : ∀ x ∈ (sortedIds keys).take n, x ∈ keys := by
  intro x hx
  exact (List.mergeSort_perm keys _).mem_iff.mp (List.mem_of_mem_take hx)

end Rxn.Assembly
