import RxnModel.Model.Sst
import RxnModel.Base.BytesOrder
/-! Helper lemmas for C17 (SST part): field codecs, entry codec, scans, bloom, index search, WriteRun. -/
namespace Rxn.Sst
open Rxn

/-! ### fields -/

theorem leBytes_length (w n : Nat) : (leBytes w n).length = w := by
  induction w generalizing n with
  | zero => rfl
  | succ w ih => simp [leBytes, ih]

theorem leVal_leBytes (w n : Nat) (h : n < 256 ^ w) : leVal (leBytes w n) = n := by
  induction w generalizing n with
  | zero => simp at h; simp [leBytes, leVal, h]
  | succ w ih =>
    have h2 : n / 256 < 256 ^ w := by
      rw [Nat.div_lt_iff_lt_mul (by decide)]; rw [Nat.pow_succ] at h; exact h
    simp only [leBytes, leVal, ih _ h2]
    have : (UInt8.ofNat (n % 256)).toNat = n % 256 := by
      simp [UInt8.toNat_ofNat']
    rw [this]; omega

theorem readN_append (b rest : Bytes) : readN b.length (b ++ rest) = some (b, rest) := by
  simp [readN]

theorem readNat_leBytes (w n : Nat) (h : n < 256 ^ w) (rest : Bytes) :
    readNat w (leBytes w n ++ rest) = some (n, rest) := by
  have := readN_append (leBytes w n) rest
  rw [leBytes_length] at this
  simp [readNat, this, leVal_leBytes w n h]

theorem readVar_encVar (b rest : Bytes) (h : b.length < 256 ^ lenW) :
    readVar (encVar b ++ rest) = some (b, rest) := by
  simp only [readVar, encVar, List.append_assoc, readNat_leBytes lenW _ h, readN_append]

theorem tombW_pos : 0 < tombW := by decide

theorem tombMark_lt : tombMark < 256 ^ tombW := by decide

@[simp] theorem zero_ne_tombMark : (0 = tombMark) = False := by
  have : tombMark ≠ 0 := by decide
  simp; omega

theorem tomb_lt (d : Bool) : (if d then tombMark else 0) < 256 ^ tombW := by
  have := tombMark_lt
  cases d <;> simp <;> omega

theorem readTomb (d : Bool) (rest : Bytes) :
    readNat tombW (encTomb d ++ rest) = some ((if d then tombMark else 0), rest) :=
  readNat_leBytes tombW _ (tomb_lt d) rest

theorem readNats_encNats (w : Nat) (xs : List Nat) (h : ∀ x ∈ xs, x < 256 ^ w) (rest : Bytes) :
    readNats w xs.length (encNats w xs ++ rest) = some (xs, rest) := by
  induction xs with
  | nil => simp [readNats, encNats]
  | cons x xs ih =>
    have hx := h x (by simp)
    have hxs : ∀ y ∈ xs, y < 256 ^ w := fun y hy => h y (by simp [hy])
    have ih' := ih hxs
    simp only [encNats] at ih'
    simp only [readNats, encNats, List.flatMap_cons, List.length_cons, List.append_assoc,
      readNat_leBytes w x hx, ih']

/-! ### entries -/

theorem decEntry_encEntry (e : Entry) (h : e.WF) (rest : Bytes) :
    decEntry (encEntry e ++ rest) = some (e, rest) := by
  obtain ⟨k, s, d, v⟩ := e
  obtain ⟨hk, hv, hs, ht⟩ := h
  simp only at hk hv hs ht
  cases d with
  | true =>
    have hv0 : v = [] := ht rfl
    subst hv0
    simp only [decEntry, encEntry, List.append_assoc, readVar_encVar _ _ hk, readNat_leBytes u64W _ hs, readTomb]
    simp
  | false =>
    simp only [decEntry, encEntry, List.append_assoc, readVar_encVar _ _ hk, readNat_leBytes u64W _ hs, readTomb]
    simp [readVar_encVar _ _ hv]

theorem encEntry_length_pos (e : Entry) : 0 < (encEntry e).length := by
  have := tombW_pos
  simp [encEntry, encTomb, encVar, leBytes_length]; omega

theorem encEntries_append (a b : List Entry) : encEntries (a ++ b) = encEntries a ++ encEntries b := by
  induction a with
  | nil => rfl
  | cons e a ih => simp [encEntries, ih]

theorem length_le_encEntries (es : List Entry) : es.length ≤ (encEntries es).length := by
  induction es with
  | nil => simp
  | cons e es ih => have := encEntry_length_pos e; simp [encEntries]; omega

/-! ### scans -/

theorem scanAll_encEntries (es : List Entry) (h : ∀ e ∈ es, e.WF) (fuel : Nat) (hf : es.length < fuel) :
    scanAll fuel (encEntries es) = some es := by
  induction es generalizing fuel with
  | nil => cases fuel with
    | zero => omega
    | succ f => simp [scanAll, encEntries]
  | cons e es ih =>
    cases fuel with
    | zero => omega
    | succ f =>
      have hpos := encEntry_length_pos e
      have hne : (encEntry e ++ encEntries es).isEmpty = false := by
        cases hh : encEntry e with
        | nil => simp [hh] at hpos
        | cons a b => simp
      have he := h e (by simp)
      have ih' := ih (fun x hx => h x (by simp [hx])) f (by simp at hf; omega)
      have hr := decEntry_encEntry e he (encEntries es)
      simp only [scanAll, encEntries, hne, hr, ih']
      simp

/-- entry-level form of the `Get` scan loop -/
def scanSpec (key : Bytes) (stop : Option Nat) : List Entry → Nat → Option Entry
  | [], _ => none
  | e :: xs, off =>
    if beforeStop stop off then
      if e.key = key then some e else scanSpec key stop xs (off + (encEntry e).length)
    else none

theorem scanGet_encEntries (key : Bytes) (stop : Option Nat) (xs : List Entry) (h : ∀ e ∈ xs, e.WF)
    (fuel off : Nat) (hf : xs.length < fuel) :
    scanGet key stop fuel (encEntries xs) off = GetRes.ofOption (scanSpec key stop xs off) := by
  induction xs generalizing fuel off with
  | nil =>
    cases fuel with
    | zero => omega
    | succ f => simp only [scanGet, encEntries, scanSpec, GetRes.ofOption]; split <;> simp
  | cons e xs ih =>
    cases fuel with
    | zero => omega
    | succ f =>
      have hpos := encEntry_length_pos e
      have hne : (encEntry e ++ encEntries xs).isEmpty = false := by
        cases hh : encEntry e with
        | nil => simp [hh] at hpos
        | cons a b => simp
      have he := h e (by simp)
      have hr := decEntry_encEntry e he (encEntries xs)
      have ih' := ih (fun x hx => h x (by simp [hx])) f (off + (encEntry e).length) (by simp at hf; omega)
      have hlen : (encEntry e ++ encEntries xs).length - (encEntries xs).length = (encEntry e).length := by simp
      simp only [scanGet, encEntries, scanSpec, hne, hr, hlen, ih']
      by_cases hb : beforeStop stop off = true
      · by_cases hk : e.key = key <;> simp [hb, hk, GetRes.ofOption]
      · simp [hb, GetRes.ofOption]

theorem scanSpec_none (key : Bytes) (xs : List Entry) (off : Nat) :
    scanSpec key none xs off = xs.find? (fun e => e.key = key) := by
  induction xs generalizing off with
  | nil => rfl
  | cons e xs ih =>
    simp only [scanSpec, List.find?_cons, beforeStop]
    by_cases hk : e.key = key <;> simp [hk, ih]

theorem scanSpec_stop (key : Bytes) (xs : List Entry) (off c : Nat) (hc : c ≤ xs.length) :
    scanSpec key (some (off + (encEntries (xs.take c)).length)) xs off = (xs.take c).find? (fun e => e.key = key) := by
  induction xs generalizing off c with
  | nil => simp [scanSpec]
  | cons e xs ih =>
    cases c with
    | zero => simp [scanSpec, encEntries, beforeStop]
    | succ c =>
      have hpos := encEntry_length_pos e
      simp only [scanSpec, List.take_succ_cons, encEntries, List.length_append, List.find?_cons, beforeStop]
      have h1 : off < off + ((encEntry e).length + (encEntries (List.take c xs)).length) := by omega
      simp only [h1, decide_true, if_true]
      by_cases hk : e.key = key
      · simp [hk]
      · have := ih (off + (encEntry e).length) c (by simp at hc; omega)
        simp only [hk, if_false, decide_false]
        rw [← this]; congr 2; omega

/-! ### index search -/

theorem bsLoop_spec (cmpAt : Nat → Outcome Ordering) (g : Nat → Ordering) (n : Nat)
    (hg : ∀ j, j < n → cmpAt j = .ok (g j))
    (mono : ∀ a b, a ≤ b → b < n → g b = .lt → g a = .lt)
    (fuel lo hi : Nat) (hlo : ∀ j, j < lo → g j = .lt) (hhi : ∀ j, hi ≤ j → j < n → g j ≠ .lt)
    (hle : lo ≤ hi) (hhin : hi ≤ n) (hf : hi - lo ≤ fuel) (bad : Bool) :
    ∃ i, bsLoop cmpAt fuel lo hi bad = .ok (i, bad) ∧ lo ≤ i ∧ i ≤ hi ∧ (∀ j, j < i → g j = .lt) ∧
      (∀ j, i ≤ j → j < n → g j ≠ .lt) := by
  induction fuel generalizing lo hi with
  | zero =>
    have : lo = hi := by omega
    subst this
    exact ⟨lo, rfl, Nat.le_refl _, Nat.le_refl _, hlo, hhi⟩
  | succ f ih =>
    unfold bsLoop
    by_cases hlt : lo < hi
    · have hm : (lo + hi) / 2 < n := by omega
      simp only [hlt, if_true, hg _ hm]
      have hge : ∀ j, (lo + hi) / 2 ≤ j → j < n → g ((lo + hi) / 2) ≠ .lt → g j ≠ .lt := by
        intro j hj hjn hne hjl
        exact hne (mono _ _ hj hjn hjl)
      cases hc : g ((lo + hi) / 2) with
      | lt =>
        simp only []
        obtain ⟨i, h1, h2, h3, h4, h5⟩ := ih ((lo + hi) / 2 + 1) hi
          (fun j hj => mono j _ (by omega) hm hc) hhi (by omega) hhin (by omega)
        exact ⟨i, h1, by omega, h3, h4, h5⟩
      | eq =>
        simp only []
        obtain ⟨i, h1, h2, h3, h4, h5⟩ := ih lo ((lo + hi) / 2) hlo
          (fun j hj hjn => hge j hj hjn (by simp [hc])) (by omega) (by omega) (by omega)
        exact ⟨i, h1, h2, by omega, h4, h5⟩
      | gt =>
        simp only []
        obtain ⟨i, h1, h2, h3, h4, h5⟩ := ih lo ((lo + hi) / 2) hlo
          (fun j hj hjn => hge j hj hjn (by simp [hc])) (by omega) (by omega) (by omega)
        exact ⟨i, h1, h2, by omega, h4, h5⟩
    · have : lo = hi := by omega
      subst this
      simp only [Nat.lt_irrefl, if_false]
      exact ⟨lo, rfl, Nat.le_refl _, Nat.le_refl _, hlo, hhi⟩

theorem cmp_mono_lt {a b t : Bytes} (hab : Bytes.cmp a b ≠ .gt) (hb : Bytes.cmp b t = .lt) : Bytes.cmp a t = .lt := by
  cases h : Bytes.cmp a b with
  | lt => exact Bytes.cmp_lt_trans h hb
  | eq => rw [Bytes.cmp_eq_iff.mp h]; exact hb
  | gt => exact absurd h hab

/-- `Search` on an index whose sampled keys `ks` are strictly ascending: the chosen block `f` is the last one
whose first key is `≤ target` (block 0 if there is none); every later block starts above the target. -/
theorem search_spec (ks : List Bytes) (offs : List Nat) (readKey : Nat → Outcome Bytes) (target : Bytes)
    (hlen : offs.length = ks.length) (hpos : 0 < ks.length)
    (hread : ∀ j, j < ks.length → readKey (offs.getD j 0) = .ok (ks.getD j []))
    (hs : ∀ a b, a < b → b < ks.length → Bytes.cmp (ks.getD a []) (ks.getD b []) = .lt) :
    ∃ f, f < ks.length ∧
      search offs readKey target = .range (offs.getD f 0) (if f + 1 = offs.length then none else some (offs.getD (f + 1) 0)) ∧
      (f = 0 ∨ Bytes.cmp (ks.getD f []) target ≠ .gt) ∧
      (∀ j, f < j → j < ks.length → Bytes.cmp (ks.getD j []) target = .gt) := by
  let g : Nat → Ordering := fun j => Bytes.cmp (ks.getD j []) target
  let cmpAt : Nat → Outcome Ordering := fun i => cmpKey target (readKey (offs.getD i 0))
  have hg : ∀ j, j < ks.length → cmpAt j = .ok (g j) := by
    intro j hj; show cmpKey target (readKey (offs.getD j 0)) = _; rw [hread j hj]; rfl
  have mono : ∀ a b, a ≤ b → b < ks.length → g b = .lt → g a = .lt := by
    intro a b hab hb hlt
    by_cases he : a = b
    · subst he; exact hlt
    · have := hs a b (by omega) hb
      exact cmp_mono_lt (by rw [this]; simp) hlt
  have hne : offs.isEmpty = false := by
    cases offs with
    | nil => simp at hlen; omega
    | cons _ _ => rfl
  obtain ⟨i, hbs, _, hin, hbelow, habove⟩ := bsLoop_spec cmpAt g ks.length hg mono ks.length 0 ks.length
    (by intro j hj; omega) (by intro j h1 h2; omega) (Nat.zero_le _) (Nat.le_refl _) (by omega) false
  -- strictly above: a later sampled key is greater than any sampled key that is not below the target
  have gt_of : ∀ a b, a < b → b < ks.length → g a ≠ .lt → g b = .gt := by
    intro a b hab hb hna
    have h1 := hs a b hab hb
    cases hgb : g b with
    | gt => rfl
    | lt => exact absurd (mono a b (by omega) hb hgb) hna
    | eq =>
      have : ks.getD b [] = target := Bytes.cmp_eq_iff.mp hgb
      rw [this] at h1; exact absurd h1 hna
  unfold search
  simp only [hne, Bool.false_eq_true, if_false, hlen]
  show ∃ f, f < ks.length ∧ (match bsLoop cmpAt ks.length 0 ks.length false with
      | .err => SearchRes.err
      | .panic => SearchRes.panic
      | .ok (i, bad) => match (if i < ks.length then cmpAt i else .ok .lt) with
        | .err => SearchRes.err
        | .panic => SearchRes.panic
        | .ok o => if bad then SearchRes.err else SearchRes.range (offs.getD (if o = Ordering.eq then i else if 0 < i then i - 1 else i) 0)
            (if (if o = Ordering.eq then i else if 0 < i then i - 1 else i) + 1 = ks.length then none
             else some (offs.getD ((if o = Ordering.eq then i else if 0 < i then i - 1 else i) + 1) 0))) = _ ∧ _
  rw [hbs]
  by_cases hi : i < ks.length
  · simp only [hi, if_true, hg i hi]
    by_cases he : g i = .eq
    · refine ⟨i, hi, by simp [he], Or.inr (by show g i ≠ .gt; simp [he]), ?_⟩
      intro j hj hjn; exact gt_of i j hj hjn (by simp [he])
    · have hgi : g i = .gt := by
        cases h : g i with
        | lt => exact absurd h (habove i (Nat.le_refl _) hi)
        | eq => exact absurd h he
        | gt => rfl
      by_cases h0 : 0 < i
      · refine ⟨i - 1, by omega, by simp [he, h0], Or.inr (by show g (i - 1) ≠ .gt; rw [hbelow (i - 1) (by omega)]; simp), ?_⟩
        intro j hj hjn
        by_cases hji : j = i
        · subst hji; exact hgi
        · exact gt_of i j (by omega) hjn (by simp [hgi])
      · have : i = 0 := by omega
        subst this
        refine ⟨0, hpos, by simp [he], Or.inl rfl, ?_⟩
        intro j hj hjn; exact gt_of 0 j hj hjn (by simp [hgi])
  · have hi' : i = ks.length := by omega
    subst hi'
    simp only [Nat.lt_irrefl, if_false]
    refine ⟨ks.length - 1, by omega, by simp [hpos], Or.inr (by show g (ks.length - 1) ≠ .gt; rw [hbelow _ (by omega)]; simp), ?_⟩
    intro j hj hjn; omega

/-! ### index blocks: the entries between two consecutive index samples -/

abbrev Block := Entry × List Entry
def Block.ents (b : Block) : List Entry := b.1 :: b.2

def blocksFlat : List Block → List Entry
  | [] => []
  | b :: bs => b.ents ++ blocksFlat bs

def blockOffsets : Nat → List Block → List Nat
  | _, [] => []
  | off, b :: bs => off :: blockOffsets (off + (encEntries b.ents).length) bs

theorem blocksFlat_append (a b : List Block) : blocksFlat (a ++ b) = blocksFlat a ++ blocksFlat b := by
  induction a with
  | nil => rfl
  | cons x a ih => simp [blocksFlat, ih]

theorem blockOffsets_length (off : Nat) (bs : List Block) : (blockOffsets off bs).length = bs.length := by
  induction bs generalizing off with
  | nil => rfl
  | cons b bs ih => simp [blockOffsets, ih]

theorem blockOffsets_getD (off : Nat) (bs : List Block) (j : Nat) (hj : j < bs.length) :
    (blockOffsets off bs).getD j 0 = off + (encEntries (blocksFlat (bs.take j))).length := by
  induction bs generalizing off j with
  | nil => simp at hj
  | cons b bs ih =>
    cases j with
    | zero => simp [blockOffsets, blocksFlat, encEntries]
    | succ j =>
      have := ih (off + (encEntries b.ents).length) j (by simpa using hj)
      simp only [blockOffsets, List.getD_cons_succ, this, List.take_succ_cons, blocksFlat, encEntries_append,
        List.length_append]
      omega

/-- the offsets written by `IndexOffset` are the start offsets of a decomposition into non-empty blocks -/
theorem indexOffsets_blocks (es : List Entry) (items off : Nat) (hsz : off + (encEntries es).length < offMod) :
    ∃ pre bs, es = pre ++ blocksFlat bs ∧
      indexOffsets items off es = blockOffsets (off + (encEntries pre).length) bs ∧
      (items % spacing = 0 → pre = []) := by
  induction es generalizing items off with
  | nil => exact ⟨[], [], rfl, rfl, fun _ => rfl⟩
  | cons e es ih =>
    simp only [encEntries, List.length_append] at hsz
    obtain ⟨pre, bs, h1, h2, h3⟩ := ih (items + 1) (off + (encEntry e).length) (by omega)
    by_cases hi : items % spacing = 0
    · refine ⟨[], (e, pre) :: bs, ?_, ?_, fun _ => rfl⟩
      · simp [blocksFlat, Block.ents, h1]
      · have hoff : off % offMod = off := Nat.mod_eq_of_lt (by omega)
        simp only [indexOffsets, hi, if_true, hoff, h2, blockOffsets, Block.ents, encEntries, List.length_nil,
          Nat.add_zero, List.length_append, List.singleton_append]
        congr 2; omega
    · refine ⟨e :: pre, bs, ?_, ?_, fun h => absurd h hi⟩
      · simp [h1]
      · simp only [indexOffsets, hi, if_false, h2, encEntries, List.length_append, List.nil_append]
        congr 1; omega

theorem head_mem_blocksFlat {b : Block} {bs : List Block} (h : b ∈ bs) : b.1 ∈ blocksFlat bs := by
  induction bs with
  | nil => simp at h
  | cons x bs ih =>
    simp only [List.mem_cons] at h
    simp only [blocksFlat, Block.ents, List.mem_append, List.mem_cons]
    rcases h with rfl | h
    · exact Or.inl (Or.inl rfl)
    · exact Or.inr (ih h)

/-- splitting the block list at `j` -/
theorem blocks_split (bs : List Block) (j : Nat) (hj : j < bs.length) :
    bs = bs.take j ++ bs[j] :: bs.drop (j + 1) := by
  conv => lhs; rw [← List.take_append_drop j bs]
  rw [List.drop_eq_getElem_cons hj]

theorem ent_drop (bs : List Block) (j : Nat) :
    (encEntries (blocksFlat bs)).drop (encEntries (blocksFlat (bs.take j))).length = encEntries (blocksFlat (bs.drop j)) := by
  conv => lhs; rw [← List.take_append_drop j bs]
  rw [blocksFlat_append, encEntries_append, List.take_append_drop, List.drop_left]

theorem sorted_lt_of_append {A B : List Entry} (h : SortedKeys (A ++ B)) {a b : Entry} (ha : a ∈ A) (hb : b ∈ B) :
    Bytes.cmp a.key b.key = .lt := by
  have := (List.pairwise_append.mp h).2.2 a ha b hb
  simpa [Bytes.lt] using this

theorem headKeys_sorted (bs : List Block) (hs : SortedKeys (blocksFlat bs)) (a b : Nat) (hab : a < b) (hb : b < bs.length) :
    Bytes.cmp (bs[a]'(by omega)).1.key (bs[b]).1.key = .lt := by
  have hsplit := blocks_split bs b hb
  have hs' : SortedKeys (blocksFlat (bs.take b) ++ blocksFlat (bs[b] :: bs.drop (b + 1))) := by
    rw [← blocksFlat_append, ← hsplit]; exact hs
  apply sorted_lt_of_append hs'
  · apply head_mem_blocksFlat
    rw [List.mem_take_iff_getElem]
    exact ⟨a, by omega, rfl⟩
  · simp [blocksFlat, Block.ents]

theorem find_segment (A B C : List Entry) (key : Bytes)
    (hA : ∀ e ∈ A, e.key ≠ key) (hC : ∀ e ∈ C, e.key ≠ key) :
    (A ++ (B ++ C)).find? (fun e => e.key = key) = B.find? (fun e => e.key = key) := by
  have h1 : A.find? (fun e => decide (e.key = key)) = none := by
    rw [List.find?_eq_none]; intro e he; simpa using hA e he
  have h2 : C.find? (fun e => decide (e.key = key)) = none := by
    rw [List.find?_eq_none]; intro e he; simpa using hC e he
  simp [List.find?_append, h1, h2]

/-- search + scan over the entries block of a table whose index samples the first entry of every block -/
theorem searchScan_blocks (bs : List Block) (hne : bs ≠ []) (hwf : ∀ e ∈ blocksFlat bs, e.WF)
    (hs : SortedKeys (blocksFlat bs)) (key : Bytes) :
    (match search (blockOffsets 0 bs)
        (readKeyAt (encEntries (blocksFlat bs)) (encEntries (blocksFlat bs)).length) key with
      | .err => GetRes.err
      | .panic => GetRes.panic
      | .range start stop =>
        if (encEntries (blocksFlat bs)).length < start then GetRes.panic
        else scanGet key stop (((encEntries (blocksFlat bs)).drop start).length + 1)
          ((encEntries (blocksFlat bs)).drop start) start)
      = GetRes.ofOption (lookup (blocksFlat bs) key) := by
  have hm : 0 < bs.length := List.length_pos_iff.mpr hne
  -- the sampled keys
  let ks : List Bytes := bs.map (fun b => b.1.key)
  have hks_len : ks.length = bs.length := by simp [ks]
  have hks : ∀ j (hj : j < bs.length), ks.getD j [] = (bs[j]).1.key := by
    intro j hj
    rw [List.getD_eq_getElem?_getD, List.getElem?_eq_getElem (by omega)]
    simp [ks]
  have hoffs : ∀ j, j < bs.length → (blockOffsets 0 bs).getD j 0 = (encEntries (blocksFlat (bs.take j))).length := by
    intro j hj; rw [blockOffsets_getD 0 bs j hj]; omega
  have hdrop : ∀ j (hj : j < bs.length), (encEntries (blocksFlat bs)).drop ((blockOffsets 0 bs).getD j 0)
      = encEntries ((bs[j]).ents ++ blocksFlat (bs.drop (j + 1))) := by
    intro j hj
    rw [hoffs j hj, ent_drop, List.drop_eq_getElem_cons hj]; rfl
  -- every index offset lies inside the entries block: the bounded cursor never panics
  have hbound : ∀ j, j < bs.length → ¬ ((encEntries (blocksFlat bs)).length < (blockOffsets 0 bs).getD j 0) := by
    intro j hj
    rw [hoffs j hj]
    have := congrArg (fun l => (encEntries (blocksFlat l)).length) (List.take_append_drop j bs)
    simp only [blocksFlat_append, encEntries_append, List.length_append] at this
    omega
  let rk : Nat → Outcome Bytes := readKeyAt (encEntries (blocksFlat bs)) (encEntries (blocksFlat bs)).length
  have hread : ∀ j, j < ks.length → rk ((blockOffsets 0 bs).getD j 0) = .ok (ks.getD j []) := by
    intro j hj
    have hj' : j < bs.length := by omega
    have hk : (bs[j]).1.WF := hwf _ (head_mem_blocksFlat (List.getElem_mem hj'))
    show readKeyAt _ _ _ = _
    unfold readKeyAt
    simp only [hbound j hj', if_false, hdrop j hj', Block.ents, List.cons_append, encEntries, encEntry, List.append_assoc,
      readVar_encVar _ _ hk.key, hks j hj']
  have hsorted : ∀ a b, a < b → b < ks.length → Bytes.cmp (ks.getD a []) (ks.getD b []) = .lt := by
    intro a b hab hb
    have hb' : b < bs.length := by omega
    rw [hks a (by omega), hks b hb']
    exact headKeys_sorted bs hs a b hab hb'
  obtain ⟨f, hf, hsearch, hP1, hP2⟩ := search_spec ks (blockOffsets 0 bs) rk key
    (by rw [blockOffsets_length, hks_len]) (by omega) hread hsorted
  have hf' : f < bs.length := by omega
  rw [hsearch]
  simp only [hbound f hf', if_false]
  -- the scan
  have hwf_tail : ∀ e ∈ (bs[f]).ents ++ blocksFlat (bs.drop (f + 1)), e.WF := by
    intro e he
    apply hwf
    rw [blocks_split bs f hf', blocksFlat_append]
    simp only [blocksFlat, List.mem_append]
    simp only [List.mem_append] at he
    exact Or.inr he
  rw [hdrop f hf', scanGet_encEntries key _ _ hwf_tail _ _ (by have := length_le_encEntries ((bs[f]).ents ++ blocksFlat (bs.drop (f + 1))); omega)]
  congr 1
  -- what the scan sees is block f
  have hscan : scanSpec key (if f + 1 = (blockOffsets 0 bs).length then none else some ((blockOffsets 0 bs).getD (f + 1) 0))
      ((bs[f]).ents ++ blocksFlat (bs.drop (f + 1))) ((blockOffsets 0 bs).getD f 0)
      = (bs[f]).ents.find? (fun e => e.key = key) := by
    rw [blockOffsets_length]
    by_cases hlast : f + 1 = bs.length
    · have : bs.drop (f + 1) = [] := List.drop_eq_nil_of_le (by omega)
      rw [this]
      simp only [hlast, if_true, blocksFlat, List.append_nil, scanSpec_none]
    · simp only [hlast, if_false]
      have h1 : (blockOffsets 0 bs).getD (f + 1) 0 = (blockOffsets 0 bs).getD f 0 +
          (encEntries (((bs[f]).ents ++ blocksFlat (bs.drop (f + 1))).take (bs[f]).ents.length)).length := by
        rw [hoffs (f + 1) (by omega), hoffs f hf', List.take_left', List.take_succ_eq_append_getElem hf',
          blocksFlat_append, encEntries_append]
        · simp [blocksFlat]
        · rfl
      rw [h1, scanSpec_stop _ _ _ _ (by simp), List.take_left']
      rfl
  rw [hscan]
  -- and the lookup only has to look at block f
  unfold lookup
  conv => rhs; rw [blocks_split bs f hf', blocksFlat_append]
  simp only [blocksFlat]
  rw [find_segment]
  · -- entries before block f
    intro e he hek
    rcases hP1 with h0 | hle
    · subst h0; simp [blocksFlat] at he
    · have hs' : SortedKeys (blocksFlat (bs.take f) ++ blocksFlat (bs[f] :: bs.drop (f + 1))) := by
        rw [← blocksFlat_append, ← blocks_split bs f hf']; exact hs
      have hlt := sorted_lt_of_append hs' he (b := (bs[f]).1) (by simp [blocksFlat, Block.ents])
      rw [hks f hf'] at hle
      rw [hek] at hlt
      exact hle (Bytes.cmp_lt_iff_gt.mp hlt)
  · -- entries after block f
    intro e he hek
    have hlt : f + 1 < bs.length := by
      by_cases h : f + 1 < bs.length
      · exact h
      · have : bs.drop (f + 1) = [] := List.drop_eq_nil_of_le (by omega)
        rw [this] at he; simp [blocksFlat] at he
    have hgt := hP2 (f + 1) (by omega) (by omega)
    rw [hks (f + 1) hlt] at hgt
    rw [List.drop_eq_getElem_cons hlt] at he
    simp only [blocksFlat, Block.ents, List.cons_append, List.mem_cons] at he
    rcases he with rfl | he
    · rw [hek] at hgt; simp at hgt
    · have hs' : SortedKeys (blocksFlat (bs.take (f + 1)) ++ blocksFlat (bs[f + 1] :: bs.drop (f + 1 + 1))) := by
        rw [← blocksFlat_append, ← blocks_split bs (f + 1) hlt]; exact hs
      have hs'' := (List.pairwise_append.mp hs').2.1
      simp only [blocksFlat, Block.ents, List.cons_append] at hs''
      have := (List.pairwise_cons.mp hs'').1 e he
      simp only [Bytes.lt, beq_iff_eq] at this
      rw [hek] at this
      rw [this] at hgt; cases hgt

/-! ### bloom filter -/
namespace Bloom

theorem and_two_pow_ne_zero (a i : Nat) : (a &&& 2 ^ i != 0) = a.testBit i := by
  cases h : a.testBit i with
  | true =>
    have : (a &&& 2 ^ i).testBit i = true := by simp [Nat.testBit_and, h, Nat.testBit_two_pow_self]
    have hne : a &&& 2 ^ i ≠ 0 := by
      intro h0; rw [h0] at this; simp at this
    simp [hne]
  | false =>
    have : a &&& 2 ^ i = 0 := by
      apply Nat.eq_of_testBit_eq
      intro j
      simp only [Nat.testBit_and, Nat.testBit_two_pow, Nat.zero_testBit]
      by_cases hj : i = j
      · subst hj; simp [h]
      · simp [hj]
    simp [this]

theorem getBit_eq (ws : List Nat) (pos : Nat) :
    getBit ws pos = (ws.getD (pos / wordBits) 0).testBit (pos % wordBits) := by
  unfold getBit
  rw [Nat.one_shiftLeft, and_two_pow_ne_zero]

theorem setBit_length (ws : List Nat) (pos : Nat) : (setBit ws pos).length = ws.length := by
  simp [setBit]

theorem getBit_setBit_self (ws : List Nat) (pos : Nat) (h : pos / wordBits < ws.length) :
    getBit (setBit ws pos) pos = true := by
  rw [getBit_eq]
  simp only [setBit, List.getD_eq_getElem?_getD, List.getElem?_set_self h, Option.getD_some,
    Nat.one_shiftLeft, Nat.testBit_or, Nat.testBit_two_pow_self, Bool.or_true]

theorem getBit_setBit_mono (ws : List Nat) (pos q : Nat) (h : getBit ws q = true) :
    getBit (setBit ws pos) q = true := by
  rw [getBit_eq] at h ⊢
  simp only [setBit, List.getD_eq_getElem?_getD] at h ⊢
  by_cases hi : pos / wordBits = q / wordBits
  · by_cases hl : pos / wordBits < ws.length
    · rw [← hi, List.getElem?_set_self hl]
      simp only [Option.getD_some, Nat.testBit_or]
      rw [hi, h]; rfl
    · rw [List.set_eq_of_length_le (by omega)]; exact h
  · rw [List.getElem?_set_ne hi]; exact h

theorem hasAll_mono (size : Nat) (ws : List Nat) (data : Bytes) (pos n : Nat)
    (h : hasAll size ws data n = true) : hasAll size (setBit ws pos) data n = true := by
  induction n with
  | zero => rfl
  | succ n ih =>
    simp only [hasAll, Bool.and_eq_true] at h ⊢
    exact ⟨ih h.1, getBit_setBit_mono _ _ _ h.2⟩

theorem addWords_length (size : Nat) (data : Bytes) (n : Nat) (ws : List Nat) :
    (addWords size data n ws).length = ws.length := by
  induction n with
  | zero => rfl
  | succ n ih => simp [addWords, setBit_length, ih]

theorem hasAll_addWords_mono (size : Nat) (ws : List Nat) (data other : Bytes) (m n : Nat)
    (h : hasAll size ws data n = true) : hasAll size (addWords size other m ws) data n = true := by
  induction m with
  | zero => exact h
  | succ m ih => exact hasAll_mono _ _ _ _ _ ih

theorem hasAll_addWords (size : Nat) (ws : List Nat) (data : Bytes) (m : Nat)
    (hsz : 0 < size) (hw : 0 < wordBits) (hlen : size ≤ ws.length * wordBits) :
    hasAll size (addWords size data m ws) data m = true := by
  induction m with
  | zero => rfl
  | succ m ih =>
    simp only [hasAll, addWords, Bool.and_eq_true]
    refine ⟨hasAll_mono _ _ _ _ _ ih, getBit_setBit_self _ _ ?_⟩
    rw [addWords_length]
    have : index size data m < size := Nat.mod_lt _ hsz
    rw [Nat.div_lt_iff_lt_mul hw]; omega

/-- the invariant that makes every bit position addressable -/
def Ok (b : Bloom) : Prop := 0 < b.size ∧ b.size ≤ b.words.length * wordBits

theorem wordBits_pos : 0 < wordBits := by decide

theorem new_ok (size hashes : Nat) (h : 0 < size) : (Bloom.new size hashes).Ok := by
  refine ⟨h, ?_⟩
  simp only [Bloom.new, List.length_replicate]
  have hw := wordBits_pos
  have := Nat.div_add_mod (size + (wordBits - 1)) wordBits
  have := Nat.mod_lt (size + (wordBits - 1)) hw
  rw [Nat.mul_comm]
  omega

theorem add_ok (b : Bloom) (k : Bytes) (h : b.Ok) : (b.add k).Ok := by
  simpa [Ok, add, addWords_length] using h

theorem add_mightHave_self (b : Bloom) (k : Bytes) (h : b.Ok) : (b.add k).mightHave k = true :=
  hasAll_addWords b.size b.words k b.hashes h.1 wordBits_pos h.2

theorem add_mightHave_mono (b : Bloom) (k other : Bytes) (h : b.mightHave k = true) :
    (b.add other).mightHave k = true :=
  hasAll_addWords_mono b.size b.words k other b.hashes b.hashes h

theorem addAll_mightHave_mono (b : Bloom) (ks : List Bytes) (k : Bytes) (h : b.mightHave k = true) :
    (b.addAll ks).mightHave k = true := by
  induction ks generalizing b with
  | nil => exact h
  | cons x ks ih => exact ih _ (add_mightHave_mono b k x h)

theorem addAll_no_false_negative (b : Bloom) (hb : b.Ok) (ks : List Bytes) (k : Bytes) (hk : k ∈ ks) :
    (b.addAll ks).mightHave k = true := by
  induction ks generalizing b with
  | nil => simp at hk
  | cons x ks ih =>
    simp only [List.mem_cons] at hk
    rcases hk with rfl | hk
    · exact addAll_mightHave_mono (b.add k) ks k (add_mightHave_self b k hb)
    · exact ih _ (add_ok b x hb) hk

end Bloom
namespace Bloom

/-- every word fits a `uint64` and the array has the length `NewFilter` allocates -/
def Shape (b : Bloom) : Prop :=
  (∀ w ∈ b.words, w < 2 ^ wordBits) ∧ b.words.length = (b.size + (wordBits - 1)) / wordBits

theorem setBit_lt (ws : List Nat) (pos : Nat) (h : ∀ w ∈ ws, w < 2 ^ wordBits) :
    ∀ w ∈ setBit ws pos, w < 2 ^ wordBits := by
  intro w hw
  rcases List.mem_or_eq_of_mem_set hw with hw | rfl
  · exact h w hw
  · apply Nat.or_lt_two_pow
    · by_cases hl : pos / wordBits < ws.length
      · rw [List.getD_eq_getElem?_getD, List.getElem?_eq_getElem hl]; exact h _ (List.getElem_mem hl)
      · rw [List.getD_eq_getElem?_getD, List.getElem?_eq_none (by omega)]; exact Nat.two_pow_pos _
    · rw [Nat.one_shiftLeft]
      exact Nat.pow_lt_pow_right (by decide) (Nat.mod_lt _ wordBits_pos)

theorem addWords_lt (size : Nat) (data : Bytes) (n : Nat) (ws : List Nat) (h : ∀ w ∈ ws, w < 2 ^ wordBits) :
    ∀ w ∈ addWords size data n ws, w < 2 ^ wordBits := by
  induction n with
  | zero => exact h
  | succ n ih => exact setBit_lt _ _ ih

theorem new_shape (size hashes : Nat) : (Bloom.new size hashes).Shape := by
  refine ⟨?_, by simp [Bloom.new]⟩
  intro w hw
  simp only [Bloom.new, List.mem_replicate] at hw
  rw [hw.2]; exact Nat.two_pow_pos _

theorem add_shape (b : Bloom) (k : Bytes) (h : b.Shape) : (b.add k).Shape :=
  ⟨addWords_lt _ _ _ _ h.1, by simpa [add, addWords_length] using h.2⟩

theorem addAll_shape (b : Bloom) (ks : List Bytes) (h : b.Shape) : (b.addAll ks).Shape := by
  induction ks generalizing b with
  | nil => exact h
  | cons k ks ih => exact ih _ (add_shape b k h)

theorem addAll_size (b : Bloom) (ks : List Bytes) : (b.addAll ks).size = b.size ∧ (b.addAll ks).hashes = b.hashes := by
  induction ks generalizing b with
  | nil => exact ⟨rfl, rfl⟩
  | cons k ks ih => exact ih (b.add k)

theorem word_fits : 2 ^ wordBits ≤ 256 ^ u64W := by decide

theorem decode_encode (b : Bloom) (hs : b.Shape) (h1 : b.size < 256 ^ u32W) (h2 : b.hashes < 256 ^ u32W) (rest : Bytes) :
    decode (b.encode ++ rest) = some (b, rest) := by
  have hw : ∀ w ∈ b.words, w < 256 ^ u64W := fun w hw => Nat.lt_of_lt_of_le (hs.1 w hw) word_fits
  have := readNats_encNats u64W b.words hw rest
  rw [hs.2] at this
  simp only [decode, encode, List.append_assoc, readNat_leBytes u32W _ h1, readNat_leBytes u32W _ h2, this]

end Bloom

theorem indexOffsets_lt (es : List Entry) (items off : Nat) : ∀ o ∈ indexOffsets items off es, o < offMod := by
  induction es generalizing items off with
  | nil => simp [indexOffsets]
  | cons e es ih =>
    intro o ho
    simp only [indexOffsets, List.mem_append] at ho
    rcases ho with ho | ho
    · split at ho
      · simp only [List.mem_singleton] at ho; rw [ho]; exact Nat.mod_lt _ (by decide)
      · simp at ho
    · exact ih _ _ o ho

theorem indexOffsets_length_le (es : List Entry) (items off : Nat) : (indexOffsets items off es).length ≤ es.length := by
  induction es generalizing items off with
  | nil => simp [indexOffsets]
  | cons e es ih =>
    have := ih (items + 1) (off + (encEntry e).length)
    simp only [indexOffsets, List.length_append, List.length_cons]
    split <;> simp <;> omega

theorem decIndex_encIndex (offs : List Nat) (h : ∀ o ∈ offs, o < 256 ^ u32W) (hl : offs.length < 256 ^ u32W) (rest : Bytes) :
    decIndex (encIndex offs ++ rest) = some (offs, rest) := by
  simp only [decIndex, encIndex, List.append_assoc, readNat_leBytes u32W _ hl, readNats_encNats u32W offs h rest]

theorem offMod_pos : 0 < offMod := by decide
theorem u32_fits : offMod ≤ 256 ^ u32W := by decide
theorem u64_fits : offMod ≤ 256 ^ u64W := by decide
theorem footer_len : u64W + u32W = Facts.sstFooterLen := by decide
theorem bloom_params : 0 < Facts.bloomBits ∧ Facts.bloomBits < 256 ^ u32W ∧ Facts.bloomHashes < 256 ^ u32W := by decide

theorem bloomOf_shape (es : List Entry) : (bloomOf es).Shape ∧ (bloomOf es).size = Facts.bloomBits ∧ (bloomOf es).hashes = Facts.bloomHashes := by
  refine ⟨Bloom.addAll_shape _ _ (Bloom.new_shape _ _), ?_⟩
  have := Bloom.addAll_size (Bloom.new Facts.bloomBits Facts.bloomHashes) (keysOf es)
  simpa [bloomOf, Bloom.new] using this

/-- `loadFooter` on a written table recovers exactly the writer's in-memory metadata -/
theorem loadFooter_encTable (es : List Entry) (hsz : (encEntries es).length < offMod) :
    loadFooter (encTable es).length (encTable es) = some (metaOf es) := by
  obtain ⟨hshape, hsize, hhash⟩ := bloomOf_shape es
  have hb1 : (bloomOf es).size < 256 ^ u32W := by rw [hsize]; exact bloom_params.2.1
  have hb2 : (bloomOf es).hashes < 256 ^ u32W := by rw [hhash]; exact bloom_params.2.2
  have hoff : ∀ o ∈ indexOffsets 0 0 es, o < 256 ^ u32W := fun o ho => Nat.lt_of_lt_of_le (indexOffsets_lt es 0 0 o ho) u32_fits
  have hlen : (indexOffsets 0 0 es).length < 256 ^ u32W := by
    have := indexOffsets_length_le es 0 0
    have := length_le_encEntries es
    have := u32_fits
    omega
  have hesz : (encEntries es).length < 256 ^ u64W := Nat.lt_of_lt_of_le hsz u64_fits
  -- the last `footerLen` bytes
  have htail : (encTable es).drop ((encTable es).length - Facts.sstFooterLen) =
      leBytes u64W (encEntries es).length ++ leBytes u32W Facts.sstVersion := by
    have : encTable es = (encEntries es ++ ((bloomOf es).encode ++ encIndex (indexOffsets 0 0 es))) ++
        (leBytes u64W (encEntries es).length ++ leBytes u32W Facts.sstVersion) := by
      simp only [encTable, encFooter, metaOf, List.append_assoc]
    rw [this]
    apply List.drop_left'
    simp only [List.length_append, leBytes_length, ← footer_len]
    omega
  have hmeta : (encTable es).drop (encEntries es).length = encFooter (metaOf es) (encEntries es).length := by
    simp only [encTable]; exact List.drop_left' rfl
  unfold loadFooter
  rw [htail, readNat_leBytes u64W _ hesz]
  simp only []
  rw [hmeta]
  simp only [encFooter, metaOf, Bloom.decode_encode _ hshape hb1 hb2, decIndex_encIndex _ hoff hlen]

/-! ### whole tables -/

theorem take_entries (es : List Entry) : (encTable es).take (encEntries es).length = encEntries es := by
  simp only [encTable]; exact List.take_left' rfl

theorem bloomOf_no_false_negative (es : List Entry) (e : Entry) (he : e ∈ es) : (bloomOf es).mightHave e.key = true := by
  apply Bloom.addAll_no_false_negative _ (Bloom.new_ok _ _ bloom_params.1)
  exact List.mem_map_of_mem he

theorem lookup_none_of_bloom (es : List Entry) (key : Bytes) (h : (bloomOf es).mightHave key = false) :
    lookup es key = none := by
  unfold lookup
  rw [List.find?_eq_none]
  intro e he hk
  simp only [decide_eq_true_eq] at hk
  have := bloomOf_no_false_negative es e he
  rw [hk, h] at this; cases this

theorem get_encTable (es : List Entry) (hwf : ∀ e ∈ es, e.WF) (hs : SortedKeys es)
    (hsz : (encEntries es).length < offMod) (key : Bytes) :
    get (metaOf es) (encEntries es).length (encTable es) key = GetRes.ofOption (lookup es key) := by
  unfold get
  by_cases hb : (bloomOf es).mightHave key = true
  · simp only [metaOf, hb, Bool.not_true, Bool.false_eq_true, if_false, take_entries]
    obtain ⟨pre, bs, h1, h2, h3⟩ := indexOffsets_blocks es 0 0 (by omega)
    have hpre : pre = [] := h3 (Nat.zero_mod _)
    subst hpre
    simp only [List.nil_append, encEntries, List.length_nil, Nat.add_zero] at h1 h2
    rw [h2]
    by_cases hne : bs = []
    · subst hne
      subst h1
      simp [blockOffsets, search, blocksFlat, encEntries, scanGet, beforeStop, lookup, GetRes.ofOption]
    · subst h1
      exact searchScan_blocks bs hne hwf hs key
  · have hb' : (bloomOf es).mightHave key = false := by simpa using hb
    simp only [metaOf, hb', Bool.not_false, if_true, lookup_none_of_bloom es key hb', GetRes.ofOption]

theorem scanPrefix_encTable (es : List Entry) (hwf : ∀ e ∈ es, e.WF) (pfx : Bytes) :
    scanPrefix (encEntries es).length (encTable es) pfx = some (es.filter (fun e => e.key.hasPrefix pfx)) := by
  unfold scanPrefix
  rw [take_entries, scanAll_encEntries es hwf _ (by have := length_le_encEntries es; omega)]

/-! ### WriteRun -/

theorem runLoop_flatten (target maxSz fuel : Nat) (cut : Option (List Entry × Nat)) (buf : List Entry)
    (size : Nat) (hv : Bool) (input : List Entry) :
    (runLoop target maxSz fuel cut buf size hv input).flatten = (cut.map (·.1)).getD [] ++ buf ++ input := by
  induction fuel generalizing cut buf size hv input with
  | zero =>
    unfold runLoop
    split <;> rename_i h
    · simp only [List.isEmpty_iff] at h; simp [h]
    · simp
  | succ f ih =>
    cases cut with
    | none =>
      unfold runLoop
      by_cases hlt : size < target
      · simp only [hlt, if_true]
        cases input with
        | nil =>
          by_cases hb : (buf.isEmpty && hv) = true
          · simp only [hb, if_true]
            simp only [Bool.and_eq_true, List.isEmpty_iff] at hb
            simp [hb.1]
          · simp [hb]
        | cons e rest => simp [ih]
      · simp only [hlt, if_false]; simp [ih]
    | some c =>
      obtain ⟨chunk, cs⟩ := c
      unfold runLoop
      by_cases hlt : size < maxSz
      · simp only [hlt, if_true]
        cases input with
        | nil => simp
        | cons e rest => simp [ih]
      · simp only [hlt, if_false]; simp [ih]

theorem writeRun_flatten (target : Nat) (es : List Entry) : (writeRun target es).flatten = es := by
  simp [writeRun, runLoop_flatten]

def sumSize (l : List Entry) : Nat := (l.map flushSize).sum

theorem sumSize_append (a b : List Entry) : sumSize (a ++ b) = sumSize a + sumSize b := by
  simp [sumSize]

def LoopInv (cut : Option (List Entry × Nat)) (buf : List Entry) (size : Nat) (hv : Bool) (input : List Entry) : Prop :=
  (match cut with
   | none => size = sumSize buf
   | some (chunk, cs) => cs = sumSize chunk ∧ size = sumSize chunk + sumSize buf ∧ chunk ≠ []) ∧
  (hv = false → cut = none → buf ++ input ≠ [])

theorem runLoop_nonempty (target maxSz : Nat) (ht : 0 < target) (fuel : Nat) (cut : Option (List Entry × Nat))
    (buf : List Entry) (size : Nat) (hv : Bool) (input : List Entry) (hinv : LoopInv cut buf size hv input) :
    ∀ c ∈ runLoop target maxSz fuel cut buf size hv input, c ≠ [] := by
  induction fuel generalizing cut buf size hv input with
  | zero =>
    intro c hc
    unfold runLoop at hc
    split at hc <;> rename_i h
    · simp at hc
    · simp only [List.mem_singleton] at hc
      subst hc
      intro h0; rw [h0] at h; simp at h
  | succ f ih =>
    cases cut with
    | none =>
      obtain ⟨hsz, hne⟩ := hinv
      simp only at hsz
      unfold runLoop
      by_cases hlt : size < target
      · simp only [hlt, if_true]
        cases input with
        | nil =>
          intro c hc
          by_cases hb : (buf.isEmpty && hv) = true
          · simp [hb] at hc
          · simp only [hb, Bool.false_eq_true, if_false, List.mem_singleton] at hc
            subst hc
            intro h0
            subst h0
            cases hv with
            | true => simp at hb
            | false => exact hne rfl rfl rfl
        | cons e rest =>
          apply ih
          refine ⟨?_, fun _ _ => by simp⟩
          simp only [sumSize_append, hsz]; simp [sumSize]
      · simp only [hlt, if_false]
        apply ih
        refine ⟨⟨hsz, by simp [sumSize, hsz], ?_⟩, fun _ h => by cases h⟩
        intro h0; subst h0; simp [sumSize] at hsz; omega
    | some c =>
      obtain ⟨chunk, cs⟩ := c
      obtain ⟨⟨hcs, hsz, hch⟩, _⟩ := hinv
      unfold runLoop
      by_cases hlt : size < maxSz
      · simp only [hlt, if_true]
        cases input with
        | nil =>
          intro c hc
          simp only [List.mem_singleton] at hc
          subst hc
          intro h0; exact hch (List.append_eq_nil_iff.mp h0).1
        | cons e rest =>
          apply ih
          refine ⟨⟨hcs, ?_, hch⟩, fun _ h => by cases h⟩
          simp only [sumSize_append, hsz]; simp [sumSize]; omega
      · simp only [hlt, if_false]
        intro c hc
        simp only [List.mem_cons] at hc
        rcases hc with rfl | hc
        · exact hch
        · refine ih none buf (size - cs) true input ⟨?_, fun h => by cases h⟩ c hc
          simp only; omega

theorem writeRun_nonempty (target : Nat) (ht : 0 < target) (es : List Entry) (hes : es ≠ []) :
    ∀ c ∈ writeRun target es, c ≠ [] := by
  apply runLoop_nonempty _ _ ht
  exact ⟨rfl, fun _ _ => by simpa using hes⟩

/-- a measure that every iteration of the `WriteRun` loop decreases: consuming an entry (−3+2), cutting (−1),
flushing a non-empty chunk (≤ −2+1) -/
def loopMeasure (cut : Option (List Entry × Nat)) (buf input : List Entry) : Nat :=
  3 * input.length + 2 * (((cut.map (·.1)).getD []).length + buf.length) + (if cut.isNone then 1 else 0)

theorem inv_consume_none {buf : List Entry} {size : Nat} {hv : Bool} {e : Entry} {rest : List Entry}
    (h : LoopInv none buf size hv (e :: rest)) : LoopInv none (buf ++ [e]) (size + flushSize e) hv rest := by
  obtain ⟨hsz, _⟩ := h
  simp only at hsz
  refine ⟨?_, fun _ _ => by simp⟩
  simp only [sumSize_append, hsz]; simp [sumSize]

theorem inv_cut {target : Nat} (ht : 0 < target) {buf : List Entry} {size : Nat} {hv : Bool} {input : List Entry}
    (h : LoopInv none buf size hv input) (hge : ¬ size < target) : LoopInv (some (buf, size)) [] size hv input := by
  obtain ⟨hsz, _⟩ := h
  simp only at hsz
  refine ⟨⟨hsz, by simp [sumSize, hsz], ?_⟩, fun _ h => by cases h⟩
  intro h0; subst h0; simp [sumSize] at hsz; omega

theorem inv_consume_some {chunk : List Entry} {cs : Nat} {buf : List Entry} {size : Nat} {hv : Bool} {e : Entry}
    {rest : List Entry} (h : LoopInv (some (chunk, cs)) buf size hv (e :: rest)) :
    LoopInv (some (chunk, cs)) (buf ++ [e]) (size + flushSize e) hv rest := by
  obtain ⟨⟨hcs, hsz, hch⟩, _⟩ := h
  refine ⟨⟨hcs, ?_, hch⟩, fun _ h => by cases h⟩
  simp only [sumSize_append, hsz]; simp [sumSize]; omega

theorem inv_flush {chunk : List Entry} {cs : Nat} {buf : List Entry} {size : Nat} {hv : Bool} {input : List Entry}
    (h : LoopInv (some (chunk, cs)) buf size hv input) : LoopInv none buf (size - cs) true input := by
  obtain ⟨⟨hcs, hsz, hch⟩, _⟩ := h
  refine ⟨?_, fun h => by cases h⟩
  simp only; omega

theorem runLoop_none_succ (target maxSz fuel : Nat) (buf : List Entry) (size : Nat) (hv : Bool) (input : List Entry) :
    runLoop target maxSz (fuel + 1) none buf size hv input =
      if size < target then
        match input with
        | [] => if buf.isEmpty && hv then [] else [buf]
        | e :: rest => runLoop target maxSz fuel none (buf ++ [e]) (size + flushSize e) hv rest
      else runLoop target maxSz fuel (some (buf, size)) [] size hv input := by
  rfl

theorem runLoop_some_succ (target maxSz fuel : Nat) (chunk : List Entry) (cs : Nat) (buf : List Entry) (size : Nat)
    (hv : Bool) (input : List Entry) :
    runLoop target maxSz (fuel + 1) (some (chunk, cs)) buf size hv input =
      if size < maxSz then
        match input with
        | [] => [chunk ++ buf]
        | e :: rest => runLoop target maxSz fuel (some (chunk, cs)) (buf ++ [e]) (size + flushSize e) hv rest
      else chunk :: runLoop target maxSz fuel none buf (size - cs) true input := by
  rfl

/-- with more fuel than the measure the result does not depend on the fuel: the out-of-fuel branch is dead -/
theorem runLoop_fuel_succ (target maxSz : Nat) (ht : 0 < target) (fuel : Nat) (cut : Option (List Entry × Nat))
    (buf : List Entry) (size : Nat) (hv : Bool) (input : List Entry) (hinv : LoopInv cut buf size hv input)
    (hμ : loopMeasure cut buf input < fuel) :
    runLoop target maxSz (fuel + 1) cut buf size hv input = runLoop target maxSz fuel cut buf size hv input := by
  induction fuel generalizing cut buf size hv input with
  | zero => omega
  | succ f ih =>
    cases cut with
    | none =>
      conv => lhs; rw [runLoop_none_succ]
      conv => rhs; rw [runLoop_none_succ]
      by_cases hlt : size < target
      · simp only [hlt, if_true]
        cases input with
        | nil => rfl
        | cons e rest =>
          apply ih _ _ _ _ _ (inv_consume_none hinv)
          simp only [loopMeasure, List.length_append, List.length_cons] at hμ ⊢
          simp at hμ ⊢; omega
      · simp only [hlt, if_false]
        apply ih _ _ _ _ _ (inv_cut ht hinv hlt)
        simp only [loopMeasure] at hμ ⊢
        simp at hμ ⊢; omega
    | some c =>
      obtain ⟨chunk, cs⟩ := c
      conv => lhs; rw [runLoop_some_succ]
      conv => rhs; rw [runLoop_some_succ]
      by_cases hlt : size < maxSz
      · simp only [hlt, if_true]
        cases input with
        | nil => rfl
        | cons e rest =>
          apply ih _ _ _ _ _ (inv_consume_some hinv)
          simp only [loopMeasure] at hμ ⊢
          simp at hμ ⊢; omega
      · simp only [hlt, if_false]
        congr 1
        apply ih _ _ _ _ _ (inv_flush hinv)
        have hch : chunk ≠ [] := hinv.1.2.2
        have : 0 < chunk.length := List.length_pos_iff.mpr hch
        simp only [loopMeasure] at hμ ⊢
        simp at hμ ⊢; omega

theorem runLoop_fuel_add (target maxSz : Nat) (ht : 0 < target) (fuel k : Nat) (cut : Option (List Entry × Nat))
    (buf : List Entry) (size : Nat) (hv : Bool) (input : List Entry) (hinv : LoopInv cut buf size hv input)
    (hμ : loopMeasure cut buf input < fuel) :
    runLoop target maxSz (fuel + k) cut buf size hv input = runLoop target maxSz fuel cut buf size hv input := by
  induction k with
  | zero => rfl
  | succ k ih => rw [← Nat.add_assoc, runLoop_fuel_succ target maxSz ht (fuel + k) _ _ _ _ _ hinv (by omega), ih]

theorem writeRun_init_inv (es : List Entry) (hes : es ≠ []) : LoopInv none [] 0 false es :=
  ⟨rfl, fun _ _ => by simpa using hes⟩

theorem writeRun_fuel_independent (target : Nat) (ht : 0 < target) (es : List Entry) (k : Nat) :
    runLoop target (maxBuffer target) (3 * es.length + 3 + k) none [] 0 false es = writeRun target es := by
  by_cases hes : es = []
  · subst hes
    unfold writeRun
    simp only [List.length_nil, Nat.mul_zero, Nat.zero_add]
    rw [show 3 + k = (k + 2) + 1 by omega, runLoop_none_succ, runLoop_none_succ]
    simp [ht]
  · exact runLoop_fuel_add target _ ht _ k _ _ _ _ _ (writeRun_init_inv es hes) (by simp [loopMeasure])

/-- every table but the last holds at least `target` and less than `target + M` (flush-size) bytes; the last one
less than `bound` -/
def SizesOk (target M bound : Nat) : List (List Entry) → Prop
  | [] => True
  | [c] => sumSize c < bound
  | c :: d :: rest => (target ≤ sumSize c ∧ sumSize c < target + M) ∧ SizesOk target M bound (d :: rest)

theorem sizesOk_cons {target M bound : Nat} {c : List Entry} {R : List (List Entry)}
    (h1 : target ≤ sumSize c) (h2 : sumSize c < target + M) (hb : target + M ≤ bound) (hR : SizesOk target M bound R) :
    SizesOk target M bound (c :: R) := by
  cases R with
  | nil => exact Nat.lt_of_lt_of_le h2 hb
  | cons d rest => exact ⟨⟨h1, h2⟩, hR⟩

def SzInv (target maxSz M : Nat) (cut : Option (List Entry × Nat)) (buf : List Entry) (size : Nat) (input : List Entry) : Prop :=
  (match cut with
   | none => size = sumSize buf ∧ size < target + M
   | some (chunk, cs) => cs = sumSize chunk ∧ target ≤ cs ∧ cs < target + M ∧ size = cs + sumSize buf ∧ size < maxSz + M) ∧
  ∀ e ∈ input, flushSize e ≤ M

theorem runLoop_sizes (target maxSz M : Nat) (ht : 0 < target) (h1 : target ≤ maxSz) (h2 : maxSz ≤ 2 * target)
    (fuel : Nat) (cut : Option (List Entry × Nat)) (buf : List Entry) (size : Nat) (hv : Bool) (input : List Entry)
    (hinv : SzInv target maxSz M cut buf size input)
    (hμ : loopMeasure cut buf input < fuel) (hch : ∀ c cs, cut = some (c, cs) → c ≠ []) :
    SizesOk target M (maxSz + M) (runLoop target maxSz fuel cut buf size hv input) := by
  induction fuel generalizing cut buf size hv input with
  | zero => omega
  | succ f ih =>
    cases cut with
    | none =>
      obtain ⟨⟨hsz, hlt'⟩, hM⟩ := hinv
      rw [runLoop_none_succ]
      by_cases hlt : size < target
      · simp only [hlt, if_true]
        cases input with
        | nil =>
          by_cases hb : (buf.isEmpty && hv) = true
          · simp only [hb, if_true]; trivial
          · simp only [hb, Bool.false_eq_true, if_false]
            show sumSize buf < maxSz + M
            omega
        | cons e rest =>
          have he : flushSize e ≤ M := hM e (by simp)
          apply ih
          · refine ⟨⟨?_, ?_⟩, fun x hx => hM x (by simp [hx])⟩
            · simp only [sumSize_append, hsz]; simp [sumSize]
            · omega
          · simp only [loopMeasure] at hμ ⊢
            simp at hμ ⊢; omega
          · intro c cs h; cases h
      · simp only [hlt, if_false]
        have hne : buf ≠ [] := by
          intro h0; subst h0; simp [sumSize] at hsz; omega
        apply ih
        · exact ⟨⟨hsz, by omega, hlt', by simp [sumSize], by omega⟩, hM⟩
        · simp only [loopMeasure] at hμ ⊢
          simp at hμ ⊢; omega
        · intro c cs h
          simp only [Option.some.injEq, Prod.mk.injEq] at h
          rw [← h.1]; exact hne
    | some c =>
      obtain ⟨chunk, cs⟩ := c
      obtain ⟨⟨hcs, hge, hlt', hsz, hbd⟩, hM⟩ := hinv
      have hchunk : chunk ≠ [] := hch chunk cs rfl
      rw [runLoop_some_succ]
      by_cases hlt : size < maxSz
      · simp only [hlt, if_true]
        cases input with
        | nil =>
          show sumSize (chunk ++ buf) < maxSz + M
          rw [sumSize_append]; omega
        | cons e rest =>
          have he : flushSize e ≤ M := hM e (by simp)
          apply ih
          · refine ⟨⟨hcs, hge, hlt', ?_, by omega⟩, fun x hx => hM x (by simp [hx])⟩
            simp only [sumSize_append, hsz]; simp [sumSize]; omega
          · simp only [loopMeasure] at hμ ⊢
            simp at hμ ⊢; omega
          · exact hch
      · simp only [hlt, if_false]
        apply sizesOk_cons (by omega) (by omega) (by omega)
        apply ih
        · exact ⟨⟨by omega, by omega⟩, hM⟩
        · have : 0 < chunk.length := List.length_pos_iff.mpr hchunk
          simp only [loopMeasure] at hμ ⊢
          simp at hμ ⊢; omega
        · intro c cs h; cases h

theorem factor_bounds : Facts.sstMaxFactorDen ≤ Facts.sstMaxFactorNum ∧
    Facts.sstMaxFactorNum ≤ 2 * Facts.sstMaxFactorDen ∧ 0 < Facts.sstMaxFactorDen := by decide

theorem maxBuffer_bounds (target : Nat) : target ≤ maxBuffer target ∧ maxBuffer target ≤ 2 * target := by
  obtain ⟨h1, h2, h3⟩ := factor_bounds
  unfold maxBuffer
  constructor
  · rw [Nat.le_div_iff_mul_le h3]; exact Nat.mul_le_mul_left _ h1
  · apply Nat.div_le_of_le_mul
    calc target * Facts.sstMaxFactorNum ≤ target * (2 * Facts.sstMaxFactorDen) := Nat.mul_le_mul_left _ h2
      _ = Facts.sstMaxFactorDen * (2 * target) := by
        rw [Nat.mul_left_comm, Nat.mul_comm target]
        exact Nat.mul_left_comm _ _ _

theorem writeRun_sizesOk (target : Nat) (ht : 0 < target) (es : List Entry) (M : Nat) (hM : ∀ e ∈ es, flushSize e ≤ M) :
    SizesOk target M (maxBuffer target + M) (writeRun target es) := by
  obtain ⟨h1, h2⟩ := maxBuffer_bounds target
  apply runLoop_sizes target _ M ht h1 h2
  · exact ⟨⟨rfl, by omega⟩, hM⟩
  · simp [loopMeasure]
  · intro c cs h; cases h

theorem writeRun_pairwise (target : Nat) (es : List Entry) (hs : SortedKeys es) :
    (writeRun target es).Pairwise (fun c d => ∀ a ∈ c, ∀ b ∈ d, Bytes.lt a.key b.key = true) ∧
    ∀ c ∈ writeRun target es, SortedKeys c := by
  have h : SortedKeys (writeRun target es).flatten := by rw [writeRun_flatten]; exact hs
  have := List.pairwise_flatten.mp h
  exact ⟨this.2, this.1⟩

theorem writeRun_doc_ranges' (target : Nat) (ht : 0 < target) (es : List Entry) (hes : es ≠ []) (hs : SortedKeys es) :
    (writeRun target es).Pairwise (fun c d => Bytes.lt (docOf c).endKey (docOf d).startKey = true) := by
  have hne := writeRun_nonempty target ht es hes
  refine List.Pairwise.imp_of_mem ?_ (writeRun_pairwise target es hs).1
  intro c d hc hd h
  have hc' := hne c hc
  have hd' := hne d hd
  obtain ⟨x, hx⟩ : ∃ x, c.getLast? = some x := by
    cases hl : c.getLast? with
    | none => exact absurd (List.getLast?_eq_none_iff.mp hl) hc'
    | some x => exact ⟨x, rfl⟩
  obtain ⟨y, hy⟩ : ∃ y, d.head? = some y := by
    cases d with
    | nil => exact absurd rfl hd'
    | cons y _ => exact ⟨y, rfl⟩
  simp only [docOf, hx, hy, Option.map_some, Option.getD_some]
  exact h x (List.mem_of_getLast? hx) y (List.mem_of_head? hy)

/-- `SizesOk` spelled out: all tables but the last are within `[target, target + M)`, the last below the bound -/
theorem sizesOk_iff {target M bound : Nat} (R : List (List Entry)) (h : SizesOk target M bound R) :
    (∀ c ∈ R.dropLast, target ≤ sumSize c ∧ sumSize c < target + M) ∧
    (∀ c, R.getLast? = some c → sumSize c < bound) := by
  induction R with
  | nil => simp
  | cons c R ih =>
    cases R with
    | nil =>
      refine ⟨by simp, ?_⟩
      intro x hx; simp at hx; subst hx; exact h
    | cons d rest =>
      obtain ⟨hc, hrest⟩ := h
      obtain ⟨ih1, ih2⟩ := ih hrest
      refine ⟨?_, ?_⟩
      · intro x hx
        simp only [List.dropLast_cons_cons, List.mem_cons] at hx
        rcases hx with rfl | hx
        · exact hc
        · exact ih1 x hx
      · intro x hx
        apply ih2
        simpa [List.getLast?_cons_cons] using hx

/-- the entry overhead constant is the sum of the field widths of a put row -/
theorem entry_overhead_eq : Facts.sstEntryOverhead = lenW + u64W + tombW + lenW := by decide

/-- the bytes of a row never exceed its flush size (puts: equal; tombstones: no value length) -/
theorem encEntry_length_le (e : Entry) : (encEntry e).length ≤ Facts.sstEntryOverhead + e.key.length + e.val.length := by
  rw [entry_overhead_eq]
  simp only [encEntry, encVar, encTomb, List.length_append, leBytes_length]
  split <;> simp [leBytes_length] <;> omega

theorem sizesOk_all_lt {target M bound : Nat} (R : List (List Entry)) (h : SizesOk target M bound R)
    (hb : target + M ≤ bound) : ∀ c ∈ R, sumSize c < bound := by
  induction R with
  | nil => simp
  | cons c R ih =>
    cases R with
    | nil => intro x hx; simp at hx; subst hx; exact h
    | cons d rest =>
      obtain ⟨hc, hrest⟩ := h
      intro x hx
      simp only [List.mem_cons] at hx
      rcases hx with rfl | hx
      · omega
      · exact ih hrest x (by simpa using hx)

theorem flushBits_ge : offMod ≤ 2 ^ Facts.sstFlushSizeBits := by decide

theorem encEntries_le_sumSize (c : List Entry)
    (h : ∀ e ∈ c, Facts.sstEntryOverhead + e.key.length + e.val.length < 2 ^ Facts.sstFlushSizeBits) :
    (encEntries c).length ≤ sumSize c := by
  induction c with
  | nil => simp [encEntries, sumSize]
  | cons e c ih =>
    have he := h e (by simp)
    have := ih (fun x hx => h x (by simp [hx]))
    have hle := encEntry_length_le e
    simp only [encEntries, List.length_append, sumSize, List.map_cons, List.sum_cons, flushSize,
      Nat.mod_eq_of_lt he] at this ⊢
    omega

/-- every table of `WriteRun` stays below the `uint32` offset limit as soon as one maximal table does:
`floor(1.5·target)` plus one entry -/
theorem writeRun_table_bytes (target : Nat) (ht : 0 < target) (es : List Entry) (M : Nat)
    (hM : ∀ e ∈ es, Facts.sstEntryOverhead + e.key.length + e.val.length ≤ M)
    (hfit : maxBuffer target + M ≤ offMod) :
    ∀ c ∈ writeRun target es, (encEntries c).length < offMod := by
  intro c hc
  have hmem : ∀ e ∈ c, e ∈ es := by
    intro e he
    rw [← writeRun_flatten target es]; exact List.mem_flatten.mpr ⟨c, hc, he⟩
  have hMlt : M < 2 ^ Facts.sstFlushSizeBits := by
    have := flushBits_ge
    have := (maxBuffer_bounds target).1
    omega
  have hraw : ∀ e ∈ es, Facts.sstEntryOverhead + e.key.length + e.val.length < 2 ^ Facts.sstFlushSizeBits :=
    fun e he => Nat.lt_of_le_of_lt (hM e he) hMlt
  have hfs : ∀ e ∈ es, flushSize e ≤ M := by
    intro e he
    simp only [flushSize, Nat.mod_eq_of_lt (hraw e he)]; exact hM e he
  have hok := writeRun_sizesOk target ht es M hfs
  have := sizesOk_all_lt _ hok (by have := (maxBuffer_bounds target).1; omega) c hc
  have := encEntries_le_sumSize c (fun e he => hraw e (hmem e he))
  omega

/-- `Get` with ANY bloom filter in place of the writer's: a filter may only say "no" for absent keys to be
harmless; whenever it says "yes" (true positives and false positives alike) search + scan decide -/
theorem get_any_bloom (b : Bloom) (es : List Entry) (hwf : ∀ e ∈ es, e.WF) (hs : SortedKeys es)
    (hsz : (encEntries es).length < offMod) (key : Bytes) :
    get ⟨b, (metaOf es).offsets⟩ (encEntries es).length (encTable es) key
      = if b.mightHave key then GetRes.ofOption (lookup es key) else GetRes.notFound := by
  by_cases hb : b.mightHave key = true
  · have h := get_encTable es hwf hs hsz key
    by_cases hb' : (bloomOf es).mightHave key = true
    · unfold get at h ⊢
      simp only [metaOf, hb, hb', Bool.not_true, Bool.false_eq_true, if_false, if_true] at h ⊢
      exact h
    · -- the writer's filter says no, so the key is absent; redo the search/scan argument
      have hb'' : (bloomOf es).mightHave key = false := by simpa using hb'
      have hnone := lookup_none_of_bloom es key hb''
      unfold get
      simp only [metaOf, hb, Bool.not_true, Bool.false_eq_true, if_false, if_true, take_entries]
      obtain ⟨pre, bs, h1, h2, h3⟩ := indexOffsets_blocks es 0 0 (by omega)
      have hpre : pre = [] := h3 (Nat.zero_mod _)
      subst hpre
      simp only [List.nil_append, encEntries, List.length_nil, Nat.add_zero] at h1 h2
      rw [h2]
      by_cases hne : bs = []
      · subst hne; subst h1
        simp [blockOffsets, search, blocksFlat, encEntries, scanGet, beforeStop, lookup, GetRes.ofOption]
      · subst h1
        exact searchScan_blocks bs hne hwf hs key
  · simp only [get, hb, Bool.false_eq_true, if_false]
    simp
end Rxn.Sst
