import RxnModel.Model.Rescale
import RxnModel.Base.BytesOrder
/-! Helper lemmas for C06: sequence numbers after a multi-handle restore; the replayed memtable. -/
namespace Rxn.Rescale
open Rxn Lsm

theorem foldl_max_ge {α : Type} (f : α → Nat) : ∀ (l : List α) (init : Nat),
    init ≤ l.foldl (fun m x => max m (f x)) init ∧ ∀ x ∈ l, f x ≤ l.foldl (fun m x => max m (f x)) init := by
  intro l
  induction l with
  | nil => intro init; simp
  | cons a l ih =>
    intro init
    simp only [List.foldl_cons, List.mem_cons]
    obtain ⟨h1, h2⟩ := ih (max init (f a))
    refine ⟨by omega, ?_⟩
    rintro x (rfl | hx)
    · omega
    · exact h2 x hx

theorem seq_le_tblEndSeq (t : Tbl) (e : Entry) (he : e ∈ t.run) : e.seq ≤ tblEndSeq t :=
  (foldl_max_ge (fun e : Entry => e.seq) t.run 0).2 e he

theorem tblEndSeq_le_latest (levels : List (List Tbl)) (t : Tbl) (ht : t ∈ levels.flatten) :
    tblEndSeq t ≤ latestSeq levels :=
  (foldl_max_ge tblEndSeq levels.flatten 0).2 t ht

theorem mem_insert {r : Run} {e x : Entry} (h : x ∈ Run.insert r e) : x = e ∨ x ∈ r := by
  induction r with
  | nil => simp [Run.insert] at h; exact Or.inl h
  | cons y ys ih =>
    unfold Run.insert at h
    split at h
    · simp at h; rcases h with h | h | h
      · exact Or.inl h
      · exact Or.inr (by simp [h])
      · exact Or.inr (by simp [h])
    · simp at h; rcases h with h | h
      · exact Or.inl h
      · exact Or.inr (by simp [h])
    · simp at h; rcases h with h | h
      · exact Or.inr (by simp [h])
      · rcases ih h with h' | h'
        · exact Or.inl h'
        · exact Or.inr (by simp [h'])

/-- `lookup` after a zip-tree insert -/
theorem lookup_insert (r : Run) (e : Entry) (k : Bytes) :
    Run.lookup (Run.insert r e) k = if e.key = k then some e else Run.lookup r k := by
  induction r with
  | nil => simp [Run.insert, Run.lookup]
  | cons y ys ih =>
    unfold Run.insert
    split
    · simp [Run.lookup]
    · rename_i heq
      have hk : e.key = y.key := Bytes.cmp_eq_iff.mp heq
      simp only [Run.lookup]
      by_cases h : e.key = k
      · simp [h]
      · have : ¬ y.key = k := by rw [← hk]; exact h
        simp [h, this]
    · rename_i hgt
      have hne : ¬ y.key = e.key := by
        intro h; rw [h, Bytes.cmp_self] at hgt; cases hgt
      simp only [Run.lookup]
      by_cases hy : y.key = k
      · have : ¬ e.key = k := by intro h; exact hne (by rw [hy, h])
        simp [hy, this]
      · simp [hy, ih]

/-- the entry a write produces -/
def wEntry (seq : Nat) (k : Bytes) (del : Bool) (v : Bytes) : Entry :=
  if del then ⟨k, seq, true, []⟩ else ⟨k, seq, false, v⟩

theorem write_single (s : State) (m : Run) (hm : s.mems = [m]) (hr : s.reading = none) (k : Bytes) (del : Bool) (v : Bytes) :
    write s k del v = { s with seq := s.seq + 1, mems := [Run.insert m (wEntry (s.seq + 1) k del v)] } := by
  cases del <;> simp [write, step, Lsm.write, hm, hr, wEntry]

/-- invariant of the replay loop: one memtable whose entries are owned and numbered above `b` -/
structure ReplayInv (own : Bytes → Bool) (L : List (List Tbl)) (b : Nat) (s : State) : Prop where
  mems : ∃ m, s.mems = [m] ∧ ∀ e ∈ m, b < e.seq ∧ e.seq ≤ s.seq ∧ own e.key = true
  levels : s.levels = L
  seq : b ≤ s.seq
  reading : s.reading = none

theorem wEntry_key (n : Nat) (k : Bytes) (d : Bool) (v : Bytes) : (wEntry n k d v).key = k := by
  cases d <;> rfl

theorem wEntry_seq (n : Nat) (k : Bytes) (d : Bool) (v : Bytes) : (wEntry n k d v).seq = n := by
  cases d <;> rfl

theorem applyWal_inv (own : Bytes → Bool) (L : List (List Tbl)) (b : Nat) (s : State) (w : WalEntry)
    (h : ReplayInv own L b s) : ReplayInv own L b (applyWal own s w) := by
  unfold applyWal
  by_cases ho : own w.key = true
  · obtain ⟨m, hm, hall⟩ := h.mems
    simp only [ho, if_true]
    rw [write_single s m hm h.reading]
    refine ⟨⟨_, rfl, ?_⟩, h.levels, ?_, h.reading⟩
    · intro e he
      rcases mem_insert he with rfl | he'
      · have := h.seq
        refine ⟨by rw [wEntry_seq]; show b < s.seq + 1; omega, by rw [wEntry_seq]; exact Nat.le_refl _, by rw [wEntry_key]; exact ho⟩
      · obtain ⟨h1, h2, h3⟩ := hall e he'
        exact ⟨h1, by show e.seq ≤ s.seq + 1; omega, h3⟩
    · have := h.seq; show b ≤ s.seq + 1; omega
  · simp only [ho]; exact h

theorem foldl_applyWal_inv (own : Bytes → Bool) (L : List (List Tbl)) (b : Nat) : ∀ (wal : List WalEntry) (s : State),
    ReplayInv own L b s → ReplayInv own L b (wal.foldl (applyWal own) s) := by
  intro wal
  induction wal with
  | nil => intro s h; exact h
  | cons w ws ih => intro s h; exact ih _ (applyWal_inv own L b s w h)

theorem openDB_inv (own : Bytes → Bool) (c : Ckpt) (cs : List Ckpt) :
    ReplayInv own (mergeLevels (c :: cs)) (latestSeq (mergeLevels (c :: cs))) (openDB own (c :: cs)) := by
  unfold openDB openWith
  apply foldl_applyWal_inv
  exact ⟨⟨[], rfl, by simp⟩, rfl, Nat.le_refl _, rfl⟩

end Rxn.Rescale
