import RxnModel.Model.Watermark
/-! Helper lemmas for C11 (core only). -/
namespace Rxn.Wm

theorem advanceTime_maxTs (w : Watermarker) (t : Int) : (w.advanceTime t).maxTs = max w.maxTs t := by
  unfold Watermarker.advanceTime timeCond Facts.wmAdvanceCond
  by_cases h : t > w.maxTs
  · simp [h]; omega
  · simp [h]; omega

theorem advanceTime_lateness (w : Watermarker) (t : Int) : (w.advanceTime t).lateness = w.lateness := by
  unfold Watermarker.advanceTime
  split <;> rfl

theorem foldl_advance (ts : List Int) (w : Watermarker) :
    (ts.foldl Watermarker.advanceTime w).maxTs = maxOf w.maxTs ts ∧
    (ts.foldl Watermarker.advanceTime w).lateness = w.lateness := by
  induction ts generalizing w with
  | nil => exact ⟨rfl, rfl⟩
  | cons t ts ih =>
    have := ih (w.advanceTime t)
    simp only [List.foldl_cons, maxOf] at *
    rw [advanceTime_maxTs, advanceTime_lateness] at this
    exact this

theorem maxOf_append (m : Int) (a b : List Int) : maxOf m (a ++ b) = maxOf (maxOf m a) b := by
  simp [maxOf, List.foldl_append]

theorem maxOf_ge (ts : List Int) (m : Int) : m ≤ maxOf m ts := by
  induction ts generalizing m with
  | nil => simp [maxOf]
  | cons t ts ih =>
    have := ih (max m t)
    simp only [maxOf, List.foldl_cons] at *
    omega

theorem maxOf_ge_mem (ts : List Int) (m t : Int) (h : t ∈ ts) : t ≤ maxOf m ts := by
  induction ts generalizing m with
  | nil => cases h
  | cons x ts ih =>
    simp only [maxOf, List.foldl_cons]
    cases h with
    | head => have := maxOf_ge ts (max m t); simp only [maxOf] at this; omega
    | tail _ h' => exact ih (max m x) h'

/-- the running maximum is the start value or one of the elements -/
theorem maxOf_attained (ts : List Int) (m : Int) : maxOf m ts = m ∨ maxOf m ts ∈ ts := by
  induction ts generalizing m with
  | nil => left; rfl
  | cons x ts ih =>
    simp only [maxOf, List.foldl_cons]
    rcases ih (max m x) with h | h
    · simp only [maxOf] at h
      rw [h]
      by_cases hx : m ≤ x
      · right; rw [Int.max_eq_right hx]; exact List.mem_cons_self
      · left; exact Int.max_eq_left (by omega)
    · right; exact List.mem_cons_of_mem _ h

theorem runnerStep_state (w : Watermarker) (e : REv) :
    (runnerStep w e).1.lateness = w.lateness ∧
    (runnerStep w e).1.maxTs = maxOf w.maxTs (forwarded [e]) := by
  cases e with
  | events ts =>
    have := foldl_advance ts w
    simp [runnerStep, forwarded, this.1, this.2]
  | tick => simp [runnerStep, forwarded, maxOf]

theorem runnerState_spec (evs : List REv) (w : Watermarker) :
    (runnerState w evs).lateness = w.lateness ∧
    (runnerState w evs).maxTs = maxOf w.maxTs (forwarded evs) := by
  induction evs generalizing w with
  | nil => simp [runnerState, forwarded, maxOf]
  | cons e es ih =>
    have h1 := runnerStep_state w e
    have h2 := ih (runnerStep w e).1
    simp only [runnerState]
    refine ⟨by rw [h2.1, h1.1], ?_⟩
    rw [h2.2, h1.2]
    cases e with
    | events ts => simp [forwarded, maxOf_append]
    | tick => simp [forwarded, maxOf]

theorem runnerRun_split (pre post : List REv) (w : Watermarker) :
    runnerRun w (pre ++ REv.tick :: post) =
      runnerRun w pre ++ (runnerState w pre).current :: runnerRun (runnerState w pre) post := by
  induction pre generalizing w with
  | nil => simp [runnerRun, runnerState, runnerStep]
  | cons e es ih =>
    cases e with
    | events ts => simp [runnerRun, runnerState, runnerStep, ih]
    | tick => simp [runnerRun, runnerState, runnerStep, ih]

theorem current_mono (w w' : Watermarker) (hl : w'.lateness = w.lateness) (hm : w.maxTs ≤ w'.maxTs) :
    w.current ≤ w'.current := by
  unfold Watermarker.current; rw [hl]; omega

theorem runnerRun_ge (evs : List REv) (w : Watermarker) : ∀ v ∈ runnerRun w evs, w.current ≤ v := by
  induction evs generalizing w with
  | nil => intro v h; cases h
  | cons e es ih =>
    intro v hv
    have hs := runnerStep_state w e
    have hmono : w.current ≤ (runnerStep w e).1.current :=
      current_mono _ _ hs.1 (by rw [hs.2]; exact maxOf_ge _ _)
    cases e with
    | events ts =>
      simp only [runnerRun, runnerStep] at hv
      have := ih _ v hv
      simp only [runnerStep] at hmono
      omega
    | tick =>
      simp only [runnerRun, runnerStep, List.mem_cons] at hv
      rcases hv with rfl | hv
      · exact Int.le_refl _
      · exact ih _ v hv

theorem runnerRun_pairwise (evs : List REv) (w : Watermarker) : (runnerRun w evs).Pairwise (· ≤ ·) := by
  induction evs generalizing w with
  | nil => exact List.Pairwise.nil
  | cons e es ih =>
    cases e with
    | events ts => simpa [runnerRun, runnerStep] using ih _
    | tick =>
      simp only [runnerRun, runnerStep]
      exact List.Pairwise.cons (fun v hv => runnerRun_ge es w v hv) (ih w)

/-! ### delivered stream -/

theorem streamOK_append_evs (lat : Int) (ts : List Int) (m : Int) (s : List SEv) :
    streamOK lat m (ts.map SEv.ev ++ s) ↔ streamOK lat (maxOf m ts) s := by
  induction ts generalizing m with
  | nil => simp [maxOf]
  | cons t ts ih =>
    simp only [List.map_cons, List.cons_append, streamOK, maxOf, List.foldl_cons]
    exact ih (max m t)

theorem sentStream_ok (evs : List REv) (w : Watermarker) : streamOK w.lateness w.maxTs (sentStream w evs) := by
  induction evs generalizing w with
  | nil => trivial
  | cons e es ih =>
    cases e with
    | events ts =>
      simp only [sentStream]
      rw [streamOK_append_evs]
      have h := foldl_advance ts w
      have := ih (ts.foldl Watermarker.advanceTime w)
      rw [h.1, h.2] at this
      exact this
    | tick =>
      simp only [sentStream, streamOK]
      refine ⟨?_, ih w⟩
      simp [Watermarker.current, Facts.wmSlackNs]

theorem streamOK_take (lat : Int) (k : Nat) (s : List SEv) (m : Int) (h : streamOK lat m s) :
    streamOK lat m (s.take k) := by
  induction s generalizing m k with
  | nil => simp [streamOK]
  | cons x xs ih =>
    cases k with
    | zero => simp [streamOK]
    | succ k =>
      cases x with
      | ev t => simp only [List.take_succ_cons, streamOK] at h ⊢; exact ih k _ h
      | wm v => simp only [List.take_succ_cons, streamOK] at h ⊢; exact ⟨h.1, ih k _ h.2⟩

/-- the watermarks of a stream that satisfies `streamOK` never decrease and stay below the largest event before them -/
theorem streamOK_wm_bounds (lat : Int) (hlat : 0 ≤ lat) (s : List SEv) (m : Int) (h : streamOK lat m s) :
    ∀ v, SEv.wm v ∈ s → m - (lat + 1) ≤ v := by
  induction s generalizing m with
  | nil => intro v hv; cases hv
  | cons x xs ih =>
    intro v hv
    cases x with
    | ev t =>
      simp only [streamOK] at h
      rcases List.mem_cons.mp hv with e | e
      · cases e
      · have := ih _ h v e; omega
    | wm u =>
      simp only [streamOK] at h
      rcases List.mem_cons.mp hv with e | e
      · cases e; omega
      · exact ih _ h.2 v e

/-! ### several operators -/

theorem sentTagged_erase (evs : List REvK) (w : Watermarker) :
    (sentTagged w evs).map (·.2) = sentStream w (evs.map REvK.erase) := by
  induction evs generalizing w with
  | nil => rfl
  | cons e es ih =>
    cases e with
    | events kts =>
      simp only [sentTagged, List.map_cons, REvK.erase, sentStream, List.map_append, List.map_map, ih]
      rfl
    | tick => simp only [sentTagged, List.map_cons, REvK.erase, sentStream, ih]

theorem streamOf_sublist (j : Nat) (s : List (Option Nat × SEv)) : (streamOf j s).Sublist (s.map (·.2)) := by
  unfold streamOf
  exact List.Sublist.map _ List.filter_sublist

theorem watermarksOf_sublist {a b : List SEv} (h : a.Sublist b) : (watermarksOf a).Sublist (watermarksOf b) := by
  induction h with
  | slnil => exact List.Sublist.slnil
  | cons x _ ih => cases x <;> simp only [watermarksOf] <;> first | exact ih | exact List.Sublist.cons _ ih
  | cons_cons x _ ih => cases x <;> simp only [watermarksOf] <;> first | exact ih | exact List.Sublist.cons_cons _ ih

/-- the watermarks of the stream handed to the operators are exactly the runner's broadcast watermarks -/
theorem watermarksOf_sentStream (evs : List REv) (w : Watermarker) : watermarksOf (sentStream w evs) = runnerRun w evs := by
  induction evs generalizing w with
  | nil => rfl
  | cons e es ih =>
    cases e with
    | events ts =>
      simp only [sentStream, runnerRun, runnerStep]
      have : ∀ (l : List Int) (s : List SEv), watermarksOf (l.map SEv.ev ++ s) = watermarksOf s := by
        intro l s; induction l with
        | nil => rfl
        | cons x xs ihx => simpa [watermarksOf] using ihx
      rw [this, ih]
    | tick => simp only [sentStream, runnerRun, runnerStep, watermarksOf, ih]

/-- every watermark of a stream is the largest event timestamp of the WHOLE stream before it minus (lateness + 1) -/
theorem streamOK_all_prefixes (w : Watermarker) (evs : List REv) (k : Nat) :
    streamOK w.lateness w.maxTs ((sentStream w evs).take k) :=
  streamOK_take _ k _ _ (sentStream_ok evs w)

/-! ### upstream map -/

def Ups.wf (u : Ups) : Prop := (u.map (·.1)).Nodup

theorem Ups.get?_set (u : Ups) (id : String) (v : Int) (k : String) :
    (u.set id v).get? k = if k = id then some v else u.get? k := by
  induction u with
  | nil =>
    simp only [Ups.set, Ups.get?]
    by_cases h : k = id
    · simp [h]
    · have : ¬ id = k := fun e => h e.symm
      simp [h, this]
  | cons p rest ih =>
    obtain ⟨a, x⟩ := p
    simp only [Ups.set]
    by_cases h1 : a = id
    · subst h1
      simp only [if_true, Ups.get?]
      by_cases h2 : a = k
      · subst h2; simp
      · have : ¬ k = a := fun e => h2 e.symm
        simp [h2, this]
    · simp only [h1, if_false, Ups.get?]
      by_cases h2 : a = k
      · subst h2; simp [h1]
      · simp only [h2, if_false]; exact ih

theorem Ups.mem_keys_set (u : Ups) (id : String) (v : Int) (k : String) :
    k ∈ (u.set id v).map (·.1) ↔ k = id ∨ k ∈ u.map (·.1) := by
  induction u with
  | nil => simp [Ups.set]
  | cons p rest ih =>
    obtain ⟨a, x⟩ := p
    simp only [Ups.set]
    by_cases h1 : a = id
    · subst h1; simp
    · simp only [h1, if_false, List.map_cons, List.mem_cons, ih]
      constructor
      · rintro (h | h | h)
        · right; left; exact h
        · left; exact h
        · right; right; exact h
      · rintro (h | h | h)
        · right; left; exact h
        · left; exact h
        · right; right; exact h

theorem Ups.wf_set (u : Ups) (id : String) (v : Int) (h : u.wf) : (u.set id v).wf := by
  induction u with
  | nil => simp [Ups.set, Ups.wf]
  | cons p rest ih =>
    obtain ⟨a, x⟩ := p
    simp only [Ups.wf, List.map_cons, List.nodup_cons] at h
    simp only [Ups.set]
    by_cases h1 : a = id
    · subst h1; simp only [if_true, Ups.wf, List.map_cons, List.nodup_cons]; exact h
    · simp only [h1, if_false, Ups.wf, List.map_cons, List.nodup_cons]
      refine ⟨?_, ih h.2⟩
      intro hm
      rcases (Ups.mem_keys_set rest id v a).mp hm with e | e
      · exact h1 e
      · exact h.1 e

theorem Ups.get?_some_of_mem (u : Ups) (h : u.wf) (k : String) (x : Int) (hm : (k, x) ∈ u) : u.get? k = some x := by
  induction u with
  | nil => cases hm
  | cons p rest ih =>
    obtain ⟨a, y⟩ := p
    simp only [Ups.wf, List.map_cons, List.nodup_cons] at h
    simp only [Ups.get?]
    rcases List.mem_cons.mp hm with e | e
    · cases e; simp
    · have : a ≠ k := by
        intro e'; subst e'
        exact h.1 (List.mem_map.mpr ⟨(a, x), e, rfl⟩)
      simp only [this, if_false]
      exact ih h.2 e

theorem Ups.mem_of_get? (u : Ups) (k : String) (x : Int) (h : u.get? k = some x) : (k, x) ∈ u := by
  induction u with
  | nil => simp [Ups.get?] at h
  | cons p rest ih =>
    obtain ⟨a, y⟩ := p
    simp only [Ups.get?] at h
    by_cases h1 : a = k
    · subst h1; simp at h; subst h; exact List.mem_cons_self
    · simp only [h1, if_false] at h; exact List.mem_cons_of_mem _ (ih h)

theorem Ups.get?_isSome_iff (u : Ups) (k : String) : (u.get? k).isSome ↔ k ∈ u.map (·.1) := by
  induction u with
  | nil => simp [Ups.get?]
  | cons p rest ih =>
    obtain ⟨a, y⟩ := p
    simp only [Ups.get?, List.map_cons, List.mem_cons]
    by_cases h1 : a = k
    · subst h1; simp
    · have : ¬ k = a := fun e => h1 e.symm
      simp only [h1, if_false, this, false_or]; exact ih

theorem foldl_min_le (l : List Int) (v : Int) : l.foldl min v ≤ v ∧ ∀ x ∈ l, l.foldl min v ≤ x := by
  induction l generalizing v with
  | nil => simp
  | cons y l ih =>
    have := ih (min v y)
    simp only [List.foldl_cons]
    refine ⟨by omega, ?_⟩
    intro x hx
    rcases List.mem_cons.mp hx with e | e
    · subst e; omega
    · exact this.2 x e

theorem foldl_min_attained (l : List Int) (v : Int) : l.foldl min v = v ∨ l.foldl min v ∈ l := by
  induction l generalizing v with
  | nil => left; rfl
  | cons y l ih =>
    simp only [List.foldl_cons]
    rcases ih (min v y) with h | h
    · rw [h]
      by_cases hy : v ≤ y
      · left; exact Int.min_eq_left hy
      · right; rw [Int.min_eq_right (by omega)]; exact List.mem_cons_self
    · right; exact List.mem_cons_of_mem _ h

/-- the composite is the minimum of the map's values -/
theorem Ups.composite_spec (u : Ups) (hne : u ≠ []) :
    (∀ k x, (k, x) ∈ u → u.composite ≤ x) ∧ ∃ k x, (k, x) ∈ u ∧ u.composite = x := by
  cases u with
  | nil => exact absurd rfl hne
  | cons p rest =>
    obtain ⟨a, v⟩ := p
    simp only [Ups.composite]
    have h1 := foldl_min_le (rest.map (·.2)) v
    refine ⟨?_, ?_⟩
    · intro k x hm
      rcases List.mem_cons.mp hm with e | e
      · cases e; exact h1.1
      · exact h1.2 x (List.mem_map.mpr ⟨(k, x), e, rfl⟩)
    · rcases foldl_min_attained (rest.map (·.2)) v with h | h
      · exact ⟨a, v, List.mem_cons_self, h⟩
      · obtain ⟨⟨k, x⟩, hm, hx⟩ := List.mem_map.mp h
        exact ⟨k, x, List.mem_cons_of_mem _ hm, hx.symm⟩

theorem Ups.set_ne_nil (u : Ups) (id : String) (v : Int) : u.set id v ≠ [] := by
  cases u with
  | nil => simp [Ups.set]
  | cons p rest =>
    obtain ⟨a, x⟩ := p
    simp only [Ups.set]; split <;> simp

theorem lastOrFrom_of_mem (ms : List (String × Int)) (k : String) (d d' : Int) (h : k ∈ ms.map (·.1)) :
    lastOrFrom d ms k = lastOrFrom d' ms k := by
  induction ms generalizing d d' with
  | nil => cases h
  | cons m ms ih =>
    obtain ⟨a, v⟩ := m
    simp only [lastOrFrom]
    by_cases h1 : a = k
    · simp [h1]
    · simp only [h1, if_false]
      simp only [List.map_cons, List.mem_cons] at h
      rcases h with e | e
      · exact absurd e.symm h1
      · exact ih d d' e

/-- the map after a message sequence: every configured or reporting runner is present with its latest report -/
theorem reportAll_spec (ms : List (String × Int)) (u : Ups) (w : Int) (hwf : u.wf) :
    (reportAll (u, w) ms).1.wf ∧
    (∀ k, (reportAll (u, w) ms).1.get? k =
      if (u.get? k).isSome ∨ k ∈ ms.map (·.1) then some (lastOrFrom ((u.get? k).getD upstreamInit) ms k) else none) ∧
    (ms ≠ [] → (reportAll (u, w) ms).2 = (reportAll (u, w) ms).1.composite) := by
  induction ms generalizing u w with
  | nil =>
    refine ⟨hwf, ?_, fun h => absurd rfl h⟩
    intro k
    simp only [reportAll, List.map_nil, List.not_mem_nil, or_false, lastOrFrom]
    cases h : u.get? k <;> simp
  | cons m ms ih =>
    obtain ⟨id, v⟩ := m
    simp only [reportAll, Ups.report]
    have hwf' := Ups.wf_set u id v hwf
    obtain ⟨i1, i2, i3⟩ := ih (u.set id v) (u.set id v).composite hwf'
    refine ⟨i1, ?_, ?_⟩
    · intro k
      rw [i2 k, Ups.get?_set]
      simp only [lastOrFrom, List.map_cons, List.mem_cons]
      by_cases hk : k = id
      · subst hk
        simp
      · have hk' : ¬ id = k := fun e => hk e.symm
        simp only [hk, if_false, hk', false_or]
    · intro _
      cases ms with
      | nil => simp [reportAll]
      | cons m' ms' => exact i3 (by simp)

theorem Ups.init_spec (ids : List String) :
    (Ups.init ids).wf ∧ ∀ k, (Ups.init ids).get? k = if k ∈ ids then some upstreamInit else none := by
  unfold Ups.init
  suffices h : ∀ (u : Ups), u.wf → (∀ k x, u.get? k = some x → x = upstreamInit) →
      (ids.foldl (fun u id => u.set id upstreamInit) u).wf ∧
      ∀ k, (ids.foldl (fun u id => u.set id upstreamInit) u).get? k =
        if k ∈ ids then some upstreamInit else u.get? k by
    have := h [] (by simp [Ups.wf]) (by intro k x hx; simp [Ups.get?] at hx)
    refine ⟨this.1, ?_⟩
    intro k; rw [this.2 k]; simp [Ups.get?]
  induction ids with
  | nil => intro u hu _; exact ⟨hu, fun k => by simp⟩
  | cons id ids ih =>
    intro u hu hall
    simp only [List.foldl_cons]
    have hall' : ∀ k x, (u.set id upstreamInit).get? k = some x → x = upstreamInit := by
      intro k x hx
      rw [Ups.get?_set] at hx
      by_cases hk : k = id
      · simp [hk] at hx; exact hx.symm
      · simp only [hk, if_false] at hx; exact hall k x hx
    obtain ⟨j1, j2⟩ := ih (u.set id upstreamInit) (Ups.wf_set u id _ hu) hall'
    refine ⟨j1, ?_⟩
    intro k
    rw [j2 k, Ups.get?_set]
    simp only [List.mem_cons]
    by_cases h1 : k ∈ ids
    · simp [h1]
    · by_cases hk : k = id
      · simp [hk]
      · simp [h1, hk]

end Rxn.Wm
