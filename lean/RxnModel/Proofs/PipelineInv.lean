import RxnModel.Proofs.Pipeline
namespace Rxn.Pipeline
variable {σ : Type}

structure Core (cfg : Cfg σ) (s : State σ) : Prop where
  main : ∀ k sp, idxOf sp (s.log (cfg.route s.n k) k) ++ projI k sp (s.queue (cfg.assign s.n sp) (cfg.route s.n k))
      = routed cfg k sp (s.cursor sp)
  own : ∀ o k, cfg.route s.n k ≠ o → s.log o k = []
  qwf : ∀ r o e, Item.ev e ∈ s.queue r o →
      cfg.route s.n e.key = o ∧ cfg.assign s.n e.split = r ∧ e.key = cfg.key e.split e.idx
  hst : ∀ o k, s.st o k = foldLog cfg k (s.log o k)
  ck : ∀ c, (c ∈ s.writing ∨ c ∈ s.published) → CkptOK cfg c

structure PendOK (cfg : Cfg σ) (s : State σ) (p : Pend σ) : Prop where
  npos : 0 < s.n
  cnt : ∀ r o, r < s.n → o < s.n → countBar (s.queue r o) = if r ∈ p.rAck ∧ o ∉ p.oAck then 1 else 0
  pre : ∀ r o, r < s.n → o < s.n → r ∈ p.rAck → o ∉ p.oAck → ∀ k sp, cfg.route s.n k = o → cfg.assign s.n sp = r →
      idxOf sp (s.log o k) ++ preProj k sp (s.queue r o) = routed cfg k sp (p.cut sp)
  snap : ∀ o, o ∈ p.oAck → o < s.n ∧ (∀ r, r < s.n → r ∈ p.rAck) ∧
      (∀ k sp, cfg.route s.n k = o → idxOf sp (p.slog o k) = routed cfg k sp (p.cut sp)) ∧
      (∀ k, p.sst o k = foldLog cfg k (p.slog o k))

structure Inv (cfg : Cfg σ) (s : State σ) : Prop extends Core cfg s where
  pnone : s.pending = none → ∀ r o, r < s.n → o < s.n → countBar (s.queue r o) = 0
  psome : ∀ p, s.pending = some p → PendOK cfg s p

theorem core_read (cfg : Cfg σ) (s : State σ) (hc : Core cfg s) (sp : Nat) :
    Core cfg { s with
      cursor := fun x => if x = sp then s.cursor sp + 1 else s.cursor x
      queue := fun a b => if a = cfg.assign s.n sp ∧ b = cfg.route s.n (cfg.key sp (s.cursor sp)) then
        s.queue (cfg.assign s.n sp) (cfg.route s.n (cfg.key sp (s.cursor sp))) ++
          [Item.ev ⟨cfg.key sp (s.cursor sp), sp, s.cursor sp⟩] else s.queue a b } := by
  constructor
  · intro k sp2
    dsimp only
    have hm := hc.main k sp2
    by_cases hsp : sp2 = sp
    · subst hsp
      rw [if_pos rfl, routed_succ, ← hm]
      by_cases hk : cfg.key sp2 (s.cursor sp2) = k
      · subst hk
        simp [projI_snoc_ev]
      · by_cases hr : cfg.route s.n k = cfg.route s.n (cfg.key sp2 (s.cursor sp2))
        · simp [hr, projI_snoc_ev, hk]
        · simp [hr, hk]
    · rw [if_neg hsp, ← hm]
      have hsp' : ¬ sp = sp2 := fun e => hsp e.symm
      by_cases hr : cfg.assign s.n sp2 = cfg.assign s.n sp ∧ cfg.route s.n k = cfg.route s.n (cfg.key sp (s.cursor sp))
      · rw [if_pos hr, hr.1, hr.2]
        simp [projI_snoc_ev, hsp']
      · rw [if_neg hr]
  · exact hc.own
  · intro r o e he
    dsimp only at he
    split at he
    · rename_i h
      rcases List.mem_append.1 he with h1 | h1
      · rw [h.1, h.2]; exact hc.qwf _ _ _ h1
      · simp at h1
        subst h1
        simp [h.1, h.2]
    · exact hc.qwf _ _ _ he
  · exact hc.hst
  · exact hc.ck

theorem pend_read (cfg : Cfg σ) (s : State σ) (p : Pend σ) (hp : PendOK cfg s p) (sp : Nat) :
    PendOK cfg { s with
      cursor := fun x => if x = sp then s.cursor sp + 1 else s.cursor x
      queue := fun a b => if a = cfg.assign s.n sp ∧ b = cfg.route s.n (cfg.key sp (s.cursor sp)) then
        s.queue (cfg.assign s.n sp) (cfg.route s.n (cfg.key sp (s.cursor sp))) ++
          [Item.ev ⟨cfg.key sp (s.cursor sp), sp, s.cursor sp⟩] else s.queue a b } p := by
  constructor
  · exact hp.npos
  · intro r o hr ho
    dsimp only at hr ho ⊢
    split
    · rename_i h
      rw [countBar_snoc_ev, ← h.1, ← h.2]
      exact hp.cnt r o hr ho
    · exact hp.cnt r o hr ho
  · intro r o hr ho hra hoa k sp2 hk hs
    dsimp only at hr ho hk hs ⊢
    have h1 := hp.cnt r o hr ho
    rw [if_pos ⟨hra, hoa⟩] at h1
    split
    · rename_i h
      rw [← h.1, ← h.2, preProj_append_of_bar _ _ _ _ (by omega)]
      exact hp.pre r o hr ho hra hoa k sp2 hk hs
    · exact hp.pre r o hr ho hra hoa k sp2 hk hs
  · exact hp.snap

theorem inv_read (cfg : Cfg σ) (s : State σ) (hi : Inv cfg s) (sp : Nat) :
    Inv cfg { s with
      cursor := fun x => if x = sp then s.cursor sp + 1 else s.cursor x
      queue := fun a b => if a = cfg.assign s.n sp ∧ b = cfg.route s.n (cfg.key sp (s.cursor sp)) then
        s.queue (cfg.assign s.n sp) (cfg.route s.n (cfg.key sp (s.cursor sp))) ++
          [Item.ev ⟨cfg.key sp (s.cursor sp), sp, s.cursor sp⟩] else s.queue a b } := by
  refine ⟨core_read cfg s hi.toCore sp, ?_, ?_⟩
  · intro hpn r o hr ho
    dsimp only at hpn hr ho ⊢
    split
    · rename_i h
      rw [countBar_snoc_ev, ← h.1, ← h.2]
      exact hi.pnone hpn r o hr ho
    · exact hi.pnone hpn r o hr ho
  · intro p hp
    exact pend_read cfg s p (hi.psome p hp) sp

theorem inv_settle (cfg : Cfg σ) (wf : cfg.WF) (s : State σ) (p : Pend σ) (hc : Core cfg s) (hp : PendOK cfg s p) :
    Inv cfg (settle s p) := by
  unfold settle
  split
  · rename_i h
    obtain ⟨hr, ho⟩ := (complete_iff p s.n).1 h
    refine ⟨⟨hc.main, hc.own, hc.qwf, hc.hst, ?_⟩, ?_, ?_⟩
    · intro c hcm
      dsimp only at hcm
      rcases hcm with h1 | h1
      · rcases List.mem_cons.1 h1 with h2 | h2
        · subst h2
          have hlt : ∀ k, cfg.route s.n k < s.n := fun k => wf.route_lt s.n k hp.npos
          refine ⟨hp.npos, fun k sp => ?_, fun k => ?_⟩
          · exact (hp.snap _ (ho _ (hlt k))).2.2.1 k sp rfl
          · exact (hp.snap _ (ho _ (hlt k))).2.2.2 k
        · exact hc.ck c (Or.inl h2)
      · exact hc.ck c (Or.inr h1)
    · intro _ r o hr' ho'
      dsimp only at hr' ho' ⊢
      rw [hp.cnt r o hr' ho', if_neg]
      intro hh
      exact hh.2 (ho o ho')
    · intro p' h'
      cases h'
  · refine ⟨⟨hc.main, hc.own, hc.qwf, hc.hst, hc.ck⟩, ?_, ?_⟩
    · intro h'
      cases h'
    · intro p' h'
      cases h'
      exact ⟨hp.npos, hp.cnt, hp.pre, hp.snap⟩

theorem inv_start (cfg : Cfg σ) (s : State σ) (hi : Inv cfg s) (hpn : s.pending = none) (hn : 0 < s.n) :
    Inv cfg { s with
      pending := some { id := s.nextId, rAck := [], oAck := [], cut := fun _ => 0,
                        slog := fun _ _ => [], sst := fun _ _ => cfg.init }
      nextId := s.nextId + 1 } := by
  refine ⟨⟨hi.main, hi.own, hi.qwf, hi.hst, hi.ck⟩, ?_, ?_⟩
  · intro h'
    cases h'
  · intro p' h'
    cases h'
    refine ⟨hn, ?_, ?_, ?_⟩
    · intro r o hr ho
      simp only [List.not_mem_nil, false_and, if_false]
      exact hi.pnone hpn r o hr ho
    · intro r o _ _ hra
      cases hra
    · intro o ho
      cases ho

theorem core_barrier (cfg : Cfg σ) (s : State σ) (hc : Core cfg s) (r : Nat) :
    Core cfg { s with queue := fun a b => if a = r then s.queue a b ++ [Item.bar] else s.queue a b } := by
  refine ⟨?_, hc.own, ?_, hc.hst, hc.ck⟩
  · intro k sp
    dsimp only
    rw [← hc.main k sp]
    split
    · rw [projI_snoc_bar]
    · rfl
  · intro a b e he
    dsimp only at he
    split at he
    · rcases List.mem_append.1 he with h1 | h1
      · exact hc.qwf _ _ _ h1
      · simp at h1
    · exact hc.qwf _ _ _ he

theorem pend_barrier (cfg : Cfg σ) (s : State σ) (p : Pend σ) (hc : Core cfg s) (hp : PendOK cfg s p) (r : Nat)
    (hr : r < s.n) (hra : r ∉ p.rAck) :
    PendOK cfg { s with queue := fun a b => if a = r then s.queue a b ++ [Item.bar] else s.queue a b }
      { p with
        rAck := r :: p.rAck
        cut := fun sp => if cfg.assign s.n sp = r then s.cursor sp else p.cut sp } := by
  have hno : ∀ o, o ∉ p.oAck := fun o ho => hra ((hp.snap o ho).2.1 r hr)
  refine ⟨hp.npos, ?_, ?_, ?_⟩
  · intro a b ha hb
    dsimp only at ha hb ⊢
    have h0 := hp.cnt a b ha hb
    by_cases har : a = r
    · subst har
      rw [if_pos rfl, countBar_snoc_bar, h0]
      simp [hra, hno b]
    · rw [if_neg har, h0]
      simp [har]
  · intro a b ha hb haa hbb k sp hk hs
    dsimp only at ha hb haa hbb hk hs ⊢
    by_cases har : a = r
    · subst har
      have h0 := hp.cnt a b ha hb
      rw [if_neg (fun h => hra h.1)] at h0
      rw [if_pos rfl, if_pos hs, preProj_snoc_bar_nobar _ _ _ h0, ← hk, ← hs]
      exact hc.main k sp
    · rw [if_neg har, if_neg (by rw [hs]; exact har)]
      have haa' : a ∈ p.rAck := by
        rcases List.mem_cons.1 haa with h | h
        · exact absurd h har
        · exact h
      exact hp.pre a b ha hb haa' hbb k sp hk hs
  · intro o ho
    exact absurd ho (hno o)

/-- the bookkeeping of one delivery, for `projI` and for `preProj` alike -/
theorem deliver_shift (cfg : Cfg σ) (s : State σ) (P : Nat → Nat → List Item → List Nat)
    (hP : ∀ k sp e t, P k sp (Item.ev e :: t) = (if e.key = k ∧ e.split = sp then [e.idx] else []) ++ P k sp t)
    (r o : Nat) (e : Entry) (rest : List Item) (hq : s.queue r o = Item.ev e :: rest)
    (he1 : cfg.route s.n e.key = o) (he2 : cfg.assign s.n e.split = r) (k sp : Nat) (X : List Nat)
    (h : idxOf sp (s.log (cfg.route s.n k) k) ++ P k sp (s.queue (cfg.assign s.n sp) (cfg.route s.n k)) = X) :
    idxOf sp (if cfg.route s.n k = o ∧ k = e.key then s.log o e.key ++ [(e.split, e.idx)]
        else s.log (cfg.route s.n k) k) ++
      P k sp (if cfg.assign s.n sp = r ∧ cfg.route s.n k = o then rest
        else s.queue (cfg.assign s.n sp) (cfg.route s.n k)) = X := by
  by_cases hk : k = e.key
  · subst hk
    rw [he1] at h ⊢
    rw [if_pos ⟨rfl, rfl⟩]
    by_cases hr : cfg.assign s.n sp = r
    · rw [hr] at h ⊢
      rw [if_pos ⟨rfl, rfl⟩, idxOf_snoc]
      rw [hq, hP] at h
      rw [← h]
      by_cases hs : e.split = sp <;> simp [hs]
    · have hs : ¬ e.split = sp := fun hs => hr (by rw [← hs]; exact he2)
      rw [if_neg (fun hh => hr hh.1), idxOf_snoc, if_neg hs, List.append_nil]
      exact h
  · rw [if_neg (fun hh => hk hh.2)]
    by_cases hc : cfg.assign s.n sp = r ∧ cfg.route s.n k = o
    · rw [if_pos hc]
      rw [hc.1, hc.2, hq, hP, if_neg (fun hh => hk hh.1.symm), List.nil_append] at h
      rw [hc.2]
      exact h
    · rw [if_neg hc]
      exact h

theorem core_deliver (cfg : Cfg σ) (s : State σ) (hc : Core cfg s) (r o : Nat) (e : Entry) (rest : List Item)
    (hq : s.queue r o = Item.ev e :: rest) :
    Core cfg { s with
        queue := fun a b => if a = r ∧ b = o then rest else s.queue a b
        log := fun a k => if a = o ∧ k = e.key then s.log o e.key ++ [(e.split, e.idx)] else s.log a k
        st := fun a k => if a = o ∧ k = e.key then cfg.h (s.st o e.key) e else s.st a k } := by
  have hmem : Item.ev e ∈ s.queue r o := by rw [hq]; exact List.mem_cons_self
  obtain ⟨he1, he2, _⟩ := hc.qwf r o e hmem
  refine ⟨?_, ?_, ?_, ?_, hc.ck⟩
  · intro k sp
    exact deliver_shift cfg s projI projI_cons_ev r o e rest hq he1 he2 k sp _ (hc.main k sp)
  · intro a k hne
    dsimp only at hne ⊢
    split
    · rename_i h
      exact absurd (by rw [h.2, h.1]; exact he1) hne
    · exact hc.own a k hne
  · intro a b e2 hm
    dsimp only at hm ⊢
    split at hm
    · rename_i h
      rw [h.1, h.2]
      exact hc.qwf r o e2 (by rw [hq]; exact List.mem_cons_of_mem _ hm)
    · exact hc.qwf a b e2 hm
  · intro a k
    dsimp only
    split
    · rw [foldLog_snoc, hc.hst o e.key]
      rename_i h
      rw [h.2]
    · exact hc.hst a k

theorem countBar_deliver (s : State σ) (r o : Nat) (e : Entry) (rest : List Item)
    (hq : s.queue r o = Item.ev e :: rest) (a b : Nat) :
    countBar (if a = r ∧ b = o then rest else s.queue a b) = countBar (s.queue a b) := by
  split
  · rename_i h
    rw [h.1, h.2, hq, countBar_cons_ev]
  · rfl

theorem inv_deliver (cfg : Cfg σ) (s : State σ) (hi : Inv cfg s) (r o : Nat) (e : Entry) (rest : List Item)
    (hq : s.queue r o = Item.ev e :: rest) :
    Inv cfg { s with
        queue := fun a b => if a = r ∧ b = o then rest else s.queue a b
        log := fun a k => if a = o ∧ k = e.key then s.log o e.key ++ [(e.split, e.idx)] else s.log a k
        st := fun a k => if a = o ∧ k = e.key then cfg.h (s.st o e.key) e else s.st a k } := by
  have hmem : Item.ev e ∈ s.queue r o := by rw [hq]; exact List.mem_cons_self
  obtain ⟨he1, he2, _⟩ := hi.qwf r o e hmem
  refine ⟨core_deliver cfg s hi.toCore r o e rest hq, ?_, ?_⟩
  · intro hpn a b ha hb
    dsimp only at hpn ha hb ⊢
    rw [countBar_deliver s r o e rest hq]
    exact hi.pnone hpn a b ha hb
  · intro p hp
    have hp0 := hi.psome p hp
    refine ⟨hp0.npos, ?_, ?_, hp0.snap⟩
    · intro a b ha hb
      dsimp only at ha hb ⊢
      rw [countBar_deliver s r o e rest hq]
      exact hp0.cnt a b ha hb
    · intro a b ha hb haa hbb k sp hk hs
      dsimp only at ha hb hk hs ⊢
      subst hk hs
      exact deliver_shift cfg s preProj preProj_cons_ev r o e rest hq he1 he2 k sp _
        (hp0.pre _ _ ha hb haa hbb k sp rfl rfl)

theorem core_opCkpt (cfg : Cfg σ) (s : State σ) (hc : Core cfg s) (o : Nat) :
    Core cfg { s with queue := fun a b => if b = o then dropBar (s.queue a b) else s.queue a b } := by
  refine ⟨?_, hc.own, ?_, hc.hst, hc.ck⟩
  · intro k sp
    dsimp only
    rw [← hc.main k sp]
    split
    · rw [projI_dropBar]
    · rfl
  · intro a b e he
    dsimp only at he
    split at he
    · exact hc.qwf _ _ _ (mem_of_mem_dropBar he)
    · exact hc.qwf _ _ _ he

theorem pend_opCkpt (cfg : Cfg σ) (wf : cfg.WF) (s : State σ) (p : Pend σ) (hc : Core cfg s) (hp : PendOK cfg s p)
    (o : Nat) (ho : o < s.n) (hoa : o ∉ p.oAck) (hall : ∀ r, r < s.n → ∃ t, s.queue r o = Item.bar :: t) :
    PendOK cfg { s with queue := fun a b => if b = o then dropBar (s.queue a b) else s.queue a b }
      { p with
        oAck := o :: p.oAck
        slog := fun a k => if a = o then s.log o k else p.slog a k
        sst := fun a k => if a = o then s.st o k else p.sst a k } := by
  have hrall : ∀ r, r < s.n → r ∈ p.rAck := by
    intro r hr
    obtain ⟨t, ht⟩ := hall r hr
    have h0 := hp.cnt r o hr ho
    rw [ht, countBar_cons_bar] at h0
    by_cases hra : r ∈ p.rAck
    · exact hra
    · rw [if_neg (fun h => hra h.1)] at h0
      omega
  refine ⟨hp.npos, ?_, ?_, ?_⟩
  · intro a b ha hb
    dsimp only at ha hb ⊢
    have h0 := hp.cnt a b ha hb
    by_cases hbo : b = o
    · subst hbo
      obtain ⟨t, ht⟩ := hall a ha
      rw [if_pos rfl, ht]
      rw [ht, countBar_cons_bar, if_pos ⟨hrall a ha, hoa⟩] at h0
      simp only [dropBar, List.mem_cons, true_or, not_true_eq_false, and_false, if_false]
      omega
    · rw [if_neg hbo, h0]
      simp [hbo]
  · intro a b ha hb haa hbb k sp hk hs
    dsimp only at ha hb haa hbb hk hs ⊢
    have hbo : b ≠ o := fun h => hbb (by rw [h]; exact List.mem_cons_self)
    have hbb' : b ∉ p.oAck := fun h => hbb (List.mem_cons_of_mem _ h)
    rw [if_neg hbo]
    exact hp.pre a b ha hb haa hbb' k sp hk hs
  · intro b hb
    dsimp only at hb ⊢
    by_cases hbo : b = o
    · subst hbo
      refine ⟨ho, hrall, ?_, ?_⟩
      · intro k sp hk
        rw [if_pos rfl]
        have hr : cfg.assign s.n sp < s.n := wf.assign_lt s.n sp hp.npos
        obtain ⟨t, ht⟩ := hall _ hr
        have h1 := hp.pre _ b hr ho (hrall _ hr) hoa k sp hk rfl
        rw [ht, preProj_cons_bar, List.append_nil] at h1
        exact h1
      · intro k
        rw [if_pos rfl, if_pos rfl]
        exact hc.hst b k
    · have hb' : b ∈ p.oAck := by
        rcases List.mem_cons.1 hb with h | h
        · exact absurd h hbo
        · exact h
      simp only [if_neg hbo]
      exact hp.snap b hb'

theorem inv_restore (cfg : Cfg σ) (s : State σ) (hc : Core cfg s) (c : Option (Ckpt σ))
    (hck : ∀ c', c = some c' → CkptOK cfg c') (n' : Nat) (job : Bool) :
    Inv cfg (restore cfg s c n' job) := by
  have hckw : ∀ c', (c' ∈ (if job = true then [] else s.writing) ∨ c' ∈ s.published) → CkptOK cfg c' := by
    intro c' h
    rcases h with h | h
    · cases job
      · exact hc.ck c' (Or.inl h)
      · cases h
    · exact hc.ck c' (Or.inr h)
  cases c with
  | none =>
    refine ⟨⟨?_, ?_, ?_, ?_, hckw⟩, ?_, ?_⟩
    · intro k sp; rfl
    · intro o k _; rfl
    · intro r o e he; cases he
    · intro o k; rfl
    · intro _ r o _ _; rfl
    · intro p hp; cases hp
  | some c =>
    obtain ⟨_, h2, h3⟩ := hck c rfl
    refine ⟨⟨?_, ?_, ?_, ?_, hckw⟩, ?_, ?_⟩
    · intro k sp
      simp only [restore, if_true, projI_nil, List.append_nil]
      exact h2 k sp
    · intro o k hne
      simp only [restore] at hne ⊢
      rw [if_neg hne]
    · intro r o e he; cases he
    · intro o k
      simp only [restore]
      split
      · exact h3 k
      · rfl
    · intro _ r o _ _; rfl
    · intro p hp; cases hp

theorem inv_init (cfg : Cfg σ) : Inv cfg (init cfg) := by
  refine ⟨⟨?_, ?_, ?_, ?_, ?_⟩, ?_, ?_⟩
  · intro k sp; rfl
  · intro o k _; rfl
  · intro r o e he; cases he
  · intro o k; rfl
  · intro c h
    rcases h with h | h <;> cases h
  · intro _ r o _ _; rfl
  · intro p hp; cases hp

theorem inv_step (cfg : Cfg σ) (wf : cfg.WF) (s s' : State σ) (a : Act) (g : List (Given σ)) (hi : Inv cfg s)
    (hl : a.isLiveRedeploy = false) (h : step cfg s a = some (s', g)) : Inv cfg s' := by
  cases a with
  | read sp =>
    simp only [step] at h
    split at h
    · cases h
      exact inv_read cfg s hi sp
    · cases h
  | start =>
    simp only [step] at h
    split at h
    · cases h
    · rename_i hpn
      split at h
      · rename_i hn
        cases h
        exact inv_start cfg s hi hpn hn
      · cases h
  | barrier r =>
    simp only [step] at h
    split at h
    · cases h
    · rename_i p hp
      split at h
      · rename_i hr
        cases h
        have hp0 := hi.psome p hp
        exact inv_settle cfg wf _ _ (core_barrier cfg s hi.toCore r)
          (pend_barrier cfg s p hi.toCore hp0 r hr.1 hr.2)
      · cases h
  | deliver r o =>
    simp only [step] at h
    split at h
    · rename_i e rest hq
      cases h
      exact inv_deliver cfg s hi r o e rest hq
    · cases h
  | opCkpt o =>
    simp only [step] at h
    split at h
    · cases h
    · rename_i p hp
      split at h
      · rename_i hr
        cases h
        have hp0 := hi.psome p hp
        have hall : ∀ r, r < s.n → ∃ t, s.queue r o = Item.bar :: t := by
          intro r hr'
          have := List.all_eq_true.1 hr.2.2 r (List.mem_range.2 hr')
          exact head_bar_cases this
        exact inv_settle cfg wf _ _ (core_opCkpt cfg s hi.toCore o)
          (pend_opCkpt cfg wf s p hi.toCore hp0 o hr.1 hr.2.1 hall)
      · cases h
  | publish i =>
    simp only [step] at h
    split at h
    · rename_i c hc
      cases h
      have hcm : c ∈ s.writing := List.mem_of_getElem? hc
      refine ⟨⟨hi.main, hi.own, hi.qwf, hi.hst, ?_⟩, hi.pnone,
        fun p hp => ⟨(hi.psome p hp).npos, (hi.psome p hp).cnt, (hi.psome p hp).pre, (hi.psome p hp).snap⟩⟩
      intro c' h'
      dsimp only at h'
      rcases h' with h' | h'
      · exact hi.ck c' (Or.inl (List.mem_of_mem_eraseIdx h'))
      · rcases List.mem_cons.1 h' with h'' | h''
        · subst h''
          exact hi.ck _ (Or.inl hcm)
        · exact hi.ck c' (Or.inr h'')
    · cases h
  | kill w =>
    simp only [step] at h
    cases h
    exact ⟨⟨hi.main, hi.own, hi.qwf, hi.hst, hi.ck⟩, hi.pnone,
      fun p hp => ⟨(hi.psome p hp).npos, (hi.psome p hp).cnt, (hi.psome p hp).pre, (hi.psome p hp).snap⟩⟩
  | restart n' job =>
    simp only [step] at h
    split at h
    · cases h
      refine inv_restore cfg s hi.toCore _ ?_ n' job
      intro c' hc'
      exact hi.ck c' (Or.inr (newest_mem hc'))
    · cases h
  | redeployLive n' => cases hl

theorem inv_runFrom (cfg : Cfg σ) (wf : cfg.WF) (as : List Act) (s s' : State σ) (obs : List (Given σ))
    (hi : Inv cfg s) (hl : ∀ a ∈ as, a.isLiveRedeploy = false) (h : runFrom cfg s as = some (s', obs)) :
    Inv cfg s' := by
  induction as generalizing s obs with
  | nil =>
    simp only [runFrom] at h
    cases h
    exact hi
  | cons a as ih =>
    simp only [runFrom] at h
    split at h
    · cases h
    · rename_i s1 o1 hs1
      split at h
      · cases h
      · rename_i s2 o2 hs2
        cases h
        exact ih s1 o2 (inv_step cfg wf s s1 a o1 hi (hl a List.mem_cons_self) hs1)
          (fun b hb => hl b (List.mem_cons_of_mem _ hb)) hs2

theorem inv_run (cfg : Cfg σ) (wf : cfg.WF) (as : List Act) (s : State σ) (obs : List (Given σ))
    (hl : ∀ a ∈ as, a.isLiveRedeploy = false) (h : run cfg as = some (s, obs)) : Inv cfg s :=
  inv_runFrom cfg wf as (init cfg) s obs (inv_init cfg) hl h

/-! ## consequences used by the property theorems -/

theorem quiescent_log (cfg : Cfg σ) (s : State σ) (hi : Inv cfg s) (hq : Quiescent s) (k sp : Nat) :
    idxOf sp (s.log (cfg.route s.n k) k) = routed cfg k sp (s.cursor sp) := by
  have h := hi.main k sp
  rw [projI_eq_nil_of_no_ev k sp _ (fun e => hq _ _ e), List.append_nil] at h
  exact h

theorem quiescent_count (cfg : Cfg σ) (s : State σ) (hi : Inv cfg s) (hq : Quiescent s) (sp i : Nat) :
    (s.log (cfg.route s.n (cfg.key sp i)) (cfg.key sp i)).count (sp, i) = (if i < s.cursor sp then 1 else 0) := by
  rw [count_pair, quiescent_log cfg s hi hq, count_routed]
  simp

theorem quiescent_mem (cfg : Cfg σ) (s : State σ) (hi : Inv cfg s) (hq : Quiescent s) (sp i o k : Nat)
    (h : (sp, i) ∈ s.log o k) : o = cfg.route s.n k ∧ k = cfg.key sp i ∧ i < s.cursor sp := by
  have ho : cfg.route s.n k = o := by
    apply Classical.byContradiction
    intro hne
    rw [hi.own o k hne] at h
    cases h
  subst ho
  have h1 : i ∈ idxOf sp (s.log (cfg.route s.n k) k) := mem_idxOf.2 h
  rw [quiescent_log cfg s hi hq, mem_routed] at h1
  exact ⟨rfl, h1.2.symm, h1.1⟩

theorem deliver_spec (cfg : Cfg σ) (s s' : State σ) (hi : Inv cfg s) (r o : Nat) (gs : List (Given σ))
    (hs : step cfg s (.deliver r o) = some (s', gs)) :
    ∃ e, gs = [⟨o, e, foldLog cfg e.key (s.log o e.key)⟩] ∧ o = cfg.route s.n e.key ∧
      e.key = cfg.key e.split e.idx ∧ s'.log o e.key = s.log o e.key ++ [(e.split, e.idx)] ∧
      s'.st o e.key = cfg.h (foldLog cfg e.key (s.log o e.key)) e := by
  simp only [step] at hs
  split at hs
  · rename_i e rest hq
    cases hs
    have hmem : Item.ev e ∈ s.queue r o := by rw [hq]; exact List.mem_cons_self
    obtain ⟨he1, _, he3⟩ := hi.qwf r o e hmem
    refine ⟨e, ?_, he1.symm, he3, ?_, ?_⟩
    · rw [hi.hst o e.key]
    · simp
    · simp [hi.hst o e.key]
  · cases hs

/-- a decidable sufficient test for `Quiescent` in a reachable state: records only sit on channels inside the
deployment, so it is enough to look at those -/
theorem quiescent_of_check (cfg : Cfg σ) (wf : cfg.WF) (s : State σ) (hi : Inv cfg s) (hn : 0 < s.n)
    (h : ((List.range s.n).all fun r => (List.range s.n).all fun o =>
      (s.queue r o).all fun x => x == Item.bar) = true) : Quiescent s := by
  intro r o e he
  obtain ⟨h1, h2, _⟩ := hi.qwf r o e he
  have ho : o < s.n := by rw [← h1]; exact wf.route_lt _ _ hn
  have hr : r < s.n := by rw [← h2]; exact wf.assign_lt _ _ hn
  have h3 := List.all_eq_true.1 (List.all_eq_true.1 (List.all_eq_true.1 h r (List.mem_range.2 hr)) o
    (List.mem_range.2 ho)) _ he
  simp at h3

end Rxn.Pipeline
