import RxnModel.Proofs.Pipeline
namespace Rxn.Pipeline
variable {σ : Type}

structure Core (cfg : Cfg σ) (s : State σ) : Prop where
  main : ∀ k sp, idxOf sp (s.log (cfg.route s.n k) k) ++ projI k sp (s.queue (cfg.assign s.n sp) (cfg.route s.n k))
      = routed cfg k sp (s.cursor sp)
  own : ∀ o k, cfg.route s.n k ≠ o → s.log o k = []
  qwf : ∀ r o e, Item.ev e ∈ s.queue r o →
      cfg.route s.n e.key = o ∧ cfg.assign s.n e.split = r ∧ e.key = cfg.key e.split e.idx
  hst : ∀ o k, s.st o k = foldLog cfg k (s.log o k)
  ck : ∀ c, (c ∈ s.writing ∨ c ∈ s.published) → CkptOK cfg c

structure PendOK (cfg : Cfg σ) (s : State σ) (p : Pend σ) : Prop where
  npos : 0 < s.n
  cnt : ∀ r o, r < s.n → o < s.n → countBar (s.queue r o) = if r ∈ p.rAck ∧ o ∉ p.oAck then 1 else 0
  pre : ∀ r o, r < s.n → o < s.n → r ∈ p.rAck → o ∉ p.oAck → ∀ k sp, cfg.route s.n k = o → cfg.assign s.n sp = r →
      idxOf sp (s.log o k) ++ preProj k sp (s.queue r o) = routed cfg k sp (p.cut sp)
  snap : ∀ o, o ∈ p.oAck → o < s.n ∧ (∀ r, r < s.n → r ∈ p.rAck) ∧
      (∀ k sp, cfg.route s.n k = o → idxOf sp (p.slog o k) = routed cfg k sp (p.cut sp)) ∧
      (∀ k, p.sst o k = foldLog cfg k (p.slog o k))

structure Inv (cfg : Cfg σ) (s : State σ) : Prop extends Core cfg s where
  pnone : s.pending = none → ∀ r o, r < s.n → o < s.n → countBar (s.queue r o) = 0
  psome : ∀ p, s.pending = some p → PendOK cfg s p

theorem core_read (cfg : Cfg σ) (s : State σ) (hc : Core cfg s) (sp : Nat) :
    Core cfg { s with
      cursor := fun x => if x = sp then s.cursor sp + 1 else s.cursor x
      queue := fun a b => if a = cfg.assign s.n sp ∧ b = cfg.route s.n (cfg.key sp (s.cursor sp)) then
        s.queue (cfg.assign s.n sp) (cfg.route s.n (cfg.key sp (s.cursor sp))) ++
          [Item.ev ⟨cfg.key sp (s.cursor sp), sp, s.cursor sp⟩] else s.queue a b } := by
  constructor
  · intro k sp2
    dsimp only
    have hm := hc.main k sp2
    by_cases hsp : sp2 = sp
    · subst hsp
      rw [if_pos rfl, routed_succ, ← hm]
      by_cases hk : cfg.key sp2 (s.cursor sp2) = k
      · subst hk
        simp [projI_snoc_ev]
      · by_cases hr : cfg.route s.n k = cfg.route s.n (cfg.key sp2 (s.cursor sp2))
        · simp [hr, projI_snoc_ev, hk]
        · simp [hr, hk]
    · rw [if_neg hsp, ← hm]
      have hsp' : ¬ sp = sp2 := fun e => hsp e.symm
      by_cases hr : cfg.assign s.n sp2 = cfg.assign s.n sp ∧ cfg.route s.n k = cfg.route s.n (cfg.key sp (s.cursor sp))
      · rw [if_pos hr, hr.1, hr.2]
        simp [projI_snoc_ev, hsp']
      · rw [if_neg hr]
  · exact hc.own
  · intro r o e he
    dsimp only at he
    split at he
    · rename_i h
      rcases List.mem_append.1 he with h1 | h1
      · rw [h.1, h.2]; exact hc.qwf _ _ _ h1
      · simp at h1
        subst h1
        simp [h.1, h.2]
    · exact hc.qwf _ _ _ he
  · exact hc.hst
  · exact hc.ck

theorem pend_read (cfg : Cfg σ) (s : State σ) (p : Pend σ) (hp : PendOK cfg s p) (sp : Nat) :
    PendOK cfg { s with
      cursor := fun x => if x = sp then s.cursor sp + 1 else s.cursor x
      queue := fun a b => if a = cfg.assign s.n sp ∧ b = cfg.route s.n (cfg.key sp (s.cursor sp)) then
        s.queue (cfg.assign s.n sp) (cfg.route s.n (cfg.key sp (s.cursor sp))) ++
          [Item.ev ⟨cfg.key sp (s.cursor sp), sp, s.cursor sp⟩] else s.queue a b } p := by
  constructor
  · exact hp.npos
  · intro r o hr ho
    dsimp only at hr ho ⊢
    split
    · rename_i h
      rw [countBar_snoc_ev, ← h.1, ← h.2]
      exact hp.cnt r o hr ho
    · exact hp.cnt r o hr ho
  · intro r o hr ho hra hoa k sp2 hk hs
    dsimp only at hr ho hk hs ⊢
    have h1 := hp.cnt r o hr ho
    rw [if_pos ⟨hra, hoa⟩] at h1
    split
    · rename_i h
      rw [← h.1, ← h.2, preProj_append_of_bar _ _ _ _ (by omega)]
      exact hp.pre r o hr ho hra hoa k sp2 hk hs
    · exact hp.pre r o hr ho hra hoa k sp2 hk hs
  · exact hp.snap

theorem inv_read (cfg : Cfg σ) (s : State σ) (hi : Inv cfg s) (sp : Nat) :
    Inv cfg { s with
      cursor := fun x => if x = sp then s.cursor sp + 1 else s.cursor x
      queue := fun a b => if a = cfg.assign s.n sp ∧ b = cfg.route s.n (cfg.key sp (s.cursor sp)) then
        s.queue (cfg.assign s.n sp) (cfg.route s.n (cfg.key sp (s.cursor sp))) ++
          [Item.ev ⟨cfg.key sp (s.cursor sp), sp, s.cursor sp⟩] else s.queue a b } := by
  refine ⟨core_read cfg s hi.toCore sp, ?_, ?_⟩
  · intro hpn r o hr ho
    dsimp only at hpn hr ho ⊢
    split
    · rename_i h
      rw [countBar_snoc_ev, ← h.1, ← h.2]
      exact hi.pnone hpn r o hr ho
    · exact hi.pnone hpn r o hr ho
  · intro p hp
    exact pend_read cfg s p (hi.psome p hp) sp

theorem inv_settle (cfg : Cfg σ) (wf : cfg.WF) (s : State σ) (p : Pend σ) (hc : Core cfg s) (hp : PendOK cfg s p) :
    Inv cfg (settle s p) := by
  unfold settle
  split
  · rename_i h
    obtain ⟨hr, ho⟩ := (complete_iff p s.n).1 h
    refine ⟨⟨hc.main, hc.own, hc.qwf, hc.hst, ?_⟩, ?_, ?_⟩
    · intro c hcm
      dsimp only at hcm
      rcases hcm with h1 | h1
      · rcases List.mem_cons.1 h1 with h2 | h2
        · subst h2
          have hlt : ∀ k, cfg.route s.n k < s.n := fun k => wf.route_lt s.n k hp.npos
          refine ⟨hp.npos, fun k sp => ?_, fun k => ?_⟩
          · exact (hp.snap _ (ho _ (hlt k))).2.2.1 k sp rfl
          · exact (hp.snap _ (ho _ (hlt k))).2.2.2 k
        · exact hc.ck c (Or.inl h2)
      · exact hc.ck c (Or.inr h1)
    · intro _ r o hr' ho'
      dsimp only at hr' ho' ⊢
      rw [hp.cnt r o hr' ho', if_neg]
      intro hh
      exact hh.2 (ho o ho')
    · intro p' h'
      cases h'
  · refine ⟨⟨hc.main, hc.own, hc.qwf, hc.hst, hc.ck⟩, ?_, ?_⟩
    · intro h'
      cases h'
    · intro p' h'
      cases h'
      exact ⟨hp.npos, hp.cnt, hp.pre, hp.snap⟩

theorem inv_start (cfg : Cfg σ) (s : State σ) (hi : Inv cfg s) (hpn : s.pending = none) (hn : 0 < s.n) :
    Inv cfg { s with
      pending := some { id := s.nextId, rAck := [], oAck := [], cut := fun _ => 0,
                        slog := fun _ _ => [], sst := fun _ _ => cfg.init }
      nextId := s.nextId + 1 } := by
  refine ⟨⟨hi.main, hi.own, hi.qwf, hi.hst, hi.ck⟩, ?_, ?_⟩
  · intro h'
    cases h'
  · intro p' h'
    cases h'
    refine ⟨hn, ?_, ?_, ?_⟩
    · intro r o hr ho
      simp only [List.not_mem_nil, false_and, if_false]
      exact hi.pnone hpn r o hr ho
    · intro r o _ _ hra
      cases hra
    · intro o ho
      cases ho

theorem core_barrier (cfg : Cfg σ) (s : State σ) (hc : Core cfg s) (r : Nat) :
    Core cfg { s with queue := fun a b => if a = r then s.queue a b ++ [Item.bar] else s.queue a b } := by
  refine ⟨?_, hc.own, ?_, hc.hst, hc.ck⟩
  · intro k sp
    dsimp only
    rw [← hc.main k sp]
    split
    · rw [projI_snoc_bar]
    · rfl
  · intro a b e he
    dsimp only at he
    split at he
    · rcases List.mem_append.1 he with h1 | h1
      · exact hc.qwf _ _ _ h1
      · simp at h1
    · exact hc.qwf _ _ _ he

theorem pend_barrier (cfg : Cfg σ) (s : State σ) (p : Pend σ) (hc : Core cfg s) (hp : PendOK cfg s p) (r : Nat)
    (hr : r < s.n) (hra : r ∉ p.rAck) :
    PendOK cfg { s with queue := fun a b => if a = r then s.queue a b ++ [Item.bar] else s.queue a b }
      { p with
        rAck := r :: p.rAck
        cut := fun sp => if cfg.assign s.n sp = r then s.cursor sp else p.cut sp } := by
  have hno : ∀ o, o ∉ p.oAck := fun o ho => hra ((hp.snap o ho).2.1 r hr)
  refine ⟨hp.npos, ?_, ?_, ?_⟩
  · intro a b ha hb
    dsimp only at ha hb ⊢
    have h0 := hp.cnt a b ha hb
    by_cases har : a = r
    · subst har
      rw [if_pos rfl, countBar_snoc_bar, h0]
      simp [hra, hno b]
    · rw [if_neg har, h0]
      simp [har]
  · intro a b ha hb haa hbb k sp hk hs
    dsimp only at ha hb haa hbb hk hs ⊢
    by_cases har : a = r
    · subst har
      have h0 := hp.cnt a b ha hb
      rw [if_neg (fun h => hra h.1)] at h0
      rw [if_pos rfl, if_pos hs, preProj_snoc_bar_nobar _ _ _ h0, ← hk, ← hs]
      exact hc.main k sp
    · rw [if_neg har, if_neg (by rw [hs]; exact har)]
      have haa' : a ∈ p.rAck := by
        rcases List.mem_cons.1 haa with h | h
        · exact absurd h har
        · exact h
      exact hp.pre a b ha hb haa' hbb k sp hk hs
  · intro o ho
    exact absurd ho (hno o)
