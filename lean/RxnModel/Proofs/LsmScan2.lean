import RxnModel.Proofs.LsmScan
/-!
A `ScanPrefix` in two phases (C07): the memtable list is snapshotted and merged first (`db.mtables.ScanPrefix`),
the level list later (`db.currentSSTables()`), with background flush commits / compaction commits (and, in the
model, rotations and point reads) in between. No foreground write happens in between (reads and writes share one
goroutine).

What is kept along the write-free stretch: every non-empty memtable of the later state is one of the memtables of
the snapshot (`rotate` appends an empty one, `flushCommit` drops a prefix, nothing else touches the list). Together
with the invariant of the later state this gives coverage: the latest version of a key lies in a memtable of the
later state, hence of the snapshot, or in a table of the later level list. Every candidate the merge sees is a
version held by a container of the earlier or of the later state, so none is newer than the latest version and only
the latest version itself has its sequence number; `keepNewest` therefore selects it.
-/
namespace Rxn.Lsm
open Rxn

/-- no foreground write (`put`/`del`) in the list -/
def noWrite : List Act → Bool
  | [] => true
  | .put .. :: _ => false
  | .del .. :: _ => false
  | _ :: as => noWrite as

/-- the merge `DB.ScanPrefix` builds from a memtable list and a list of tables, delete markers still present -/
def scanWithRaw (mems : List Run) (T : List Tbl) (p : Bytes) : Run :=
  merge2 (mergeAll (mems.map (prefixRun p))) (mergeAll (T.map (·.scan p)))

/-- memtable phase in state `sA`, sstable phase in state `sB`, delete markers still present -/
def scan2Raw (sA sB : State) (p : Bytes) : Run := scanWithRaw sA.mems sB.levels.flatten p

/-- a table selection for prefix `p` is adequate for the level list `L` if it selects only tables of `L` and
every table of `L` holding a key with the prefix -/
def Selects (T : List Tbl) (L : List (List Tbl)) (p : Bytes) : Prop :=
  (∀ t ∈ T, t ∈ L.flatten) ∧ ∀ t ∈ L.flatten, ∀ e ∈ t.run, Bytes.hasPrefix e.key p = true → t ∈ T

theorem selects_all (L : List (List Tbl)) (p : Bytes) : Selects L.flatten L p :=
  ⟨fun _ h => h, fun _ h _ _ _ => h⟩

/-- `DB.ScanPrefix` with the memtables read in state `sA` and the level list read in the (later) state `sB` -/
def scan2 (sA sB : State) (p : Bytes) : Run :=
  (merge2 (mergeAll (sA.mems.map (prefixRun p))) (mergeAll ((sB.levels.flatten).map (·.scan p)))).filter
    (fun e => !e.del)

theorem scan2_self (s : State) (p : Bytes) : scan2 s s p = scan s p := rfl

/-- one write-free step: the specification does not move, and no new non-empty memtable appears -/
theorem step_noWrite {s s' : State} {a : Act} {as : List Act} (memsA : List Run)
    (hnw : noWrite (a :: as) = true) (hstep : step s a = some s')
    (hsub : ∀ r ∈ s.mems, r ∈ memsA ∨ r = []) (m : Spec) :
    noWrite as = true ∧ specStep m s.seq a = m ∧ ∀ r ∈ s'.mems, r ∈ memsA ∨ r = [] := by
  cases a with
  | put k v => simp [noWrite] at hnw
  | del k => simp [noWrite] at hnw
  | rotate =>
    simp only [step] at hstep; cases hstep
    refine ⟨by simpa [noWrite] using hnw, rfl, ?_⟩
    intro r hr
    have hr' : r ∈ s.mems ++ [[]] := hr
    rw [List.mem_append, List.mem_singleton] at hr'
    cases hr' with
    | inl h => exact hsub r h
    | inr h => exact Or.inr h
  | flushBegin n =>
    simp only [step] at hstep
    split at hstep
    · cases hstep
    · split at hstep
      · cases hstep; exact ⟨by simpa [noWrite] using hnw, rfl, hsub⟩
      · cases hstep
  | flushCommit =>
    simp only [step] at hstep
    split at hstep
    · cases hstep
    · rename_i snap hfl
      split at hstep
      · cases hstep
        refine ⟨by simpa [noWrite] using hnw, rfl, ?_⟩
        intro r hr
        have hr' : r ∈ s.mems.drop snap.length := hr
        exact hsub r (List.mem_of_mem_drop hr')
      · cases hstep
  | flushAbort =>
    simp only [step] at hstep
    split at hstep
    · cases hstep
    · cases hstep; exact ⟨by simpa [noWrite] using hnw, rfl, hsub⟩
  | compact rm lvl add =>
    simp only [step] at hstep
    split at hstep
    · cases hstep; exact ⟨by simpa [noWrite] using hnw, rfl, hsub⟩
    · cases hstep
  | getA k =>
    simp only [step] at hstep
    split at hstep
    · cases hstep
    · cases hstep; exact ⟨by simpa [noWrite] using hnw, rfl, hsub⟩
  | getB =>
    simp only [step] at hstep
    split at hstep
    · cases hstep
    · cases hstep; exact ⟨by simpa [noWrite] using hnw, rfl, hsub⟩

/-- a write-free run: same specification, and every non-empty memtable at the end was there at the start -/
theorem runBoth_noWrite (memsA : List Run) :
    ∀ (as : List Act) (s : State) (m : Spec) (s' : State) (m' : Spec),
    noWrite as = true → runBoth s m as = some (s', m') → (∀ r ∈ s.mems, r ∈ memsA ∨ r = []) →
    m' = m ∧ ∀ r ∈ s'.mems, r ∈ memsA ∨ r = [] := by
  intro as
  induction as with
  | nil =>
    intro s m s' m' _ hrun hsub
    simp [runBoth] at hrun
    obtain ⟨rfl, rfl⟩ := hrun
    exact ⟨rfl, hsub⟩
  | cons a as ih =>
    intro s m s' m' hnw hrun hsub
    simp only [runBoth] at hrun
    split at hrun
    · rename_i s1 hstep
      obtain ⟨hnw', hm, hsub'⟩ := step_noWrite memsA hnw hstep hsub m
      rw [hm] at hrun
      exact ih s1 m s' m' hnw' hrun hsub'
    · cases hrun

theorem bestHit_map_prefix (p : Bytes) (rs : List Run) (k : Bytes) :
    bestHit (rs.map (prefixRun p)) k = if Bytes.hasPrefix k p then bestHit rs k else none := by
  induction rs with
  | nil => simp [bestHit]
  | cons r rs ih =>
    show pick ((prefixRun p r).lookup k) (bestHit (rs.map (prefixRun p)) k) = _
    rw [ih, lookup_prefixRun]
    by_cases hp : Bytes.hasPrefix k p = true
    · simp only [hp, if_true]; rfl
    · have hp' : Bytes.hasPrefix k p = false := by simpa using hp
      simp [hp', pick]

/-- a hit in one of the runs is dominated by the merge's pick -/
theorem bestHit_ge {rs : List Run} {k : Bytes} {r : Run} {e : Entry} (hr : r ∈ rs) (hl : r.lookup k = some e) :
    ∃ b, bestHit rs k = some b ∧ e.seq ≤ b.seq := by
  cases hb : bestHit rs k with
  | none => rw [bestHit_none] at hb; rw [hb r hr] at hl; cases hl
  | some b => exact ⟨b, rfl, (bestHit_isMax hb).2 r hr e hl⟩

/-- every version held by a container is a genuine version of its key: not newer than the latest write, and
equal to it if it carries its sequence number -/
theorem hit_genuine {s : State} {m : Spec} (h : Inv s m) {r : Run} (hr : r ∈ containers s) {k : Bytes} {x : Entry}
    (hl : r.lookup k = some x) : ∃ e, Spec.get m k = some e ∧ x.seq ≤ e.seq ∧ (x.seq = e.seq → x = e) := by
  cases hf : firstHit (containers s) k with
  | none => rw [firstHit_none] at hf; rw [hf r hr] at hl; cases hl
  | some e =>
    have hmax := firstHit_isMax h.newer hf
    refine ⟨e, by rw [← h.hit k, hf], hmax.2 r hr x hl, ?_⟩
    intro hseq
    have hx : IsMax (containers s) k x :=
      ⟨⟨r, hr, hl⟩, fun r' hr' e' hl' => by rw [hseq]; exact hmax.2 r' hr' e' hl'⟩
    exact isMax_unique h.newer hx hmax

theorem mem_containers_of_mem {s : State} {r : Run} (hr : r ∈ s.mems) : r ∈ containers s := by
  simp [containers, hr]

theorem tbl_containers_of_mem {s : State} {t : Tbl} (ht : t ∈ s.levels.flatten) : t.run ∈ containers s := by
  simp only [containers, List.mem_append, List.mem_map]
  exact Or.inr ⟨t, (readOrder_mem _ t).mpr ht, rfl⟩

theorem scanWithRaw_sorted {sA sB : State} {m : Spec} (hA : Inv sA m) (hB : Inv sB m) {T : List Tbl}
    (hT : ∀ t ∈ T, t ∈ sB.levels.flatten) (p : Bytes) : (scanWithRaw sA.mems T p).Sorted := by
  unfold scanWithRaw
  apply merge2_sorted <;> apply mergeAll_sorted
  · intro r hr
    obtain ⟨r0, hr0, rfl⟩ := List.mem_map.mp hr
    exact prefixRun_sorted p (hA.sorted r0 (mem_containers_of_mem hr0))
  · intro r hr
    obtain ⟨t, ht, rfl⟩ := List.mem_map.mp hr
    exact prefixRun_sorted p (hB.sorted t.run (tbl_containers_of_mem (hT t ht)))

/-- the raw scan over the memtables of `sA` and an adequate selection `T` of the tables of the later state `sB`
finds, for every key with the prefix, the latest write -/
theorem lookup_scanWithRaw {sA sB : State} {m : Spec} (hA : Inv sA m) (hB : Inv sB m)
    (hsub : ∀ r ∈ sB.mems, r ∈ sA.mems ∨ r = []) {T : List Tbl} (p : Bytes) (hT : Selects T sB.levels p)
    (k : Bytes) :
    Run.lookup (scanWithRaw sA.mems T p) k = if Bytes.hasPrefix k p then Spec.get m k else none := by
  have hsA : ∀ r ∈ sA.mems.map (prefixRun p), r.Sorted := by
    intro r hr
    obtain ⟨r0, hr0, rfl⟩ := List.mem_map.mp hr
    exact prefixRun_sorted p (hA.sorted r0 (mem_containers_of_mem hr0))
  have hsB : ∀ r ∈ T.map (fun t => t.scan p), r.Sorted := by
    intro r hr
    obtain ⟨t, ht, rfl⟩ := List.mem_map.mp hr
    exact prefixRun_sorted p (hB.sorted t.run (tbl_containers_of_mem (hT.1 t ht)))
  have hmap : T.map (fun t => t.scan p) = (T.map (fun t => t.run)).map (prefixRun p) := by
    rw [List.map_map]; rfl
  unfold scanWithRaw
  rw [lookup_merge2 (mergeAll_sorted hsA) (mergeAll_sorted hsB), lookup_mergeAll hsA, lookup_mergeAll hsB, hmap,
    bestHit_map_prefix, bestHit_map_prefix]
  by_cases hp : Bytes.hasPrefix k p = true
  · simp only [hp, if_true]
    have hinB : ∀ r ∈ T.map (fun t => t.run), r ∈ containers sB := by
      intro r hr
      obtain ⟨t, ht, rfl⟩ := List.mem_map.mp hr
      exact tbl_containers_of_mem (hT.1 t ht)
    cases hg : Spec.get m k with
    | none =>
      have h1 : bestHit sA.mems k = none := by
        rw [bestHit_none]; intro r hr
        have := hA.hit k
        rw [hg, firstHit_none] at this
        exact this r (mem_containers_of_mem hr)
      have h2 : bestHit (T.map (fun t => t.run)) k = none := by
        rw [bestHit_none]; intro r hr
        have := hB.hit k
        rw [hg, firstHit_none] at this
        exact this r (hinB r hr)
      rw [h1, h2]; rfl
    | some e =>
      -- coverage: the latest version is seen by one of the two phases
      have hcov : (∃ b, bestHit sA.mems k = some b ∧ e.seq ≤ b.seq) ∨
          (∃ b, bestHit (T.map (fun t => t.run)) k = some b ∧ e.seq ≤ b.seq) := by
        have hf := hB.hit k
        rw [hg] at hf
        obtain ⟨r, hr, hl⟩ := (firstHit_isMax hB.newer hf).1
        simp only [containers, List.mem_append, List.mem_reverse, List.mem_map] at hr
        cases hr with
        | inl hm =>
          cases hsub r hm with
          | inl hin => exact Or.inl (bestHit_ge hin hl)
          | inr hnil => subst hnil; cases hl
        | inr ht =>
          obtain ⟨t, ht, rfl⟩ := ht
          have ⟨hme, hke⟩ := Run.lookup_some_mem hl
          have htT : t ∈ T := hT.2 t ((readOrder_mem _ t).mp ht) e hme (by rw [hke]; exact hp)
          exact Or.inr (bestHit_ge (List.mem_map.mpr ⟨t, htT, rfl⟩) hl)
      cases ho : pick (bestHit sA.mems k) (bestHit (T.map (fun t => t.run)) k) with
      | none =>
        rw [pick_none] at ho
        rcases hcov with ⟨b, hb, _⟩ | ⟨b, hb, _⟩
        · rw [ho.1] at hb; cases hb
        · rw [ho.2] at hb; cases hb
      | some x =>
        obtain ⟨hor, h1, h2⟩ := pick_some_cases ho
        have hge : e.seq ≤ x.seq := by
          rcases hcov with ⟨b, hb, hle⟩ | ⟨b, hb, hle⟩
          · exact Nat.le_trans hle (h1 b hb)
          · exact Nat.le_trans hle (h2 b hb)
        have hgen : ∃ e', Spec.get m k = some e' ∧ x.seq ≤ e'.seq ∧ (x.seq = e'.seq → x = e') := by
          cases hor with
          | inl hl =>
            obtain ⟨r, hr, hlk⟩ := (bestHit_isMax hl).1
            exact hit_genuine hA (mem_containers_of_mem hr) hlk
          | inr hl =>
            obtain ⟨r, hr, hlk⟩ := (bestHit_isMax hl).1
            exact hit_genuine hB (hinB r hr) hlk
        obtain ⟨e', hg', hle', heq'⟩ := hgen
        rw [hg] at hg'
        cases hg'
        rw [heq' (Nat.le_antisymm hle' hge)]
  · have hp' : Bytes.hasPrefix k p = false := by simpa using hp
    simp [hp', pick]

/-- `ScanPrefix` over the memtables of `sA` and an adequate table selection of `sB`: strictly ascending, and
exactly the live latest entries with the prefix -/
theorem scanWith_spec {sA sB : State} {m : Spec} (hA : Inv sA m) (hB : Inv sB m)
    (hsub : ∀ r ∈ sB.mems, r ∈ sA.mems ∨ r = []) {T : List Tbl} (p : Bytes) (hT : Selects T sB.levels p) :
    Run.Sorted ((scanWithRaw sA.mems T p).filter (fun e => !e.del)) ∧
    ∀ e, e ∈ (scanWithRaw sA.mems T p).filter (fun e => !e.del) ↔
      (Spec.get m e.key = some e ∧ e.del = false ∧ Bytes.hasPrefix e.key p = true) := by
  have hs := scanWithRaw_sorted hA hB hT.1 p
  refine ⟨List.Pairwise.filter _ hs, ?_⟩
  intro e
  rw [List.mem_filter]
  constructor
  · rintro ⟨hm, hd⟩
    have hl := Run.lookup_of_mem hs hm
    rw [lookup_scanWithRaw hA hB hsub p hT] at hl
    by_cases hp : Bytes.hasPrefix e.key p = true
    · simp only [hp, if_true] at hl
      exact ⟨hl, by simpa using hd, hp⟩
    · have hp' : Bytes.hasPrefix e.key p = false := by simpa using hp
      simp [hp'] at hl
  · rintro ⟨hg, hd, hp⟩
    have hl : Run.lookup (scanWithRaw sA.mems T p) e.key = some e := by
      rw [lookup_scanWithRaw hA hB hsub p hT, hp]; simpa using hg
    exact ⟨(Run.lookup_some_mem hl).1, by simp [hd]⟩

/-- two-phase `ScanPrefix` (all tables of the later state): strictly ascending, and exactly the live latest
entries with the prefix -/
theorem scan2_spec {sA sB : State} {m : Spec} (hA : Inv sA m) (hB : Inv sB m)
    (hsub : ∀ r ∈ sB.mems, r ∈ sA.mems ∨ r = []) (p : Bytes) :
    (scan2 sA sB p).Sorted ∧
    ∀ e, e ∈ scan2 sA sB p ↔ (Spec.get m e.key = some e ∧ e.del = false ∧ Bytes.hasPrefix e.key p = true) :=
  scanWith_spec hA hB hsub p (selects_all sB.levels p)

end Rxn.Lsm
