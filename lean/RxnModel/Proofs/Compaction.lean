import RxnModel.Model.Compaction
import RxnModel.Proofs.LsmScan
/-!
Core of C18: replacing the removed tables of a read-order list by the pieces of their merge keeps every point lookup
and keeps "newer above", provided no table that stays lies beneath a removed one sharing a key with it.
Everything here is about flat lists of tables in the order lookups visit them.
-/
namespace Rxn.Compaction
open Rxn Rxn.Lsm

/-- the first hit for `k` going through the tables in order -/
def hit (ts : List Tbl) (k : Bytes) : Option Entry := firstSome (fun t => t.run.lookup k) ts

abbrev NewerT (a b : Tbl) : Prop := Newer a.run b.run

theorem sortedRun_iff (r : Run) : SortedRun r ↔ Run.Sorted r := Iff.rfl

theorem hit_nil (k : Bytes) : hit [] k = none := rfl

theorem hit_cons (t : Tbl) (ts : List Tbl) (k : Bytes) :
    hit (t :: ts) k = match t.run.lookup k with
      | some e => some e
      | none => hit ts k := by
  cases h : t.run.lookup k <;> simp [hit, firstSome, h]

theorem hit_append (xs ys : List Tbl) (k : Bytes) :
    hit (xs ++ ys) k = match hit xs k with
      | some e => some e
      | none => hit ys k := by
  unfold hit; rw [firstSome_append]
  cases firstSome (fun t : Tbl => t.run.lookup k) xs <;> rfl

theorem hit_none {ts : List Tbl} {k : Bytes} : hit ts k = none ↔ ∀ t ∈ ts, t.run.lookup k = none :=
  firstSome_eq_none _ _

theorem hit_some_mem {ts : List Tbl} {k : Bytes} {e : Entry} (h : hit ts k = some e) :
    ∃ t ∈ ts, t.run.lookup k = some e := by
  induction ts with
  | nil => cases h
  | cons t ts ih =>
    rw [hit_cons] at h
    cases hl : t.run.lookup k with
    | some x => rw [hl] at h; cases h; exact ⟨t, List.mem_cons_self, hl⟩
    | none =>
      rw [hl] at h
      obtain ⟨t', ht', hl'⟩ := ih h
      exact ⟨t', List.mem_cons_of_mem _ ht', hl'⟩

theorem lookup_none_iff {r : Run} {k : Bytes} : r.lookup k = none ↔ ∀ e ∈ r, e.key ≠ k := by
  induction r with
  | nil => simp [Run.lookup]
  | cons x xs ih =>
    simp only [Run.lookup, List.mem_cons, forall_eq_or_imp]
    by_cases h : x.key = k
    · simp [h]
    · simp [h, ih]

theorem mem_mergeAll {rs : List Run} {e : Entry} (h : e ∈ mergeAll rs) : ∃ r ∈ rs, e ∈ r := by
  induction rs with
  | nil => cases h
  | cons r rs ih =>
    have h' : e ∈ merge2 r (mergeAll rs) := h
    cases merge2_mem h' with
    | inl h1 => exact ⟨r, List.mem_cons_self, h1⟩
    | inr h1 =>
      obtain ⟨r', hr', he⟩ := ih h1
      exact ⟨r', List.mem_cons_of_mem _ hr', he⟩

theorem pairwise_or {α : Type} {R : α → α → Prop} {l : List α} (h : l.Pairwise R) {a b : α}
    (ha : a ∈ l) (hb : b ∈ l) : a = b ∨ R a b ∨ R b a := by
  induction l with
  | nil => cases ha
  | cons x xs ih =>
    have ⟨hx, hxs⟩ := List.pairwise_cons.mp h
    cases ha with
    | head =>
      cases hb with
      | head => exact Or.inl rfl
      | tail _ hb => exact Or.inr (Or.inl (hx b hb))
    | tail _ ha =>
      cases hb with
      | head => exact Or.inr (Or.inr (hx a ha))
      | tail _ hb => exact ih hxs ha hb

theorem pairwise_of_forall_right {α : Type} {R : α → α → Prop} {l : List α} (h : ∀ b ∈ l, ∀ a, R a b) :
    l.Pairwise R := by
  induction l with
  | nil => exact List.Pairwise.nil
  | cons x xs ih =>
    exact List.pairwise_cons.mpr ⟨fun b hb => h b (List.mem_cons_of_mem _ hb) x,
      ih (fun b hb => h b (List.mem_cons_of_mem _ hb))⟩

/-- the relation between a removed table and a table that stays beneath it -/
abbrev SafePair (p : Tbl → Bool) (x y : Tbl) : Prop := p x = true → p y = false → DisjointKeys x.run y.run

/-- **point lookups**: going first through the tables that stay and then into the merge of the removed ones finds
what the original order finds -/
theorem core_hit (p : Tbl → Bool) (U : List Tbl) (k : Bytes)
    (hs : ∀ t ∈ U, SortedRun t.run)
    (hn : U.Pairwise NewerT)
    (hsafe : U.Pairwise (SafePair p)) :
    (match hit (U.filter (fun t => !p t)) k with
      | some e => some e
      | none => (mergeAll ((U.filter p).map (·.run))).lookup k) = hit U k := by
  induction U with
  | nil => rfl
  | cons t U ih =>
    have ⟨hn1, hn2⟩ := List.pairwise_cons.mp hn
    have ⟨hsf1, hsf2⟩ := List.pairwise_cons.mp hsafe
    have hsU : ∀ t ∈ U, SortedRun t.run := fun x hx => hs x (List.mem_cons_of_mem _ hx)
    have ih' := ih hsU hn2 hsf2
    cases hp : p t with
    | false =>
      simp only [List.filter_cons, hp, Bool.not_false, if_true, Bool.false_eq_true, if_false]
      rw [hit_cons, hit_cons]
      cases t.run.lookup k with
      | some e => rfl
      | none => exact ih'
    | true =>
      simp only [List.filter_cons, hp, Bool.not_true, Bool.false_eq_true, if_false, if_true, List.map_cons]
      rw [hit_cons]
      have hsm : ∀ r ∈ (U.filter p).map (·.run), Run.Sorted r := by
        intro r hr
        obtain ⟨x, hx, rfl⟩ := List.mem_map.mp hr
        exact hsU x (List.mem_filter.mp hx).1
      show (match hit (U.filter (fun t => !p t)) k with
        | some e => some e
        | none => (merge2 t.run (mergeAll ((U.filter p).map (fun x : Tbl => x.run)))).lookup k) = _
      rw [lookup_merge2 (hs t List.mem_cons_self) (mergeAll_sorted hsm)]
      cases hl : t.run.lookup k with
      | none =>
        simp only [pick]
        exact ih'
      | some e =>
        have ⟨hem, hek⟩ := Run.lookup_some_mem hl
        -- no table that stays holds k
        have hkept : hit (U.filter (fun t => !p t)) k = none := by
          rw [hit_none]
          intro a ha
          have ⟨haU, hpa⟩ := List.mem_filter.mp ha
          have hpa' : p a = false := by simpa using hpa
          rw [lookup_none_iff]
          intro ea hea hk
          exact hsf1 a haU hp hpa' e hem ea hea (by rw [hek, hk])
        rw [hkept]
        simp only
        cases hm : (mergeAll ((U.filter p).map (·.run))).lookup k with
        | none => rfl
        | some e' =>
          have ⟨hem', hek'⟩ := Run.lookup_some_mem hm
          obtain ⟨r, hr, her⟩ := mem_mergeAll hem'
          obtain ⟨x, hx, rfl⟩ := List.mem_map.mp hr
          have hxU := (List.mem_filter.mp hx).1
          have hlt : e'.seq < e.seq := hn1 x hxU e hem e' her (by rw [hek, hek'])
          simp only [pick, keepNewest]
          rw [if_pos hlt]

/-- entries of a sorted concatenation: tables of it share no key -/
theorem sorted_cat_pairwise {l : List Tbl} (h : SortedRun (cat l)) : l.Pairwise NewerT := by
  induction l with
  | nil => exact List.Pairwise.nil
  | cons t l ih =>
    have h' : SortedRun (t.run ++ cat l) := h
    have ⟨_, h2, h3⟩ := List.pairwise_append.mp h'
    refine List.pairwise_cons.mpr ⟨?_, ih h2⟩
    intro b hb ea hea eb heb hk
    have hmem : eb ∈ cat l := List.mem_flatMap.mpr ⟨b, hb, heb⟩
    have hlt := h3 ea hea eb hmem
    rw [hk, Bytes.lt_irrefl] at hlt
    cases hlt

/-- **newer above** is kept -/
theorem core_newer (p : Tbl → Bool) (U TB new : List Tbl)
    (hn : (U ++ TB).Pairwise NewerT)
    (hsafe : U.Pairwise (SafePair p))
    (hnewSorted : SortedRun (cat new))
    (hnewMem : ∀ e ∈ cat new, ∃ r ∈ U, p r = true ∧ e ∈ r.run) :
    (U.filter (fun t => !p t) ++ new ++ TB).Pairwise NewerT := by
  have ⟨hU, hTB, hcross⟩ := List.pairwise_append.mp hn
  rw [List.append_assoc]
  refine List.pairwise_append.mpr ⟨hU.sublist List.filter_sublist, ?_, ?_⟩
  · refine List.pairwise_append.mpr ⟨sorted_cat_pairwise hnewSorted, hTB, ?_⟩
    intro n hnn b hb en hen eb heb hk
    obtain ⟨r, hr, _, her⟩ := hnewMem en (List.mem_flatMap.mpr ⟨n, hnn, hen⟩)
    exact hcross r hr b hb en her eb heb hk
  · intro a ha b hb
    have ⟨haU, hpa⟩ := List.mem_filter.mp ha
    have hpa' : p a = false := by simpa using hpa
    cases List.mem_append.mp hb with
    | inr hbTB => exact hcross a haU b hbTB
    | inl hbn =>
      intro ea hea en hen hk
      obtain ⟨r, hr, hpr, her⟩ := hnewMem en (List.mem_flatMap.mpr ⟨b, hbn, hen⟩)
      rcases pairwise_or (hU.and hsafe) haU hr with h | h | h
      · subst h; rw [hpa'] at hpr; cases hpr
      · exact h.1 ea hea en her hk
      · exact absurd hk.symm (h.2 hpr hpa' en her ea hea)

/-! ## The shape of a level list around the target level -/

theorem modify_append_length {α : Type} (xs : List α) (y : α) (ys : List α) (f : α → α) :
    (xs ++ y :: ys).modify xs.length f = xs ++ f y :: ys := by
  induction xs with
  | nil => simp
  | cons x xs ih => simp only [List.cons_append, List.length_cons, List.modify_succ_cons, ih]

theorem levels_split {L : Levels} {lvl : Nat} (h1 : 1 ≤ lvl) (h2 : lvl < L.length) :
    ∃ l0 D1 Lv D2, L = l0 :: (D1 ++ Lv :: D2) ∧ D1.length + 1 = lvl := by
  cases L with
  | nil => simp at h2
  | cons l0 D =>
    obtain ⟨n, rfl⟩ : ∃ n, lvl = n + 1 := ⟨lvl - 1, by omega⟩
    have hn : n < D.length := by simpa using h2
    refine ⟨l0, D.take n, D[n], D.drop (n + 1), ?_, ?_⟩
    · rw [← List.drop_eq_getElem_cons hn, List.take_append_drop]
    · simp [List.length_take]; omega

theorem shape_getD (l0 : List Tbl) (D1 : List (List Tbl)) (Lv : List Tbl) (D2 : List (List Tbl)) :
    (l0 :: (D1 ++ Lv :: D2)).getD (D1.length + 1) [] = Lv := by
  simp [List.getD_eq_getElem?_getD]

theorem shape_take (l0 : List Tbl) (D1 : List (List Tbl)) (Lv : List Tbl) (D2 : List (List Tbl)) :
    (l0 :: (D1 ++ Lv :: D2)).take (D1.length + 1) = l0 :: D1 := by
  simp

theorem shape_drop (l0 : List Tbl) (D1 : List (List Tbl)) (Lv : List Tbl) (D2 : List (List Tbl)) :
    (l0 :: (D1 ++ Lv :: D2)).drop (D1.length + 1 + 1) = D2 := by
  simp

theorem applyCS_shape (l0 : List Tbl) (D1 : List (List Tbl)) (Lv : List Tbl) (D2 : List (List Tbl))
    (rm : List Nat) (new : List Tbl)
    (hall : ∀ t ∈ Lv, rmP rm t = true) (hnone : ∀ t ∈ D2.flatten, rmP rm t = false) :
    addAt (removeIds rm (l0 :: (D1 ++ Lv :: D2))) (D1.length + 1) new
      = l0.filter (fun t => !rmP rm t) :: (D1.map (List.filter (fun t => !rmP rm t)) ++ new :: D2) := by
  have hLv : Lv.filter (fun t => !rmP rm t) = [] := by
    rw [List.filter_eq_nil_iff]; intro t ht; simp [hall t ht]
  have hD2 : D2.map (List.filter (fun t => !rmP rm t)) = D2 := by
    have : ∀ l ∈ D2, List.filter (fun t => !rmP rm t) l = l := by
      intro l hl
      rw [List.filter_eq_self]
      intro t ht
      simp [hnone t (List.mem_flatten.mpr ⟨l, hl, ht⟩)]
    calc D2.map (List.filter (fun t => !rmP rm t)) = D2.map id := List.map_congr_left this
      _ = D2 := List.map_id _
  have hlen : (D1.map (List.filter (fun t => !rmP rm t))).length = D1.length := List.length_map _
  show ((l0 :: (D1 ++ Lv :: D2)).map (List.filter (fun t => !rmP rm t))).modify (D1.length + 1) (· ++ new) = _
  simp only [List.map_cons, List.map_append, List.modify_succ_cons]
  rw [← hlen, modify_append_length, hLv, hD2]
  simp

/-! ## Validity of the levels and the main theorem about safe change sets -/

/-- the part of the C07 refinement invariant that speaks about the level list -/
structure WeakValid (L : Levels) : Prop where
  sorted : ∀ t ∈ L.flatten, SortedRun t.run
  deep : ∀ l ∈ L.tail, RangeUnique l
  newer : (readOrder L).Pairwise NewerT

theorem lookup_append (a b : Run) (k : Bytes) :
    (a ++ b).lookup k = match a.lookup k with
      | some e => some e
      | none => b.lookup k := by
  induction a with
  | nil => rfl
  | cons x xs ih =>
    simp only [List.cons_append, Run.lookup]
    split
    · rfl
    · exact ih

theorem hit_eq_lookup_cat (ts : List Tbl) (k : Bytes) : hit ts k = (cat ts).lookup k := by
  induction ts with
  | nil => rfl
  | cons t ts ih =>
    show hit (t :: ts) k = (t.run ++ cat ts).lookup k
    rw [hit_cons, lookup_append, ih]

theorem cat_mkTables (n : Nat) (add : List Run) : cat (mkTables n add) = add.flatten := by
  unfold cat
  rw [List.flatMap_def, mkTables_map_run]

theorem mkTables_run_mem {n : Nat} {add : List Run} {t : Tbl} (h : t ∈ mkTables n add) : t.run ∈ add := by
  have : t.run ∈ (mkTables n add).map (·.run) := List.mem_map.mpr ⟨t, h, rfl⟩
  rwa [mkTables_map_run] at this

theorem endKey_mem {t : Tbl} (h : t.run ≠ []) : ∃ e ∈ t.run, t.endKey = e.key := by
  refine ⟨t.run.getLast h, List.getLast_mem h, ?_⟩
  unfold Tbl.endKey
  rw [List.getLast?_eq_some_getLast h]
  rfl

theorem startKey_mem {t : Tbl} (h : t.run ≠ []) : ∃ e ∈ t.run, t.startKey = e.key := by
  unfold Tbl.startKey
  cases hr : t.run with
  | nil => exact absurd hr h
  | cons x xs => exact ⟨x, List.mem_cons_self, rfl⟩

theorem ordered_of_sorted_cat {l : List Tbl} (hne : ∀ t ∈ l, t.run ≠ []) (h : SortedRun (cat l)) :
    l.Pairwise (fun a b => Bytes.lt a.endKey b.startKey = true) := by
  induction l with
  | nil => exact List.Pairwise.nil
  | cons t l ih =>
    have h' : SortedRun (t.run ++ cat l) := h
    have ⟨_, h2, h3⟩ := List.pairwise_append.mp h'
    refine List.pairwise_cons.mpr ⟨?_, ih (fun x hx => hne x (List.mem_cons_of_mem _ hx)) h2⟩
    intro b hb
    obtain ⟨ea, hea, hka⟩ := endKey_mem (hne t List.mem_cons_self)
    obtain ⟨eb, heb, hkb⟩ := startKey_mem (hne b (List.mem_cons_of_mem _ hb))
    rw [hka, hkb]
    exact h3 ea hea eb (List.mem_flatMap.mpr ⟨b, hb, heb⟩)

theorem rangeUnique_of_ordered {l : List Tbl} (h : l.Pairwise (fun a b => Bytes.lt a.endKey b.startKey = true)) :
    RangeUnique l := by
  refine List.Pairwise.imp ?_ h
  intro a b hlt k ⟨ha, hb⟩
  unfold Tbl.rangeContainsKey Gen.tblRangeContainsKey at ha hb
  simp only [Bool.and_eq_true, decide_eq_true_eq] at ha hb
  have h1 := (cmpInt_ge_iff a.endKey k).mp ha.2     -- ¬ endKey a < k
  have h2 := (cmpInt_le_iff b.startKey k).mp hb.1   -- ¬ startKey b > k
  -- endKey a < startKey b, k ≤ endKey a, startKey b ≤ k
  rcases Bytes.lt_or_eq_or_gt k b.startKey with h3 | h3 | h3
  · simp only [Bytes.lt, beq_iff_eq] at h3
    exact h2 (Bytes.cmp_lt_iff_gt.mp h3)
  · subst h3
    simp only [Bytes.lt, beq_iff_eq] at hlt
    exact h1 hlt
  · have := Bytes.lt_trans hlt h3
    simp only [Bytes.lt, beq_iff_eq] at this
    exact h1 this

theorem mkTables_single_empty (n : Nat) : mkTables n [[]] = [⟨n, []⟩] := by
  simp [mkTables]

theorem ordered_new {n : Nat} {add : List Run} (hs : SortedRun add.flatten)
    (hc : (∀ r ∈ add, r ≠ []) ∨ add = [[]]) :
    (mkTables n add).Pairwise (fun a b => Bytes.lt a.endKey b.startKey = true) := by
  cases hc with
  | inl hne =>
    apply ordered_of_sorted_cat
    · intro t ht; exact hne _ (mkTables_run_mem ht)
    · rw [cat_mkTables]; exact hs
  | inr he => subst he; rw [mkTables_single_empty]; exact List.pairwise_singleton _ _

/-- the pieces a safe change set decomposes into -/
theorem safe_core {L : Levels} {rm : List Nat} {lvl : Nat} {add : List Run} (n : Nat)
    (hv : WeakValid L) (hs : SafeCS L rm lvl add) :
    (∀ k, hit (readOrder (applyCS L n ⟨rm, lvl, add⟩)) k = hit (readOrder L) k) ∧
    WeakValid (applyCS L n ⟨rm, lvl, add⟩) ∧
    (∀ t' ∈ (applyCS L n ⟨rm, lvl, add⟩).flatten, ∀ e ∈ t'.run, ∃ t ∈ L.flatten, e ∈ t.run) ∧
    (∃ l0 D1 Lv D2, L = l0 :: (D1 ++ Lv :: D2) ∧ D1.length + 1 = lvl ∧
      applyCS L n ⟨rm, lvl, add⟩ =
        l0.filter (fun t => !rmP rm t) :: (D1.map (List.filter (fun t => !rmP rm t)) ++ mkTables n add :: D2)) := by
  obtain ⟨l0, D1, Lv, D2, rfl, rfl⟩ := levels_split hs.lvl_pos hs.lvl_lt
  have hall : ∀ t ∈ Lv, rmP rm t = true := by
    have := hs.target_all; rwa [shape_getD] at this
  have hnone : ∀ t ∈ D2.flatten, rmP rm t = false := by
    have := hs.below_none; rwa [shape_drop] at this
  have hshape := applyCS_shape l0 D1 Lv D2 rm (mkTables n add) hall hnone
  have hL' : applyCS (l0 :: (D1 ++ Lv :: D2)) n ⟨rm, D1.length + 1, add⟩ =
      l0.filter (fun t => !rmP rm t) :: (D1.map (List.filter (fun t => !rmP rm t)) ++ mkTables n add :: D2) := hshape
  -- flat lists
  let U := l0.reverse ++ D1.flatten ++ Lv
  let TB := D2.flatten
  have hRO : readOrder (l0 :: (D1 ++ Lv :: D2)) = U ++ TB := by
    simp [readOrder, U, TB, List.flatten_append, List.append_assoc]
  have hLvq : Lv.filter (fun t => !rmP rm t) = [] := by
    rw [List.filter_eq_nil_iff]; intro t ht; simp [hall t ht]
  have hUq : U.filter (fun t => !rmP rm t) =
      (l0.filter (fun t => !rmP rm t)).reverse ++ (D1.map (List.filter (fun t => !rmP rm t))).flatten := by
    simp [U, List.filter_append, List.filter_reverse, List.filter_flatten, hLvq]
  have hRO' : readOrder (l0.filter (fun t => !rmP rm t) :: (D1.map (List.filter (fun t => !rmP rm t)) ++ mkTables n add :: D2))
      = U.filter (fun t => !rmP rm t) ++ mkTables n add ++ TB := by
    rw [hUq]; simp [readOrder, TB, List.flatten_append, List.append_assoc]
  have hTBp : TB.filter (rmP rm) = [] := by
    rw [List.filter_eq_nil_iff]; intro t ht; simp [hnone t ht]
  have hadd : add.flatten = mergeAll ((U.filter (rmP rm)).map (·.run)) := by
    have := hs.added
    rw [hRO, List.filter_append, hTBp, List.append_nil] at this
    exact this
  have hsortedAll : ∀ t ∈ U ++ TB, SortedRun t.run := by
    intro t ht; rw [← hRO] at ht; exact hv.sorted t ((readOrder_mem _ t).mp ht)
  have hsU : ∀ t ∈ U, SortedRun t.run := fun t ht => hsortedAll t (List.mem_append_left _ ht)
  have hnewer : (U ++ TB).Pairwise NewerT := by rw [← hRO]; exact hv.newer
  have hnU : U.Pairwise NewerT := (List.pairwise_append.mp hnewer).1
  have hsafeU : U.Pairwise (SafePair (rmP rm)) := by
    have h0 := hs.no_kept_below_removed
    rw [shape_take] at h0
    have h0' : (l0.reverse ++ D1.flatten).Pairwise (SafePair (rmP rm)) := by
      simpa [readOrder] using h0
    refine List.pairwise_append.mpr ⟨h0', ?_, ?_⟩
    · apply pairwise_of_forall_right
      intro b hb a _ hpb
      rw [hall b hb] at hpb; cases hpb
    · intro a _ b hb _ hpb
      rw [hall b hb] at hpb; cases hpb
  have hsm : ∀ r ∈ (U.filter (rmP rm)).map (·.run), Run.Sorted r := by
    intro r hr
    obtain ⟨x, hx, rfl⟩ := List.mem_map.mp hr
    exact hsU x (List.mem_filter.mp hx).1
  have hMsorted : SortedRun add.flatten := by rw [hadd]; exact mergeAll_sorted hsm
  have hcatnew : cat (mkTables n add) = mergeAll ((U.filter (rmP rm)).map (·.run)) := by
    rw [cat_mkTables, hadd]
  have hnewMem : ∀ e ∈ cat (mkTables n add), ∃ r ∈ U, rmP rm r = true ∧ e ∈ r.run := by
    intro e he
    rw [hcatnew] at he
    obtain ⟨r, hr, her⟩ := mem_mergeAll he
    obtain ⟨x, hx, rfl⟩ := List.mem_map.mp hr
    exact ⟨x, (List.mem_filter.mp hx).1, (List.mem_filter.mp hx).2, her⟩
  refine ⟨?_, ?_, ?_, ⟨l0, D1, Lv, D2, rfl, rfl, hL'⟩⟩
  · intro k
    rw [hL', hRO', hRO, hit_append, hit_append, hit_append, hit_eq_lookup_cat (mkTables n add), hcatnew]
    have hc := core_hit (rmP rm) U k hsU hnU hsafeU
    rw [← hc]
  · rw [hL']
    refine ⟨?_, ?_, ?_⟩
    · intro t ht
      simp only [List.flatten_cons, List.flatten_append, List.mem_append] at ht
      rcases ht with ht | ht | ht | ht
      · exact hsU t (by simp [U, (List.mem_filter.mp ht).1])
      · obtain ⟨l, hl, htl⟩ := List.mem_flatten.mp ht
        obtain ⟨l', hl', rfl⟩ := List.mem_map.mp hl
        exact hsU t (by
          simp only [U, List.mem_append, List.mem_flatten]
          exact Or.inl (Or.inr ⟨l', hl', (List.mem_filter.mp htl).1⟩))
      · exact List.Pairwise.sublist (List.sublist_flatten_of_mem (mkTables_run_mem ht)) hMsorted
      · exact hsortedAll t (List.mem_append_right _ ht)
    · intro l hl
      simp only [List.tail_cons, List.mem_append, List.mem_cons] at hl
      have hdeepOld : ∀ l ∈ D1 ++ Lv :: D2, RangeUnique l := hv.deep
      rcases hl with hl | hl | hl
      · obtain ⟨l', hl', rfl⟩ := List.mem_map.mp hl
        exact (hdeepOld l' (List.mem_append_left _ hl')).sublist List.filter_sublist
      · subst hl; exact rangeUnique_of_ordered (ordered_new hMsorted hs.chunks)
      · exact hdeepOld l (List.mem_append_right _ (List.mem_cons_of_mem _ hl))
    · rw [hRO']
      exact core_newer (rmP rm) U TB (mkTables n add) hnewer hsafeU (by rw [cat_mkTables]; exact hMsorted) hnewMem
  · intro t' ht' e he
    rw [hL'] at ht'
    have hflat : ∀ t ∈ U ++ TB, t ∈ (l0 :: (D1 ++ Lv :: D2)).flatten := by
      intro t ht; rw [← hRO] at ht; exact (readOrder_mem _ t).mp ht
    simp only [List.flatten_cons, List.flatten_append, List.mem_append] at ht'
    rcases ht' with ht | ht | ht | ht
    · exact ⟨t', hflat t' (by simp [U, (List.mem_filter.mp ht).1]), he⟩
    · obtain ⟨l, hl, htl⟩ := List.mem_flatten.mp ht
      obtain ⟨l', hl', rfl⟩ := List.mem_map.mp hl
      exact ⟨t', hflat t' (by
        simp only [U, List.mem_append, List.mem_flatten]
        exact Or.inl (Or.inl (Or.inr ⟨l', hl', (List.mem_filter.mp htl).1⟩))), he⟩
    · obtain ⟨r, hr, _, her⟩ := hnewMem e (List.mem_flatMap.mpr ⟨t', ht, he⟩)
      exact ⟨r, hflat r (List.mem_append_left _ hr), her⟩
    · exact ⟨t', hflat t' (List.mem_append_right _ ht), he⟩

/-! ## A structural sufficient condition (what the compactor's picks and the executable test `safeCS` have in common) -/

theorem shape_getD_D1 (l0 : List Tbl) (D1 : List (List Tbl)) (Lv : List Tbl) (D2 : List (List Tbl)) (i : Nat)
    (hi : i < D1.length) : (l0 :: (D1 ++ Lv :: D2)).getD (i + 1) [] = D1[i] := by
  simp [List.getD_eq_getElem?_getD, List.getElem?_append_left hi, List.getElem?_eq_getElem hi]

theorem shape_getD_D2 (l0 : List Tbl) (D1 : List (List Tbl)) (Lv : List Tbl) (D2 : List (List Tbl)) (i : Nat)
    (hi : i < D2.length) : (l0 :: (D1 ++ Lv :: D2)).getD (D1.length + 1 + 1 + i) [] = D2[i] := by
  have : D1.length + 1 + 1 + i = (D1.length + 1 + i) + 1 := by omega
  rw [this]
  simp only [List.getD_eq_getElem?_getD, List.getElem?_cons_succ]
  rw [List.getElem?_append_right (by omega)]
  have : D1.length + 1 + i - D1.length = i + 1 := by omega
  rw [this]
  simp [hi]

/-- two tables of a level whose ranges do not overlap share no key -/
theorem disjoint_of_rangeUnique {l : List Tbl} (hs : ∀ t ∈ l, SortedRun t.run) (hu : RangeUnique l) :
    l.Pairwise (fun a b => DisjointKeys a.run b.run) := by
  refine List.Pairwise.imp_of_mem ?_ hu
  intro a b ha hb hab ea hea eb heb hk
  have h1 : a.rangeContainsKey ea.key = true := range_of_mem (hs a ha) hea
  have h2 : b.rangeContainsKey eb.key = true := range_of_mem (hs b hb) heb
  rw [← hk] at h2
  exact hab ea.key ⟨h1, h2⟩

/-- the structural shape all three branches of the compactor produce and the executable test `Lsm.safeCS` asks for -/
structure StructOK (L : Levels) (rm : List Nat) (lvl : Nat) (add : List Run) : Prop where
  lvl_pos : 1 ≤ lvl
  lvl_lt : lvl < L.length
  target : ∀ t ∈ L.getD lvl [], rmP rm t = true
  below : ∀ i, lvl < i → ∀ t ∈ L.getD i [], rmP rm t = false
  l0 : (L.headD []).Pairwise (fun older newer =>
      rmP rm newer = true → rmP rm older = false → DisjointKeys newer.run older.run)
  closed : ∀ i j, i < j → j < lvl → (∃ t ∈ L.getD i [], rmP rm t = true) → ∀ t ∈ L.getD j [], rmP rm t = true
  added : add.flatten = mergeAll (((readOrder L).filter (rmP rm)).map (·.run))
  chunks : (∀ r ∈ add, r ≠ []) ∨ add = [[]]

theorem safe_of_structure {L : Levels} {rm : List Nat} {lvl : Nat} {add : List Run} (hv : WeakValid L)
    (h1 : 1 ≤ lvl) (h2 : lvl < L.length)
    (htarget : ∀ t ∈ L.getD lvl [], rmP rm t = true)
    (hbelow : ∀ i, lvl < i → ∀ t ∈ L.getD i [], rmP rm t = false)
    (hl0 : (L.headD []).Pairwise (fun older newer =>
      rmP rm newer = true → rmP rm older = false → DisjointKeys newer.run older.run))
    (hclosed : ∀ i j, i < j → j < lvl → (∃ t ∈ L.getD i [], rmP rm t = true) → ∀ t ∈ L.getD j [], rmP rm t = true)
    (hadd : add.flatten = mergeAll (((readOrder L).filter (rmP rm)).map (·.run)))
    (hchunks : (∀ r ∈ add, r ≠ []) ∨ add = [[]]) : SafeCS L rm lvl add := by
  refine ⟨h1, h2, htarget, ?_, ?_, hadd, hchunks⟩
  · obtain ⟨l0, D1, Lv, D2, rfl, rfl⟩ := levels_split h1 h2
    rw [shape_drop]
    intro t ht
    obtain ⟨l, hl, htl⟩ := List.mem_flatten.mp ht
    obtain ⟨i, hi, rfl⟩ := List.mem_iff_getElem.mp hl
    have := hbelow (D1.length + 1 + 1 + i) (by omega) t
    rw [shape_getD_D2 _ _ _ _ i hi] at this
    exact this htl
  · obtain ⟨l0, D1, Lv, D2, rfl, rfl⟩ := levels_split h1 h2
    rw [shape_take]
    show (l0.reverse ++ D1.flatten).Pairwise (SafePair (rmP rm))
    have hsortedAll : ∀ t ∈ (l0 :: (D1 ++ Lv :: D2)).flatten, SortedRun t.run := hv.sorted
    refine List.pairwise_append.mpr ⟨?_, ?_, ?_⟩
    · rw [List.pairwise_reverse]
      have : (l0 :: (D1 ++ Lv :: D2)).headD [] = l0 := rfl
      rw [this] at hl0
      exact hl0
    · rw [List.pairwise_flatten]
      refine ⟨?_, ?_⟩
      · intro l hl
        have hdeep : RangeUnique l := hv.deep l (List.mem_append_left _ hl)
        have hsl : ∀ t ∈ l, SortedRun t.run := fun t ht =>
          hsortedAll t (by simp only [List.flatten_cons, List.flatten_append, List.mem_append, List.mem_flatten]
                           exact Or.inr (Or.inl ⟨l, hl, ht⟩))
        exact (disjoint_of_rangeUnique hsl hdeep).imp (fun h _ _ => h)
      · rw [List.pairwise_iff_getElem]
        intro i j hi hj hij x hx y hy hpx hpy
        have h1' := hclosed (i + 1) (j + 1) (by omega) (by omega)
        rw [shape_getD_D1 _ _ _ _ i hi, shape_getD_D1 _ _ _ _ j hj] at h1'
        rw [h1' ⟨x, hx, hpx⟩ y hy] at hpy; cases hpy
    · intro x hx y hy hpx hpy
      obtain ⟨l, hl, hyl⟩ := List.mem_flatten.mp hy
      obtain ⟨j, hj, rfl⟩ := List.mem_iff_getElem.mp hl
      have h1' := hclosed 0 (j + 1) (by omega) (by omega)
      rw [shape_getD_D1 _ _ _ _ j hj] at h1'
      have : (l0 :: (D1 ++ Lv :: D2)).getD 0 [] = l0 := rfl
      rw [this] at h1'
      rw [h1' ⟨x, List.mem_reverse.mp hx, hpx⟩ y hyl] at hpy; cases hpy

theorem safe_of_structOK {L : Levels} {rm : List Nat} {lvl : Nat} {add : List Run} (hv : WeakValid L)
    (h : StructOK L rm lvl add) : SafeCS L rm lvl add :=
  safe_of_structure hv h.lvl_pos h.lvl_lt h.target h.below h.l0 h.closed h.added h.chunks

end Rxn.Compaction
