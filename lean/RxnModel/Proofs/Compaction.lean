import RxnModel.Model.Compaction
import RxnModel.Proofs.LsmScan
/-!
Core of C18: replacing the removed tables of a read-order list by the pieces of their merge keeps every point lookup
and keeps "newer above", provided no table that stays lies beneath a removed one sharing a key with it.
Everything here is about flat lists of tables in the order lookups visit them.
-/
namespace Rxn.Compaction
open Rxn Rxn.Lsm

/-- the first hit for `k` going through the tables in order -/
def hit (ts : List Tbl) (k : Bytes) : Option Entry := firstSome (fun t => t.run.lookup k) ts

abbrev NewerT (a b : Tbl) : Prop := Newer a.run b.run

theorem sortedRun_iff (r : Run) : SortedRun r ↔ Run.Sorted r := Iff.rfl

theorem hit_nil (k : Bytes) : hit [] k = none := rfl

theorem hit_cons (t : Tbl) (ts : List Tbl) (k : Bytes) :
    hit (t :: ts) k = match t.run.lookup k with
      | some e => some e
      | none => hit ts k := by
  cases h : t.run.lookup k <;> simp [hit, firstSome, h]

theorem hit_append (xs ys : List Tbl) (k : Bytes) :
    hit (xs ++ ys) k = match hit xs k with
      | some e => some e
      | none => hit ys k := by
  unfold hit; rw [firstSome_append]
  cases firstSome (fun t : Tbl => t.run.lookup k) xs <;> rfl

theorem hit_none {ts : List Tbl} {k : Bytes} : hit ts k = none ↔ ∀ t ∈ ts, t.run.lookup k = none :=
  firstSome_eq_none _ _

theorem hit_some_mem {ts : List Tbl} {k : Bytes} {e : Entry} (h : hit ts k = some e) :
    ∃ t ∈ ts, t.run.lookup k = some e := by
  induction ts with
  | nil => cases h
  | cons t ts ih =>
    rw [hit_cons] at h
    cases hl : t.run.lookup k with
    | some x => rw [hl] at h; cases h; exact ⟨t, List.mem_cons_self, hl⟩
    | none =>
      rw [hl] at h
      obtain ⟨t', ht', hl'⟩ := ih h
      exact ⟨t', List.mem_cons_of_mem _ ht', hl'⟩

theorem lookup_none_iff {r : Run} {k : Bytes} : r.lookup k = none ↔ ∀ e ∈ r, e.key ≠ k := by
  induction r with
  | nil => simp [Run.lookup]
  | cons x xs ih =>
    simp only [Run.lookup, List.mem_cons, forall_eq_or_imp]
    by_cases h : x.key = k
    · simp [h]
    · simp [h, ih]

theorem mem_mergeAll {rs : List Run} {e : Entry} (h : e ∈ mergeAll rs) : ∃ r ∈ rs, e ∈ r := by
  induction rs with
  | nil => cases h
  | cons r rs ih =>
    have h' : e ∈ merge2 r (mergeAll rs) := h
    cases merge2_mem h' with
    | inl h1 => exact ⟨r, List.mem_cons_self, h1⟩
    | inr h1 =>
      obtain ⟨r', hr', he⟩ := ih h1
      exact ⟨r', List.mem_cons_of_mem _ hr', he⟩

theorem pairwise_or {α : Type} {R : α → α → Prop} {l : List α} (h : l.Pairwise R) {a b : α}
    (ha : a ∈ l) (hb : b ∈ l) : a = b ∨ R a b ∨ R b a := by
  induction l with
  | nil => cases ha
  | cons x xs ih =>
    have ⟨hx, hxs⟩ := List.pairwise_cons.mp h
    cases ha with
    | head =>
      cases hb with
      | head => exact Or.inl rfl
      | tail _ hb => exact Or.inr (Or.inl (hx b hb))
    | tail _ ha =>
      cases hb with
      | head => exact Or.inr (Or.inr (hx a ha))
      | tail _ hb => exact ih hxs ha hb

/-- the relation between a removed table and a table that stays beneath it -/
abbrev SafePair (p : Tbl → Bool) (x y : Tbl) : Prop := p x = true → p y = false → DisjointKeys x.run y.run

/-- **point lookups**: going first through the tables that stay and then into the merge of the removed ones finds
what the original order finds -/
theorem core_hit (p : Tbl → Bool) (U : List Tbl) (k : Bytes)
    (hs : ∀ t ∈ U, SortedRun t.run)
    (hn : U.Pairwise NewerT)
    (hsafe : U.Pairwise (SafePair p)) :
    (match hit (U.filter (fun t => !p t)) k with
      | some e => some e
      | none => (mergeAll ((U.filter p).map (·.run))).lookup k) = hit U k := by
  induction U with
  | nil => rfl
  | cons t U ih =>
    have ⟨hn1, hn2⟩ := List.pairwise_cons.mp hn
    have ⟨hsf1, hsf2⟩ := List.pairwise_cons.mp hsafe
    have hsU : ∀ t ∈ U, SortedRun t.run := fun x hx => hs x (List.mem_cons_of_mem _ hx)
    have ih' := ih hsU hn2 hsf2
    cases hp : p t with
    | false =>
      simp only [List.filter_cons, hp, Bool.not_false, if_true, Bool.false_eq_true, if_false]
      rw [hit_cons, hit_cons]
      cases t.run.lookup k with
      | some e => rfl
      | none => exact ih'
    | true =>
      simp only [List.filter_cons, hp, Bool.not_true, Bool.false_eq_true, if_false, if_true, List.map_cons]
      rw [hit_cons]
      have hsm : ∀ r ∈ (U.filter p).map (·.run), Run.Sorted r := by
        intro r hr
        obtain ⟨x, hx, rfl⟩ := List.mem_map.mp hr
        exact hsU x (List.mem_filter.mp hx).1
      show (match hit (U.filter (fun t => !p t)) k with
        | some e => some e
        | none => (merge2 t.run (mergeAll ((U.filter p).map (fun x : Tbl => x.run)))).lookup k) = _
      rw [lookup_merge2 (hs t List.mem_cons_self) (mergeAll_sorted hsm)]
      cases hl : t.run.lookup k with
      | none =>
        simp only [pick]
        exact ih'
      | some e =>
        have ⟨hem, hek⟩ := Run.lookup_some_mem hl
        -- no table that stays holds k
        have hkept : hit (U.filter (fun t => !p t)) k = none := by
          rw [hit_none]
          intro a ha
          have ⟨haU, hpa⟩ := List.mem_filter.mp ha
          have hpa' : p a = false := by simpa using hpa
          rw [lookup_none_iff]
          intro ea hea hk
          exact hsf1 a haU hp hpa' e hem ea hea (by rw [hek, hk])
        rw [hkept]
        simp only
        cases hm : (mergeAll ((U.filter p).map (·.run))).lookup k with
        | none => rfl
        | some e' =>
          have ⟨hem', hek'⟩ := Run.lookup_some_mem hm
          obtain ⟨r, hr, her⟩ := mem_mergeAll hem'
          obtain ⟨x, hx, rfl⟩ := List.mem_map.mp hr
          have hxU := (List.mem_filter.mp hx).1
          have hlt : e'.seq < e.seq := hn1 x hxU e hem e' her (by rw [hek, hek'])
          simp only [pick, keepNewest]
          rw [if_pos hlt]

/-- entries of a sorted concatenation: tables of it share no key -/
theorem sorted_cat_pairwise {l : List Tbl} (h : SortedRun (cat l)) : l.Pairwise NewerT := by
  induction l with
  | nil => exact List.Pairwise.nil
  | cons t l ih =>
    have h' : SortedRun (t.run ++ cat l) := h
    have ⟨_, h2, h3⟩ := List.pairwise_append.mp h'
    refine List.pairwise_cons.mpr ⟨?_, ih h2⟩
    intro b hb ea hea eb heb hk
    have hmem : eb ∈ cat l := List.mem_flatMap.mpr ⟨b, hb, heb⟩
    have hlt := h3 ea hea eb hmem
    rw [hk, Bytes.lt_irrefl] at hlt
    cases hlt

/-- **newer above** is kept -/
theorem core_newer (p : Tbl → Bool) (U TB new : List Tbl)
    (hn : (U ++ TB).Pairwise NewerT)
    (hsafe : U.Pairwise (SafePair p))
    (hnewSorted : SortedRun (cat new))
    (hnewMem : ∀ e ∈ cat new, ∃ r ∈ U, p r = true ∧ e ∈ r.run) :
    (U.filter (fun t => !p t) ++ new ++ TB).Pairwise NewerT := by
  have ⟨hU, hTB, hcross⟩ := List.pairwise_append.mp hn
  rw [List.append_assoc]
  refine List.pairwise_append.mpr ⟨hU.sublist List.filter_sublist, ?_, ?_⟩
  · refine List.pairwise_append.mpr ⟨sorted_cat_pairwise hnewSorted, hTB, ?_⟩
    intro n hnn b hb en hen eb heb hk
    obtain ⟨r, hr, _, her⟩ := hnewMem en (List.mem_flatMap.mpr ⟨n, hnn, hen⟩)
    exact hcross r hr b hb en her eb heb hk
  · intro a ha b hb
    have ⟨haU, hpa⟩ := List.mem_filter.mp ha
    have hpa' : p a = false := by simpa using hpa
    cases List.mem_append.mp hb with
    | inr hbTB => exact hcross a haU b hbTB
    | inl hbn =>
      intro ea hea en hen hk
      obtain ⟨r, hr, hpr, her⟩ := hnewMem en (List.mem_flatMap.mpr ⟨b, hbn, hen⟩)
      rcases pairwise_or (hU.and hsafe) haU hr with h | h | h
      · subst h; rw [hpa'] at hpr; cases hpr
      · exact h.1 ea hea en her hk
      · exact absurd hk.symm (h.2 hpr hpa' en her ea hea)

end Rxn.Compaction
