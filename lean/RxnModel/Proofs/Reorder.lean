import RxnModel.Model.Reorder
/-! Helper lemmas for C20/C04: the inductive invariant of the `Model/Reorder.lean` transition system. -/
namespace Rxn.Reorder
variable {α ρ : Type}

theorem drainLoop_spec (f : List α → List ρ) (hist : List (List α)) (next : Nat) (hlen : hist.length = next) :
    ∀ (res d : Nat) (items : Nat → Option (List ρ)),
      res = next - d → d ≤ next →
      (∀ k x, items k = some x → d ≤ k ∧ ∃ e, hist[k]? = some e ∧ x = f e) →
      d ≤ (drainLoop items res d).2.2.2 ∧ (drainLoop items res d).2.2.2 ≤ next ∧
      (drainLoop items res d).2.2.1 = next - (drainLoop items res d).2.2.2 ∧
      (drainLoop items res d).1 = (((hist.take (drainLoop items res d).2.2.2).drop d).map f).flatten ∧
      (∀ k, (drainLoop items res d).2.1 k =
          if d ≤ k ∧ k < (drainLoop items res d).2.2.2 then none else items k) ∧
      (drainLoop items res d).2.1 (drainLoop items res d).2.2.2 = none ∧
      (∀ k, d ≤ k → k < (drainLoop items res d).2.2.2 → items k ≠ none) := by
  intro res
  induction res with
  | zero =>
    intro d items hres hd hitm
    have hdn : d = next := by omega
    simp only [drainLoop]
    refine ⟨Nat.le_refl _, hd, by omega, ?_, ?_, ?_, by intro k h1 h2; omega⟩
    · simp
    · intro k; have : ¬ (d ≤ k ∧ k < d) := by omega
      simp [this]
    · cases hi : items d with
      | none => rfl
      | some x =>
        obtain ⟨_, e, he, _⟩ := hitm d x hi
        have : d < hist.length := by
          rcases List.getElem?_eq_some_iff.mp he with ⟨h, _⟩; exact h
        omega
  | succ r ih =>
    intro d items hres hd hitm
    cases hi : items d with
    | none =>
      have hdl : drainLoop items (r + 1) d = ([], items, r + 1, d) := by simp [drainLoop, hi]
      rw [hdl]
      refine ⟨Nat.le_refl _, hd, by omega, ?_, ?_, hi, by intro k h1 h2; dsimp only at h2; omega⟩
      · simp
      · intro k; have : ¬ (d ≤ k ∧ k < d) := by omega
        simp [this]
    | some x =>
      obtain ⟨_, e, he, hx⟩ := hitm d x hi
      have hdl : d < hist.length := by
        rcases List.getElem?_eq_some_iff.mp he with ⟨h, _⟩; exact h
      have hitm' : ∀ k y, (fun k => if k = d then none else items k) k = some y →
          d + 1 ≤ k ∧ ∃ e, hist[k]? = some e ∧ y = f e := by
        intro k y hk
        by_cases hkd : k = d
        · simp [hkd] at hk
        · simp [hkd] at hk
          obtain ⟨h1, h2⟩ := hitm k y hk
          exact ⟨by omega, h2⟩
      obtain ⟨i1, i2, i3, i4, i5, i6, i7⟩ := ih (d + 1) (fun k => if k = d then none else items k) (by omega) (by omega) hitm'
      have hdl : drainLoop items (r + 1) d =
          (x ++ (drainLoop (fun k => if k = d then none else items k) r (d + 1)).1,
           (drainLoop (fun k => if k = d then none else items k) r (d + 1)).2) := by simp [drainLoop, hi]
      rw [hdl]
      dsimp only
      refine ⟨by omega, i2, i3, ?_, ?_, i6, ?_⟩
      · rw [i4]
        have hlt : d < (hist.take (drainLoop (fun k => if k = d then none else items k) r (d + 1)).2.2.2).length := by
          simp; omega
        rw [List.drop_eq_getElem_cons hlt]
        simp only [List.map_cons, List.flatten_cons]
        congr 1
        rw [hx]
        congr 1
        have := List.getElem?_eq_some_iff.mp he
        obtain ⟨h, hh⟩ := this
        simp [hh]
      · intro k
        rw [i5 k]
        by_cases hkd : k = d
        · subst hkd
          have : ¬ (k + 1 ≤ k ∧ k < (drainLoop (fun j => if j = k then none else items j) r (k + 1)).2.2.2) := by omega
          simp [this]
          omega
        · by_cases h1 : d + 1 ≤ k ∧ k < (drainLoop (fun k => if k = d then none else items k) r (d + 1)).2.2.2
          · have : d ≤ k ∧ k < (drainLoop (fun k => if k = d then none else items k) r (d + 1)).2.2.2 := by omega
            simp [h1, this]
          · have : ¬ (d ≤ k ∧ k < (drainLoop (fun k => if k = d then none else items k) r (d + 1)).2.2.2) := by omega
            simp [h1, this, hkd]
      · intro k h1 h2
        by_cases hkd : k = d
        · subst hkd; simp [hi]
        · have := i7 k (by omega) h2
          simpa [hkd] using this


def held : Pc α → List α
  | .mid evs => evs
  | _ => []

theorem held_of_not_holds (p : Pc α) (h : p.holds = false) : held p = [] := by
  cases p <;> simp_all [held, Pc.holds]

structure BufInv (f : List α → List ρ) (next d rs cp : Nat) (items : Nat → Option (List ρ))
    (inflight : List (Nat × List α)) (drainers : Nat) (outp : List ρ) (hist : List (List α)) : Prop where
  len : hist.length = next
  dle : d ≤ next
  hres : rs = next - d
  capb : rs ≤ cp
  out : outp = ((hist.take d).map f).flatten
  infl : ∀ k e, (k, e) ∈ inflight → d ≤ k ∧ hist[k]? = some e ∧ items k = none
  nodup : (inflight.map Prod.fst).Nodup
  itm : ∀ k x, items k = some x → d ≤ k ∧ ∃ e, hist[k]? = some e ∧ x = f e
  cover : ∀ k, d ≤ k → k < next → items k ≠ none ∨ ∃ e, (k, e) ∈ inflight
  live : items d ≠ none → 0 < drainers

structure Inv (f : List α → List ρ) (r : Run α ρ) (hist : List (List α)) : Prop where
  buf : BufInv f r.st.nextSeq r.st.drainedSeq r.st.reserved r.st.cap r.st.items r.st.inflight r.st.drainers r.out hist
  mutex : ¬ (r.st.pp.holds = true ∧ r.st.tp.holds = true)
  ins : r.ins = hist.flatten ++ held r.st.pp ++ held r.st.tp ++ r.st.b.batch

theorem add_batch' (s : Batcher.St α) (x : α) : (Batcher.add s x).batch = s.batch ++ [x] := by
  unfold Batcher.add; split <;> rfl

theorem flush_concat' (s : Batcher.St α) (t : Batcher.Tok) :
    (Batcher.flush s t).2 ++ (Batcher.flush s t).1.batch = s.batch := by
  unfold Batcher.flush; split <;> simp

theorem lookupSeq_mem (seq : Nat) (l : List (Nat × List α)) (e : List α) (h : lookupSeq seq l = some e) :
    (seq, e) ∈ l := by
  induction l with
  | nil => simp [lookupSeq] at h
  | cons p rest ih =>
    obtain ⟨k, e'⟩ := p
    simp only [lookupSeq] at h
    split at h
    · next hk => simp at h; subst hk; subst h; simp
    · exact List.mem_cons_of_mem _ (ih h)


theorem getElem?_lt_of_some {β : Type} (l : List β) (k : Nat) (e : β) (h : l[k]? = some e) : k < l.length :=
  (List.getElem?_eq_some_iff.mp h).1

theorem BufInv.reserve {f : List α → List ρ} {next d rs cp : Nat} {items : Nat → Option (List ρ)}
    {inflight : List (Nat × List α)} {drainers : Nat} {outp : List ρ} {hist : List (List α)}
    (hb : BufInv f next d rs cp items inflight drainers outp hist) (evs : List α) (hlt : rs < cp) :
    BufInv f (next + 1) d (rs + 1) cp items (inflight ++ [(next, evs)]) drainers outp (hist ++ [evs]) := by
  have hnone : items next = none := by
    cases hi : items next with
    | none => rfl
    | some x =>
      obtain ⟨_, e, he, _⟩ := hb.itm next x hi
      have := getElem?_lt_of_some _ _ _ he
      have := hb.len; omega
  refine ⟨by simp [hb.len], by have := hb.dle; omega, by have := hb.hres; have := hb.dle; omega, by omega, ?_, ?_, ?_, ?_, ?_, hb.live⟩
  · rw [List.take_append_of_le_length (by rw [hb.len]; exact hb.dle)]; exact hb.out
  · intro k e hke
    rcases List.mem_append.mp hke with h | h
    · obtain ⟨h1, h2, h3⟩ := hb.infl k e h
      refine ⟨h1, ?_, h3⟩
      rw [List.getElem?_append_left (getElem?_lt_of_some _ _ _ h2)]; exact h2
    · simp at h
      obtain ⟨rfl, rfl⟩ := h
      refine ⟨hb.dle, ?_, hnone⟩
      simp [← hb.len]
  · rw [List.map_append, List.nodup_append]
    refine ⟨hb.nodup, by simp, ?_⟩
    intro a ha b hb'
    simp at hb'
    subst hb'
    intro hab
    subst hab
    obtain ⟨p, hp, rfl⟩ := List.mem_map.mp ha
    obtain ⟨_, h2, _⟩ := hb.infl p.1 p.2 hp
    have := getElem?_lt_of_some _ _ _ h2
    have := hb.len; omega
  · intro k x hk
    obtain ⟨h1, e, he, hx⟩ := hb.itm k x hk
    refine ⟨h1, e, ?_, hx⟩
    rw [List.getElem?_append_left (getElem?_lt_of_some _ _ _ he)]; exact he
  · intro k h1 h2
    by_cases hk : k < next
    · rcases hb.cover k h1 hk with h | ⟨e, he⟩
      · exact Or.inl h
      · exact Or.inr ⟨e, List.mem_append_left _ he⟩
    · have : k = next := by omega
      subst this
      exact Or.inr ⟨evs, by simp⟩

theorem BufInv.fetchDone {f : List α → List ρ} {next d rs cp : Nat} {items : Nat → Option (List ρ)}
    {inflight : List (Nat × List α)} {drainers : Nat} {outp : List ρ} {hist : List (List α)}
    (hb : BufInv f next d rs cp items inflight drainers outp hist) (seq : Nat) (evs : List α)
    (hl : lookupSeq seq inflight = some evs) :
    BufInv f next d rs cp (fun k => if k = seq then some (f evs) else items k)
      (inflight.filter (fun p => p.1 != seq)) (drainers + 1) outp hist := by
  have hmem := lookupSeq_mem seq inflight evs hl
  obtain ⟨m1, m2, m3⟩ := hb.infl seq evs hmem
  refine ⟨hb.len, hb.dle, hb.hres, hb.capb, hb.out, ?_, ?_, ?_, ?_, by intro _; omega⟩
  · intro k e hke
    obtain ⟨h1, h2⟩ := List.mem_filter.mp hke
    simp at h2
    obtain ⟨a, b, c⟩ := hb.infl k e h1
    exact ⟨a, b, by simp [h2, c]⟩
  · exact List.Nodup.sublist ((List.filter_sublist).map _) hb.nodup
  · intro k x hk
    by_cases hks : k = seq
    · subst hks
      simp at hk
      exact ⟨m1, evs, m2, hk.symm⟩
    · simp [hks] at hk
      exact hb.itm k x hk
  · intro k h1 h2
    by_cases hks : k = seq
    · left; simp [hks]
    · rcases hb.cover k h1 h2 with h | ⟨e, he⟩
      · left; simpa [hks] using h
      · right; exact ⟨e, List.mem_filter.mpr ⟨he, by simpa using hks⟩⟩

theorem BufInv.drain {f : List α → List ρ} {next d rs cp : Nat} {items : Nat → Option (List ρ)}
    {inflight : List (Nat × List α)} {drainers : Nat} {outp : List ρ} {hist : List (List α)}
    (hb : BufInv f next d rs cp items inflight (drainers + 1) outp hist) :
    BufInv f next (drainLoop items rs d).2.2.2 (drainLoop items rs d).2.2.1 cp (drainLoop items rs d).2.1
      inflight drainers (outp ++ (drainLoop items rs d).1) hist := by
  obtain ⟨s1, s2, s3, s4, s5, s6, s7⟩ := drainLoop_spec f hist next hb.len rs d items hb.hres hb.dle hb.itm
  refine ⟨hb.len, s2, s3, by have := hb.hres; have := hb.capb; omega, ?_, ?_, hb.nodup, ?_, ?_, by intro h; exact absurd s6 h⟩
  · rw [s4, hb.out, ← List.flatten_append, ← List.map_append]
    congr 2
    have h1 : List.take d hist = List.take d (List.take (drainLoop items rs d).2.2.2 hist) := by
      rw [List.take_take]; congr 1; omega
    rw [h1, List.take_append_drop]
  · intro k e hke
    obtain ⟨a, b, c⟩ := hb.infl k e hke
    have hk : (drainLoop items rs d).2.2.2 ≤ k := by
      by_cases hlt : k < (drainLoop items rs d).2.2.2
      · exact absurd c (s7 k a hlt)
      · omega
    refine ⟨hk, b, ?_⟩
    rw [s5 k]; split <;> simp [c]
  · intro k x hk
    rw [s5 k] at hk
    split at hk
    · simp at hk
    · next hn =>
      obtain ⟨a, b⟩ := hb.itm k x hk
      exact ⟨by omega, b⟩
  · intro k h1 h2
    have hn : ¬ (d ≤ k ∧ k < (drainLoop items rs d).2.2.2) := by omega
    rcases hb.cover k (by omega) h2 with h | h
    · left; rw [s5 k]; simpa [hn] using h
    · exact Or.inr h

theorem inv_step (f : List α → List ρ) (r : Run α ρ) (hist : List (List α)) (h : Inv f r hist)
    (a : Act α) (s' : St α ρ) (o : List ρ) (hs : step f true r.st a = some (s', o)) :
    ∃ hist', Inv f { st := s', ins := r.ins ++ inputOf a, out := r.out ++ o } hist' := by
  obtain ⟨hb, hm, hi⟩ := h
  cases a with
  | pAdd x =>
    simp only [step] at hs
    split at hs <;> try (simp at hs)
    next hp =>
    obtain ⟨rfl, rfl⟩ := hs
    refine ⟨hist, ⟨by simpa using hb, by simp [Pc.holds], ?_⟩⟩
    simp [inputOf, hi, hp, held, add_batch']
  | pIsFull =>
    simp only [step] at hs
    split at hs <;> try (simp at hs)
    next hp =>
    obtain ⟨rfl, rfl⟩ := hs
    refine ⟨hist, ⟨by simpa using hb, ?_, ?_⟩⟩
    · dsimp only; split <;> simp [Pc.holds]
    · dsimp only; simp only [inputOf, List.append_nil, hi, hp]; split <;> simp [held]
  | pFlush =>
    simp only [step] at hs
    split at hs <;> try (simp at hs)
    next hp =>
    obtain ⟨rfl, rfl⟩ := hs
    refine ⟨hist, ⟨by simpa using hb, by simp [Pc.holds], ?_⟩⟩
    simp [inputOf, hi, hp, held]
  | fire =>
    simp only [step] at hs
    split at hs <;> try (simp at hs)
    obtain ⟨rfl, rfl⟩ := hs
    exact ⟨hist, ⟨by simpa using hb, hm, by simpa [inputOf] using hi⟩⟩
  | stale =>
    simp only [step] at hs
    split at hs <;> try (simp at hs)
    obtain ⟨rfl, rfl⟩ := hs
    exact ⟨hist, ⟨by simpa using hb, hm, by simpa [inputOf] using hi⟩⟩
  | tmoRecv =>
    simp only [step] at hs
    split at hs <;> try (simp at hs)
    next hp _ =>
    obtain ⟨rfl, rfl⟩ := hs
    refine ⟨hist, ⟨by simpa using hb, by simp [Pc.holds], ?_⟩⟩
    simp [inputOf, hi, hp, held]
  | lock t =>
    simp only [step] at hs
    cases t with
    | prod =>
      simp only [pc, other, setPc] at hs
      split at hs <;> try (simp at hs)
      next hp =>
      obtain ⟨hc, rfl, rfl⟩ := hs
      refine ⟨hist, ⟨by simpa using hb, by simp [hc], ?_⟩⟩
      simp [inputOf, hi, hp, held]
    | tmo =>
      simp only [pc, other, setPc] at hs
      split at hs <;> try (simp at hs)
      next hp =>
      obtain ⟨hc, rfl, rfl⟩ := hs
      refine ⟨hist, ⟨by simpa using hb, by simp [hc], ?_⟩⟩
      simp [inputOf, hi, hp, held]
  | flushA t =>
    simp only [step] at hs
    cases t with
    | prod =>
      simp only [pc, setPc] at hs
      split at hs <;> try (simp at hs)
      next hp =>
      obtain ⟨rfl, rfl⟩ := hs
      have hnt : r.st.tp.holds = false := by
        cases ht : r.st.tp.holds
        · rfl
        · exact absurd ⟨by simp [hp, Pc.holds], ht⟩ hm
      refine ⟨hist, ⟨by simpa using hb, by simp [hnt], ?_⟩⟩
      have ht0 := held_of_not_holds _ hnt
      simp only [inputOf, List.append_nil, hi, hp, ht0]
      simp [held, flush_concat']
    | tmo =>
      simp only [pc, setPc] at hs
      split at hs <;> try (simp at hs)
      next hp =>
      obtain ⟨rfl, rfl⟩ := hs
      have hnt : r.st.pp.holds = false := by
        cases ht : r.st.pp.holds
        · rfl
        · exact absurd ⟨ht, by simp [hp, Pc.holds]⟩ hm
      refine ⟨hist, ⟨by simpa using hb, by simp [hnt], ?_⟩⟩
      have ht0 := held_of_not_holds _ hnt
      simp only [inputOf, List.append_nil, hi, hp, ht0]
      simp [held, flush_concat']
  | flushB t =>
    simp only [step] at hs
    cases t with
    | prod =>
      simp only [pc, setPc] at hs
      have hnt : r.st.tp.holds = false → held r.st.tp = [] := held_of_not_holds _
      split at hs
      · next hp =>
        simp at hs
        obtain ⟨rfl, rfl⟩ := hs
        refine ⟨hist, ⟨by simpa using hb, by simp [Pc.holds], ?_⟩⟩
        simp [inputOf, hi, hp, held]
      · next e es hp =>
        split at hs <;> try (simp at hs)
        next hlt =>
        obtain ⟨rfl, rfl⟩ := hs
        have hnt : r.st.tp.holds = false := by
          cases ht : r.st.tp.holds
          · rfl
          · exact absurd ⟨by simp [hp, Pc.holds], ht⟩ hm
        have ht0 := held_of_not_holds _ hnt
        refine ⟨hist ++ [e :: es], ⟨by simpa using hb.reserve (e :: es) hlt, by simp [Pc.holds], ?_⟩⟩
        simp only [inputOf, List.append_nil, hi, hp, ht0]
        simp [held]
      · simp at hs
    | tmo =>
      simp only [pc, setPc] at hs
      split at hs
      · next hp =>
        simp at hs
        obtain ⟨rfl, rfl⟩ := hs
        refine ⟨hist, ⟨by simpa using hb, by simp [Pc.holds], ?_⟩⟩
        simp [inputOf, hi, hp, held]
      · next e es hp =>
        split at hs <;> try (simp at hs)
        next hlt =>
        obtain ⟨rfl, rfl⟩ := hs
        have hnt : r.st.pp.holds = false := by
          cases ht : r.st.pp.holds
          · rfl
          · exact absurd ⟨ht, by simp [hp, Pc.holds]⟩ hm
        have ht0 := held_of_not_holds _ hnt
        refine ⟨hist ++ [e :: es], ⟨by simpa using hb.reserve (e :: es) hlt, by simp [Pc.holds], ?_⟩⟩
        simp only [inputOf, List.append_nil, hi, hp, ht0]
        simp [held]
      · simp at hs
  | fetchDone seq =>
    simp only [step] at hs
    split at hs <;> try (simp at hs)
    next evs hl =>
    obtain ⟨rfl, rfl⟩ := hs
    exact ⟨hist, ⟨by simpa using hb.fetchDone seq evs hl, hm, by simpa [inputOf] using hi⟩⟩
  | drain =>
    simp only [step] at hs
    split at hs <;> try (simp at hs)
    next n hn =>
    obtain ⟨rfl, rfl⟩ := hs
    rw [hn] at hb
    exact ⟨hist, ⟨hb.drain, hm, by simpa [inputOf] using hi⟩⟩

/-- the inductive invariant holds in every reachable state, for every schedule -/
theorem reorder_invariant {α ρ : Type} (f : List α → List ρ) (as : List (Act α)) :
    ∀ (r r' : Run α ρ) (hist : List (List α)), Inv f r hist → exec f true r as = some r' → ∃ hist', Inv f r' hist' := by
  induction as with
  | nil => intro r r' hist h he; simp [exec] at he; subst he; exact ⟨hist, h⟩
  | cons a as ih =>
    intro r r' hist h he
    simp only [exec] at he
    split at he
    · simp at he
    · next s' o hs =>
      obtain ⟨hist', h'⟩ := inv_step f r hist h a s' o hs
      exact ih _ r' hist' h' he

theorem reorder_init_inv {α ρ : Type} (f : List α → List ρ) (maxSize : Nat) (hasDelay : Bool) (bufferSize : Nat) :
    Inv f ({ st := init maxSize hasDelay bufferSize } : Run α ρ) [] := by
  refine ⟨⟨rfl, Nat.le_refl _, rfl, Nat.zero_le _, rfl, ?_, ?_, ?_, ?_, ?_⟩, ?_, ?_⟩
  · intro k e h; simp [init] at h
  · simp [init]
  · intro k x h; simp [init] at h
  · intro k h1 h2; simp [init] at h2
  · intro h; simp [init] at h
  · simp [init, Pc.holds]
  · simp [init, held, Batcher.new]

theorem exec_ins {α ρ : Type} (f : List α → List ρ) (b : Bool) (as : List (Act α)) :
    ∀ (r r' : Run α ρ), exec f b r as = some r' → r'.ins = r.ins ++ inputs as := by
  induction as with
  | nil => intro r r' he; simp [exec] at he; subst he; simp [inputs]
  | cons a as ih =>
    intro r r' he
    simp only [exec] at he
    split at he
    · simp at he
    · have := ih _ r' he
      simp [this, inputs]

end Rxn.Reorder
