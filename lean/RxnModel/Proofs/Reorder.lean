import RxnModel.Model.Reorder
/-! Helper lemmas for C20/C04: the inductive invariant of the `Model/Reorder.lean` transition system. -/
namespace Rxn.Reorder
variable {α ρ : Type}

def held : Pc α → List α
  | .mid evs => evs
  | _ => []

theorem held_of_not_holds (p : Pc α) (h : p.holds = false) : held p = [] := by
  cases p <;> simp_all [held, Pc.holds]

abbrev cur : Option (List ρ) → List ρ := curOf

/-- buffer part of the invariant. `hist` lists the reserved batches with their sequence numbers in reservation
order, `G` is the result of the fetch for a batch, `outp` what the consumer has received. -/
structure BufInv (G : Nat × List α → List ρ) (next d rs cp : Nat) (items : Nat → Option (List ρ))
    (inflight : List (Nat × List α)) (drainers : Nat) (drainer : Option (List ρ)) (oc : Nat) (outq : List ρ)
    (outp : List ρ) (hist : List (Nat × List α)) : Prop where
  len : hist.length = next
  seqs : ∀ (k : Nat) (p : Nat × List α), hist[k]? = some p → p.1 = k
  dle : d ≤ next
  hres : rs = next - d
  capb : rs ≤ cp
  out : outp ++ outq ++ cur drainer = ((hist.take d).map G).flatten
  ocapb : outq.length ≤ oc
  infl : ∀ k e, (k, e) ∈ inflight → d ≤ k ∧ hist[k]? = some (k, e) ∧ items k = none
  nodup : (inflight.map Prod.fst).Nodup
  itm : ∀ k x, items k = some x → d ≤ k ∧ ∃ p, hist[k]? = some p ∧ x = G p
  cover : ∀ k, d ≤ k → k < next → items k ≠ none ∨ ∃ e, (k, e) ∈ inflight
  live : items d ≠ none → 0 < drainers
  dact : drainer ≠ none → 0 < drainers

structure Inv (f : List α → List ρ) (fails : Nat → Bool) (r : Run α ρ) (hist : List (Nat × List α)) : Prop where
  buf : BufInv (resultOf f fails) r.st.nextSeq r.st.drainedSeq r.st.reserved r.st.cap r.st.items r.st.inflight
    r.st.drainers r.st.drainer r.st.ocap r.st.outq r.out hist
  mutex : ¬ (r.st.pp.holds = true ∧ r.st.tp.holds = true)
  ins : r.ins = (hist.map Prod.snd).flatten ++ held r.st.pp ++ held r.st.tp ++ r.st.b.batch

theorem add_batch' (s : Batcher.St α) (x : α) : (Batcher.add s x).batch = s.batch ++ [x] := by
  unfold Batcher.add; split <;> rfl

theorem flush_concat' (s : Batcher.St α) (t : Batcher.Tok) :
    (Batcher.flush s t).2 ++ (Batcher.flush s t).1.batch = s.batch := by
  unfold Batcher.flush; split <;> simp

theorem lookupSeq_mem (seq : Nat) (l : List (Nat × List α)) (e : List α) (h : lookupSeq seq l = some e) :
    (seq, e) ∈ l := by
  induction l with
  | nil => simp [lookupSeq] at h
  | cons p rest ih =>
    obtain ⟨k, e'⟩ := p
    simp only [lookupSeq] at h
    split at h
    · next hk => simp at h; subst hk; subst h; simp
    · exact List.mem_cons_of_mem _ (ih h)

theorem mem_lookupSeq (seq : Nat) (l : List (Nat × List α)) (e : List α) (h : (seq, e) ∈ l) :
    lookupSeq seq l ≠ none := by
  induction l with
  | nil => simp at h
  | cons p rest ih =>
    obtain ⟨k, e'⟩ := p
    simp only [lookupSeq]
    split
    · simp
    · next hk =>
      rcases List.mem_cons.mp h with h1 | h1
      · simp at h1; exact absurd h1.1.symm hk
      · exact ih h1

theorem getElem?_lt_of_some {β : Type} (l : List β) (k : Nat) (e : β) (h : l[k]? = some e) : k < l.length :=
  (List.getElem?_eq_some_iff.mp h).1

section buf
variable {G : Nat × List α → List ρ} {next d rs cp : Nat} {items : Nat → Option (List ρ)}
  {inflight : List (Nat × List α)} {drainers : Nat} {drainer : Option (List ρ)} {oc : Nat} {outq outp : List ρ}
  {hist : List (Nat × List α)}

theorem BufInv.reserve (hb : BufInv G next d rs cp items inflight drainers drainer oc outq outp hist)
    (evs : List α) (hlt : rs < cp) :
    BufInv G (next + 1) d (rs + 1) cp items (inflight ++ [(next, evs)]) drainers drainer oc outq outp
      (hist ++ [(next, evs)]) := by
  have hnone : items next = none := by
    cases hi : items next with
    | none => rfl
    | some x =>
      obtain ⟨_, e, he, _⟩ := hb.itm next x hi
      have := getElem?_lt_of_some _ _ _ he
      have := hb.len; omega
  refine ⟨by simp [hb.len], ?_, by have := hb.dle; omega, by have := hb.hres; have := hb.dle; omega, by omega, ?_,
    hb.ocapb, ?_, ?_, ?_, ?_, hb.live, hb.dact⟩
  · intro k p hk
    by_cases hlt' : k < hist.length
    · rw [List.getElem?_append_left hlt'] at hk; exact hb.seqs k p hk
    · have hk' := getElem?_lt_of_some _ _ _ hk
      simp at hk'
      have : k = hist.length := by omega
      subst this
      simp at hk
      rw [← hk]; exact hb.len.symm
  · rw [List.take_append_of_le_length (by rw [hb.len]; exact hb.dle)]; exact hb.out
  · intro k e hke
    rcases List.mem_append.mp hke with h | h
    · obtain ⟨h1, h2, h3⟩ := hb.infl k e h
      refine ⟨h1, ?_, h3⟩
      rw [List.getElem?_append_left (getElem?_lt_of_some _ _ _ h2)]; exact h2
    · simp at h
      obtain ⟨rfl, rfl⟩ := h
      refine ⟨hb.dle, ?_, hnone⟩
      simp [← hb.len]
  · rw [List.map_append, List.nodup_append]
    refine ⟨hb.nodup, by simp, ?_⟩
    intro a ha b hb'
    simp at hb'
    subst hb'
    intro hab
    subst hab
    obtain ⟨p, hp, rfl⟩ := List.mem_map.mp ha
    obtain ⟨_, h2, _⟩ := hb.infl p.1 p.2 hp
    have := getElem?_lt_of_some _ _ _ h2
    have := hb.len; omega
  · intro k x hk
    obtain ⟨h1, e, he, hx⟩ := hb.itm k x hk
    refine ⟨h1, e, ?_, hx⟩
    rw [List.getElem?_append_left (getElem?_lt_of_some _ _ _ he)]; exact he
  · intro k h1 h2
    by_cases hk : k < next
    · rcases hb.cover k h1 hk with h | ⟨e, he⟩
      · exact Or.inl h
      · exact Or.inr ⟨e, List.mem_append_left _ he⟩
    · have : k = next := by omega
      subst this
      exact Or.inr ⟨evs, by simp⟩

theorem BufInv.fetchDone (hb : BufInv G next d rs cp items inflight drainers drainer oc outq outp hist)
    (seq : Nat) (evs : List α) (hl : lookupSeq seq inflight = some evs) :
    BufInv G next d rs cp (fun k => if k = seq then some (G (seq, evs)) else items k)
      (inflight.filter (fun p => p.1 != seq)) (drainers + 1) drainer oc outq outp hist := by
  have hmem := lookupSeq_mem seq inflight evs hl
  obtain ⟨m1, m2, m3⟩ := hb.infl seq evs hmem
  refine ⟨hb.len, hb.seqs, hb.dle, hb.hres, hb.capb, hb.out, hb.ocapb, ?_, ?_, ?_, ?_, by intro _; omega, by intro _; omega⟩
  · intro k e hke
    obtain ⟨h1, h2⟩ := List.mem_filter.mp hke
    simp at h2
    obtain ⟨a, b, c⟩ := hb.infl k e h1
    exact ⟨a, b, by simp [h2, c]⟩
  · exact List.Nodup.sublist ((List.filter_sublist).map _) hb.nodup
  · intro k x hk
    by_cases hks : k = seq
    · subst hks
      simp at hk
      exact ⟨m1, (k, evs), m2, hk.symm⟩
    · simp [hks] at hk
      exact hb.itm k x hk
  · intro k h1 h2
    by_cases hks : k = seq
    · left; simp [hks]
    · rcases hb.cover k h1 h2 with h | ⟨e, he⟩
      · left; simpa [hks] using h
      · right; exact ⟨e, List.mem_filter.mpr ⟨he, by simpa using hks⟩⟩

theorem BufInv.drainStart (hb : BufInv G next d rs cp items inflight (drainers + 1) none oc outq outp hist) :
    BufInv G next d rs cp items inflight (drainers + 1) (some []) oc outq outp hist :=
  ⟨hb.len, hb.seqs, hb.dle, hb.hres, hb.capb, by simpa [cur, curOf] using hb.out, hb.ocapb, hb.infl, hb.nodup, hb.itm, hb.cover,
    by intro _; omega, by intro _; omega⟩

/-- the `Drain` loop dequeues the next sequence number -/
theorem BufInv.drainTake (hb : BufInv G next d (r + 1) cp items inflight drainers (some []) oc outq outp hist)
    (x : List ρ) (hx : items d = some x) :
    BufInv G next (d + 1) r cp (fun k => if k = d then none else items k) inflight drainers (some x) oc outq outp hist := by
  obtain ⟨_, p, hp, hxp⟩ := hb.itm d x hx
  have hdl : d < hist.length := getElem?_lt_of_some _ _ _ hp
  have hpos := hb.dact (by simp)
  refine ⟨hb.len, hb.seqs, by have := hb.len; omega, by have := hb.hres; omega, by have := hb.capb; omega, ?_, hb.ocapb,
    ?_, hb.nodup, ?_, ?_, by intro _; exact hpos, by intro _; exact hpos⟩
  · have h0 := hb.out
    simp only [cur, curOf, List.append_nil] at h0
    obtain ⟨hlt, hget⟩ := List.getElem?_eq_some_iff.mp hp
    rw [List.take_succ_eq_append_getElem hlt, List.map_append, List.flatten_append, ← h0]
    simp [cur, curOf, hxp, hget]
  · intro k e hke
    obtain ⟨a, b, c⟩ := hb.infl k e hke
    have hkd : k ≠ d := by intro h; subst h; rw [hx] at c; simp at c
    exact ⟨by omega, b, by simp [hkd, c]⟩
  · intro k y hk
    by_cases hkd : k = d
    · simp [hkd] at hk
    · simp [hkd] at hk
      obtain ⟨a, b⟩ := hb.itm k y hk
      exact ⟨by omega, b⟩
  · intro k h1 h2
    have hkd : k ≠ d := by omega
    rcases hb.cover k (by omega) h2 with h | h
    · left; simpa [hkd] using h
    · exact Or.inr h

/-- the `Drain` loop finds nothing more and releases the mutex -/
theorem BufInv.drainEnd (hb : BufInv G next d rs cp items inflight (n + 1) (some []) oc outq outp hist)
    (hx : items d = none) :
    BufInv G next d rs cp items inflight n none oc outq outp hist :=
  ⟨hb.len, hb.seqs, hb.dle, hb.hres, hb.capb, by simpa [cur, curOf] using hb.out, hb.ocapb, hb.infl, hb.nodup, hb.itm, hb.cover,
    by intro h; exact absurd hx h, by intro h; exact absurd rfl h⟩

theorem BufInv.send (hb : BufInv G next d rs cp items inflight drainers (some (x :: rest)) oc outq outp hist)
    (hroom : outq.length < oc) :
    BufInv G next d rs cp items inflight drainers (some rest) oc (outq ++ [x]) outp hist :=
  ⟨hb.len, hb.seqs, hb.dle, hb.hres, hb.capb, by have := hb.out; simpa [cur, curOf, List.append_assoc] using this,
    by simp; omega, hb.infl, hb.nodup, hb.itm, hb.cover, hb.live, by intro _; exact hb.dact (by simp)⟩

theorem BufInv.recvQ (hb : BufInv G next d rs cp items inflight drainers drainer oc (x :: q) outp hist) :
    BufInv G next d rs cp items inflight drainers drainer oc q (outp ++ [x]) hist :=
  ⟨hb.len, hb.seqs, hb.dle, hb.hres, hb.capb, by have := hb.out; simpa [List.append_assoc] using this,
    by have := hb.ocapb; simp at this; omega, hb.infl, hb.nodup, hb.itm, hb.cover, hb.live, hb.dact⟩

theorem BufInv.recvDirect (hb : BufInv G next d rs cp items inflight drainers (some (x :: rest)) oc [] outp hist) :
    BufInv G next d rs cp items inflight drainers (some rest) oc [] (outp ++ [x]) hist :=
  ⟨hb.len, hb.seqs, hb.dle, hb.hres, hb.capb, by have := hb.out; simpa [cur, curOf, List.append_assoc] using this,
    hb.ocapb, hb.infl, hb.nodup, hb.itm, hb.cover, hb.live, by intro _; exact hb.dact (by simp)⟩

end buf

theorem inv_step (f : List α → List ρ) (fails : Nat → Bool) (r : Run α ρ) (hist : List (Nat × List α))
    (h : Inv f fails r hist)
    (a : Act α) (s' : St α ρ) (o : List ρ) (hs : step f fails true r.st a = some (s', o)) :
    ∃ hist', Inv f fails { st := s', ins := r.ins ++ inputOf a, out := r.out ++ o } hist' := by
  obtain ⟨hb, hm, hi⟩ := h
  cases a with
  | pAdd x =>
    simp only [step] at hs
    split at hs <;> try (simp at hs)
    next hp =>
    obtain ⟨rfl, rfl⟩ := hs
    refine ⟨hist, ⟨by simpa using hb, by simp [Pc.holds], ?_⟩⟩
    simp [inputOf, hi, hp, held, add_batch']
  | pIsFull =>
    simp only [step] at hs
    split at hs <;> try (simp at hs)
    next hp =>
    obtain ⟨rfl, rfl⟩ := hs
    refine ⟨hist, ⟨by simpa using hb, ?_, ?_⟩⟩
    · dsimp only; split <;> simp [Pc.holds]
    · dsimp only; simp only [inputOf, List.append_nil, hi, hp]; split <;> simp [held]
  | pFlush =>
    simp only [step] at hs
    split at hs <;> try (simp at hs)
    next hp =>
    obtain ⟨rfl, rfl⟩ := hs
    refine ⟨hist, ⟨by simpa using hb, by simp [Pc.holds], ?_⟩⟩
    simp [inputOf, hi, hp, held]
  | fire =>
    simp only [step] at hs
    split at hs <;> try (simp at hs)
    obtain ⟨rfl, rfl⟩ := hs
    exact ⟨hist, ⟨by simpa using hb, hm, by simpa [inputOf] using hi⟩⟩
  | stale =>
    simp only [step] at hs
    split at hs <;> try (simp at hs)
    obtain ⟨rfl, rfl⟩ := hs
    exact ⟨hist, ⟨by simpa using hb, hm, by simpa [inputOf] using hi⟩⟩
  | tmoRecv =>
    simp only [step] at hs
    split at hs <;> try (simp at hs)
    next hp _ =>
    obtain ⟨rfl, rfl⟩ := hs
    refine ⟨hist, ⟨by simpa using hb, by simp [Pc.holds], ?_⟩⟩
    simp [inputOf, hi, hp, held]
  | lock t =>
    simp only [step] at hs
    cases t with
    | prod =>
      simp only [pc, other, setPc] at hs
      split at hs <;> try (simp at hs)
      next hp =>
      obtain ⟨hc, rfl, rfl⟩ := hs
      refine ⟨hist, ⟨by simpa using hb, by simp [hc], ?_⟩⟩
      simp [inputOf, hi, hp, held]
    | tmo =>
      simp only [pc, other, setPc] at hs
      split at hs <;> try (simp at hs)
      next hp =>
      obtain ⟨hc, rfl, rfl⟩ := hs
      refine ⟨hist, ⟨by simpa using hb, by simp [hc], ?_⟩⟩
      simp [inputOf, hi, hp, held]
  | flushA t =>
    simp only [step] at hs
    cases t with
    | prod =>
      simp only [pc, setPc] at hs
      split at hs <;> try (simp at hs)
      next hp =>
      obtain ⟨rfl, rfl⟩ := hs
      have hnt : r.st.tp.holds = false := by
        cases ht : r.st.tp.holds
        · rfl
        · exact absurd ⟨by simp [hp, Pc.holds], ht⟩ hm
      refine ⟨hist, ⟨by simpa using hb, by simp [hnt], ?_⟩⟩
      have ht0 := held_of_not_holds _ hnt
      simp only [inputOf, List.append_nil, hi, hp, ht0]
      simp [held, flush_concat']
    | tmo =>
      simp only [pc, setPc] at hs
      split at hs <;> try (simp at hs)
      next hp =>
      obtain ⟨rfl, rfl⟩ := hs
      have hnt : r.st.pp.holds = false := by
        cases ht : r.st.pp.holds
        · rfl
        · exact absurd ⟨ht, by simp [hp, Pc.holds]⟩ hm
      refine ⟨hist, ⟨by simpa using hb, by simp [hnt], ?_⟩⟩
      have ht0 := held_of_not_holds _ hnt
      simp only [inputOf, List.append_nil, hi, hp, ht0]
      simp [held, flush_concat']
  | flushB t =>
    simp only [step] at hs
    cases t with
    | prod =>
      simp only [pc, setPc] at hs
      split at hs
      · next hp =>
        simp at hs
        obtain ⟨rfl, rfl⟩ := hs
        refine ⟨hist, ⟨by simpa using hb, by simp [Pc.holds], ?_⟩⟩
        simp [inputOf, hi, hp, held]
      · next e es hp =>
        split at hs <;> try (simp at hs)
        next hlt =>
        obtain ⟨rfl, rfl⟩ := hs
        have hnt : r.st.tp.holds = false := by
          cases ht : r.st.tp.holds
          · rfl
          · exact absurd ⟨by simp [hp, Pc.holds], ht⟩ hm
        have ht0 := held_of_not_holds _ hnt
        refine ⟨hist ++ [(r.st.nextSeq, e :: es)], ⟨by simpa using hb.reserve (e :: es) hlt, by simp [Pc.holds], ?_⟩⟩
        simp only [inputOf, List.append_nil, hi, hp, ht0]
        simp [held]
      · simp at hs
    | tmo =>
      simp only [pc, setPc] at hs
      split at hs
      · next hp =>
        simp at hs
        obtain ⟨rfl, rfl⟩ := hs
        refine ⟨hist, ⟨by simpa using hb, by simp [Pc.holds], ?_⟩⟩
        simp [inputOf, hi, hp, held]
      · next e es hp =>
        split at hs <;> try (simp at hs)
        next hlt =>
        obtain ⟨rfl, rfl⟩ := hs
        have hnt : r.st.pp.holds = false := by
          cases ht : r.st.pp.holds
          · rfl
          · exact absurd ⟨ht, by simp [hp, Pc.holds]⟩ hm
        have ht0 := held_of_not_holds _ hnt
        refine ⟨hist ++ [(r.st.nextSeq, e :: es)], ⟨by simpa using hb.reserve (e :: es) hlt, by simp [Pc.holds], ?_⟩⟩
        simp only [inputOf, List.append_nil, hi, hp, ht0]
        simp [held]
      · simp at hs
  | fetchErr seq =>
    simp only [step] at hs
    split at hs <;> try (simp at hs)
    obtain ⟨_, rfl, rfl⟩ := hs
    exact ⟨hist, ⟨by simpa using hb, hm, by simpa [inputOf] using hi⟩⟩
  | fetchDone seq =>
    simp only [step] at hs
    split at hs <;> try (simp at hs)
    next evs hd hl =>
    obtain ⟨_, rfl, rfl⟩ := hs
    exact ⟨hist, ⟨by simpa using hb.fetchDone seq evs hl, hm, by simpa [inputOf] using hi⟩⟩
  | drainStart =>
    simp only [step] at hs
    split at hs <;> try (simp at hs)
    next n hd hn =>
    obtain ⟨rfl, rfl⟩ := hs
    rw [hd, hn] at hb
    exact ⟨hist, ⟨by simpa [hn] using hb.drainStart, hm, by simpa [inputOf] using hi⟩⟩
  | drainNext =>
    simp only [step] at hs
    split at hs <;> try (simp at hs)
    next hd =>
    split at hs
    · next x hx =>
      split at hs <;> try (simp at hs)
      next rr hr =>
      obtain ⟨rfl, rfl⟩ := hs
      rw [hd, hr] at hb
      exact ⟨hist, ⟨by simpa using hb.drainTake x hx, hm, by simpa [inputOf] using hi⟩⟩
    · next hx =>
      split at hs <;> try (simp at hs)
      next n hn =>
      obtain ⟨rfl, rfl⟩ := hs
      rw [hd, hn] at hb
      exact ⟨hist, ⟨by simpa using hb.drainEnd hx, hm, by simpa [inputOf] using hi⟩⟩
  | send =>
    simp only [step] at hs
    split at hs <;> try (simp at hs)
    next x rest hd =>
    obtain ⟨hroom, rfl, rfl⟩ := hs
    rw [hd] at hb
    exact ⟨hist, ⟨by simpa using hb.send hroom, hm, by simpa [inputOf] using hi⟩⟩
  | recv =>
    simp only [step] at hs
    split at hs
    · next x q hq =>
      simp at hs
      obtain ⟨rfl, rfl⟩ := hs
      rw [hq] at hb
      exact ⟨hist, ⟨by simpa using hb.recvQ, hm, by simpa [inputOf] using hi⟩⟩
    · next hq =>
      split at hs <;> try (simp at hs)
      next x rest hoc hd =>
      obtain ⟨rfl, rfl⟩ := hs
      rw [hq, hd] at hb
      exact ⟨hist, ⟨by simpa [hq] using hb.recvDirect, hm, by simpa [inputOf] using hi⟩⟩

/-- the inductive invariant holds in every reachable state, for every schedule and every fetch outcome -/
theorem reorder_invariant (f : List α → List ρ) (fails : Nat → Bool) (as : List (Act α)) :
    ∀ (r r' : Run α ρ) (hist : List (Nat × List α)), Inv f fails r hist → exec f fails true r as = some r' →
      ∃ hist', Inv f fails r' hist' := by
  induction as with
  | nil => intro r r' hist h he; simp [exec] at he; subst he; exact ⟨hist, h⟩
  | cons a as ih =>
    intro r r' hist h he
    simp only [exec] at he
    split at he
    · simp at he
    · next s' o hs =>
      obtain ⟨hist', h'⟩ := inv_step f fails r hist h a s' o hs
      exact ih _ r' hist' h' he

theorem reorder_init_inv (f : List α → List ρ) (fails : Nat → Bool) (maxSize : Nat) (hasDelay : Bool) (bufferSize : Nat) :
    Inv f fails ({ st := init maxSize hasDelay bufferSize } : Run α ρ) [] := by
  refine ⟨⟨rfl, ?_, Nat.le_refl _, rfl, Nat.zero_le _, rfl, Nat.zero_le _, ?_, ?_, ?_, ?_, ?_, ?_⟩, ?_, ?_⟩
  · intro k p h; simp at h
  · intro k e h; simp [init] at h
  · simp [init]
  · intro k x h; simp [init] at h
  · intro k h1 h2; simp [init] at h2
  · intro h; simp [init] at h
  · intro h; simp [init] at h
  · simp [init, Pc.holds]
  · simp [init, held, Batcher.new]

theorem exec_ins (f : List α → List ρ) (fails : Nat → Bool) (b : Bool) (as : List (Act α)) :
    ∀ (r r' : Run α ρ), exec f fails b r as = some r' → r'.ins = r.ins ++ inputs as := by
  induction as with
  | nil => intro r r' he; simp [exec] at he; subst he; simp [inputs]
  | cons a as ih =>
    intro r r' he
    simp only [exec] at he
    split at he
    · simp at he
    · have := ih _ r' he
      simp [this, inputs]

theorem exec_snoc (f : List α → List ρ) (fails : Nat → Bool) (b : Bool) (as : List (Act α)) (a : Act α) :
    ∀ (r : Run α ρ), exec f fails b r (as ++ [a]) =
      (exec f fails b r as).bind (fun r1 => (step f fails b r1.st a).map
        (fun p => { st := p.1, ins := r1.ins ++ inputOf a, out := r1.out ++ p.2 })) := by
  induction as with
  | nil =>
    intro r
    cases h : step f fails b r.st a with
    | none => simp [exec, h]
    | some p => obtain ⟨s1, o⟩ := p; simp [exec, h]
  | cons x xs ih =>
    intro r
    cases h : step f fails b r.st x with
    | none => simp [exec, h]
    | some p => obtain ⟨s1, o⟩ := p; simp only [List.cons_append, exec, h]; exact ih _

/-- only the consumer's `recv` produces an observation, and it produces exactly one value -/
theorem step_out (f : List α → List ρ) (fails : Nat → Bool) (b : Bool) (s s' : St α ρ) (a : Act α) (o : List ρ)
    (hs : step f fails b s a = some (s', o)) : (a = .recv → ∃ v, o = [v]) ∧ (a ≠ .recv → o = []) := by
  cases a <;> simp only [step] at hs <;> (repeat' (split at hs)) <;>
    first
      | (simp at hs; done)
      | (simp only [Option.some.injEq, Prod.mk.injEq] at hs; obtain ⟨_, rfl⟩ := hs; simp)
      | (simp only [Option.some.injEq, Prod.mk.injEq] at hs; obtain ⟨_, _, rfl⟩ := hs; simp)
      | (simp only [Option.ite_none_right_eq_some, Option.some.injEq, Prod.mk.injEq] at hs; obtain ⟨_, _, rfl⟩ := hs; simp)
      | (simp only [Option.ite_none_left_eq_some, Option.some.injEq, Prod.mk.injEq] at hs; obtain ⟨_, _, rfl⟩ := hs; simp)

def Pc.isAdded : Pc α → Bool
  | .added => true
  | _ => false

/-- capacities are constants of a run; the timeout goroutine is never between `Add` and `IsFull` -/
theorem step_const (f : List α → List ρ) (fails : Nat → Bool) (b : Bool) (s s' : St α ρ) (a : Act α) (o : List ρ)
    (hs : step f fails b s a = some (s', o)) :
    s'.cap = s.cap ∧ (s.tp.isAdded = false → s'.tp.isAdded = false) := by
  cases a with
  | lock t =>
    cases t <;> simp only [step, pc, other, setPc] at hs <;> split at hs <;> try (simp at hs)
    all_goals (obtain ⟨_, rfl, _⟩ := hs; simp_all [Pc.isAdded])
  | flushA t =>
    cases t <;> simp only [step, pc, other, setPc] at hs <;> split at hs <;> try (simp at hs)
    all_goals (obtain ⟨rfl, _⟩ := hs; simp_all [Pc.isAdded])
  | flushB t =>
    cases t <;> simp only [step, pc, other, setPc] at hs <;> split at hs <;> try (simp at hs)
    all_goals first
      | (obtain ⟨rfl, _⟩ := hs; simp_all [Pc.isAdded])
      | (obtain ⟨_, rfl, _⟩ := hs; simp_all [Pc.isAdded])
  | pAdd x | pIsFull | pFlush | fire | stale | tmoRecv | fetchErr q | fetchDone q | drainStart | drainNext | send | recv =>
    simp only [step] at hs
    repeat' (split at hs)
    all_goals first
      | (simp at hs; done)
      | (simp only [Option.some.injEq, Prod.mk.injEq] at hs; obtain ⟨rfl, _⟩ := hs; simp_all [Pc.isAdded])
      | (simp only [Option.ite_none_right_eq_some, Option.ite_none_left_eq_some, Option.some.injEq, Prod.mk.injEq] at hs
         obtain ⟨_, rfl, _⟩ := hs; simp_all [Pc.isAdded])

theorem run_const (f : List α → List ρ) (fails : Nat → Bool) (as : List (Act α)) :
    ∀ (r r' : Run α ρ), exec f fails true r as = some r' →
      r'.st.cap = r.st.cap ∧ (r.st.tp.isAdded = false → r'.st.tp.isAdded = false) := by
  induction as with
  | nil => intro r r' he; simp [exec] at he; subst he; exact ⟨rfl, fun h => h⟩
  | cons a as ih =>
    intro r r' he
    simp only [exec] at he
    split at he
    · simp at he
    · next s' o hs =>
      obtain ⟨c1, c3⟩ := step_const f fails true r.st s' a o hs
      obtain ⟨i1, i2⟩ := ih _ r' he
      exact ⟨by rw [i1]; exact c1, fun h => i2 (c3 h)⟩

theorem cap_const (f : List α → List ρ) (fails : Nat → Bool) (as : List (Act α)) (r r' : Run α ρ)
    (he : exec f fails true r as = some r') : r'.st.cap = r.st.cap := (run_const f fails as r r' he).1

theorem tmo_never_added (f : List α → List ρ) (fails : Nat → Bool) (as : List (Act α)) (r r' : Run α ρ)
    (he : exec f fails true r as = some r') (h0 : r.st.tp.isAdded = false) : pc r'.st .tmo ≠ .added := by
  have := (run_const f fails as r r' he).2 h0
  intro h
  simp [pc] at h
  simp [h, Pc.isAdded] at this

theorem inputs_snoc (as : List (Act α)) (a : Act α) : inputs (as ++ [a]) = inputs as ++ inputOf a := by
  simp [inputs]

end Rxn.Reorder
