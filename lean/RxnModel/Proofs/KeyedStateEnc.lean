import RxnModel.Model.KeyedState
import RxnModel.Base.BytesOrder
/-! Encoder lemmas for C03: composite keys of `keyed_state_store.go` (helper lemmas; the property theorems are in
`Props/C03.lean`). Core-only. -/
namespace Rxn.KeyedState
open Rxn Bytes

theorem u32be_length (n : Nat) : (u32be n).length = 4 := by simp [u32be]
theorem u16be_length (n : Nat) : (u16be n).length = 2 := by simp [u16be]

theorem beNat_u32be (n : Nat) (hn : n < 4294967296) : beNat (u32be n) = n := by
  simp [u32be, beNat]; omega

theorem u32be_inj {a b : Nat} (ha : a < 4294967296) (hb : b < 4294967296) (h : u32be a = u32be b) : a = b := by
  have := congrArg beNat h
  rwa [beNat_u32be a ha, beNat_u32be b hb] at this

/-- the fixed-width head of a subject key: key group, schema byte, length -/
def head7 (kgc : Nat) (k : Bytes) : Bytes :=
  u16be (KeySpace.keyGroup kgc k) ++ [UInt8.ofNat Facts.schemaState] ++ u32be k.length

theorem head7_length (kgc : Nat) (k : Bytes) : (head7 kgc k).length = 7 := by
  simp [head7, u16be, u32be]

theorem subjectKey_eq (kgc : Nat) (k : Bytes) : Keys.subjectKey kgc k = head7 kgc k ++ k := by
  simp [Keys.subjectKey, head7]

theorem dbKey_eq (kgc : Nat) (k ns d : Bytes) :
    Keys.dbKey kgc k ns d = Keys.subjectKey kgc k ++ (nsEnc ns ++ d) := by
  simp [Keys.dbKey, nsEnc]

theorem head7_len_inj {kgc : Nat} {k₁ k₂ : Bytes} (h1 : k₁.length < 4294967296) (h2 : k₂.length < 4294967296)
    (h : head7 kgc k₁ = head7 kgc k₂) : k₁.length = k₂.length := by
  unfold head7 at h
  have h3 : (u16be (KeySpace.keyGroup kgc k₁) ++ [UInt8.ofNat Facts.schemaState]).length =
      (u16be (KeySpace.keyGroup kgc k₂) ++ [UInt8.ofNat Facts.schemaState]).length := by simp [u16be]
  exact u32be_inj h1 h2 (List.append_inj h h3).2

theorem subject_prefix_free' (kgc : Nat) (k₁ k₂ rest : Bytes)
    (h1 : k₁.length < 4294967296) (h2 : k₂.length < 4294967296) :
    hasPrefix (Keys.subjectKey kgc k₂ ++ rest) (Keys.subjectKey kgc k₁) = true ↔ k₁ = k₂ := by
  constructor
  · intro h
    obtain ⟨s, hs⟩ := hasPrefix_iff.mp h
    rw [subjectKey_eq, subjectKey_eq] at hs
    simp only [List.append_assoc] at hs
    have hl : (head7 kgc k₂).length = (head7 kgc k₁).length := by rw [head7_length, head7_length]
    obtain ⟨e1, e2⟩ := List.append_inj hs hl
    have hlen := head7_len_inj h2 h1 e1
    exact ((List.append_inj e2 hlen).1).symm
  · intro h; subst h; exact hasPrefix_append _ _

theorem u8_ofNat_inj {a b : Nat} (ha : a < 256) (hb : b < 256) (h : UInt8.ofNat a = UInt8.ofNat b) : a = b := by
  have := congrArg UInt8.toNat h
  simp only [UInt8.toNat_ofNat'] at this
  omega

theorem nsEnc_inj {a b x y : Bytes} (ha : a.length ≤ 255) (hb : b.length ≤ 255)
    (h : nsEnc a ++ x = nsEnc b ++ y) : a = b ∧ x = y := by
  simp only [nsEnc, List.cons_append, List.cons.injEq] at h
  obtain ⟨h0, h1⟩ := h
  have hl : a.length = b.length := by
    have := u8_ofNat_inj (Nat.mod_lt _ (by decide)) (Nat.mod_lt _ (by decide)) h0
    omega
  exact List.append_inj h1 hl

theorem dbKey_inj {kgc : Nat} {k k' ns ns' d d' : Bytes}
    (hk : k.length < 4294967296) (hk' : k'.length < 4294967296) (hn : ns.length ≤ 255) (hn' : ns'.length ≤ 255)
    (h : Keys.dbKey kgc k ns d = Keys.dbKey kgc k' ns' d') : k = k' ∧ ns = ns' ∧ d = d' := by
  rw [dbKey_eq, dbKey_eq] at h
  have hp : hasPrefix (Keys.subjectKey kgc k' ++ (nsEnc ns' ++ d')) (Keys.subjectKey kgc k) = true := by
    rw [← h]; exact hasPrefix_append _ _
  have hkk := (subject_prefix_free' kgc k k' _ hk hk').mp hp
  subst hkk
  have := nsEnc_inj hn hn' (List.append_cancel_left h)
  exact ⟨rfl, this.1, this.2⟩

theorem schema_ne : UInt8.ofNat Facts.schemaTimer ≠ UInt8.ofNat Facts.schemaState := by decide

theorem timer_not_state (kgc : Nat) (k k' : Bytes) (t : Nat) :
    hasPrefix (Keys.timerKey kgc k t) (Keys.subjectKey kgc k') = false := by
  cases hh : hasPrefix (Keys.timerKey kgc k t) (Keys.subjectKey kgc k') with
  | false => rfl
  | true =>
    exfalso
    simp only [Keys.timerKey, Keys.subjectKey, u16be, List.cons_append, List.nil_append, hasPrefix,
      Bool.and_eq_true, beq_iff_eq] at hh
    exact schema_ne hh.2.2.1

theorem timerKey_ne_dbKey (kgc : Nat) (k k' ns d : Bytes) (t : Nat) :
    Keys.timerKey kgc k t ≠ Keys.dbKey kgc k' ns d := by
  intro h
  have := timer_not_state kgc k k' t
  rw [h, dbKey_eq, hasPrefix_append] at this
  cases this

theorem decode_dbKey (kgc : Nat) (k ns d : Bytes) (hk : k.length < 4294967296) (hn : ns.length ≤ 255) :
    decodeKey (Keys.dbKey kgc k ns d) = (ns, d) := by
  have e : Keys.dbKey kgc k ns d =
      (u16be (KeySpace.keyGroup kgc k) ++ [UInt8.ofNat Facts.schemaState]) ++ (u32be k.length ++ (k ++ (nsEnc ns ++ d))) := by
    simp [Keys.dbKey, Keys.subjectKey, nsEnc]
  have h3 : (u16be (KeySpace.keyGroup kgc k) ++ [UInt8.ofNat Facts.schemaState]).length = Facts.ksDecodeSkip := by
    simp [u16be]; rfl
  have h4 : ∀ n, (u32be n).length = Facts.ksDecodeLenBits / 8 := fun n => u32be_length n
  have hr : ∀ b, readLen b = beNat b := fun b => by simp [readLen, show Facts.ksDecodeBigEndian = 1 from rfl]
  unfold decodeKey
  simp only [hr]
  rw [e, List.drop_left' h3, List.take_left' (h4 _), List.drop_left' (h4 _),
    beNat_u32be _ hk, List.drop_left' rfl]
  have hnl : (UInt8.ofNat (ns.length % 256)).toNat = ns.length := by
    simp only [UInt8.toNat_ofNat']; omega
  have h1 : Facts.ksDecodeNsBits / 8 = 1 := rfl
  simp only [h1, nsEnc, List.cons_append, List.take_succ_cons, List.take_zero, List.drop_succ_cons, List.drop_zero]
  have hb : beNat [UInt8.ofNat (ns.length % 256)] = ns.length := by simp [beNat, hnl]
  rw [hb, List.take_left' rfl, List.drop_left' rfl]

/-- the guard: a 256-byte namespace is stored under the key of the empty namespace (`uint8(len(namespace))`) -/
theorem ns256_alias (kgc : Nat) (k ns d : Bytes) (h : ns.length = 256) :
    Keys.dbKey kgc k ns d = Keys.dbKey kgc k [] (ns ++ d) := by
  simp [Keys.dbKey, h]

/-! order lemmas used for the grouping -/

theorem cmp_append_left (p x y : Bytes) : cmp (p ++ x) (p ++ y) = cmp x y := by
  induction p with
  | nil => rfl
  | cons a p ih => simp [cmp, ih]

theorem cmp_append_of_ne : ∀ (a b x y : Bytes), a.length = b.length → a ≠ b → cmp (a ++ x) (b ++ y) = cmp a b := by
  intro a
  induction a with
  | nil => intro b x y hl hne; cases b with
    | nil => exact absurd rfl hne
    | cons _ _ => simp at hl
  | cons h t ih =>
    intro b x y hl hne
    cases b with
    | nil => simp at hl
    | cons h' t' =>
      simp only [List.cons_append, cmp]
      by_cases h1 : h < h'
      · simp [h1]
      · by_cases h2 : h' < h
        · simp [h1, h2]
        · have : h = h' := u8_eq_of_not_lt h1 h2
          subst this
          simp only [h1, if_false]
          exact ih t' x y (by simpa using hl) (fun e => hne (by rw [e]))

theorem nsEnc_cmp {a b : Bytes} (x y : Bytes) (ha : a.length ≤ 255) (hb : b.length ≤ 255) (hne : a ≠ b) :
    cmp (nsEnc a ++ x) (nsEnc b ++ y) = cmp (nsEnc a) (nsEnc b) := by
  simp only [nsEnc, List.cons_append, cmp]
  by_cases h1 : UInt8.ofNat (a.length % 256) < UInt8.ofNat (b.length % 256)
  · simp [h1]
  · by_cases h2 : UInt8.ofNat (b.length % 256) < UInt8.ofNat (a.length % 256)
    · simp [h1, h2]
    · have h0 := u8_eq_of_not_lt h1 h2
      have hl : a.length = b.length := by
        have := u8_ofNat_inj (Nat.mod_lt _ (by decide)) (Nat.mod_lt _ (by decide)) h0
        omega
      simp only [h1, h2, if_false]
      exact cmp_append_of_ne a b x y hl hne

end Rxn.KeyedState
