import RxnModel.Proofs.Sst
import RxnModel.Model.Lsm
/-!
Hand-off between C17 and C07/C18: the tables written by `WriteRun` from a sorted run, seen as `Lsm.Tbl`s
(the abstraction the LSM model uses: a table is its sorted run, `Tbl.get` = range test + lookup), satisfy what the
LSM proofs assume of a deeper level — sorted runs, pairwise exclusive key ranges (`Lsm.RangeUnique`, stated here
with its body unfolded so that this file only depends on `Model/Lsm.lean`) — and answer like the byte-level table.
-/
namespace Rxn.Sst
open Rxn

def toLsm (e : Entry) : Lsm.Entry := ⟨e.key, e.seq, e.del, e.val⟩
def toRun (es : List Entry) : Lsm.Run := es.map toLsm

theorem toRun_lookup (es : List Entry) (k : Bytes) : Lsm.Run.lookup (toRun es) k = (lookup es k).map toLsm := by
  induction es with
  | nil => rfl
  | cons e es ih =>
    simp only [toRun, List.map_cons, Lsm.Run.lookup, lookup, List.find?_cons] at ih ⊢
    by_cases h : e.key = k
    · simp [h, toLsm]
    · simp only [toLsm, h, if_false, decide_false]
      exact ih

theorem toRun_sorted (es : List Entry) (h : SortedKeys es) :
    (toRun es).Pairwise (fun a b => Bytes.lt a.key b.key = true) := by
  unfold toRun; rw [List.pairwise_map]; exact h

theorem toRun_filter (es : List Entry) (p : Bytes) :
    toRun (es.filter (fun e => e.key.hasPrefix p)) = (toRun es).filter (fun e => Bytes.hasPrefix e.key p) := by
  unfold toRun; rw [List.filter_map]; rfl

theorem tbl_startKey (id : Nat) (es : List Entry) : (⟨id, toRun es⟩ : Lsm.Tbl).startKey = (docOf es).startKey := by
  cases es <;> simp [Lsm.Tbl.startKey, docOf, toRun, toLsm]

theorem tbl_endKey (id : Nat) (es : List Entry) : (⟨id, toRun es⟩ : Lsm.Tbl).endKey = (docOf es).endKey := by
  simp only [Lsm.Tbl.endKey, docOf, toRun, List.getLast?_map]
  cases es.getLast? <;> simp [toLsm]

/-! ### order helpers -/

theorem cmpInt_lt_one {a b : Bytes} : cmpInt a b < 1 ↔ Bytes.cmp a b ≠ .gt := by
  unfold cmpInt; cases Bytes.cmp a b <;> simp

theorem cmpInt_gt_neg_one {a b : Bytes} : cmpInt a b > -1 ↔ Bytes.cmp a b ≠ .lt := by
  unfold cmpInt; cases Bytes.cmp a b <;> simp

theorem rangeContains_iff (s e k : Bytes) :
    Gen.tblRangeContainsKey s e k = true ↔ Bytes.cmp s k ≠ .gt ∧ Bytes.cmp e k ≠ .lt := by
  simp only [Gen.tblRangeContainsKey, Bool.and_eq_true, decide_eq_true_eq, cmpInt_lt_one]
  constructor
  · rintro ⟨h1, h2⟩; exact ⟨h1, cmpInt_gt_neg_one.mp h2⟩
  · rintro ⟨h1, h2⟩; exact ⟨h1, cmpInt_gt_neg_one.mpr h2⟩

/-- ranges `[s₁,e₁]`, `[s₂,e₂]` with `e₁ < s₂` share no key -/
theorem ranges_exclusive {s1 e1 s2 e2 : Bytes} (h : Bytes.lt e1 s2 = true) (k : Bytes) :
    ¬ (Gen.tblRangeContainsKey s1 e1 k = true ∧ Gen.tblRangeContainsKey s2 e2 k = true) := by
  rintro ⟨ha, hb⟩
  have h1 := ((rangeContains_iff _ _ _).mp ha).2
  have h2 := ((rangeContains_iff _ _ _).mp hb).1
  have hlt : Bytes.cmp e1 s2 = .lt := by simpa [Bytes.lt] using h
  have : Bytes.cmp e1 k = .lt := by
    cases hc : Bytes.cmp s2 k with
    | lt => exact Bytes.cmp_lt_trans hlt hc
    | eq => rw [← Bytes.cmp_eq_iff.mp hc]; exact hlt
    | gt => exact absurd hc h2
  exact h1 this

/-- in a sorted run every key lies between the first and the last key -/
theorem range_contains_of_mem (c : List Entry) (hs : SortedKeys c) (e : Entry) (he : e ∈ c) :
    Gen.tblRangeContainsKey (docOf c).startKey (docOf c).endKey e.key = true := by
  rw [rangeContains_iff]
  constructor
  · cases c with
    | nil => simp at he
    | cons x xs =>
      simp only [docOf, List.head?_cons, Option.map_some, Option.getD_some]
      simp only [List.mem_cons] at he
      rcases he with rfl | he
      · simp
      · have := (List.pairwise_cons.mp hs).1 e he
        simp only [Bytes.lt, beq_iff_eq] at this
        rw [this]; simp
  · have hne : c ≠ [] := by intro h; subst h; simp at he
    have hsplit := List.dropLast_concat_getLast hne
    have hl : c.getLast? = some (c.getLast hne) := List.getLast?_eq_some_getLast hne
    simp only [docOf, hl, Option.map_some, Option.getD_some]
    rw [← hsplit] at he hs
    simp only [List.mem_append, List.mem_singleton] at he
    rcases he with he | rfl
    · have := (List.pairwise_append.mp hs).2.2 e he (c.getLast hne) (by simp)
      simp only [Bytes.lt, beq_iff_eq] at this
      rw [Bytes.cmp_lt_iff_gt.mp this]; simp
    · simp

/-- the LSM model's `Tbl.get` (range test, then lookup in the run) on a sorted chunk is the lookup itself -/
theorem tbl_get_eq_lookup (id : Nat) (c : List Entry) (hs : SortedKeys c) (k : Bytes) :
    Lsm.Tbl.get ⟨id, toRun c⟩ k = (lookup c k).map toLsm := by
  unfold Lsm.Tbl.get Lsm.Tbl.rangeContainsKey
  rw [tbl_startKey, tbl_endKey, toRun_lookup]
  cases hl : lookup c k with
  | none => simp
  | some e =>
    have he : e ∈ c := List.mem_of_find?_eq_some hl
    have hk : e.key = k := by simpa using List.find?_some hl
    have := range_contains_of_mem c hs e he
    rw [hk] at this
    simp [this]

/-- tables whose runs are the chunks of `WriteRun` have pairwise exclusive key ranges (the body of `Lsm.RangeUnique`) -/
theorem writeRun_rangeUnique (target : Nat) (ht : 0 < target) (es : List Entry) (hs : SortedKeys es)
    (ts : List Lsm.Tbl) (hts : ts.map (·.run) = (writeRun target es).map toRun) :
    ts.Pairwise (fun a b => ∀ k, ¬ (a.rangeContainsKey k = true ∧ b.rangeContainsKey k = true)) := by
  by_cases hes : es = []
  · -- one (empty) table
    subst hes
    have h1 : writeRun target [] = [[]] := by
      unfold writeRun
      simp only [List.length_nil, Nat.mul_zero, Nat.zero_add]
      rw [runLoop_none_succ]; simp [ht]
    rw [h1] at hts
    cases ts with
    | nil => exact List.Pairwise.nil
    | cons t ts =>
      cases ts with
      | nil => exact List.pairwise_singleton _ _
      | cons u us => simp at hts
  · have hp := writeRun_doc_ranges' target ht es hes hs
    have hp2 : ((writeRun target es).map toRun).Pairwise (fun r1 r2 =>
        Bytes.lt ((r1.getLast?.map (·.key)).getD []) ((r2.head?.map (·.key)).getD []) = true) := by
      rw [List.pairwise_map]
      refine hp.imp ?_
      intro c d h
      have e1 := tbl_endKey 0 c
      have e2 := tbl_startKey 0 d
      simp only [Lsm.Tbl.endKey, Lsm.Tbl.startKey] at e1 e2
      rw [e1, e2]; exact h
    rw [← hts, List.pairwise_map] at hp2
    refine hp2.imp ?_
    intro a b h k
    exact ranges_exclusive h k

/-- every entry of the run is found in exactly the chunk lookup order: the run's lookup is the first hit over the chunks -/
theorem writeRun_lookup (target : Nat) (es : List Entry) (k : Bytes) :
    lookup es k = (writeRun target es).findSome? (fun c => lookup c k) := by
  conv => lhs; rw [← writeRun_flatten target es]
  unfold lookup
  rw [List.find?_flatten]

end Rxn.Sst
