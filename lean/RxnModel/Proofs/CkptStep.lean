import RxnModel.Proofs.CkptInv
import RxnModel.Proofs.CkptFiles
/-! `Inv` is preserved by every action of the checkpointing system (helper for C08). -/
namespace Rxn.Ckpt
open Rxn Rxn.Lsm

/-- the memory/WAL invariant holds after every history -/
theorem inv_step (s s' : State) (a : Act) (hi : Inv s) (h : step s a = some s') : Inv s' := by
  cases a with
  | «open» id rots =>
    simp only [step] at h
    split at h
    · cases h
    · rename_i c _
      simp only [restore] at h
      split at h
      · cases h
      · exact (replay_inv _ _ _ _ (restoreBase_inv s.files c) h).1
  | write del k v rot =>
    simp only [step] at h
    split at h
    · cases h
    · exact (write_inv hi h).1
  | flushBegin n =>
    simp only [step] at h
    split at h
    · cases h
    · split at h
      · cases h
      · rename_i db' hst
        simp only [Option.some.injEq] at h
        subst h
        simp only [Lsm.step] at hst
        split at hst
        · cases hst
        · split at hst
          · simp only [Option.some.injEq] at hst
            subst hst
            exact ⟨hi.parts, hi.cons, hi.segs, hi.act, hi.wl, hi.tbls, hi.le, hi.rd⟩
          · cases hst
  | flushCommit => exact flushCommit_inv hi h
  | compact rm lvl add => exact compact_inv hi h
  | checkpoint id =>
    simp only [step] at h
    split at h
    · cases h
    · split at h
      · cases h
      · simp only [Option.some.injEq] at h
        subst h
        obtain ⟨ps, hm, hne, hfl⟩ := hi.parts
        refine ⟨⟨ps, hm, hne, by rw [rotate_entries]; exact hfl⟩, by rw [rotate_entries]; exact hi.cons, ?_,
          by simp [Wal.Writer.rotate], hi.wl, hi.tbls, hi.le, hi.rd⟩
        intro sg hsg e he
        simp only [Wal.Writer.rotate, List.mem_append, List.mem_singleton] at hsg
        rcases hsg with hsg | rfl
        · exact hi.segs sg hsg e he
        · exact hi.act e he
  | saveWal id =>
    simp only [step] at h
    split at h
    · cases h
    · split at h
      · cases h
      · simp only [Option.some.injEq] at h
        subst h
        exact hi.congr rfl rfl rfl
  | saveDoc id =>
    simp only [step] at h
    split at h
    · cases h
    · split at h
      · cases h
      · simp only [Option.some.injEq] at h
        subst h
        exact hi.congr rfl rfl rfl
  | retain ids =>
    simp only [step] at h
    split at h
    · cases h
    · split at h
      · cases h
      · simp only [Option.some.injEq] at h
        subst h
        exact hi.congr rfl rfl rfl
  | openBegin id =>
    simp only [step] at h
    split at h
    · cases h
    · rename_i c _
      split at h
      · cases h
      · simp only [Option.some.injEq] at h
        subst h
        exact (restoreBase_inv s.files c).congr rfl rfl rfl
  | replayOne rot =>
    simp only [step] at h
    split at h
    · cases h
    · split at h
      · cases h
      · split at h
        · cases h
        · rename_i s1 h1
          simp only [Option.some.injEq] at h
          subst h
          exact (write_inv hi h1).1.congr rfl rfl rfl
  | saveList =>
    simp only [step] at h
    split at h
    · cases h
    · simp only [Option.some.injEq] at h
      subst h
      exact hi.congr rfl rfl rfl
  | destroy =>
    simp only [step] at h
    split at h
    · cases h
    · obtain ⟨a, b, c, _⟩ := destroyOne_same h
      exact hi.congr a b c
  | orphan id run =>
    simp only [step] at h
    split at h
    · cases h
    · split at h
      · cases h
      · simp only [Option.some.injEq] at h
        subst h
        exact hi.congr rfl rfl rfl
  | crash =>
    simp only [step] at h
    split at h
    · cases h
    · simp only [Option.some.injEq] at h
      subst h
      exact hi.congr rfl rfl rfl

theorem init_inv : Inv ({} : State) :=
  ⟨⟨[[]], rfl, by simp, rfl⟩, ⟨1, trivial, Nat.le_refl _, rfl⟩, by simp [Wal.Writer.new],
    by simp [Wal.Writer.new], Nat.le_refl _, by simp, Nat.le_refl _, rfl⟩

theorem inv_run (as : List Act) (s s' : State) (hi : Inv s) (h : run s as = some s') : Inv s' := by
  induction as generalizing s with
  | nil => simp only [run, Option.some.injEq] at h; subst h; exact hi
  | cons a as ih =>
    simp only [run] at h
    split at h
    · rename_i s1 h1; exact ih s1 (inv_step s s1 a hi h1) h
    · cases h

end Rxn.Ckpt
