import RxnModel.Model.LsmCode
import RxnModel.Proofs.CompactionSound
import RxnModel.Proofs.RescaleRead
import RxnModel.Proofs.LsmScan2
/-!
C07: the reads as `dkv/sst/level_list.go` performs them agree with the order-insensitive descriptions of
`Model/Lsm.lean` in every reachable state.

* `DeepOrdered`: every deeper level is ascending by key range (`end_i < start_j` for `i < j`). It is kept by every
  action: flush commits touch level 0 only; a compaction commit that passes `safeCS` filters levels (a sublist of
  an ascending list) and installs `mkTables add` with `add.flatten` a sorted merge cut into non-empty chunks.
* on an ascending level of sorted tables `SearchUnique` over `RangeKeyCompare` is `find?` over `RangeContainsKey`
  (`Rescale.deepGetBS_eq`), so `getR = get`;
* `RangePrefixCompare` is monotone along an ascending level (`− … − 0 … 0 + … +`), its zero set is exactly
  `RangeContainsPrefix`, so `slices.BinarySearchFunc` + the forward walk return every table whose range contains the
  prefix, and every table holding a key with the prefix has the prefix in its range: `tablesForPrefix` is an
  adequate selection (`LsmScan2.Selects`) and the scan over it meets the scan specification.
-/
namespace Rxn.Lsm
open Rxn Rxn.Compaction

/-- ascending by key range, disjoint -/
def Ordered (l : List Tbl) : Prop := l.Pairwise (fun a b => Bytes.lt a.endKey b.startKey = true)

/-- every deeper level is ascending by key range -/
def DeepOrdered (s : State) : Prop := ∀ l ∈ s.levels.tail, Ordered l

theorem deepOrdered_init : DeepOrdered {} := by
  intro l hl
  simp at hl
  subst hl
  exact List.Pairwise.nil

theorem step_ordered {s s' : State} {m : Spec} (a : Act) (h : Inv s m) (ho : DeepOrdered s)
    (hstep : step s a = some s') : DeepOrdered s' := by
  cases a with
  | put k v =>
    simp only [step, write] at hstep
    split at hstep
    · cases hstep
    · split at hstep
      · cases hstep
      · cases hstep; exact ho
  | del k =>
    simp only [step, write] at hstep
    split at hstep
    · cases hstep
    · split at hstep
      · cases hstep
      · cases hstep; exact ho
  | rotate => simp only [step] at hstep; cases hstep; exact ho
  | flushBegin n =>
    simp only [step] at hstep
    split at hstep
    · cases hstep
    · split at hstep
      · cases hstep; exact ho
      · cases hstep
  | flushCommit =>
    simp only [step] at hstep
    split at hstep
    · cases hstep
    · rename_i snap hfl
      split at hstep
      · cases hstep
        show ∀ l ∈ (addAt s.levels 0 (mkTables s.nextId snap)).tail, Ordered l
        have ho' : ∀ l ∈ s.levels.tail, Ordered l := ho
        cases hlv : s.levels with
        | nil => exact absurd hlv h.levels_ne
        | cons l0 deeper =>
          rw [hlv] at ho'
          simpa [addAt] using ho'
      · cases hstep
  | flushAbort =>
    simp only [step] at hstep
    split at hstep
    · cases hstep
    · cases hstep; exact ho
  | compact rm lvl add =>
    simp only [step] at hstep
    split at hstep
    · rename_i hsafe
      cases hstep
      show ∀ l ∈ (addAt (removeIds rm s.levels) lvl (mkTables s.nextId add)).tail, Ordered l
      have hv := weakValid_of_inv h
      rcases safeCS_sound hv hsafe with ⟨hno, hadd⟩ | hs
      · subst hadd
        rw [applyCS_noop lvl s.nextId hno]
        exact ho
      · obtain ⟨_, _, _, l0, D1, Lv, D2, hL, _, hshape⟩ := safe_core s.nextId hv hs
        have hshape' : addAt (removeIds rm s.levels) lvl (mkTables s.nextId add) =
            l0.filter (fun t => !rmP rm t) ::
              (D1.map (List.filter (fun t => !rmP rm t)) ++ mkTables s.nextId add :: D2) := hshape
        rw [hshape']
        have ho' : ∀ l ∈ D1 ++ Lv :: D2, Ordered l := by
          have h0 : ∀ l ∈ s.levels.tail, Ordered l := ho
          rw [hL] at h0
          exact h0
        have hMsorted : SortedRun add.flatten := by
          rw [hs.added]
          apply mergeAll_sorted
          intro r hr
          obtain ⟨x, hx, rfl⟩ := List.mem_map.mp hr
          exact hv.sorted x ((readOrder_mem _ x).mp (List.mem_filter.mp hx).1)
        intro l hl
        simp only [List.tail_cons, List.mem_append, List.mem_cons] at hl
        rcases hl with hl | hl | hl
        · obtain ⟨l', hl', rfl⟩ := List.mem_map.mp hl
          exact (ho' l' (List.mem_append_left _ hl')).sublist List.filter_sublist
        · subst hl; exact ordered_new hMsorted hs.chunks
        · exact ho' l (List.mem_append_right _ (List.mem_cons_of_mem _ hl))
    · cases hstep
  | getA k =>
    simp only [step] at hstep
    split at hstep
    · cases hstep
    · cases hstep; exact ho
  | getB =>
    simp only [step] at hstep
    split at hstep
    · cases hstep
    · cases hstep; exact ho

/-- the refinement invariant together with the order of the deeper levels, along every history -/
theorem runBoth_inv_ordered :
    ∀ (as : List Act) (s : State) (m : Spec) (s' : State) (m' : Spec),
    Inv s m → ReadInv s m → DeepOrdered s → runBoth s m as = some (s', m') →
    Inv s' m' ∧ ReadInv s' m' ∧ DeepOrdered s' := by
  intro as
  induction as with
  | nil =>
    intro s m s' m' h hr ho hrun
    simp [runBoth] at hrun
    obtain ⟨rfl, rfl⟩ := hrun
    exact ⟨h, hr, ho⟩
  | cons a as ih =>
    intro s m s' m' h hr ho hrun
    simp only [runBoth] at hrun
    split at hrun
    · rename_i s1 hstep
      have hi := step_inv (Or.inr trivial) a (fun _ _ _ _ => compactionSound) h hr hstep
      exact ih s1 _ s' m' hi.1 hi.2 (step_ordered a h ho hstep) hrun
    · cases hrun

/-! ### point reads -/

theorem tblOk_of_sorted (t : Tbl) (hs : t.run.Sorted) : Rescale.TblOk t := by
  unfold Rescale.TblOk Tbl.startKey Tbl.endKey
  cases hr : t.run with
  | nil => simp
  | cons x xs =>
    cases hl : (x :: xs).getLast? with
    | none => simp at hl
    | some z =>
      simp only [List.head?_cons, Option.map_some, Option.getD_some]
      have hz := List.mem_of_getLast? hl
      rw [hr] at hs
      cases hz with
      | head => simp
      | tail _ hz =>
        have := (List.pairwise_cons.mp hs).1 z hz
        simp only [Bytes.lt, beq_iff_eq] at this
        rw [this]; simp

theorem levelValid_of_ordered {l : List Tbl} (hs : ∀ t ∈ l, t.run.Sorted) (ho : Ordered l) : Rescale.LevelValid l := by
  refine ⟨fun t ht => tblOk_of_sorted t (hs t ht), List.Pairwise.imp ?_ ho⟩
  intro a b hab
  unfold Rescale.Before
  simpa [Bytes.lt] using hab

/-- the converse, for states that come with C06's `LevelValid` (restored / merged level lists) -/
theorem ordered_of_levelValid {l : List Tbl} (h : Rescale.LevelValid l) : Ordered l := by
  refine List.Pairwise.imp ?_ h.2
  intro a b hab
  unfold Rescale.Before at hab
  simp [Bytes.lt, hab]

theorem deepOrdered_of_levelValid {s : State} (h : ∀ l ∈ s.levels.tail, Rescale.LevelValid l) : DeepOrdered s :=
  fun l hl => ordered_of_levelValid (h l hl)

theorem deep_sorted {s : State} {m : Spec} (h : Inv s m) {l : List Tbl} (hl : l ∈ s.levels.tail) :
    ∀ t ∈ l, t.run.Sorted := by
  intro t ht
  apply h.sorted
  apply tbl_containers_of_mem
  exact List.mem_flatten.mpr ⟨l, List.mem_of_mem_tail hl, ht⟩

/-- `LevelList.Get` with `SearchUnique` on the deeper levels = the order-insensitive description -/
theorem levelsGetR_eq {s : State} {m : Spec} (h : Inv s m) (ho : DeepOrdered s) (k : Bytes) :
    Rescale.levelsGetR s.levels k = levelsGet s.levels k := by
  have hd : ∀ l ∈ s.levels.tail, Rescale.deepGetBS l k = deepGet l k := fun l hl =>
    Rescale.deepGetBS_eq l k (levelValid_of_ordered (deep_sorted h hl) (ho l hl))
  cases hlv : s.levels with
  | nil => rfl
  | cons l0 deeper =>
    rw [hlv] at hd
    simp only [Rescale.levelsGetR, levelsGet]
    rw [Lsm.firstSome_congr (fun l => Rescale.deepGetBS l k) (fun l => deepGet l k) deeper hd]
    cases l0Get l0 k <;> rfl

/-- **`DB.Get` with the binary searches of `tablesForKey`** = `get` -/
theorem getR_eq_get {s : State} {m : Spec} (h : Inv s m) (ho : DeepOrdered s) (k : Bytes) :
    Rescale.getR s k = get s k := by
  unfold Rescale.getR get
  rw [levelsGetR_eq h ho]
  cases memGet s.mems k <;> rfl

theorem getBResultR_eq {s : State} {m : Spec} (h : Inv s m) (ho : DeepOrdered s) :
    getBResultR s = getBResult s := by
  unfold getBResultR getBResult
  cases s.reading with
  | none => rfl
  | some kr =>
    obtain ⟨k, r⟩ := kr
    cases r with
    | some e => rfl
    | none => exact levelsGetR_eq h ho k

/-! ### `RangePrefixCompare` along an ascending level -/

/-- `t.RangePrefixCompare(p)` -/
def prefCmp (p : Bytes) (t : Tbl) : Int := Gen.tblRangePrefixCompare t.startKey t.endKey p

theorem prefixCompare_zero (s e p : Bytes) :
    Gen.tblRangePrefixCompare s e p = 0 ↔ Gen.tblRangeContainsPrefix s e p = true := by
  unfold Gen.tblRangePrefixCompare Gen.tblRangeContainsPrefix cmpInt
  cases Bytes.hasPrefix s p <;> cases Bytes.hasPrefix e p <;> cases Bytes.cmp s p <;> cases Bytes.cmp e p <;> simp

theorem prefixCompare_neg (s e p : Bytes) :
    Gen.tblRangePrefixCompare s e p < 0 ↔
      (Bytes.hasPrefix s p = false ∧ Bytes.hasPrefix e p = false ∧ Bytes.cmp s p ≠ .gt ∧ Bytes.cmp e p = .lt) := by
  unfold Gen.tblRangePrefixCompare cmpInt
  cases Bytes.hasPrefix s p <;> cases Bytes.hasPrefix e p <;> cases Bytes.cmp s p <;> cases Bytes.cmp e p <;> simp

theorem prefixCompare_pos (s e p : Bytes) :
    0 < Gen.tblRangePrefixCompare s e p ↔
      (Bytes.hasPrefix s p = false ∧ Bytes.hasPrefix e p = false ∧ Bytes.cmp s p = .gt) := by
  unfold Gen.tblRangePrefixCompare cmpInt
  cases Bytes.hasPrefix s p <;> cases Bytes.hasPrefix e p <;> cases Bytes.cmp s p <;> cases Bytes.cmp e p <;> simp

theorem prefCmp_zero (p : Bytes) (t : Tbl) : prefCmp p t = 0 ↔ t.rangeContainsPrefix p = true :=
  prefixCompare_zero _ _ _

theorem hasPrefix_self (p : Bytes) : Bytes.hasPrefix p p = true := Bytes.hasPrefix_iff.mpr ⟨[], by simp⟩

theorem not_prefix_of_lt {a p : Bytes} (h : Bytes.cmp a p = .lt) : Bytes.hasPrefix a p = false := by
  cases hp : Bytes.hasPrefix a p with
  | false => rfl
  | true =>
    have := Bytes.prefix_le hp
    exact absurd (Bytes.cmp_lt_iff_gt.mp h) this

/-- a key above the prefix that does not carry it lies above every key that does: anything between the prefix and
a key with the prefix has the prefix -/
theorem prefix_of_between {a c p : Bytes} (h1 : Bytes.cmp p a ≠ .gt) (h2 : Bytes.cmp a c ≠ .gt)
    (hc : Bytes.hasPrefix c p = true) : Bytes.hasPrefix a p = true :=
  Bytes.prefix_interval (hasPrefix_self p) hc h1 h2

theorem ne_gt_of_lt {a b : Bytes} (h : Bytes.cmp a b = .lt) : Bytes.cmp a b ≠ .gt := by rw [h]; simp

/-- earlier table of an ascending level: below the prefix if a later one is -/
theorem prefCmp_neg_of_before {t u : Tbl} {p : Bytes} (ht : Bytes.cmp t.startKey t.endKey ≠ .gt)
    (hb : Bytes.lt t.endKey u.startKey = true) (h : prefCmp p u < 0) : prefCmp p t < 0 := by
  obtain ⟨_, _, h3, _⟩ := (prefixCompare_neg _ _ _).mp h
  have hb' : Bytes.cmp t.endKey u.startKey = .lt := by simpa [Bytes.lt] using hb
  have he : Bytes.cmp t.endKey p = .lt := Search.cmp_lt_le_trans hb' h3
  have hs : Bytes.cmp t.startKey p = .lt := Search.cmp_le_lt_trans ht he
  exact (prefixCompare_neg _ _ _).mpr ⟨not_prefix_of_lt hs, not_prefix_of_lt he, ne_gt_of_lt hs, he⟩

/-- later table of an ascending level: above the prefix if an earlier one is -/
theorem prefCmp_pos_of_before {t u : Tbl} {p : Bytes} (ht : Bytes.cmp t.startKey t.endKey ≠ .gt)
    (hb : Bytes.lt t.endKey u.startKey = true) (hu : Bytes.cmp u.startKey u.endKey ≠ .gt)
    (h : 0 < prefCmp p t) : 0 < prefCmp p u := by
  obtain ⟨h1, _, h3⟩ := (prefixCompare_pos _ _ _).mp h
  have hb' : Bytes.cmp t.endKey u.startKey = .lt := by simpa [Bytes.lt] using hb
  have hps : Bytes.cmp p t.startKey = .lt := Bytes.cmp_gt_iff_lt.mp h3
  have hsu : Bytes.cmp t.startKey u.startKey = .lt := Search.cmp_le_lt_trans ht hb'
  have hse : Bytes.cmp t.startKey u.endKey = .lt := Search.cmp_lt_le_trans hsu hu
  have hpu : Bytes.cmp p u.startKey = .lt := Bytes.cmp_lt_trans hps hsu
  refine (prefixCompare_pos _ _ _).mpr ⟨?_, ?_, Bytes.cmp_lt_iff_gt.mp hpu⟩
  · cases hp : Bytes.hasPrefix u.startKey p with
    | false => rfl
    | true => rw [prefix_of_between (ne_gt_of_lt hps) (ne_gt_of_lt hsu) hp] at h1; cases h1
  · cases hp : Bytes.hasPrefix u.endKey p with
    | false => rfl
    | true => rw [prefix_of_between (ne_gt_of_lt hps) (ne_gt_of_lt hse) hp] at h1; cases h1

/-- a table holding a key with the prefix has the prefix in its range -/
theorem rangeContainsPrefix_of_mem {t : Tbl} (hs : t.run.Sorted) {e : Entry} (he : e ∈ t.run) {p : Bytes}
    (hp : Bytes.hasPrefix e.key p = true) : t.rangeContainsPrefix p = true := by
  have hr : t.rangeContainsKey e.key = true := range_of_mem hs he
  obtain ⟨hsk, hek⟩ := (Rescale.contains_iff t e.key).mp hr
  have hpk : Bytes.cmp p e.key ≠ .gt := Bytes.prefix_le hp
  rw [← prefCmp_zero]
  have hnn : ¬ prefCmp p t < 0 := by
    intro hn
    obtain ⟨_, _, _, h4⟩ := (prefixCompare_neg _ _ _).mp hn
    exact hek (Search.cmp_lt_le_trans h4 hpk)
  have hnp : ¬ 0 < prefCmp p t := by
    intro hn
    obtain ⟨h1, _, h3⟩ := (prefixCompare_pos _ _ _).mp hn
    rw [prefix_of_between (ne_gt_of_lt (Bytes.cmp_gt_iff_lt.mp h3)) hsk hp] at h1
    cases h1
  omega

/-! ### `slices.BinarySearchFunc` and the forward walk -/

theorem lowerBound_spec {α : Type} (xs : Array α) (c : α → Int)
    (hm : ∀ i j (_ : i < j) (hj : j < xs.size), c xs[j] < 0 → c (xs[i]'(by omega)) < 0)
    (low high : Nat) (hh : high ≤ xs.size) (hlh : low ≤ high)
    (hlow : ∀ i (h : i < xs.size), i < low → c xs[i] < 0)
    (hhigh : ∀ i (h : i < xs.size), high ≤ i → 0 ≤ c xs[i]) :
    Rescale.lowerBound xs c low high ≤ xs.size ∧
    (∀ i (h : i < xs.size), i < Rescale.lowerBound xs c low high → c xs[i] < 0) ∧
    (∀ i (h : i < xs.size), Rescale.lowerBound xs c low high ≤ i → 0 ≤ c xs[i]) := by
  induction hn : high - low using Nat.strongRecOn generalizing low high with
  | _ n ih =>
    unfold Rescale.lowerBound
    by_cases hl : low < high
    · simp only [hl, dite_true]
      have hi : (low + high) / 2 < xs.size := by omega
      simp only [hi, dite_true]
      by_cases hneg : c xs[(low + high) / 2] < 0
      · simp only [hneg, if_true]
        refine ih (high - ((low + high) / 2 + 1)) (by omega) _ high hh (by omega) ?_ hhigh rfl
        intro k hk hlt
        by_cases hke : k = (low + high) / 2
        · subst hke; exact hneg
        · exact hm k ((low + high) / 2) (by omega) hi hneg
      · simp only [hneg, if_false]
        refine ih ((low + high) / 2 - low) (by omega) low _ (by omega) (by omega) hlow ?_ rfl
        intro k hk hge
        by_cases hke : k = (low + high) / 2
        · subst hke; omega
        · have : ¬ c xs[k] < 0 := fun hlt => hneg (hm ((low + high) / 2) k (by omega) hk hlt)
          omega
    · simp only [hl, dite_false]
      exact ⟨by omega, fun i h hil => hlow i h hil, fun i h hge => hhigh i h (by omega)⟩

theorem getElem_mem_takeWhile {α : Type} (q : α → Bool) : ∀ (xs : List α) (n : Nat) (hn : n < xs.length),
    (∀ m (hm : m ≤ n), q (xs[m]'(by omega)) = true) → xs[n] ∈ xs.takeWhile q := by
  intro xs
  induction xs with
  | nil => intro n hn; simp at hn
  | cons x xs ih =>
    intro n hn hall
    have h0 : q x = true := hall 0 (Nat.zero_le _)
    rw [List.takeWhile_cons_of_pos h0]
    cases n with
    | zero => exact List.mem_cons_self
    | succ n =>
      apply List.mem_cons_of_mem
      exact ih n (by simpa using hn) (fun m hm => hall (m + 1) (by omega))

theorem deepTablesForPrefix_eq (l : List Tbl) (p : Bytes) : Rescale.deepTablesForPrefix l p =
    match l.toArray[Rescale.lowerBound l.toArray (prefCmp p) 0 l.toArray.size]? with
    | some t =>
      if prefCmp p t = 0 then
        (l.drop (Rescale.lowerBound l.toArray (prefCmp p) 0 l.toArray.size)).takeWhile
          (fun t => t.rangeContainsPrefix p)
      else []
    | none => [] := rfl

theorem deepTablesForPrefix_subset (l : List Tbl) (p : Bytes) {t : Tbl}
    (h : t ∈ Rescale.deepTablesForPrefix l p) : t ∈ l := by
  rw [deepTablesForPrefix_eq] at h
  split at h
  · split at h
    · exact List.mem_of_mem_drop ((List.takeWhile_sublist _).subset h)
    · cases h
  · cases h

/-- on an ascending level of sorted tables the binary search and the forward walk return every table whose range
contains the prefix -/
theorem mem_deepTablesForPrefix {l : List Tbl} (hs : ∀ t ∈ l, t.run.Sorted) (ho : Ordered l) {p : Bytes} {t : Tbl}
    (ht : t ∈ l) (hc : t.rangeContainsPrefix p = true) : t ∈ Rescale.deepTablesForPrefix l p := by
  obtain ⟨j, hj, rfl⟩ := List.getElem_of_mem ht
  have hok : ∀ i (hi : i < l.length), Bytes.cmp l[i].startKey l[i].endKey ≠ .gt := fun i hi =>
    tblOk_of_sorted _ (hs _ (List.getElem_mem hi))
  have hbef : ∀ i k (hik : i < k) (hk : k < l.length), Bytes.lt l[i].endKey l[k].startKey = true := fun i k hik hk =>
    (List.pairwise_iff_getElem.mp ho) i k (by omega) hk hik
  have hm : ∀ i k (_ : i < k) (hk : k < l.toArray.size),
      prefCmp p l.toArray[k] < 0 → prefCmp p (l.toArray[i]'(by omega)) < 0 := by
    intro i k hik hk hneg
    have hk' : k < l.length := by simpa using hk
    simp only [List.getElem_toArray] at hneg ⊢
    exact prefCmp_neg_of_before (hok i (by omega)) (hbef i k hik hk') hneg
  have hm2 : ∀ i k (hik : i < k) (hk : k < l.length), 0 < prefCmp p l[i] → 0 < prefCmp p l[k] := fun i k hik hk hpos =>
    prefCmp_pos_of_before (hok i (by omega)) (hbef i k hik hk) (hok k hk) hpos
  obtain ⟨_, hlow, hhigh⟩ := lowerBound_spec l.toArray (prefCmp p) hm 0 l.toArray.size (Nat.le_refl _) (Nat.zero_le _)
    (fun i _ h0 => absurd h0 (Nat.not_lt_zero _)) (fun i h hge => absurd h (by omega))
  have hz : prefCmp p l[j] = 0 := (prefCmp_zero p _).mpr hc
  have hjs : j < l.toArray.size := by simpa using hj
  rw [deepTablesForPrefix_eq]
  generalize Rescale.lowerBound l.toArray (prefCmp p) 0 l.toArray.size = r at hlow hhigh ⊢
  have hrj : r ≤ j := by
    apply Nat.le_of_not_lt
    intro hlt
    have := hlow j hjs hlt
    simp only [List.getElem_toArray] at this
    omega
  have hrl : r < l.length := by omega
  -- every table from the found index up to `j` compares equal
  have hzero : ∀ i (hi1 : r ≤ i) (hi2 : i ≤ j), prefCmp p (l[i]'(by omega)) = 0 := by
    intro i hi1 hi2
    have h1 := hhigh i (by simp; omega) hi1
    simp only [List.getElem_toArray] at h1
    have h2 : ¬ 0 < prefCmp p (l[i]'(by omega)) := by
      intro hpos
      by_cases hij : i = j
      · subst hij; omega
      · have := hm2 i j (by omega) hj hpos; omega
    omega
  have hget : l.toArray[r]? = some l[r] := by simp [List.getElem?_eq_getElem hrl]
  rw [hget]
  simp only [hzero r (Nat.le_refl _) hrj, if_true]
  have hlen : j - r < (l.drop r).length := by simp; omega
  have hmem := getElem_mem_takeWhile (fun t : Tbl => t.rangeContainsPrefix p) (l.drop r) (j - r) hlen (by
    intro k hk
    simp only [List.getElem_drop]
    exact (prefCmp_zero p _).mp (hzero (r + k) (by omega) (by omega)))
  simp only [List.getElem_drop] at hmem
  have hidx : r + (j - r) = j := by omega
  simpa [hidx] using hmem

/-- **`AllTablesForPrefix` selects every table that holds a key with the prefix** (and only tables of the list) -/
theorem selects_tablesForPrefix {s : State} {m : Spec} (h : Inv s m) (ho : DeepOrdered s) (p : Bytes) :
    Selects (Rescale.tablesForPrefix s.levels p) s.levels p := by
  have hso : ∀ l ∈ s.levels.tail, (∀ t ∈ l, t.run.Sorted) ∧ Ordered l := fun l hl => ⟨deep_sorted h hl, ho l hl⟩
  have hsorted : ∀ t ∈ s.levels.flatten, t.run.Sorted := fun t ht => h.sorted _ (tbl_containers_of_mem ht)
  cases hlv : s.levels with
  | nil => exact ⟨fun t ht => by simp [Rescale.tablesForPrefix] at ht, fun t ht => by simp at ht⟩
  | cons l0 deeper =>
    rw [hlv] at hso hsorted
    simp only [List.tail_cons] at hso
    constructor
    · intro t ht
      simp only [Rescale.tablesForPrefix, List.mem_append, List.mem_filter, List.mem_flatMap] at ht
      simp only [List.flatten_cons, List.mem_append, List.mem_flatten]
      rcases ht with ht | ⟨l, hl, htl⟩
      · exact Or.inl ht.1
      · exact Or.inr ⟨l, hl, deepTablesForPrefix_subset l p htl⟩
    · intro t ht e he hp
      have hc := rangeContainsPrefix_of_mem (hsorted t ht) he hp
      simp only [List.flatten_cons, List.mem_append, List.mem_flatten] at ht
      simp only [Rescale.tablesForPrefix, List.mem_append, List.mem_filter, List.mem_flatMap]
      rcases ht with ht | ⟨l, hl, htl⟩
      · exact Or.inl ⟨ht, hc⟩
      · exact Or.inr ⟨l, hl, mem_deepTablesForPrefix (hso l hl).1 (hso l hl).2 htl hc⟩

/-! ### scans over the selected tables -/

theorem scan2R_eq (sA sB : State) (p : Bytes) :
    scan2R sA sB p = (scanWithRaw sA.mems (Rescale.tablesForPrefix sB.levels p) p).filter (fun e => !e.del) := rfl

theorem scanR_eq_scan2R (s : State) (p : Bytes) : Rescale.scanR s p = scan2R s s p := rfl

/-- two-phase `ScanPrefix` over the tables `AllTablesForPrefix` selects in the later state -/
theorem scan2R_spec {sA sB : State} {m : Spec} (hA : Inv sA m) (hB : Inv sB m) (hoB : DeepOrdered sB)
    (hsub : ∀ r ∈ sB.mems, r ∈ sA.mems ∨ r = []) (p : Bytes) :
    (scan2R sA sB p).Sorted ∧
    ∀ e, e ∈ scan2R sA sB p ↔ (Spec.get m e.key = some e ∧ e.del = false ∧ Bytes.hasPrefix e.key p = true) :=
  scanWith_spec hA hB hsub p (selects_tablesForPrefix hB hoB p)

/-- two strictly ascending runs with the same entries are equal -/
theorem run_sorted_ext : ∀ {a b : Run}, a.Sorted → b.Sorted → (∀ x, x ∈ a ↔ x ∈ b) → a = b
  | [], [], _, _, _ => rfl
  | [], y :: ys, _, _, h => by have := (h y).mpr List.mem_cons_self; cases this
  | x :: xs, [], _, _, h => by have := (h x).mp List.mem_cons_self; cases this
  | x :: xs, y :: ys, ha, hb, h => by
    have ha' := List.pairwise_cons.mp ha
    have hb' := List.pairwise_cons.mp hb
    have hxy : x = y := by
      have h1 : x ∈ y :: ys := (h x).mp List.mem_cons_self
      have h2 : y ∈ x :: xs := (h y).mpr List.mem_cons_self
      rcases List.mem_cons.mp h1 with e | e
      · exact e
      · rcases List.mem_cons.mp h2 with e' | e'
        · exact e'.symm
        · have l1 := hb'.1 x e
          have l2 := ha'.1 y e'
          rw [Bytes.lt_asymm l1] at l2; cases l2
    subst hxy
    congr 1
    refine run_sorted_ext ha'.2 hb'.2 ?_
    intro z
    constructor
    · intro hz
      have : z ∈ x :: ys := (h z).mp (List.mem_cons_of_mem _ hz)
      rcases List.mem_cons.mp this with e | e
      · subst e
        have := ha'.1 z hz
        rw [Bytes.lt_irrefl] at this; cases this
      · exact e
    · intro hz
      have : z ∈ x :: xs := (h z).mpr (List.mem_cons_of_mem _ hz)
      rcases List.mem_cons.mp this with e | e
      · subst e
        have := hb'.1 z hz
        rw [Bytes.lt_irrefl] at this; cases this
      · exact e

/-- the selection does not change the result: the code's scan equals the merge over all tables -/
theorem scan2R_eq_scan2 {sA sB : State} {m : Spec} (hA : Inv sA m) (hB : Inv sB m) (hoB : DeepOrdered sB)
    (hsub : ∀ r ∈ sB.mems, r ∈ sA.mems ∨ r = []) (p : Bytes) : scan2R sA sB p = scan2 sA sB p := by
  have h1 := scan2R_spec hA hB hoB hsub p
  have h2 := scan2_spec hA hB hsub p
  apply run_sorted_ext h1.1 h2.1
  intro e
  rw [h1.2 e, h2.2 e]

end Rxn.Lsm
