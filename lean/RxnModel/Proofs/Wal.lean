import RxnModel.Model.Wal
import RxnModel.Proofs.Sst
/-! Helper lemmas for C17 (WAL part): record codec, reader loops, writer bookkeeping invariant. -/
namespace Rxn.Wal
open Rxn Rxn.Sst

theorem decRec_encRec (e : Rec) (h : e.WF) (rest : Bytes) : decRec (encRec e ++ rest) = some (e, rest) := by
  obtain ⟨s, k, d, v⟩ := e
  obtain ⟨hk, hv, hs, ht⟩ := h
  simp only at hk hv hs ht
  cases d with
  | true =>
    have hv0 : v = [] := ht rfl
    subst hv0
    simp only [decRec, encRec, List.append_assoc, readVar_encVar _ _ hk, readNat_leBytes u64W _ hs, readTomb]
    simp
  | false =>
    simp only [decRec, encRec, List.append_assoc, readVar_encVar _ _ hk, readNat_leBytes u64W _ hs, readTomb]
    simp [readVar_encVar _ _ hv]

theorem encRec_length_pos (e : Rec) : 0 < (encRec e).length := by
  have := tombW_pos
  simp [encRec, encTomb, encVar, leBytes_length]; omega

theorem encRecs_append (a b : List Rec) : encRecs (a ++ b) = encRecs a ++ encRecs b := by
  induction a with
  | nil => rfl
  | cons e a ih => simp [encRecs, ih]

theorem length_le_encRecs (es : List Rec) : es.length ≤ (encRecs es).length := by
  induction es with
  | nil => simp
  | cons e es ih => have := encRec_length_pos e; simp [encRecs]; omega

theorem skipRecs_encRecs (es : List Rec) (h : ∀ e ∈ es, e.WF) (n : Nat) (hn : n ≤ es.length) :
    skipRecs n (encRecs es) = some (encRecs (es.drop n)) := by
  induction es generalizing n with
  | nil => have : n = 0 := by simpa using hn
           subst this; rfl
  | cons e es ih =>
    cases n with
    | zero => rfl
    | succ n =>
      have he := h e (by simp)
      simp only [skipRecs, encRecs, decRec_encRec e he, List.drop_succ_cons]
      exact ih (fun x hx => h x (by simp [hx])) n (by simpa using hn)

theorem readRecs_encRecs (es : List Rec) (h : ∀ e ∈ es, e.WF) (fuel : Nat) (hf : es.length < fuel) :
    readRecs fuel (encRecs es) = (es.map Rec.toRead, false) := by
  induction es generalizing fuel with
  | nil => cases fuel with
    | zero => omega
    | succ f => simp [readRecs, encRecs]
  | cons e es ih =>
    cases fuel with
    | zero => omega
    | succ f =>
      have hpos := encRec_length_pos e
      have hne : (encRec e ++ encRecs es).isEmpty = false := by
        cases hh : encRec e with
        | nil => simp [hh] at hpos
        | cons a b => simp
      have he := h e (by simp)
      have ih' := ih (fun x hx => h x (by simp [hx])) f (by simp at hf; omega)
      simp only [readRecs, encRecs, hne, decRec_encRec e he, ih']
      simp

theorem seq_fits : 256 ^ u64W ≤ seqMod := by decide

theorem wrap_skip (a f M : Nat) (h1 : f ≤ a + 1) (h2 : a + 1 < M) : (a + M - f + 1) % M = a + 1 - f := by
  have : a + M - f + 1 = M + (a + 1 - f) := by omega
  rw [this, Nat.add_mod_left, Nat.mod_eq_of_lt (by omega)]

/-- the reader on a well-formed file: skip `after + 1 - first` records, yield the rest
(`after + 1 < seqMod`: the marker arithmetic does not wrap) -/
theorem readAll_encRecs (e : Rec) (es : List Rec) (h : ∀ x ∈ e :: es, x.WF) (after : Nat)
    (hw : after + 1 < seqMod)
    (h1 : e.seq ≤ after + 1) (h2 : after + 1 - e.seq ≤ (e :: es).length) :
    readAll (encRecs (e :: es)) after = .ok (((e :: es).drop (after + 1 - e.seq)).map Rec.toRead) := by
  have hpos := encRec_length_pos e
  have hne : (encRecs (e :: es)).isEmpty = false := by
    simp only [encRecs]
    cases hh : encRec e with
    | nil => simp [hh] at hpos
    | cons a b => simp
  have hfirst : readNat u64W (encRecs (e :: es)) = some (e.seq, encVar e.key ++ (encTomb e.del ++ (if e.del then [] else encVar e.val)) ++ encRecs es) := by
    simp only [encRecs, encRec, List.append_assoc]
    exact readNat_leBytes u64W _ (h e (by simp)).seq _
  unfold readAll
  simp only [hne, Bool.false_eq_true, if_false, hfirst]
  have hnp : ¬ ((after + 1) % seqMod < e.seq) := by rw [Nat.mod_eq_of_lt hw]; omega
  simp only [hnp, if_false, wrap_skip after e.seq seqMod h1 hw, skipRecs_encRecs (e :: es) h _ h2]
  have hwf' : ∀ x ∈ (e :: es).drop (after + 1 - e.seq), x.WF := fun x hx => h x (List.mem_of_mem_drop hx)
  rw [readRecs_encRecs _ hwf' _ (by have := length_le_encRecs ((e :: es).drop (after + 1 - e.seq)); omega)]

theorem readAll_panic (e : Rec) (es : List Rec) (he : e.WF) (after : Nat) (h1 : (after + 1) % seqMod < e.seq) :
    readAll (encRecs (e :: es)) after = .panic := by
  have hpos := encRec_length_pos e
  have hne : (encRecs (e :: es)).isEmpty = false := by
    simp only [encRecs]
    cases hh : encRec e with
    | nil => simp [hh] at hpos
    | cons a b => simp
  have hfirst : readNat u64W (encRecs (e :: es)) = some (e.seq, encVar e.key ++ (encTomb e.del ++ (if e.del then [] else encVar e.val)) ++ encRecs es) := by
    simp only [encRecs, encRec, List.append_assoc]
    exact readNat_leBytes u64W _ he.seq _
  unfold readAll
  simp only [hne, Bool.false_eq_true, if_false, hfirst, h1, if_true]

/-- with consecutive sequence numbers, skipping `after + 1 - first` records drops exactly those `≤ after` -/
theorem drop_eq_filter (f : Nat) (es : List Rec) (hc : Consecutive f es) (after : Nat) :
    es.drop (after + 1 - f) = es.filter (fun e => decide (after < e.seq)) := by
  induction es generalizing f with
  | nil => simp
  | cons e es ih =>
    obtain ⟨hf, hc'⟩ := hc
    by_cases hlt : after < f
    · have h0 : after + 1 - f = 0 := by omega
      have hall : ∀ g (l : List Rec), Consecutive g l → after < g → l.filter (fun e => decide (after < e.seq)) = l := by
        intro g l
        induction l generalizing g with
        | nil => intros; rfl
        | cons x l ihl =>
          intro hcl hg
          obtain ⟨hx, hcl'⟩ := hcl
          have : after < x.seq := by omega
          simp [this, ihl (g + 1) hcl' (by omega)]
      rw [h0, List.drop_zero, hall f (e :: es) ⟨hf, hc'⟩ hlt]
    · have h1 : after + 1 - f = (after + 1 - (f + 1)) + 1 := by omega
      have hno : ¬ after < e.seq := by omega
      rw [h1, List.drop_succ_cons, ih (f + 1) hc', List.filter_cons]
      simp [hno]

theorem consecutive_drop (f : Nat) (es : List Rec) (hc : Consecutive f es) (n : Nat) :
    Consecutive (f + n) (es.drop n) := by
  induction es generalizing f n with
  | nil => simp [Consecutive]
  | cons e es ih =>
    cases n with
    | zero => exact hc
    | succ n =>
      have := ih (f + 1) hc.2 n
      simpa [Nat.add_assoc, Nat.add_comm 1 n] using this


/-! ### writer bookkeeping -/

/-- bookkeeping invariant of a writer with respect to everything appended so far (`all`) and the largest
truncation argument so far (`T`) -/
def WInv (w : Writer) (all : List Rec) (T : Nat) : Prop :=
  (∃ n, n ≤ all.length ∧ w.entries = all.drop n ∧ ∀ e ∈ all.take n, e.seq ≤ T) ∧
  (∀ s ∈ w.sealed, ∀ e ∈ s.recs, e.seq ≤ s.latest) ∧
  (∀ e ∈ w.active, e.seq ≤ w.latest)

theorem winv_mono {w : Writer} {all : List Rec} {T T' : Nat} (h : WInv w all T) (hT : T ≤ T') : WInv w all T' := by
  obtain ⟨⟨n, h1, h2, h3⟩, h4, h5⟩ := h
  exact ⟨⟨n, h1, h2, fun e he => Nat.le_trans (h3 e he) hT⟩, h4, h5⟩

theorem winv_append (w : Writer) (all : List Rec) (T : Nat) (r : Rec) (h : WInv w all T) (hr : w.latest ≤ r.seq) :
    WInv { w with active := w.active ++ [r], latest := r.seq } (all ++ [r]) T := by
  obtain ⟨⟨n, h1, h2, h3⟩, h4, h5⟩ := h
  refine ⟨⟨n, by simp; omega, ?_, ?_⟩, h4, ?_⟩
  · simp only [Writer.entries] at h2 ⊢
    rw [← List.append_assoc, h2, List.drop_append_of_le_length h1]
  · rw [List.take_append_of_le_length h1]; exact h3
  · intro e he
    simp only [List.mem_append, List.mem_singleton] at he
    rcases he with he | rfl
    · exact Nat.le_trans (h5 e he) hr
    · exact Nat.le_refl _

theorem winv_seal (w : Writer) (all : List Rec) (T : Nat) (h : WInv w all T) (id : Nat) :
    WInv { w with id := id, sealed := w.sealed ++ [⟨w.active, w.latest⟩], active := [] } all T := by
  obtain ⟨⟨n, h1, h2, h3⟩, h4, h5⟩ := h
  refine ⟨⟨n, h1, ?_, h3⟩, ?_, by simp⟩
  · simp only [Writer.entries] at h2 ⊢
    simpa using h2
  · intro s hs e he
    simp only [List.mem_append, List.mem_singleton] at hs
    rcases hs with hs | rfl
    · exact h4 s hs e he
    · exact h5 e he

theorem dropFlushed_split (seq : Nat) (ss : List Seg) :
    ∃ d, ss = d ++ Writer.dropFlushed seq ss ∧ ∀ s ∈ d, s.latest ≤ seq := by
  induction ss with
  | nil => exact ⟨[], rfl, by simp⟩
  | cons s ss ih =>
    unfold Writer.dropFlushed
    by_cases h : s.latest > seq
    · exact ⟨[], by simp [h], by simp⟩
    · obtain ⟨d, h1, h2⟩ := ih
      refine ⟨s :: d, by simp only [h, if_false]; rw [List.cons_append, ← h1], ?_⟩
      intro x hx
      simp only [List.mem_cons] at hx
      rcases hx with rfl | hx
      · omega
      · exact h2 x hx

theorem winv_truncate (w : Writer) (all : List Rec) (T : Nat) (h : WInv w all T) (seq : Nat) :
    WInv (w.truncate seq) all (max T seq) := by
  obtain ⟨⟨n, h1, h2, h3⟩, h4, h5⟩ := h
  obtain ⟨d, hd1, hd2⟩ := dropFlushed_split seq w.sealed
  have hsub : ∀ s ∈ Writer.dropFlushed seq w.sealed, s ∈ w.sealed := by
    intro s hs; rw [hd1]; exact List.mem_append_right _ hs
  refine ⟨⟨n + ((d.map (·.recs)).flatten).length, ?_, ?_, ?_⟩, fun s hs => h4 s (hsub s hs), h5⟩
  · have : (all.drop n).length = w.entries.length := by rw [h2]
    simp only [Writer.entries] at this
    rw [hd1] at this
    simp only [List.map_append, List.flatten_append, List.length_append, List.length_drop] at this
    omega
  · have he : w.entries = (d.map (·.recs)).flatten ++ (w.truncate seq).entries := by
      simp only [Writer.entries, Writer.truncate]
      conv => lhs; rw [hd1]
      simp
    rw [← List.drop_drop, ← h2, he, List.drop_left]
  · intro e he
    rw [List.take_add] at he
    simp only [List.mem_append] at he
    rcases he with he | he
    · exact Nat.le_trans (h3 e he) (Nat.le_max_left _ _)
    · have he2 : w.entries = (d.map (·.recs)).flatten ++ (w.truncate seq).entries := by
        simp only [Writer.entries, Writer.truncate]
        conv => lhs; rw [hd1]
        simp
      rw [← h2, he2, List.take_left] at he
      simp only [List.mem_flatten, List.mem_map] at he
      obtain ⟨l, ⟨s, hs, rfl⟩, hel⟩ := he
      have hs' : s ∈ w.sealed := by rw [hd1]; exact List.mem_append_left _ hs
      exact Nat.le_trans (Nat.le_trans (h4 s hs' e hel) (hd2 s hs)) (Nat.le_max_right _ _)

theorem run_inv (ops : List Op) (w : Writer) (all : List Rec) (T : Nat) (h : WInv w all T)
    (hm : MonoSeqs w.latest ops) :
    WInv (w.run ops) (all ++ appended ops) (max T (maxTrunc ops)) := by
  induction ops generalizing w all T with
  | nil => simpa [Writer.run, appended, maxTrunc] using h
  | cons op ops ih =>
    cases op with
    | put k v s =>
      obtain ⟨h1, h2⟩ := hm
      have := ih (w.put k v s) (all ++ [(⟨s, k, false, v⟩ : Rec)]) T (winv_append w all T ⟨s, k, false, v⟩ h h1) h2
      simpa [Writer.run, Writer.apply, appended, maxTrunc] using this
    | del k s =>
      obtain ⟨h1, h2⟩ := hm
      have := ih (w.delete k s) (all ++ [(⟨s, k, true, []⟩ : Rec)]) T (winv_append w all T ⟨s, k, true, []⟩ h h1) h2
      simpa [Writer.run, Writer.apply, appended, maxTrunc] using this
    | cut =>
      have := ih w.cut all T (winv_seal w all T h w.id) hm
      simpa [Writer.run, Writer.apply, appended, maxTrunc] using this
    | truncate s =>
      have := ih (w.truncate s) all (max T s) (winv_truncate w all T h s) hm
      simpa [Writer.run, Writer.apply, appended, maxTrunc, Nat.max_assoc] using this
    | rotate =>
      have := ih w.rotate all T (winv_seal w all T h (w.id + 1)) hm
      simpa [Writer.run, Writer.apply, appended, maxTrunc] using this

theorem new_inv (id m : Nat) : WInv (Writer.new id m) [] 0 :=
  ⟨⟨0, Nat.le_refl _, rfl, by simp⟩, by simp [Writer.new], by simp [Writer.new]⟩

theorem filter_take_nil (all : List Rec) (n after T : Nat) (h : ∀ e ∈ all.take n, e.seq ≤ T) (hT : T ≤ after) :
    (all.take n).filter (fun e => decide (after < e.seq)) = [] := by
  rw [List.filter_eq_nil_iff]
  intro e he
  have := h e he
  simp; omega

/-- a saved WAL replays exactly the records appended after the start marker -/
theorem replay_after (ops : List Op) (id m f after : Nat)
    (hmono : MonoSeqs 0 ops) (hcons : Consecutive f (appended ops)) (hwf : ∀ e ∈ appended ops, e.WF)
    (hT : maxTrunc ops ≤ after) (hlo : f ≤ after + 1) (hhi : after + 1 ≤ f + (appended ops).length)
    (hw : after + 1 < seqMod) :
    readAll ((Writer.new id m).run ops).save after
      = .ok (((appended ops).filter (fun e => decide (after < e.seq))).map Rec.toRead) := by
  have hinv := run_inv ops (Writer.new id m) [] 0 (new_inv id m) hmono
  simp only [List.nil_append, Nat.zero_max] at hinv
  obtain ⟨⟨n, hn, hent, hdropped⟩, _, _⟩ := hinv
  have hsplit : (appended ops).filter (fun e => decide (after < e.seq))
      = ((appended ops).drop n).filter (fun e => decide (after < e.seq)) := by
    conv => lhs; rw [← List.take_append_drop n (appended ops)]
    rw [List.filter_append, filter_take_nil _ _ _ _ hdropped hT, List.nil_append]
  rw [hsplit]
  unfold Writer.save
  rw [hent]
  have hc' := consecutive_drop f _ hcons n
  cases hd : (appended ops).drop n with
  | nil => simp [encRecs, readAll]
  | cons e es =>
    rw [hd] at hc'
    have hseq : e.seq = f + n := hc'.1
    have hwf' : ∀ x ∈ e :: es, x.WF := by
      intro x hx; rw [← hd] at hx; exact hwf x (List.mem_of_mem_drop hx)
    have hlen : (e :: es).length = (appended ops).length - n := by rw [← hd, List.length_drop]
    have h1 : e.seq ≤ after + 1 := by
      rw [hseq]
      cases n with
      | zero => simpa using hlo
      | succ k =>
        -- the last dropped record has sequence number f + k and was truncated, hence ≤ after
        have hk : k < (appended ops).length := by omega
        have hck := consecutive_drop f _ hcons k
        rw [List.drop_eq_getElem_cons hk] at hck
        have hx : (appended ops)[k] ∈ (appended ops).take (k + 1) := by
          rw [List.mem_take_iff_getElem]; exact ⟨k, by omega, rfl⟩
        have := hdropped _ hx
        have := hck.1
        omega
    have h2 : after + 1 - e.seq ≤ (e :: es).length := by rw [hlen, hseq]; omega
    rw [readAll_encRecs e es hwf' after hw h1 h2, hseq, drop_eq_filter (f + n) (e :: es) hc' after]

/-- nothing newer than every truncation is ever lost, and what a save contains is a suffix of the appended records -/
theorem writer_retains (ops : List Op) (id m : Nat) (hmono : MonoSeqs 0 ops) :
    (∃ n, ((Writer.new id m).run ops).entries = (appended ops).drop n) ∧
    ∀ e ∈ appended ops, maxTrunc ops < e.seq → e ∈ ((Writer.new id m).run ops).entries := by
  have hinv := run_inv ops (Writer.new id m) [] 0 (new_inv id m) hmono
  simp only [List.nil_append, Nat.zero_max] at hinv
  obtain ⟨⟨n, hn, hent, hdropped⟩, _, _⟩ := hinv
  refine ⟨⟨n, hent⟩, ?_⟩
  intro e he hlt
  rw [hent]
  rw [← List.take_append_drop n (appended ops), List.mem_append] at he
  rcases he with he | he
  · have := hdropped e he; omega
  · exact he
end Rxn.Wal

namespace Rxn.Wal
open Rxn Rxn.Sst

theorem log_apply_cur (l : Log) (op : Op) : (l.apply op).cur = l.cur.apply op := by
  cases op <;> rfl

theorem log_run_cur (l : Log) (ops : List Op) : (l.run ops).cur = l.cur.run ops := by
  induction ops generalizing l with
  | nil => rfl
  | cons op ops ih => simp only [Log.run, Writer.run, ih, log_apply_cur]

theorem log_apply_sealed (l : Log) (op : Op) : ∃ more, (l.apply op).sealed = l.sealed ++ more := by
  cases op
  case rotate => exact ⟨[l.cur], rfl⟩
  all_goals exact ⟨[], by simp [Log.apply]⟩

/-- whatever happens later, the sealed writers stay as they were sealed (new ones are only appended) -/
theorem log_run_sealed (l : Log) (ops : List Op) : ∃ more, (l.run ops).sealed = l.sealed ++ more := by
  induction ops generalizing l with
  | nil => exact ⟨[], by simp [Log.run]⟩
  | cons op ops ih =>
    obtain ⟨m1, h1⟩ := log_apply_sealed l op
    obtain ⟨m2, h2⟩ := ih (l.apply op)
    exact ⟨m1 ++ m2, by simp only [Log.run, h2, h1, List.append_assoc]⟩

theorem log_run_append (l : Log) (a b : List Op) : l.run (a ++ b) = (l.run a).run b := by
  induction a generalizing l with
  | nil => rfl
  | cons op a ih => simp only [List.cons_append, Log.run, ih]

/-- the writer sealed by the `Rotate` after `ops₁` is the writer those operations built, and it is still exactly
that — same position, same content — after any later history `ops₂` of its successors -/
theorem sealed_writer_immutable (id m : Nat) (ops₁ ops₂ : List Op) :
    let l := (Log.new id m).run (ops₁ ++ Op.rotate :: ops₂)
    let k := ((Log.new id m).run ops₁).sealed.length
    l.sealed[k]? = some ((Writer.new id m).run ops₁) := by
  intro l k
  have hl : l = (((Log.new id m).run ops₁).apply Op.rotate).run ops₂ := by
    show (Log.new id m).run (ops₁ ++ Op.rotate :: ops₂) = _
    rw [log_run_append]; rfl
  obtain ⟨more, hmore⟩ := log_run_sealed (((Log.new id m).run ops₁).apply Op.rotate) ops₂
  have hcur : ((Log.new id m).run ops₁).cur = (Writer.new id m).run ops₁ := log_run_cur _ _
  rw [hl, hmore]
  show (((Log.new id m).run ops₁).sealed ++ [((Log.new id m).run ops₁).cur] ++ more)[k]? = _
  rw [List.append_assoc, List.getElem?_append_right (Nat.le_refl _)]
  simp [k, hcur]

end Rxn.Wal
