import RxnModel.Model.ZipTree
import RxnModel.Base.BytesOrder
/-! The zip tree refines a strictly ascending association list, whatever ranks are drawn. -/
namespace Rxn.ZipTree
open Tree

abbrev KV := Bytes × Bytes

def KLt (a b : KV) : Prop := Bytes.cmp a.1 b.1 = .lt
def Sorted (l : List KV) : Prop := l.Pairwise KLt
/-- binary-search-tree order: the in-order contents are strictly ascending -/
def BST (t : Tree) : Prop := Sorted (toList t)

theorem cmp_gt_of_lt {a b : Bytes} (h : Bytes.cmp a b = .lt) : Bytes.cmp b a = .gt := Bytes.cmp_lt_iff_gt.mp h
theorem cmp_lt_of_gt {a b : Bytes} (h : Bytes.cmp a b = .gt) : Bytes.cmp b a = .lt := Bytes.cmp_gt_iff_lt.mp h
theorem cmp_ne_of_lt {a b : Bytes} (h : Bytes.cmp a b = .lt) : a ≠ b := by
  intro e; rw [e, Bytes.cmp_self] at h; cases h

theorem bst_node {l r : Tree} {k v : Bytes} {rk : Nat} (h : BST (node l k v rk r)) :
    BST l ∧ BST r ∧ (∀ e ∈ toList l, Bytes.cmp e.1 k = .lt) ∧ (∀ e ∈ toList r, Bytes.cmp k e.1 = .lt) := by
  unfold BST Sorted at *
  simp only [toList] at h
  rw [List.pairwise_append] at h
  obtain ⟨h1, h2, h3⟩ := h
  rw [List.pairwise_cons] at h2
  exact ⟨h1, h2.2, fun e he => h3 e he (k, v) List.mem_cons_self, fun e he => h2.1 e he⟩

/-! ### the specification list -/

theorem specPut_append_lt (k v : Bytes) (xs ys : List KV) (h : ∀ e ∈ xs, Bytes.cmp e.1 k = .lt) :
    specPut k v (xs ++ ys) = xs ++ specPut k v ys := by
  induction xs with
  | nil => rfl
  | cons x xs ih =>
    obtain ⟨k', v'⟩ := x
    have hx : Bytes.cmp k k' = .gt := cmp_gt_of_lt (h (k', v') List.mem_cons_self)
    simp only [List.cons_append, specPut, hx]
    rw [ih (fun e he => h e (List.mem_cons_of_mem _ he))]

theorem specPut_append_head (k v ck cv : Bytes) (xs ys : List KV) (h : Bytes.cmp k ck = .lt) :
    specPut k v (xs ++ (ck, cv) :: ys) = specPut k v xs ++ (ck, cv) :: ys := by
  induction xs with
  | nil => simp [specPut, h]
  | cons x xs ih =>
    obtain ⟨k', v'⟩ := x
    simp only [List.cons_append, specPut]
    cases hc : Bytes.cmp k k' with
    | lt => simp
    | eq => simp
    | gt => simp [ih]

theorem specPut_above (k v : Bytes) (ys : List KV) (h : ∀ e ∈ ys, Bytes.cmp k e.1 = .lt) :
    specPut k v ys = (k, v) :: ys := by
  cases ys with
  | nil => rfl
  | cons y ys =>
    obtain ⟨k', v'⟩ := y
    simp [specPut, h (k', v') List.mem_cons_self]

theorem specPut_mem (k v : Bytes) (l : List KV) (e : KV) (he : e ∈ specPut k v l) : e = (k, v) ∨ e ∈ l := by
  induction l with
  | nil => simp [specPut] at he; exact Or.inl he
  | cons x xs ih =>
    obtain ⟨k', v'⟩ := x
    simp only [specPut] at he
    cases hc : Bytes.cmp k k' with
    | lt => rw [hc] at he; simp only [List.mem_cons] at he ⊢; rcases he with h | h | h <;> simp [h]
    | eq => rw [hc] at he; simp only [List.mem_cons] at he ⊢; rcases he with h | h <;> simp [h]
    | gt =>
      rw [hc] at he; simp only [List.mem_cons] at he ⊢
      rcases he with h | h
      · simp [h]
      · rcases ih h with h2 | h2 <;> simp [h2]

theorem specPut_sorted (k v : Bytes) (l : List KV) (h : Sorted l) : Sorted (specPut k v l) := by
  induction l with
  | nil => simp [specPut, Sorted]
  | cons x xs ih =>
    obtain ⟨k', v'⟩ := x
    unfold Sorted at *
    rw [List.pairwise_cons] at h
    simp only [specPut]
    cases hc : Bytes.cmp k k' with
    | lt =>
      simp only []
      rw [List.pairwise_cons, List.pairwise_cons]
      refine ⟨?_, h⟩
      intro e he
      simp only [List.mem_cons] at he
      rcases he with rfl | he
      · exact hc
      · exact Bytes.cmp_lt_trans hc (h.1 e he)
    | eq =>
      simp only []
      have hk : k = k' := Bytes.cmp_eq_iff.mp hc
      rw [List.pairwise_cons]
      refine ⟨?_, h.2⟩
      intro e he
      show Bytes.cmp k e.1 = .lt
      rw [hk]; exact h.1 e he
    | gt =>
      simp only []
      rw [List.pairwise_cons]
      refine ⟨?_, ih h.2⟩
      intro e he
      rcases specPut_mem k v xs e he with rfl | h2
      · exact cmp_lt_of_gt hc
      · exact h.1 e h2

theorem specGet_absent (k : Bytes) (l : List KV) (h : ∀ e ∈ l, e.1 ≠ k) : specGet k l = none := by
  induction l with
  | nil => rfl
  | cons x xs ih =>
    obtain ⟨k', v'⟩ := x
    have : (k' == k) = false := by
      simp only [beq_eq_false_iff_ne, ne_eq]; exact h (k', v') List.mem_cons_self
    simp only [specGet, this, Bool.false_eq_true, if_false]
    exact ih (fun e he => h e (List.mem_cons_of_mem _ he))

theorem specGet_append_absent (k : Bytes) (xs ys : List KV) (h : ∀ e ∈ xs, e.1 ≠ k) :
    specGet k (xs ++ ys) = specGet k ys := by
  induction xs with
  | nil => rfl
  | cons x xs ih =>
    obtain ⟨k', v'⟩ := x
    have : (k' == k) = false := by
      simp only [beq_eq_false_iff_ne, ne_eq]; exact h (k', v') List.mem_cons_self
    simp only [List.cons_append, specGet, this, Bool.false_eq_true, if_false]
    exact ih (fun e he => h e (List.mem_cons_of_mem _ he))

theorem specGet_append_right_absent (k : Bytes) (xs ys : List KV) (h : ∀ e ∈ ys, e.1 ≠ k) :
    specGet k (xs ++ ys) = specGet k xs := by
  induction xs with
  | nil => simp only [List.nil_append, specGet]; exact specGet_absent k ys h
  | cons x xs ih =>
    obtain ⟨k', v'⟩ := x
    simp only [List.cons_append, specGet, ih]

theorem specGet_none_absent (k : Bytes) (l : List KV) (h : specGet k l = none) : ∀ e ∈ l, e.1 ≠ k := by
  induction l with
  | nil => intro e he; cases he
  | cons x xs ih =>
    obtain ⟨k', v'⟩ := x
    simp only [specGet] at h
    by_cases hk : (k' == k) = true
    · simp [hk] at h
    · simp only [hk] at h
      intro e he
      simp only [List.mem_cons] at he
      rcases he with rfl | he
      · simpa using hk
      · exact ih h e he

/-! ### Get -/

theorem get_eq (k : Bytes) (t : Tree) (h : BST t) : get k t = specGet k (toList t) := by
  induction t with
  | nil => rfl
  | node l ck cv cr r ihl ihr =>
    obtain ⟨hl, hr, hlk, hrk⟩ := bst_node h
    simp only [get, toList]
    cases hc : Bytes.cmp k ck with
    | gt =>
      simp only []
      rw [ihr hr, specGet_append_absent k _ _ (fun e he => cmp_ne_of_lt (Bytes.cmp_lt_trans (hlk e he) (cmp_lt_of_gt hc)))]
      have : (ck == k) = false := by
        simp only [beq_eq_false_iff_ne, ne_eq]; exact cmp_ne_of_lt (cmp_lt_of_gt hc)
      simp [specGet, this]
    | lt =>
      simp only []
      rw [ihl hl, specGet_append_right_absent]
      intro e he
      simp only [List.mem_cons] at he
      rcases he with rfl | he
      · exact fun e => cmp_ne_of_lt hc e.symm
      · exact fun e2 => cmp_ne_of_lt (Bytes.cmp_lt_trans hc (hrk e he)) e2.symm
    | eq =>
      simp only []
      have hk : k = ck := Bytes.cmp_eq_iff.mp hc
      rw [specGet_append_absent k _ _ (fun e he => by rw [hk]; exact cmp_ne_of_lt (hlk e he))]
      simp [specGet, hk]

/-! ### unzip, insert, replace -/

theorem unzip_spec (k : Bytes) (t : Tree) (h : BST t) :
    toList (unzip k t).1 ++ toList (unzip k t).2 = toList t ∧
    (∀ e ∈ toList (unzip k t).1, Bytes.cmp e.1 k = .lt) ∧
    (∀ e ∈ toList (unzip k t).2, Bytes.cmp e.1 k ≠ .lt) := by
  induction t with
  | nil => simp [unzip, toList]
  | node l ck cv cr r ihl ihr =>
    obtain ⟨hl, hr, hlk, hrk⟩ := bst_node h
    unfold unzip
    by_cases hc : (Bytes.cmp ck k == .lt) = true
    · rw [if_pos hc]
      have hc' : Bytes.cmp ck k = .lt := by simpa using hc
      obtain ⟨a, b, c⟩ := ihr hr
      refine ⟨?_, ?_, c⟩
      · simp only [toList, List.append_assoc, List.cons_append]; rw [a]
      · intro e he
        simp only [toList, List.mem_append, List.mem_cons] at he
        rcases he with he | rfl | he
        · exact Bytes.cmp_lt_trans (hlk e he) hc'
        · exact hc'
        · exact b e he
    · rw [if_neg hc]
      have hc' : Bytes.cmp ck k ≠ .lt := by simpa using hc
      obtain ⟨a, b, c⟩ := ihl hl
      refine ⟨?_, b, ?_⟩
      · simp only [toList]; rw [← List.append_assoc, a]
      · intro e he
        simp only [toList, List.mem_append, List.mem_cons] at he
        rcases he with he | rfl | he
        · exact c e he
        · exact hc'
        · intro h2; exact hc' (Bytes.cmp_lt_trans (hrk e he) h2)

theorem insert_toList (k v : Bytes) (rank : Nat) (t : Tree) (h : BST t) (habs : ∀ e ∈ toList t, e.1 ≠ k) :
    toList (insert k v rank t) = specPut k v (toList t) := by
  induction t with
  | nil => rfl
  | node l ck cv cr r ihl ihr =>
    obtain ⟨hl, hr, hlk, hrk⟩ := bst_node h
    have habsl : ∀ e ∈ toList l, e.1 ≠ k := fun e he => habs e (by simp [toList, he])
    have habsr : ∀ e ∈ toList r, e.1 ≠ k := fun e he => habs e (by simp [toList, he])
    have hck : ck ≠ k := habs (ck, cv) (by simp [toList])
    unfold insert
    split
    · split
      · rename_i hlt
        have hlt' : Bytes.cmp k ck = .lt := by simpa using hlt
        simp only [toList]
        rw [ihl hl habsl, specPut_append_head k v ck cv _ _ hlt']
      · rename_i hlt
        have hgt : Bytes.cmp ck k = .lt := by
          rcases Bytes.lt_or_eq_or_gt k ck with h1 | h1 | h1
          · simp [Bytes.lt] at h1; simp [h1] at hlt
          · exact absurd h1.symm hck
          · simpa [Bytes.lt] using h1
        simp only [toList]
        rw [ihr hr habsr]
        have : toList l ++ (ck, cv) :: toList r = (toList l ++ [(ck, cv)]) ++ toList r := by simp
        rw [this, specPut_append_lt k v _ _ (by
          intro e he
          simp only [List.mem_append, List.mem_singleton] at he
          rcases he with he | rfl
          · exact Bytes.cmp_lt_trans (hlk e he) hgt
          · exact hgt)]
        simp
    · obtain ⟨a, b, c⟩ := unzip_spec k (node l ck cv cr r) h
      simp only [toList] at a ⊢
      rw [← a, specPut_append_lt k v _ _ b, specPut_above]
      intro e he
      rcases Bytes.lt_or_eq_or_gt k e.1 with h1 | h1 | h1
      · simpa [Bytes.lt] using h1
      · exfalso
        refine habs e ?_ h1.symm
        simp only [toList]; rw [← a]; exact List.mem_append_right _ he
      · exfalso; exact c e he (by simpa [Bytes.lt] using h1)

theorem replace_toList (k v : Bytes) (t : Tree) (h : BST t) (old : Bytes) (hg : get k t = some old) :
    toList (replace k v t) = specPut k v (toList t) := by
  induction t with
  | nil => simp [get] at hg
  | node l ck cv cr r ihl ihr =>
    obtain ⟨hl, hr, hlk, hrk⟩ := bst_node h
    simp only [get] at hg
    simp only [replace]
    cases hc : Bytes.cmp k ck with
    | eq =>
      simp only [toList]
      have hk : k = ck := Bytes.cmp_eq_iff.mp hc
      rw [specPut_append_lt k v _ _ (fun e he => by rw [hk]; exact hlk e he)]
      simp [specPut, hc]
    | lt =>
      rw [hc] at hg
      simp only [toList]
      rw [ihl hl hg, specPut_append_head k v ck cv _ _ hc]
    | gt =>
      rw [hc] at hg
      simp only [toList]
      rw [ihr hr hg]
      have hgt := cmp_lt_of_gt hc
      have : toList l ++ (ck, cv) :: toList r = (toList l ++ [(ck, cv)]) ++ toList r := by simp
      rw [this, specPut_append_lt k v _ _ (by
        intro e he
        simp only [List.mem_append, List.mem_singleton] at he
        rcases he with he | rfl
        · exact Bytes.cmp_lt_trans (hlk e he) hgt
        · exact hgt)]
      simp

/-- `Put`: returns what the list held, and the contents become `specPut` of the contents, for every rank -/
theorem put_spec (k v : Bytes) (rank : Nat) (t : Tree) (h : BST t) :
    (put k v rank t).1 = specGet k (toList t) ∧
    toList (put k v rank t).2 = specPut k v (toList t) ∧ BST (put k v rank t).2 := by
  have hget := get_eq k t h
  unfold put
  cases hg : get k t with
  | some old =>
    simp only []
    have := replace_toList k v t h old hg
    refine ⟨by rw [← hget, hg], this, ?_⟩
    unfold BST; rw [this]; exact specPut_sorted k v _ h
  | none =>
    simp only []
    have habs := specGet_none_absent k (toList t) (by rw [← hget, hg])
    have := insert_toList k v rank t h habs
    refine ⟨by rw [← hget, hg], this, ?_⟩
    unfold BST; rw [this]; exact specPut_sorted k v _ h

/-! ### AscendPrefix -/

/-- what a stack of pending nodes will still visit: each node, then its right subtree -/
def stackSeq : List Tree → List KV
  | [] => []
  | nil :: s => stackSeq s
  | node _ k v _ r :: s => (k, v) :: (toList r ++ stackSeq s)

/-- pops the walk can still perform -/
def weight : List Tree → Nat
  | [] => 0
  | nil :: s => 1 + weight s
  | node _ _ _ _ r :: s => 1 + size r + weight s

theorem pushLeft_seq (t : Tree) (s : List Tree) : stackSeq (pushLeft t s) = toList t ++ stackSeq s := by
  induction t generalizing s with
  | nil => rfl
  | node l k v rk r ihl _ => simp [pushLeft, ihl, stackSeq, toList]

theorem pushLeft_weight (t : Tree) (s : List Tree) : weight (pushLeft t s) = size t + weight s := by
  induction t generalizing s with
  | nil => simp [pushLeft, size]
  | node l k v rk r ihl _ => simp [pushLeft, ihl, weight, size]; omega

def hp (p : Bytes) (e : KV) : Bool := Bytes.hasPrefix e.1 p
def below (p : Bytes) (e : KV) : Bool := Bytes.cmp e.1 p == .lt

theorem walk_eq (p : Bytes) (fuel : Nat) (s : List Tree) (h : weight s ≤ fuel) :
    walk p fuel s = (stackSeq s).takeWhile (hp p) := by
  induction fuel generalizing s with
  | zero =>
    cases s with
    | nil => rfl
    | cons t s => cases t <;> simp [weight] at h <;> omega
  | succ fuel ih =>
    cases s with
    | nil => rfl
    | cons t s =>
      cases t with
      | nil =>
        simp only [walk, stackSeq]
        exact ih s (by simp [weight] at h; omega)
      | node l k v rk r =>
        simp only [walk, stackSeq]
        by_cases hk : Bytes.hasPrefix k p = true
        · rw [if_pos hk, List.takeWhile_cons_of_pos (by simpa [hp] using hk)]
          rw [ih _ (by rw [pushLeft_weight]; simp [weight] at h; omega), pushLeft_seq]
        · rw [if_neg hk, List.takeWhile_cons_of_neg (by simpa [hp] using hk)]

theorem dropWhile_append_stop {α : Type} (f : α → Bool) (L : List α) (m : α) (M : List α) (h : f m = false) :
    (L ++ m :: M).dropWhile f = L.dropWhile f ++ m :: M := by
  induction L with
  | nil => simp [List.dropWhile, h]
  | cons x xs ih =>
    simp only [List.cons_append, List.dropWhile]
    cases f x <;> simp [ih]

theorem dropWhile_append_all {α : Type} (f : α → Bool) (L M : List α) (h : ∀ x ∈ L, f x = true) :
    (L ++ M).dropWhile f = M.dropWhile f := by
  induction L with
  | nil => rfl
  | cons x xs ih =>
    simp only [List.cons_append, List.dropWhile, h x List.mem_cons_self]
    exact ih (fun y hy => h y (List.mem_cons_of_mem _ hy))

theorem seek_seq (p : Bytes) (t : Tree) (s : List Tree) (h : BST t) :
    stackSeq (seek p t s) = (toList t).dropWhile (below p) ++ stackSeq s ∧
    weight (seek p t s) ≤ size t + weight s := by
  induction t generalizing s with
  | nil => simp [seek, toList, size]
  | node l k v rk r ihl ihr =>
    obtain ⟨hl, hr, hlk, hrk⟩ := bst_node h
    unfold seek
    by_cases hkp : (k == p) = true
    · rw [if_pos hkp]
      have hkp' : k = p := by simpa using hkp
      constructor
      · simp only [toList, stackSeq]
        rw [dropWhile_append_all (below p) _ _ (by intro e he; simp only [below, beq_iff_eq]; rw [← hkp']; exact hlk e he)]
        simp [List.dropWhile, below, hkp']
      · simp [weight, size]
    · rw [if_neg hkp]
      have hne : k ≠ p := by simpa using hkp
      by_cases hlt : (Bytes.cmp p k == .lt) = true
      · rw [if_pos hlt]
        have hlt' : Bytes.cmp p k = .lt := by simpa using hlt
        obtain ⟨a, b⟩ := ihl (node l k v rk r :: s) hl
        constructor
        · rw [a]
          simp only [toList, stackSeq]
          rw [dropWhile_append_stop (below p) _ _ _ (by simp [below, cmp_gt_of_lt hlt'])]
          simp
        · simp only [weight, size] at b ⊢; omega
      · rw [if_neg hlt]
        have hgt : Bytes.cmp k p = .lt := by
          rcases Bytes.lt_or_eq_or_gt k p with h1 | h1 | h1
          · simpa [Bytes.lt] using h1
          · exact absurd h1 hne
          · simp [Bytes.lt] at h1; simp [h1] at hlt
        obtain ⟨a, b⟩ := ihr s hr
        constructor
        · rw [a]
          simp only [toList]
          have : toList l ++ (k, v) :: toList r = (toList l ++ [(k, v)]) ++ toList r := by simp
          rw [this, dropWhile_append_all (below p) _ _ (by
            intro e he
            simp only [List.mem_append, List.mem_singleton] at he
            simp only [below, beq_iff_eq]
            rcases he with he | rfl
            · exact Bytes.cmp_lt_trans (hlk e he) hgt
            · exact hgt)]
        · simp only [size]; omega

/-- on a list at or above `p` in ascending order, the keys with prefix `p` form an initial segment -/
theorem takeWhile_eq_filter (p : Bytes) (l : List KV) (hs : Sorted l) (hge : ∀ e ∈ l, Bytes.cmp p e.1 ≠ .gt) :
    l.takeWhile (hp p) = l.filter (hp p) := by
  induction l with
  | nil => rfl
  | cons x xs ih =>
    unfold Sorted at hs
    rw [List.pairwise_cons] at hs
    by_cases hx : hp p x = true
    · rw [List.takeWhile_cons_of_pos hx, List.filter_cons_of_pos hx]
      rw [ih hs.2 (fun e he => hge e (List.mem_cons_of_mem _ he))]
    · rw [List.takeWhile_cons_of_neg hx, List.filter_cons_of_neg hx]
      symm
      rw [List.filter_eq_nil_iff]
      intro e he hpe
      apply hx
      have hxe : Bytes.cmp x.1 e.1 ≠ .gt := by rw [hs.1 e he]; simp
      have hpp : Bytes.hasPrefix p p = true := by
        have := Bytes.hasPrefix_append p []
        simpa using this
      exact Bytes.prefix_interval (a := p) (c := e.1) hpp hpe (hge x List.mem_cons_self) hxe

theorem takeWhile_dropWhile_eq_filter (p : Bytes) (l : List KV) (hs : Sorted l) :
    (l.dropWhile (below p)).takeWhile (hp p) = l.filter (hp p) := by
  induction l with
  | nil => rfl
  | cons x xs ih =>
    have hs' := hs
    unfold Sorted at hs'
    rw [List.pairwise_cons] at hs'
    by_cases hb : below p x = true
    · have hlt : Bytes.cmp x.1 p = .lt := by simpa [below] using hb
      have hnp : hp p x = false := by
        cases hh : hp p x with
        | false => rfl
        | true =>
          exfalso
          exact Bytes.prefix_le (by simpa [hp] using hh) (cmp_gt_of_lt hlt)
      simp only [List.dropWhile, hb]
      rw [List.filter_cons_of_neg (by simp [hnp])]
      exact ih hs'.2
    · have hb' : below p x = false := by simpa using hb
      simp only [List.dropWhile, hb']
      apply takeWhile_eq_filter p _ hs
      have hxp : Bytes.cmp p x.1 ≠ .gt := by
        intro h2
        have := cmp_lt_of_gt h2
        simp [below, this] at hb'
      intro e he
      simp only [List.mem_cons] at he
      rcases he with rfl | he
      · exact hxp
      · intro h2
        have h3 := cmp_lt_of_gt h2
        have h4 := Bytes.cmp_lt_trans (hs'.1 e he) h3
        exact hxp (cmp_gt_of_lt h4)

/-- `AscendPrefix(p)` yields exactly the entries whose key has prefix `p`, in key order -/
theorem ascendPrefix_eq (t : Tree) (h : BST t) (p : Bytes) :
    ascendPrefix t p = (toList t).filter (fun e => Bytes.hasPrefix e.1 p) := by
  unfold ascendPrefix
  obtain ⟨a, b⟩ := seek_seq p t [] h
  rw [walk_eq p _ _ (by simp [weight] at b; omega), a]
  simp only [stackSeq, List.append_nil]
  exact takeWhile_dropWhile_eq_filter p _ h

theorem run_aux (ops : List (Bytes × Bytes × Nat)) (t : Tree) (l : List (Bytes × Bytes))
    (hb : BST t) (hl : toList t = l) :
    BST (ops.foldl (fun t o => (put o.1 o.2.1 o.2.2 t).2) t) ∧
    toList (ops.foldl (fun t o => (put o.1 o.2.1 o.2.2 t).2) t) =
      ops.foldl (fun l o => specPut o.1 o.2.1 l) l := by
  induction ops generalizing t l with
  | nil => exact ⟨hb, hl⟩
  | cons o ops ih =>
    simp only [List.foldl_cons]
    obtain ⟨_, h2, h3⟩ := put_spec o.1 o.2.1 o.2.2 t hb
    exact ih _ _ h3 (by rw [h2, hl])


/-! ### in-place update and replacement from inside a scan -/

theorem map_unchanged (k v : Bytes) (l : List KV) (h : ∀ e ∈ l, e.1 ≠ k) :
    l.map (fun e => if e.1 = k then (k, v) else e) = l := by
  induction l with
  | nil => rfl
  | cons x xs ih =>
    simp only [List.map_cons, if_neg (h x List.mem_cons_self)]
    rw [ih (fun e he => h e (List.mem_cons_of_mem _ he))]

/-- the replacement branch rewrites exactly the entry of the key (and nothing when the key is absent) -/
theorem replace_toList_map (k v : Bytes) (t : Tree) (h : BST t) :
    toList (replace k v t) = (toList t).map (fun e => if e.1 = k then (k, v) else e) := by
  induction t with
  | nil => rfl
  | node l ck cv cr r ihl ihr =>
    obtain ⟨hl, hr, hlk, hrk⟩ := bst_node h
    simp only [replace]
    cases hc : Bytes.cmp k ck with
    | eq =>
      have hk : k = ck := Bytes.cmp_eq_iff.mp hc
      simp only [toList, List.map_append, List.map_cons]
      rw [map_unchanged k v _ (fun e he => by rw [hk]; exact cmp_ne_of_lt (hlk e he)),
        map_unchanged k v _ (fun e he => by rw [hk]; exact fun e2 => cmp_ne_of_lt (hrk e he) e2.symm)]
      simp [hk]
    | lt =>
      simp only [toList, List.map_append, List.map_cons]
      rw [ihl hl, map_unchanged k v (toList r)
        (fun e he => fun e2 => cmp_ne_of_lt (Bytes.cmp_lt_trans hc (hrk e he)) e2.symm)]
      have : ck ≠ k := fun e => cmp_ne_of_lt hc e.symm
      simp [this]
    | gt =>
      have hgt := cmp_lt_of_gt hc
      simp only [toList, List.map_append, List.map_cons]
      rw [ihr hr, map_unchanged k v (toList l) (fun e he => cmp_ne_of_lt (Bytes.cmp_lt_trans (hlk e he) hgt))]
      have : ck ≠ k := cmp_ne_of_lt hgt
      simp [this]

theorem sorted_map_keys (l : List KV) (g : KV → KV) (hg : ∀ e, (g e).1 = e.1) (h : Sorted l) : Sorted (l.map g) := by
  unfold Sorted at *
  rw [List.pairwise_map]
  exact h.imp (fun hab => by unfold KLt at *; rw [hg, hg]; exact hab)

theorem replace_bst (k v : Bytes) (t : Tree) (h : BST t) : BST (replace k v t) := by
  unfold BST
  rw [replace_toList_map k v t h]
  exact sorted_map_keys _ _ (by intro e; split <;> simp_all) h

theorem reput_spec (k v : Bytes) (t : Tree) (h : BST t) :
    (reput k v t).1 = (specGet k (toList t)).map (fun _ => v) ∧
    toList (reput k v t).2 = specStep (toList t) (.reput k v) ∧ BST (reput k v t).2 := by
  have hget := get_eq k t h
  unfold reput
  cases hg : get k t with
  | some old =>
    simp only [specStep]
    rw [← hget, hg]
    refine ⟨rfl, ?_, replace_bst k v t h⟩
    simp only [Option.isSome_some, if_true]
    exact replace_toList k v t h old hg
  | none =>
    simp only [specStep]
    rw [← hget, hg]
    exact ⟨rfl, by simp, h⟩

theorem fold_replace (v : Bytes) (ks : List Bytes) (t : Tree) (h : BST t) :
    BST (ks.foldl (fun t k => replace k v t) t) ∧
    toList (ks.foldl (fun t k => replace k v t) t) = (toList t).map (fun e => if e.1 ∈ ks then (e.1, v) else e) := by
  induction ks generalizing t with
  | nil => simp [h]
  | cons k ks ih =>
    simp only [List.foldl_cons]
    obtain ⟨a, b⟩ := ih (replace k v t) (replace_bst k v t h)
    refine ⟨a, ?_⟩
    rw [b, replace_toList_map k v t h, List.map_map]
    apply List.map_congr_left
    intro e _
    simp only [Function.comp_def, List.mem_cons]
    by_cases hk : e.1 = k
    · simp [hk]
    · simp [hk]

/-- replacing every yielded key from inside the scan: the scan still yields exactly the entries with the prefix
(of the state before), and afterwards exactly those entries carry the new value -/
theorem ascendPut_spec (p v : Bytes) (t : Tree) (h : BST t) :
    (ascendPut p v t).1 = (toList t).filter (fun e => Bytes.hasPrefix e.1 p) ∧
    toList (ascendPut p v t).2 = specStep (toList t) (.ascPut p v) ∧ BST (ascendPut p v t).2 := by
  have hasc := ascendPrefix_eq t h p
  unfold ascendPut
  simp only []
  have hfold : (ascendPrefix t p).foldl (fun t e => replace e.1 v t) t =
      ((ascendPrefix t p).map Prod.fst).foldl (fun t k => replace k v t) t := by
    rw [List.foldl_map]
  rw [hfold]
  obtain ⟨a, b⟩ := fold_replace v ((ascendPrefix t p).map Prod.fst) t h
  refine ⟨hasc, ?_, a⟩
  rw [b]
  simp only [specStep]
  apply List.map_congr_left
  intro e he
  have : e.1 ∈ (ascendPrefix t p).map Prod.fst ↔ Bytes.hasPrefix e.1 p = true := by
    rw [hasc]
    simp only [List.mem_map, List.mem_filter]
    constructor
    · rintro ⟨e', ⟨_, hp'⟩, he'⟩; rw [← he']; exact hp'
    · intro hp'; exact ⟨e, ⟨he, hp'⟩, rfl⟩
  by_cases hp' : Bytes.hasPrefix e.1 p = true
  · rw [if_pos (this.mpr hp'), if_pos hp']
  · rw [if_neg (fun hh => hp' (this.mp hh)), if_neg hp']

theorem step_spec (t : Tree) (o : Op) (h : BST t) :
    BST (step t o) ∧ toList (step t o) = specStep (toList t) o := by
  cases o with
  | put k v rank => obtain ⟨_, b, c⟩ := put_spec k v rank t h; exact ⟨c, b⟩
  | reput k v => obtain ⟨_, b, c⟩ := reput_spec k v t h; exact ⟨c, b⟩
  | ascPut p v => obtain ⟨_, b, c⟩ := ascendPut_spec p v t h; exact ⟨c, b⟩

theorem runOps_spec (ops : List Op) : BST (runOps ops) ∧ toList (runOps ops) = specRunOps ops := by
  have key : ∀ (t : Tree) (l : List KV), BST t → toList t = l →
      BST (ops.foldl step t) ∧ toList (ops.foldl step t) = ops.foldl specStep l := by
    induction ops with
    | nil => intro t l a b; exact ⟨a, b⟩
    | cons o ops ih =>
      intro t l a b
      obtain ⟨c, d⟩ := step_spec t o a
      exact ih _ _ c (by rw [d, b])
  exact key nil [] (by simp [BST, Sorted, toList]) rfl

/-! ### a consumer that stops early sees a prefix -/

theorem walkN_eq (p : Bytes) (fuel n : Nat) (hn : 1 ≤ n) (s : List Tree) :
    walkN p fuel n s = (walk p fuel s).take n := by
  induction fuel generalizing n s with
  | zero => simp [walkN, walk]
  | succ fuel ih =>
    cases s with
    | nil => simp [walkN, walk]
    | cons t s =>
      cases t with
      | nil => simp only [walkN, walk]; exact ih n hn s
      | node l k v rk r =>
        simp only [walkN, walk]
        by_cases hk : Bytes.hasPrefix k p = true
        · rw [if_pos hk, if_pos hk]
          by_cases h1 : n ≤ 1
          · rw [if_pos h1]
            have : n = 1 := by omega
            subst this; simp
          · rw [if_neg h1, ih (n - 1) (by omega)]
            have : n = (n - 1) + 1 := by omega
            rw [this, List.take_succ_cons]; simp
        · rw [if_neg hk, if_neg hk]; simp

theorem ascendPrefixN_eq (t : Tree) (p : Bytes) (n : Nat) (hn : 1 ≤ n) :
    ascendPrefixN t p n = (ascendPrefix t p).take n := walkN_eq p _ n hn _

end Rxn.ZipTree
