import RxnModel.Model.Ckpt
/-!
# Checkpoint files invariant (`Rxn.Ckpt`)

`FInv` relates the volatile checkpoint bookkeeping of a DKV instance to the persistent files: every table
referenced by the live level list or by a retained checkpoint has its file, every retained checkpoint whose
handle was returned (`done`) has its WAL file and its entry in the `checkpoints` document.  The invariant holds
initially, is preserved by every action (including `crash` and `open`), and gives `load_of_done`: such a
checkpoint loads back from the files as exactly the record held in memory.
-/
namespace Rxn.Ckpt
open Rxn Rxn.Lsm

/-! ### `assoc` -/

theorem assoc_cons_eq {α : Type} (k : Nat) (v : α) (l : List (Nat × α)) : assoc ((k, v) :: l) k = some v := by
  simp only [assoc, if_true]

theorem assoc_cons_ne {α : Type} {k x : Nat} (v : α) (l : List (Nat × α)) (h : k ≠ x) :
    assoc ((k, v) :: l) x = assoc l x := by
  simp only [assoc, if_neg h]

theorem assoc_append_of_not_mem {α : Type} (new old : List (Nat × α)) (x : Nat)
    (h : ∀ p ∈ new, p.1 ≠ x) : assoc (new ++ old) x = assoc old x := by
  induction new with
  | nil => rfl
  | cons p ps ih =>
    obtain ⟨k, v⟩ := p
    have hk : k ≠ x := h (k, v) List.mem_cons_self
    rw [List.cons_append, assoc_cons_ne v _ hk]
    exact ih (fun q hq => h q (List.mem_cons_of_mem _ hq))

theorem assoc_filter {α : Type} (l : List (Nat × α)) (ids : List Nat) (x : Nat) (h : x ∉ ids) :
    assoc (l.filter (fun p => !ids.contains p.1)) x = assoc l x := by
  induction l with
  | nil => rfl
  | cons p ps ih =>
    obtain ⟨k, v⟩ := p
    rw [List.filter_cons]
    by_cases hk : k = x
    · subst hk
      have hc : (!ids.contains k) = true := by simpa using h
      rw [if_pos hc, assoc_cons_eq, assoc_cons_eq]
    · split
      · rw [assoc_cons_ne v _ hk, assoc_cons_ne v _ hk]; exact ih
      · rw [assoc_cons_ne v _ hk]; exact ih

/-! ### table numbering -/

theorem mkTables_nil (start : Nat) : mkTables start [] = [] := rfl

theorem mkTables_cons (start : Nat) (r : Run) (rs : List Run) :
    mkTables start (r :: rs) = ⟨start, r⟩ :: mkTables (start + 1) rs := by
  simp only [mkTables, List.length_cons, List.range_succ_eq_map, List.zipWith_cons_cons,
    List.zipWith_map_left, Nat.add_zero]
  congr 2
  funext i r'
  congr 1
  omega

theorem mkTables_mem (runs : List Run) : ∀ (start : Nat) (t : Tbl), t ∈ mkTables start runs →
    start ≤ t.id ∧ t.id < start + runs.length := by
  induction runs with
  | nil => intro start t ht; rw [mkTables_nil] at ht; cases ht
  | cons r rs ih =>
    intro start t ht
    rw [mkTables_cons, List.mem_cons] at ht
    rcases ht with rfl | ht
    · simp only [List.length_cons]; omega
    · have := ih (start + 1) t ht
      simp only [List.length_cons]; omega

theorem mkTables_assoc (runs : List Run) : ∀ (start : Nat) (old : List (Nat × Run)) (t : Tbl),
    t ∈ mkTables start runs →
    assoc ((mkTables start runs).map (fun t => (t.id, t.run)) ++ old) t.id = some t.run := by
  induction runs with
  | nil => intro start old t ht; rw [mkTables_nil] at ht; cases ht
  | cons r rs ih =>
    intro start old t ht
    rw [mkTables_cons] at ht ⊢
    rw [List.mem_cons] at ht
    rw [List.map_cons, List.cons_append]
    rcases ht with rfl | ht
    · exact assoc_cons_eq _ _ _
    · have hlt := (mkTables_mem rs (start + 1) t ht).1
      have hne : start ≠ t.id := by omega
      rw [assoc_cons_ne _ _ hne]
      exact ih (start + 1) old t ht

theorem mem_addAt (ts : List Tbl) : ∀ (levels : List (List Tbl)) (lvl : Nat) (t : Tbl),
    t ∈ (addAt levels lvl ts).flatten → t ∈ levels.flatten ∨ t ∈ ts := by
  intro levels
  induction levels with
  | nil => intro lvl t ht; simp only [addAt, List.modify_nil] at ht; exact Or.inl ht
  | cons l ls ih =>
    intro lvl t ht
    cases lvl with
    | zero =>
      simp only [addAt, List.modify_zero_cons, List.flatten_cons, List.mem_append] at ht ⊢
      rcases ht with (h | h) | h
      · exact Or.inl (Or.inl h)
      · exact Or.inr h
      · exact Or.inl (Or.inr h)
    | succ n =>
      simp only [addAt, List.modify_succ_cons, List.flatten_cons, List.mem_append] at ht ⊢
      rcases ht with h | h
      · exact Or.inl (Or.inl h)
      · rcases ih n t h with h' | h'
        · exact Or.inl (Or.inr h')
        · exact Or.inr h'

theorem mem_removeIds (rm : List Nat) (levels : List (List Tbl)) (t : Tbl)
    (ht : t ∈ (removeIds rm levels).flatten) : t ∈ levels.flatten := by
  simp only [removeIds, List.mem_flatten, List.mem_map] at ht ⊢
  obtain ⟨l', ⟨l, hl, rfl⟩, htl⟩ := ht
  exact ⟨l, hl, (List.mem_filter.1 htl).1⟩

theorem lt_tablesNextId : ∀ (ts : List Tbl) (t : Tbl), t ∈ ts → t.id < tablesNextId ts := by
  intro ts
  induction ts with
  | nil => intro t ht; cases ht
  | cons x xs ih =>
    intro t ht
    simp only [tablesNextId]
    rcases List.mem_cons.1 ht with rfl | h
    · omega
    · have := ih t h; omega

/-! ### the invariant -/

/-- every table of the level list is numbered below the allocator and its file holds its run -/
def TablesOk (f : Files) (next : Nat) (lv : List (List Tbl)) : Prop :=
  ∀ t ∈ lv.flatten, t.id < next ∧ assoc f.tables t.id = some t.run

/-- the checkpoint's WAL file holds its records -/
def WalOk (f : Files) (c : Ckpt) : Prop := assoc f.wals c.walId = some c.recs

/-- the document holds the checkpoint's entry -/
def DocOk (f : Files) (c : Ckpt) : Prop :=
  ∃ d, f.doc = some d ∧ d.find? (fun cd => cd.id == c.id) = some c.doc

structure FInv (s : State) : Prop where
  live : TablesOk s.files s.db.nextId s.db.levels
  ck : ∀ c ∈ s.ckpts, TablesOk s.files s.db.nextId c.levels
  idinj : ∀ c ∈ s.ckpts, ∀ c' ∈ s.ckpts, c.id = c'.id → c = c'
  cused : ∀ c ∈ s.ckpts, c.id ∈ s.used
  tused : ∀ t ∈ s.tasks, t.id ∈ s.used
  dused : ∀ i ∈ s.done, i ∈ s.used
  tinj : ∀ t ∈ s.tasks, ∀ t' ∈ s.tasks, t.id = t'.id → t.walId = t'.walId ∧ t.recs = t'.recs
  wltc : ∀ c ∈ s.ckpts, c.walId < s.wal.id
  wltp : ∀ c ∈ s.pending, c.walId < s.wal.id
  wltt : ∀ t ∈ s.tasks, t.walId < s.wal.id
  winj : ∀ c ∈ s.ckpts, ∀ c' ∈ s.ckpts, c.walId = c'.walId → c.id = c'.id
  wdisj : ∀ c ∈ s.ckpts, ∀ p ∈ s.pending, c.walId ≠ p.walId
  t1 : ∀ t ∈ s.tasks, ∀ c ∈ s.ckpts, c.walId = t.walId → c.recs = t.recs
  t3 : ∀ t ∈ s.tasks, ∀ c ∈ s.ckpts, c.id = t.id → c.walId = t.walId
  t2 : ∀ t ∈ s.tasks, t.walSaved = true → ∀ c ∈ s.ckpts, c.walId = t.walId → WalOk s.files c
  dn : ∀ c ∈ s.ckpts, c.id ∈ s.done → WalOk s.files c ∧ DocOk s.files c

theorem tablesOk_files {f f' : Files} {n : Nat} {lv : List (List Tbl)} (h : f'.tables = f.tables)
    (H : TablesOk f n lv) : TablesOk f' n lv := by
  intro t ht; rw [h]; exact H t ht

theorem walOk_files {f f' : Files} {c : Ckpt} (h : f'.wals = f.wals) (H : WalOk f c) : WalOk f' c := by
  unfold WalOk; rw [h]; exact H

theorem docOk_files {f f' : Files} {c : Ckpt} (h : f'.doc = f.doc) (H : DocOk f c) : DocOk f' c := by
  unfold DocOk; rw [h]; exact H

theorem finv_init : FInv ({} : State) := by
  constructor
  · intro t ht; simp at ht
  all_goals (intro x hx; cases hx)

/-! ### steps that do not touch files or bookkeeping -/

/-- everything the invariant looks at is unchanged -/
structure Frame (s s' : State) : Prop where
  files : s'.files = s.files
  ckpts : s'.ckpts = s.ckpts
  pending : s'.pending = s.pending
  tasks : s'.tasks = s.tasks
  done : s'.done = s.done
  used : s'.used = s.used
  levels : s'.db.levels = s.db.levels
  nextId : s'.db.nextId = s.db.nextId
  walId : s'.wal.id = s.wal.id

theorem Frame.refl (s : State) : Frame s s := ⟨rfl, rfl, rfl, rfl, rfl, rfl, rfl, rfl, rfl⟩

theorem Frame.trans {a b c : State} (h1 : Frame a b) (h2 : Frame b c) : Frame a c :=
  ⟨h2.files.trans h1.files, h2.ckpts.trans h1.ckpts, h2.pending.trans h1.pending, h2.tasks.trans h1.tasks,
   h2.done.trans h1.done, h2.used.trans h1.used, h2.levels.trans h1.levels, h2.nextId.trans h1.nextId,
   h2.walId.trans h1.walId⟩

theorem finv_frame {s s' : State} (fr : Frame s s') (h : FInv s) : FInv s' := by
  obtain ⟨hf, hc, hp, ht, hd, hu, hl, hn, hw⟩ := fr
  constructor
  · rw [hf, hn, hl]; exact h.live
  · rw [hf, hn, hc]; exact h.ck
  · rw [hc]; exact h.idinj
  · rw [hc, hu]; exact h.cused
  · rw [ht, hu]; exact h.tused
  · rw [hd, hu]; exact h.dused
  · rw [ht]; exact h.tinj
  · rw [hc, hw]; exact h.wltc
  · rw [hp, hw]; exact h.wltp
  · rw [ht, hw]; exact h.wltt
  · rw [hc]; exact h.winj
  · rw [hc, hp]; exact h.wdisj
  · rw [ht, hc]; exact h.t1
  · rw [ht, hc]; exact h.t3
  · rw [ht, hc, hf]; exact h.t2
  · rw [hc, hd, hf]; exact h.dn

theorem lsm_write_frame {s s' : Lsm.State} {e : Entry} (h : Lsm.write s e = some s') :
    s'.levels = s.levels ∧ s'.nextId = s.nextId := by
  unfold Lsm.write at h
  split at h
  · cases h
  · split at h
    · cases h
    · cases h; exact ⟨rfl, rfl⟩

theorem lsm_putdel_frame {s s' : Lsm.State} (del : Bool) (k v : Bytes)
    (h : Lsm.step s (if del then .del k else .put k v) = some s') :
    s'.levels = s.levels ∧ s'.nextId = s.nextId := by
  cases del
  · simp only [Bool.false_eq_true, if_false, Lsm.step] at h; exact lsm_write_frame h
  · simp only [if_true, Lsm.step] at h; exact lsm_write_frame h

theorem writeStep_frame {s s' : State} {del : Bool} {k v : Bytes} {rot : Bool}
    (h : writeStep s del k v rot = some s') : Frame s s' := by
  unfold writeStep at h
  split at h
  · cases h
  · rename_i db1 hdb
    obtain ⟨hl, hn⟩ := lsm_putdel_frame del k v hdb
    cases rot <;> cases del <;> simp only [if_true, if_false, Bool.false_eq_true] at h <;> cases h <;>
      exact ⟨rfl, rfl, rfl, rfl, rfl, rfl, hl, hn, rfl⟩

theorem replay_frame : ∀ (recs : List Wal.Rec) (rots : List Nat) (s s' : State),
    replay s recs rots = some s' → Frame s s' := by
  intro recs rots
  induction recs with
  | nil => intro s s' h; simp only [replay] at h; cases h; exact Frame.refl s
  | cons r rs ih =>
    intro s s' h
    simp only [replay] at h
    split at h
    · cases h
    · rename_i s1 h1
      exact (writeStep_frame h1).trans (ih s1 s' h)

/-! ### flush commit / compaction: new table files -/

theorem tablesOk_write {f : Files} {n : Nat} {lv lv' : List (List Tbl)} (runs : List Run)
    (h : TablesOk f n lv)
    (hsub : ∀ t ∈ lv'.flatten, t ∈ lv.flatten ∨ t ∈ mkTables n runs) :
    TablesOk (writeTables f (mkTables n runs)) (n + runs.length) lv' := by
  intro t ht
  rcases hsub t ht with ht | ht
  · obtain ⟨h1, h2⟩ := h t ht
    refine ⟨by omega, ?_⟩
    show assoc ((mkTables n runs).map (fun t => (t.id, t.run)) ++ f.tables) t.id = some t.run
    rw [assoc_append_of_not_mem]
    · exact h2
    · intro p hp
      obtain ⟨t', ht', rfl⟩ := List.mem_map.1 hp
      have := (mkTables_mem runs n t' ht').1
      show t'.id ≠ t.id
      omega
  · exact ⟨(mkTables_mem runs n t ht).2, mkTables_assoc runs n f.tables t ht⟩

theorem finv_tables {s s' : State} (runs : List Run) (h : FInv s)
    (hf : s'.files = writeTables s.files (mkTables s.db.nextId runs))
    (hn : s'.db.nextId = s.db.nextId + runs.length)
    (hl : ∀ t ∈ s'.db.levels.flatten, t ∈ s.db.levels.flatten ∨ t ∈ mkTables s.db.nextId runs)
    (hc : s'.ckpts = s.ckpts) (hp : s'.pending = s.pending) (ht : s'.tasks = s.tasks)
    (hd : s'.done = s.done) (hu : s'.used = s.used) (hw : s'.wal.id = s.wal.id) : FInv s' := by
  have hwal : s'.files.wals = s.files.wals := by rw [hf]; rfl
  have hdoc : s'.files.doc = s.files.doc := by rw [hf]; rfl
  constructor
  · rw [hf, hn]; exact tablesOk_write runs h.live hl
  · rw [hf, hn, hc]; intro c hc'; exact tablesOk_write runs (h.ck c hc') (fun t ht => Or.inl ht)
  · rw [hc]; exact h.idinj
  · rw [hc, hu]; exact h.cused
  · rw [ht, hu]; exact h.tused
  · rw [hd, hu]; exact h.dused
  · rw [ht]; exact h.tinj
  · rw [hc, hw]; exact h.wltc
  · rw [hp, hw]; exact h.wltp
  · rw [ht, hw]; exact h.wltt
  · rw [hc]; exact h.winj
  · rw [hc, hp]; exact h.wdisj
  · rw [ht, hc]; exact h.t1
  · rw [ht, hc]; exact h.t3
  · rw [ht, hc]; intro t htm hs c hcm e; exact walOk_files hwal (h.t2 t htm hs c hcm e)
  · rw [hc, hd]; intro c hcm hdm
    obtain ⟨a, b⟩ := h.dn c hcm hdm
    exact ⟨walOk_files hwal a, docOk_files hdoc b⟩

theorem lsm_flushCommit {db db' : Lsm.State} {snap : List Run} (hfl : db.flushing = some snap)
    (h : Lsm.step db .flushCommit = some db') :
    db'.levels = addAt db.levels 0 (mkTables db.nextId snap) ∧ db'.nextId = db.nextId + snap.length := by
  simp only [Lsm.step, hfl] at h
  split at h
  · cases h; exact ⟨rfl, rfl⟩
  · cases h

theorem lsm_compact {db db' : Lsm.State} {rm : List Nat} {lvl : Nat} {add : List Run}
    (h : Lsm.step db (.compact rm lvl add) = some db') :
    db'.levels = addAt (removeIds rm db.levels) lvl (mkTables db.nextId add) ∧
      db'.nextId = db.nextId + add.length := by
  simp only [Lsm.step] at h
  split at h
  · cases h; exact ⟨rfl, rfl⟩
  · cases h

/-! ### `checkpoint` -/

theorem finv_checkpoint {s s' : State} (id : Nat) (h : FInv s) (hid : id ∉ s.used)
    (hf : s'.files = s.files) (hl : s'.db.levels = s.db.levels) (hn : s'.db.nextId = s.db.nextId)
    (hw : s'.wal.id = s.wal.id + 1)
    (hc : s'.ckpts = s.ckpts ++ [capture s id]) (hp : s'.pending = s.pending)
    (ht : s'.tasks = s.tasks ++ [⟨id, s.wal.id, s.wal.entries, false⟩])
    (hd : s'.done = s.done) (hu : s'.used = id :: s.used) : FInv s' := by
  have memc : ∀ c, c ∈ s'.ckpts → c ∈ s.ckpts ∨ c = capture s id := by
    intro c hc'; rw [hc] at hc'; simpa using hc'
  have memt : ∀ t, t ∈ s'.tasks → t ∈ s.tasks ∨ t = (⟨id, s.wal.id, s.wal.entries, false⟩ : Task) := by
    intro t ht'; rw [ht] at ht'; simpa using ht'
  constructor
  · rw [hf, hn, hl]; exact h.live
  · intro c h1; rw [hf, hn]
    rcases memc c h1 with h1 | rfl
    · exact h.ck c h1
    · exact h.live
  · intro c h1 c' h2 e
    rcases memc c h1 with h1 | rfl <;> rcases memc c' h2 with h2 | rfl
    · exact h.idinj c h1 c' h2 e
    · have e' : c.id = id := e
      have := h.cused c h1; rw [e'] at this; exact absurd this hid
    · have e' : id = c'.id := e
      have := h.cused c' h2; rw [← e'] at this; exact absurd this hid
    · rfl
  · intro c h1; rw [hu]
    rcases memc c h1 with h1 | rfl
    · exact List.mem_cons_of_mem _ (h.cused c h1)
    · exact List.mem_cons_self
  · intro t h1; rw [hu]
    rcases memt t h1 with h1 | rfl
    · exact List.mem_cons_of_mem _ (h.tused t h1)
    · exact List.mem_cons_self
  · rw [hd, hu]; intro i hi; exact List.mem_cons_of_mem _ (h.dused i hi)
  · intro t h1 t' h2 e
    rcases memt t h1 with h1 | rfl <;> rcases memt t' h2 with h2 | rfl
    · exact h.tinj t h1 t' h2 e
    · have e' : t.id = id := e
      have := h.tused t h1; rw [e'] at this; exact absurd this hid
    · have e' : id = t'.id := e
      have := h.tused t' h2; rw [← e'] at this; exact absurd this hid
    · exact ⟨rfl, rfl⟩
  · intro c h1; rw [hw]
    rcases memc c h1 with h1 | rfl
    · have := h.wltc c h1; omega
    · show s.wal.id < s.wal.id + 1; omega
  · rw [hp, hw]; intro c h1; have := h.wltp c h1; omega
  · intro t h1; rw [hw]
    rcases memt t h1 with h1 | rfl
    · have := h.wltt t h1; omega
    · show s.wal.id < s.wal.id + 1; omega
  · intro c h1 c' h2 e
    rcases memc c h1 with h1 | rfl <;> rcases memc c' h2 with h2 | rfl
    · exact h.winj c h1 c' h2 e
    · have e' : c.walId = s.wal.id := e
      have := h.wltc c h1; omega
    · have e' : s.wal.id = c'.walId := e
      have := h.wltc c' h2; omega
    · rfl
  · intro c h1 p h2; rw [hp] at h2
    rcases memc c h1 with h1 | rfl
    · exact h.wdisj c h1 p h2
    · intro e
      have e' : s.wal.id = p.walId := e
      have := h.wltp p h2; omega
  · intro t h1 c h2 e
    rcases memt t h1 with h1 | rfl <;> rcases memc c h2 with h2 | rfl
    · exact h.t1 t h1 c h2 e
    · have e' : s.wal.id = t.walId := e
      have := h.wltt t h1; omega
    · have e' : c.walId = s.wal.id := e
      have := h.wltc c h2; omega
    · rfl
  · intro t h1 c h2 e
    rcases memt t h1 with h1 | rfl <;> rcases memc c h2 with h2 | rfl
    · exact h.t3 t h1 c h2 e
    · have e' : id = t.id := e
      have := h.tused t h1; rw [← e'] at this; exact absurd this hid
    · have e' : c.id = id := e
      have := h.cused c h2; rw [e'] at this; exact absurd this hid
    · rfl
  · intro t h1 hs c h2 e; rw [hf]
    rcases memt t h1 with h1 | rfl
    · rcases memc c h2 with h2 | rfl
      · exact h.t2 t h1 hs c h2 e
      · have e' : s.wal.id = t.walId := e
        have := h.wltt t h1; omega
    · exact absurd hs Bool.false_ne_true
  · intro c h1 hdm; rw [hd] at hdm; rw [hf]
    rcases memc c h1 with h1 | rfl
    · exact h.dn c h1 hdm
    · exact absurd (h.dused _ hdm) hid

/-! ### `saveWal` -/

theorem mem_markSaved {tasks : List Task} {id : Nat} {t' : Task}
    (h : t' ∈ tasks.map (fun t' => if t'.id == id then { t' with walSaved := true } else t')) :
    ∃ t0 ∈ tasks, t'.id = t0.id ∧ t'.walId = t0.walId ∧ t'.recs = t0.recs ∧
      (t'.walSaved = true → t0.walSaved = true ∨ t0.id = id) := by
  obtain ⟨t0, h0, rfl⟩ := List.mem_map.1 h
  refine ⟨t0, h0, ?_⟩
  split
  · rename_i hb; exact ⟨rfl, rfl, rfl, fun _ => Or.inr (by simpa using hb)⟩
  · exact ⟨rfl, rfl, rfl, fun h => Or.inl h⟩

theorem walOk_cons {f f' : Files} {c : Ckpt} {k : Nat} {r : List Wal.Rec}
    (hw : f'.wals = (k, r) :: f.wals) (hk : c.walId = k → c.recs = r)
    (hold : c.walId ≠ k → WalOk f c) : WalOk f' c := by
  unfold WalOk; rw [hw]
  by_cases e : k = c.walId
  · subst e; rw [assoc_cons_eq, hk rfl]
  · rw [assoc_cons_ne _ _ e]; exact hold (fun e' => e e'.symm)

theorem finv_saveWal {s s' : State} (id : Nat) (t : Task) (h : FInv s) (htm : t ∈ s.tasks)
    (hti : t.id = id)
    (hf1 : s'.files.tables = s.files.tables) (hf2 : s'.files.wals = (t.walId, t.recs) :: s.files.wals)
    (hf3 : s'.files.doc = s.files.doc)
    (hl : s'.db.levels = s.db.levels) (hn : s'.db.nextId = s.db.nextId) (hw : s'.wal.id = s.wal.id)
    (hc : s'.ckpts = s.ckpts) (hp : s'.pending = s.pending)
    (ht : s'.tasks = s.tasks.map (fun t' => if t'.id == id then { t' with walSaved := true } else t'))
    (hd : s'.done = s.done) (hu : s'.used = s.used) : FInv s' := by
  have memt : ∀ t', t' ∈ s'.tasks → ∃ t0 ∈ s.tasks, t'.id = t0.id ∧ t'.walId = t0.walId ∧
      t'.recs = t0.recs ∧ (t'.walSaved = true → t0.walSaved = true ∨ t0.id = id) := by
    intro t' h'; rw [ht] at h'; exact mem_markSaved h'
  have wal_keep : ∀ c ∈ s.ckpts, (c.walId ≠ t.walId → WalOk s.files c) → WalOk s'.files c := by
    intro c hcm hold
    exact walOk_cons hf2 (fun e => h.t1 t htm c hcm e) hold
  constructor
  · rw [hn, hl]; exact tablesOk_files hf1 h.live
  · rw [hn, hc]; intro c hcm; exact tablesOk_files hf1 (h.ck c hcm)
  · rw [hc]; exact h.idinj
  · rw [hc, hu]; exact h.cused
  · rw [hu]; intro a ha
    obtain ⟨a0, ha0, a1, _⟩ := memt a ha
    rw [a1]; exact h.tused a0 ha0
  · rw [hd, hu]; exact h.dused
  · intro a ha b hb e
    obtain ⟨a0, ha0, a1, a2, a3, _⟩ := memt a ha
    obtain ⟨b0, hb0, b1, b2, b3, _⟩ := memt b hb
    rw [a2, a3, b2, b3]
    exact h.tinj a0 ha0 b0 hb0 (by rw [← a1, ← b1]; exact e)
  · rw [hc, hw]; exact h.wltc
  · rw [hp, hw]; exact h.wltp
  · rw [hw]; intro a ha
    obtain ⟨a0, ha0, _, a2, _⟩ := memt a ha
    rw [a2]; exact h.wltt a0 ha0
  · rw [hc]; exact h.winj
  · rw [hc, hp]; exact h.wdisj
  · rw [hc]; intro a ha c hcm e
    obtain ⟨a0, ha0, _, a2, a3, _⟩ := memt a ha
    rw [a3]; rw [a2] at e; exact h.t1 a0 ha0 c hcm e
  · rw [hc]; intro a ha c hcm e
    obtain ⟨a0, ha0, a1, a2, _⟩ := memt a ha
    rw [a2]; rw [a1] at e; exact h.t3 a0 ha0 c hcm e
  · rw [hc]; intro a ha hs c hcm e
    obtain ⟨a0, ha0, _, a2, _, a4⟩ := memt a ha
    apply wal_keep c hcm
    intro hne
    rcases a4 hs with hs0 | hid0
    · exact h.t2 a0 ha0 hs0 c hcm (by rw [← a2]; exact e)
    · exfalso; apply hne
      have := (h.tinj a0 ha0 t htm (by rw [hid0, hti])).1
      rw [e, a2, this]
  · rw [hc, hd]; intro c hcm hdm
    obtain ⟨a, b⟩ := h.dn c hcm hdm
    exact ⟨wal_keep c hcm (fun _ => a), docOk_files hf3 b⟩

/-! ### `CheckpointList.Save` -/

theorem walOk_destroy {f : Files} {c : Ckpt} (x : Nat) (hw : WalOk f c) (hn : c.walId ≠ x) :
    assoc (f.wals.filter (fun q => !([x]).contains q.1)) c.walId = some c.recs := by
  rw [assoc_filter]
  · exact hw
  · intro hm; simp at hm; exact hn hm

theorem find_doc : ∀ (cs : List Ckpt), (∀ c ∈ cs, ∀ c' ∈ cs, c.id = c'.id → c = c') →
    ∀ c ∈ cs, (cs.map Ckpt.doc).find? (fun cd => cd.id == c.id) = some c.doc := by
  intro cs
  induction cs with
  | nil => intro _ c hc; cases hc
  | cons x xs ih =>
    intro hinj c hc
    rw [List.map_cons, List.find?_cons]
    by_cases hx : x.id = c.id
    · have hxc : x = c := hinj x List.mem_cons_self c hc hx
      subst hxc
      have : (x.doc.id == x.id) = true := by show (x.id == x.id) = true; simp
      rw [this]
    · have hne : (x.doc.id == c.id) = false := by show (x.id == c.id) = false; simpa using hx
      rw [hne]
      have hc' : c ∈ xs := by
        rcases List.mem_cons.1 hc with e | h'
        · exact absurd (by rw [e]) hx
        · exact h'
      exact ih (fun a ha b hb e => hinj a (List.mem_cons_of_mem _ ha) b (List.mem_cons_of_mem _ hb) e) c hc'

theorem docOk_writeDoc {s : State} (hinj : ∀ c ∈ s.ckpts, ∀ c' ∈ s.ckpts, c.id = c'.id → c = c')
    (c : Ckpt) (hc : c ∈ s.ckpts) : DocOk (writeDoc s).files c :=
  ⟨s.ckpts.map Ckpt.doc, rfl, find_doc s.ckpts hinj c hc⟩

theorem finv_writeDoc {s : State} (h : FInv s) : FInv (writeDoc s) := by
  constructor
  · exact tablesOk_files (f := s.files) rfl h.live
  · intro c hc; exact tablesOk_files (f := s.files) rfl (h.ck c hc)
  · exact h.idinj
  · exact h.cused
  · exact h.tused
  · exact h.dused
  · exact h.tinj
  · exact h.wltc
  · exact h.wltp
  · exact h.wltt
  · exact h.winj
  · exact h.wdisj
  · exact h.t1
  · exact h.t3
  · intro t ht hs c hc e; exact walOk_files (f := s.files) rfl (h.t2 t ht hs c hc e)
  · intro c hc hd
    obtain ⟨a, _⟩ := h.dn c hc hd
    exact ⟨walOk_files (f := s.files) rfl a, docOk_writeDoc h.idinj c hc⟩

theorem finv_destroy {s s' : State} (h : FInv s) (hs : destroyOne s = some s') : FInv s' := by
  unfold destroyOne at hs
  split at hs
  · cases hs
  · rename_i p ps hp
    simp only [Option.some.injEq] at hs
    subst hs
    have hmem : ∀ q ∈ ps, q ∈ s.pending := by intro q hq; rw [hp]; exact List.mem_cons_of_mem _ hq
    have hpm : p ∈ s.pending := by rw [hp]; exact List.mem_cons_self
    constructor
    · exact tablesOk_files (f := s.files) rfl h.live
    · intro c hc; exact tablesOk_files (f := s.files) rfl (h.ck c hc)
    · exact h.idinj
    · exact h.cused
    · exact h.tused
    · exact h.dused
    · exact h.tinj
    · exact h.wltc
    · intro q hq; exact h.wltp q (hmem q hq)
    · exact h.wltt
    · exact h.winj
    · intro c hc q hq; exact h.wdisj c hc q (hmem q hq)
    · exact h.t1
    · exact h.t3
    · intro t ht hst c hc e; exact walOk_destroy p.walId (h.t2 t ht hst c hc e) (h.wdisj c hc p hpm)
    · intro c hc hd
      obtain ⟨a, b⟩ := h.dn c hc hd
      exact ⟨walOk_destroy p.walId a (h.wdisj c hc p hpm), docOk_files (f := s.files) rfl b⟩

/-! ### `saveDoc` (after the save) and `retain` (before the save) -/

theorem finv_saveDoc {s s' : State} (id : Nat) (t : Task) (h : FInv s) (htm : t ∈ s.tasks)
    (hti : t.id = id) (hts : t.walSaved = true) (hdoc : ∀ c ∈ s.ckpts, DocOk s.files c)
    (hf : s'.files = s.files) (hl : s'.db.levels = s.db.levels) (hn : s'.db.nextId = s.db.nextId)
    (hw : s'.wal.id = s.wal.id) (hc : s'.ckpts = s.ckpts) (hp : s'.pending = s.pending)
    (ht : s'.tasks = s.tasks.filter (fun t => !(t.id == id))) (hd : s'.done = id :: s.done)
    (hu : s'.used = s.used) : FInv s' := by
  have memt : ∀ a, a ∈ s'.tasks → a ∈ s.tasks := by
    intro a ha; rw [ht] at ha; exact (List.mem_filter.1 ha).1
  constructor
  · rw [hf, hn, hl]; exact h.live
  · rw [hf, hn, hc]; exact h.ck
  · rw [hc]; exact h.idinj
  · rw [hc, hu]; exact h.cused
  · rw [hu]; intro a ha; exact h.tused a (memt a ha)
  · rw [hd, hu]; intro i hi
    rcases List.mem_cons.1 hi with e | hi
    · rw [e, ← hti]; exact h.tused t htm
    · exact h.dused i hi
  · intro a ha b hb e; exact h.tinj a (memt a ha) b (memt b hb) e
  · rw [hc, hw]; exact h.wltc
  · rw [hp, hw]; exact h.wltp
  · rw [hw]; intro a ha; exact h.wltt a (memt a ha)
  · rw [hc]; exact h.winj
  · rw [hc, hp]; exact h.wdisj
  · rw [hc]; intro a ha; exact h.t1 a (memt a ha)
  · rw [hc]; intro a ha; exact h.t3 a (memt a ha)
  · rw [hc, hf]; intro a ha; exact h.t2 a (memt a ha)
  · rw [hc, hd, hf]; intro c hcm hdm
    rcases List.mem_cons.1 hdm with e | hdm
    · have e3 := h.t3 t htm c hcm (by rw [e, hti])
      exact ⟨h.t2 t htm hts c hcm e3, hdoc c hcm⟩
    · exact h.dn c hcm hdm

theorem finv_retain_pre {s s' : State} (ids : List Nat) (h : FInv s)
    (hf : s'.files = s.files) (hl : s'.db.levels = s.db.levels) (hn : s'.db.nextId = s.db.nextId)
    (hw : s'.wal.id = s.wal.id)
    (hc : s'.ckpts = s.ckpts.filter (fun c => keeps ids c.id))
    (hp : s'.pending = s.pending ++ s.ckpts.filter (fun c => !keeps ids c.id))
    (ht : s'.tasks = s.tasks) (hd : s'.done = s.done) (hu : s'.used = s.used) : FInv s' := by
  have memc : ∀ c, c ∈ s'.ckpts → c ∈ s.ckpts ∧ keeps ids c.id = true := by
    intro c hc'; rw [hc] at hc'; exact List.mem_filter.1 hc'
  have memp : ∀ p, p ∈ s'.pending → p ∈ s.pending ∨ (p ∈ s.ckpts ∧ keeps ids p.id = false) := by
    intro p hp'; rw [hp] at hp'
    rcases List.mem_append.1 hp' with h' | h'
    · exact Or.inl h'
    · obtain ⟨a, b⟩ := List.mem_filter.1 h'
      exact Or.inr ⟨a, by simpa using b⟩
  constructor
  · rw [hf, hn, hl]; exact h.live
  · rw [hf, hn]; intro c hc'; exact h.ck c (memc c hc').1
  · intro a ha b hb e; exact h.idinj a (memc a ha).1 b (memc b hb).1 e
  · rw [hu]; intro c hc'; exact h.cused c (memc c hc').1
  · rw [ht, hu]; exact h.tused
  · rw [hd, hu]; exact h.dused
  · rw [ht]; exact h.tinj
  · rw [hw]; intro c hc'; exact h.wltc c (memc c hc').1
  · rw [hw]; intro p hp'
    rcases memp p hp' with h' | ⟨h', _⟩
    · exact h.wltp p h'
    · exact h.wltc p h'
  · rw [ht, hw]; exact h.wltt
  · intro a ha b hb e; exact h.winj a (memc a ha).1 b (memc b hb).1 e
  · intro c h1 p h2 e
    obtain ⟨c1, c2⟩ := memc c h1
    rcases memp p h2 with h2 | ⟨p1, p2⟩
    · exact h.wdisj c c1 p h2 e
    · have := h.winj c c1 p p1 e
      rw [this, p2] at c2
      cases c2
  · rw [ht]; intro t htm c hc'; exact h.t1 t htm c (memc c hc').1
  · rw [ht]; intro t htm c hc'; exact h.t3 t htm c (memc c hc').1
  · rw [ht, hf]; intro t htm hs c hc'; exact h.t2 t htm hs c (memc c hc').1
  · rw [hd, hf]; intro c hc'; exact h.dn c (memc c hc').1

/-! ### loading a checkpoint from the files -/

theorem loadTables_some {tables : List (Nat × Run)} : ∀ (ids : List Nat) (ts : List Tbl),
    loadTables tables ids = some ts →
    (∀ t ∈ ts, assoc tables t.id = some t.run) ∧ ts.map (·.id) = ids := by
  intro ids
  induction ids with
  | nil => intro ts h; simp only [loadTables] at h; cases h; exact ⟨fun t ht => (by cases ht), rfl⟩
  | cons i is ih =>
    intro ts h
    simp only [loadTables] at h
    split at h
    · rename_i r ts' hr hts
      cases h
      obtain ⟨h1, h2⟩ := ih ts' hts
      refine ⟨?_, by rw [List.map_cons, h2]⟩
      intro t ht
      rcases List.mem_cons.1 ht with rfl | ht
      · exact hr
      · exact h1 t ht
    · cases h

theorem loadLevels_some {tables : List (Nat × Run)} : ∀ (ids : List (List Nat)) (lv : List (List Tbl)),
    loadLevels tables ids = some lv →
    (∀ t ∈ lv.flatten, assoc tables t.id = some t.run) ∧ lv.map (·.map (·.id)) = ids := by
  intro ids
  induction ids with
  | nil => intro lv h; simp only [loadLevels] at h; cases h; exact ⟨fun t ht => (by cases ht), rfl⟩
  | cons l ls ih =>
    intro lv h
    simp only [loadLevels] at h
    split at h
    · rename_i ts lv' hts hlv
      cases h
      obtain ⟨h1, h2⟩ := ih lv' hlv
      obtain ⟨g1, g2⟩ := loadTables_some l ts hts
      refine ⟨?_, by rw [List.map_cons, h2, g2]⟩
      intro t ht
      rw [List.flatten_cons, List.mem_append] at ht
      rcases ht with ht | ht
      · exact g1 t ht
      · exact h1 t ht
    · cases h

theorem loadTables_of (tables : List (Nat × Run)) : ∀ ts : List Tbl,
    (∀ t ∈ ts, assoc tables t.id = some t.run) → loadTables tables (ts.map (·.id)) = some ts := by
  intro ts
  induction ts with
  | nil => intro _; rfl
  | cons t ts ih =>
    intro h
    rw [List.map_cons]
    simp only [loadTables]
    rw [h t List.mem_cons_self, ih (fun a ha => h a (List.mem_cons_of_mem _ ha))]

theorem loadLevels_of (tables : List (Nat × Run)) : ∀ lv : List (List Tbl),
    (∀ t ∈ lv.flatten, assoc tables t.id = some t.run) →
    loadLevels tables (lv.map (·.map (·.id))) = some lv := by
  intro lv
  induction lv with
  | nil => intro _; rfl
  | cons l ls ih =>
    intro h
    rw [List.map_cons]
    simp only [loadLevels]
    rw [loadTables_of tables l (fun t ht => h t (by rw [List.flatten_cons]; exact List.mem_append_left _ ht)),
      ih (fun t ht => h t (by rw [List.flatten_cons]; exact List.mem_append_right _ ht))]

theorem loadCkpt_some {f : Files} {id : Nat} {c : Ckpt} (h : loadCkpt f id = some c) :
    c.id = id ∧ (∀ t ∈ c.levels.flatten, assoc f.tables t.id = some t.run) ∧ WalOk f c ∧ DocOk f c := by
  unfold loadCkpt at h
  split at h
  · cases h
  · rename_i d hd
    split at h
    · cases h
    · rename_i cd hcd
      split at h
      · rename_i lv recs hlv hrecs
        cases h
        have hid : cd.id = id := by
          have := List.find?_some hcd
          simpa using this
        obtain ⟨hl1, hl2⟩ := loadLevels_some _ _ hlv
        refine ⟨hid, hl1, hrecs, d, hd, ?_⟩
        have e : (⟨cd.id, lv.map (·.map (·.id)), cd.walId, cd.after, cd.lastSeq⟩ : CkptDoc) = cd := by
          rw [hl2]
        show d.find? (fun cd' => cd'.id == cd.id) = some ⟨cd.id, lv.map (·.map (·.id)), cd.walId, cd.after, cd.lastSeq⟩
        rw [e, hid, hcd]
      · cases h

theorem finv_restoreBase {f : Files} {id : Nat} {c : Ckpt} (h : loadCkpt f id = some c) :
    FInv (restoreBase f c) := by
  obtain ⟨_, htab, hwal, hdoc⟩ := loadCkpt_some h
  have live : TablesOk f (tablesNextId c.levels.flatten) c.levels :=
    fun t ht => ⟨lt_tablesNextId _ t ht, htab t ht⟩
  have one : ∀ a, a ∈ (restoreBase f c).ckpts → a = c := fun a ha => List.mem_singleton.1 ha
  constructor
  · exact live
  · intro a ha; rw [one a ha]; exact live
  · intro a ha b hb _; rw [one a ha, one b hb]
  · intro a ha; rw [one a ha]; exact List.mem_cons_self
  · intro t ht; exact absurd ht List.not_mem_nil
  · intro i hi; exact hi
  · intro t ht; exact absurd ht List.not_mem_nil
  · intro a ha; rw [one a ha]; show c.walId < c.walId + 1; omega
  · intro p hp; exact absurd hp List.not_mem_nil
  · intro t ht; exact absurd ht List.not_mem_nil
  · intro a ha b hb _; rw [one a ha, one b hb]
  · intro _ _ p hp; exact absurd hp List.not_mem_nil
  · intro t ht; exact absurd ht List.not_mem_nil
  · intro t ht; exact absurd ht List.not_mem_nil
  · intro t ht; exact absurd ht List.not_mem_nil
  · intro a ha _; rw [one a ha]; exact ⟨hwal, hdoc⟩

/-! ### every action preserves the invariant -/

theorem finv_open (s s' : State) (id : Nat) (rots : List Nat) (hs : step s (.open id rots) = some s') :
    FInv s' := by
  simp only [step] at hs
  split at hs
  · cases hs
  · rename_i c hc
    unfold restore at hs
    split at hs
    · cases hs
    · exact finv_frame (replay_frame _ _ _ _ hs) (finv_restoreBase hc)

theorem finv_write (s s' : State) (del : Bool) (k v : Bytes) (rot : Bool) (h : FInv s)
    (hs : step s (.write del k v rot) = some s') : FInv s' := by
  simp only [step] at hs
  split at hs
  · cases hs
  · exact finv_frame (writeStep_frame hs) h

theorem finv_flushBegin (s s' : State) (n : Nat) (h : FInv s)
    (hs : step s (.flushBegin n) = some s') : FInv s' := by
  simp only [step] at hs
  split at hs
  · cases hs
  · split at hs
    · cases hs
    · rename_i db' hdb
      cases hs
      have : db'.levels = s.db.levels ∧ db'.nextId = s.db.nextId := by
        simp only [Lsm.step] at hdb
        split at hdb
        · cases hdb
        · split at hdb
          · cases hdb; exact ⟨rfl, rfl⟩
          · cases hdb
      exact finv_frame (s := s) ⟨rfl, rfl, rfl, rfl, rfl, rfl, this.1, this.2, rfl⟩ h

theorem finv_flushCommit (s s' : State) (h : FInv s) (hs : step s .flushCommit = some s') : FInv s' := by
  simp only [step] at hs
  split at hs
  · cases hs
  · split at hs
    · rename_i snap db' hfl hst
      obtain ⟨e1, e2⟩ := lsm_flushCommit hfl hst
      cases hs
      refine finv_tables snap h rfl e2 ?_ rfl rfl rfl rfl rfl rfl
      intro t ht
      have ht' : t ∈ db'.levels.flatten := ht
      rw [e1] at ht'
      exact mem_addAt _ _ _ _ ht'
    · cases hs

theorem finv_compact (s s' : State) (rm : List Nat) (lvl : Nat) (add : List Run) (h : FInv s)
    (hs : step s (.compact rm lvl add) = some s') : FInv s' := by
  simp only [step] at hs
  split at hs
  · cases hs
  · split at hs
    · cases hs
    · rename_i db' hst
      obtain ⟨e1, e2⟩ := lsm_compact hst
      cases hs
      refine finv_tables add h rfl e2 ?_ rfl rfl rfl rfl rfl rfl
      intro t ht
      have ht' : t ∈ db'.levels.flatten := ht
      rw [e1] at ht'
      rcases mem_addAt _ _ _ _ ht' with h' | h'
      · exact Or.inl (mem_removeIds _ _ _ h')
      · exact Or.inr h'

theorem finv_checkpoint_step (s s' : State) (id : Nat) (h : FInv s)
    (hs : step s (.checkpoint id) = some s') : FInv s' := by
  simp only [step] at hs
  split at hs
  · cases hs
  · split at hs
    · cases hs
    · rename_i hnu
      cases hs
      exact finv_checkpoint id h (by simpa using hnu) rfl rfl rfl rfl rfl rfl rfl rfl rfl

theorem finv_saveWal_step (s s' : State) (id : Nat) (h : FInv s)
    (hs : step s (.saveWal id) = some s') : FInv s' := by
  simp only [step] at hs
  split at hs
  · cases hs
  · split at hs
    · cases hs
    · rename_i t hfind
      cases hs
      have htm := List.mem_of_find?_eq_some hfind
      have hp := List.find?_some hfind
      have hti : t.id = id := by simp at hp; exact hp.1
      exact finv_saveWal id t h htm hti rfl rfl rfl rfl rfl rfl rfl rfl rfl rfl rfl

theorem finv_saveDoc_step (s s' : State) (id : Nat) (h : FInv s)
    (hs : step s (.saveDoc id) = some s') : FInv s' := by
  simp only [step] at hs
  split at hs
  · cases hs
  · split at hs
    · cases hs
    · rename_i t hfind
      cases hs
      have htm : t ∈ (writeDoc s).tasks := List.mem_of_find?_eq_some hfind
      have hp := List.find?_some hfind
      have hp' : t.id = id ∧ t.walSaved = true := by simpa using hp
      exact finv_saveDoc id t (finv_writeDoc h) htm hp'.1 hp'.2
        (fun c hc => docOk_writeDoc h.idinj c hc) rfl rfl rfl rfl rfl rfl rfl rfl rfl

theorem finv_retain_step (s s' : State) (ids : List Nat) (h : FInv s)
    (hs : step s (.retain ids) = some s') : FInv s' := by
  simp only [step] at hs
  split at hs
  · cases hs
  · split at hs
    · cases hs
    · cases hs
      exact finv_retain_pre ids h rfl rfl rfl rfl rfl rfl rfl rfl rfl

theorem finv_crash (s s' : State) (h : FInv s) (hs : step s .crash = some s') : FInv s' := by
  simp only [step] at hs
  split at hs
  · cases hs
  · cases hs
    exact finv_frame (s := s) ⟨rfl, rfl, rfl, rfl, rfl, rfl, rfl, rfl, rfl⟩ h

/-- deleting a pending WAL file changes nothing but `files.wals` and `pending` -/
theorem destroyOne_same {s s' : State} (hs : destroyOne s = some s') :
    s'.db = s.db ∧ s'.wal = s.wal ∧ s'.latest = s.latest ∧ s'.ckpts = s.ckpts ∧ s'.done = s.done ∧
    s'.tasks = s.tasks ∧ s'.used = s.used ∧ s'.replaying = s.replaying := by
  unfold destroyOne at hs
  split at hs
  · cases hs
  · simp only [Option.some.injEq] at hs; subst hs; exact ⟨rfl, rfl, rfl, rfl, rfl, rfl, rfl, rfl⟩

theorem finv_saveList_step (s s' : State) (h : FInv s) (hs : step s .saveList = some s') : FInv s' := by
  simp only [step] at hs
  split at hs
  · cases hs
  · cases hs; exact finv_writeDoc h

theorem finv_destroy_step (s s' : State) (h : FInv s) (hs : step s .destroy = some s') : FInv s' := by
  simp only [step] at hs
  split at hs
  · cases hs
  · exact finv_destroy h hs

theorem finv_orphan_step (s s' : State) (id : Nat) (run : Run) (h : FInv s)
    (hs : step s (.orphan id run) = some s') : FInv s' := by
  simp only [step] at hs
  split at hs
  · cases hs
  · split at hs
    · cases hs
    · rename_i hlt
      simp only [Option.some.injEq] at hs
      subst hs
      have hge : s.db.nextId ≤ id := Nat.le_of_not_lt hlt
      have keep : ∀ lv, TablesOk s.files s.db.nextId lv →
          TablesOk { s.files with tables := (id, run) :: s.files.tables } s.db.nextId lv := by
        intro lv hlv t ht
        obtain ⟨a, b⟩ := hlv t ht
        refine ⟨a, ?_⟩
        show assoc ((id, run) :: s.files.tables) t.id = some t.run
        rw [assoc_cons_ne _ _ (by omega)]; exact b
      constructor
      · exact keep _ h.live
      · intro c hc; exact keep _ (h.ck c hc)
      · exact h.idinj
      · exact h.cused
      · exact h.tused
      · exact h.dused
      · exact h.tinj
      · exact h.wltc
      · exact h.wltp
      · exact h.wltt
      · exact h.winj
      · exact h.wdisj
      · exact h.t1
      · exact h.t3
      · intro t ht hst c hc e; exact walOk_files (f := s.files) rfl (h.t2 t ht hst c hc e)
      · intro c hc hd
        obtain ⟨a, b⟩ := h.dn c hc hd
        exact ⟨walOk_files (f := s.files) rfl a, docOk_files (f := s.files) rfl b⟩

theorem finv_openBegin_step (s s' : State) (id : Nat) (hs : step s (.openBegin id) = some s') : FInv s' := by
  simp only [step] at hs
  split at hs
  · cases hs
  · rename_i c hc
    split at hs
    · cases hs
    · simp only [Option.some.injEq] at hs
      subst hs
      exact finv_frame (s := restoreBase s.files c) ⟨rfl, rfl, rfl, rfl, rfl, rfl, rfl, rfl, rfl⟩ (finv_restoreBase hc)

theorem finv_replayOne_step (s s' : State) (rot : Bool) (h : FInv s)
    (hs : step s (.replayOne rot) = some s') : FInv s' := by
  simp only [step] at hs
  split at hs
  · cases hs
  · split at hs
    · cases hs
    · split at hs
      · cases hs
      · rename_i s1 h1
        simp only [Option.some.injEq] at hs
        subst hs
        have fr := writeStep_frame h1
        exact finv_frame (s := s) ⟨fr.files, fr.ckpts, fr.pending, fr.tasks, fr.done, fr.used, fr.levels, fr.nextId, fr.walId⟩ h

theorem finv_step (s s' : State) (a : Act) (h : FInv s) (hs : step s a = some s') : FInv s' :=
  match a, hs with
  | .write del k v rot, hs => finv_write s s' del k v rot h hs
  | .flushBegin n, hs => finv_flushBegin s s' n h hs
  | .flushCommit, hs => finv_flushCommit s s' h hs
  | .compact rm lvl add, hs => finv_compact s s' rm lvl add h hs
  | .checkpoint id, hs => finv_checkpoint_step s s' id h hs
  | .saveWal id, hs => finv_saveWal_step s s' id h hs
  | .saveDoc id, hs => finv_saveDoc_step s s' id h hs
  | .retain ids, hs => finv_retain_step s s' ids h hs
  | .saveList, hs => finv_saveList_step s s' h hs
  | .destroy, hs => finv_destroy_step s s' h hs
  | .orphan id run, hs => finv_orphan_step s s' id run h hs
  | .crash, hs => finv_crash s s' h hs
  | .open id rots, hs => finv_open s s' id rots hs
  | .openBegin id, hs => finv_openBegin_step s s' id hs
  | .replayOne rot, hs => finv_replayOne_step s s' rot h hs

theorem finv_run (s s' : State) (as : List Act) (h : FInv s) (hr : run s as = some s') : FInv s' := by
  induction as generalizing s with
  | nil => simp only [run] at hr; cases hr; exact h
  | cons a as ih =>
    simp only [run] at hr
    split at hr
    · rename_i s1 h1
      exact ih s1 (finv_step s s1 a h h1) hr
    · cases hr

/-- a retained checkpoint whose handle was returned loads back, from the files, as exactly the record in memory -/
theorem load_of_done (s : State) (h : FInv s) (c : Ckpt) (hc : c ∈ s.ckpts) (hd : c.id ∈ s.done) :
    loadCkpt s.files c.id = some c := by
  obtain ⟨hw, d, hdoc, hfind⟩ := h.dn c hc hd
  have hl := loadLevels_of s.files.tables c.levels (fun t ht => (h.ck c hc t ht).2)
  have hw' : assoc s.files.wals c.walId = some c.recs := hw
  unfold loadCkpt
  rw [hdoc]
  simp only []
  rw [hfind]
  simp only [Ckpt.doc, hl, hw']

end Rxn.Ckpt
