import RxnModel.Model.Timers
/-! Lemmas about the operator event loop model (`Timers.Op`): what a flush tells the handler, conservation of events. -/
namespace Rxn.Timers
open Rxn

theorem setTimer_meta (r : Registry) (k : Bytes) (t : Int) :
    (r.setTimer k t).ups = r.ups ∧ (r.setTimer k t).wm = r.wm := by
  unfold Registry.setTimer; split <;> exact ⟨rfl, rfl⟩

theorem setTimers_meta (ts : List Int) (r : Registry) (k : Bytes) :
    (ts.foldl (fun r t => r.setTimer k t) r).ups = r.ups ∧ (ts.foldl (fun r t => r.setTimer k t) r).wm = r.wm := by
  induction ts generalizing r with
  | nil => exact ⟨rfl, rfl⟩
  | cons t ts ih =>
    have h1 := setTimer_meta r k t
    have h2 := ih (r.setTimer k t)
    simp only [List.foldl_cons]
    exact ⟨h2.1.trans h1.1, h2.2.trans h1.2⟩

def handlerFold (r : Registry) (e : HEv) : Registry :=
  match e with
  | .keyed k ts => ts.foldl (fun r t => r.setTimer k t) r
  | .expired _ _ => r

theorem handlerFold_meta (es : List HEv) (r : Registry) :
    (es.foldl handlerFold r).ups = r.ups ∧ (es.foldl handlerFold r).wm = r.wm := by
  induction es generalizing r with
  | nil => exact ⟨rfl, rfl⟩
  | cons e es ih =>
    have h2 := ih (handlerFold r e)
    have h1 : (handlerFold r e).ups = r.ups ∧ (handlerFold r e).wm = r.wm := by
      cases e with
      | keyed k ts => exact setTimers_meta ts r k
      | expired _ _ => exact ⟨rfl, rfl⟩
    simp only [List.foldl_cons]
    exact ⟨h2.1.trans h1.1, h2.2.trans h1.2⟩

/-- all events that reached the handler or are still batched -/
def allEvents (reqs : List Req) (o : Op) : List HEv := reqs.flatMap (·.events) ++ o.batch

structure StepOK (o : Op) (res : Op × List Req) : Prop where
  ups : res.1.reg.ups = o.reg.ups
  wm : res.1.reg.wm = o.reg.wm
  maxBatch : res.1.maxBatch = o.maxBatch
  told : ∀ r ∈ res.2, r.told = o.reg.wm

theorem flush_ok (o : Op) : StepOK o o.flush ∧ allEvents o.flush.2 o.flush.1 = o.batch := by
  unfold Op.flush
  by_cases h : o.batch.isEmpty
  · simp only [h, if_true]
    exact ⟨⟨rfl, rfl, rfl, by intro r hr; cases hr⟩, by simp [allEvents]⟩
  · simp only [h]
    have hm := handlerFold_meta o.batch o.reg
    refine ⟨⟨hm.1, hm.2, rfl, ?_⟩, by simp [allEvents]⟩
    intro r hr
    have hr' : r = ⟨o.batch, o.reg.wm⟩ := by simpa using hr
    subst hr'; rfl

theorem add_ok (o : Op) (e : HEv) : StepOK o (o.add e) ∧ allEvents (o.add e).2 (o.add e).1 = o.batch ++ [e] := by
  unfold Op.add
  by_cases h : ({ o with batch := o.batch ++ [e] } : Op).batch.length ≥ ({ o with batch := o.batch ++ [e] } : Op).maxBatch
  · simp only [h, if_true]
    have := flush_ok ({ o with batch := o.batch ++ [e] } : Op)
    exact ⟨⟨this.1.ups, this.1.wm, this.1.maxBatch, this.1.told⟩, this.2⟩
  · simp only [h, if_false]
    exact ⟨⟨rfl, rfl, rfl, by intro r hr; cases hr⟩, by simp [allEvents]⟩

theorem allEvents_append (r1 r2 : List Req) (o : Op) :
    allEvents (r1 ++ r2) o = r1.flatMap (·.events) ++ allEvents r2 o := by
  simp [allEvents, List.flatMap_append]

/-- the fire loop of `handleWatermark`: the upstream map and the composite stay as set before the loop, every request
flushed inside the loop carries that composite, and the loop only adds `TimerExpired` events at or before it -/
theorem opFireLoop_ok (comp : Int) (n : Nat) (o : Op) :
    StepOK o (Op.fireLoop comp n o) ∧
    ∃ new, allEvents (Op.fireLoop comp n o).2 (Op.fireLoop comp n o).1 = o.batch ++ new ∧
      ∀ e ∈ new, ∃ k t, e = HEv.expired k t ∧ t ≤ comp := by
  induction n generalizing o with
  | zero =>
    simp only [Op.fireLoop]
    exact ⟨⟨rfl, rfl, rfl, by intro r hr; cases hr⟩, [], by simp [allEvents], by intro e he; cases he⟩
  | succ n ih =>
    simp only [Op.fireLoop]
    split
    · exact ⟨⟨rfl, rfl, rfl, by intro r hr; cases hr⟩, [], by simp [allEvents], by intro e he; cases he⟩
    · rename_i k hk
      split
      · exact ⟨⟨rfl, rfl, rfl, by intro r hr; cases hr⟩, [], by simp [allEvents], by intro e he; cases he⟩
      · rename_i hstop
        have hle : (timerOf k).2 ≤ comp := by
          unfold Wm.timeCond Facts.fireStopCond at hstop
          simp at hstop
          exact hstop
        let o1 : Op := { o with reg := { o.reg with store := o.reg.store.deleteKey k } }
        have ha := add_ok o1 (.expired (timerOf k).1 (timerOf k).2)
        have hr := ih (o1.add (.expired (timerOf k).1 (timerOf k).2)).1
        obtain ⟨new, hnew, hall⟩ := hr.2
        refine ⟨⟨?_, ?_, ?_, ?_⟩, (HEv.expired (timerOf k).1 (timerOf k).2) :: new, ?_, ?_⟩
        · exact hr.1.ups.trans ha.1.ups
        · exact hr.1.wm.trans ha.1.wm
        · exact hr.1.maxBatch.trans ha.1.maxBatch
        · intro r hrm
          rcases List.mem_append.mp hrm with h | h
          · exact ha.1.told r h
          · exact (hr.1.told r h).trans ha.1.wm
        · rw [allEvents_append, hnew]
          have h2 := ha.2
          simp only [allEvents] at h2
          show _ = o1.batch ++ _
          rw [← List.append_assoc, h2]
          simp
        · intro e he
          rcases List.mem_cons.mp he with h | h
          · exact ⟨_, _, h, hle⟩
          · exact hall e h

open Rxn.Wm in
theorem reportAll_append (s : Ups × Int) (a b : List (String × Int)) :
    reportAll s (a ++ b) = reportAll (reportAll s a) b := by
  induction a generalizing s with
  | nil => rfl
  | cons m a ih => obtain ⟨id, v⟩ := m; simp [reportAll, ih]

/-- what the registry's upstream map and composite are, for a deployment with runners `ids` that has received `ms` -/
def tracked (o : Op) (s : List String × List (String × Int)) : Prop :=
  (o.reg.ups, o.reg.wm) = Wm.reportAll (Wm.Ups.init s.1, Wm.regInit) s.2

open Rxn.Wm in
theorem step_tracks (o : Op) (s : List String × List (String × Int)) (h : tracked o s) (e : OpEv) :
    tracked (o.step e).1 (epochOf s [e]) ∧
    ∀ r ∈ (o.step e).2, r.told = (reportAll (Ups.init (epochOf s [e]).1, regInit) (epochOf s [e]).2).2 := by
  obtain ⟨ids, ms⟩ := s
  unfold tracked at h ⊢
  cases e with
  | keyed k ts =>
    have hk := (add_ok o (.keyed k ts)).1
    simp only [Op.step, Op.keyed, epochOf]
    refine ⟨by rw [hk.ups, hk.wm]; exact h, ?_⟩
    intro r hr
    rw [hk.told r hr, ← h]
  | wmark sd v =>
    simp only [Op.step, Op.watermark, epochOf]
    have hf := (opFireLoop_ok (o.reg.ups.report sd v).2 (o.reg.store.db.length + 1)
      { o with reg := { o.reg with ups := (o.reg.ups.report sd v).1, wm := (o.reg.ups.report sd v).2 } }).1
    have hrep : reportAll (Ups.init ids, regInit) (ms ++ [(sd, v)]) = o.reg.ups.report sd v := by
      rw [reportAll_append, ← h]; rfl
    refine ⟨by rw [hf.ups, hf.wm, hrep], ?_⟩
    intro r hr
    rw [hf.told r hr, hrep]
  | redeploy st ids' =>
    simp only [Op.step, Op.redeploy, epochOf]
    exact ⟨rfl, by intro r hr; cases hr⟩
  | complete sd =>
    have hk := (flush_ok o).1
    simp only [Op.step, Op.complete, epochOf]
    refine ⟨by rw [hk.ups, hk.wm]; exact h, ?_⟩
    intro r hr
    rw [hk.told r hr, ← h]
  | barrier =>
    have hk := (flush_ok o).1
    simp only [Op.step, Op.barrier, epochOf]
    refine ⟨by rw [hk.ups, hk.wm]; exact h, ?_⟩
    intro r hr
    rw [hk.told r hr, ← h]

theorem epochOf_append (s : List String × List (String × Int)) (a b : List OpEv) :
    epochOf s (a ++ b) = epochOf (epochOf s a) b := by
  induction a generalizing s with
  | nil => rfl
  | cons e a ih =>
    obtain ⟨ids, ms⟩ := s
    cases e <;> simp [epochOf, ih]

theorem runState_tracks (evs : List OpEv) (o : Op) (s : List String × List (String × Int)) (h : tracked o s) :
    tracked (o.runState evs) (epochOf s evs) := by
  induction evs generalizing o s with
  | nil => exact h
  | cons e es ih =>
    simp only [Op.runState]
    have := ih (o.step e).1 (epochOf s [e]) (step_tracks o s h e).1
    rw [← epochOf_append] at this
    exact this

end Rxn.Timers
