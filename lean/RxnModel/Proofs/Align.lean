import RxnModel.Model.Align
/-!
Helper lemmas for C02: projections of observation traces, the trace checkers `cutOK` / `alignOK`, the state
invariant `Inv` and its preservation by every step of `Rxn.Align.step`.
-/
namespace Rxn.Align

/-! ## projections of a trace -/

/-- the items the consumer took, in processing order, with their sender -/
def procsOf : List Obs → List (Nat × Item)
  | [] => []
  | .proc sr it :: r => (sr, it) :: procsOf r
  | .aligned _ _ :: r => procsOf r
  | .busy _ :: r => procsOf r
  | .handler _ _ :: r => procsOf r
  | .reg _ _ :: r => procsOf r
  | .reject _ _ _ :: r => procsOf r
  | .snap _ _ _ :: r => procsOf r
  | .ack _ :: r => procsOf r
  | .released _ :: r => procsOf r

/-- the entries handed to the user handler, in order -/
def entriesOf : List Obs → List Entry
  | [] => []
  | .handler es _ :: r => es ++ entriesOf r
  | .proc _ _ :: r => entriesOf r
  | .aligned _ _ :: r => entriesOf r
  | .busy _ :: r => entriesOf r
  | .reg _ _ :: r => entriesOf r
  | .reject _ _ _ :: r => entriesOf r
  | .snap _ _ _ :: r => entriesOf r
  | .ack _ :: r => entriesOf r
  | .released _ :: r => entriesOf r

/-- senders whose barrier was accepted since the last snapshot -/
def gotOf : List Nat → List Obs → List Nat
  | g, [] => g
  | g, .reg sr _ :: r => gotOf (sr :: g) r
  | _, .snap _ _ _ :: r => gotOf [] r
  | g, .proc _ _ :: r => gotOf g r
  | g, .handler _ _ :: r => gotOf g r
  | g, .aligned _ _ :: r => gotOf g r
  | g, .busy _ :: r => gotOf g r
  | g, .reject _ _ _ :: r => gotOf g r
  | g, .ack _ :: r => gotOf g r
  | g, .released _ :: r => gotOf g r

theorem procsOf_append (a b : List Obs) : procsOf (a ++ b) = procsOf a ++ procsOf b := by
  induction a with
  | nil => rfl
  | cons x r ih => cases x <;> simp [procsOf, ih]

theorem entriesOf_append (a b : List Obs) : entriesOf (a ++ b) = entriesOf a ++ entriesOf b := by
  induction a with
  | nil => rfl
  | cons x r ih => cases x <;> simp [entriesOf, ih]

theorem gotOf_append (g : List Nat) (a b : List Obs) : gotOf g (a ++ b) = gotOf (gotOf g a) b := by
  induction a generalizing g with
  | nil => rfl
  | cons x r ih => cases x <;> simp [gotOf, ih]

/-- keyed events among handler entries, with their (ghost) sender -/
def userOf : List Entry → List (Nat × Bytes × Nat × Nat)
  | [] => []
  | .user sr k p t :: r => (sr, k, p, t) :: userOf r
  | .timer _ _ _ :: r => userOf r

/-- keyed events among processed items -/
def userProcs : List (Nat × Item) → List (Nat × Bytes × Nat × Nat)
  | [] => []
  | (sr, .ev k p t) :: r => (sr, k, p, t) :: userProcs r
  | (_, .wm _) :: r => userProcs r
  | (_, .bar _) :: r => userProcs r

theorem userOf_append (a b : List Entry) : userOf (a ++ b) = userOf a ++ userOf b := by
  induction a with
  | nil => rfl
  | cons x r ih => cases x <;> simp [userOf, ih]

theorem userProcs_append (a b : List (Nat × Item)) : userProcs (a ++ b) = userProcs a ++ userProcs b := by
  induction a with
  | nil => rfl
  | cons x r ih =>
    obtain ⟨sr, it⟩ := x
    cases it <;> simp [userProcs, ih]

/-- the last item of sender `sr` the consumer took -/
def lastProc (sr : Nat) (p : List (Nat × Item)) : Option Item :=
  ((p.filter fun x => x.1 = sr).getLast?).map (·.2)

theorem lastProc_concat (sr sr' : Nat) (it : Item) (p : List (Nat × Item)) :
    lastProc sr (p ++ [(sr', it)]) = if sr' = sr then some it else lastProc sr p := by
  unfold lastProc
  by_cases h : sr' = sr
  · simp [List.filter_append, h]
  · simp [List.filter_append, h]

/-- **the cut**: what a snapshot `S` with id `id`, taken after the consumer took `p` and the handler received `a`,
must satisfy -/
def Cut (k : Nat) (p : List (Nat × Item)) (a : List Entry) (id : Nat) (S : KVf) : Prop :=
  S = a.foldl applyRec emptyKV ∧ userOf a = userProcs p ∧ ∀ sr, sr < k → lastProc sr p = some (.bar id)

/-- trace checker: every snapshot in the trace is a consistent cut of what precedes it -/
def cutOK (k : Nat) : List (Nat × Item) → List Entry → List Obs → Prop
  | _, _, [] => True
  | p, a, .proc sr it :: r => cutOK k (p ++ [(sr, it)]) a r
  | p, a, .handler es _ :: r => cutOK k p (a ++ es) r
  | p, a, .snap id S _ :: r => Cut k p a id S ∧ cutOK k p a r
  | p, a, .aligned _ _ :: r => cutOK k p a r
  | p, a, .busy _ :: r => cutOK k p a r
  | p, a, .reg _ _ :: r => cutOK k p a r
  | p, a, .reject _ _ _ :: r => cutOK k p a r
  | p, a, .ack _ :: r => cutOK k p a r
  | p, a, .released _ :: r => cutOK k p a r

theorem cutOK_append (k : Nat) (p : List (Nat × Item)) (a : List Entry) (o1 o2 : List Obs) :
    cutOK k p a (o1 ++ o2) ↔ cutOK k p a o1 ∧ cutOK k (p ++ procsOf o1) (a ++ entriesOf o1) o2 := by
  induction o1 generalizing p a with
  | nil => simp [cutOK, procsOf, entriesOf]
  | cons x r ih =>
    cases x <;> simp [cutOK, procsOf, entriesOf, ih, and_assoc, List.append_assoc]

theorem cutOK_split {k : Nat} {p : List (Nat × Item)} {a : List Entry} {pre post : List Obs} {id : Nat} {S : KVf}
    {T : Timers} (h : cutOK k p a (pre ++ .snap id S T :: post)) :
    Cut k (p ++ procsOf pre) (a ++ entriesOf pre) id S := by
  rw [cutOK_append] at h
  exact h.2.1

/-- trace checker for the alignment discipline: a sender whose barrier was accepted is not served again before
the snapshot, and a snapshot is only taken when every sender's barrier was accepted since the previous one -/
def alignOK (k : Nat) : List Nat → List Obs → Prop
  | _, [] => True
  | g, .reg sr _ :: r => alignOK k (sr :: g) r
  | g, .proc sr _ :: r => sr ∉ g ∧ alignOK k g r
  | g, .snap _ _ _ :: r => (∀ sr, sr < k → sr ∈ g) ∧ alignOK k [] r
  | g, .handler _ _ :: r => alignOK k g r
  | g, .aligned _ _ :: r => alignOK k g r
  | g, .busy _ :: r => alignOK k g r
  | g, .reject _ _ _ :: r => alignOK k g r
  | g, .ack _ :: r => alignOK k g r
  | g, .released _ :: r => alignOK k g r

theorem alignOK_append (k : Nat) (g : List Nat) (o1 o2 : List Obs) :
    alignOK k g (o1 ++ o2) ↔ alignOK k g o1 ∧ alignOK k (gotOf g o1) o2 := by
  induction o1 generalizing g with
  | nil => simp [alignOK, gotOf]
  | cons x r ih => cases x <;> simp [alignOK, gotOf, ih, and_assoc]

/-- observation lists that only contain handler calls -/
def OnlyH (o : List Obs) : Prop := ∀ x ∈ o, ∃ es g, x = Obs.handler es g

theorem OnlyH.nil : OnlyH [] := by intro x hx; cases hx

theorem OnlyH.append {a b : List Obs} (ha : OnlyH a) (hb : OnlyH b) : OnlyH (a ++ b) := by
  intro x hx
  rcases List.mem_append.mp hx with h | h
  · exact ha x h
  · exact hb x h

theorem OnlyH.tail {x : Obs} {r : List Obs} (h : OnlyH (x :: r)) : OnlyH r :=
  fun y hy => h y (List.mem_cons_of_mem _ hy)

theorem OnlyH.head {x : Obs} {r : List Obs} (h : OnlyH (x :: r)) : ∃ es g, x = Obs.handler es g :=
  h x (List.mem_cons_self)

theorem OnlyH.procsOf {o : List Obs} (h : OnlyH o) : procsOf o = [] := by
  induction o with
  | nil => rfl
  | cons x r ih =>
    obtain ⟨es, g, rfl⟩ := h.head
    simpa [Align.procsOf] using ih h.tail

theorem OnlyH.gotOf {o : List Obs} (h : OnlyH o) (g : List Nat) : gotOf g o = g := by
  induction o with
  | nil => rfl
  | cons x r ih =>
    obtain ⟨es, g', rfl⟩ := h.head
    simpa [Align.gotOf] using ih h.tail

theorem OnlyH.cutOK {o : List Obs} (h : OnlyH o) (k : Nat) (p : List (Nat × Item)) (a : List Entry) :
    cutOK k p a o := by
  induction o generalizing a with
  | nil => trivial
  | cons x r ih =>
    obtain ⟨es, g', rfl⟩ := h.head
    simpa [Align.cutOK] using ih h.tail _

theorem OnlyH.alignOK {o : List Obs} (h : OnlyH o) (k : Nat) (g : List Nat) : alignOK k g o := by
  induction o with
  | nil => trivial
  | cons x r ih =>
    obtain ⟨es, g', rfl⟩ := h.head
    simpa [Align.alignOK] using ih h.tail

/-! ## batching: entries only move from `pending` to the handler, in order -/

/-- `s'` is reached from `s` by adding the entries `es` to the batcher, possibly flushing on the way; `o` holds
the handler calls made -/
structure Ext (s s' : St) (o : List Obs) (es : List Entry) : Prop where
  k : s'.k = s.k
  maxSize : s'.maxSize = s.maxSize
  slots : s'.slots = s.slots
  ckpt : s'.ckpt = s.ckpt
  onlyH : OnlyH o
  ents : entriesOf o ++ s'.pending = s.pending ++ es
  kv : s'.kv = (entriesOf o).foldl applyRec s.kv

theorem Ext.refl (s : St) : Ext s s [] [] :=
  ⟨rfl, rfl, rfl, rfl, OnlyH.nil, by simp [entriesOf], by simp [entriesOf]⟩

theorem Ext.trans {s s1 s2 : St} {o1 o2 : List Obs} {e1 e2 : List Entry}
    (h1 : Ext s s1 o1 e1) (h2 : Ext s1 s2 o2 e2) : Ext s s2 (o1 ++ o2) (e1 ++ e2) := by
  refine ⟨h2.k.trans h1.k, h2.maxSize.trans h1.maxSize, h2.slots.trans h1.slots, h2.ckpt.trans h1.ckpt,
    h1.onlyH.append h2.onlyH, ?_, ?_⟩
  · rw [entriesOf_append, List.append_assoc, h2.ents, ← List.append_assoc, h1.ents, List.append_assoc]
  · rw [entriesOf_append, List.foldl_append, ← h1.kv, h2.kv]

/-- `Ext` only looks at the batching-relevant part of the start state -/
theorem Ext.of_eq {s0 s s' : St} {o : List Obs} {es : List Entry} (h : Ext s0 s' o es)
    (hk : s0.k = s.k) (hm : s0.maxSize = s.maxSize) (hs : s0.slots = s.slots) (hc : s0.ckpt = s.ckpt)
    (hp : s0.pending = s.pending) (hkv : s0.kv = s.kv) : Ext s s' o es :=
  ⟨h.k.trans hk, h.maxSize.trans hm, h.slots.trans hs, h.ckpt.trans hc, h.onlyH, by rw [← hp]; exact h.ents,
   by rw [← hkv]; exact h.kv⟩

theorem flush_ext (s : St) : Ext s (flush s).1 (flush s).2 [] := by
  unfold flush
  split
  · exact Ext.refl s
  · refine ⟨rfl, rfl, rfl, rfl, ?_, ?_, ?_⟩
    · intro x hx
      simp at hx
      exact ⟨_, _, hx⟩
    · simp [entriesOf]
    · simp [entriesOf]

theorem flush_pending (s : St) : (flush s).1.pending = [] := by
  unfold flush
  split
  · rename_i h
    simpa using h
  · rfl

theorem push_ext (s : St) (e : Entry) : Ext s (push s e) [] [e] := by
  unfold push
  split
  · rename_i hp
    have hp' : s.pending = [] := by simpa using hp
    exact ⟨rfl, rfl, rfl, rfl, OnlyH.nil, by simp [entriesOf, hp'], by simp [entriesOf]⟩
  · exact ⟨rfl, rfl, rfl, rfl, OnlyH.nil, by simp [entriesOf], by simp [entriesOf]⟩

theorem maybeFlush_ext (s : St) : Ext s (maybeFlush s).1 (maybeFlush s).2 [] := by
  unfold maybeFlush
  split
  · exact flush_ext s
  · exact Ext.refl s

theorem addEntry_ext (s : St) (e : Entry) : Ext s (addEntry s e).1 (addEntry s e).2 [e] := by
  have h := (push_ext s e).trans (maybeFlush_ext (push s e))
  simpa [addEntry] using h

theorem fireLoop_ext (sr w : Nat) : ∀ (n : Nat) (s : St) (o0 : List Obs),
    ∃ o es, (fireLoop sr w n s o0).2 = o0 ++ o ∧ Ext s (fireLoop sr w n s o0).1 o es ∧ userOf es = [] := by
  intro n
  induction n with
  | zero => intro s o0; exact ⟨[], [], by simp [fireLoop], Ext.refl s, rfl⟩
  | succ n ih =>
    intro s o0
    unfold fireLoop
    split
    · exact ⟨[], [], by simp, Ext.refl s, rfl⟩
    · rename_i ts key rest hts
      split
      · exact ⟨[], [], by simp, Ext.refl s, rfl⟩
      · have h1 := (addEntry_ext { s with timers := rest } (.timer sr key ts)).of_eq
          (s := s) rfl rfl rfl rfl rfl rfl
        obtain ⟨o, es, ho, hext, hu⟩ := ih (addEntry { s with timers := rest } (.timer sr key ts)).1
          (o0 ++ (addEntry { s with timers := rest } (.timer sr key ts)).2)
        refine ⟨(addEntry { s with timers := rest } (.timer sr key ts)).2 ++ o, [.timer sr key ts] ++ es, ?_,
          h1.trans hext, ?_⟩
        · simp only [ho, List.append_assoc]
        · simp [userOf, hu]

/-! ## the state invariant -/

/-- `p` = items the consumer took so far, `a` = entries the handler received so far, `g` = senders whose barrier
was accepted since the last snapshot -/
structure Inv (s : St) (p : List (Nat × Item)) (a : List Entry) (g : List Nat) : Prop where
  kv_eq : s.kv = a.foldl applyRec emptyKV
  users : userOf (a ++ s.pending) = userProcs p
  ck : ∀ id m, s.ckpt = some (id, m) → ∀ sr, sr < s.k → sr ∉ m →
        lastProc sr p = some (.bar id) ∧ ∀ it, s.slots sr ≠ some (it, true)
  parked : ∀ sr it, s.slots sr = some (it, false) → ∃ id m, s.ckpt = some (id, m) ∧ sr ∉ m
  got : ∀ sr, sr ∈ g ↔ ∃ id m, s.ckpt = some (id, m) ∧ sr < s.k ∧ sr ∉ m

theorem inv_init (k b : Nat) : Inv (init k b) [] [] [] :=
  ⟨rfl, rfl, by intro id m h; simp [init] at h, by intro sr it h; simp [init] at h,
   by intro sr; simp [init]⟩

/-- a sender that passed alignment is not among those whose barrier was accepted -/
theorem Inv.passed_missing {s : St} {p a g} (h : Inv s p a g) {sr : Nat} {it : Item} (hsr : sr < s.k)
    (hslot : s.slots sr = some (it, true)) {id : Nat} {m : List Nat} (hc : s.ckpt = some (id, m)) : sr ∈ m := by
  by_cases hm : sr ∈ m
  · exact hm
  · exact absurd hslot ((h.ck id m hc sr hsr hm).2 it)

theorem Inv.passed_not_got {s : St} {p a g} (h : Inv s p a g) {sr : Nat} {it : Item} (hsr : sr < s.k)
    (hslot : s.slots sr = some (it, true)) : sr ∉ g := by
  intro hg
  obtain ⟨id, m, hc, _, hm⟩ := (h.got sr).mp hg
  exact hm (h.passed_missing hsr hslot hc)

/-- clearing the slot of a sender (its `HandleEvent` returned) -/
theorem Inv.clear {s : St} {p a g} (h : Inv s p a g) (sr : Nat) :
    Inv { s with slots := fun i => if i = sr then none else s.slots i } p a g := by
  refine ⟨h.kv_eq, h.users, ?_, ?_, h.got⟩
  · intro id m hc x hx hxm
    refine ⟨(h.ck id m hc x hx hxm).1, ?_⟩
    intro it
    by_cases hxs : x = sr
    · simp [hxs]
    · simpa [hxs] using (h.ck id m hc x hx hxm).2 it
  · intro x it hslot
    by_cases hxs : x = sr
    · simp [hxs] at hslot
    · simp only [hxs, if_false] at hslot
      exact h.parked x it hslot

/-- batching steps keep the invariant, given what happened to the processed list -/
theorem Inv.ext {s s' : St} {p p' a g} {o : List Obs} {es : List Entry} (h : Inv s p a g) (hx : Ext s s' o es)
    (hu : userProcs p' = userProcs p ++ userOf es)
    (hl : ∀ id m sr, s.ckpt = some (id, m) → sr < s.k → sr ∉ m → lastProc sr p' = lastProc sr p) :
    Inv s' p' (a ++ entriesOf o) g := by
  refine ⟨?_, ?_, ?_, ?_, ?_⟩
  · rw [hx.kv, List.foldl_append, ← h.kv_eq]
  · rw [List.append_assoc, hx.ents, ← List.append_assoc, userOf_append, h.users, hu]
  · intro id m hc sr hsr hm
    rw [hx.ckpt] at hc
    rw [hx.k] at hsr
    rw [hx.slots, hl id m sr hc hsr hm]
    exact h.ck id m hc sr hsr hm
  · intro sr it hslot
    rw [hx.slots] at hslot
    rw [hx.ckpt]
    exact h.parked sr it hslot
  · intro sr
    rw [hx.ckpt, hx.k]
    exact h.got sr

/-! ## the barrier handler -/

theorem barrier_reject {s : St} {sr id : Nat} (h : id ≠ (virtCk s id).1) :
    barrier s sr id = ({ s with ckpt := some (virtCk s id) }, [.reject sr id (virtCk s id).1]) := by
  unfold barrier
  simp only []
  rw [if_pos h]

theorem barrier_reg {s : St} {sr id : Nat} (h : id = (virtCk s id).1)
    (hm : ((virtCk s id).2.filter (· ≠ sr)).isEmpty = false) :
    barrier s sr id =
      ({ s with ckpt := some ((virtCk s id).1, (virtCk s id).2.filter (· ≠ sr)) }, [.reg sr id]) := by
  unfold barrier
  simp only []
  rw [if_neg (by simpa using h), if_neg (by rw [hm]; simp)]

theorem barrier_done {s : St} {sr id : Nat} (h : id = (virtCk s id).1)
    (hm : ((virtCk s id).2.filter (· ≠ sr)).isEmpty = true) :
    barrier s sr id =
      ({ (flush s).1 with ckpt := none, slots := release (flush s).1.slots },
       [.reg sr id] ++ (flush s).2 ++
         [.snap (virtCk s id).1 (flush s).1.kv (flush s).1.timers, .ack (virtCk s id).1, .released (parkedList s)]) := by
  unfold barrier
  simp only []
  rw [if_neg (by simpa using h), if_pos hm]

/-- facts about the checkpoint the barrier handler works on, uniform in "existing" vs "fresh" -/
theorem virt_facts {s : St} {p a g} (h : Inv s p a g) {sr id : Nat} (hsr : sr < s.k) {it : Item}
    (hslot : s.slots sr = some (it, true)) :
    (s.ckpt = none ∨ s.ckpt = some (virtCk s id)) ∧
    (s.ckpt = none → (virtCk s id).1 = id) ∧
    (∀ x, x < s.k → x ∉ (virtCk s id).2 →
      lastProc x p = some (.bar (virtCk s id).1) ∧ ∀ it, s.slots x ≠ some (it, true)) ∧
    (∀ x, x ∈ g ↔ x < s.k ∧ x ∉ (virtCk s id).2) ∧
    sr ∈ (virtCk s id).2 ∧
    (∀ x it, s.slots x = some (it, false) → s.ckpt = some (virtCk s id) ∧ x ∉ (virtCk s id).2) := by
  cases hc : s.ckpt with
  | none =>
    have hv : virtCk s id = (id, List.range s.k) := by simp [virtCk, hc]
    rw [hv]
    refine ⟨Or.inl rfl, fun _ => rfl, ?_, ?_, by simpa using hsr, ?_⟩
    · intro x hx hxm
      exact absurd (List.mem_range.mpr hx) hxm
    · intro x
      constructor
      · intro hg
        obtain ⟨i, m, hc', _⟩ := (h.got x).mp hg
        rw [hc] at hc'
        cases hc'
      · intro ⟨hx, hxm⟩
        exact absurd (List.mem_range.mpr hx) hxm
    · intro x it' hs
      obtain ⟨i, m, hc', _⟩ := h.parked x it' hs
      rw [hc] at hc'
      cases hc'
  | some c =>
    obtain ⟨i, m⟩ := c
    have hv : virtCk s id = (i, m) := by simp [virtCk, hc]
    rw [hv]
    refine ⟨Or.inr rfl, fun h0 => (by cases h0), ?_, ?_, h.passed_missing hsr hslot hc, ?_⟩
    · intro x hx hxm
      exact h.ck i m hc x hx hxm
    · intro x
      constructor
      · intro hg
        obtain ⟨i', m', hc', hx, hxm⟩ := (h.got x).mp hg
        rw [hc] at hc'
        cases hc'
        exact ⟨hx, hxm⟩
      · intro ⟨hx, hxm⟩
        exact (h.got x).mpr ⟨i, m, hc, hx, hxm⟩
    · intro x it' hs
      obtain ⟨i', m', hc', hxm⟩ := h.parked x it' hs
      rw [hc] at hc'
      cases hc'
      exact ⟨rfl, hxm⟩

theorem filter_ne_empty {m : List Nat} {sr : Nat} (hm : (m.filter (· ≠ sr)).isEmpty = true) {x : Nat}
    (hx : x ∈ m) : x = sr := by
  by_cases h : x = sr
  · exact h
  · have : x ∈ m.filter (· ≠ sr) := List.mem_filter.mpr ⟨hx, by simpa using h⟩
    rw [List.isEmpty_iff.mp hm] at this
    cases this

/-- the consumer runs `handleCheckpointBarrier` for a sender that passed alignment -/
theorem barrier_inv {s : St} {p a g} (h : Inv s p a g) {sr id : Nat} (hsr : sr < s.k)
    (hslot : s.slots sr = some (.bar id, true)) :
    (barrier s sr id).1.k = s.k ∧
    Inv { (barrier s sr id).1 with slots := fun i => if i = sr then none else (barrier s sr id).1.slots i }
      (p ++ [(sr, .bar id)] ++ procsOf (barrier s sr id).2) (a ++ entriesOf (barrier s sr id).2)
      (gotOf g (barrier s sr id).2) ∧
    cutOK s.k (p ++ [(sr, .bar id)]) a (barrier s sr id).2 ∧ alignOK s.k g (barrier s sr id).2 := by
  obtain ⟨hck, hfresh, hcv, hgv, hsrc, hpk⟩ := virt_facts h hsr hslot (id := id)
  have hnotg : sr ∉ g := h.passed_not_got hsr hslot
  by_cases hid : id = (virtCk s id).1
  · by_cases hm : ((virtCk s id).2.filter (· ≠ sr)).isEmpty = true
    · -- last barrier: flush, snapshot, ack, reset, release
      rw [barrier_done hid hm]
      have hf := flush_ext s
      have hfp := flush_pending s
      have hents : entriesOf (flush s).2 = s.pending := by
        have := hf.ents
        rw [hfp] at this
        simpa using this
      have hall : ∀ x, x < s.k → x ≠ sr → x ∉ (virtCk s id).2 := fun x _ hne hx => hne (filter_ne_empty hm hx)
      refine ⟨hf.k, ?_, ?_, ?_⟩
      · refine ⟨?_, ?_, ?_, ?_, ?_⟩
        · simp only [entriesOf_append, entriesOf, List.append_nil, List.nil_append]
          rw [hf.kv, List.foldl_append, ← h.kv_eq]
        · simp only [entriesOf_append, entriesOf, procsOf_append, procsOf, hf.onlyH.procsOf, List.append_nil,
            List.nil_append, hfp]
          rw [hents, userProcs_append, h.users]
          simp [userProcs]
        · intro i m hc
          cases hc
        · intro x it hs
          by_cases hx : x = sr
          · simp [hx] at hs
          · simp only [hx, if_false, release] at hs
            cases hsx : (flush s).1.slots x with
            | none => simp [hsx] at hs
            | some v => simp [hsx] at hs
        · intro x
          simp [gotOf_append, gotOf]
      · simp only [List.cons_append, List.nil_append, cutOK]
        rw [cutOK_append]
        refine ⟨hf.onlyH.cutOK _ _ _, ?_⟩
        simp only [cutOK, hf.onlyH.procsOf, List.append_nil, and_true]
        refine ⟨?_, ?_, ?_⟩
        · rw [hf.kv, List.foldl_append, ← h.kv_eq]
        · rw [hents, userProcs_append, h.users]
          simp [userProcs]
        · intro x hx
          rw [lastProc_concat]
          by_cases hxs : sr = x
          · simp [hxs, ← hid]
          · simp only [hxs, if_false]
            exact (hcv x hx (hall x hx (Ne.symm hxs))).1
      · simp only [List.cons_append, List.nil_append, alignOK]
        rw [alignOK_append]
        refine ⟨hf.onlyH.alignOK _ _, ?_⟩
        simp only [alignOK, hf.onlyH.gotOf, and_true]
        intro x hx
        by_cases hxs : x = sr
        · simp [hxs]
        · exact List.mem_cons_of_mem _ ((hgv x).mpr ⟨hx, hall x hx hxs⟩)
    · -- barrier accepted, checkpoint still incomplete
      have hm' : ((virtCk s id).2.filter (· ≠ sr)).isEmpty = false := by simpa using hm
      rw [barrier_reg hid hm']
      refine ⟨rfl, ?_, trivial, ?_⟩
      · refine ⟨by simpa [entriesOf] using h.kv_eq, ?_, ?_, ?_, ?_⟩
        · simp only [entriesOf, procsOf, List.append_nil, userProcs_append]
          rw [h.users]
          simp [userProcs]
        · intro i m hc x hx hxm
          simp only [Option.some.injEq, Prod.mk.injEq] at hc
          obtain ⟨rfl, rfl⟩ := hc
          simp only [procsOf, List.append_nil]
          rw [lastProc_concat]
          by_cases hxs : sr = x
          · subst hxs
            simp [← hid]
          · simp only [hxs, if_false]
            have hxm' : x ∉ (virtCk s id).2 := by
              intro hin
              exact hxm (List.mem_filter.mpr ⟨hin, by simpa using (Ne.symm hxs)⟩)
            refine ⟨(hcv x hx hxm').1, ?_⟩
            intro it
            simp only [Ne.symm hxs, if_false]
            exact (hcv x hx hxm').2 it
        · intro x it hs
          by_cases hxs : x = sr
          · simp [hxs] at hs
          · simp only [hxs, if_false] at hs
            refine ⟨_, _, rfl, ?_⟩
            intro hin
            exact (hpk x it hs).2 (List.mem_filter.mp hin).1
        · intro x
          simp only [gotOf, List.mem_cons]
          constructor
          · intro hx
            rcases hx with rfl | hx
            · exact ⟨_, _, rfl, hsr, by simp [List.mem_filter]⟩
            · obtain ⟨hxk, hxm⟩ := (hgv x).mp hx
              exact ⟨_, _, rfl, hxk, fun hin => hxm (List.mem_filter.mp hin).1⟩
          · intro ⟨i, m, hc, hxk, hxm⟩
            simp only [Option.some.injEq, Prod.mk.injEq] at hc
            obtain ⟨rfl, rfl⟩ := hc
            by_cases hxs : x = sr
            · exact Or.inl hxs
            · refine Or.inr ((hgv x).mpr ⟨hxk, ?_⟩)
              intro hin
              exact hxm (List.mem_filter.mpr ⟨hin, by simpa using hxs⟩)
      · simp [alignOK]
  · -- id mismatch: rejected, nothing changes
    rw [barrier_reject hid]
    have hsome : s.ckpt = some (virtCk s id) := by
      rcases hck with hnone | hsome
      · exact absurd (hfresh hnone).symm hid
      · exact hsome
    refine ⟨rfl, ?_, trivial, by simp [alignOK]⟩
    refine ⟨by simpa [entriesOf] using h.kv_eq, ?_, ?_, ?_, ?_⟩
    · simp only [entriesOf, procsOf, List.append_nil, userProcs_append]
      rw [h.users]
      simp [userProcs]
    · intro i m hc x hx hxm
      simp only [Option.some.injEq] at hc
      rw [hc] at hsrc hcv
      simp only [procsOf, List.append_nil]
      rw [lastProc_concat]
      have hxs : ¬ sr = x := by
        intro hxs
        subst hxs
        exact hxm hsrc
      simp only [hxs, if_false]
      refine ⟨(hcv x hx hxm).1, ?_⟩
      intro it
      simp only [Ne.symm hxs, if_false]
      exact (hcv x hx hxm).2 it
    · intro x it hs
      by_cases hxs : x = sr
      · simp [hxs] at hs
      · simp only [hxs, if_false] at hs
        exact ⟨_, _, rfl, (hpk x it hs).2⟩
    · intro x
      simp only [gotOf]
      rw [h.got x, hsome]

/-! ## every step preserves the invariant and emits a well-aligned piece of trace -/

/-- what one step must establish -/
def StepOK (s : St) (p : List (Nat × Item)) (a : List Entry) (g : List Nat) (r : St × List Obs) : Prop :=
  r.1.k = s.k ∧ Inv r.1 (p ++ procsOf r.2) (a ++ entriesOf r.2) (gotOf g r.2) ∧ cutOK s.k p a r.2 ∧
    alignOK s.k g r.2

theorem stepOK_triv {s : St} {p a g} (h : Inv s p a g) : StepOK s p a g (s, []) :=
  ⟨rfl, by simpa [procsOf, entriesOf, gotOf] using h, trivial, trivial⟩

theorem stepOK_ext {s s' : St} {p a g} {o : List Obs} (h : Inv s p a g) (hx : Ext s s' o []) :
    StepOK s p a g (s', o) := by
  refine ⟨hx.k, ?_, hx.onlyH.cutOK _ _ _, hx.onlyH.alignOK _ _⟩
  simp only [hx.onlyH.procsOf, hx.onlyH.gotOf, List.append_nil]
  exact h.ext hx (by simp [userOf]) (fun _ _ _ _ _ _ => rfl)

theorem stepOK_go_ext {s s' : St} {p a g} {o : List Obs} {es : List Entry} {sr : Nat} {it : Item}
    (h : Inv s p a g) (hsr : sr < s.k) (hslot : s.slots sr = some (it, true)) (hx : Ext s s' o es)
    (hu : userProcs [(sr, it)] = userOf es) :
    StepOK s p a g ({ s' with slots := fun i => if i = sr then none else s'.slots i }, .proc sr it :: o) := by
  refine ⟨hx.k, ?_, ?_, ?_⟩
  · simp only [procsOf, entriesOf, gotOf, hx.onlyH.procsOf, hx.onlyH.gotOf]
    refine Inv.clear (h.ext hx (p' := p ++ [(sr, it)]) ?_ ?_) sr
    · rw [userProcs_append, hu]
    · intro id m x hc hx' hxm
      rw [lastProc_concat]
      have : ¬ sr = x := by
        intro hxs
        subst hxs
        exact hxm (h.passed_missing hsr hslot hc)
      simp [this]
  · simp only [cutOK]
    exact hx.onlyH.cutOK _ _ _
  · simp only [alignOK]
    exact ⟨h.passed_not_got hsr hslot, hx.onlyH.alignOK _ _⟩

theorem timeout_ext (s : St) (t : Option Nat) : Ext s (timeout s t).1 (timeout s t).2 [] := by
  unfold timeout
  split
  · split
    · exact flush_ext s
    · exact Ext.refl s
  · exact Ext.refl s

theorem step_go_run {s : St} {sr : Nat} {it : Item} (hsr : sr < s.k) (hslot : s.slots sr = some (it, true)) :
    step s (.go sr) =
      ({ (process s sr it).1 with slots := fun i => if i = sr then none else (process s sr it).1.slots i },
       .proc sr it :: (process s sr it).2) := by
  simp [step, hsr, hslot]

theorem step_go_noop {s : St} {sr : Nat} (h : ¬ sr < s.k ∨ ∀ it, s.slots sr ≠ some (it, true)) :
    step s (.go sr) = (s, []) := by
  rcases h with h | h
  · simp [step, h]
  · cases hs : s.slots sr with
    | none => simp [step, hs]
    | some v =>
      obtain ⟨it, b⟩ := v
      cases b with
      | false => simp [step, hs]
      | true => exact absurd hs (h it)

theorem step_ok {s : St} {p a g} (h : Inv s p a g) (act : Act) : StepOK s p a g (step s act) := by
  cases act with
  | align sr it =>
    simp only [step]
    split
    · rename_i hsr
      split
      · exact ⟨rfl, by simpa [procsOf, entriesOf, gotOf] using h, trivial, trivial⟩
      · rename_i hnone
        refine ⟨rfl, ?_, trivial, trivial⟩
        simp only [procsOf, entriesOf, gotOf, List.append_nil]
        refine ⟨h.kv_eq, h.users, ?_, ?_, h.got⟩
        · intro id m hc x hx hxm
          refine ⟨(h.ck id m hc x hx hxm).1, ?_⟩
          intro it'
          by_cases hxs : x = sr
          · subst hxs
            have hpass : passes s x = false := by
              unfold passes
              rw [hc]
              simpa using hxm
            simp [hpass]
          · simp only [hxs, if_false]
            exact (h.ck id m hc x hx hxm).2 it'
        · intro x it' hs
          by_cases hxs : x = sr
          · subst hxs
            simp only [if_true, Option.some.injEq, Prod.mk.injEq] at hs
            have hpass := hs.2
            cases hc : s.ckpt with
            | none => simp [passes, hc] at hpass
            | some c =>
              obtain ⟨id, m⟩ := c
              refine ⟨id, m, rfl, ?_⟩
              simpa [passes, hc] using hpass
          · simp only [hxs, if_false] at hs
            exact h.parked x it' hs
    · exact stepOK_triv h
  | go sr =>
    by_cases hsr : sr < s.k
    · cases hs : s.slots sr with
      | none =>
        rw [step_go_noop (Or.inr (by simp [hs]))]
        exact stepOK_triv h
      | some v =>
        obtain ⟨it, b⟩ := v
        cases b with
        | false =>
          rw [step_go_noop (Or.inr (by simp [hs]))]
          exact stepOK_triv h
        | true =>
          rw [step_go_run hsr hs]
          cases it with
          | ev key pl t =>
            exact stepOK_go_ext h hsr hs (addEntry_ext s (.user sr key pl t)) (by simp [userProcs, userOf])
          | wm ts =>
            simp only [process]
            obtain ⟨o, es, ho, hext, hu⟩ := fireLoop_ext sr
              (minWm s.k fun i => if i = sr then ts else s.wms i) s.timers.length
              { s with wms := fun i => if i = sr then ts else s.wms i,
                       watermark := minWm s.k fun i => if i = sr then ts else s.wms i } []
            rw [ho]
            simp only [List.nil_append]
            exact stepOK_go_ext h hsr hs (hext.of_eq rfl rfl rfl rfl rfl rfl) (by simp [userProcs, hu])
          | bar id =>
            simp only [process]
            obtain ⟨hk, hinv, hcut, hal⟩ := barrier_inv h hsr hs
            refine ⟨hk, ?_, ?_, ?_⟩
            · simpa [procsOf, entriesOf, gotOf] using hinv
            · simpa [cutOK] using hcut
            · simp only [alignOK]
              exact ⟨h.passed_not_got hsr hs, hal⟩
    · rw [step_go_noop (Or.inl hsr)]
      exact stepOK_triv h
  | tick => exact stepOK_ext h (timeout_ext s s.lastSet)
  | stale => exact stepOK_ext h (timeout_ext s s.prevSet)

/-! ## whole runs -/

/-- invariant + trace checkers for a trace prefix -/
def TraceOK (k : Nat) (s : St) (obs : List Obs) : Prop :=
  s.k = k ∧ Inv s (procsOf obs) (entriesOf obs) (gotOf [] obs) ∧ cutOK k [] [] obs ∧ alignOK k [] obs

theorem runFrom_ok (k : Nat) : ∀ (as : List Act) (s : St) (acc : List Obs),
    TraceOK k s acc → TraceOK k (runFrom s acc as).1 (runFrom s acc as).2 := by
  intro as
  induction as with
  | nil => intro s acc h; exact h
  | cons act as ih =>
    intro s acc h
    obtain ⟨hk, hinv, hcut, hal⟩ := h
    obtain ⟨hk', hinv', hcut', hal'⟩ := step_ok hinv act
    simp only [runFrom]
    apply ih
    refine ⟨hk'.trans hk, ?_, ?_, ?_⟩
    · rw [procsOf_append, entriesOf_append, gotOf_append]
      exact hinv'
    · rw [cutOK_append]
      rw [hk] at hcut'
      exact ⟨hcut, by simpa using hcut'⟩
    · rw [alignOK_append]
      rw [hk] at hal'
      exact ⟨hal, hal'⟩

theorem run_ok (k b : Nat) (as : List Act) : TraceOK k (run k b as).1 (run k b as).2 :=
  runFrom_ok k as (init k b) [] ⟨rfl, inv_init k b, trivial, trivial⟩

/-- between an accepted barrier of `sr` and the next item of `sr` the consumer takes there is a snapshot -/
theorem alignOK_blocked {k : Nat} {sr : Nat} {it : Item} : ∀ (mid : List Obs) (g : List Nat) (post : List Obs),
    sr ∈ g → alignOK k g (mid ++ .proc sr it :: post) → ∃ id S T, Obs.snap id S T ∈ mid := by
  intro mid
  induction mid with
  | nil =>
    intro g post hg h
    simp only [List.nil_append, alignOK] at h
    exact absurd hg h.1
  | cons x r ih =>
    intro g post hg h
    cases x with
    | snap id S T => exact ⟨id, S, T, List.mem_cons_self⟩
    | reg x i =>
      simp only [List.cons_append, alignOK] at h
      obtain ⟨id, S, T, hm⟩ := ih (x :: g) post (List.mem_cons_of_mem _ hg) h
      exact ⟨id, S, T, List.mem_cons_of_mem _ hm⟩
    | proc x i =>
      simp only [List.cons_append, alignOK] at h
      obtain ⟨id, S, T, hm⟩ := ih g post hg h.2
      exact ⟨id, S, T, List.mem_cons_of_mem _ hm⟩
    | handler _ _ | aligned _ _ | busy _ | reject _ _ _ | ack _ | released _ =>
      simp only [List.cons_append, alignOK] at h
      obtain ⟨id, S, T, hm⟩ := ih g post hg h
      exact ⟨id, S, T, List.mem_cons_of_mem _ hm⟩

/-- a snapshot needs an accepted barrier of every sender since the previous snapshot -/
theorem alignOK_fresh {k : Nat} {id : Nat} {S : KVf} {T : Timers} : ∀ (mid : List Obs) (g : List Nat)
    (post : List Obs), alignOK k g (mid ++ .snap id S T :: post) →
    ∀ sr, sr < k → sr ∈ g ∨ ∃ i, Obs.reg sr i ∈ mid := by
  intro mid
  induction mid with
  | nil =>
    intro g post h sr hsr
    simp only [List.nil_append, alignOK] at h
    exact Or.inl (h.1 sr hsr)
  | cons x r ih =>
    intro g post h sr hsr
    cases x with
    | snap id' S' T' =>
      simp only [List.cons_append, alignOK] at h
      rcases ih [] post h.2 sr hsr with hg | ⟨i, hm⟩
      · cases hg
      · exact Or.inr ⟨i, List.mem_cons_of_mem _ hm⟩
    | reg x i =>
      simp only [List.cons_append, alignOK] at h
      rcases ih (x :: g) post h sr hsr with hg | ⟨i', hm⟩
      · rcases List.mem_cons.mp hg with rfl | hg
        · exact Or.inr ⟨i, List.mem_cons_self⟩
        · exact Or.inl hg
      · exact Or.inr ⟨i', List.mem_cons_of_mem _ hm⟩
    | proc x i =>
      simp only [List.cons_append, alignOK] at h
      rcases ih g post h.2 sr hsr with hg | ⟨i', hm⟩
      · exact Or.inl hg
      · exact Or.inr ⟨i', List.mem_cons_of_mem _ hm⟩
    | handler _ _ | aligned _ _ | busy _ | reject _ _ _ | ack _ | released _ =>
      simp only [List.cons_append, alignOK] at h
      rcases ih g post h sr hsr with hg | ⟨i', hm⟩
      · exact Or.inl hg
      · exact Or.inr ⟨i', List.mem_cons_of_mem _ hm⟩

end Rxn.Align
